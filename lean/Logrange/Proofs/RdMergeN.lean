import Logrange.Proofs.Mixer
import Logrange.Proofs.MixTree
/-!
# Paging over a merged cursor of ANY number of partitions (C03 goal: `paging_n_partitions`)

Generic part, over C04's mixer-tree model (`Logrange.Mixer.It`, read-only import of `Model/Mixer.lean`, `Proofs/Mixer.lean`,
`Proofs/MixTree.lean`) and any lawful leaf (`LawfulSource`): a page = the read loop (`Get`, emit, `Next`, at most `lim` times)
followed by `commit` (`Get` to settle, export every leaf's position, `Release`); before the next page the environment either
keeps the cursor object (`same`) or builds a new cursor with `newCursor` (`build`) over new leaves made from the exported
positions (`fresh`). If making a new leaf from a leaf's exported position keeps its stream (`hre`, for leaves satisfying an
invariant `P` that `Get`/`Next`/`Release` preserve), the concatenated pages are the first Σ limits events of the merged
stream `t.view` of the first cursor — C04's `mixer_refines_merge` tree semantics (nested `mergeSpec` in the shape of the tree).

The proof needs that a held tree and a newly built one have the same SHAPE (`SameShape`: the reduction of `newCursor` depends
only on the number of sources; `Get`/`Next`/`Release` never change the shape), because the nested merge of unsorted streams
depends on it.
-/
set_option linter.unusedSectionVars false
set_option linter.unusedVariables false
namespace Logrange.MergeN
open Logrange.Mixer Logrange.MixTree LawfulSource

variable {σ : Type} [Source σ] [LawfulSource σ]

/-! ## shape -/

def SameShape : It σ → It σ → Prop
  | .leaf _, .leaf _ => True
  | .mix m a b, .mix m' a' b' => m.bkwd = m'.bkwd ∧ SameShape a a' ∧ SameShape b b'
  | _, _ => False

theorem SameShape.refl : ∀ t : It σ, SameShape t t
  | .leaf _ => trivial
  | .mix _ a b => ⟨rfl, SameShape.refl a, SameShape.refl b⟩

theorem SameShape.symm : ∀ {t u : It σ}, SameShape t u → SameShape u t
  | .leaf _, .leaf _, _ => trivial
  | .mix _ _ _, .mix _ _ _, h => ⟨h.1.symm, SameShape.symm h.2.1, SameShape.symm h.2.2⟩
  | .leaf _, .mix _ _ _, h => h.elim
  | .mix _ _ _, .leaf _, h => h.elim

theorem SameShape.trans : ∀ {t u v : It σ}, SameShape t u → SameShape u v → SameShape t v
  | .leaf _, .leaf _, .leaf _, _, _ => trivial
  | .mix _ _ _, .mix _ _ _, .mix _ _ _, h1, h2 =>
    ⟨h1.1.trans h2.1, SameShape.trans h1.2.1 h2.2.1, SameShape.trans h1.2.2 h2.2.2⟩
  | .leaf _, .mix _ _ _, _, h, _ => h.elim
  | .mix _ _ _, .leaf _, _, h, _ => h.elim
  | .leaf _, .leaf _, .mix _ _ _, _, h => h.elim
  | .mix _ _ _, .mix _ _ _, .leaf _, _, h => h.elim

theorem SameShape.leaves_length : ∀ {t u : It σ}, SameShape t u → t.leaves.length = u.leaves.length
  | .leaf _, .leaf _, _ => rfl
  | .mix _ a b, .mix _ a' b', h => by
    simp only [It.leaves, List.length_append, SameShape.leaves_length h.2.1, SameShape.leaves_length h.2.2]
  | .leaf _, .mix _ _ _, h => h.elim
  | .mix _ _ _, .leaf _, h => h.elim

/-- the stream of a tree is a function of its shape and of its leaves' streams -/
theorem view_congr : ∀ {t u : It σ}, SameShape t u → t.leaves.map view = u.leaves.map view → t.view = u.view
  | .leaf s, .leaf s', _, h => by simpa [It.leaves, It.view] using h
  | .mix m a b, .mix m' a' b', hs, h => by
    simp only [It.leaves, List.map_append] at h
    have hl : (a.leaves.map (view (σ := σ))).length = (a'.leaves.map (view (σ := σ))).length := by
      simp only [List.length_map]; exact hs.2.1.leaves_length
    obtain ⟨h1, h2⟩ := List.append_inj h hl
    simp only [It.view, hs.1, view_congr hs.2.1 h1, view_congr hs.2.2 h2]
  | .leaf _, .mix _ _ _, h, _ => h.elim
  | .mix _ _ _, .leaf _, h, _ => h.elim

/-- a leaf-wise invariant -/
def All (P : σ → Prop) : It σ → Prop
  | .leaf s => P s
  | .mix _ a b => All P a ∧ All P b

theorem All.leaves {P : σ → Prop} : ∀ {t : It σ}, All P t → ∀ s ∈ t.leaves, P s
  | .leaf s, h, x, hx => by simp only [It.leaves, List.mem_singleton] at hx; subst hx; exact h
  | .mix _ a b, h, x, hx => by
    simp only [It.leaves, List.mem_append] at hx
    rcases hx with hx | hx
    · exact All.leaves h.1 x hx
    · exact All.leaves h.2 x hx

section ops
variable (P : σ → Prop) (hg : ∀ s, P s → P (Source.get s).1) (hn : ∀ s, P s → P (Source.next s))
  (hr : ∀ s, P s → P (Source.release s))
include hg hn hr

theorem get_keeps : ∀ t : It σ, SameShape t.get.1 t ∧ (All P t → All P t.get.1)
  | .leaf s => ⟨trivial, fun h => hg s h⟩
  | .mix m a b => by
    have ia := get_keeps a
    have ib := get_keeps b
    have hc := It.selectState_cases m a b a.get b.get
    have hb : (m.selectState a b a.get b.get).1.bkwd = m.bkwd := by
      unfold MixSt.selectState
      by_cases h : m.st ≠ 0
      · simp [h]
      · simp only [h, if_false]
        by_cases h1 : m.eof1 <;> by_cases h2 : m.eof2 <;> cases a.get.2 <;> cases b.get.2 <;>
          simp [h1, h2, MixSt.fetch1, MixSt.fetch2, MixSt.choose] <;> (repeat' split) <;> rfl
    simp only [It.get]
    refine ⟨⟨hb, ?_, ?_⟩, fun h => ⟨?_, ?_⟩⟩
    · rcases hc.1 with e | e <;> rw [e]
      · exact SameShape.refl a
      · exact ia.1
    · rcases hc.2 with e | e <;> rw [e]
      · exact SameShape.refl b
      · exact ib.1
    · rcases hc.1 with e | e <;> rw [e]
      · exact h.1
      · exact ia.2 h.1
    · rcases hc.2 with e | e <;> rw [e]
      · exact h.2
      · exact ib.2 h.2

theorem next_keeps_aux (n : Nat) : ∀ t : It σ, t.size ≤ n → SameShape t.next t ∧ (All P t → All P t.next) := by
  induction n with
  | zero => intro t hn'; cases t <;> simp [It.size] at hn'
  | succ n ih =>
    intro t hsz
    cases t with
    | leaf s =>
      rw [It.next]
      exact ⟨trivial, fun h => hn s h⟩
    | mix m a b =>
      have G := get_keeps P hg hn hr (It.mix m a b)
      have hc := It.selectState_cases m a b a.get b.get
      rw [It.next]
      simp only [It.get] at G
      split
      rename_i m' a' b' heq
      rw [heq] at G hc
      simp only at G hc
      have sza : a'.size ≤ n := by
        have := It.get_size a; simp only [It.size] at hsz
        rcases hc.1 with r | r <;> rw [r] <;> omega
      have szb : b'.size ≤ n := by
        have := It.get_size b; simp only [It.size] at hsz
        rcases hc.2 with r | r <;> rw [r] <;> omega
      obtain ⟨⟨gb, ga1, ga2⟩, gall⟩ := G
      have ia := ih a' sza
      have ib := ih b' szb
      split
      · exact ⟨⟨gb, ia.1.trans ga1, ga2⟩, fun h => ⟨ia.2 (gall h).1, (gall h).2⟩⟩
      · exact ⟨⟨gb, ga1, ib.1.trans ga2⟩, fun h => ⟨(gall h).1, ib.2 (gall h).2⟩⟩
      · exact ⟨⟨gb, ga1, ga2⟩, fun h => gall h⟩

theorem next_keeps (t : It σ) : SameShape t.next t ∧ (All P t → All P t.next) :=
  next_keeps_aux P hg hn hr t.size t (Nat.le_refl _)

theorem release_keeps : ∀ t : It σ, SameShape t.release t ∧ (All P t → All P t.release)
  | .leaf s => ⟨trivial, fun h => hr s h⟩
  | .mix m a b => by
    have ia := release_keeps a
    have ib := release_keeps b
    simp only [It.release]
    exact ⟨⟨rfl, ia.1, ib.1⟩, fun h => ⟨ia.2 h.1, ib.2 h.2⟩⟩

/-- the cursor after the read loop of a page with limit `k` -/
def afterK : Nat → It σ → It σ
  | 0, t => t
  | k + 1, t =>
    match t.get with
    | (t', some _) => afterK k t'.next
    | (t', none) => t'

/-- the read loop of a page: its events are the first `k` of the stream, the cursor is left with the rest -/
theorem page_read : ∀ (k : Nat) (t : It σ), t.WF →
    t.drain k = t.view.take k ∧ (afterK k t).WF ∧ (afterK k t).view = t.view.drop k ∧
    (afterK k t).dir = t.dir ∧ SameShape (afterK k t) t ∧ (All P t → All P (afterK k t)) := by
  intro k
  induction k with
  | zero => intro t h; exact ⟨by simp [It.drain], h, by simp [afterK], rfl, SameShape.refl t, fun h => h⟩
  | succ k ih =>
    intro t h
    obtain ⟨g2, gv, gw, gd, gs⟩ := It.get_spec t h
    have gk := get_keeps P hg hn hr t
    rw [It.drain, afterK]
    cases hgt : t.get with
    | mk t' r =>
      rw [hgt] at g2 gv gw gd gs gk
      simp only at g2 gv gw gd gs gk
      cases r with
      | none =>
        simp only
        have hnil : t.view = [] := List.head?_eq_none_iff.mp g2.symm
        exact ⟨by simp [hnil], gw, by rw [gv, hnil]; simp, gd, gk.1, gk.2⟩
      | some e =>
        simp only
        obtain ⟨nv, nw, nd⟩ := It.next_spec t' gw gs
        have nk := next_keeps P hg hn hr t'
        obtain ⟨i1, i2, i3, i4, i5, i6⟩ := ih t'.next nw
        have hcons : t.view = e :: t.view.tail := by
          cases hv : t.view with
          | nil => rw [hv] at g2; cases g2
          | cons x xs => rw [hv] at g2; simp at g2; simp [g2]
        refine ⟨?_, i2, ?_, by rw [i4, nd, gd], i5.trans (nk.1.trans gk.1), fun hp => i6 (nk.2 (gk.2 hp))⟩
        · rw [i1, nv, gv]; conv => rhs; rw [hcons]
          simp
        · rw [i3, nv, gv]; conv => rhs; rw [hcons]
          simp

end ops

/-! ## `newCursor`'s tree depends on the number of sources only -/
section build
variable [Inhabited σ]

def ShL : List (It σ) → List (It σ) → Prop
  | [], [] => True
  | a :: r, a' :: r' => SameShape a a' ∧ ShL r r'
  | _, _ => False

theorem ShL.length_eq : ∀ {l l' : List (It σ)}, ShL l l' → l.length = l'.length
  | [], [], _ => rfl
  | _ :: r, _ :: r', h => by simp [ShL.length_eq h.2]
  | [], _ :: _, h => h.elim
  | _ :: _, [], h => h.elim

theorem pairs_shape : ∀ (l l' : List (It σ)), ShL l l' → ShL (pairs l) (pairs l')
  | [], [], _ => by simp [pairs, ShL]
  | [a], [a'], h => by simpa [pairs] using h
  | a :: b :: r, a' :: b' :: r', h => by
    obtain ⟨h1, h2, h3⟩ := h
    simp only [pairs]
    exact ⟨⟨rfl, h1, h2⟩, pairs_shape r r' h3⟩
  | [], _ :: _, h => h.elim
  | _ :: _, [], h => h.elim
  | [_], _ :: _ :: _, h => h.2.elim
  | _ :: _ :: _, [_], h => h.2.elim

theorem reduce_shape (fuel : Nat) : ∀ (l l' : List (It σ)), ShL l l' → ShL (reduce fuel l) (reduce fuel l') := by
  induction fuel with
  | zero => intro l l' h; simpa [reduce] using h
  | succ f ih =>
    intro l l' h
    have hl := h.length_eq
    rw [reduce, reduce, ← hl]
    split
    · rw [round_eq_pairs, round_eq_pairs]; exact ih _ _ (pairs_shape l l' h)
    · exact h

theorem build_shape (l l' : List σ) (hl : l.length = l'.length) (t t' : It σ) (ht : build l = some t)
    (ht' : build l' = some t') : SameShape t t' := by
  have hleaf : ∀ (a b : List σ), a.length = b.length → ShL (a.map It.leaf) (b.map It.leaf) := by
    intro a
    induction a with
    | nil => intro b hb; cases b with
      | nil => trivial
      | cons _ _ => simp at hb
    | cons x xs ih => intro b hb; cases b with
      | nil => simp at hb
      | cons y ys => exact ⟨trivial, ih ys (by simpa using hb)⟩
  match l, l', hl, ht, ht' with
  | [], _, _, ht, _ => simp [build] at ht
  | [s], [s'], _, ht, ht' =>
    simp only [build, Option.some.injEq] at ht ht'
    subst ht; subst ht'; trivial
  | [s], [], hl, _, _ => simp at hl
  | [s], _ :: _ :: _, hl, _, _ => simp at hl
  | _ :: _ :: _, [], hl, _, _ => simp at hl
  | _ :: _ :: _, [_], hl, _, _ => simp at hl
  | a :: b :: r, a' :: b' :: r', hl, ht, ht' =>
    simp only [build] at ht ht'
    have hf := reduce_shape (a :: b :: r).length _ _ (hleaf (a :: b :: r) (a' :: b' :: r') hl)
    rw [show (a' :: b' :: r').length = (a :: b :: r).length from hl.symm] at ht'
    generalize reduce (a :: b :: r).length ((a :: b :: r).map It.leaf) = x at hf ht
    generalize reduce (a :: b :: r).length ((a' :: b' :: r').map It.leaf) = y at hf ht'
    match x, y, hf, ht, ht' with
    | [], _, _, ht, _ => simp at ht
    | _ :: _, [], hf, _, _ => exact hf.elim
    | u :: _, v :: _, hf, ht, ht' =>
      simp only [List.head?_cons, Option.some.injEq] at ht ht'
      subst ht; subst ht'; exact hf.1

theorem leaves_ne_nil : ∀ t : It σ, t.leaves ≠ []
  | .leaf s => by simp [It.leaves]
  | .mix _ a b => by simp [It.leaves, leaves_ne_nil a]

end build

/-! ## chains of pages over a merged cursor -/
section chain
variable [Inhabited σ] (P : σ → Prop) (refresh : σ → σ)

/-- one page with limit `lim`: the committed cursor (`Get` to settle, `Release`) and the events -/
def pageN (lim : Nat) (t : It σ) : It σ × List Ev := (((afterK lim t).get.1).release, t.drain lim)

/-- the cursor that serves the next page: the held one, or `newCursor` over leaves made from the exported positions -/
def resumeN (fresh : Bool) (t : It σ) : It σ :=
  if fresh then (build (t.leaves.map refresh)).getD t else t

def pagesN : It σ → List (Bool × Nat) → List (List Ev)
  | _, [] => []
  | t, (f, lim) :: rest =>
    (pageN lim (resumeN refresh f t)).2 :: pagesN (pageN lim (resumeN refresh f t)).1 rest

/-- what is kept between pages -/
def InvN (t : It σ) : Prop :=
  t.WF ∧ t.dir = false ∧ All P t ∧ ∃ l t0, build l = some t0 ∧ SameShape t t0

variable (hg : ∀ s, P s → P (Source.get s).1) (hn : ∀ s, P s → P (Source.next s))
  (hr : ∀ s, P s → P (Source.release s))
  (hre : ∀ s, P s → P (refresh s) ∧ wf (refresh s) ∧ dir (refresh s) = false ∧ view (refresh s) = view s)
include hg hn hr hre

theorem pageN_keeps (lim : Nat) (t : It σ) (h : InvN P t) :
    (pageN lim t).2 = t.view.take lim ∧ InvN P (pageN lim t).1 ∧ (pageN lim t).1.view = t.view.drop lim := by
  obtain ⟨hw, hd, hp, l, t0, hb, hsh⟩ := h
  obtain ⟨r1, r2, r3, r4, r5, r6⟩ := page_read P hg hn hr lim t hw
  obtain ⟨_, gv, gw, gd, _⟩ := It.get_spec (afterK lim t) r2
  have gk := get_keeps P hg hn hr (afterK lim t)
  obtain ⟨rv, rw', rd, _⟩ := It.release_spec _ gw
  have rk := release_keeps P hg hn hr (afterK lim t).get.1
  refine ⟨r1, ⟨rw', by show (afterK lim t).get.1.release.dir = false; rw [rd, gd, r4, hd], rk.2 (gk.2 (r6 hp)), l, t0, hb, ?_⟩,
    by show (afterK lim t).get.1.release.view = _; rw [rv, gv, r3]⟩
  exact rk.1.trans (gk.1.trans (r5.trans hsh))

theorem resumeN_keeps (f : Bool) (t : It σ) (h : InvN P t) :
    InvN P (resumeN refresh f t) ∧ (resumeN refresh f t).view = t.view := by
  cases f with
  | false => exact ⟨by simpa [resumeN] using h, by simp [resumeN]⟩
  | true =>
    obtain ⟨hw, hd, hp, l, t0, hb, hsh⟩ := h
    have hne : t.leaves.map refresh ≠ [] := by
      intro e; exact leaves_ne_nil t (List.map_eq_nil_iff.mp e)
    obtain ⟨F, hF, hFl⟩ := build_leaves (t.leaves.map refresh) hne
    have hres : resumeN refresh true t = F := by simp [resumeN, hF]
    rw [hres]
    have hleafP := All.leaves hp
    -- the new tree is well formed, forward, and satisfies the leaf invariant
    have hall := build_all (fun x : It σ => x.WF ∧ x.dir = false ∧ All P x)
      (fun a b ha hb' => ⟨(It.init_WF a b ha.1 hb'.1 ha.2.1 hb'.2.1).1, rfl, ha.2.2, hb'.2.2⟩)
      (t.leaves.map refresh)
      (by
        intro s hs
        obtain ⟨s0, hs0, rfl⟩ := List.mem_map.mp hs
        obtain ⟨p1, p2, p3, _⟩ := hre s0 (hleafP s0 hs0)
        exact ⟨p2, p3, p1⟩) F hF
    obtain ⟨l0, hl0⟩ : ∃ l0, l0 = t0.leaves := ⟨_, rfl⟩
    have ht0l : t0.leaves = l := by
      have hne0 : l ≠ [] := by intro e; rw [e] at hb; simp [build] at hb
      obtain ⟨t1, h1, h2⟩ := build_leaves l hne0
      rw [hb] at h1; cases h1; exact h2
    have hshF : SameShape F t0 :=
      build_shape _ _ (by rw [List.length_map, hsh.leaves_length, ht0l]) F t0 hF hb
    have hshFt : SameShape F t := hshF.trans hsh.symm
    refine ⟨⟨hall.1, hall.2.1, hall.2.2, l, t0, hb, hshF⟩, ?_⟩
    apply view_congr hshFt
    rw [hFl, List.map_map]
    apply List.map_congr_left
    intro s hs
    exact (hre s (hleafP s hs)).2.2.2

/-- **paging over a merged cursor of any number of sources**: the concatenated pages are the first Σ limits events of the
cursor's merged stream, whatever the limits and whatever is chosen per page -/
theorem pagesN_spec : ∀ (steps : List (Bool × Nat)) (t : It σ), InvN P t →
    (pagesN refresh t steps).flatten = t.view.take (steps.map (·.2)).sum := by
  intro steps
  induction steps with
  | nil => intro t _; simp [pagesN]
  | cons st rest ih =>
    intro t h
    obtain ⟨f, lim⟩ := st
    obtain ⟨hi, hv⟩ := resumeN_keeps P refresh hg hn hr hre f t h
    obtain ⟨e1, hi2, hv2⟩ := pageN_keeps P refresh hg hn hr hre lim _ hi
    rw [pagesN, List.flatten_cons, ih _ hi2, e1, hv2, hv]
    simp only [List.map_cons, List.sum_cons]
    rw [List.take_add]

/-- a tree `newCursor` has just built over leaves satisfying the leaf invariant -/
theorem built_inv (srcs : List σ) (t : It σ) (ht : build srcs = some t)
    (hs : ∀ s ∈ srcs, P s ∧ wf s ∧ dir s = false) : InvN P t := by
  have hall := build_all (fun x : It σ => x.WF ∧ x.dir = false ∧ All P x)
    (fun a b ha hb' => ⟨(It.init_WF a b ha.1 hb'.1 ha.2.1 hb'.2.1).1, rfl, ha.2.2, hb'.2.2⟩) srcs
    (fun s h => ⟨(hs s h).2.1, (hs s h).2.2, (hs s h).1⟩) t ht
  exact ⟨hall.1, hall.2.1, hall.2.2, srcs, t, ht, SameShape.refl t⟩

end chain
end Logrange.MergeN
