import Logrange.Model.TagsEval
/-!
# The tag-expression builder (closures) equals the reference evaluator

One equation per level of the AST, `…Ref so x m = (build… so x).map (fun f => f m)`, proved by structural
recursion over the mutual AST; the `_some` / `_none` forms and `tags_eval_correct` are read off from it.
-/
namespace Logrange.Proofs.TagsEval
open Go Logrange.KV Logrange.Tags Logrange.TagsEval

theorem identRef_eq (so : StrOps) (id : Ident) (m : Map) :
    identRef so id m = (buildIdent so id).map (fun f => f m) := by
  induction id with
  | leaf operand => simp [identRef, buildIdent]
  | bad operand => simp [identRef, buildIdent]
  | call operand p ih =>
    simp only [identRef, buildIdent, ih]
    cases buildIdent so p with
    | none => simp
    | some fint =>
      simp only [Option.map_some]
      by_cases h1 : so.upper operand = UPPER
      · simp [h1]
      · by_cases h2 : so.upper operand = LOWER
        · have h1' : ¬ LOWER = UPPER := h2 ▸ h1
          simp [h2, h1']
        · simp [h1, h2]

theorem like_eq (o : Option Bool) : (o == some true) = o.getD false := by
  cases o with
  | none => rfl
  | some b => cases b <;> rfl

theorem condRef_eq (so : StrOps) (c : Cond) (m : Map) :
    condRef so c m = (buildCond so c).map (fun f => f m) := by
  obtain ⟨ident, op, value⟩ := c
  unfold condRef buildCond
  simp only [identRef_eq]
  cases buildIdent so ident with
  | none => simp
  | some tvf =>
    simp only [Option.map_some]
    cases op <;> simp [bytesLe]
    -- LIKE
    cases so.like value [97, 98, 99] with
    | none => simp
    | some b => simp [like_eq]

mutual
  theorem orRef_eq (so : StrOps) : ∀ (e : OrList) (m : Map),
      orRef so e m = (buildOr so e).map (fun f => f m)
    | .nil, m => by simp [orRef, buildOr]
    | .cons a .nil, m => by
      simp only [orRef, buildOr]
      exact andRef_eq so a m
    | .cons a (.cons b t), m => by
      simp only [orRef, buildOr]
      rw [andRef_eq so a m, orRef_eq so (.cons b t) m]
      cases buildAnd so a <;> cases buildOr so (.cons b t) <;> simp
  theorem andRef_eq (so : StrOps) : ∀ (e : AndList) (m : Map),
      andRef so e m = (buildAnd so e).map (fun f => f m)
    | .nil, m => by simp [andRef, buildAnd]
    | .cons x .nil, m => by
      simp only [andRef, buildAnd]
      exact xRef_eq so x m
    | .cons x (.cons y t), m => by
      simp only [andRef, buildAnd]
      rw [xRef_eq so x m, andRef_eq so (.cons y t) m]
      cases buildX so x <;> cases buildAnd so (.cons y t) <;> simp
  theorem xRef_eq (so : StrOps) : ∀ (x : XCond) (m : Map),
      xRef so x m = (buildX so x).map (fun f => f m)
    | .cond nt c, m => by
      simp only [xRef, buildX, condRef_eq]
      cases buildCond so c <;> cases nt <;> simp
    | .expr nt e, m => by
      simp only [xRef, buildX]
      rw [orRef_eq so e m]
      cases buildOr so e <;> cases nt <;> simp
end

/-! ## the `_some` / `_none` forms -/

theorem buildIdent_some (so : StrOps) (id : Ident) (f : Map → Bytes) (h : buildIdent so id = some f) (m : Map) :
    identRef so id m = some (f m) := by rw [identRef_eq, h]; rfl
theorem buildIdent_none (so : StrOps) (id : Ident) (h : buildIdent so id = none) (m : Map) :
    identRef so id m = none := by rw [identRef_eq, h]; rfl

theorem buildCond_some (so : StrOps) (c : Cond) (f : Map → Bool) (h : buildCond so c = some f) (m : Map) :
    condRef so c m = some (f m) := by rw [condRef_eq, h]; rfl
theorem buildCond_none (so : StrOps) (c : Cond) (h : buildCond so c = none) (m : Map) :
    condRef so c m = none := by rw [condRef_eq, h]; rfl

theorem buildOr_some (so : StrOps) (e : OrList) (f : Map → Bool) (h : buildOr so e = some f) (m : Map) :
    orRef so e m = some (f m) := by rw [orRef_eq, h]; rfl
theorem buildOr_none (so : StrOps) (e : OrList) (h : buildOr so e = none) (m : Map) :
    orRef so e m = none := by rw [orRef_eq, h]; rfl

theorem buildAnd_some (so : StrOps) (e : AndList) (f : Map → Bool) (h : buildAnd so e = some f) (m : Map) :
    andRef so e m = some (f m) := by rw [andRef_eq, h]; rfl
theorem buildAnd_none (so : StrOps) (e : AndList) (h : buildAnd so e = none) (m : Map) :
    andRef so e m = none := by rw [andRef_eq, h]; rfl

theorem buildX_some (so : StrOps) (x : XCond) (f : Map → Bool) (h : buildX so x = some f) (m : Map) :
    xRef so x m = some (f m) := by rw [xRef_eq, h]; rfl
theorem buildX_none (so : StrOps) (x : XCond) (h : buildX so x = none) (m : Map) :
    xRef so x m = none := by rw [xRef_eq, h]; rfl

theorem evalTagsRef_eq (so : StrOps) (src : Source) (m : Map) :
    evalTagsRef so src m = (buildSource so src).map (fun f => f m) := by
  cases src with
  | none => simp [evalTagsRef, buildSource]
  | tags t => simp [evalTagsRef, buildSource, subsetOf, mapSubset]
  | expr e => simp only [evalTagsRef, buildSource]; exact orRef_eq so e m

/-- **The built function is the reference meaning**, and the builder rejects exactly the non-expressions -/
theorem tags_eval_correct (so : StrOps) (src : Source) :
    (∀ f, buildSource so src = some f → ∀ m, evalTagsRef so src m = some (f m)) ∧
    (buildSource so src = none → ∀ m, evalTagsRef so src m = none) := by
  refine ⟨?_, ?_⟩
  · intro f h m; rw [evalTagsRef_eq, h]; rfl
  · intro h m; rw [evalTagsRef_eq, h]; rfl

end Logrange.Proofs.TagsEval
