import Logrange.Model.ForwarderSplit
import Logrange.Proofs.Forwarder
/-! Invariant of the statement-level forwarder LTS (`Model/ForwarderSplit.lean`, code order: position set after the
sink accepted), the quiet-iteration lemma, and the simulation of the atomic LTS (`Model/Forwarder.lean`) by the
statement-level one along `expand`. -/
namespace Logrange.ForwarderSplit

theorem inflight_idle : inflight .idle = 0 := rfl
theorem inflight_got (k : Nat) : inflight (.got k) = 0 := rfl
theorem inflight_accepted (k : Nat) : inflight (.accepted k) = k := rfl
theorem inflight_setting : inflight .setting = 0 := rfl
theorem inflight_stopped : inflight .stopped = 0 := rfl

theorem range'_congr (a x y : Nat) (h : x = y) : List.range' a x = List.range' a y := by rw [h]

theorem range'_extend (a p k x y : Nat) (h : a ≤ p) (hx : x = p - a) (hy : y = p + k - a) :
    List.range' a x ++ List.range' p k = List.range' a y := by
  obtain ⟨d, rfl⟩ : ∃ d, p = a + d := ⟨p - a, by omega⟩
  have e1 : x = d := by omega
  have e2 : y = d + k := by omega
  rw [e1, e2, List.range'_append_1]

structure SInv (s : S) : Prop where
  gotOk : ∀ k, s.pc = .got k → 0 < k ∧ s.pos + k ≤ s.n
  accOk : ∀ k, s.pc = .accepted k → 0 < k
  posLe : s.pos + inflight s.pc ≤ s.n
  descLe : s.desc ≤ s.pos
  descEq : s.pc ≠ .setting → s.desc = s.pos
  diskLe : s.disk ≤ s.desc
  tmpOk : ∀ p, s.tmp = some p → s.disk ≤ p ∧ p ≤ s.desc
  startLe : s.sessionStart ≤ s.pos
  sessEq : s.sess = List.range' s.sessionStart (s.pos + inflight s.pc - s.sessionStart)
  cover : ∀ i, s.start0 ≤ i → i < s.high → i ∈ s.all
  allLt : ∀ i ∈ s.all, s.start0 ≤ i ∧ i < s.high
  posHigh : s.pos + inflight s.pc ≤ s.high
  highLe : s.high ≤ s.n
  s0Disk : s.start0 ≤ s.disk
  s0Sess : s.start0 ≤ s.sessionStart
  accEq : s.pos + inflight s.pc = s.disk + s.accSince
  accTmpEq : ∀ p, s.tmp = some p → s.pos + inflight s.pc = p + s.accTmp

theorem sinv_init (n start : Nat) (h : start ≤ n) : SInv (init n start) := by
  constructor <;> simp [init, inflight, h]

/-- a pc equation between different constructors -/
macro "pc_absurd" : tactic =>
  `(tactic| (intro k0 e; first | cases e | (dsimp only at e; cases e) | (simp at e)))

theorem sinv_step (s : S) (l : L) (h : SInv s) : SInv (step true s l) := by
  have ⟨gotOk, accOk, posLe, descLe, descEq, diskLe, tmpOk, startLe, sessEq, cover, allLt, posHigh, highLe, s0Disk,
    s0Sess, accEq, accTmpEq⟩ := h
  cases l with
  | qFail => exact h
  | query k =>
    cases hpc : s.pc with
    | idle =>
      simp only [step, hpc]
      by_cases hk : min k (s.n - s.pos) = 0
      · simp only [hk, if_true]; exact h
      · simp only [hk, if_false, if_true]
        have hk' : min k (s.n - s.pos) ≤ s.n - s.pos := Nat.min_le_right _ _
        have hin : inflight s.pc = 0 := by rw [hpc]; rfl
        have hd : s.desc = s.pos := descEq (by rw [hpc]; intro e; cases e)
        generalize min k (s.n - s.pos) = m at hk hk' ⊢
        exact
          { gotOk := by
              intro k0 e
              have e' : m = k0 := by injection e
              subst e'
              show 0 < m ∧ s.pos + m ≤ s.n
              omega
            accOk := by pc_absurd
            posLe := by show s.pos + 0 ≤ s.n; omega
            descLe := descLe
            descEq := fun _ => hd
            diskLe := diskLe
            tmpOk := tmpOk
            startLe := startLe
            sessEq := by
              show s.sess = List.range' s.sessionStart (s.pos + 0 - s.sessionStart)
              rw [sessEq]; exact range'_congr _ _ _ (by omega)
            cover := cover
            allLt := allLt
            posHigh := by show s.pos + 0 ≤ s.high; omega
            highLe := highLe
            s0Disk := s0Disk
            s0Sess := s0Sess
            accEq := by show s.pos + 0 = s.disk + s.accSince; omega
            accTmpEq := by
              intro p hp
              have := accTmpEq p hp
              show s.pos + 0 = p + s.accTmp
              omega }
    | _ => simp only [step, hpc]; exact h
  | sink acc =>
    cases hpc : s.pc with
    | got k0 =>
      simp only [step, hpc]
      have hin : inflight s.pc = 0 := by rw [hpc]; rfl
      have hd : s.desc = s.pos := descEq (by rw [hpc]; intro e; cases e)
      obtain ⟨hk0, hk1⟩ := gotOk k0 hpc
      cases acc with
      | false =>
        simp only [Bool.false_eq_true, if_false]
        exact
          { gotOk := by pc_absurd
            accOk := by pc_absurd
            posLe := by show s.pos + 0 ≤ s.n; omega
            descLe := descLe
            descEq := fun _ => hd
            diskLe := diskLe
            tmpOk := tmpOk
            startLe := startLe
            sessEq := by
              show s.sess = List.range' s.sessionStart (s.pos + 0 - s.sessionStart)
              rw [sessEq]; exact range'_congr _ _ _ (by omega)
            cover := cover
            allLt := allLt
            posHigh := by show s.pos + 0 ≤ s.high; omega
            highLe := highLe
            s0Disk := s0Disk
            s0Sess := s0Sess
            accEq := by show s.pos + 0 = s.disk + s.accSince; omega
            accTmpEq := by
              intro p hp
              have := accTmpEq p hp
              show s.pos + 0 = p + s.accTmp
              omega }
      | true =>
        simp only [if_true]
        exact
          { gotOk := by pc_absurd
            accOk := by
              intro k1 e
              have e' : k0 = k1 := by injection e
              subst e'
              exact hk0
            posLe := by show s.pos + k0 ≤ s.n; exact hk1
            descLe := descLe
            descEq := fun _ => hd
            diskLe := diskLe
            tmpOk := tmpOk
            startLe := startLe
            sessEq := by
              show s.sess ++ List.range' s.pos k0 = List.range' s.sessionStart (s.pos + k0 - s.sessionStart)
              rw [sessEq]; exact range'_extend _ _ _ _ _ startLe (by omega) (by omega)
            cover := by
              intro i h1 h2
              show i ∈ s.all ++ List.range' s.pos k0
              have h2' : i < max s.high (s.pos + k0) := h2
              simp only [List.mem_append, List.mem_range'_1]
              by_cases hi : i < s.high
              · exact Or.inl (cover i h1 hi)
              · right; omega
            allLt := by
              intro i hi
              have hi' : i ∈ s.all ++ List.range' s.pos k0 := hi
              show s.start0 ≤ i ∧ i < max s.high (s.pos + k0)
              simp only [List.mem_append, List.mem_range'_1] at hi'
              rcases hi' with hi' | hi'
              · have := allLt i hi'; omega
              · omega
            posHigh := by show s.pos + k0 ≤ max s.high (s.pos + k0); omega
            highLe := by show max s.high (s.pos + k0) ≤ s.n; omega
            s0Disk := s0Disk
            s0Sess := s0Sess
            accEq := by show s.pos + k0 = s.disk + (s.accSince + k0); omega
            accTmpEq := by
              intro p hp
              have := accTmpEq p hp
              show s.pos + k0 = p + (s.accTmp + k0)
              omega }
    | _ => simp only [step, hpc]; exact h
  | replaceReq =>
    cases hpc : s.pc with
    | accepted k0 =>
      simp only [step, hpc]
      have hin : inflight s.pc = k0 := by rw [hpc]; rfl
      have hd : s.desc = s.pos := descEq (by rw [hpc]; intro e; cases e)
      exact
        { gotOk := by pc_absurd
          accOk := by pc_absurd
          posLe := by show s.pos + k0 + 0 ≤ s.n; omega
          descLe := by show s.desc ≤ s.pos + k0; omega
          descEq := fun e => absurd rfl e
          diskLe := diskLe
          tmpOk := tmpOk
          startLe := by show s.sessionStart ≤ s.pos + k0; omega
          sessEq := by
            show s.sess = List.range' s.sessionStart (s.pos + k0 + 0 - s.sessionStart)
            rw [sessEq]; exact range'_congr _ _ _ (by omega)
          cover := cover
          allLt := allLt
          posHigh := by show s.pos + k0 + 0 ≤ s.high; omega
          highLe := highLe
          s0Disk := s0Disk
          s0Sess := s0Sess
          accEq := by show s.pos + k0 + 0 = s.disk + s.accSince; omega
          accTmpEq := by
            intro p hp
            have := accTmpEq p hp
            show s.pos + k0 + 0 = p + s.accTmp
            omega }
    | _ => simp only [step, hpc]; exact h
  | setPos =>
    cases hpc : s.pc with
    | setting =>
      simp only [step, hpc]
      have hin : inflight s.pc = 0 := by rw [hpc]; rfl
      exact
        { gotOk := by pc_absurd
          accOk := by pc_absurd
          posLe := by show s.pos + 0 ≤ s.n; omega
          descLe := Nat.le_refl _
          descEq := fun _ => rfl
          diskLe := by show s.disk ≤ s.pos; omega
          tmpOk := by
            intro p hp
            have := tmpOk p hp
            show s.disk ≤ p ∧ p ≤ s.pos
            omega
          startLe := startLe
          sessEq := by
            show s.sess = List.range' s.sessionStart (s.pos + 0 - s.sessionStart)
            rw [sessEq]; exact range'_congr _ _ _ (by omega)
          cover := cover
          allLt := allLt
          posHigh := by show s.pos + 0 ≤ s.high; omega
          highLe := highLe
          s0Disk := s0Disk
          s0Sess := s0Sess
          accEq := by show s.pos + 0 = s.disk + s.accSince; omega
          accTmpEq := by
            intro p hp
            have := accTmpEq p hp
            show s.pos + 0 = p + s.accTmp
            omega }
    | _ => simp only [step, hpc]; exact h
  | saveBegin =>
    cases ht : s.tmp with
    | some p0 => simp only [step, ht]; exact h
    | none =>
      simp only [step, ht]
      exact
        { gotOk := gotOk
          accOk := accOk
          posLe := posLe
          descLe := descLe
          descEq := descEq
          diskLe := diskLe
          tmpOk := by
            intro p hp
            have e' : s.desc = p := by injection hp
            subst e'
            exact ⟨diskLe, Nat.le_refl _⟩
          startLe := startLe
          sessEq := sessEq
          cover := cover
          allLt := allLt
          posHigh := posHigh
          highLe := highLe
          s0Disk := s0Disk
          s0Sess := s0Sess
          accEq := accEq
          accTmpEq := by
            intro p hp
            have e' : s.desc = p := by injection hp
            subst e'
            show s.pos + inflight s.pc = s.desc + (s.pos + inflight s.pc - s.desc)
            omega }
  | saveRename =>
    cases ht : s.tmp with
    | none => simp only [step, ht]; exact h
    | some p0 =>
      simp only [step, ht]
      obtain ⟨t1, t2⟩ := tmpOk p0 ht
      have t3 := accTmpEq p0 ht
      exact
        { gotOk := gotOk
          accOk := accOk
          posLe := posLe
          descLe := descLe
          descEq := descEq
          diskLe := t2
          tmpOk := by
            intro p hp
            exact absurd hp (by intro e; cases e)
          startLe := startLe
          sessEq := sessEq
          cover := cover
          allLt := allLt
          posHigh := posHigh
          highLe := highLe
          s0Disk := by show s.start0 ≤ p0; omega
          s0Sess := s0Sess
          accEq := t3
          accTmpEq := by
            intro p hp
            exact absurd hp (by intro e; cases e) }
  | stopReq =>
    simp only [step]
    exact ⟨gotOk, accOk, posLe, descLe, descEq, diskLe, tmpOk, startLe, sessEq, cover, allLt, posHigh, highLe, s0Disk,
      s0Sess, accEq, accTmpEq⟩
  | exit =>
    cases hpc : s.pc with
    | idle =>
      simp only [step, hpc]
      split
      · have hin : inflight s.pc = 0 := by rw [hpc]; rfl
        have hd : s.desc = s.pos := descEq (by rw [hpc]; intro e; cases e)
        exact
          { gotOk := by pc_absurd
            accOk := by pc_absurd
            posLe := by show s.pos + 0 ≤ s.n; omega
            descLe := descLe
            descEq := fun _ => hd
            diskLe := diskLe
            tmpOk := tmpOk
            startLe := startLe
            sessEq := by
              show s.sess = List.range' s.sessionStart (s.pos + 0 - s.sessionStart)
              rw [sessEq]; exact range'_congr _ _ _ (by omega)
            cover := cover
            allLt := allLt
            posHigh := by show s.pos + 0 ≤ s.high; omega
            highLe := highLe
            s0Disk := s0Disk
            s0Sess := s0Sess
            accEq := by show s.pos + 0 = s.disk + s.accSince; omega
            accTmpEq := by
              intro p hp
              have := accTmpEq p hp
              show s.pos + 0 = p + s.accTmp
              omega }
      · exact h
    | _ => simp only [step, hpc]; exact h
  | restart =>
    simp only [step]
    exact
      { gotOk := by pc_absurd
        accOk := by pc_absurd
        posLe := by show s.disk + 0 ≤ s.n; omega
        descLe := Nat.le_refl _
        descEq := fun _ => rfl
        diskLe := Nat.le_refl _
        tmpOk := by
          intro p hp
          exact absurd hp (by intro e; cases e)
        startLe := Nat.le_refl _
        sessEq := by
          show ([] : List Nat) = List.range' s.disk (s.disk + 0 - s.disk)
          simp
        cover := cover
        allLt := allLt
        posHigh := by show s.disk + 0 ≤ s.high; omega
        highLe := highLe
        s0Disk := s0Disk
        s0Sess := s0Disk
        accEq := by show s.disk + 0 = s.disk + 0; rfl
        accTmpEq := by
          intro p hp
          exact absurd hp (by intro e; cases e) }
  | grow k =>
    simp only [step]
    exact
      { gotOk := by
          intro k0 e
          have := gotOk k0 e
          show 0 < k0 ∧ s.pos + k0 ≤ s.n + k
          omega
        accOk := accOk
        posLe := by show s.pos + inflight s.pc ≤ s.n + k; omega
        descLe := descLe
        descEq := descEq
        diskLe := diskLe
        tmpOk := tmpOk
        startLe := startLe
        sessEq := sessEq
        cover := cover
        allLt := allLt
        posHigh := posHigh
        highLe := by show s.high ≤ s.n + k; omega
        s0Disk := s0Disk
        s0Sess := s0Sess
        accEq := accEq
        accTmpEq := accTmpEq }

theorem sinv_run : ∀ (tr : List L) (s : S), SInv s → SInv (run true s tr)
  | [], s, h => by simpa [run] using h
  | l :: ls, s, h => by simp only [run]; exact sinv_run ls _ (sinv_step s l h)

theorem step_start0 (c : Bool) (s : S) (l : L) : (step c s l).start0 = s.start0 := by
  cases l <;> simp only [step] <;> (repeat' split) <;> rfl

theorem run_start0 (c : Bool) : ∀ (tr : List L) (s : S), (run c s tr).start0 = s.start0
  | [], s => rfl
  | l :: ls, s => by simp only [run]; rw [run_start0 c ls, step_start0]

theorem run_append (c : Bool) : ∀ (a b : List L) (s : S), run c s (a ++ b) = run c (run c s a) b
  | [], b, s => rfl
  | l :: ls, b, s => by simp only [List.cons_append, run]; exact run_append c ls b _

/-! ## quiet periods: queries answer, the sink accepts, nothing interleaves -/

/-- one fault-free iteration from the loop head -/
theorem run_iter (k : Nat) (s : S) (hpc : s.pc = .idle) (hle : s.pos ≤ s.n) :
    (run true s (iter k)).pc = .idle ∧ (run true s (iter k)).pos = min (s.pos + k) s.n ∧
    (run true s (iter k)).n = s.n := by
  by_cases hk : min k (s.n - s.pos) = 0
  · have e : run true s (iter k) = s := by
      simp only [iter, run, step, hpc, hk, if_true]
    rw [e]
    exact ⟨hpc, by omega, rfl⟩
  · refine ⟨?_, ?_, ?_⟩
    · simp only [iter, run, step, hpc, hk, if_false, if_true]
    · simp only [iter, run, step, hpc, hk, if_false, if_true]
      omega
    · simp only [iter, run, step, hpc, hk, if_false, if_true]

/-- `m` fault-free iterations with pages of up to `k` events -/
theorem run_iters (k : Nat) : ∀ (m : Nat) (s : S), s.pc = .idle → s.pos ≤ s.n →
    (run true s (List.flatten (List.replicate m (iter k)))).pc = .idle ∧
    (run true s (List.flatten (List.replicate m (iter k)))).pos = min (s.pos + m * k) s.n ∧
    (run true s (List.flatten (List.replicate m (iter k)))).n = s.n
  | 0, s, hpc, h => by
    show s.pc = .idle ∧ s.pos = min (s.pos + 0 * k) s.n ∧ s.n = s.n
    exact ⟨hpc, by omega, rfl⟩
  | m+1, s, hpc, h => by
    simp only [List.replicate_succ, List.flatten_cons, run_append]
    obtain ⟨i1, i2, i3⟩ := run_iter k s hpc h
    obtain ⟨j1, j2, j3⟩ := run_iters k m (run true s (iter k)) i1 (by rw [i2, i3]; omega)
    refine ⟨j1, ?_, ?_⟩
    · rw [j2, i2, i3, Nat.add_mul, Nat.one_mul]
      generalize m * k = q
      omega
    · rw [j3, i3]

/-! ## the statement-level system simulates the atomic one along `expand` -/

def Sim (s : S) (a : Forwarder.S) : Prop :=
  s.pc = .idle ∧ s.tmp = none ∧ s.stopping = false ∧ a.n = s.n ∧ a.pos = s.pos ∧ a.desc = s.desc ∧
  a.persisted = s.disk ∧ a.start0 = s.start0 ∧ a.sessionStart = s.sessionStart ∧ a.sess = s.sess ∧ a.all = s.all ∧
  a.high = s.high ∧ a.accSince = s.accSince

theorem sim_init (n start : Nat) : Sim (init n start) (Forwarder.init n start) := by
  simp [Sim, init, Forwarder.init]

theorem sim_step (s : S) (a : Forwarder.S) (l : Forwarder.L) : Sim s a → Forwarder.FInv a →
    Sim (run true s (expand l)) (Forwarder.step Forwarder.codeCfg a l) := by
  cases s with
  | mk n pc pos desc disk tmp stopping start0 sessionStart sess all high accSince accTmp =>
  cases a with
  | mk an apos adesc apers astart0 asessionStart asess aall abatches ahigh asessions aaccSince =>
  intro h hi
  have hdp := hi.descPos
  have hph := hi.posHigh
  simp only [Sim] at h
  simp only [] at hdp hph
  obtain ⟨rfl, rfl, rfl, rfl, rfl, rfl, rfl, rfl, rfl, rfl, rfl, rfl, rfl⟩ := h
  subst hdp
  cases l with
  | qTransport => simp [Sim, expand, run, step, Forwarder.step]
  | qServer => simp [Sim, expand, run, step, Forwarder.step]
  | qEmpty => simp [Sim, expand, run, step, Forwarder.step]
  | page k acc =>
    cases acc with
    | true =>
      by_cases hk : min k (an - adesc) = 0
      · simp only [expand, iter, run, step, Forwarder.step, Forwarder.codeCfg, hk, if_true]
        simp [Sim]
      · simp only [expand, iter, run, step, Forwarder.step, Forwarder.codeCfg, hk, if_false, if_true]
        simp [Sim]
    | false =>
      by_cases hk : min k (an - adesc) = 0
      · simp only [expand, run, step, Forwarder.step, Forwarder.codeCfg, hk, if_true]
        simp [Sim]
      · simp only [expand, run, step, Forwarder.step, Forwarder.codeCfg, hk, if_false, if_true,
          Bool.false_eq_true]
        simp [Sim]
  | persist => simp [Sim, expand, run, step, Forwarder.step, inflight]
  | stop => simp [Sim, expand, run, step, Forwarder.step, Forwarder.restart, inflight]
  | graceful => simp [Sim, expand, run, step, Forwarder.step, Forwarder.restart, inflight]
  | crash => simp [Sim, expand, run, step, Forwarder.step, Forwarder.restart]
  | crashAfterAccept k =>
    by_cases hk : min k (an - adesc) = 0
    · simp only [expand, run, step, Forwarder.step, Forwarder.restart, hk, if_true]
      simp [Sim, Nat.max_eq_left hph]
    · simp only [expand, run, step, Forwarder.step, Forwarder.restart, hk, if_false,
        if_true]
      simp [Sim]
  | grow k => simp [Sim, expand, run, step, Forwarder.step]

theorem sim_run : ∀ (tr : List Forwarder.L) (s : S) (a : Forwarder.S), Sim s a → Forwarder.FInv a →
    Sim (run true s (tr.flatMap expand)) (Forwarder.run Forwarder.codeCfg a tr)
  | [], s, a, h, _ => by simpa [run, Forwarder.run] using h
  | l :: ls, s, a, h, hi => by
    simp only [List.flatMap_cons, run_append, Forwarder.run]
    exact sim_run ls _ _ (sim_step s a l h hi) (Forwarder.finv_step a l hi)

end Logrange.ForwarderSplit
