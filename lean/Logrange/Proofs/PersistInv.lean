import Logrange.Proofs.Persist
import Logrange.Model.PersistReach
/-! Lemmas for C07's invariant (`Logrange/Props/C07Reach.lean`): position-file names are injective and collide with the
registry only for the name `s`; what `recover` gives on a disk whose tag-index and registry files decode; the invariant
`Inv` ("memory consistent with disk") and its preservation by every event. -/
namespace Logrange.Persist
open Logrange.Generated.C07

/-! ## `pipeFileName` -/

def unescByte (d : UInt8) : UInt8 :=
  if d = 48 then 95 else if d = 49 then 47 else if d = 50 then 92 else if d = 51 then 96 else if d = 52 then 42
  else if d = 53 then 124 else if d = 54 then 59 else if d = 55 then 34 else if d = 56 then 39 else 58

/-- inverse of `escape` on its image -/
def unescape : Bytes → Bytes
  | [] => []
  | [x] => [x]
  | [x, y] => x :: unescape [y]
  | x :: y :: d :: r => if x = 95 then unescByte d :: unescape r else x :: unescape (y :: d :: r)

theorem unescape_cons_ne (x : UInt8) (r : Bytes) (h : x ≠ 95) : unescape (x :: r) = x :: unescape r := by
  match r with
  | [] => simp [unescape]
  | [y] => simp [unescape]
  | y :: d :: r' => simp [unescape, h]

theorem unescape_escapeByte (b : UInt8) (r : Bytes) : unescape (escapeByte b ++ r) = b :: unescape r := by
  by_cases h95 : b = 95
  · subst h95; simp [escapeByte, unescape, unescByte]
  unfold escapeByte
  rw [if_neg h95]
  split
  · next h => subst h; simp [unescape, unescByte]
  split
  · next h => subst h; simp [unescape, unescByte]
  split
  · next h => subst h; simp [unescape, unescByte]
  split
  · next h => subst h; simp [unescape, unescByte]
  split
  · next h => subst h; simp [unescape, unescByte]
  split
  · next h => subst h; simp [unescape, unescByte]
  split
  · next h => subst h; simp [unescape, unescByte]
  split
  · next h => subst h; simp [unescape, unescByte]
  split
  · next h => subst h; simp [unescape, unescByte]
  · exact unescape_cons_ne b r h95

theorem unescape_escape : ∀ n : Bytes, unescape (escape n) = n
  | [] => by simp [escape, unescape]
  | b :: n => by
    have ih := unescape_escape n
    simp only [escape, List.flatMap_cons] at ih ⊢
    rw [unescape_escapeByte, ih]

theorem escape_inj {a b : Bytes} (h : escape a = escape b) : a = b := by
  have := congrArg unescape h
  rwa [unescape_escape, unescape_escape] at this

theorem pipeFileName_eq (n : Bytes) : pipeFileName n = pipeFilePrefix ++ escape n ++ pipeFileSuffix := by
  have : pipeFileNameEscapes = true := by decide
  simp [pipeFileName, this]

theorem pipeFileName_inj {a b : Bytes} (h : pipeFileName a = pipeFileName b) : a = b := by
  rw [pipeFileName_eq, pipeFileName_eq] at h
  exact escape_inj (List.append_cancel_left (List.append_cancel_right h))

theorem pipeInfoPath_inj {a b : Bytes} (h : pipeInfoPath a = pipeInfoPath b) : a = b := by
  simp only [pipeInfoPath, Path.pipesDir.injEq] at h
  exact pipeFileName_inj h

/-- **F33's class is exactly the name `s`**: a pipe's position file is the registry file iff the pipe is called `s` -/
theorem collision_iff_named_s (n : Bytes) : pipeInfoPath n = pipesDat ↔ n = pipeNameS := by
  constructor
  · intro h
    have h' : pipeFileName n = pipeFileName pipeNameS := by
      simp only [pipeInfoPath, pipesDat, Path.pipesDir.injEq] at h
      rw [h]; decide
    exact pipeFileName_inj h'
  · intro h; subst h; decide

theorem pipeInfoPath_ne_tmp (n : Bytes) : pipeInfoPath n ≠ pipesTmp := by
  intro h
  simp only [pipeInfoPath, pipesTmp, Path.pipesDir.injEq] at h
  rw [pipeFileName_eq] at h
  have := congrArg List.reverse h
  simp [pipeFileSuffix, pipesFileName] at this

theorem pipeInfoPath_ne_dat {n : Bytes} (h : n ≠ pipeNameS) : pipeInfoPath n ≠ pipesDat :=
  fun e => h ((collision_iff_named_s n).mp e)

theorem pipeInfoPath_not_tindex (n : Bytes) : ¬ tindexPath (pipeInfoPath n) := by simp [tindexPath, pipeInfoPath]
theorem pipesDat_not_tindex : ¬ tindexPath pipesDat := by simp [tindexPath, pipesDat]

/-! ## the tag-index save, completed -/

theorem tindexSave_dat (K : Codecs) (f : Files) (new : TMap) :
    runSteps f (tindexSaveSteps K.tidx f new) .tindexDat = some (K.tidx.enc new) := by
  have hs : tindexSaveSteps K.tidx f new = writeFile .tindexTmp (K.tidx.enc new) ++
      (((if (f .tindexDat).isSome then [Step.remove .tindexBak] else []) ++
        (if (f .tindexDat).isSome then [Step.link .tindexDat .tindexBak] else [])) ++ [.rename .tindexTmp .tindexDat]) := by
    simp [tindexSaveSteps, tindexSaveStepsOf, saveStateCalls, tindexCallSteps]
  rw [hs, runSteps_append, runSteps_append, runSteps_writeFile]
  have hm : runSteps (f.set .tindexTmp (some (K.tidx.enc new)))
      ((if (f .tindexDat).isSome then [Step.remove .tindexBak] else []) ++
        (if (f .tindexDat).isSome then [Step.link .tindexDat .tindexBak] else [])) .tindexTmp = some (K.tidx.enc new) := by
    rw [runSteps_frame]
    · simp
    · intro st hst
      simp only [List.mem_append] at hst
      rcases hst with h | h <;> split at h <;> simp at h <;> subst h <;> simp [Step.touches]
  generalize runSteps (f.set .tindexTmp (some (K.tidx.enc new)))
      ((if (f .tindexDat).isSome then [Step.remove .tindexBak] else []) ++
        (if (f .tindexDat).isSome then [Step.link .tindexDat .tindexBak] else [])) = g at hm
  simp [runSteps, applyStep, hm, Files.set]

/-! ## what a start finds -/

theorem loadPipes_congr (c : Codec (List Pipe)) (f g : Files) (h : f pipesDat = g pipesDat) : loadPipes c f = loadPipes c g := by
  simp [loadPipes, h]

theorem loadPipeInfo_congr' (c : Codec PosMap) (f g : Files) (n : Bytes) (h : f (pipeInfoPath n) = g (pipeInfoPath n)) :
    loadPipeInfo c f n = loadPipeInfo c g n := by
  simp [loadPipeInfo, h]

theorem cindexLoad_congr (c : Codec CMap) (f g : Files) (h : f .cindexDat = g .cindexDat) : cindexLoad c f = cindexLoad c g := by
  simp [cindexLoad, h]

/-- the state a start gives on a disk whose tag-index file is the encoding of `m` and whose registry file decodes to `ps` -/
def recovered (K : Codecs) (d : Disk) (m : TMap) (ps : List Pipe) : Srv :=
  ⟨⟨m, cindexLoad K.cidx d.files, ps.map (fun p => ⟨p, loadPipeInfo K.pinfo d.files p.name⟩)⟩,
   ⟨runSteps d.files (tindexSaveSteps K.tidx d.files m), d.db, cleanupTrees (cindexLoad K.cidx d.files) d.trees⟩⟩

theorem recover_spec (K : Codecs) (hK : K.Laws) (parseOk : TagLine → Bool) (d : Disk) (m : TMap) (ps : List Pipe)
    (ht : d.files .tindexDat = some (K.tidx.enc m)) (hp : m.all (fun e => parseOk e.1) = true)
    (hj : (journalsOnDisk d.db).all (tmapHasSrc m) = true) (hr : loadPipes K.pipes d.files = some ps) :
    recover K parseOk d = .started (recovered K d m ps) := by
  have hload : loadState K.tidx parseOk d.files = some m := by simp [loadState, ht, hK.tidx.rt, hp]
  have hcc : checkConsistency K.tidx parseOk d.files (journalsOnDisk d.db)
      = some (m, runSteps d.files (tindexSaveSteps K.tidx d.files m)) := by
    simp [checkConsistency, hload, hj]
  have h3 : ∀ q, ¬ tindexPath q → runSteps d.files (tindexSaveSteps K.tidx d.files m) q = d.files q :=
    fun q hq => tindexSave_frame _ _ _ _ q hq
  have hci : cindexLoad K.cidx (runSteps d.files (tindexSaveSteps K.tidx d.files m)) = cindexLoad K.cidx d.files :=
    cindexLoad_congr _ _ _ (h3 _ (by simp [tindexPath]))
  have hlp : loadPipes K.pipes (runSteps d.files (tindexSaveSteps K.tidx d.files m)) = some ps := by
    rw [loadPipes_congr _ _ d.files (h3 _ pipesDat_not_tindex), hr]
  have hpi : ∀ n, loadPipeInfo K.pinfo (runSteps d.files (tindexSaveSteps K.tidx d.files m)) n = loadPipeInfo K.pinfo d.files n :=
    fun n => loadPipeInfo_congr' _ _ _ _ (h3 _ (pipeInfoPath_not_tindex n))
  simp only [recover, hcc, hci, pipesInit, hlp, Option.map_some, hpi, recovered]

/-! ## the invariant -/

/-- **memory consistent with disk**: `tindex.dat` is the encoding of the tag index (saved on every change), the stored tag
lines parse back, every journal on disk has a record, every pipe's position file decodes to the pipe's positions, the
registry file decodes to the pipe definitions, and no pipe is called `s` (F33's class) -/
structure Inv (K : Codecs) (parseOk : TagLine → Bool) (s : Srv) : Prop where
  tdat : s.disk.files .tindexDat = some (K.tidx.enc s.mem.tmap)
  parse : s.mem.tmap.all (fun e => parseOk e.1) = true
  jrn : (journalsOnDisk s.disk.db).all (tmapHasSrc s.mem.tmap) = true
  pos : ∀ p ∈ s.mem.pipes, loadPipeInfo K.pinfo s.disk.files p.cfg.name = p.poss
  reg : loadPipes K.pipes s.disk.files = some (s.mem.pipes.map (·.cfg))
  noS : ∀ p ∈ s.mem.pipes, p.cfg.name ≠ pipeNameS

theorem inv_recovered (K : Codecs) (parseOk : TagLine → Bool) (d : Disk) (m : TMap) (ps : List Pipe)
    (hp : m.all (fun e => parseOk e.1) = true)
    (hj : (journalsOnDisk d.db).all (tmapHasSrc m) = true) (hr : loadPipes K.pipes d.files = some ps)
    (hs : ∀ p ∈ ps, p.name ≠ pipeNameS) : Inv K parseOk (recovered K d m ps) := by
  have h3 : ∀ q, ¬ tindexPath q → runSteps d.files (tindexSaveSteps K.tidx d.files m) q = d.files q :=
    fun q hq => tindexSave_frame _ _ _ _ q hq
  refine ⟨tindexSave_dat K d.files m, hp, hj, ?_, ?_, ?_⟩
  · intro p hp'
    simp only [recovered, List.mem_map] at hp'
    obtain ⟨c, _, rfl⟩ := hp'
    exact loadPipeInfo_congr' _ _ _ _ (h3 _ (pipeInfoPath_not_tindex c.name))
  · show loadPipes K.pipes (runSteps d.files (tindexSaveSteps K.tidx d.files m)) = _
    rw [loadPipes_congr _ _ d.files (h3 _ pipesDat_not_tindex), hr]
    simp [recovered, List.map_map, Function.comp_def]
  · intro p hp'
    simp only [recovered, List.mem_map] at hp'
    obtain ⟨c, hc, rfl⟩ := hp'
    exact hs c hc

/-! ### association lists -/

theorem mem_aset {β : Type} : ∀ (m : List (Bytes × β)) (k : Bytes) (v : β) (e : Bytes × β), e ∈ aset m k v → e ∈ m ∨ e = (k, v)
  | [], k, v, e, h => by simp [aset] at h; exact Or.inr h
  | x :: r, k, v, e, h => by
    by_cases hx : (x.1 == k) = true
    · simp only [aset, hx, if_true, List.mem_cons] at h
      rcases h with h | h
      · exact Or.inr h
      · exact Or.inl (List.mem_cons_of_mem _ h)
    · have h0 : e ∈ x :: aset r k v := by simpa [aset, hx] using h
      rcases List.mem_cons.mp h0 with h1 | h1
      · exact Or.inl (h1 ▸ List.mem_cons_self ..)
      · rcases mem_aset r k v e h1 with h' | h'
        · exact Or.inl (List.mem_cons_of_mem _ h')
        · exact Or.inr h'

theorem alookup_mem {β : Type} (m : List (Bytes × β)) (k : Bytes) (v : β) (h : alookup m k = some v) : (k, v) ∈ m := by
  simp only [alookup, Option.map_eq_some_iff] at h
  obtain ⟨e, he, rfl⟩ := h
  have h1 := List.mem_of_find?_eq_some he
  have h2 := List.find?_some he
  have : e.1 = k := by simpa using h2
  rw [← this]; exact h1

theorem mem_journalsOnDisk (db : List (Src × List Chunk)) (j : Src) :
    j ∈ journalsOnDisk db ↔ ∃ e ∈ db, e.2.any (fun c => !c.recs.isEmpty) = true ∧ e.1 = j := by
  simp [journalsOnDisk, List.mem_map, List.mem_filter, and_assoc]

theorem tmapHasSrc_append (m x : TMap) (j : Src) (h : tmapHasSrc m j = true) : tmapHasSrc (m ++ x) j = true := by
  simp only [tmapHasSrc, List.any_append, Bool.or_eq_true] at h ⊢; exact Or.inl h

/-! ### operations of a running server -/

variable {K : Codecs} {parseOk : TagLine → Bool} {s : Srv}

theorem inv_newPartition (h : Inv K parseOk s) (tags : TagLine) (src : Src) (hp : parseOk tags = true) :
    Inv K parseOk (step K s (.newPartition tags src)) := by
  have h3 : ∀ q, ¬ tindexPath q →
      runSteps s.disk.files (tindexSaveSteps K.tidx s.disk.files (s.mem.tmap ++ [(tags, src)])) q = s.disk.files q :=
    fun q hq => tindexSave_frame _ _ _ _ q hq
  refine ⟨tindexSave_dat K _ _, ?_, ?_, ?_, ?_, h.noS⟩
  · simp only [step, List.all_append, Bool.and_eq_true]; exact ⟨h.parse, by simp [hp]⟩
  · have := h.jrn
    simp only [step, List.all_eq_true] at this ⊢
    exact fun j hj => tmapHasSrc_append _ _ _ (this j hj)
  · intro p hp'
    rw [← h.pos p hp']
    exact loadPipeInfo_congr' _ _ _ _ (h3 _ (pipeInfoPath_not_tindex _))
  · show loadPipes K.pipes (runSteps _ _) = _
    rw [loadPipes_congr _ _ s.disk.files (h3 _ pipesDat_not_tindex)]; exact h.reg

theorem inv_dropPartition (h : Inv K parseOk s) (src : Src) : Inv K parseOk (step K s (.dropPartition src)) := by
  have h3 : ∀ q, ¬ tindexPath q →
      runSteps s.disk.files (tindexSaveSteps K.tidx s.disk.files (s.mem.tmap.filter (fun e => !(e.2 == src)))) q = s.disk.files q :=
    fun q hq => tindexSave_frame _ _ _ _ q hq
  refine ⟨tindexSave_dat K _ _, ?_, ?_, ?_, ?_, h.noS⟩
  · have := h.parse
    simp only [step, List.all_eq_true] at this ⊢
    exact fun e he => this e (List.mem_filter.mp he).1
  · have := h.jrn
    simp only [step, List.all_eq_true] at this ⊢
    intro j hj
    obtain ⟨e, he, hne, rfl⟩ := (mem_journalsOnDisk _ _).mp hj
    simp only [aerase, List.mem_filter] at he
    have hj' : e.1 ∈ journalsOnDisk s.disk.db := (mem_journalsOnDisk _ _).mpr ⟨e, he.1, hne, rfl⟩
    have := this _ hj'
    simp only [tmapHasSrc, List.any_eq_true, List.mem_filter] at this ⊢
    obtain ⟨x, hx, hxe⟩ := this
    refine ⟨x, ⟨hx, ?_⟩, hxe⟩
    have h1 : x.2 = e.1 := by simpa using hxe
    have h2 : ¬ (e.1 == src) = true := by simpa using he.2
    rw [h1]; simpa using h2
  · intro p hp'
    rw [← h.pos p hp']
    exact loadPipeInfo_congr' _ _ _ _ (h3 _ (pipeInfoPath_not_tindex _))
  · show loadPipes K.pipes (runSteps _ _) = _
    rw [loadPipes_congr _ _ s.disk.files (h3 _ pipesDat_not_tindex)]; exact h.reg

theorem inv_of_db (h : Inv K parseOk s) (cm : CMap) (db : List (Src × List Chunk))
    (hj : ∀ j ∈ journalsOnDisk db, tmapHasSrc s.mem.tmap j = true) :
    Inv K parseOk { mem := { s.mem with cidx := cm }, disk := { s.disk with db := db } } :=
  ⟨h.tdat, h.parse, List.all_eq_true.mpr hj, h.pos, h.reg, h.noS⟩

theorem inv_write (h : Inv K parseOk s) (src : Src) (pieces : List (Nat × List Int)) (hg : tmapHasSrc s.mem.tmap src = true) :
    Inv K parseOk (step K s (.write src pieces)) := by
  simp only [step]
  generalize writePieces ((alookup s.disk.db src).getD []) s.mem.cidx src pieces none = r
  obtain ⟨cks, cm⟩ := r
  apply inv_of_db h
  intro j hj
  obtain ⟨e, he, hne, rfl⟩ := (mem_journalsOnDisk _ _).mp hj
  rcases mem_aset _ _ _ _ he with h1 | h1
  · exact List.all_eq_true.mp h.jrn _ ((mem_journalsOnDisk _ _).mpr ⟨e, h1, hne, rfl⟩)
  · subst h1; exact hg

theorem inv_dropChunks (h : Inv K parseOk s) (src : Src) (n : Nat) : Inv K parseOk (step K s (.dropChunks src n)) := by
  have := inv_of_db h s.mem.cidx (aset s.disk.db src (((alookup s.disk.db src).getD []).drop n)) ?_
  · exact this
  intro j hj
  obtain ⟨e, he, hne, rfl⟩ := (mem_journalsOnDisk _ _).mp hj
  rcases mem_aset _ _ _ _ he with h1 | h1
  · exact List.all_eq_true.mp h.jrn _ ((mem_journalsOnDisk _ _).mpr ⟨e, h1, hne, rfl⟩)
  · subst h1
    apply List.all_eq_true.mp h.jrn
    cases hl : alookup s.disk.db src with
    | none => simp [hl] at hne
    | some l =>
      simp only [hl, Option.getD_some, List.any_eq_true] at hne
      obtain ⟨c, hc, hcn⟩ := hne
      exact (mem_journalsOnDisk _ _).mpr ⟨(src, l), alookup_mem _ _ _ hl, List.any_eq_true.mpr ⟨c, List.mem_of_mem_drop hc, hcn⟩, rfl⟩

theorem inv_createPipe (hK : K.Laws) (h : Inv K parseOk s) (p : Pipe) (hn : p.name ≠ pipeNameS) :
    Inv K parseOk (step K s (.createPipe p)) := by
  have hf : pipeDefsSavedOnCreate = true := by decide
  have hfl : ∀ q, (step K s (.createPipe p)).disk.files q =
      if q = pipesDat then some (K.pipes.enc ((s.mem.pipes ++ [(⟨p, loadPipeInfo K.pinfo s.disk.files p.name⟩ : PPipe)]).map (·.cfg)))
      else if q = pipesTmp then none else s.disk.files q := by
    intro q; simp only [step, hf, if_true]; exact savePipes_at _ _ _ q
  have hpath : ∀ n, n ≠ pipeNameS → (step K s (.createPipe p)).disk.files (pipeInfoPath n) = s.disk.files (pipeInfoPath n) := by
    intro n hn'; rw [hfl, if_neg (pipeInfoPath_ne_dat hn'), if_neg (pipeInfoPath_ne_tmp n)]
  refine ⟨?_, h.parse, h.jrn, ?_, ?_, ?_⟩
  · rw [hfl, if_neg (by simp [pipesDat]), if_neg (by simp [pipesTmp])]; exact h.tdat
  · intro q hq
    simp only [step, List.mem_append, List.mem_singleton] at hq
    rcases hq with hq | hq
    · rw [← h.pos q hq]; exact loadPipeInfo_congr' _ _ _ _ (hpath _ (h.noS q hq))
    · subst hq; exact loadPipeInfo_congr' _ _ _ _ (hpath _ hn)
  · simp only [loadPipes, hfl, if_true, hK.pipes.rt]; rfl
  · intro q hq
    simp only [step, List.mem_append, List.mem_singleton] at hq
    rcases hq with hq | hq
    · exact h.noS q hq
    · subst hq; exact hn

theorem inv_deletePipe (hK : K.Laws) (h : Inv K parseOk s) (name : Bytes) (hn : name ≠ pipeNameS) :
    Inv K parseOk (step K s (.deletePipe name)) := by
  have hf : pipeDefsSavedOnDelete = true := by decide
  have hfl : ∀ q, (step K s (.deletePipe name)).disk.files q =
      if q = pipeInfoPath name then none
      else if q = pipesDat then some (K.pipes.enc ((s.mem.pipes.filter (fun p => !(p.cfg.name == name))).map (·.cfg)))
      else if q = pipesTmp then none else s.disk.files q := by
    intro q
    have hf2 : deletePipeRemovesPositionsBeforeSave = true := by decide
    simp only [step, hf, hf2, if_true, runSteps_cons, applyStep]
    rw [savePipes_at]
    by_cases hq : q = pipeInfoPath name
    · subst hq
      rw [if_neg (pipeInfoPath_ne_dat hn), if_neg (pipeInfoPath_ne_tmp _), if_pos rfl]; simp
    · rw [if_neg hq, Files.set_other _ _ _ _ hq]
  refine ⟨?_, h.parse, h.jrn, ?_, ?_, ?_⟩
  · rw [hfl, if_neg (by simp [pipeInfoPath]), if_neg (by simp [pipesDat]), if_neg (by simp [pipesTmp])]; exact h.tdat
  · intro q hq
    simp only [step, List.mem_filter] at hq
    have hne : q.cfg.name ≠ name := by simpa using hq.2
    rw [← h.pos q hq.1]
    apply loadPipeInfo_congr'
    rw [hfl, if_neg (fun e => hne (pipeInfoPath_inj e)), if_neg (pipeInfoPath_ne_dat (h.noS q hq.1)), if_neg (pipeInfoPath_ne_tmp _)]
  · simp only [loadPipes, hfl, if_neg (Ne.symm (pipeInfoPath_ne_dat hn)), if_true, hK.pipes.rt]; rfl
  · intro q hq
    simp only [step, List.mem_filter] at hq
    exact h.noS q hq.1

theorem setPoss_cfg (ps : List PPipe) (name : Bytes) (pm : PosMap) : (setPoss ps name pm).map (·.cfg) = ps.map (·.cfg) := by
  simp only [setPoss, List.map_map]
  apply List.map_congr_left
  intro p _
  simp only [Function.comp]
  split <;> rfl

theorem inv_savePipeInfo (hK : K.Laws) (h : Inv K parseOk s) (name : Bytes) (pm : PosMap) (hn : name ≠ pipeNameS) :
    Inv K parseOk (step K s (.savePipeInfo name pm)) := by
  have hfl : (step K s (.savePipeInfo name pm)).disk.files = s.disk.files.set (pipeInfoPath name) (some (K.pinfo.enc pm)) := by
    simp only [step, savePipeInfoSteps, runSteps_writeFile]
  refine ⟨?_, h.parse, h.jrn, ?_, ?_, ?_⟩
  · rw [hfl, Files.set_other _ _ _ _ (by simp [pipeInfoPath])]; exact h.tdat
  · intro q hq
    simp only [step, setPoss, List.mem_map] at hq
    obtain ⟨q0, hq0, rfl⟩ := hq
    by_cases hname : (q0.cfg.name == name) = true
    · have e : q0.cfg.name = name := by simpa using hname
      simp only [hname, if_true]
      simp [loadPipeInfo, hfl, e, hK.pinfo.rt]
    · have e : q0.cfg.name ≠ name := by simpa using hname
      simp only [hname, Bool.false_eq_true, if_false]
      rw [← h.pos q0 hq0]
      apply loadPipeInfo_congr'
      rw [hfl, Files.set_other _ _ _ _ (fun e' => e (pipeInfoPath_inj e'))]
  · rw [loadPipes_congr _ _ s.disk.files (by rw [hfl, Files.set_other _ _ _ _ (Ne.symm (pipeInfoPath_ne_dat hn))])]
    show _ = some ((setPoss s.mem.pipes name pm).map (·.cfg))
    rw [setPoss_cfg]; exact h.reg
  · intro q hq
    have : q.cfg ∈ (setPoss s.mem.pipes name pm).map (·.cfg) := List.mem_map_of_mem hq
    rw [setPoss_cfg] at this
    obtain ⟨q0, hq0, e⟩ := List.mem_map.mp this
    rw [← e]; exact h.noS q0 hq0

theorem inv_gstep (hK : K.Laws) (h : Inv K parseOk s) (o : Op) (hok : o.pipeName ≠ some pipeNameS) :
    Inv K parseOk (gstep K parseOk s o) := by
  unfold gstep
  by_cases he : enabled parseOk s o = true
  · rw [if_pos he]
    cases o with
    | newPartition tags src =>
      have hp : parseOk tags = true := by
        simp only [enabled, Bool.and_eq_true] at he; exact he.1.1
      exact inv_newPartition h tags src hp
    | write src pieces => exact inv_write h src pieces (by simpa [enabled] using he)
    | dropChunks src n => exact inv_dropChunks h src n
    | dropPartition src => exact inv_dropPartition h src
    | createPipe p => exact inv_createPipe hK h p (by simpa [Op.pipeName] using hok)
    | deletePipe n => exact inv_deletePipe hK h n (by simpa [Op.pipeName] using hok)
    | savePipeInfo n pm => exact inv_savePipeInfo hK h n pm (by simpa [Op.pipeName] using hok)
  · rw [if_neg he]; exact h

theorem step_files (s : Srv) (o : Op) : (step K s o).disk.files = runSteps s.disk.files (opSteps K s o) := by
  cases o with
  | write src pieces =>
    simp only [step, opSteps]
    generalize writePieces ((alookup s.disk.db src).getD []) s.mem.cidx src pieces none = r
    obtain ⟨cks, cm⟩ := r
    rfl
  | createPipe p => simp only [step, opSteps]
  | deletePipe n => simp only [step, opSteps]
  | _ => rfl

/-! ### stop and start, crash and start -/

theorem shutdown_files (s : Srv) (q : Path) : (shutdown K s).disk.files q =
    if q = .cindexDat then some (K.cidx.enc s.mem.cidx)
    else if q = pipesDat then some (K.pipes.enc (s.mem.pipes.map (·.cfg))) else if q = pipesTmp then none else s.disk.files q := by
  simp only [shutdown, shutdownSteps, cindexSaveSteps, runSteps_append, runSteps_writeFile]
  by_cases hq : q = .cindexDat
  · subst hq; simp
  · rw [Files.set_other _ _ _ _ hq, savePipes_at]; simp [hq]

/-- a graceful stop followed by a start: never refused, and the started server has the memory of the stopped one -/
theorem restart_spec (hK : K.Laws) (h : Inv K parseOk s) :
    recover K parseOk (shutdown K s).disk = .started (recovered K (shutdown K s).disk s.mem.tmap (s.mem.pipes.map (·.cfg))) ∧
    (recovered K (shutdown K s).disk s.mem.tmap (s.mem.pipes.map (·.cfg))).mem = s.mem ∧
    (recovered K (shutdown K s).disk s.mem.tmap (s.mem.pipes.map (·.cfg))).disk.db = s.disk.db ∧
    Inv K parseOk (recovered K (shutdown K s).disk s.mem.tmap (s.mem.pipes.map (·.cfg))) := by
  have ht : (shutdown K s).disk.files .tindexDat = some (K.tidx.enc s.mem.tmap) := by
    rw [shutdown_files, if_neg (by simp), if_neg (by simp [pipesDat]), if_neg (by simp [pipesTmp])]; exact h.tdat
  have hr : loadPipes K.pipes (shutdown K s).disk.files = some (s.mem.pipes.map (·.cfg)) := by
    simp [loadPipes, shutdown_files, pipesDat, hK.pipes.rt]
  have hj : (journalsOnDisk (shutdown K s).disk.db).all (tmapHasSrc s.mem.tmap) = true := h.jrn
  have hs : ∀ p ∈ s.mem.pipes.map (·.cfg), p.name ≠ pipeNameS := by
    intro p hp; obtain ⟨q, hq, rfl⟩ := List.mem_map.mp hp; exact h.noS q hq
  refine ⟨recover_spec K hK parseOk _ _ _ ht h.parse hj hr, ?_, rfl, inv_recovered K parseOk _ _ _ h.parse hj hr hs⟩
  have hci : cindexLoad K.cidx (shutdown K s).disk.files = s.mem.cidx := by
    simp [cindexLoad, shutdown_files, hK.cidx.rt]
  have hpp : (s.mem.pipes.map (·.cfg)).map (fun p => (⟨p, loadPipeInfo K.pinfo (shutdown K s).disk.files p.name⟩ : PPipe)) = s.mem.pipes := by
    apply map_cfg_poss
    intro p hp
    rw [← h.pos p hp]
    apply loadPipeInfo_congr'
    rw [shutdown_files, if_neg (by simp [pipeInfoPath]), if_neg (pipeInfoPath_ne_dat (h.noS p hp)), if_neg (pipeInfoPath_ne_tmp _)]
  simp only [recovered, hci, hpp]

/-- a crash between two operations followed by a start: never refused; the started server has the tag index, the pipe
definitions and the pipe positions of the killed one and the time-index snapshot the disk holds -/
theorem crash_spec (hK : K.Laws) (h : Inv K parseOk s) :
    recover K parseOk s.disk = .started (recovered K s.disk s.mem.tmap (s.mem.pipes.map (·.cfg))) ∧
    (recovered K s.disk s.mem.tmap (s.mem.pipes.map (·.cfg))).mem = { s.mem with cidx := cindexLoad K.cidx s.disk.files } ∧
    (recovered K s.disk s.mem.tmap (s.mem.pipes.map (·.cfg))).disk.db = s.disk.db ∧
    Inv K parseOk (recovered K s.disk s.mem.tmap (s.mem.pipes.map (·.cfg))) := by
  have hs : ∀ p ∈ s.mem.pipes.map (·.cfg), p.name ≠ pipeNameS := by
    intro p hp; obtain ⟨q, hq, rfl⟩ := List.mem_map.mp hp; exact h.noS q hq
  refine ⟨recover_spec K hK parseOk _ _ _ h.tdat h.parse h.jrn h.reg, ?_, rfl, inv_recovered K parseOk _ _ _ h.parse h.jrn h.reg hs⟩
  have hpp : (s.mem.pipes.map (·.cfg)).map (fun p => (⟨p, loadPipeInfo K.pinfo s.disk.files p.name⟩ : PPipe)) = s.mem.pipes :=
    map_cfg_poss _ _ (fun p hp => h.pos p hp)
  simp only [recovered, hpp]

/-! ### the first start -/

theorem init_spec : recover K parseOk Disk.fresh = .started (initSrv K parseOk) ∧ Inv K parseOk (initSrv K parseOk) ∧
    (initSrv K parseOk).mem = Mem.empty ∧ (initSrv K parseOk).disk.db = [] := by
  have hr : recover K parseOk Disk.fresh = .started ⟨⟨[], [], []⟩,
      ⟨runSteps Files.empty (tindexSaveSteps K.tidx Files.empty []), [], []⟩⟩ := by
    simp only [recover, Disk.fresh, checkConsistency, loadState, Files.empty, journalsOnDisk, List.filter_nil, List.map_nil,
      List.all_nil, if_true, cindexLoad, pipesInit, loadPipes, cleanupTrees]
    have h3 : ∀ q, ¬ tindexPath q → runSteps Files.empty (tindexSaveSteps K.tidx Files.empty []) q = none :=
      fun q hq => tindexSave_frame _ _ _ _ q hq
    have e1 := h3 .cindexDat (by simp [tindexPath])
    have e2 := h3 pipesDat pipesDat_not_tindex
    simp [e1, e2]
  have hi : initSrv K parseOk = ⟨⟨[], [], []⟩, ⟨runSteps Files.empty (tindexSaveSteps K.tidx Files.empty []), [], []⟩⟩ := by
    simp only [initSrv, afterStart, hr]
  refine ⟨by rw [hi]; exact hr, ?_, by rw [hi]; rfl, by rw [hi]⟩
  rw [hi]
  have h3 : ∀ q, ¬ tindexPath q → runSteps Files.empty (tindexSaveSteps K.tidx Files.empty []) q = none :=
    fun q hq => tindexSave_frame _ _ _ _ q hq
  refine ⟨tindexSave_dat K _ _, rfl, rfl, ?_, ?_, ?_⟩
  · intro p hp; cases hp
  · simp [loadPipes, h3 pipesDat pipesDat_not_tindex]
  · intro p hp; cases hp

/-! ### crash cuts -/

/-- the steps that reached the disk at a cut -/
def cutSteps (steps : List Step) (c : Cut) : List Step :=
  steps.take c.k ++ (match steps[c.k]? with
    | some (.append p bs) => [Step.append p (bs.take c.len)]
    | _ => [])

theorem diskAt_eq (f : Files) (steps : List Step) (c : Cut) : diskAt f steps c = runSteps f (cutSteps steps c) := by
  simp only [diskAt, cutSteps, runSteps_append]
  split <;> simp_all [runSteps]

/-- a cut save only changes the paths its steps name -/
theorem diskAt_frame (f : Files) (steps : List Step) (c : Cut) (q : Path) (h : ∀ st ∈ steps, ¬ st.touches q) :
    diskAt f steps c q = f q := by
  rw [diskAt_eq]
  apply runSteps_frame
  intro st hst
  simp only [cutSteps, List.mem_append] at hst
  rcases hst with hst | hst
  · exact h st (List.mem_of_mem_take hst)
  · split at hst
    · next p bs hk =>
      simp only [List.mem_singleton] at hst
      subst hst
      have := h _ (List.mem_of_getElem? hk)
      simpa [Step.touches] using this
    · cases hst

theorem savePipesSteps_touch (c : Codec (List Pipe)) (ps : List Pipe) (q : Path) (h1 : q ≠ pipesDat) (h2 : q ≠ pipesTmp) :
    ∀ st ∈ savePipesSteps c ps, ¬ st.touches q := by
  intro st hst
  rw [savePipesSteps_eq] at hst
  simp only [List.mem_cons, List.mem_nil_iff, or_false] at hst
  rcases hst with h | h | h <;> subst h <;> simp [Step.touches, h1, h2]

theorem tindexSaveSteps_touch (c : Codec TMap) (f : Files) (m : TMap) (q : Path) (hq : ¬ tindexPath q) :
    ∀ st ∈ tindexSaveSteps c f m, ¬ st.touches q := by
  intro st hst
  simp only [tindexSaveSteps, tindexSaveStepsOf, List.mem_flatMap] at hst
  obtain ⟨cl, _, hc⟩ := hst
  exact tindexCallSteps_touch _ _ cl q hq st hc

theorem cutSteps_touch (steps : List Step) (c : Cut) (q : Path) (h : ∀ st ∈ steps, ¬ st.touches q) :
    ∀ st ∈ cutSteps steps c, ¬ st.touches q := by
  intro st hst
  simp only [cutSteps, List.mem_append] at hst
  rcases hst with hst | hst
  · exact h st (List.mem_of_mem_take hst)
  · split at hst
    · next p bs hk =>
      simp only [List.mem_singleton] at hst
      subst hst
      have := h _ (List.mem_of_getElem? hk)
      simpa [Step.touches] using this
    · cases hst

theorem cutSteps_append_lt (a b : List Step) (c : Cut) (h : c.k < a.length) : cutSteps (a ++ b) c = cutSteps a c := by
  simp only [cutSteps]
  rw [List.take_append_of_le_length (Nat.le_of_lt h), List.getElem?_append_left h]

theorem cutSteps_append_ge (a b : List Step) (c : Cut) (h : a.length ≤ c.k) :
    cutSteps (a ++ b) c = a ++ cutSteps b ⟨c.k - a.length, c.len⟩ := by
  simp only [cutSteps]
  rw [List.take_append, List.getElem?_append_right h, List.take_of_length_le h, List.append_assoc]

/-- the registry file at every cut of `savePipes` followed by steps that leave it alone (the removal of a position file,
the snapshot save of a shutdown): the old content or the complete new list -/
theorem loadPipes_at_cut (K : Codecs) (hK : K.Laws) (f : Files) (new : List Pipe) (tail : List Step)
    (ht : ∀ st ∈ tail, ¬ st.touches pipesDat) (c : Cut) :
    loadPipes K.pipes (diskAt f (savePipesSteps K.pipes new ++ tail) c) = loadPipes K.pipes f ∨
    loadPipes K.pipes (diskAt f (savePipesSteps K.pipes new ++ tail) c) = some new := by
  have hne := pipesDat_ne_tmp
  rw [diskAt_eq]
  by_cases hk : c.k < (savePipesSteps K.pipes new).length
  · rw [cutSteps_append_lt _ _ _ hk, savePipesSteps_eq]
    rw [savePipesSteps_eq] at hk
    obtain ⟨k, len⟩ := c
    simp only [List.length_cons, List.length_nil] at hk
    left
    match k, hk with
    | 0, _ => simp [cutSteps, runSteps]
    | 1, _ => simp [cutSteps, runSteps, applyStep, Files.set, loadPipes, hne]
    | 2, _ => simp [cutSteps, runSteps, applyStep, Files.set, loadPipes, hne]
  · right
    rw [cutSteps_append_ge _ _ _ (Nat.le_of_not_lt hk), runSteps_append]
    apply (loadPipes_congr _ _ (runSteps f (savePipesSteps K.pipes new)) _).trans
    · simp [loadPipes, savePipes_at, hK.pipes.rt]
    · exact runSteps_frame _ _ _ (cutSteps_touch _ _ _ ht)

/-- … and preceded by steps that leave it alone (the removal of the position file in `DeletePipe`) -/
theorem loadPipes_at_cut_pre (K : Codecs) (hK : K.Laws) (f : Files) (new : List Pipe) (pre tail : List Step)
    (hp : ∀ st ∈ pre, ¬ st.touches pipesDat) (ht : ∀ st ∈ tail, ¬ st.touches pipesDat) (c : Cut) :
    loadPipes K.pipes (diskAt f (pre ++ (savePipesSteps K.pipes new ++ tail)) c) = loadPipes K.pipes f ∨
    loadPipes K.pipes (diskAt f (pre ++ (savePipesSteps K.pipes new ++ tail)) c) = some new := by
  by_cases hk : c.k < pre.length
  · left
    rw [diskAt_eq, cutSteps_append_lt _ _ _ hk]
    exact loadPipes_congr _ _ _ (runSteps_frame _ _ _ (cutSteps_touch _ _ _ hp))
  · have hf' : loadPipes K.pipes (runSteps f pre) = loadPipes K.pipes f := loadPipes_congr _ _ _ (runSteps_frame _ _ _ hp)
    have := loadPipes_at_cut K hK (runSteps f pre) new tail ht ⟨c.k - pre.length, c.len⟩
    rw [hf', diskAt_eq] at this
    rw [diskAt_eq, cutSteps_append_ge _ _ _ (Nat.le_of_not_lt hk), runSteps_append]
    exact this

/-- a start on a disk whose tag-index file encodes `m` and whose registry decodes to `ps`: not refused, and consistent -/
theorem start_spec (K : Codecs) (hK : K.Laws) (parseOk : TagLine → Bool) (d : Disk) (m : TMap) (ps : List Pipe)
    (ht : d.files .tindexDat = some (K.tidx.enc m)) (hp : m.all (fun e => parseOk e.1) = true)
    (hj : (journalsOnDisk d.db).all (tmapHasSrc m) = true) (hr : loadPipes K.pipes d.files = some ps)
    (hs : ∀ p ∈ ps, p.name ≠ pipeNameS) :
    recover K parseOk d = .started (recovered K d m ps) ∧ Inv K parseOk (recovered K d m ps) :=
  ⟨recover_spec K hK parseOk d m ps ht hp hj hr, inv_recovered K parseOk d m ps hp hj hr hs⟩

/-- a start on a disk whose tag index is fine and whose registry file does not decode is refused by the pipe service -/
theorem recover_refusedPipes (K : Codecs) (hK : K.Laws) (parseOk : TagLine → Bool) (d : Disk) (m : TMap)
    (ht : d.files .tindexDat = some (K.tidx.enc m)) (hp : m.all (fun e => parseOk e.1) = true)
    (hj : (journalsOnDisk d.db).all (tmapHasSrc m) = true) (hr : loadPipes K.pipes d.files = none) :
    recover K parseOk d = .refusedPipes := by
  have hload : loadState K.tidx parseOk d.files = some m := by simp [loadState, ht, hK.tidx.rt, hp]
  have hcc : checkConsistency K.tidx parseOk d.files (journalsOnDisk d.db)
      = some (m, runSteps d.files (tindexSaveSteps K.tidx d.files m)) := by
    simp [checkConsistency, hload, hj]
  have hlp : loadPipes K.pipes (runSteps d.files (tindexSaveSteps K.tidx d.files m)) = none :=
    (loadPipes_congr _ _ d.files (tindexSave_frame _ _ _ _ pipesDat pipesDat_not_tindex)).trans hr
  simp only [recover, hcc, pipesInit, hlp, Option.map_none]

end Logrange.Persist
