import Logrange.Proofs.DateSecondStage
/-!
# The text of an instant at the START OF A LOG LINE: what may follow it

`Format.Parse` searches the whole line, so what follows the timestamp matters. A byte `c` is **inert** for an expression
(`inertD`) when no atom of the expression can consume it — except a `.` that is followed by a mandatory digit (`.SSS` =
`.\d{3,}`, `MM.DD.YYYY`), which can consume `c` only when the byte after `c` is a digit. For an inert separator `c` and a
rest `w` of the line that does not begin with a digit, the matcher on `a ++ c :: w` behaves exactly as on `a`
(`ms_inert`: same remainders in the same priority order, with `c :: w` appended), so the guarded search on the line is
the search on `a`, and, when that finds nothing, the search in `w` (`findFrom_inert`). Hence `first_match_line`: with an
inert separator and a rest of the line in which no format up to `k` finds a date, the list's answer for the line is its
answer for the text alone (`first_match_agree`).
-/
namespace Logrange.Date

/-- every match of the expression begins by consuming a digit -/
def startsDigit : Rx → Bool
  | .cls rg => rg.all (fun p => 48 ≤ p.1 && p.2 ≤ 57)
  | .seq a _ => startsDigit a
  | _ => false

def isAnyRx : Rx → Bool
  | .any => true
  | _ => false

/-- no atom of the expression can consume the byte `c` when the byte after `c` is not a digit -/
def inertD (c : UInt8) : Rx → Bool
  | .eps => true
  | .chr x => x != c
  | .any => c == 10
  | .cls rg => !inCls rg c
  | .star rg => !inCls rg c
  | .alt a b => inertD c a && inertD c b
  | .seq a b => (inertD c a && inertD c b) || (isAnyRx a && startsDigit b && inertD c b)

/-- the text does not begin with a digit (it may be empty) -/
def noDigitHead (w : Bytes) : Bool :=
  match w with
  | [] => true
  | x :: _ => !isDig x

theorem ms_startsDigit : ∀ (r : Rx), startsDigit r = true → ∀ (w : Bytes), noDigitHead w = true → ms r w = []
  | .cls rg, h, w, hw => by
    simp only [startsDigit, List.all_eq_true, Bool.and_eq_true, decide_eq_true_eq] at h
    cases w with
    | nil => simp [ms]
    | cons x t =>
      simp only [noDigitHead, Bool.not_eq_true'] at hw
      have hx : inCls rg x = false := by
        cases hin : inCls rg x with
        | false => rfl
        | true =>
          exfalso
          simp only [inCls, List.any_eq_true, Bool.and_eq_true, decide_eq_true_eq] at hin
          obtain ⟨p, hp, h1, h2⟩ := hin
          have := h p hp
          have hd : isDig x = true := by
            simp only [isDig, Bool.and_eq_true, decide_eq_true_eq]
            exact ⟨UInt8.le_trans this.1 h1, UInt8.le_trans h2 this.2⟩
          rw [hd] at hw; cases hw
      simp [ms, hx]
  | .seq a b, h, w, hw => by
    simp only [startsDigit] at h
    simp [ms, ms_startsDigit a h w hw]
  | .eps, h, _, _ => by simp [startsDigit] at h
  | .chr _, h, _, _ => by simp [startsDigit] at h
  | .any, h, _, _ => by simp [startsDigit] at h
  | .alt _ _, h, _, _ => by simp [startsDigit] at h
  | .star _, h, _, _ => by simp [startsDigit] at h

theorem starRem_inert (rg : List (UInt8 × UInt8)) (c : UInt8) (w : Bytes) (hc : inCls rg c = false) :
    ∀ (a : Bytes), starRem rg (a ++ c :: w) = (starRem rg a).map (· ++ c :: w)
  | [] => by simp [starRem, hc]
  | y :: a => by
    simp only [List.cons_append, starRem]
    split
    · rw [starRem_inert rg c w hc a]; simp
    · simp

/-- **an inert separator cuts the matcher**: on `a ++ c :: w` the expression has exactly the matches it has on `a` -/
theorem ms_inert (c : UInt8) (w : Bytes) (hw : noDigitHead w = true) :
    ∀ (r : Rx), inertD c r = true → ∀ (a : Bytes), ms r (a ++ c :: w) = (ms r a).map (· ++ c :: w)
  | .eps, _, a => by simp [ms]
  | .chr x, h, a => by
    simp only [inertD, bne_iff_ne, ne_eq] at h
    cases a with
    | nil =>
      have : (c == x) = false := by
        apply beq_false_of_ne; intro e; exact h e.symm
      simp only [List.nil_append, ms, this, Bool.false_eq_true, if_false, List.map_nil]
    | cons y a' =>
      simp only [List.cons_append, ms]
      split <;> simp
  | .any, h, a => by
    simp only [inertD, beq_iff_eq] at h
    cases a with
    | nil => subst h; simp [ms]
    | cons y a' =>
      simp only [List.cons_append, ms]
      split <;> simp
  | .cls rg, h, a => by
    simp only [inertD, Bool.not_eq_true'] at h
    cases a with
    | nil => simp [ms, h]
    | cons y a' =>
      simp only [List.cons_append, ms]
      split <;> simp
  | .star rg, h, a => by
    simp only [inertD, Bool.not_eq_true'] at h
    simp only [ms]
    exact starRem_inert rg c w h a
  | .alt p q, h, a => by
    simp only [inertD, Bool.and_eq_true] at h
    simp only [ms, ms_inert c w hw p h.1 a, ms_inert c w hw q h.2 a, List.map_append]
  | .seq p q, h, a => by
    simp only [inertD, Bool.or_eq_true, Bool.and_eq_true] at h
    rcases h with h | h
    · simp only [ms, ms_inert c w hw p h.1 a, List.flatMap_map, List.map_flatMap]
      congr 1
      funext y
      exact ms_inert c w hw q h.2 y
    · obtain ⟨⟨hany, hsd⟩, hq⟩ := h
      cases p with
      | any =>
        cases a with
        | nil =>
          simp only [List.nil_append, ms]
          split <;> simp [ms_startsDigit q hsd w hw]
        | cons y a' =>
          simp only [List.cons_append, ms]
          split
          · simp [ms_inert c w hw q hq a']
          · simp
      | eps => simp [isAnyRx] at hany
      | chr _ => simp [isAnyRx] at hany
      | cls _ => simp [isAnyRx] at hany
      | seq _ _ => simp [isAnyRx] at hany
      | alt _ _ => simp [isAnyRx] at hany
      | star _ => simp [isAnyRx] at hany

theorem ms_length_le : ∀ (r : Rx) (s : Bytes), ∀ rem ∈ ms r s, rem.length ≤ s.length
  | .eps, s, rem, h => by simp [ms] at h; subst h; exact Nat.le_refl _
  | .chr x, s, rem, h => by
    cases s with
    | nil => simp [ms] at h
    | cons y t => simp only [ms] at h; split at h <;> simp at h; subst h; simp
  | .any, s, rem, h => by
    cases s with
    | nil => simp [ms] at h
    | cons y t => simp only [ms] at h; split at h <;> simp at h; subst h; simp
  | .cls rg, s, rem, h => by
    cases s with
    | nil => simp [ms] at h
    | cons y t => simp only [ms] at h; split at h <;> simp at h; subst h; simp
  | .star rg, s, rem, h => by
    simp only [ms] at h
    induction s generalizing rem with
    | nil => simp [starRem] at h; subst h; simp
    | cons y t ih =>
      simp only [starRem] at h
      split at h
      · rcases List.mem_append.mp h with h | h
        · have := ih rem h; simp; omega
        · simp at h; subst h; simp
      · simp at h; subst h; simp
  | .alt p q, s, rem, h => by
    simp only [ms, List.mem_append] at h
    rcases h with h | h
    · exact ms_length_le p s rem h
    · exact ms_length_le q s rem h
  | .seq p q, s, rem, h => by
    simp only [ms, List.mem_flatMap] at h
    obtain ⟨m, hm, hr⟩ := h
    exact Nat.le_trans (ms_length_le q m rem hr) (ms_length_le p s m hm)

theorem matchAt_inert {c : UInt8} {w : Bytes} (hw : noDigitHead w = true) {r : Rx} (hr : inertD c r = true) (a : Bytes) :
    matchAt r (a ++ c :: w) = matchAt r a := by
  simp only [matchAt, ms_inert c w hw r hr a]
  cases hm : ms r a with
  | nil => simp
  | cons rem rest =>
    have hle : rem.length ≤ a.length := ms_length_le r a rem (by simp [hm])
    simp only [List.map_cons, List.head?_cons, Option.map_some, Option.some.injEq, List.length_append, List.length_cons]
    have e : a.length + (w.length + 1) - (rem.length + (w.length + 1)) = a.length - rem.length := by omega
    rw [e, List.take_append_of_le_length (by omega)]

/-- the guarded search on a line `a ++ c :: w` with an inert separator: the search on `a`, then the search in `w` -/
theorem findFrom_inert {c : UInt8} {w : Bytes} (hw : noDigitHead w = true) {r : Rx} (hr : inertD c r = true) (g : Bool) :
    ∀ (a : Bytes) (pd : Bool), findFrom g r pd (a ++ c :: w) =
      (match findFrom g r pd a with
       | some m => some m
       | none => findFrom g r (decide (48 ≤ c) && decide (c ≤ 57)) w)
  | [], pd => by
    have h0 := matchAt_inert hw hr []
    simp only [List.nil_append] at h0
    simp only [List.nil_append, findFrom, h0]
    cases hgp : (g && pd) with
    | true => simp
    | false =>
      simp only [Bool.false_eq_true, if_false]
      cases matchAt r [] <;> rfl
  | y :: a, pd => by
    have h0 := matchAt_inert hw hr (y :: a)
    simp only [List.cons_append] at h0
    simp only [List.cons_append, findFrom, h0]
    cases hm : (if (g && pd) = true then none else matchAt r (y :: a)) with
    | some m => simp
    | none => simp only; exact findFrom_inert hw hr g a _

/-- `Format.Parse` on the line is `Format.Parse` on the text alone when the separator is inert for the format's expression
and the format's expression finds nothing in the rest of the line -/
theorem formatParse_line {adj : Adjust} {cf : CFormat} {now : Now} {r : Rx} (hrx : cf.rx = some r) {c : UInt8} {w : Bytes}
    (hw : noDigitHead w = true) (hr : inertD c r = true)
    (hrest : findFrom cf.guard r (decide (48 ≤ c) && decide (c ≤ 57)) w = none) (a : Bytes) :
    formatParse adj cf now (a ++ c :: w) = formatParse adj cf now a := by
  have : findG cf.guard r (a ++ c :: w) = findG cf.guard r a := by
    simp only [findG, findFrom_inert hw hr cf.guard a false, hrest]
    cases findFrom cf.guard r false a <;> rfl
  simp only [formatParse, hrx, this]

/-- `parser.Parse` only looks at the formats up to the one that claims the text -/
theorem parseFrom_congr {adj : Adjust} {now : Now} {b1 b2 : Bytes} {c : Civil} :
    ∀ (fmts : List CFormat) (i0 j' : Nat),
      (∀ j, j ≤ j' → ∀ cj, fmts[j]? = some cj → formatParse adj cj now b2 = formatParse adj cj now b1) →
      parseFrom adj now b1 i0 fmts = .ok (i0 + j') c → parseFrom adj now b2 i0 fmts = .ok (i0 + j') c
  | [], _, _, _, h => by simp [parseFrom] at h
  | cf :: rest, i0, j', hag, h => by
    have h0 := hag 0 (Nat.zero_le _) cf (by simp)
    simp only [parseFrom, h0] at h ⊢
    cases hfp : formatParse adj cf now b1 with
    | ok c' => rw [hfp] at h; exact h
    | unsupported w' => rw [hfp] at h; cases h
    | err =>
      rw [hfp] at h
      simp only at h ⊢
      cases j' with
      | zero =>
        -- the claimant has an index ≥ i0 + 1: impossible
        exfalso
        have : ∀ (l : List CFormat) (i : Nat) (k : Nat) (d : Civil), parseFrom adj now b1 i l = .ok k d → i ≤ k := by
          intro l
          induction l with
          | nil => intro i k d hh; simp [parseFrom] at hh
          | cons x xs ih =>
            intro i k d hh
            simp only [parseFrom] at hh
            split at hh
            · cases hh; exact Nat.le_refl _
            · cases hh
            · have := ih (i + 1) k d hh; omega
        have := this rest (i0 + 1) (i0 + 0) c h
        omega
      | succ j'' =>
        have e : i0 + (j'' + 1) = (i0 + 1) + j'' := by omega
        rw [e] at h ⊢
        exact parseFrom_congr rest (i0 + 1) j''
          (fun j hj cj hcj => hag (j + 1) (by omega) cj (by simpa using hcj)) h

/-- the separator is inert for the expression of every format of the list up to index `k` -/
def sepInert (fmts : List CFormat) (k : Nat) (c : UInt8) : Bool :=
  (fmts.take (k + 1)).all (fun cf => match cf.rx with | some r => inertD c r | none => false)

/-- no format of the list up to index `k` finds a date in the rest of the line -/
def noDateInRest (fmts : List CFormat) (k : Nat) (c : UInt8) (w : Bytes) : Prop :=
  ∀ j, j ≤ k → ∀ cj r, fmts[j]? = some cj → cj.rx = some r → findFrom cj.guard r (decide (48 ≤ c) && decide (c ≤ 57)) w = none

/-- **first match at the start of a line**: the text of any valid instant in format `k`, followed by a separator that is
inert for the formats up to `k` and a rest of the line that does not begin with a digit and in which none of those formats
finds a date, is answered by the list exactly as the text alone: the fields format `k` carries. -/
theorem first_match_line {adj : Adjust} {now : Now} {fmts : List CFormat} {k : Nat} {ck : CFormat} (hk : fmts[k]? = some ck)
    (hidx : idxOK fmts k = true) (hown : ownOK ck = true) (i : XInst) (hi : ValidX i)
    (c : UInt8) (w : Bytes) (hsep : sepInert fmts k c = true) (hw : noDigitHead w = true) (hrest : noDateInRest fmts k c w) :
    ∃ txt cv j', renderLayout ck.layout i = some txt ∧ projectX ck.layout i = .ok cv ∧ j' ≤ k ∧
      parseFirst adj fmts now (txt ++ c :: w) = .ok j' (adjAll adj ck now cv) := by
  obtain ⟨txt, cv, j', ht, hc, hj, hpf⟩ := first_match_agree (adj := adj) (now := now) hk hidx hown i hi
  refine ⟨txt, cv, j', ht, hc, hj, ?_⟩
  have hag : ∀ j, j ≤ j' → ∀ cj, fmts[j]? = some cj →
      formatParse adj cj now (txt ++ c :: w) = formatParse adj cj now txt := by
    intro j hjj cj hcj
    have hmem : cj ∈ fmts.take (k + 1) := by
      rw [List.mem_iff_getElem?]
      exact ⟨j, by rw [List.getElem?_take]; simp [show j < k + 1 by omega, hcj]⟩
    have hin := List.all_eq_true.mp hsep cj hmem
    cases hrx : cj.rx with
    | none => rw [hrx] at hin; simp at hin
    | some r =>
      rw [hrx] at hin
      exact formatParse_line hrx hw hin (hrest j (by omega) cj r hcj hrx) txt
  have := parseFrom_congr (adj := adj) (now := now) (b1 := txt) (b2 := txt ++ c :: w) fmts 0 j' hag
    (by simpa [parseFirst] using hpf)
  simpa [parseFirst] using this

end Logrange.Date
