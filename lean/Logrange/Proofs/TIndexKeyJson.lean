import Logrange.Model.TIndexUtf8
import Logrange.Proofs.RegistryJson
namespace Logrange.Proofs.KeyJson
open Go Logrange.Quote Logrange.Registry

theorem decodeRune_eq (s : Bytes) : Logrange.Quote.decodeRune s = jDecodeRune s := by
  unfold Logrange.Quote.decodeRune jDecodeRune
  rfl

theorem valid_eq : ∀ (f : Nat) (s : Bytes), Logrange.Quote.validUtf8 f s = validGo f s := by
  intro f
  induction f with
  | zero => intro s; rfl
  | succ n ih =>
    intro s
    cases s with
    | nil => rfl
    | cons c rest =>
      unfold Logrange.Quote.validUtf8 validGo
      by_cases h : c.toNat < 0x80
      · simp only [h, if_true]; exact ih rest
      · simp only [h, if_false]
        rw [decodeRune_eq]
        cases hd : jDecodeRune (c :: rest) with
        | mk r w =>
          simp only [jBad, Logrange.Quote.runeError, jRuneError]
          simp [ih]

/-- **a key created under the UTF-8 guard is written to and read back from `tindex.dat` unchanged**: `encoding/json`
(`Registry.jsanitize` = `Unmarshal ∘ Marshal` on a Go string, C19/C07's model, validated against the real codec there) is the
identity on it -/
theorem valid_key_json_stable (k : Bytes) (h : Logrange.TIndexUtf8.validLine k = true) : jsanitize k = k := by
  apply jsanitize_valid
  unfold Logrange.TIndexUtf8.validLine at h
  unfold Logrange.Registry.validUtf8
  rw [← valid_eq]; exact h

end Logrange.Proofs.KeyJson
