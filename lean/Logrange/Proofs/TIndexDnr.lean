import Logrange.Proofs.TIndexLts
import Logrange.Model.TIndexProg
/-!
A waiting `Visit` with `VF_DO_NOT_RELEASE` (`GetJournals`) owes nothing between two callbacks: the entry acquired by the
per-item section becomes the client's when the visitor returns (`vstd[i] = nil`). Hence such a visit, when `Shutdown()`
interrupts it, leaves no visit-owned acquisition behind — only the auto-release waiting visit (`Partitions`) can.
-/
namespace Logrange.TIndexLts

/-- the waiting, non-releasing visits owe exactly the entry whose callback is running -/
def DnrInv (st : St) : Prop :=
  ∀ a v, st.vis a = some v → v.skipping = false → v.noRelease = true →
    (v.cur = none → v.owed = []) ∧ (∀ s, v.cur = some s → v.owed = [s])

theorem dnrInv_init : DnrInv init := by
  intro a v h; simp [init] at h

theorem dnrInv_same {st st' : St} (h : DnrInv st) (e : st'.vis = st.vis) : DnrInv st' := by
  intro a v hv; rw [e] at hv; exact h a v hv

theorem dnrInv_step (st st' : St) (l : Lbl) (h : DnrInv st) (hs : step st l = some st') : DnrInv st' := by
  -- only the actor's own visit labels change `vis`
  have upd_case : ∀ (a : Nat) (o : Option Visit), st'.vis = upd st.vis a o →
      (∀ v, o = some v → v.skipping = false → v.noRelease = true →
        (v.cur = none → v.owed = []) ∧ (∀ s, v.cur = some s → v.owed = [s])) → DnrInv st' := by
    intro a o e ho b v hv
    rw [e] at hv
    by_cases eb : b = a
    · subst eb; rw [upd_same] at hv; exact ho v hv
    · rw [upd_other _ _ _ _ eb] at hv; exact h b v hv
  cases l with
  | shutdown => simp only [step] at hs; cases hs; exact dnrInv_same h rfl
  | getOrCreate a t c =>
    simp only [step] at hs
    repeat' split at hs
    all_goals (simp only [Option.some.injEq] at hs; subst hs; exact dnrInv_same h rfl)
  | getTags a s lk =>
    simp only [step] at hs
    repeat' split at hs
    all_goals (simp only [Option.some.injEq] at hs; subst hs; exact dnrInv_same h rfl)
  | release a s =>
    simp only [step] at hs
    repeat' split at hs
    all_goals first
      | (simp only [Option.some.injEq] at hs; subst hs; exact dnrInv_same h rfl)
      | cases hs
  | lockX a s =>
    simp only [step] at hs
    repeat' split at hs
    all_goals first
      | (simp only [Option.some.injEq] at hs; subst hs; exact dnrInv_same h rfl)
      | cases hs
  | unlockX a s =>
    simp only [step] at hs
    repeat' split at hs
    all_goals first
      | (simp only [Option.some.injEq] at hs; subst hs; exact dnrInv_same h rfl)
      | cases hs
  | delete a s =>
    simp only [step] at hs
    repeat' split at hs
    all_goals first
      | (simp only [Option.some.injEq] at hs; subst hs; exact dnrInv_same h rfl)
      | cases hs
  | visitBegin a sel sk nr =>
    simp only [step] at hs
    split at hs
    · cases hs
    · split at hs
      · simp only [Option.some.injEq] at hs; subst hs; exact dnrInv_same h rfl
      · simp only [Option.some.injEq] at hs; subst hs
        refine upd_case a _ rfl ?_
        intro v hv hsk _
        cases hv
        simp only [] at hsk
        simp [hsk]
  | visitTry a s =>
    simp only [step] at hs
    split at hs
    · cases hs
    · rename_i v hv
      split at hs
      · cases hs
      · rename_i hc
        simp only [Bool.or_eq_true, not_or, Bool.not_eq_true] at hc
        have hskip : v.skipping = false := by simpa using hc.1.1.1
        have hcur : v.cur = none := by
          have := hc.1.2; cases hcu : v.cur <;> simp_all
        split at hs
        · simp only [Option.some.injEq] at hs; subst hs
          exact upd_case a none rfl (fun v' hv' => by cases hv')
        · split at hs
          · simp only [Option.some.injEq] at hs; subst hs
            refine upd_case a _ rfl ?_
            intro v' hv' hsk' hnr'
            cases hv'
            exact ⟨fun _ => (h a v hv hskip hnr').1 hcur, fun s' hs' => by simp [hcur] at hs'⟩
          · split at hs
            · simp only [Option.some.injEq] at hs; subst hs; exact dnrInv_same h rfl
            · simp only [Option.some.injEq] at hs; subst hs
              refine upd_case a _ rfl ?_
              intro v' hv' hsk' hnr'
              cases hv'
              have h0 := (h a v hv hskip hnr').1 hcur
              exact ⟨fun hcn => by simp at hcn, fun s' hs' => by simp at hs'; subst hs'; simp [h0]⟩
  | visitCb a s cont =>
    simp only [step] at hs
    split at hs
    · cases hs
    · rename_i v hv
      split at hs
      · rename_i hcb
        split at hs
        · rename_i hnr
          simp only [Option.some.injEq] at hs; subst hs
          refine upd_case a _ rfl ?_
          intro v' hv' hsk' _
          cases hv'
          simp only [] at hsk'
          have hcs : v.cur = some s := by
            simp only [cbOk, hsk', Bool.false_eq_true, if_false, Bool.and_eq_true, beq_iff_eq] at hcb
            exact hcb.1.2
          have h1 := (h a v hv hsk' hnr).2 s hcs
          exact ⟨fun _ => by simp [h1], fun s' hs' => by simp at hs'⟩
        · rename_i hnr
          simp only [Option.some.injEq] at hs; subst hs
          refine upd_case a _ rfl ?_
          intro v' hv' _ hnr'
          cases hv'
          simp only [] at hnr'
          exact absurd hnr' hnr
      · cases hs
  | visitEnd a =>
    simp only [step] at hs
    split at hs
    · cases hs
    · split at hs
      · simp only [Option.some.injEq] at hs; subst hs
        exact upd_case a none rfl (fun v' hv' => by cases hv')
      · cases hs

theorem dnrInv_run (tr : List Lbl) : ∀ st, DnrInv st → DnrInv (run st tr) := by
  induction tr with
  | nil => intro st h; exact h
  | cons l tr ih =>
    intro st h
    simp only [run]
    cases hs : step st l with
    | some st' => exact ih st' (dnrInv_step st st' l h hs)
    | none => exact ih st h

end Logrange.TIndexLts

namespace Logrange.TIndexProg
open Logrange.TIndexLts

/-- … in every reachable state of the system of caller programs (`Shutdown()` included) -/
theorem dnrInv_reach {x : Sys} (h : Reach x) : DnrInv x.st := by
  induction h with
  | start ctl he => exact dnrInv_init
  | step _ s ih => obtain ⟨_, l, _, _, hs, _⟩ := s; exact dnrInv_step _ _ l ih hs
  | call _ _ _ _ _ ih => exact ih
  | shutdown _ ih => exact dnrInv_same ih rfl

end Logrange.TIndexProg
