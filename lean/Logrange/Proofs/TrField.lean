import Logrange.Translated.Field
import Logrange.Model.Fields
import Logrange.Model.FieldsKV
import Logrange.Model.WireFields
/-!
# `field.Check` and `(Fields).Value` as translated from the Go source = the hand-written models

`Field.Check` / `Field.Fields_Value` (machine-generated fuel loops over the `Int` index `idx`) never run out of fuel;
`Check` never panics and agrees with `WireFields.check` (C13) and `FieldsKV.check` (C08); `Fields_Value` returns the
value of `Fields.valueP` and panics exactly where that model says the Go code panics.
-/
-- `Sem.bind` is listed wherever a bind may have to be reduced, whether or not an earlier `simp only` already unfolded it
set_option linter.unusedSimpArgs false
namespace Logrange.Proofs.TrField
open Go Go.Sem Logrange Logrange.Translated

theorem drop_succ_drop {α : Type} (l : List α) (i n : Nat) : (l.drop (i + 1)).drop n = l.drop (i + n + 1) := by
  rw [List.drop_drop]; congr 1; omega

/-! ## Check -/

theorem checkGo_nil (m : Nat) (h : 0 < m) : WireFields.checkGo m [] = true := by
  cases m with
  | zero => omega
  | succ m => rw [WireFields.checkGo.eq_def]

theorem checkGo_cons (m : Nat) (c : UInt8) (rest : Bytes) :
    WireFields.checkGo (m + 1) (c :: rest) =
      if rest.length < c.toNat then false else WireFields.checkGo m (rest.drop c.toNat) := by
  rw [WireFields.checkGo.eq_def]

theorem check_loop (str : Bytes) (fuel : Nat) :
    ∀ (i m : Nat), i ≤ str.length → str.length - i < fuel → str.length - i < m →
      Field.Check_loop1 str fuel (i : Int)
        = .ok (if WireFields.checkGo m (str.drop i) then (str, false) else ([], true)) := by
  induction fuel with
  | zero => intro i m _ h; omega
  | succ f ih =>
    intro i m hi hf hm
    rw [Field.Check_loop1]
    by_cases hlt : i < str.length
    · have hg : decide ((i : Int) < len str) = true := by
        simp only [len, decide_eq_true_eq]; omega
      simp only [hg, if_true]
      rw [index_ok str i hlt]
      simp only [Sem.bind]
      rw [List.drop_eq_getElem_cons hlt]
      generalize str[i] = c
      obtain ⟨m', rfl⟩ : ∃ m', m = m' + 1 := ⟨m - 1, by omega⟩
      rw [checkGo_cons]
      have e1 : (i : Int) + ((c.toNat : Int) + 1) = ((i + c.toNat + 1 : Nat) : Int) := by omega
      rw [e1]
      have hlen : (str.drop (i + 1)).length = str.length - (i + 1) := List.length_drop
      by_cases hn : (str.drop (i + 1)).length < c.toNat
      · -- the jump runs past the end: the loop stops with `idx ≠ len`
        simp only [hn, if_true]
        obtain ⟨f', rfl⟩ : ∃ f', f = f' + 1 := ⟨f - 1, by omega⟩
        rw [Field.Check_loop1]
        have hg2 : decide (((i + c.toNat + 1 : Nat) : Int) < len str) = false := by
          simp only [len, decide_eq_false_iff_not]; omega
        have hne : (((i + c.toNat + 1 : Nat) : Int) != len str) = true := by
          simp only [len, bne_iff_ne, ne_eq]; omega
        simp only [hg2, Field.Check_after1, hne, if_true, Bool.false_eq_true, if_false]
      · simp only [hn, if_false]
        rw [drop_succ_drop]
        exact ih _ _ (by omega) (by omega) (by omega)
    · have he : i = str.length := by omega
      have hg : decide ((i : Int) < len str) = false := by
        simp only [len, decide_eq_false_iff_not]; omega
      have hne : ((i : Int) != len str) = false := by
        simp only [len, he, bne_self_eq_false]
      simp only [hg, Field.Check_after1, hne, Bool.false_eq_true, if_false]
      rw [List.drop_eq_nil_of_le (by omega), checkGo_nil m (by omega)]
      simp only [if_true]

theorem check_eq_wire (str : Bytes) :
    Field.Check str = .ok (if WireFields.check str then (str, false) else ([], true)) := by
  have h := check_loop str (dist 0 (len str)) 0 (str.length + 1) (Nat.zero_le _)
    (by simp only [dist, len]; omega) (by omega)
  exact h

/-- the two hand models of `Check` differ only when their fuel runs out -/
theorem kv_check_eq_wire (m : Nat) : ∀ (l : Bytes), l.length < m → FieldsKV.check m l = WireFields.checkGo m l := by
  induction m with
  | zero => intro l h; omega
  | succ m ih =>
    intro l h
    cases l with
    | nil => rw [FieldsKV.check.eq_def, WireFields.checkGo.eq_def]
    | cons c rest =>
      rw [FieldsKV.check.eq_def, WireFields.checkGo.eq_def]
      simp only []
      by_cases hn : rest.length < c.toNat
      · simp only [hn, if_true]
      · simp only [hn, if_false]
        apply ih
        simp only [List.length_drop, List.length_cons] at h ⊢
        omega

theorem check_eq_kv (str : Bytes) :
    Field.Check str = .ok (if FieldsKV.check (str.length + 1) str then (str, false) else ([], true)) := by
  rw [kv_check_eq_wire _ _ (by omega)]
  exact check_eq_wire str

/-! ## (Fields).Value -/

/-- the Go-shaped result of the model: `none` is the run-time panic -/
def toRes (o : Option Bytes) : Res Bytes :=
  match o with
  | some v => .ok v
  | none => .panic

theorem valueGo_nil (name : Bytes) (m : Nat) (even : Bool) : Fields.valueGo name m [] even = some [] := by
  cases m <;> rw [Fields.valueGo.eq_def]

theorem valueGo_cons (name : Bytes) (m : Nat) (c : UInt8) (rest : Bytes) (even : Bool) :
    Fields.valueGo name (m + 1) (c :: rest) even =
      if even && c.toNat == name.length then
        if rest.length < c.toNat then none
        else if rest.take c.toNat == name then
          match rest.drop c.toNat with
          | [] => none
          | d :: r2 => if r2.length < d.toNat then none else some (r2.take d.toNat)
        else Fields.valueGo name m (rest.drop c.toNat) (!even)
      else Fields.valueGo name m (rest.drop c.toNat) (!even) := by
  rw [Fields.valueGo.eq_def] <;> rfl

theorem value_loop (f name : Bytes) (fuel : Nat) :
    ∀ (i m : Nat) (even : Bool), f.length - i < fuel → f.length - i < m →
      Field.Fields_Value_loop1 f name fuel (i : Int) even = toRes (Fields.valueGo name m (f.drop i) even) := by
  induction fuel with
  | zero => intro i m _ h; omega
  | succ fu ih =>
    intro i m even hf hm
    rw [Field.Fields_Value_loop1]
    by_cases hlt : i < f.length
    · have hg : decide ((i : Int) < len f) = true := by
        simp only [len, decide_eq_true_eq]; omega
      simp only [hg, if_true]
      rw [index_ok f i hlt]
      simp only [Sem.bind]
      rw [List.drop_eq_getElem_cons hlt]
      generalize f[i] = c
      obtain ⟨m', rfl⟩ : ∃ m', m = m' + 1 := ⟨m - 1, by omega⟩
      rw [valueGo_cons]
      have hlen : (f.drop (i + 1)).length = f.length - (i + 1) := List.length_drop
      have hb : ((c.toNat : Int) == len name) = (c.toNat == name.length) := by
        rw [Bool.eq_iff_iff]; simp only [len, beq_iff_eq]; omega
      have e1 : (i : Int) + ((c.toNat : Int) + 1) = ((i + c.toNat + 1 : Nat) : Int) := by omega
      have e2 : (i : Int) + 1 = ((i + 1 : Nat) : Int) := by omega
      have e3 : (i : Int) + (c.toNat : Int) + 1 = ((i + c.toNat + 1 : Nat) : Int) := by omega
      simp only [hb, e1, e2, e3]
      by_cases hc : (even && (c.toNat == name.length)) = true
      · simp only [hc, if_true]
        by_cases hn : (f.drop (i + 1)).length < c.toNat
        · -- the name slice runs past the end
          rw [slice_panic_of_gt _ _ _ (by simp only [len]; omega)]
          simp only [hn, if_true, Sem.bind, toRes]
        · rw [slice_ok f (i + 1) (i + c.toNat + 1) (by omega) (by omega)]
          have e4 : i + c.toNat + 1 - (i + 1) = c.toNat := by omega
          rw [e4]
          simp only [Sem.bind, hn, if_false]
          by_cases ht : ((f.drop (i + 1)).take c.toNat == name) = true
          · -- the name matches: read the value item
            simp only [ht, if_true]
            rw [drop_succ_drop]
            by_cases hlt2 : i + c.toNat + 1 < f.length
            · rw [index_ok f _ hlt2, List.drop_eq_getElem_cons hlt2]
              simp only [Sem.bind]
              generalize f[i + c.toNat + 1] = d
              have hlen2 : (f.drop (i + c.toNat + 1 + 1)).length = f.length - (i + c.toNat + 1 + 1) :=
                List.length_drop
              have e5 : ((i + c.toNat + 1 : Nat) : Int) + 1 = ((i + c.toNat + 1 + 1 : Nat) : Int) := by omega
              have e6 : ((i + c.toNat + 1 : Nat) : Int) + (d.toNat : Int) + 1
                  = ((i + c.toNat + 1 + d.toNat + 1 : Nat) : Int) := by omega
              simp only [e5, e6]
              by_cases hn2 : (f.drop (i + c.toNat + 1 + 1)).length < d.toNat
              · rw [slice_panic_of_gt _ _ _ (by simp only [len]; omega)]
                simp only [hn2, if_true, Sem.bind, toRes]
              · rw [slice_ok f _ _ (by omega) (by omega)]
                have e7 : i + c.toNat + 1 + d.toNat + 1 - (i + c.toNat + 1 + 1) = d.toNat := by omega
                rw [e7]
                simp only [hn2, if_false, Sem.bind, toRes]
            · rw [index_panic_of_ge _ _ (by simp only [len]; omega), List.drop_eq_nil_of_le (by omega)]
              simp only [Sem.bind, toRes]
          · simp only [ht, Bool.false_eq_true, if_false]
            rw [drop_succ_drop]
            exact ih _ _ _ (by omega) (by omega)
      · -- the slice is not evaluated; `idx` may run past the end
        simp only [hc, Bool.false_eq_true, if_false, Sem.bind]
        rw [drop_succ_drop]
        exact ih _ _ _ (by omega) (by omega)
    · have hg : decide ((i : Int) < len f) = false := by
        simp only [len, decide_eq_false_iff_not]; omega
      simp only [hg, Bool.false_eq_true, if_false, Field.Fields_Value_after1]
      rw [List.drop_eq_nil_of_le (by omega), valueGo_nil]
      rfl

theorem value_eq (f name : Bytes) :
    Field.Fields_Value f name = (match Fields.valueP f name with | some v => .ok v | none => .panic) := by
  have h := value_loop f name (dist 0 (len f)) 0 (f.length + 1) true
    (by simp only [dist, len]; omega) (by omega)
  simpa only [Field.Fields_Value, Fields.valueP, toRes, List.drop_zero, Int.natCast_zero, Int.cast_ofNat_Int] using h

end Logrange.Proofs.TrField
