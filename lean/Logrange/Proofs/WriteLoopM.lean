import Logrange.Model.WriteLoopM
/-!
# Lemmas for the C01 write loop (`Model/JournalW.lean`, `Model/WriteLoopM.lean`)
-/
namespace Logrange.JournalW

/-- what one `Chunk.write` call does, for every chunk state, record list and iterator state -/
theorem chunkWrite_spec {σ : Type} (maxSize : Nat) (see : σ → Rec → σ) :
    ∀ (recs : List Rec) (c : Chunk) (st : σ) (n : Nat),
    ∃ k, k ≤ recs.length ∧
      (chunkWrite maxSize see c recs st n).1.recs = c.recs ++ (recs.take k).map (·.data) ∧
      (chunkWrite maxSize see c recs st n).2.1 = n + k ∧
      (chunkWrite maxSize see c recs st n).2.2.1 = recs.drop k ∧
      ((chunkWrite maxSize see c recs st n).2.2.2.2 = false → k = recs.length) ∧
      (c.size < maxSize → recs ≠ [] → 1 ≤ k) ∧
      (maxSize ≤ c.size → k = 0 ∧ (chunkWrite maxSize see c recs st n).2.2.2.2 = true ∧
        (chunkWrite maxSize see c recs st n).1 = c) := by
  intro recs
  induction recs with
  | nil =>
    intro c st n
    refine ⟨0, by simp, ?_⟩
    by_cases h : c.size ≥ maxSize
    · simp [chunkWrite, h]
    · simp [chunkWrite, h] <;> omega
  | cons r rest ih =>
    intro c st n
    by_cases h : c.size ≥ maxSize
    · refine ⟨0, by simp, ?_⟩
      simp [chunkWrite, h] <;> omega
    · obtain ⟨k, hk, h1, h2, h3, h4, _, _⟩ :=
        ih ⟨c.recs ++ [r.data], c.size + hdrSize + r.data.length⟩ (see st r) (n + 1)
      refine ⟨k + 1, by simp; omega, ?_⟩
      simp only [chunkWrite, h, ↓reduceIte]
      refine ⟨?_, ?_, ?_, ?_, ?_, ?_⟩
      · rw [h1]; simp
      · rw [h2]; omega
      · rw [h3]; simp
      · intro hf; have := h4 hf; simp; omega
      · intro _ _; omega
      · intro hc; exact hc.elim

theorem readAll_append (a b : Journal) : readAll (a ++ b) = readAll a ++ readAll b := by
  simp [readAll]

theorem readAll_single (c : Chunk) : readAll [c] = c.recs := by simp [readAll]

theorem positionsFrom_append : ∀ (a b : Journal) (s : Nat),
    positionsFrom s (a ++ b) = positionsFrom s a ++ positionsFrom (s + a.length) b := by
  intro a
  induction a with
  | nil => intro b s; simp [positionsFrom]
  | cons c cs ih =>
    intro b s
    simp only [List.cons_append, positionsFrom, ih, List.length_cons, List.append_assoc]
    congr 3; omega

theorem getLastD_concat (pre : Journal) (c d : Chunk) : (pre ++ [c]).getLastD d = c := by
  rw [List.getLastD_eq_getLast?]; simp

theorem dropLast_concat' (pre : Journal) (c : Chunk) : (pre ++ [c]).dropLast = pre := by simp

theorem positions_concat (pre : Journal) (c : Chunk) :
    positions (pre ++ [c]) = positions pre ++ (List.range c.recs.length).map (fun i => (pre.length + 1, i)) := by
  simp [positions, positionsFrom_append, positionsFrom, Nat.add_comm]

/-- what a `journal.Write` call announces and stores, relative to the journal `j0` it found -/
structure WSpec {σ : Type} (j0 : Journal) (recs : List Rec) (r : WRes σ) (k : Nat) : Prop where
  le : k ≤ recs.length
  err : r.err = false
  n : r.n = k
  rest : r.rest = recs.drop k
  pos1 : recs ≠ [] → 1 ≤ k
  read : readAll r.j = readAll j0 ++ (recs.take k).map (·.data)
  poss : 1 ≤ k → k ≤ r.pos.2 ∧
    positions r.j = positions j0 ++ (List.range k).map (fun i => (r.pos.1, r.pos.2 - k + i))
  pos0 : k = 0 → positions r.j = positions j0

/-- one pass of the loop body when the chunk chosen for writing is not full -/
theorem attempt_lt {σ : Type} (maxSize : Nat) (see : σ → Rec → σ) (fuel : Nat) (j pre : Journal) (c : Chunk)
    (excl : Nat) (recs : List Rec) (st : σ) (hc : c.size < maxSize) (hj : getChunkForWrite j excl = pre ++ [c]) :
    ∃ k, WSpec (pre ++ [c]) recs (journalWriteGo maxSize see (fuel + 1) j excl recs st) k := by
  obtain ⟨k, hk, h1, h2, h3, h4, h5, _⟩ := chunkWrite_spec maxSize see recs c st 0
  refine ⟨k, ?_⟩
  simp only [journalWriteGo, hj, getLastD_concat, dropLast_concat']
  generalize hcw : chunkWrite maxSize see c recs st 0 = res at h1 h2 h3 h4
  obtain ⟨c', n, rest, st', full⟩ := res
  simp only [Nat.zero_add] at h1 h2 h3 h4
  subst h2 h3
  by_cases hn : n > 0
  · simp only [hn, ↓reduceIte]
    refine ⟨hk, rfl, rfl, rfl, fun _ => hn, ?_, ?_, fun h0 => by omega⟩
    · simp [readAll_append, readAll_single, h1, List.append_assoc]
    · intro _
      refine ⟨by simp [h1, Nat.min_eq_left hk], ?_⟩
      rw [positions_concat, positions_concat, h1]
      simp only [List.length_append, List.length_map, List.length_take, Nat.min_eq_left hk, List.length_cons,
        List.length_nil, List.append_assoc, List.append_cancel_left_eq]
      rw [List.range_add, List.map_append, List.map_map]
      congr 1
      apply List.map_congr_left
      intro i _
      simp only [Function.comp]
      congr 1; omega
  · have hn0 : n = 0 := by omega
    subst hn0
    have hnil : recs = [] := by
      cases recs with
      | nil => rfl
      | cons r rs => have := h5 hc (by simp); omega
    subst hnil
    have hcw2 : chunkWrite maxSize see c [] st 0 = (c, 0, [], st, false) := by
      simp [chunkWrite, Nat.not_le.mpr hc]
    rw [hcw2] at hcw
    have hfull : full = false := by injection hcw with _ h; injection h with _ h; injection h with _ h; injection h with _ h; exact h.symm
    have hc' : c' = c := by injection hcw with h _; exact h.symm
    subst hfull hc'
    simp only [Nat.lt_irrefl, ↓reduceIte, Bool.false_eq_true]
    exact ⟨by simp, rfl, rfl, rfl, fun h => absurd rfl h, by simp, fun h => by omega, fun _ => rfl⟩

theorem getChunkForWrite_nil (excl : Nat) : getChunkForWrite [] excl = [] ++ [⟨[], 0⟩] := by
  simp [getChunkForWrite]

theorem getChunkForWrite_excl (j : Journal) : getChunkForWrite j j.length = j ++ [⟨[], 0⟩] := by
  simp [getChunkForWrite]

theorem getChunkForWrite_zero (pre : Journal) (c : Chunk) : getChunkForWrite (pre ++ [c]) 0 = pre ++ [c] := by
  simp [getChunkForWrite]

theorem WSpec_fresh {σ : Type} (j : Journal) (recs : List Rec) (r : WRes σ) (k : Nat)
    (h : WSpec (j ++ [⟨[], 0⟩]) recs r k) : WSpec j recs r k := by
  have e1 : readAll (j ++ [(⟨[], 0⟩ : Chunk)]) = readAll j := by simp [readAll_append, readAll_single]
  have e2 : positions (j ++ [(⟨[], 0⟩ : Chunk)]) = positions j := by simp [positions_concat]
  exact ⟨h.le, h.err, h.n, h.rest, h.pos1, by rw [← e1]; exact h.read, by rw [← e2]; exact h.poss,
    by rw [← e2]; exact h.pos0⟩

/-- **`journal.Write`, every case**: for any journal (empty, last chunk with room, last chunk full), any record
list and any `maxChunkSize ≥ 1` the call succeeds, writes a non-empty prefix of a non-empty list into ONE chunk,
appends exactly that prefix to the stored sequence, and the returned position delimits it. -/
theorem journalWrite_spec {σ : Type} (maxSize : Nat) (see : σ → Rec → σ) (hm : 1 ≤ maxSize)
    (j : Journal) (recs : List Rec) (st : σ) :
    ∃ k, WSpec j recs (journalWrite maxSize see j recs st) k := by
  unfold journalWrite
  rcases List.eq_nil_or_concat j with hj | ⟨pre, c, hj⟩
  · subst hj
    obtain ⟨k, h⟩ := attempt_lt maxSize see 2 [] [] ⟨[], 0⟩ 0 recs st (by simp; omega) (getChunkForWrite_nil 0)
    exact ⟨k, WSpec_fresh [] recs _ k (by simpa using h)⟩
  · rw [List.concat_eq_append] at hj
    subst hj
    by_cases hc : c.size < maxSize
    · exact attempt_lt maxSize see 2 _ pre c 0 recs st hc (getChunkForWrite_zero pre c)
    · -- the last chunk is full: MaxSizeReached with n = 0, exclude it, a new chunk is created
      obtain ⟨k0, _, _, h2, h3, _, _, h6⟩ := chunkWrite_spec maxSize see recs c st 0
      obtain ⟨hk0, hfull, hc'⟩ := h6 (by omega)
      subst hk0
      obtain ⟨k, h⟩ := attempt_lt maxSize see 1 (pre ++ [c]) (pre ++ [c]) ⟨[], 0⟩ (pre ++ [c]).length recs
        (chunkWrite maxSize see c recs st 0).2.2.2.1 (by simp; omega) (getChunkForWrite_excl _)
      refine ⟨k, WSpec_fresh _ recs _ k ?_⟩
      have hstep : journalWriteGo maxSize see 3 (pre ++ [c]) 0 recs st
          = journalWriteGo maxSize see 2 (pre ++ [c]) (pre ++ [c]).length recs
              (chunkWrite maxSize see c recs st 0).2.2.2.1 := by
        rw [journalWriteGo]
        simp only [getChunkForWrite_zero, getLastD_concat, dropLast_concat']
        generalize hcw : chunkWrite maxSize see c recs st 0 = res at h2 h3 hfull hc'
        obtain ⟨c', n, rest, st', full⟩ := res
        simp only [Nat.add_zero, List.drop_zero] at h2 h3 hfull hc'
        subst h2 h3 hfull hc'
        simp
      rw [hstep]; exact h

end Logrange.JournalW

namespace Logrange.WriteLoopM
open Logrange.JournalW

/-- one past a position -/
def after (p : Nat × Nat) : Nat × Nat := (p.1, p.2 + 1)

/-- what the `Service.Write` loop has done when it ends, relative to the state it started from -/
structure LoopSpec (j j' : Journal) (recs : List Rec) (o o' : WOut) : Prop where
  err : o'.err = o.err
  read : readAll j' = readAll j ++ recs.map (·.data)
  calls : ∃ nc, o'.calls = o.calls ++ nc ∧ positions j' = positions j ++ callPositions nc ∧
    o'.start = o.start.or (callPositions nc).head? ∧
    o'.endp = ((callPositions nc).getLast?.map after).or o.endp

theorem callPositions_append (a b : List IndexCall) : callPositions (a ++ b) = callPositions a ++ callPositions b := by
  simp [callPositions]

theorem callPositions_one (r : WRes IW) (k : Nat) (hk : 1 ≤ k) (hp : k ≤ r.pos.2) :
    callPositions [⟨r.pos.2 - k, r.pos.2 - 1, r.pos.1, r.st.minTs, r.st.maxTs⟩]
      = (List.range k).map (fun i => (r.pos.1, r.pos.2 - k + i)) := by
  have : r.pos.2 - 1 + 1 - (r.pos.2 - k) = k := by omega
  simp [callPositions, this]

theorem serviceWriteLoop_spec (maxSize : Nat) (hm : 1 ≤ maxSize) : ∀ (fuel : Nat) (j : Journal) (recs : List Rec)
    (iw : IW) (o : WOut), recs.length < fuel →
    LoopSpec j (serviceWriteLoop maxSize fuel j recs iw o).1 recs o (serviceWriteLoop maxSize fuel j recs iw o).2 := by
  intro fuel
  induction fuel with
  | zero => intro j recs iw o h; simp at h
  | succ fuel ih =>
    intro j recs iw o hf
    obtain ⟨k, hs⟩ := journalWrite_spec maxSize IW.see hm j recs iw
    simp only [serviceWriteLoop]
    generalize journalWrite maxSize IW.see j recs iw = r at hs
    have herr := hs.err
    simp only [herr, Bool.false_eq_true, ↓reduceIte]
    by_cases hk : 1 ≤ k
    · -- something was written: one notification, positions (pos.1, pos.2-k … pos.2-1)
      obtain ⟨hp2, hpos⟩ := hs.poss hk
      have hn : r.n > 0 := by rw [hs.n]; omega
      have hnote : (noteWrite o r).calls = o.calls ++ [⟨r.pos.2 - k, r.pos.2 - 1, r.pos.1, r.st.minTs, r.st.maxTs⟩] ∧
          (noteWrite o r).start = o.start.or (some (r.pos.1, r.pos.2 - k)) ∧ (noteWrite o r).endp = some r.pos ∧
          (noteWrite o r).err = o.err := by
        have hk' : k > 0 := by omega
        simp only [noteWrite, hs.n, hk', ↓reduceIte, true_and, and_true]
        cases o.start <;> rfl
      obtain ⟨hc1, hc2, hc3, hc4⟩ := hnote
      have hcp := callPositions_one r k hk hp2
      have hhead : ((List.range k).map (fun i => (r.pos.1, r.pos.2 - k + i))).head? = some (r.pos.1, r.pos.2 - k) := by
        rw [List.head?_map, List.head?_range]; simp; omega
      have hlast : (((List.range k).map (fun i => (r.pos.1, r.pos.2 - k + i))).getLast?).map after = some r.pos := by
        rw [List.getLast?_map, List.getLast?_range]
        have : ¬ k = 0 := by omega
        simp only [this, ↓reduceIte, Option.map_some, after]
        congr 1
        show (r.pos.1, r.pos.2 - k + (k - 1) + 1) = r.pos
        have : r.pos.2 - k + (k - 1) + 1 = r.pos.2 := by omega
        rw [this]
      cases hrest : r.rest with
      | nil =>
        simp only []
        have hkl : k = recs.length := by
          have := hs.rest; rw [hrest] at this
          have h2 := congrArg List.length this
          simp at h2; have := hs.le; omega
        refine ⟨hc4, ?_, ⟨[⟨r.pos.2 - k, r.pos.2 - 1, r.pos.1, r.st.minTs, r.st.maxTs⟩], hc1, ?_, ?_, ?_⟩⟩
        · rw [hs.read, hkl, List.take_length]
        · rw [hpos, hcp]
        · rw [hc2, hcp, hhead]
        · rw [hc3, hcp, hlast]; rfl
      | cons x xs =>
        simp only []
        have hlen : r.rest.length < fuel := by
          have := hs.le
          rw [hs.rest]; simp; omega
        have hi := ih r.j r.rest (r.st.see x) (noteWrite o r) hlen
        rw [hrest] at hi
        obtain ⟨e1, e2, nc, e3, e4, e5, e6⟩ := hi
        refine ⟨by rw [e1, hc4], ?_, ⟨⟨r.pos.2 - k, r.pos.2 - 1, r.pos.1, r.st.minTs, r.st.maxTs⟩ :: nc, ?_, ?_, ?_, ?_⟩⟩
        · rw [e2, hs.read, ← hrest, hs.rest, List.append_assoc, ← List.map_append, List.take_append_drop]
        · rw [e3, hc1]; simp
        · rw [e4, hpos]
          have : callPositions (⟨r.pos.2 - k, r.pos.2 - 1, r.pos.1, r.st.minTs, r.st.maxTs⟩ :: nc)
              = callPositions [⟨r.pos.2 - k, r.pos.2 - 1, r.pos.1, r.st.minTs, r.st.maxTs⟩] ++ callPositions nc := by
            rw [← callPositions_append]; rfl
          rw [this, hcp, List.append_assoc]
        · have : callPositions (⟨r.pos.2 - k, r.pos.2 - 1, r.pos.1, r.st.minTs, r.st.maxTs⟩ :: nc)
              = callPositions [⟨r.pos.2 - k, r.pos.2 - 1, r.pos.1, r.st.minTs, r.st.maxTs⟩] ++ callPositions nc := by
            rw [← callPositions_append]; rfl
          rw [e5, hc2, this, hcp, List.head?_append, hhead]
          cases o.start <;> simp
        · have : callPositions (⟨r.pos.2 - k, r.pos.2 - 1, r.pos.1, r.st.minTs, r.st.maxTs⟩ :: nc)
              = callPositions [⟨r.pos.2 - k, r.pos.2 - 1, r.pos.1, r.st.minTs, r.st.maxTs⟩] ++ callPositions nc := by
            rw [← callPositions_append]; rfl
          rw [e6, hc3, this, hcp, List.getLast?_append]
          cases hq : (callPositions nc).getLast? with
          | none =>
            simp only [Option.map_none, Option.none_or]
            rw [hlast]; rfl
          | some q => simp
    · -- nothing was written: the record list is empty
      have hk0 : k = 0 := by omega
      have hnil : recs = [] := by
        cases recs with
        | nil => rfl
        | cons a as => have := hs.pos1 (by simp); omega
      subst hnil
      have hn : ¬ r.n > 0 := by rw [hs.n]; omega
      have hrest : r.rest = [] := by rw [hs.rest]; simp
      simp only [hrest, noteWrite, hn, ↓reduceIte]
      refine ⟨rfl, by rw [hs.read]; simp, ⟨[], by simp, ?_, by simp [callPositions], by simp [callPositions]⟩⟩
      rw [hs.pos0 hk0]; simp [callPositions]

end Logrange.WriteLoopM

namespace Logrange.JournalW

theorem positionsFrom_length : ∀ (j : Journal) (s : Nat), (positionsFrom s j).length = (readAll j).length := by
  intro j
  induction j with
  | nil => intro s; simp [positionsFrom, readAll]
  | cons c cs ih =>
    intro s
    have := ih (s + 1)
    simp only [positionsFrom, List.length_append, List.length_map, List.length_range, this]
    simp [readAll]

theorem positions_length (j : Journal) : (positions j).length = (readAll j).length := positionsFrom_length j 1

end Logrange.JournalW

namespace Logrange.WriteLoopM
open Logrange.JournalW

/-- `w` holds the exact timestamp hull of the (non-empty) list `l` -/
def HullExact (w : IW) (l : List Rec) : Prop :=
  w.tsSet = true ∧ (∀ r ∈ l, w.minTs ≤ r.ts ∧ r.ts ≤ w.maxTs) ∧ (∃ r ∈ l, r.ts = w.minTs) ∧ (∃ r ∈ l, r.ts = w.maxTs)

theorem unsetIsFlag : Generated.C01.iwrapperUnsetIsFlag = true := by decide

theorem see_first (w : IW) (r : Rec) (h : w.tsSet = false) : HullExact (w.see r) [r] := by
  simp [HullExact, IW.see, unsetIsFlag, h]

theorem see_next (w : IW) (l : List Rec) (r : Rec) (h : HullExact w l) : HullExact (w.see r) (l ++ [r]) := by
  obtain ⟨hs, hall, ⟨a, ha, hamin⟩, ⟨b, hb, hbmax⟩⟩ := h
  have hle : w.minTs ≤ w.maxTs := by have := hall a ha; omega
  simp only [HullExact, IW.see, unsetIsFlag, hs, ↓reduceIte, Bool.true_eq_false, or_false]
  refine ⟨trivial, ?_, ?_, ?_⟩
  · intro x hx
    rcases List.mem_append.mp hx with hx | hx
    · have := hall x hx
      constructor <;> split <;> omega
    · simp at hx; subst hx
      constructor <;> split <;> omega
  · by_cases hc : w.minTs > r.ts
    · exact ⟨r, by simp, by simp [hc]⟩
    · exact ⟨a, by simp [ha], by simp [hc, hamin]⟩
  · by_cases hc : w.maxTs < r.ts
    · exact ⟨r, by simp, by simp [hc]⟩
    · exact ⟨b, by simp [hb], by simp [hc, hbmax]⟩

theorem fold_exact : ∀ (rs : List Rec) (w : IW) (l : List Rec), HullExact w l → HullExact (rs.foldl IW.see w) (l ++ rs) := by
  intro rs
  induction rs with
  | nil => intro w l h; simpa using h
  | cons r rs ih =>
    intro w l h
    have := ih (w.see r) (l ++ [r]) (see_next w l r h)
    simpa [List.append_assoc] using this

/-- handing the same record out again (`Get` without `Next`, the peek of `Service.Write`) changes nothing -/
theorem see_idem (w : IW) (r : Rec) : (w.see r).see r = w.see r := by
  simp only [IW.see, unsetIsFlag, ↓reduceIte, Bool.true_eq_false, or_false]
  congr 1 <;> (split <;> split <;> omega)

end Logrange.WriteLoopM

/-! ## the hull carried by every notification -/

namespace Logrange.JournalW

/-- the iterator state after one `Chunk.write` call: every record it wrote has been handed out (`see`) once, in order -/
theorem chunkWrite_state {σ : Type} (maxSize : Nat) (see : σ → Rec → σ) :
    ∀ (recs : List Rec) (c : Chunk) (st : σ) (n : Nat),
      n ≤ (chunkWrite maxSize see c recs st n).2.1 ∧
      (chunkWrite maxSize see c recs st n).2.2.2.1
        = (recs.take ((chunkWrite maxSize see c recs st n).2.1 - n)).foldl see st := by
  intro recs
  induction recs with
  | nil => intro c st n; by_cases h : c.size ≥ maxSize <;> simp [chunkWrite, h]
  | cons r rest ih =>
    intro c st n
    by_cases h : c.size ≥ maxSize
    · simp [chunkWrite, h]
    · obtain ⟨h1, h2⟩ := ih ⟨c.recs ++ [r.data], c.size + hdrSize + r.data.length⟩ (see st r) (n + 1)
      simp only [chunkWrite, h, ↓reduceIte]
      refine ⟨by omega, ?_⟩
      rw [h2]
      generalize (chunkWrite maxSize see ⟨c.recs ++ [r.data], c.size + hdrSize + r.data.length⟩ rest (see st r) (n + 1)).2.1 = n' at h1 ⊢
      have : n' - n = (n' - (n + 1)) + 1 := by omega
      rw [this, List.take_succ_cons, List.foldl_cons]

/-- … and after one `journal.Write` call (any fuel, any exclusion) -/
theorem journalWriteGo_state {σ : Type} (maxSize : Nat) (see : σ → Rec → σ) :
    ∀ (fuel : Nat) (j : Journal) (excl : Nat) (recs : List Rec) (st : σ),
      (journalWriteGo maxSize see fuel j excl recs st).st
        = (recs.take (journalWriteGo maxSize see fuel j excl recs st).n).foldl see st := by
  intro fuel
  induction fuel with
  | zero => intro j excl recs st; simp [journalWriteGo]
  | succ fuel ih =>
    intro j excl recs st
    obtain ⟨k, _, _, h2, h3, _, _, _⟩ :=
      chunkWrite_spec maxSize see recs ((getChunkForWrite j excl).getLastD default) st 0
    obtain ⟨_, hs⟩ := chunkWrite_state maxSize see recs ((getChunkForWrite j excl).getLastD default) st 0
    simp only [journalWriteGo]
    generalize chunkWrite maxSize see ((getChunkForWrite j excl).getLastD default) recs st 0 = res at h2 h3 hs
    obtain ⟨c', n, rest, st', full⟩ := res
    simp only [Nat.zero_add, Nat.sub_zero] at h2 h3 hs
    subst h2
    by_cases hn : n > 0
    · simp only [hn, ↓reduceIte]; exact hs
    · have hk : n = 0 := by omega
      subst hk
      simp only [List.take_zero, List.foldl_nil, List.drop_zero] at hs h3
      subst hs h3
      simp only [Nat.lt_irrefl, ↓reduceIte]
      split
      · split
        · simp
        · exact ih _ _ _ _
      · simp

end Logrange.JournalW

namespace Logrange.WriteLoopM
open Logrange.JournalW

/-- the `iwrapper` state after handing out `l` (from a fresh wrapper) -/
def hullOf (l : List Rec) : IW := l.foldl IW.see {}

/-- every notification carries the hull of ALL records of the batch handed out up to its last record: `seen` are the
records written before, `rest` the records still to write, a notification for `n = last+1-first` records covers
`seen ++ rest.take n` -/
def CallsHull : List Rec → List Rec → List IndexCall → Prop
  | _, _, [] => True
  | seen, rest, c :: cs =>
    c.minTs = (hullOf (seen ++ rest.take (c.last + 1 - c.first))).minTs ∧
    c.maxTs = (hullOf (seen ++ rest.take (c.last + 1 - c.first))).maxTs ∧
    CallsHull (seen ++ rest.take (c.last + 1 - c.first)) (rest.drop (c.last + 1 - c.first)) cs

theorem hullOf_append (a b : List Rec) : hullOf (a ++ b) = b.foldl IW.see (hullOf a) := by
  simp [hullOf, List.foldl_append]

theorem serviceWriteLoop_hull (maxSize : Nat) (hm : 1 ≤ maxSize) : ∀ (fuel : Nat) (j : Journal) (recs : List Rec)
    (iw : IW) (o : WOut) (seen : List Rec), recs.length < fuel →
    (∀ x rest', recs = x :: rest' → iw.see x = (hullOf seen).see x) →
    ∃ nc, (serviceWriteLoop maxSize fuel j recs iw o).2.calls = o.calls ++ nc ∧ CallsHull seen recs nc := by
  intro fuel
  induction fuel with
  | zero => intro j recs iw o seen h; simp at h
  | succ fuel ih =>
    intro j recs iw o seen hf hiw
    obtain ⟨k, hs⟩ := journalWrite_spec maxSize IW.see hm j recs iw
    have hst : (journalWrite maxSize IW.see j recs iw).st
        = (recs.take (journalWrite maxSize IW.see j recs iw).n).foldl IW.see iw := journalWriteGo_state maxSize IW.see 3 j 0 recs iw
    simp only [serviceWriteLoop]
    generalize journalWrite maxSize IW.see j recs iw = r at hs hst
    rw [hs.n] at hst
    simp only [hs.err, Bool.false_eq_true, ↓reduceIte]
    by_cases hk : 1 ≤ k
    · obtain ⟨hp2, _⟩ := hs.poss hk
      have hk' : k > 0 := by omega
      -- the state after the write is the hull of everything handed out so far
      have hhull : r.st = hullOf (seen ++ recs.take k) := by
        cases hrecs : recs with
        | nil => have := hs.le; simp [hrecs] at this; omega
        | cons x rest' =>
          have hx := hiw x rest' hrecs
          obtain ⟨k1, rfl⟩ : ∃ k1, k = k1 + 1 := ⟨k - 1, by omega⟩
          rw [hst, hrecs, List.take_succ_cons, List.foldl_cons, hx, hullOf_append, List.foldl_cons]
      have hcalls : (noteWrite o r).calls = o.calls ++ [⟨r.pos.2 - k, r.pos.2 - 1, r.pos.1, r.st.minTs, r.st.maxTs⟩] := by
        simp only [noteWrite, hs.n, hk', ↓reduceIte]
      have hn : r.pos.2 - 1 + 1 - (r.pos.2 - k) = k := by omega
      cases hrest : r.rest with
      | nil =>
        simp only []
        refine ⟨[⟨r.pos.2 - k, r.pos.2 - 1, r.pos.1, r.st.minTs, r.st.maxTs⟩], hcalls, ?_⟩
        simp only [CallsHull, hn, hhull, and_self]
      | cons y ys =>
        simp only []
        have hlen : r.rest.length < fuel := by
          have := hs.le; rw [hs.rest]; simp; omega
        have hdrop : recs.drop k = y :: ys := by rw [← hs.rest, hrest]
        obtain ⟨nc, e1, e2⟩ := ih r.j r.rest (r.st.see y) (noteWrite o r) (seen ++ recs.take k) hlen (by
          intro x rest' hx
          rw [hrest] at hx
          injection hx with hx _
          subst hx
          rw [see_idem, hhull])
        rw [hrest] at e1
        refine ⟨⟨r.pos.2 - k, r.pos.2 - 1, r.pos.1, r.st.minTs, r.st.maxTs⟩ :: nc, by rw [e1, hcalls]; simp, ?_⟩
        simp only [CallsHull, hn, hhull, true_and]
        rw [hs.rest] at e2
        exact e2
    · have hk0 : k = 0 := by omega
      have hnil : recs = [] := by
        cases recs with
        | nil => rfl
        | cons a as => have := hs.pos1 (by simp); omega
      subst hnil
      have hn : ¬ r.n > 0 := by rw [hs.n]; omega
      have hrest : r.rest = [] := by rw [hs.rest]; simp
      simp only [hrest, noteWrite, hn, ↓reduceIte]
      exact ⟨[], by simp, trivial⟩

end Logrange.WriteLoopM

/-! ## the write loop under faults: acknowledged ⇒ the whole batch was handed to a chunk -/
namespace Logrange.WriteLoopM
open Logrange.JournalW

theorem serviceWriteLoopF_spec (faultAt : Nat → Journal → Bool) (maxSize : Nat) (hm : 1 ≤ maxSize)
    (hg : Generated.C01.writeErrGuardIsNLeZero = true) :
    ∀ (fuel w : Nat) (j : Journal) (recs : List Rec) (iw : IW) (o : WOut), recs.length < fuel → o.err = false →
    ∃ k, k ≤ recs.length ∧
      readAll (serviceWriteLoopF faultAt maxSize fuel w j recs iw o).1 = readAll j ++ (recs.take k).map (·.data) ∧
      ((serviceWriteLoopF faultAt maxSize fuel w j recs iw o).2.err = false → k = recs.length) := by
  intro fuel
  induction fuel with
  | zero => intro w j recs iw o h; simp at h
  | succ fuel ih =>
    intro w j recs iw o hf ho
    simp only [serviceWriteLoopF]
    by_cases hfa : faultAt w j = true
    · -- the iteration fails with nothing written: reported, whatever was written before
      refine ⟨0, by omega, ?_, ?_⟩
      · simp [hfa]
      · simp [hfa, errGuard, hg]
    · simp only [hfa, Bool.false_eq_true, ↓reduceIte]
      obtain ⟨k, hs⟩ := journalWrite_spec maxSize IW.see hm j recs iw
      generalize journalWrite maxSize IW.see j recs iw = r at hs
      simp only [hs.err, Bool.false_eq_true, ↓reduceIte]
      have hnote : (noteWrite o r).err = false := by
        simp only [noteWrite]; split <;> simp [ho]
      cases hrest : r.rest with
      | nil =>
        simp only []
        have hkl : k = recs.length := by
          have := hs.rest; rw [hrest] at this
          have h2 := congrArg List.length this
          simp at h2; have := hs.le; omega
        exact ⟨k, hs.le, hs.read, fun _ => hkl⟩
      | cons x xs =>
        simp only []
        have hk1 : 1 ≤ k := hs.pos1 (by intro hn; rw [hs.rest, hn] at hrest; simp at hrest)
        have hlen : r.rest.length < fuel := by
          have := hs.le; rw [hs.rest]; simp; omega
        obtain ⟨k2, hk2, hr2, he2⟩ := ih (w + r.n) r.j r.rest (r.st.see x) (noteWrite o r) hlen hnote
        rw [hrest] at hk2 hr2 he2
        have hrl : (x :: xs).length = recs.length - k := by rw [← hrest, hs.rest]; simp
        refine ⟨k + k2, by have := hs.le; omega, ?_, ?_⟩
        · rw [hr2, hs.read, ← hrest, hs.rest, List.append_assoc, ← List.map_append, List.take_add]
        · intro he; have := he2 he; have := hs.le; omega

end Logrange.WriteLoopM
