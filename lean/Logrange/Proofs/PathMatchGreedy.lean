import Logrange.Model.PathMatchGreedy
/-!
# Leftmost-commit (`greedyMatch`) = existential (`matchItems`) under `starSafe` / `starSafeAscii`

Plan: cut the item list into star run ++ star-free segment ++ rest (`splitSeg_spec`); the existential meaning of a
segment is `consume` followed by the rest (`matchItems_seg`), a star run is one `starAny` (`stars_match`). For the last
segment the star loop tries every position, which is `starAny` itself (`starLoopI_true`). For a segment between two
stars the loop stops at the leftmost position (`firstAt`, `starLoopI_false`); when the segment is *stable* (it eats
exactly its own length of bytes, never a `/`) a later position leaves a suffix of what the leftmost one leaves, and
the following star absorbs the difference (`starAny_first`). `greedy_gen` is generic in the name class `N` and the item
kind `mid` allowed between stars; `gGo` is the state machine shared by `starSafeGo` and `starSafeAsciiGo`.
-/
namespace Logrange.PathSpec
open Logrange.PathMatch

/-! ## `starAny` -/

theorem starAny_idem (k : Bytes → Bool) : ∀ n, starAny (starAny k) n = starAny k n
  | [] => by simp [starAny]
  | c :: t => by
    have ih := starAny_idem k t
    simp only [starAny, ih]
    cases k (c :: t) <;> cases (c != SL) <;> cases starAny k t <;> rfl

theorem starAny_split (k : Bytes → Bool) : ∀ n, starAny k n = true → ∃ a b, n = a ++ b ∧ SL ∉ a ∧ k b = true
  | [], h => ⟨[], [], rfl, by simp, by simpa [starAny] using h⟩
  | c :: t, h => by
    simp only [starAny, Bool.or_eq_true, Bool.and_eq_true, bne_iff_ne, ne_eq] at h
    rcases h with h | ⟨hc, h⟩
    · exact ⟨[], c :: t, rfl, by simp, h⟩
    · obtain ⟨a, b, e, ha, hb⟩ := starAny_split k t h
      refine ⟨c :: a, b, by simp [e], ?_, hb⟩
      simp only [List.mem_cons, not_or]
      exact ⟨fun e => hc e.symm, ha⟩

theorem starAny_absorb (k : Bytes → Bool) (t : Bytes) (h : starAny k t = true) :
    ∀ m : Bytes, SL ∉ m → starAny k (m ++ t) = true
  | [], _ => by simpa using h
  | c :: m, hm => by
    simp only [List.mem_cons, not_or] at hm
    have ih := starAny_absorb k t h m hm.2
    have hc : (c != SL) = true := by simp only [bne_iff_ne, ne_eq]; exact fun e => hm.1 e.symm
    simp [starAny, ih, hc]

theorem starAny_noSlash : ∀ n : Bytes, starAny (fun b => !b.contains SL) n = !n.contains SL
  | [] => by simp [starAny]
  | c :: t => by
    have ih := starAny_noSlash t
    simp only [starAny, ih, List.contains_cons]
    by_cases hc : c = SL
    · subst hc; simp
    · have h1 : (c != SL) = true := by simpa using hc
      have h2 : (SL == c) = false := by simp only [beq_eq_false_iff_ne, ne_eq]; exact fun e => hc e.symm
      simp [h1, h2]

theorem starAny_isEmpty : ∀ n : Bytes, starAny (fun b => b.isEmpty) n = !n.contains SL
  | [] => by simp [starAny]
  | c :: t => by
    have ih := starAny_isEmpty t
    simp only [starAny, ih, List.contains_cons, List.isEmpty_cons, Bool.false_or]
    by_cases hc : c = SL
    · subst hc; simp
    · have h1 : (c != SL) = true := by simpa using hc
      have h2 : (SL == c) = false := by simp only [beq_eq_false_iff_ne, ne_eq]; exact fun e => hc e.symm
      simp [h1, h2]

/-! ## segments -/

theorem isStar_eq {i : Item} (h : i.isStar = true) : i = .star := by
  cases i <;> simp [Item.isStar] at h ⊢

theorem hasStar_cons {i : Item} {s : List Item} (h : hasStar (i :: s) = false) : i.isStar = false ∧ hasStar s = false := by
  cases i <;> simp [hasStar, Item.isStar] at h ⊢ <;> exact h

theorem hasStar_of_all : ∀ l : List Item, (∀ i ∈ l, i.isStar = false) → hasStar l = false
  | [], _ => rfl
  | i :: s, h => by
    have h1 := h i (by simp)
    have h2 := hasStar_of_all s (fun j hj => h j (by simp [hj]))
    cases i <;> simp [hasStar, Item.isStar] at h1 ⊢ <;> exact h2

theorem dropWhile_head {α} (p : α → Bool) : ∀ l : List α, ∀ x xs, l.dropWhile p = x :: xs → p x = false
  | [], x, xs, h => by simp at h
  | a :: l, x, xs, h => by
    rw [List.dropWhile_cons] at h
    by_cases ha : p a = true
    · simp only [ha, if_true] at h; exact dropWhile_head p l x xs h
    · simp only [ha, Bool.false_eq_true, if_false, List.cons.injEq] at h
      rw [← h.1]; simpa using ha

theorem takeWhile_nil {α} (p : α → Bool) : ∀ l : List α, l.takeWhile p = [] → l = [] ∨ ∃ x xs, l = x :: xs ∧ p x = false
  | [], _ => Or.inl rfl
  | a :: l, h => by
    rw [List.takeWhile_cons] at h
    by_cases ha : p a = true
    · simp [ha] at h
    · exact Or.inr ⟨a, l, rfl, by simpa using ha⟩

theorem mem_takeWhile_imp' {α} (p : α → Bool) : ∀ (l : List α) (x : α), x ∈ l.takeWhile p → p x = true
  | [], x, h => by simp at h
  | a :: l, x, h => by
    rw [List.takeWhile_cons] at h
    by_cases ha : p a = true
    · simp only [ha, if_true, List.mem_cons] at h
      rcases h with h | h
      · rw [h]; exact ha
      · exact mem_takeWhile_imp' p l x h
    · simp [ha] at h

theorem splitSeg_spec (its : List Item) :
    ∃ stars seg rest, its = stars ++ (seg ++ rest) ∧ (∀ i ∈ stars, i = Item.star) ∧ hasStar seg = false ∧
      (rest = [] ∨ ∃ r', rest = Item.star :: r') ∧ splitSeg its = (!stars.isEmpty, seg, rest) ∧ (seg = [] → rest = []) := by
  refine ⟨its.takeWhile Item.isStar, (its.dropWhile Item.isStar).takeWhile (fun i => !i.isStar),
    (its.dropWhile Item.isStar).dropWhile (fun i => !i.isStar), ?_, ?_, ?_, ?_, ?_, ?_⟩
  · rw [List.takeWhile_append_dropWhile, List.takeWhile_append_dropWhile]
  · intro i hi; exact isStar_eq (mem_takeWhile_imp' _ _ _ hi)
  · apply hasStar_of_all
    intro i hi
    have := mem_takeWhile_imp' _ _ _ hi
    simpa using this
  · cases h : (its.dropWhile Item.isStar).dropWhile (fun i => !i.isStar) with
    | nil => exact Or.inl rfl
    | cons x xs =>
      have := dropWhile_head _ _ _ _ h
      have hx : x.isStar = true := by simpa using this
      exact Or.inr ⟨xs, by rw [isStar_eq hx]⟩
  · simp only [splitSeg]
    cases its with
    | nil => simp
    | cons i tl =>
      by_cases hi : i.isStar = true <;> simp [hi]
  · intro h
    rcases takeWhile_nil _ _ h with h0 | ⟨x, xs, hx, hp⟩
    · rw [h0]; rfl
    · have := dropWhile_head _ _ _ _ hx
      simp [this] at hp

theorem allStar_match : ∀ stars : List Item, (∀ i ∈ stars, i = Item.star) → stars ≠ [] → ∀ n,
    matchItems stars n = !n.contains SL
  | [], _, h, _ => absurd rfl h
  | i :: s, hs, _, n => by
    have hi : i = .star := hs i (by simp)
    subst hi
    cases s with
    | nil =>
      simp only [matchItems]
      exact starAny_isEmpty n
    | cons j s' =>
      have ih := allStar_match (j :: s') (fun x hx => hs x (by simp [hx])) (by simp)
      simp only [matchItems]
      have : matchItems (j :: s') = fun b : Bytes => !b.contains SL := funext ih
      rw [this]; exact starAny_noSlash n

theorem stars_match : ∀ stars : List Item, (∀ i ∈ stars, i = Item.star) → stars ≠ [] → ∀ l n,
    matchItems (stars ++ l) n = starAny (matchItems l) n
  | [], _, h, _, _ => absurd rfl h
  | i :: s, hs, _, l, n => by
    have hi : i = .star := hs i (by simp)
    subst hi
    cases s with
    | nil => simp [matchItems]
    | cons j s' =>
      have ih := stars_match (j :: s') (fun x hx => hs x (by simp [hx])) (by simp) l
      simp only [List.cons_append, matchItems]
      have : matchItems (j :: (s' ++ l)) = starAny (matchItems l) := funext ih
      rw [this]; exact starAny_idem _ n

theorem matchItems_seg : ∀ (seg rest : List Item) (n : Bytes), hasStar seg = false →
    matchItems (seg ++ rest) n = (match consume seg n with | some t => matchItems rest t | none => false)
  | [], rest, n, _ => by simp [consume]
  | .star :: r, rest, n, h => by simp [hasStar] at h
  | .any :: r, rest, n, h => by
    have ih := matchItems_seg r rest
    cases n with
    | nil => simp [matchItems, consume]
    | cons c t =>
      simp only [List.cons_append, matchItems, consume]
      by_cases hc : (c != SL) = true
      · simp only [hc, Bool.true_and, if_true]; exact ih _ (by simpa [hasStar] using h)
      · simp [hc]
  | .cls neg rs :: r, rest, n, h => by
    have ih := matchItems_seg r rest
    cases n with
    | nil => simp [matchItems, consume]
    | cons c t =>
      simp only [List.cons_append, matchItems, consume]
      by_cases hc : (inRanges rs (decodeRune (c :: t)).1 != neg) = true
      · have hc' := hc
        simp only [inRanges] at hc'
        simp only [hc, hc', Bool.true_and, if_true]; exact ih _ (by simpa [hasStar] using h)
      · have hc' := hc
        simp only [inRanges] at hc'
        simp [hc, hc']
  | .lit c :: r, rest, n, h => by
    have ih := matchItems_seg r rest
    cases n with
    | nil => simp [matchItems, consume]
    | cons x t =>
      simp only [List.cons_append, matchItems, consume]
      by_cases hc : (x == c) = true
      · simp only [hc, Bool.true_and, if_true]; exact ih _ (by simpa [hasStar] using h)
      · simp [hc]

theorem consume_suffix : ∀ (seg : List Item) (s t : Bytes), consume seg s = some t → ∃ a, s = a ++ t
  | [], s, t, h => by simp only [consume, Option.some.injEq] at h; exact ⟨[], by simp [h]⟩
  | .star :: r, s, t, h => by simp [consume] at h
  | .any :: r, s, t, h => by
    cases s with
    | nil => simp [consume] at h
    | cons c s' =>
      simp only [consume] at h
      split at h
      · obtain ⟨a, ha⟩ := consume_suffix r _ t h
        refine ⟨(c :: s').take (decodeRune (c :: s')).2 ++ a, ?_⟩
        rw [List.append_assoc, ← ha, List.take_append_drop]
      · simp at h
  | .cls neg rs :: r, s, t, h => by
    cases s with
    | nil => simp [consume] at h
    | cons c s' =>
      simp only [consume] at h
      split at h
      · obtain ⟨a, ha⟩ := consume_suffix r _ t h
        refine ⟨(c :: s').take (decodeRune (c :: s')).2 ++ a, ?_⟩
        rw [List.append_assoc, ← ha, List.take_append_drop]
      · simp at h
  | .lit x :: r, s, t, h => by
    cases s with
    | nil => simp [consume] at h
    | cons c s' =>
      simp only [consume] at h
      split at h
      · obtain ⟨a, ha⟩ := consume_suffix r _ t h
        exact ⟨c :: a, by simp [ha]⟩
      · simp at h

/-! ## the star loop -/

/-- leftmost position (the star never steps over a `/`) at which the segment can be consumed -/
def firstAt (seg : List Item) : Bytes → Option Bytes
  | [] => consume seg []
  | c :: r =>
    match consume seg (c :: r) with
    | some t => some t
    | none => if c == SL then none else firstAt seg r

theorem starLoopI_false (seg : List Item) : ∀ n : Bytes,
    (match consume seg n with | some t => some t | none => starLoopI seg n false) = firstAt seg n
  | [] => by
    simp only [firstAt, starLoopI]
    cases consume seg [] <;> rfl
  | c :: r => by
    have ih := starLoopI_false seg r
    simp only [firstAt, starLoopI]
    cases h : consume seg (c :: r) with
    | some t => rfl
    | none =>
      simp only []
      by_cases hc : (c == SL) = true
      · simp [hc]
      · simp only [hc, Bool.false_eq_true, if_false, Bool.false_and]
        rw [← ih]
        cases consume seg r <;> rfl

theorem firstAt_suffix (seg : List Item) : ∀ (n t : Bytes), firstAt seg n = some t → ∃ a, n = a ++ t
  | [], t, h => consume_suffix seg [] t (by simpa [firstAt] using h)
  | c :: r, t, h => by
    simp only [firstAt] at h
    cases hc : consume seg (c :: r) with
    | some t' =>
      rw [hc] at h
      simp only [Option.some.injEq] at h
      subst h
      exact consume_suffix seg _ _ hc
    | none =>
      rw [hc] at h
      simp only [] at h
      split at h
      · simp at h
      · obtain ⟨a, ha⟩ := firstAt_suffix seg r t h
        exact ⟨c :: a, by simp [ha]⟩

/-- the last segment behind a star: every position is tried -/
theorem starLoopI_true (seg : List Item) : ∀ n : Bytes,
    (match consume seg n with
     | some t => if t.isEmpty then true else
        (match starLoopI seg n true with | some t' => t'.isEmpty | none => false)
     | none => (match starLoopI seg n true with | some t' => t'.isEmpty | none => false)) =
    starAny (fun b => match consume seg b with | some t => t.isEmpty | none => false) n
  | [] => by
    simp only [starLoopI, starAny]
    cases consume seg [] with
    | none => rfl
    | some t => cases t <;> rfl
  | c :: r => by
    have ih := starLoopI_true seg r
    simp only [starAny, ← ih]
    have hV : (match starLoopI seg (c :: r) true with | some t' => t'.isEmpty | none => false) =
        (c != SL && (match consume seg r with
         | some t => if t.isEmpty then true else
            (match starLoopI seg r true with | some t' => t'.isEmpty | none => false)
         | none => (match starLoopI seg r true with | some t' => t'.isEmpty | none => false))) := by
      simp only [starLoopI]
      by_cases hc : (c == SL) = true
      · have hc' : c = SL := by simpa using hc
        subst hc'
        simp
      · have : (c != SL) = true := by simpa [bne] using hc
        simp only [hc, Bool.false_eq_true, if_false, this, Bool.true_and]
        cases consume seg r with
        | none => rfl
        | some t => cases t <;> simp
    rw [hV]
    cases consume seg (c :: r) with
    | none => simp
    | some t => cases t <;> simp

theorem greedy_nil (fuel : Nat) (n : Bytes) : greedy (fuel+1) [] n = n.isEmpty := by
  simp [greedy]

theorem greedy_succ (fuel : Nat) (its : List Item) (name : Bytes) (star : Bool) (seg rest : List Item)
    (hne : its ≠ []) (hsp : splitSeg its = (star, seg, rest)) :
    greedy (fuel+1) its name =
      if star && seg.isEmpty then !name.contains SL else
      match consume seg name with
      | some t => if t.isEmpty || !rest.isEmpty then greedy fuel rest t else
          (if star then (match starLoopI seg name rest.isEmpty with | some t' => greedy fuel rest t' | none => false) else false)
      | none => (if star then (match starLoopI seg name rest.isEmpty with | some t' => greedy fuel rest t' | none => false) else false) := by
  have he : its.isEmpty = false := by cases its <;> simp at hne ⊢
  rw [greedy]
  simp only [he, Bool.false_eq_true, if_false, hsp]
  split
  · rfl
  · cases consume seg name <;> rfl

/-! ## the state machine of `starSafe`, generically -/

def gGo (mid : Item → Bool) : Bool → Bool → List Item → Bool
  | _, _, [] => true
  | a, ok, i :: r => if i.isStar then (!a || ok) && gGo mid true true r else gGo mid a (ok && mid i) r

def litMid : Item → Bool
  | .lit c => c != SL
  | _ => false

theorem starSafeGo_eq : ∀ (its : List Item) (a ok : Bool), starSafeGo a ok its = gGo litMid a ok its
  | [], a, ok => by simp [starSafeGo, gGo]
  | i :: r, a, ok => by
    cases i <;> simp [starSafeGo, gGo, Item.isStar, litMid, starSafeGo_eq r]

theorem starSafeAsciiGo_eq : ∀ (its : List Item) (a ok : Bool), starSafeAsciiGo a ok its = gGo Item.asciiMid a ok its
  | [], a, ok => by simp [starSafeAsciiGo, gGo]
  | i :: r, a, ok => by
    cases i <;> simp [starSafeAsciiGo, gGo, Item.isStar, starSafeAsciiGo_eq r]

theorem gGo_stars (mid : Item → Bool) : ∀ (stars : List Item), (∀ i ∈ stars, i = Item.star) → stars ≠ [] →
    ∀ (a ok : Bool) (l : List Item), gGo mid a ok (stars ++ l) = true → gGo mid true true l = true
  | [], _, h, _, _, _, _ => absurd rfl h
  | i :: s, hs, _, a, ok, l, h => by
    have hi : i = .star := hs i (by simp)
    subst hi
    simp only [List.cons_append, gGo, Item.isStar, if_true, Bool.and_eq_true] at h
    cases s with
    | nil => simpa using h.2
    | cons j s' => exact gGo_stars mid (j :: s') (fun x hx => hs x (by simp [hx])) (by simp) true true l h.2

theorem gGo_seg_mid (mid : Item → Bool) : ∀ (seg : List Item) (ok : Bool) (r' : List Item), hasStar seg = false →
    gGo mid true ok (seg ++ Item.star :: r') = true → (∀ i ∈ seg, mid i = true) ∧ gGo mid true true r' = true
  | [], ok, r', _, h => by
    simp only [List.nil_append, gGo, Item.isStar, if_true, Bool.and_eq_true] at h
    exact ⟨by simp, h.2⟩
  | i :: s, ok, r', hs, h => by
    obtain ⟨hi, hs'⟩ := hasStar_cons hs
    simp only [List.cons_append, gGo, hi, Bool.false_eq_true, if_false] at h
    -- need ok && mid i = true: generalise
    have key : ∀ (seg : List Item) (ok : Bool), hasStar seg = false →
        gGo mid true ok (seg ++ Item.star :: r') = true → ok = true := by
      intro seg
      induction seg with
      | nil => intro ok _ h; simp only [List.nil_append, gGo, Item.isStar, if_true, Bool.and_eq_true] at h; simpa using h.1
      | cons j s ih =>
        intro ok hs h
        obtain ⟨hj, hs'⟩ := hasStar_cons hs
        simp only [List.cons_append, gGo, hj, Bool.false_eq_true, if_false] at h
        have := ih _ hs' h
        simp only [Bool.and_eq_true] at this
        exact this.1
    have hk := key s _ hs' h
    simp only [Bool.and_eq_true] at hk
    obtain ⟨h1, h2⟩ := gGo_seg_mid mid s _ r' hs' h
    refine ⟨?_, h2⟩
    intro x hx
    simp only [List.mem_cons] at hx
    rcases hx with hx | hx
    · rw [hx]; exact hk.2
    · exact h1 x hx

theorem gGo_seg_any (mid : Item → Bool) : ∀ (seg : List Item) (a ok : Bool) (r' : List Item), hasStar seg = false →
    gGo mid a ok (seg ++ Item.star :: r') = true → gGo mid true true r' = true
  | [], a, ok, r', _, h => by
    simp only [List.nil_append, gGo, Item.isStar, if_true, Bool.and_eq_true] at h
    exact h.2
  | i :: s, a, ok, r', hs, h => by
    obtain ⟨hi, hs'⟩ := hasStar_cons hs
    simp only [List.cons_append, gGo, hi, Bool.false_eq_true, if_false] at h
    exact gGo_seg_any mid s _ _ r' hs' h

theorem gGo_star_cons (mid : Item → Bool) (r' : List Item) (h : gGo mid true true r' = true) :
    gGo mid true true (Item.star :: r') = true := by
  simp [gGo, Item.isStar, h]

/-! ## stable segments and the commit lemma -/

/-- on names of the class `N` the segment consumes exactly `seg.length` bytes, none of them `/` -/
def Stable (N : Bytes → Prop) (seg : List Item) : Prop :=
  ∀ s t, N s → consume seg s = some t → ∃ pre, s = pre ++ t ∧ pre.length = seg.length ∧ SL ∉ pre

/-- an item of kind `mid` eats exactly one byte, not `/`, of a name of class `N` -/
def StepOK (mid : Item → Bool) (N : Bytes → Prop) : Prop :=
  ∀ (i : Item) (r : List Item) (s t : Bytes), mid i = true → N s → consume (i :: r) s = some t →
    ∃ c s', s = c :: s' ∧ c ≠ SL ∧ consume r s' = some t

theorem stable_of_mid (mid : Item → Bool) (N : Bytes → Prop) (hN : ∀ a b, N (a ++ b) → N b) (hstep : StepOK mid N) :
    ∀ seg : List Item, (∀ i ∈ seg, mid i = true) → Stable N seg
  | [], _ => fun s t _ h => by
    simp only [consume, Option.some.injEq] at h
    exact ⟨[], by simp [h], rfl, by simp⟩
  | i :: r, hm => fun s t hs h => by
    obtain ⟨c, s', rfl, hc, h'⟩ := hstep i r s t (hm i (by simp)) hs h
    obtain ⟨pre, e, hl, hp⟩ := stable_of_mid mid N hN hstep r (fun j hj => hm j (by simp [hj])) s' t (hN [c] s' hs) h'
    refine ⟨c :: pre, by simp [← e], by simp [hl], ?_⟩
    simp only [List.mem_cons, not_or]
    exact ⟨fun e => hc e.symm, hp⟩

theorem starAny_first (N : Bytes → Prop) (hN : ∀ a b, N (a ++ b) → N b) (seg : List Item) (hst : Stable N seg)
    (k' : Bytes → Bool) (habs : ∀ m t, SL ∉ m → k' t = true → k' (m ++ t) = true) :
    ∀ n : Bytes, N n →
      starAny (fun b => match consume seg b with | some t => k' t | none => false) n =
        (match firstAt seg n with | some t => k' t | none => false)
  | [], _ => by simp only [starAny, firstAt]
  | c :: r, hn => by
    have hNr : N r := hN [c] r hn
    have ih := starAny_first N hN seg hst k' habs r hNr
    simp only [starAny, firstAt]
    cases hc : consume seg (c :: r) with
    | none =>
      simp only [Bool.false_or]
      by_cases hcs : (c == SL) = true
      · have : (c != SL) = false := by simpa [bne] using hcs
        simp [hcs, this]
      · have : (c != SL) = true := by simpa [bne] using hcs
        simp only [hcs, Bool.false_eq_true, if_false, this, Bool.true_and]
        exact ih
    | some t =>
      simp only []
      cases hk : k' t with
      | true => simp
      | false =>
        simp only [Bool.false_or]
        -- a later match would contradict `k' t = false`
        cases hA : (c != SL && starAny (fun b => match consume seg b with | some t => k' t | none => false) r) with
        | false => rfl
        | true =>
          exfalso
          simp only [Bool.and_eq_true, bne_iff_ne, ne_eq] at hA
          obtain ⟨hcs, hsa⟩ := hA
          obtain ⟨a, b, e, ha, hb⟩ := starAny_split _ r hsa
          cases hcb : consume seg b with
          | none => simp [hcb] at hb
          | some t' =>
            simp only [hcb] at hb
            have hNb : N b := hN a b (e ▸ hNr)
            obtain ⟨pre, e1, l1, p1⟩ := hst _ _ hn hc
            obtain ⟨pre', e2, l2, p2⟩ := hst _ _ hNb hcb
            have e3 : pre ++ t = (c :: a ++ pre') ++ t' := by
              rw [← e1, e, e2]; simp
            rcases List.append_eq_append_iff.mp e3 with ⟨m, h1, h2⟩ | ⟨m, h1, h2⟩
            · have hm : SL ∉ m := by
                intro hmem
                have : SL ∈ c :: a ++ pre' := by rw [h1]; simp [hmem]
                simp only [List.cons_append, List.mem_cons, List.mem_append] at this
                rcases this with h | h | h
                · exact hcs h.symm
                · exact ha h
                · exact p2 h
              have := habs m t' hm hb
              rw [← h2, hk] at this
              exact Bool.noConfusion this
            · have := congrArg List.length h1
              simp only [List.length_append, List.length_cons] at this
              omega

/-! ## the general theorem -/

theorem greedy_gen (mid : Item → Bool) (N : Bytes → Prop) (hN : ∀ a b, N (a ++ b) → N b) (hstep : StepOK mid N) :
    ∀ (fuel : Nat) (its : List Item) (n : Bytes), its.length < fuel → N n → (∃ a ok, gGo mid a ok its = true) →
      greedy fuel its n = matchItems its n := by
  intro fuel
  induction fuel with
  | zero => intro its n h; omega
  | succ f ih =>
    intro its n hl hn hw
    by_cases hne : its = []
    · subst hne; simp [greedy, matchItems]
    obtain ⟨stars, seg, rest, hits, hst, hseg, hrest, hsp, hse⟩ := splitSeg_spec its
    rw [greedy_succ f its n _ seg rest hne hsp]
    have hlen0 : its.length = stars.length + (seg.length + rest.length) := by
      rw [hits]; simp only [List.length_append]
    have hne2 : stars ≠ [] ∨ seg ≠ [] := by
      by_cases h1 : stars = []
      · by_cases h2 : seg = []
        · exfalso; apply hne; rw [hits, h1, h2, hse h2]; rfl
        · exact Or.inr h2
      · exact Or.inl h1
    have hlen : rest.length < f := by
      rcases hne2 with h | h
      · have : 0 < stars.length := List.length_pos_iff.mpr h
        omega
      · have : 0 < seg.length := List.length_pos_iff.mpr h
        omega
    obtain ⟨a, ok, hg⟩ := hw
    by_cases hs0 : stars = []
    · -- the first segment of the pattern: no star in front
      subst hs0
      simp only [List.nil_append] at hits
      have hW : ∃ a ok, gGo mid a ok rest = true := by
        rcases hrest with e | ⟨r', e⟩
        · exact ⟨true, true, by rw [e]; simp [gGo]⟩
        · rw [hits, e] at hg
          exact ⟨true, true, by rw [e]; exact gGo_star_cons mid r' (gGo_seg_any mid seg a ok r' hseg hg)⟩
      simp only [List.isEmpty_nil, Bool.not_true, Bool.false_and, Bool.false_eq_true, if_false]
      rw [hits, matchItems_seg seg rest n hseg]
      cases hc : consume seg n with
      | none => rfl
      | some t =>
        simp only []
        obtain ⟨a', ha'⟩ := consume_suffix seg n t hc
        have hNt : N t := hN a' t (ha' ▸ hn)
        have hih := ih rest t hlen hNt hW
        by_cases hcond : (t.isEmpty || !rest.isEmpty) = true
        · simp only [hcond, if_true]; exact hih
        · simp only [hcond, Bool.false_eq_true, if_false]
          simp only [Bool.or_eq_true, not_or, Bool.not_eq_true, Bool.not_eq_false', List.isEmpty_iff] at hcond
          cases t with
          | nil => simp at hcond
          | cons x t' => rw [hcond.2]; simp [matchItems]
    · -- a star run in front
      have hst1 : (!stars.isEmpty) = true := by cases stars <;> simp at hs0 ⊢
      simp only [hst1, Bool.true_and, if_true]
      by_cases hseg0 : seg = []
      · have hr0 := hse hseg0
        subst hseg0; subst hr0
        simp only [List.isEmpty_nil, if_true]
        rw [hits]
        simp only [List.append_nil]
        exact (allStar_match stars hst hs0 n).symm
      · have hseg1 : seg.isEmpty = false := by cases seg <;> simp at hseg0 ⊢
        simp only [hseg1, Bool.false_eq_true, if_false]
        have hg1 : gGo mid true true (seg ++ rest) = true := gGo_stars mid stars hst hs0 a ok _ (hits ▸ hg)
        rw [hits, stars_match stars hst hs0 (seg ++ rest) n]
        have hfun : matchItems (seg ++ rest) =
            fun b => match consume seg b with | some t => matchItems rest t | none => false :=
          funext (fun b => matchItems_seg seg rest b hseg)
        rw [hfun]
        rcases hrest with e | ⟨r', e⟩
        · -- the last segment: every position is tried
          subst e
          obtain ⟨f', rfl⟩ : ∃ f', f = f' + 1 := ⟨f - 1, by simp only [List.length_nil] at hlen; omega⟩
          simp only [List.isEmpty_nil, Bool.not_true, Bool.or_false, greedy_nil, matchItems]
          refine Eq.trans ?_ (starLoopI_true seg n)
          cases consume seg n with
          | none => rfl
          | some t => cases t <;> rfl
        · -- a segment between two stars: the leftmost position is final
          subst e
          obtain ⟨hmid, hg2⟩ := gGo_seg_mid mid seg true r' hseg hg1
          have hstab := stable_of_mid mid N hN hstep seg hmid
          have hW : ∃ a ok, gGo mid a ok (Item.star :: r') = true := ⟨true, true, gGo_star_cons mid r' hg2⟩
          have habs : ∀ m t, SL ∉ m → matchItems (Item.star :: r') t = true → matchItems (Item.star :: r') (m ++ t) = true := by
            intro m t hm ht
            simp only [matchItems] at ht ⊢
            exact starAny_absorb _ t ht m hm
          simp only [List.isEmpty_cons, Bool.not_false, Bool.or_true, if_true]
          rw [starAny_first N hN seg hstab (matchItems (Item.star :: r')) habs n hn]
          have hfa := starLoopI_false seg n
          cases hc : consume seg n with
          | some t =>
            rw [hc] at hfa
            simp only [] at hfa
            rw [← hfa]
            simp only []
            obtain ⟨a', ha'⟩ := consume_suffix seg n t hc
            exact ih _ t hlen (hN a' t (ha' ▸ hn)) hW
          | none =>
            rw [hc] at hfa
            simp only [] at hfa
            rw [← hfa]
            simp only []
            cases hsl : starLoopI seg n false with
            | none => rfl
            | some t' =>
              simp only []
              rw [hsl] at hfa
              obtain ⟨a', ha'⟩ := firstAt_suffix seg n t' hfa.symm
              exact ih _ t' hlen (hN a' t' (ha' ▸ hn)) hW

/-! ## the two instances -/

theorem stepOK_lit : StepOK litMid (fun _ => True) := by
  intro i r s t hm _ h
  cases i with
  | lit c =>
    simp only [litMid, bne_iff_ne, ne_eq] at hm
    cases s with
    | nil => simp [consume] at h
    | cons x s' =>
      simp only [consume] at h
      split at h
      · rename_i hx
        have hx' : x = c := by simpa using hx
        exact ⟨x, s', rfl, by rw [hx']; exact hm, h⟩
      · simp at h
  | star => simp [litMid] at hm
  | any => simp [litMid] at hm
  | cls neg rs => simp [litMid] at hm

def asciiName (n : Bytes) : Prop := n.all (fun c => decide (c.toNat < 128)) = true

theorem asciiName_suffix (a b : Bytes) (h : asciiName (a ++ b)) : asciiName b := by
  simp only [asciiName, List.all_append, Bool.and_eq_true] at h ⊢
  exact h.2

theorem decodeRune_ascii (c : UInt8) (r : Bytes) (h : c.toNat < 128) : decodeRune (c :: r) = (c.toNat, 1) := by
  simp [decodeRune, h]

theorem stepOK_ascii : StepOK Item.asciiMid asciiName := by
  intro i r s t hm hs h
  cases s with
  | nil => cases i <;> simp [consume] at h
  | cons x s' =>
    have hx : x.toNat < 128 := by
      simp only [asciiName, List.all_cons, Bool.and_eq_true, decide_eq_true_eq] at hs
      exact hs.1
    have hd := decodeRune_ascii x s' hx
    cases i with
    | star => simp [Item.asciiMid] at hm
    | lit c =>
      simp only [Item.asciiMid, bne_iff_ne, ne_eq] at hm
      simp only [consume] at h
      split at h
      · rename_i hxc
        have hx' : x = c := by simpa using hxc
        exact ⟨x, s', rfl, by rw [hx']; exact hm, h⟩
      · simp at h
    | any =>
      simp only [consume, hd, List.drop_succ_cons, List.drop_zero] at h
      split at h
      · rename_i hxc
        exact ⟨x, s', rfl, by simpa using hxc, h⟩
      · simp at h
    | cls neg rs =>
      simp only [Item.asciiMid, Bool.and_eq_true, Bool.not_eq_true', List.all_eq_true] at hm
      obtain ⟨hneg, hrs⟩ := hm
      subst hneg
      simp only [consume, hd, List.drop_succ_cons, List.drop_zero] at h
      split at h
      · rename_i hin
        refine ⟨x, s', rfl, ?_, h⟩
        intro hxs
        subst hxs
        simp only [inRanges, bne_iff_ne, ne_eq, Bool.not_eq_false, List.any_eq_true] at hin
        obtain ⟨lh, hmem, hlh⟩ := hin
        have := hrs lh hmem
        have h47 : SL.toNat = 47 := by decide
        rw [h47] at hlh
        simp [hlh] at this
      · simp at h

/-- leftmost-commit = existential, every name (any bytes) -/
theorem greedy_eq_spec (its : List Item) (n : Bytes) (h : starSafe its = true) :
    greedyMatch its n = matchItems its n := by
  unfold greedyMatch
  refine greedy_gen litMid (fun _ => True) (fun _ _ _ => trivial) stepOK_lit _ its n (by omega) trivial ⟨false, true, ?_⟩
  rw [← starSafeGo_eq]; exact h

/-- the same for ASCII names under the weaker condition -/
theorem greedy_eq_spec_ascii (its : List Item) (n : Bytes) (hn : n.all (fun c => decide (c.toNat < 128)) = true)
    (h : starSafeAscii its = true) : greedyMatch its n = matchItems its n := by
  unfold greedyMatch
  refine greedy_gen Item.asciiMid asciiName asciiName_suffix stepOK_ascii _ its n (by omega) hn ⟨false, true, ?_⟩
  rw [← starSafeAsciiGo_eq]; exact h

end Logrange.PathSpec
