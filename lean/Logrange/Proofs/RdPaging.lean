import Logrange.Proofs.RdIterDefs
set_option linter.unusedSectionVars false
set_option linter.unusedVariables false
namespace Logrange.Rd

/-- a one-source, un-ranged cursor in explicit form -/
def cur1 (name : Nat) (j : Journal) (it : It) (w v : Bool) (l : Option Rec) (m : Array MixSt) : Cur :=
  { srcs := #[{ name := name, jrnl := j, it := .lib it }], nodes := #[.leaf 0], mix := m, root := 0,
    useF := w, fValid := v, fLe := l, where_ := w, minTs := none, maxTs := none }

theorem pg_mkCur (name : Nat) (j : Journal) (w : Bool) :
    mkCur [{ name := name, jrnl := j, it := .lib {} }] w none none false = cur1 name j {} w false none #[{}] := by
  simp [mkCur, cur1, reduceTree]

theorem pg_nodeGet (name j it w v l m) :
    nodeGet 3 (cur1 name j it w v l m) 0 = (cur1 name j (get j it).1 w v l m, (get j it).2) := by
  simp [nodeGet, cur1, Src.get, setSrc]

theorem pg_depth (name j it w v l m) : (cur1 name j it w v l m).depth = 3 := by simp [Cur.depth, cur1]
theorem pg_size (name j it w v l m) : (cur1 name j it w v l m).size = (flat j).length := by
  simp [Cur.size, cur1]

theorem pg_curNext (name j it w v l m) :
    curNext (cur1 name j it w v l m) = cur1 name j (next j it) w (if w then false else v) l m := by
  cases w <;> simp [curNext, nodeNext, cur1, Src.next, setSrc, Cur.depth]

theorem pg_curRelease (name j it w v l m) :
    curRelease (cur1 name j it w v l m) = cur1 name j (release it) w v l m := by
  simp [curRelease, nodeRelease, cur1, Src.release, setSrc, Cur.depth]

theorem pg_curSetBackward (name j it w v l m b) :
    curSetBackward (cur1 name j it w v l m) b = cur1 name j (setBackward it b) w (if w then false else v) l m := by
  cases w <;> simp [curSetBackward, nodeSetBackward, cur1, Src.setBackward, setSrc, Cur.depth]

theorem pg_curPos (name j it w v l m) :
    curPos (cur1 name j it w v l m) = some (0, it.cid, it.idx) := by
  simp [curPos, nodePos, cur1, Src.pos, It.pos, Cur.depth]

theorem pg_collectPos (name j it w v l m) :
    collectPos (cur1 name j it w v l m) = [(name, it.pos)] := by
  simp [collectPos, cur1, Src.pos]

theorem pg_applyStatePos (name j it w v l m p) :
    applyStatePos (cur1 name j it w v l m) [(name, p)] = cur1 name j (setPos j it p) w v l m := by
  simp [applyStatePos, cur1, Src.setPos]

theorem pg_applyCorner (name j it w v l m t) :
    applyCorner (cur1 name j it w v l m) t
      = cur1 name j (setPos j it (if t then ⟨tailCid, maxU32⟩ else {})) w v l m := by
  simp [applyCorner, cur1, Src.setPos]

theorem pg_setJournals (name j j' it w v l m) :
    setJournals (cur1 name j it w v l m) [(name, j')] = cur1 name j' it w v l m := by
  simp [setJournals, cur1]

theorem pg_passes (name j it w v l m r) : passes (cur1 name j it w v l m) r = (!w || r.keep) := by
  simp [passes, cur1]

theorem pg_fGetLoop_succ (f name j it w v l m) :
    fGetLoop (f + 1) (cur1 name j it w v l m) =
      if v then (cur1 name j it w v l m, l) else
      match (get j it).2 with
      | none => (cur1 name j (get j it).1 w v l m, none)
      | some x =>
        if (!w || x.keep) then (cur1 name j (get j it).1 w true (some x) m, some x)
        else fGetLoop f (cur1 name j (next j (get j it).1) w (if w then false else v) (some x) m) := by
  rw [fGetLoop]
  have hd : (cur1 name j it w v l m).depth = 3 := by simp [Cur.depth, cur1]
  have hr : (cur1 name j it w v l m).root = 0 := rfl
  have hv : (cur1 name j it w v l m).fValid = v := rfl
  have hl : (cur1 name j it w v l m).fLe = l := rfl
  rw [hd, hr, hv, hl, pg_nodeGet]
  cases v with
  | true => simp
  | false =>
    simp only [Bool.false_eq_true, if_false]
    cases h : (get j it).2 with
    | none => simp
    | some x =>
      simp only []
      have hp : passes (cur1 name j (get j it).1 w false l m) x = (!w || x.keep) := by simp [passes, cur1]
      rw [hp]
      by_cases hk : (!w || x.keep) = true
      · simp [hk, cur1]
      · simp only [hk, if_false, Bool.false_eq_true]
        have : ({ cur1 name j (get j it).1 w false l m with fLe := some x } : Cur)
            = cur1 name j (get j it).1 w false (some x) m := rfl
        rw [this, pg_curNext]

/-! ## the flat abstraction of a one-source cursor -/

def keepW (w : Bool) (r : Rec) : Bool := !w || r.keep
/-- what a cursor standing at flat index `i` still has to deliver -/
def FL (j : Journal) (w : Bool) (i : Nat) : List Rec := ((flat j).drop i).filter (keepW w)

theorem pg_FL_some {j : Journal} {w : Bool} {i : Nat} {r : Rec} (h : (flat j)[i]? = some r) :
    FL j w i = if keepW w r then r :: FL j w (i + 1) else FL j w (i + 1) := by
  obtain ⟨hi, e⟩ := List.getElem?_eq_some_iff.mp h
  unfold FL
  rw [List.drop_eq_getElem_cons hi, e, List.filter_cons]

theorem pg_FL_none {j : Journal} {w : Bool} {i : Nat} (h : (flat j)[i]? = none) : FL j w i = [] := by
  unfold FL
  rw [List.drop_eq_nil_of_le (List.getElem?_eq_none_iff.mp h)]; rfl

theorem pg_flatIdx_le (j : Journal) (p : Pos) : flatIdx j p ≤ (flat j).length := by
  induction j with
  | nil => simp [flatIdx, flat]
  | cons c rest ih =>
    simp only [flatIdx, flat, List.flatMap_cons, List.length_append] at ih ⊢
    have : (if c.id < p.cid then c.cnt else if c.id = p.cid then min p.idx c.cnt else 0) ≤ c.recs.length := by
      unfold Chunk.cnt; split
      · exact Nat.le_refl _
      · split
        · exact Nat.min_le_right _ _
        · exact Nat.zero_le _
    omega

/-- facts about the components of a one-source cursor standing (forward) at flat index `i`;
`sy` = the iterator's reported position is in sync with its chunk iterator (true in forward-only use) -/
def St (j : Journal) (w sy : Bool) (it : It) (v : Bool) (l : Option Rec) (i : Nat) : Prop :=
  WF j it ∧ it.bkwd = false ∧ fIdx j it = i ∧
  (w = true → v = true → ∃ r, l = some r ∧ (flat j)[i]? = some r ∧ r.keep = true) ∧
  (sy = true → Synced it ∧ (w = true → v = true → Settled j it.pos)) ∧
  (sy = false → w = true → v = true → OnRecord j it)

/-- `c` is a one-source un-ranged cursor over `j` standing (forward) at flat index `i` -/
def Abs (name : Nat) (j : Journal) (w sy : Bool) (c : Cur) (i : Nat) : Prop :=
  ∃ it v l m, c = cur1 name j it w v l m ∧ St j w sy it v l i

theorem pg_onRecord_settled {j : Journal} {it : It} (hwf : WF j it) (hsy : Synced it) (ho : OnRecord j it) :
    Settled j it.pos := by
  obtain ⟨c, hc, h0, hlt⟩ := ho
  unfold WF at hwf; unfold Synced at hsy
  rw [hc] at hwf hsy
  obtain ⟨e1, ⟨ch, hm, he⟩, _, _, _⟩ := hwf
  obtain ⟨_, hidx⟩ := hsy
  have hf : ∃ ch', findChunk j c.chunk = some ch' ∧ ch' ∈ j ∧ ch'.id = c.chunk := by
    unfold findChunk
    cases hfd : j.find? (fun x => x.id == c.chunk) with
    | none =>
      have := List.find?_eq_none.mp hfd ch hm
      simp [he] at this
    | some ch' =>
      exact ⟨ch', rfl, List.mem_of_find?_eq_some hfd, by simpa using List.find?_some hfd⟩
  obtain ⟨ch', hf1, hf2, hf3⟩ := hf
  refine ⟨ch', hf2, by simp [It.pos, hf3, e1], ?_⟩
  have hcnt : cntOf j c.chunk = ch'.cnt := by simp [cntOf, hf1]
  rw [hcnt] at hlt
  simp only [It.pos]
  omega

section laws
variable (HG : GetFwdSpec) (HN : NextFwdSpec)
include HG HN

theorem pg_abs_le {name j w sy c i} (h : Abs name j w sy c i) : i ≤ (flat j).length := by
  obtain ⟨it, v, l, m, _, hst⟩ := h
  unfold St at hst
  obtain ⟨_, _, hi, _⟩ := hst
  rw [← hi]; exact pg_flatIdx_le _ _

theorem pg_curNext_abs {name j w sy c i} (hs : Sorted j) (h : Abs name j w sy c i) :
    Abs name j w sy (curNext c) (min (i + 1) (flat j).length) := by
  obtain ⟨it, v, l, m, rfl, hst⟩ := h
  unfold St at hst
  obtain ⟨hwf, hb, hi, _, _, _⟩ := hst
  obtain ⟨h1, h2, h3, h4⟩ := HN j it hs hwf hb
  refine ⟨next j it, (if w then false else v), l, m, pg_curNext .., ?_⟩
  unfold St
  refine ⟨h1, h2, by rw [h4, hi], ?_, ?_, ?_⟩
  · intro hw hv; subst hw; simp at hv
  · intro _; refine ⟨h3, ?_⟩; intro hw hv; subst hw; simp at hv
  · intro _ hw hv; subst hw; simp at hv

/-- post-condition of a `Get` from flat index `i` -/
def GetPost (name : Nat) (j : Journal) (w sy : Bool) (c' : Cur) (res : Option Rec) (i : Nat) : Prop :=
  ∃ i' it' v' l' m', c' = cur1 name j it' w v' l' m' ∧ St j w sy it' v' l' i' ∧
    (sy = true → j ≠ [] → Settled j it'.pos) ∧
    (sy = false → (res.isSome → OnRecord j it') ∧ (res = none → it'.ci = none)) ∧
    FL j w i' = FL j w i ∧ res = (FL j w i).head? ∧
    ((res = none ∧ i' = (flat j).length) ∨ (∃ r, res = some r ∧ (flat j)[i']? = some r ∧ keepW w r = true))

theorem pg_getPost_abs {name j w sy c' res i} (h : GetPost name j w sy c' res i) :
    ∃ i', Abs name j w sy c' i' ∧ FL j w i' = FL j w i ∧
      ((res = none ∧ i' = (flat j).length) ∨ (∃ r, res = some r ∧ (flat j)[i']? = some r ∧ keepW w r = true)) := by
  obtain ⟨i', it', v', l', m', e, st, _, _, f, _, d⟩ := h
  exact ⟨i', ⟨it', v', l', m', e, st⟩, f, d⟩

theorem pg_fGetLoop_abs {name j sy} (hs : Sorted j) : ∀ (fuel : Nat) (c : Cur) (i : Nat), Abs name j true sy c i →
    (flat j).length - i < fuel → GetPost name j true sy (fGetLoop fuel c).1 (fGetLoop fuel c).2 i := by
  intro fuel
  induction fuel with
  | zero => intro c i _ hf; omega
  | succ f ih =>
    intro c i h hf
    have hle := pg_abs_le HG HN h
    obtain ⟨it, v, l, m, rfl, hst⟩ := h
    unfold St at hst
    obtain ⟨hwf, hb, hi, hv, hsy, hon0⟩ := hst
    rw [pg_fGetLoop_succ]
    cases v with
    | true =>
      obtain ⟨r, hl, hr, hk⟩ := hv rfl rfl
      simp only [if_true]
      have hst : St j true sy it true l i := by unfold St; exact ⟨hwf, hb, hi, hv, hsy, hon0⟩
      refine ⟨i, it, true, l, m, rfl, hst, ?_, ?_, rfl, ?_, Or.inr ⟨r, hl, hr, by simp [keepW, hk]⟩⟩
      · intro h1 _
        obtain ⟨s1, s2⟩ := hsy h1
        exact s2 rfl rfl
      · intro h0; exact ⟨fun _ => hon0 h0 rfl rfl, (by intro h; rw [hl] at h; cases h)⟩
      · rw [pg_FL_some hr]; simp [keepW, hk, hl]
    | false =>
      simp only [Bool.false_eq_true, if_false]
      obtain ⟨g1, g2, g3, g4, g5, g6, g7⟩ := HG j it hs hwf hb
      rw [hi] at g1 g4
      cases hg : (get j it).2 with
      | none =>
        simp only []
        rw [hg] at g1
        have hge : (flat j).length ≤ i := List.getElem?_eq_none_iff.mp g1.symm
        have hst : St j true sy (get j it).1 false l i := by
          unfold St
          refine ⟨g2, g3, g4, ?_, ?_, ?_⟩
          · intro _ h; cases h
          · intro h1; exact ⟨g5 (hsy h1).1, by intro _ h; cases h⟩
          · intro _ _ h; cases h
        refine ⟨i, (get j it).1, false, l, m, rfl, hst, ?_, ?_, rfl, ?_, Or.inl ⟨rfl, by omega⟩⟩
        · intro _ hne; exact (g7 hg).2 hne
        · intro _; exact ⟨(by intro h; cases h), fun _ => (g7 hg).1⟩
        · rw [pg_FL_none g1.symm]; rfl
      | some x =>
        simp only []
        rw [hg] at g1
        have hon : OnRecord j (get j it).1 := g6 (by rw [hg]; rfl)
        by_cases hk : (!true || x.keep) = true
        · simp only [hk, if_true]
          have hk' : x.keep = true := by simpa using hk
          have hst : St j true sy (get j it).1 true (some x) i := by
            unfold St
            refine ⟨g2, g3, g4, ?_, ?_, ?_⟩
            · intro _ _; exact ⟨x, rfl, g1.symm, hk'⟩
            · intro h1; exact ⟨g5 (hsy h1).1, fun _ _ => pg_onRecord_settled g2 (g5 (hsy h1).1) hon⟩
            · intro _ _ _; exact hon
          refine ⟨i, (get j it).1, true, some x, m, rfl, hst, ?_, ?_, rfl, ?_, Or.inr ⟨x, rfl, g1.symm, by simp [keepW, hk']⟩⟩
          · intro h1 _; exact pg_onRecord_settled g2 (g5 (hsy h1).1) hon
          · intro _; exact ⟨fun _ => hon, (by intro h; cases h)⟩
          · rw [pg_FL_some g1.symm]; simp [keepW, hk']
        · simp only [hk, if_false, Bool.false_eq_true, if_true]
          have hk' : keepW true x = false := by simpa [keepW] using hk
          obtain ⟨n1, n2, n3, n4⟩ := HN j (get j it).1 hs g2 g3
          rw [g4] at n4
          have hlt : i < (flat j).length := (List.getElem?_eq_some_iff.mp g1.symm).1
          have hmin : min (i + 1) (flat j).length = i + 1 := by omega
          rw [hmin] at n4
          have habs : Abs name j true sy (cur1 name j (next j (get j it).1) true false (some x) m) (i + 1) :=
            ⟨_, _, _, _, rfl, by
              unfold St
              exact ⟨n1, n2, n4, by intro _ h; simp at h, fun _ => ⟨n3, by intro _ h; simp at h⟩, by intro _ _ h; simp at h⟩⟩
          obtain ⟨i', it', v', l', m', a0, a1, a1', a1'', a2, a3, a4⟩ := ih _ (i + 1) habs (by omega)
          have hFL : FL j true (i + 1) = FL j true i := by rw [pg_FL_some g1.symm]; simp [hk']
          exact ⟨i', it', v', l', m', a0, a1, a1', a1'', by rw [a2, hFL], by rw [a3, hFL], a4⟩

theorem pg_curGet_abs {name j w sy c i} (hs : Sorted j) (h : Abs name j w sy c i) :
    GetPost name j w sy (curGet c).1 (curGet c).2 i := by
  cases w with
  | true =>
    obtain ⟨it, v, l, m, rfl, hst⟩ := h
    have hsz : (cur1 name j it true v l m).size = (flat j).length := by simp [Cur.size, cur1]
    have : curGet (cur1 name j it true v l m) = fGetLoop ((flat j).length + 2) (cur1 name j it true v l m) := by
      simp [curGet, cur1]
      rfl
    rw [this]
    exact pg_fGetLoop_abs HG HN hs _ _ i ⟨it, v, l, m, rfl, hst⟩ (by omega)
  | false =>
    obtain ⟨it, v, l, m, rfl, hst⟩ := h
    unfold St at hst
    obtain ⟨hwf, hb, hi, hv, hsy, hon0⟩ := hst
    have : curGet (cur1 name j it false v l m) = (cur1 name j (get j it).1 false v l m, (get j it).2) := by
      have hd : (cur1 name j it false v l m).depth = 3 := by simp [Cur.depth, cur1]
      simp only [curGet, cur1] at *
      simp
      rw [hd]; exact pg_nodeGet ..
    rw [this]
    obtain ⟨g1, g2, g3, g4, g5, g6, g7⟩ := HG j it hs hwf hb
    rw [hi] at g1 g4
    have hst : St j false sy (get j it).1 v l i := by
      unfold St
      refine ⟨g2, g3, g4, ?_, ?_, ?_⟩
      · intro h; cases h
      · intro h1; exact ⟨g5 (hsy h1).1, by intro h; cases h⟩
      · intro _ h; cases h
    refine ⟨i, (get j it).1, v, l, m, rfl, hst, ?_, ?_, rfl, ?_, ?_⟩
    · intro h1 hne
      cases hg : (get j it).2 with
      | none => exact (g7 hg).2 hne
      | some x => exact pg_onRecord_settled g2 (g5 (hsy h1).1) (g6 (by rw [hg]; rfl))
    · intro _; exact ⟨fun h => g6 h, fun h => (g7 h).1⟩
    · simp only []
      cases hg : (get j it).2 with
      | none => rw [hg] at g1; rw [pg_FL_none g1.symm]; rfl
      | some x => rw [hg] at g1; rw [pg_FL_some g1.symm]; simp [keepW]
    · simp only []
      cases hg : (get j it).2 with
      | none =>
        rw [hg] at g1
        have := List.getElem?_eq_none_iff.mp g1.symm
        have hle := pg_flatIdx_le j (effPos it)
        unfold fIdx at hi; rw [hi] at hle
        exact Or.inl ⟨rfl, by omega⟩
      | some x => rw [hg] at g1; exact Or.inr ⟨x, rfl, g1.symm, by simp [keepW]⟩

end laws
/-! ## pages on a one-source cursor -/

theorem pg_release_facts (j : Journal) (it : It) :
    (WF j it → WF j (release it)) ∧ effPos (release it) = effPos it ∧ (release it).bkwd = it.bkwd ∧
    (Synced it → Synced (release it)) ∧ (release it).pos = it.pos := by
  unfold release
  cases h : it.ci with
  | none => simp
  | some c =>
    refine ⟨?_, ?_, rfl, ?_, rfl⟩
    · intro hwf; unfold WF at hwf ⊢; rw [h] at hwf; simp only
      obtain ⟨a, b, c1, d, _⟩ := hwf
      exact ⟨a, b, c1, d, by intro hc; cases hc⟩
    · simp [effPos, h]
    · intro hsy; unfold Synced at hsy ⊢; rw [h] at hsy; simpa using hsy

theorem pg_effPos_eq_pos {j : Journal} {it : It} (hwf : WF j it) (hsy : Synced it) : effPos it = it.pos := by
  unfold effPos It.pos
  cases h : it.ci with
  | none => rfl
  | some c =>
    unfold WF at hwf; unfold Synced at hsy; rw [h] at hwf hsy
    simp only
    rw [hwf.1, hsy.2]

/-- one page: the read loop of `Query`, then `commit` -/
def pageOn (lim : Nat) (c : Cur) : Cur × List Rec × List (Nat × Pos) :=
  ((commit (readLoop lim c []).1).1, (readLoop lim c []).2, (commit (readLoop lim c []).1).2)

/-- state of a cursor after `commit`: standing at `i`, reporting position `p` -/
def PC (name : Nat) (j : Journal) (w : Bool) (c : Cur) (i : Nat) (p : Pos) : Prop :=
  ∃ it v l m, c = cur1 name j it w v l m ∧ St j w true it v l i ∧ (j ≠ [] → Settled j it.pos) ∧ it.pos = p

section laws2
variable (HG : GetFwdSpec) (HN : NextFwdSpec)
include HG HN

theorem pg_readLoop_abs {name j w sy} (hs : Sorted j) : ∀ (k : Nat) (c : Cur) (i : Nat) (acc : List Rec),
    Abs name j w sy c i →
    (readLoop k c acc).2 = acc.reverse ++ (FL j w i).take k ∧
    ∃ i', Abs name j w sy (readLoop k c acc).1 i' ∧ FL j w i' = (FL j w i).drop k := by
  intro k
  induction k with
  | zero => intro c i acc h; exact ⟨by simp [readLoop], i, by simpa [readLoop] using h, by simp⟩
  | succ k ih =>
    intro c i acc h
    obtain ⟨i1, it1, v1, l1, m1, e1, st1, _, _, f1, r1, d1⟩ := pg_curGet_abs HG HN hs h
    have habs1 : Abs name j w sy (curGet c).1 i1 := ⟨it1, v1, l1, m1, e1, st1⟩
    rw [readLoop]
    rcases d1 with ⟨hn, _⟩ | ⟨r, hr, hget, hk⟩
    · -- EOF
      have hnil : FL j w i = [] := by
        rw [hn] at r1; exact List.head?_eq_none_iff.mp r1.symm
      simp only [hn]
      exact ⟨by simp [hnil], i1, habs1, by rw [f1, hnil]; simp⟩
    · have hcons : FL j w i1 = r :: FL j w (i1 + 1) := by rw [pg_FL_some hget]; simp [hk]
      have hlt : i1 < (flat j).length := (List.getElem?_eq_some_iff.mp hget).1
      have hnext := pg_curNext_abs HG HN hs habs1
      have hmin : min (i1 + 1) (flat j).length = i1 + 1 := by omega
      rw [hmin] at hnext
      obtain ⟨q1, i', q2, q3⟩ := ih (curNext (curGet c).1) (i1 + 1) (r :: acc) hnext
      simp only [hr]
      refine ⟨?_, i', q2, ?_⟩
      · rw [q1, ← f1, hcons]; simp
      · rw [q3, ← f1, hcons]; simp

theorem pg_commit_abs {name j w c i} (hs : Sorted j) (h : Abs name j w true c i) :
    ∃ i' p, PC name j w (commit c).1 i' p ∧ FL j w i' = FL j w i ∧ (commit c).2 = [(name, p)] ∧ flatIdx j p = i' := by
  obtain ⟨i1, it1, v1, l1, m1, e1, st1, set1, _, f1, _, _⟩ := pg_curGet_abs HG HN hs h
  unfold St at st1
  obtain ⟨hwf, hb, hi, hv, hsy, hon0⟩ := st1
  obtain ⟨hsync, hvs⟩ := hsy rfl
  obtain ⟨r1, r2, r3, r4, r5⟩ := pg_release_facts j it1
  have hc : commit c = (cur1 name j (release it1) w v1 l1 m1, [(name, it1.pos)]) := by
    simp only [commit, curState, e1, pg_collectPos, pg_curRelease]
  rw [hc]
  refine ⟨i1, it1.pos, ⟨release it1, v1, l1, m1, rfl, ?_, ?_, r5⟩, f1, rfl, ?_⟩
  · unfold St
    refine ⟨r1 hwf, by rw [r3, hb], by unfold fIdx at hi ⊢; rw [r2, hi], hv, fun _ => ⟨r4 hsync, ?_⟩, by intro h; cases h⟩
    intro a b; rw [r5]; exact hvs a b
  · intro hne; rw [r5]; exact set1 rfl hne
  · rw [← pg_effPos_eq_pos hwf hsync]; exact hi

theorem pg_pageOn_abs {name j w c i} (hs : Sorted j) (lim : Nat) (h : Abs name j w true c i) :
    (pageOn lim c).2.1 = (FL j w i).take lim ∧
    ∃ i' p, PC name j w (pageOn lim c).1 i' p ∧ FL j w i' = (FL j w i).drop lim ∧
      (pageOn lim c).2.2 = [(name, p)] ∧ flatIdx j p = i' := by
  obtain ⟨q1, i1, q2, q3⟩ := pg_readLoop_abs HG HN hs lim c i [] h
  obtain ⟨i', p, c1, c2, c3, c4⟩ := pg_commit_abs HG HN hs q2
  exact ⟨by simpa [pageOn] using q1, i', p, c1, by rw [c2, q3], c3, c4⟩

end laws2
/-! ## chains of pages -/

/-- what the environment does before a page: the server still holds the cursor object, or a new cursor is built
from the position text (evicted / request id zeroed / position only are the same at this level) -/
inductive Choice | same | fresh
deriving DecidableEq, Repr

structure PStep where
  choice : Choice
  limit : Nat
  jrnl : Journal        -- the partition's journal when this page is served (it may have grown)

def mk1 (name : Nat) (j : Journal) (w : Bool) : Cur :=
  mkCur [{ name := name, jrnl := j, it := .lib {} }] w none none false

def resume (name : Nat) (w : Bool) (c : Cur) (pm : List (Nat × Pos)) (st : PStep) : Cur :=
  match st.choice with
  | .same => setJournals c [(name, st.jrnl)]
  | .fresh => applyStatePos (mk1 name st.jrnl w) pm

def chain (name : Nat) (w : Bool) : Cur → List (Nat × Pos) → List PStep → List (List Rec)
  | _, _, [] => []
  | c, pm, st :: rest =>
    (pageOn st.limit (resume name w c pm st)).2.1 ::
      chain name w (pageOn st.limit (resume name w c pm st)).1 (pageOn st.limit (resume name w c pm st)).2.2 rest

/-- a whole paged read of one partition, first request from `head` -/
def pagesC (name : Nat) (w : Bool) (j0 : Journal) (l0 : Nat) (steps : List PStep) : List (List Rec) :=
  (pageOn l0 (applyCorner (mk1 name j0 w) false)).2.1 ::
    chain name w (pageOn l0 (applyCorner (mk1 name j0 w) false)).1 (pageOn l0 (applyCorner (mk1 name j0 w) false)).2.2 steps

theorem pg_flatIdx_zero (j : Journal) : flatIdx j ⟨0, 0⟩ = 0 := by
  induction j with
  | nil => rfl
  | cons c rest ih =>
    simp only [flatIdx, ih, Nat.not_lt_zero, if_false, Nat.add_zero]
    split <;> simp

theorem pg_setPos_fresh (j : Journal) (p : Pos) :
    (setPos j {} p).ci = none ∧ (setPos j {} p).pos = p ∧ (setPos j {} p).bkwd = false := by
  unfold setPos
  by_cases h : p.cid = ({} : It).cid ∧ p.idx = ({} : It).idx
  · rw [if_pos h]
    obtain ⟨h1, h2⟩ := h
    refine ⟨rfl, ?_, rfl⟩
    cases p; simp only [It.pos] at *; simp_all
  · rw [if_neg h]
    by_cases h2 : p.cid ≠ ({} : It).cid <;> simp [h2, It.pos]

theorem pg_fresh_abs (name : Nat) (j : Journal) (w : Bool) (p : Pos) :
    Abs name j w true (applyStatePos (mk1 name j w) [(name, p)]) (flatIdx j p) := by
  obtain ⟨h1, h2, h3⟩ := pg_setPos_fresh j p
  refine ⟨setPos j {} p, false, none, #[{}], by rw [mk1, pg_mkCur, pg_applyStatePos], ?_⟩
  unfold St
  refine ⟨by unfold WF; rw [h1]; trivial, h3, by unfold fIdx effPos; rw [h1]; simp [h2], ?_, ?_, ?_⟩
  · intro _ h; cases h
  · intro _; exact ⟨by unfold Synced; rw [h1]; trivial, by intro _ h; cases h⟩
  · intro h; cases h

theorem pg_head_abs (name : Nat) (j : Journal) (w : Bool) :
    Abs name j w true (applyCorner (mk1 name j w) false) 0 := by
  have : applyCorner (mk1 name j w) false = applyStatePos (mk1 name j w) [(name, {})] := by
    rw [mk1, pg_mkCur, pg_applyStatePos, pg_applyCorner]; simp
  rw [this]
  have h := pg_fresh_abs name j w {}
  have e : flatIdx j ({} : Pos) = 0 := pg_flatIdx_zero j
  rw [e] at h; exact h

theorem pg_pc_flatIdx {name j w c i p} (h : PC name j w c i p) : flatIdx j p = i := by
  obtain ⟨it, v, l, m, _, st, _, hp⟩ := h
  unfold St at st
  obtain ⟨hwf, _, hi, _, hsy, _⟩ := st
  rw [← hp, ← pg_effPos_eq_pos hwf (hsy rfl).1]; exact hi

/-- resuming on the unchanged journal keeps the flat index, whatever the environment chooses -/
theorem pg_resume_fixed {name j w c i p} (h : PC name j w c i p) (st : PStep) (hj : st.jrnl = j) :
    Abs name j w true (resume name w c [(name, p)] st) i := by
  unfold resume
  cases hc : st.choice with
  | same =>
    obtain ⟨it, v, l, m, rfl, hst, _, _⟩ := h
    simp only [hj, pg_setJournals]
    exact ⟨it, v, l, m, rfl, hst⟩
  | fresh =>
    simp only [hj]
    have := pg_fresh_abs name j w p
    rw [pg_pc_flatIdx h] at this; exact this

section laws3
variable (HG : GetFwdSpec) (HN : NextFwdSpec)
include HG HN

theorem pg_chain_fixed {name j w} (hs : Sorted j) : ∀ (steps : List PStep) (c : Cur) (i : Nat) (p : Pos),
    PC name j w c i p → (∀ st ∈ steps, st.jrnl = j) →
    (chain name w c [(name, p)] steps).flatten = (FL j w i).take (steps.map (·.limit)).sum := by
  intro steps
  induction steps with
  | nil => intro c i p _ _; simp [chain]
  | cons st rest ih =>
    intro c i p h hall
    have habs := pg_resume_fixed h st (hall st (List.mem_cons_self ..))
    obtain ⟨e1, i', p', pc', f', pm', _⟩ := pg_pageOn_abs HG HN hs st.limit habs
    rw [chain, List.flatten_cons, pm', ih _ i' p' pc' (fun s hs' => hall s (List.mem_cons_of_mem _ hs')), e1, f']
    simp only [List.map_cons, List.sum_cons]
    rw [List.take_add]

/-- **paging**, one partition, fixed journal: whatever the limits and whatever the environment chooses per page -/
theorem pg_paging {name j w} (hs : Sorted j) (l0 : Nat) (steps : List PStep) (hall : ∀ st ∈ steps, st.jrnl = j) :
    (pagesC name w j l0 steps).flatten = ((flat j).filter (keepW w)).take (l0 + (steps.map (·.limit)).sum) := by
  obtain ⟨e1, i', p', pc', f', pm', _⟩ := pg_pageOn_abs HG HN hs l0 (pg_head_abs name j w)
  rw [pagesC, List.flatten_cons, pm', pg_chain_fixed HG HN hs steps _ i' p' pc' hall, e1, f', List.take_add]
  simp [FL]

end laws3
/-! ## appends between pages -/

theorem pg_FL_grow {j j' : Journal} {e : List Rec} (w : Bool) {i : Nat} (h : flat j' = flat j ++ e)
    (hi : i ≤ (flat j).length) : FL j' w i = FL j w i ++ e.filter (keepW w) := by
  unfold FL
  rw [h, List.drop_append_of_le_length hi, List.filter_append]

def GrowsChain : Journal → List PStep → Prop
  | _, [] => True
  | j, st :: rest => Grows j st.jrnl ∧ Sorted st.jrnl ∧ GrowsChain st.jrnl rest

def lastJ : Journal → List PStep → Journal
  | j, [] => j
  | _, st :: rest => lastJ st.jrnl rest

theorem pg_grows_ne {j j' : Journal} (h : Grows j j') (hne : j ≠ []) : j' ≠ [] := by
  cases h with
  | nil => exact absurd rfl hne
  | cons => simp

section laws4
variable (HG : GetFwdSpec) (HN : NextFwdSpec) (HW : GrowsSpec)
include HG HN HW

theorem pg_chain_prefix_flat : ∀ (steps : List PStep) (j : Journal), GrowsChain j steps →
    ∃ e, flat (lastJ j steps) = flat j ++ e := by
  intro steps
  induction steps with
  | nil => intro j _; exact ⟨[], by simp [lastJ]⟩
  | cons st rest ih =>
    intro j h
    obtain ⟨g, hs', hrest⟩ := h
    obtain ⟨e1, he1⟩ := (HW j st.jrnl g hs').1
    obtain ⟨e2, he2⟩ := ih st.jrnl hrest
    exact ⟨e1 ++ e2, by rw [lastJ, he2, ← he1, List.append_assoc]⟩

theorem pg_resume_grow {name j j' w c i p} (h : PC name j w c i p) (hne : j ≠ []) (g : Grows j j') (hs' : Sorted j')
    (st : PStep) (hj : st.jrnl = j') : Abs name j' w true (resume name w c [(name, p)] st) i := by
  obtain ⟨hpre, hset, hwf'⟩ := HW j j' g hs'
  unfold resume
  cases hc : st.choice with
  | same =>
    obtain ⟨it, v, l, m, rfl, hst, hsettled, _⟩ := h
    unfold St at hst
    obtain ⟨hwf, hb, hi, hv, hsy, hon0⟩ := hst
    obtain ⟨hsync, hvs⟩ := hsy rfl
    simp only [hj, pg_setJournals]
    refine ⟨it, v, l, m, rfl, ?_⟩
    unfold St
    have hw2 := hwf' it hwf
    refine ⟨hw2, hb, ?_, ?_, fun _ => ⟨hsync, fun a b => (hset _ (hvs a b)).2⟩, by intro h; cases h⟩
    · unfold fIdx at hi ⊢
      rw [pg_effPos_eq_pos hw2 hsync, (hset _ (hsettled hne)).1, ← pg_effPos_eq_pos hwf hsync]; exact hi
    · intro a b
      obtain ⟨r, h1, h2, h3⟩ := hv a b
      obtain ⟨e, he⟩ := hpre
      refine ⟨r, h1, ?_, h3⟩
      rw [← he, List.getElem?_append_left (List.getElem?_eq_some_iff.mp h2).1]; exact h2
  | fresh =>
    simp only [hj]
    have := pg_fresh_abs name j' w p
    have hp : Settled j p := by
      obtain ⟨it, v, l, m, _, _, hsettled, hpos⟩ := h
      rw [← hpos]; exact hsettled hne
    rw [(hset p hp).1, pg_pc_flatIdx h] at this; exact this

/-- **appends between pages**: the concatenated pages are a prefix of the matching events of the final journal
from the start index (stored order, nothing twice, nothing foreign; events appended later come later), and when
the last page came back shorter than its limit they are all of them. -/
theorem pg_chain_grow {name w} : ∀ (steps : List PStep) (j : Journal) (c : Cur) (i : Nat) (p : Pos),
    PC name j w c i p → j ≠ [] → Sorted j → GrowsChain j steps →
    ∃ R, FL (lastJ j steps) w i = (chain name w c [(name, p)] steps).flatten ++ R ∧
      (∀ st evs, steps.getLast? = some st → (chain name w c [(name, p)] steps).getLast? = some evs →
        evs.length < st.limit → R = []) := by
  intro steps
  induction steps with
  | nil => intro j c i p _ _ _ _; exact ⟨FL j w i, by simp [chain, lastJ], by intro st evs h; simp at h⟩
  | cons st rest ih =>
    intro j c i p h hne hs hch
    obtain ⟨g, hs1, hrest⟩ := hch
    have habs := pg_resume_grow HG HN HW h hne g hs1 st rfl
    have hi1 := pg_abs_le HG HN habs
    obtain ⟨e1, i', p', pc', f', pm', _⟩ := pg_pageOn_abs HG HN hs1 st.limit habs
    have hne1 := pg_grows_ne g hne
    obtain ⟨R, hR, hcomp⟩ := ih st.jrnl _ i' p' pc' hne1 hs1 hrest
    obtain ⟨e, he⟩ := pg_chain_prefix_flat HG HN HW rest st.jrnl hrest
    have hi' : i' ≤ (flat st.jrnl).length := by
      obtain ⟨it, v, l, m, hc, hst, _, _⟩ := pc'
      exact pg_abs_le HG HN (⟨it, v, l, m, hc, hst⟩ : Abs name st.jrnl w true _ i')
    have hsplit : FL st.jrnl w i = (FL st.jrnl w i).take st.limit ++ FL st.jrnl w i' := by
      rw [f', List.take_append_drop]
    refine ⟨R, ?_, ?_⟩
    · rw [chain, List.flatten_cons, pm', e1, lastJ, List.append_assoc, ← hR,
        pg_FL_grow w he hi1, pg_FL_grow w he hi', ← List.append_assoc, ← hsplit]
    · intro st' evs hl hg hlen
      rw [chain, pm'] at hg
      cases hrest' : rest with
      | nil =>
        subst hrest'
        simp only [List.getLast?_singleton, Option.some.injEq] at hl
        subst hl
        simp only [chain, List.getLast?_singleton, Option.some.injEq] at hg
        rw [e1] at hg
        -- the page is shorter than its limit: nothing is left
        have hshort : (FL st.jrnl w i).length < st.limit := by
          rw [← hg] at hlen
          rw [List.length_take] at hlen
          omega
        have hnil : FL st.jrnl w i' = [] := by
          rw [f']; exact List.drop_eq_nil_of_le (by omega)
        have : R = FL st.jrnl w i' := by simpa [chain, lastJ] using hR.symm
        rw [this, hnil]
      | cons r0 rs =>
        subst hrest'
        rw [List.getLast?_cons_cons] at hl
        have hg' : (chain name w (pageOn st.limit (resume name w c [(name, p)] st)).1 [(name, p')] (r0 :: rs)).getLast? = some evs := by
          rw [chain] at hg ⊢
          rw [List.getLast?_cons_cons] at hg
          exact hg
        exact hcomp st' evs hl hg' hlen

end laws4
section laws5
variable (HG : GetFwdSpec) (HN : NextFwdSpec) (HW : GrowsSpec)
include HG HN HW

/-- `pg_chain_grow` for a whole paged read that starts at `head` -/
theorem pg_pages_grow {name w} (j0 : Journal) (l0 : Nat) (steps : List PStep)
    (hne : j0 ≠ []) (hs : Sorted j0) (hch : GrowsChain j0 steps) :
    ∃ R, (flat (lastJ j0 steps)).filter (keepW w) = (pagesC name w j0 l0 steps).flatten ++ R ∧
      (∀ st evs, steps.getLast? = some st → (pagesC name w j0 l0 steps).getLast? = some evs →
        evs.length < st.limit → R = []) := by
  have habs := pg_head_abs name j0 w
  obtain ⟨e1, i', p', pc', f', pm', _⟩ := pg_pageOn_abs HG HN hs l0 habs
  obtain ⟨R, hR, hcomp⟩ := pg_chain_grow HG HN HW steps j0 _ i' p' pc' hne hs hch
  obtain ⟨e, he⟩ := pg_chain_prefix_flat HG HN HW steps j0 hch
  have hi' : i' ≤ (flat j0).length := by
    obtain ⟨it, v, l, m, hc, hst, _, _⟩ := pc'
    exact pg_abs_le HG HN (⟨it, v, l, m, hc, hst⟩ : Abs name j0 w true _ i')
  have hsplit : FL j0 w 0 = (FL j0 w 0).take l0 ++ FL j0 w i' := by rw [f', List.take_append_drop]
  have h0 : (flat (lastJ j0 steps)).filter (keepW w) = FL (lastJ j0 steps) w 0 := by simp [FL]
  refine ⟨R, ?_, ?_⟩
  · rw [h0, pagesC, List.flatten_cons, pm', e1, List.append_assoc, ← hR,
      pg_FL_grow w he (Nat.zero_le _), pg_FL_grow w he hi', ← List.append_assoc, ← hsplit]
  · intro st evs hl hg hlen
    rw [pagesC, pm'] at hg
    cases hsteps : steps with
    | nil => subst hsteps; simp at hl
    | cons s0 ss =>
      subst hsteps
      have hg' : (chain name w (pageOn l0 (applyCorner (mk1 name j0 w) false)).1 [(name, p')] (s0 :: ss)).getLast? = some evs := by
        rw [chain] at hg ⊢
        rw [List.getLast?_cons_cons] at hg
        exact hg
      exact hcomp st evs hl hg' hlen

end laws5
end Logrange.Rd
