import Logrange.Proofs.RdMerge2
import Logrange.Proofs.RdOffsetBwd
set_option linter.unusedSectionVars false
namespace Logrange.Rd
section off2
variable (HG : GetFwdSpec) (HN : NextFwdSpec)
include HG HN

theorem m2_get_rem {n1 n2 j1 j2 c L} (hs1 : Sorted j1) (hs2 : Sorted j2) (h : Rem2 n1 n2 j1 j2 c L) :
    (curGet c).2 = L.head? ∧ Rem2 n1 n2 j1 j2 (curGet c).1 L := by
  obtain ⟨a, b, ha, rfl⟩ := h
  obtain ⟨g1, g2⟩ := m2_curGet_abs HG HN hs1 hs2 ha
  exact ⟨g1, a, b, g2, rfl⟩

theorem m2_next_rem {n1 n2 j1 j2 c L} (hs1 : Sorted j1) (hs2 : Sorted j2) (h : Rem2 n1 n2 j1 j2 c L) :
    Rem2 n1 n2 j1 j2 (curNext c) L.tail := by
  obtain ⟨a, b, ha, rfl⟩ := h
  obtain ⟨a', b', hn, hr⟩ := m2_curNext_abs HG HN hs1 hs2 ha
  exact ⟨a', b', hn, hr⟩

/-- the step loop of `Offset`, forward, on the merged cursor -/
theorem m2_steps {n1 n2 j1 j2} (hs1 : Sorted j1) (hs2 : Sorted j2) : ∀ (k : Nat) (c : Cur) (L : List Rec) (pos : PosId),
    Rem2 n1 n2 j1 j2 c L → Rem2 n1 n2 j1 j2 (offsetSteps k c pos).1 (L.drop k) := by
  intro k
  induction k with
  | zero => intro c L pos h; simpa [offsetSteps] using h
  | succ k ih =>
    intro c L pos h
    have hn := m2_next_rem HG HN hs1 hs2 h
    obtain ⟨g1, g2⟩ := m2_get_rem HG HN hs1 hs2 hn
    rw [offsetSteps]
    have hd : L.drop (k + 1) = L.tail.drop k := by rw [List.drop_tail]
    cases hg : (curGet (curNext c)).2 with
    | none =>
      simp only [hg]
      have hnil : L.tail = [] := by rw [hg] at g1; exact List.head?_eq_none_iff.mp g1.symm
      rw [hd, hnil]; simpa [hnil] using g2
    | some x =>
      simp only [hg]
      rw [hd]; exact ih _ _ _ g2

/-- **head + k over two partitions**: `Offset(+k)` from any forward state drops `k` events of the merge -/
theorem m2_offset_pos {n1 n2 j1 j2 c L} (hs1 : Sorted j1) (hs2 : Sorted j2) (k : Nat) (h : Rem2 n1 n2 j1 j2 c L) :
    Rem2 n1 n2 j1 j2 (offset c (k : Int)) (L.drop k) := by
  cases k with
  | zero => simpa [offset] using h
  | succ k =>
    have h1 : ((((k + 1 : Nat) : Int)) == 0) = false := by
      simp only [beq_eq_false_iff_ne, ne_eq]; omega
    have h2 : ¬ (((k + 1 : Nat) : Int)) < 0 := by omega
    obtain ⟨_, g2⟩ := m2_get_rem HG HN hs1 hs2 h
    have : offset c ((k + 1 : Nat) : Int) = (offsetSteps (k + 1) (curGet c).1 none).1 := by
      rw [offset, h1]
      simp only [Bool.false_eq_true, if_false, h2]
      have : (((k + 1 : Nat) : Int)).natAbs = k + 1 := Int.natAbs_natCast _
      simp only [this]
    rw [this]; exact m2_steps HG HN hs1 hs2 (k + 1) _ _ none g2

theorem m2_head_plus_k (n1 n2 : Nat) (j1 j2 : Journal) (k n : Nat) (hs1 : Sorted j1) (hs2 : Sorted j2) :
    readN n (offset (applyCorner (mk2 n1 n2 j1 j2) false) (k : Int)) =
      ((List.merge (flat j1) (flat j2) leTs).drop k).take n := by
  have h0 : Rem2 n1 n2 j1 j2 (applyCorner (mk2 n1 n2 j1 j2) false) (List.merge (flat j1) (flat j2) leTs) :=
    ⟨0, 0, m2_head_abs n1 n2 j1 j2, by simp [R2]⟩
  have h1 := m2_offset_pos HG HN hs1 hs2 k h0
  have := (m2_readLoop HG HN hs1 hs2 n _ _ [] h1).1
  simpa [readN] using this

end off2
end Logrange.Rd
