import Logrange.Model.PartHist
import Logrange.Proofs.RebuildHist
import Logrange.Proofs.WriteLoopHull
import Logrange.Proofs.PartScan
/-!
# C02 — a partition's chunk index over a history of `Service.Write` calls: every chunk has complete windows

For every history of `Write` calls (`PartHist.runCalls`) whose records are monotone non-decreasing in stored order,
every chunk of the resulting partition satisfies `RebuildHist.SoundL` w.r.t. its own records — although the hull a call
reports after rolling over into a new chunk is the hull of the WHOLE call so far (`RebuildHist.RollHull`: over-wide
minimum on a chunk's first notification). Hence every chunk's selector window is complete and the ranged read of the
whole partition equals the filtered full read.
-/
namespace Logrange.PartHist
open Logrange Logrange.Points Logrange.ChunkHist Logrange.RebuildHist Logrange.WriteLoop

/-- the timestamp function of a chunk holding the records `l` -/
def tsOfList (l : List Int) : Nat → Int := fun q => l.getD q 0

/-- all records of a partition in stored order -/
def flat (p : List PChunk) : List Int := (p.map (·.tss)).flatten

/-- all records of the pieces of one call in stored order -/
def flatL (pieces : List Piece) : List Int := (pieces.map (·.l)).flatten

/-! ## 1. `tsOfList` and congruence of `SoundL` -/

theorem tsOfList_lt {l : List Int} {q : Nat} (h : q < l.length) : tsOfList l q = l[q] := by
  simp [tsOfList, h]

theorem tsOfList_mem {l : List Int} {q : Nat} (h : q < l.length) : tsOfList l q ∈ l := by
  rw [tsOfList_lt h]; exact List.getElem_mem h

theorem tsOfList_append_left (a l : List Int) {q : Nat} (h : q < a.length) : tsOfList (a ++ l) q = tsOfList a q := by
  simp [tsOfList, List.getElem?_append_left h]

theorem tsOfList_append_right (a l : List Int) (i : Nat) : tsOfList (a ++ l) (a.length + i) = tsOfList l i := by
  simp [tsOfList, List.getElem?_append_right]

/-- `SoundL` only talks about the positions `< c.n` -/
theorem soundL_congr {tsOf tsOf' : Nat → Int} {c : ChunkIdx} (hs : SoundL tsOf c)
    (he : ∀ q, q < c.n → tsOf q = tsOf' q) : SoundL tsOf' c := by
  refine ⟨hs.hullSome, ?_, ?_, ?_, hs.idxLe⟩
  · intro h hh
    obtain ⟨h1, h2⟩ := hs.hullOk h hh
    refine ⟨?_, h2⟩
    intro p hp
    rw [← he p hp]; exact h1 p hp
  · intro hc
    obtain ⟨h1, h2⟩ := hs.lookup hc
    constructor
    · intro p hp q hq hqn
      rw [← he q hqn]; exact h1 p hp q hq hqn
    · intro p hp q hq hqn
      rw [← he q hqn]; exact h2 p hp q hq hqn
  · intro hc p hp
    obtain ⟨q, hq, hle⟩ := hs.attained hc p hp
    exact ⟨q, hq, by rw [← he q hq]; exact hle⟩

/-! ## 3. the `iwrapper` of a call after the records `m` -/

theorem iw_default_flags : ({} : IW).sMin = false ∧ ({} : IW).sMax = false ∧ ({} : IW).seen = false := by
  refine ⟨?_, ?_, rfl⟩
  · show Generated.C02.iwrapperMinZeroSentinel = false; decide
  · show Generated.C02.iwrapperMaxZeroSentinel = false; decide

/-- a fresh `iwrapper` after the non-empty records `m` holds their exact hull -/
theorem iw_hull (m : List Int) (hm : m ≠ []) :
    (∀ x ∈ m, (m.foldl IW.see {}).minTs ≤ x ∧ x ≤ (m.foldl IW.see {}).maxTs) ∧
      (m.foldl IW.see {}).minTs ∈ m ∧ (m.foldl IW.see {}).maxTs ∈ m := by
  cases m with
  | nil => exact absurd rfl hm
  | cons t rest =>
    exact hull_exact_of_flags {} iw_default_flags.1 iw_default_flags.2.1 iw_default_flags.2.2 t rest

/-- on a sorted call the maximum is the last record … -/
theorem iw_max_sorted (m : List Int) (hm : m ≠ []) (hs : m.Pairwise (· ≤ ·)) :
    (m.foldl IW.see {}).maxTs = m.getLast hm := by
  obtain ⟨hb, _, hmax⟩ := iw_hull m hm
  have h1 := (hb _ (List.getLast_mem hm)).2
  have h2 : (m.foldl IW.see {}).maxTs ≤ m.getLast hm := by
    obtain ⟨i, hi, e⟩ := List.getElem_of_mem hmax
    rw [← e, List.getLast_eq_getElem]
    by_cases hlt : i < m.length - 1
    · exact (List.pairwise_iff_getElem.mp hs) i (m.length - 1) hi (by omega) hlt
    · have : i = m.length - 1 := by omega
      subst this; exact Int.le_refl _
  omega

/-- … and the minimum is the first one -/
theorem iw_min_sorted (m : List Int) (hm : m ≠ []) (hs : m.Pairwise (· ≤ ·)) :
    (m.foldl IW.see {}).minTs = m.head hm := by
  obtain ⟨hb, hmin, _⟩ := iw_hull m hm
  have h1 := (hb _ (List.head_mem hm)).1
  have h2 : m.head hm ≤ (m.foldl IW.see {}).minTs := by
    obtain ⟨i, hi, e⟩ := List.getElem_of_mem hmin
    rw [← e, ← List.getElem_zero (by omega : 0 < m.length)]
    by_cases hlt : 0 < i
    · exact (List.pairwise_iff_getElem.mp hs) 0 i (by omega) hi hlt
    · have : i = 0 := by omega
      subst this; exact Int.le_refl _
  omega

/-! ## 5. sorted records are `Monotone` -/

theorem monotone_of_sorted (m : List Int) (hs : m.Pairwise (· ≤ ·)) : Monotone (tsOfList m) m.length := by
  intro i j hij hj
  rw [tsOfList_lt (by omega : i < m.length), tsOfList_lt hj]
  by_cases hlt : i < j
  · exact (List.pairwise_iff_getElem.mp hs) i j (by omega) hj hlt
  · have : i = j := by omega
    subst this; exact Int.le_refl _

/-! ## 4. the notification of a piece carries a `RollHull` -/

/-- the piece `l` of a call whose earlier records are `pre`, appended to a chunk holding `base`: the call's running hull
is a `RollHull` for the piece — provided the chunk is new (`base = []`) or the piece is the first of its call -/
theorem rollHull_piece (pre base l : List Int) (hl : l ≠ []) (hs : (pre ++ l).Pairwise (· ≤ ·))
    (hlow : ∀ t ∈ pre ++ l, minI64 ≤ t) (h3 : base = [] ∨ pre = []) :
    RollHull (tsOfList (base ++ l)) base.length l.length ((pre ++ l).foldl IW.see {}).minTs
      ((pre ++ l).foldl IW.see {}).maxTs := by
  have hne : pre ++ l ≠ [] := by simp [hl]
  obtain ⟨hb, hmin, hmax⟩ := iw_hull (pre ++ l) hne
  have hpos : 0 < l.length := List.length_pos_iff.mpr hl
  refine ⟨?_, ?_, ?_, hlow _ hmin⟩
  · intro q h1 h2
    have e : q = base.length + (q - base.length) := by omega
    rw [e, tsOfList_append_right]
    exact hb _ (List.mem_append_right _ (tsOfList_mem (by omega)))
  · rcases List.mem_append.mp hmax with hm | hm
    · -- the maximum stems from an earlier piece: every record of this piece equals it
      refine ⟨base.length, Nat.le_refl _, by omega, ?_⟩
      have e := tsOfList_append_right base l 0
      rw [Nat.add_zero] at e
      rw [e]
      have hin : tsOfList l 0 ∈ l := tsOfList_mem hpos
      have h1 := (hb _ (List.mem_append_right _ hin)).2
      have h2 := (List.pairwise_append.mp hs).2.2 _ hm _ hin
      omega
    · obtain ⟨i, hi, e⟩ := List.getElem_of_mem hm
      refine ⟨base.length + i, by omega, by omega, ?_⟩
      rw [tsOfList_append_right, tsOfList_lt hi, e]
  · rcases h3 with h | h
    · left; rw [h]; rfl
    · right
      rw [h, List.nil_append] at hmin
      obtain ⟨i, hi, e⟩ := List.getElem_of_mem hmin
      refine ⟨base.length + i, by omega, by omega, ?_⟩
      rw [tsOfList_append_right, tsOfList_lt hi, e, h, List.nil_append]

/-! ## 2./6. the invariant of a partition and its preservation by one piece -/

/-- the chunk's index state counts its records and is `SoundL` w.r.t. them -/
def ChunkInv (c : PChunk) : Prop := c.idx.n = c.tss.length ∧ SoundL (tsOfList c.tss) c.idx

def PartInv (p : List PChunk) : Prop := ∀ c ∈ p, ChunkInv c

theorem chunkInv_empty : ChunkInv {} := ⟨rfl, soundL_init _⟩

theorem flat_concat (front : List PChunk) (c : PChunk) : flat (front ++ [c]) = flat front ++ c.tss := by
  simp [flat]

/-- one notification of a chunk: the piece `l` of a call whose earlier records are `pre` -/
theorem chunk_step (sparse bigGap : Nat) (cur : PChunk) (pre l : List Int) (hc : ChunkInv cur) (hl : l ≠ [])
    (hs1 : (pre ++ l).Pairwise (· ≤ ·)) (hs2 : (cur.tss ++ l).Pairwise (· ≤ ·)) (hlow : ∀ t ∈ pre ++ l, minI64 ≤ t)
    (h3 : cur.tss = [] ∨ pre = []) :
    ChunkInv { idx := onWrite sparse bigGap cur.idx l.length ((pre ++ l).foldl IW.see {}).minTs
                 ((pre ++ l).foldl IW.see {}).maxTs, tss := cur.tss ++ l } := by
  obtain ⟨hn, hs⟩ := hc
  constructor
  · show (onWrite sparse bigGap cur.idx l.length _ _).n = (cur.tss ++ l).length
    rw [onWrite_n, hn, List.length_append]
  · show SoundL (tsOfList (cur.tss ++ l)) (onWrite sparse bigGap cur.idx l.length _ _)
    have hs' : SoundL (tsOfList (cur.tss ++ l)) cur.idx :=
      soundL_congr hs (fun q hq => (tsOfList_append_left _ _ (by omega)).symm)
    apply onWrite_preservesL sparse bigGap l.length _ _ hs' (List.length_pos_iff.mpr hl)
    · rw [hn, ← List.length_append]; exact monotone_of_sorted _ hs2
    · rw [hn]; exact rollHull_piece pre cur.tss l hl hs1 hlow h3

/-- **one piece preserves the invariant**: `pre` = the records of the call's earlier pieces (a suffix of the partition's
records), the partition's records followed by the piece are sorted and ≥ MinInt64, and a piece that continues the last
chunk is the first of its call -/
theorem applyPiece_inv (sparse bigGap : Nat) (p : List PChunk) (pre : List Int) (pc : Piece)
    (hinv : PartInv p) (hsuf : ∃ u, flat p = u ++ pre) (hl : pc.l ≠ [])
    (hs : (flat p ++ pc.l).Pairwise (· ≤ ·)) (hlow : ∀ t ∈ flat p ++ pc.l, minI64 ≤ t)
    (hnc : pc.newChunk = false → pre = [] ∧ p ≠ []) :
    PartInv (applyPiece sparse bigGap (p, pre.foldl IW.see {}) pc).1 ∧
      flat (applyPiece sparse bigGap (p, pre.foldl IW.see {}) pc).1 = flat p ++ pc.l ∧
      (applyPiece sparse bigGap (p, pre.foldl IW.see {}) pc).2 = (pre ++ pc.l).foldl IW.see {} := by
  obtain ⟨u, hu⟩ := hsuf
  have hs1 : (pre ++ pc.l).Pairwise (· ≤ ·) := by
    rw [hu, List.append_assoc] at hs
    exact (List.pairwise_append.mp hs).2.1
  have hlow1 : ∀ t ∈ pre ++ pc.l, minI64 ≤ t := by
    intro t ht
    apply hlow; rw [hu, List.append_assoc]; exact List.mem_append_right _ ht
  have hiw : pc.l.foldl IW.see (pre.foldl IW.see {}) = (pre ++ pc.l).foldl IW.see {} := List.foldl_append.symm
  cases hb : pc.newChunk with
  | true =>
    have hstep := chunk_step sparse bigGap {} pre pc.l chunkInv_empty hl hs1
      (by show ([] ++ pc.l).Pairwise (· ≤ ·); rw [List.nil_append]; exact (List.pairwise_append.mp hs).2.1) hlow1
      (Or.inl rfl)
    simp only [applyPiece, hb, hiw, if_true]
    refine ⟨?_, ?_, trivial⟩
    · intro c hc
      rcases List.mem_append.mp hc with h | h
      · exact hinv c h
      · rw [List.mem_singleton] at h; rw [h]; exact hstep
    · rw [flat_concat]; rfl
  | false =>
    obtain ⟨hpre, hp⟩ := hnc hb
    obtain ⟨front, cur, e⟩ : ∃ front cur, p = front ++ [cur] :=
      ⟨p.dropLast, p.getLast hp, (List.dropLast_concat_getLast hp).symm⟩
    subst e
    have hcur : ChunkInv cur := hinv cur (by simp)
    rw [flat_concat, List.append_assoc] at hs
    have hstep := chunk_step sparse bigGap cur pre pc.l hcur hl hs1 (List.pairwise_append.mp hs).2.1 hlow1 (Or.inr hpre)
    simp only [applyPiece, hb, hiw, List.dropLast_concat, List.getLast?_concat, Option.getD_some, Bool.false_eq_true,
      if_false]
    refine ⟨?_, ?_, trivial⟩
    · intro c hc
      rcases List.mem_append.mp hc with h | h
      · exact hinv c (List.mem_append_left _ h)
      · rw [List.mem_singleton] at h; rw [h]; exact hstep
    · rw [flat_concat, flat_concat, List.append_assoc]

/-! ## the pieces of one call, the calls of a history -/

theorem flatL_cons (pc : Piece) (rest : List Piece) : flatL (pc :: rest) = pc.l ++ flatL rest := by
  simp [flatL]

theorem allTs_cons (c : List Piece) (r : List (List Piece)) : allTs (c :: r) = flatL c ++ allTs r := by
  simp [allTs, flatL]

/-- the later pieces of a call (each opens a new chunk) -/
theorem pieces_inv (sparse bigGap : Nat) : ∀ (pieces : List Piece) (p : List PChunk) (pre : List Int),
    PartInv p → (∃ u, flat p = u ++ pre) → (flat p ++ flatL pieces).Pairwise (· ≤ ·) →
    (∀ t ∈ flat p ++ flatL pieces, minI64 ≤ t) → (∀ q ∈ pieces, q.l ≠ [] ∧ q.newChunk = true) →
    PartInv (pieces.foldl (applyPiece sparse bigGap) (p, pre.foldl IW.see {})).1 ∧
      flat (pieces.foldl (applyPiece sparse bigGap) (p, pre.foldl IW.see {})).1 = flat p ++ flatL pieces := by
  intro pieces
  induction pieces with
  | nil => intro p pre hinv _ _ _ _; exact ⟨hinv, by simp [flatL]⟩
  | cons pc rest ih =>
    intro p pre hinv hsuf hs hlow hok
    rw [flatL_cons, ← List.append_assoc] at hs hlow
    obtain ⟨hl, hnew⟩ := hok pc List.mem_cons_self
    obtain ⟨h1, h2, h3⟩ := applyPiece_inv sparse bigGap p pre pc hinv hsuf hl (List.pairwise_append.mp hs).1
      (fun t ht => hlow t (List.mem_append_left _ ht)) (fun h => by rw [hnew] at h; exact Bool.noConfusion h)
    have e : applyPiece sparse bigGap (p, pre.foldl IW.see {}) pc =
        ((applyPiece sparse bigGap (p, pre.foldl IW.see {}) pc).1, (pre ++ pc.l).foldl IW.see {}) := Prod.ext rfl h3
    rw [List.foldl_cons, e]
    obtain ⟨u, hu⟩ := hsuf
    have := ih _ (pre ++ pc.l) h1 ⟨u, by rw [h2, hu, List.append_assoc]⟩ (by rw [h2]; exact hs) (by rw [h2]; exact hlow)
      (fun q hq => hok q (List.mem_cons_of_mem _ hq))
    refine ⟨this.1, ?_⟩
    rw [this.2, h2, flatL_cons, List.append_assoc]

/-- **one `Service.Write` call preserves the invariant** and stores its records in order behind the partition's -/
theorem writeCall_inv (sparse bigGap : Nat) (p : List PChunk) (pieces : List Piece) (hinv : PartInv p)
    (hs : (flat p ++ flatL pieces).Pairwise (· ≤ ·)) (hlow : ∀ t ∈ flat p ++ flatL pieces, minI64 ≤ t)
    (hok : CallOK p pieces) :
    PartInv (writeCall sparse bigGap p pieces) ∧ flat (writeCall sparse bigGap p pieces) = flat p ++ flatL pieces := by
  cases pieces with
  | nil => exact ⟨hinv, by simp [writeCall, flatL]⟩
  | cons pc rest =>
    obtain ⟨hl, hp, hrest⟩ := hok
    rw [flatL_cons, ← List.append_assoc] at hs hlow
    obtain ⟨h1, h2, h3⟩ := applyPiece_inv sparse bigGap p [] pc hinv ⟨flat p, by simp⟩ hl (List.pairwise_append.mp hs).1
      (fun t ht => hlow t (List.mem_append_left _ ht)) (fun h => ⟨rfl, hp h⟩)
    simp only [List.foldl_nil] at h1 h2 h3
    have e : applyPiece sparse bigGap (p, {}) pc =
        ((applyPiece sparse bigGap (p, {}) pc).1, ([] ++ pc.l).foldl IW.see {}) := Prod.ext rfl h3
    have := pieces_inv sparse bigGap rest _ ([] ++ pc.l) h1 ⟨flat p, by rw [h2, List.nil_append]⟩ (by rw [h2]; exact hs)
      (by rw [h2]; exact hlow) hrest
    unfold writeCall
    rw [List.foldl_cons, e]
    refine ⟨this.1, ?_⟩
    rw [this.2, h2, flatL_cons, List.append_assoc]

/-- every call of the history is `CallOK` w.r.t. the partition it is applied to -/
def CallsOK (sparse bigGap : Nat) : List PChunk → List (List Piece) → Prop
  | _, [] => True
  | p, c :: r => CallOK p c ∧ CallsOK sparse bigGap (writeCall sparse bigGap p c) r

theorem calls_inv (sparse bigGap : Nat) : ∀ (calls : List (List Piece)) (p : List PChunk), PartInv p →
    (flat p ++ allTs calls).Pairwise (· ≤ ·) → (∀ t ∈ flat p ++ allTs calls, minI64 ≤ t) →
    CallsOK sparse bigGap p calls →
    PartInv (calls.foldl (writeCall sparse bigGap) p) ∧
      flat (calls.foldl (writeCall sparse bigGap) p) = flat p ++ allTs calls := by
  intro calls
  induction calls with
  | nil => intro p hinv _ _ _; exact ⟨hinv, by simp [allTs]⟩
  | cons c r ih =>
    intro p hinv hs hlow hok
    rw [allTs_cons, ← List.append_assoc] at hs hlow
    obtain ⟨h1, h2⟩ := writeCall_inv sparse bigGap p c hinv (List.pairwise_append.mp hs).1
      (fun t ht => hlow t (List.mem_append_left _ ht)) hok.1
    have := ih _ h1 (by rw [h2]; exact hs) (by rw [h2]; exact hlow) hok.2
    rw [List.foldl_cons]
    refine ⟨this.1, ?_⟩
    rw [this.2, h2, allTs_cons, List.append_assoc]

/-- **the invariant after a monotone history** -/
theorem runCalls_inv (sparse bigGap : Nat) (calls : List (List Piece)) (hok : CallsOK sparse bigGap [] calls)
    (hsorted : (allTs calls).Pairwise (· ≤ ·)) (hlow : ∀ t ∈ allTs calls, minI64 ≤ t) :
    PartInv (runCalls sparse bigGap calls) :=
  (calls_inv sparse bigGap calls [] (fun c hc => by simp at hc) (by simpa [flat] using hsorted)
    (by simpa [flat] using hlow) hok).1

/-- **the records are stored in order and nothing is lost** -/
theorem allTs_eq (sparse bigGap : Nat) (calls : List (List Piece)) (hok : CallsOK sparse bigGap [] calls)
    (hsorted : (allTs calls).Pairwise (· ≤ ·)) (hlow : ∀ t ∈ allTs calls, minI64 ≤ t) :
    ((runCalls sparse bigGap calls).map (·.tss)).flatten = allTs calls := by
  have := (calls_inv sparse bigGap calls [] (fun c hc => by simp at hc) (by simpa [flat] using hsorted)
    (by simpa [flat] using hlow) hok).2
  simpa [flat, runCalls] using this

/-! ## 7. complete windows, the ranged read -/

/-- what the time index knows about a chunk of the partition (the selector's view) -/
def metaOf (c : PChunk) : PartScan.ChunkMeta :=
  { n := c.tss.length, hull := c.idx.hull.getD ⟨0, 0⟩, idx := idxOf c.idx }

/-- the timestamps of a partition: chunk `k`, position `q` -/
def partTs (p : List PChunk) : Nat → Nat → Int := fun k => tsOfList ((p.map (·.tss)).getD k [])

theorem windowComplete_of_chunkInv (c : PChunk) (hc : ChunkInv c) (hn : c.tss.length ≤ maxU32) :
    PartScan.WindowComplete (tsOfList c.tss) (metaOf c) := by
  obtain ⟨hlen, hs⟩ := hc
  intro r q hq hr
  have hq' : q < c.tss.length := hq
  obtain ⟨h, hh, hsound, hmin⟩ := hs.hull_pos (by omega)
  have ehull : (metaOf c).hull = h := by simp [metaOf, hh]
  rw [ehull]
  show inWindow (window h (idxOf c.idx) r) q
  apply window_complete_of_lookup (tsOf := tsOfList c.tss) (n := c.idx.n) h _ r hsound ?_ (by omega) hmin q (by omega) hr
  intro pts hpts
  unfold idxOf at hpts
  by_cases hcor : c.idx.corrupted = true
  · rw [if_pos hcor] at hpts; exact absurd hpts (by simp)
  · rw [if_neg hcor] at hpts
    have hcor' : c.idx.corrupted = false := by simpa using hcor
    simp only [Option.some.injEq] at hpts
    rw [← hpts]; exact hs.lookup hcor'

theorem allComplete_of_forall (ts : Nat → Nat → Int) : ∀ (cs : List PartScan.ChunkMeta) (k : Nat),
    (∀ (i : Nat) (h : i < cs.length), PartScan.WindowComplete (ts (k + i)) cs[i]) → PartScan.AllComplete ts cs k := by
  intro cs
  induction cs with
  | nil => intro k _; trivial
  | cons c rest ih =>
    intro k H
    refine ⟨H 0 (Nat.zero_lt_succ _), ih (k + 1) ?_⟩
    intro i h
    have := H (i + 1) (by simp; omega)
    have e : k + (i + 1) = k + 1 + i := by omega
    rw [e] at this
    simpa using this

theorem allComplete_of_partInv (p : List PChunk) (hinv : PartInv p) (hsize : ∀ c ∈ p, c.tss.length ≤ maxU32) :
    PartScan.AllComplete (partTs p) (p.map metaOf) 0 := by
  apply allComplete_of_forall
  intro i h
  have hi : i < p.length := by simpa using h
  have e1 : (p.map metaOf)[i] = metaOf p[i] := by simp
  have e2 : partTs p (0 + i) = tsOfList p[i].tss := by
    simp [partTs, hi]
  rw [e1, e2]
  exact windowComplete_of_chunkInv _ (hinv _ (List.getElem_mem hi)) (hsize _ (List.getElem_mem hi))

/-- **every chunk of the partition a monotone history of `Write` calls leaves has complete windows** -/
theorem runCalls_complete (sparse bigGap : Nat) (calls : List (List Piece)) (hok : CallsOK sparse bigGap [] calls)
    (hsorted : (allTs calls).Pairwise (· ≤ ·)) (hlow : ∀ t ∈ allTs calls, minI64 ≤ t)
    (hsize : ∀ c ∈ runCalls sparse bigGap calls, c.tss.length ≤ maxU32) :
    PartScan.AllComplete (fun k => tsOfList (((runCalls sparse bigGap calls).map (·.tss)).getD k []))
      ((runCalls sparse bigGap calls).map metaOf) 0 :=
  allComplete_of_partInv _ (runCalls_inv sparse bigGap calls hok hsorted hlow) hsize

/-- **the ranged read of the whole partition is the filter of its full read** -/
theorem range_eq_filter_calls (sparse bigGap : Nat) (calls : List (List Piece)) (hok : CallsOK sparse bigGap [] calls)
    (hsorted : (allTs calls).Pairwise (· ≤ ·)) (hlow : ∀ t ∈ allTs calls, minI64 ≤ t)
    (hsize : ∀ c ∈ runCalls sparse bigGap calls, c.tss.length ≤ maxU32) (r : TmRange) :
    PartScan.rangedRead (partTs (runCalls sparse bigGap calls)) ((runCalls sparse bigGap calls).map metaOf) r =
      (PartScan.fullPositions ((runCalls sparse bigGap calls).map metaOf) 0).filter
        (fun kp => decide (inRange r (partTs (runCalls sparse bigGap calls) kp.1 kp.2))) :=
  PartScan.partition_read_eq_filter _ _ r (runCalls_complete sparse bigGap calls hok hsorted hlow hsize)

/-- per chunk and position: a record whose timestamp lies in the asked range is inside its chunk's window -/
theorem runCalls_window (sparse bigGap : Nat) (calls : List (List Piece)) (hok : CallsOK sparse bigGap [] calls)
    (hsorted : (allTs calls).Pairwise (· ≤ ·)) (hlow : ∀ t ∈ allTs calls, minI64 ≤ t)
    (c : PChunk) (hc : c ∈ runCalls sparse bigGap calls) (hn : c.tss.length ≤ maxU32) (r : TmRange) (q : Nat)
    (hq : q < c.tss.length) (hr : inRange r (tsOfList c.tss q)) :
    inWindow (window (metaOf c).hull (metaOf c).idx r) q :=
  windowComplete_of_chunkInv c (runCalls_inv sparse bigGap calls hok hsorted hlow c hc) hn r q hq hr

/-! ## a syntactic sufficient condition for `CallsOK` -/

/-- a call is non-empty, its pieces are non-empty, only the first may continue the last chunk -/
def CallShape : List Piece → Prop
  | [] => False
  | pc :: rest => pc.l ≠ [] ∧ ∀ q ∈ rest, q.l ≠ [] ∧ q.newChunk = true

theorem applyPiece_ne_nil (sparse bigGap : Nat) (st : List PChunk × IW) (pc : Piece) :
    (applyPiece sparse bigGap st pc).1 ≠ [] := by
  simp [applyPiece]

theorem foldPieces_ne_nil (sparse bigGap : Nat) : ∀ (pieces : List Piece) (st : List PChunk × IW), st.1 ≠ [] →
    (pieces.foldl (applyPiece sparse bigGap) st).1 ≠ [] := by
  intro pieces
  induction pieces with
  | nil => intro st h; exact h
  | cons pc rest ih => intro st _; exact ih _ (applyPiece_ne_nil sparse bigGap st pc)

theorem writeCall_ne_nil (sparse bigGap : Nat) (p : List PChunk) (pieces : List Piece) (h : pieces ≠ []) :
    writeCall sparse bigGap p pieces ≠ [] := by
  cases pieces with
  | nil => exact absurd rfl h
  | cons pc rest => exact foldPieces_ne_nil sparse bigGap rest _ (applyPiece_ne_nil sparse bigGap _ pc)

/-- every call has the shape of a `Service.Write`, and the very first piece opens a chunk (or the partition is not
empty): then every call is `CallOK` w.r.t. the partition it meets -/
theorem callsOK_of_shape (sparse bigGap : Nat) : ∀ (calls : List (List Piece)) (p : List PChunk),
    (∀ c ∈ calls, CallShape c) → (p ≠ [] ∨ ∀ c ∈ calls.head?, ∀ pc ∈ c.head?, pc.newChunk = true) →
    CallsOK sparse bigGap p calls := by
  intro calls
  induction calls with
  | nil => intro _ _ _; trivial
  | cons c r ih =>
    intro p hshape hfirst
    have hc := hshape c List.mem_cons_self
    cases c with
    | nil => exact absurd hc (by simp [CallShape])
    | cons pc rest =>
      obtain ⟨hl, hrest⟩ := hc
      refine ⟨⟨hl, ?_, hrest⟩, ih _ (fun c' hc' => hshape c' (List.mem_cons_of_mem _ hc'))
        (Or.inl (writeCall_ne_nil sparse bigGap p _ (by simp)))⟩
      intro hnew
      rcases hfirst with h | h
      · exact h
      · have := h (pc :: rest) (by simp) pc (by simp)
        rw [hnew] at this
        exact Bool.noConfusion this

/-! ## 8. a small history with a roll-over -/

section Instances

/-- two calls, both roll over into a new chunk; the second continues the first's last chunk -/
def hist1 : List (List Piece) := [[⟨true, [1, 2, 3]⟩, ⟨true, [4, 5]⟩], [⟨false, [6]⟩, ⟨true, [7, 8]⟩]]

/-- the second chunk's hull is `(1, 6)`, the third's `(6, 8)`: over-wide minima (the hull of the whole call so far) -/
example : (runCalls 250 5000 hist1).map (fun c => (c.tss, c.idx.hull, c.idx.n)) =
    [([1, 2, 3], some ⟨1, 3⟩, 3), ([4, 5, 6], some ⟨1, 6⟩, 3), ([7, 8], some ⟨6, 8⟩, 2)] := by decide

example : CallsOK 250 5000 [] hist1 := by
  apply callsOK_of_shape
  · intro c hc
    simp [hist1] at hc
    rcases hc with h | h <;> subst h <;> simp [CallShape]
  · right; simp [hist1]

example : ((runCalls 250 5000 hist1).map (·.tss)).flatten = allTs hist1 := by decide

theorem hist1_ok : CallsOK 2 40 [] hist1 := by
  apply callsOK_of_shape
  · intro c hc
    simp [hist1] at hc
    rcases hc with h | h <;> subst h <;> simp [CallShape]
  · right; simp [hist1]

/-- with `sparseSpace = 2` the chunks get index points; the second chunk's first point carries the over-wide minimum -/
example : (runCalls 2 40 hist1).map (fun c => c.idx.pts) =
    [[⟨1, 0⟩, ⟨3, 2⟩], [⟨1, 0⟩, ⟨5, 1⟩], [⟨6, 0⟩, ⟨8, 1⟩]] := by decide

/-- the theorem on the instance, and the read it speaks about evaluated -/
example (r : TmRange) :
    PartScan.rangedRead (partTs (runCalls 2 40 hist1)) ((runCalls 2 40 hist1).map metaOf) r =
      (PartScan.fullPositions ((runCalls 2 40 hist1).map metaOf) 0).filter
        (fun kp => decide (inRange r (partTs (runCalls 2 40 hist1) kp.1 kp.2))) :=
  range_eq_filter_calls 2 40 hist1 hist1_ok (by decide) (by decide) (by decide) r

example : PartScan.rangedRead (partTs (runCalls 2 40 hist1)) ((runCalls 2 40 hist1).map metaOf) ⟨3, 6⟩ =
    [(0, 2), (1, 0), (1, 1), (1, 2)] := by decide

end Instances

end Logrange.PartHist
