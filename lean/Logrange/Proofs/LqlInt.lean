import Logrange.Proofs.LqlLex
/-!
# `strconv.ParseInt(fmt.Sprintf("%d", i), 0, 64) = i` for every int64 — the `intOK` hypothesis of `wfLql`, proved
-/
namespace Logrange.Lql

def dval (ds : Bytes) : Nat := ds.foldl (fun a c => a * 10 + (c.toNat - 48)) 0

theorem digit_byte (n : Nat) (h : n < 10) : isDigit (UInt8.ofNat (48 + n)) = true ∧ (UInt8.ofNat (48 + n)).toNat - 48 = n := by
  have : (UInt8.ofNat (48 + n)).toNat = 48 + n := by simp [UInt8.toNat_ofNat']; omega
  simp [isDigit, this]; omega

theorem dval_append (a : Bytes) (d : UInt8) : dval (a ++ [d]) = dval a * 10 + (d.toNat - 48) := by
  simp [dval, List.foldl_append]

/-- `natDigits` writes the decimal digits of `n` (most significant first, no leading zero unless `n = 0`) in front of `acc` -/
def dg (n : Nat) : UInt8 := UInt8.ofNat (48 + n)
theorem dg_spec (n : Nat) (h : n < 10) : isDigit (dg n) = true ∧ (dg n).toNat - 48 = n := digit_byte n h
theorem dg_48 (n : Nat) (h : n < 10) (e : dg n = 48) : n = 0 := by
  have := (dg_spec n h).2; rw [e] at this; simp at this; omega

theorem natDigits_lt (f n : Nat) (acc : Bytes) (h : n < 10) : natDigits (f + 1) n acc = dg n :: acc := by
  rw [natDigits]; exact if_pos h
theorem natDigits_ge (f n : Nat) (acc : Bytes) (h : ¬ n < 10) : natDigits (f + 1) n acc = natDigits f (n / 10) (dg (n % 10) :: acc) := by
  rw [natDigits]; exact if_neg h

/-- `natDigits` writes the decimal digits of `n` (most significant first, no leading zero unless `n = 0`) in front of `acc` -/
theorem natDigits_spec : ∀ (fuel n : Nat) (acc : Bytes), n < fuel →
    ∃ ds, natDigits fuel n acc = ds ++ acc ∧ ds ≠ [] ∧ (∀ d ∈ ds, isDigit d = true) ∧ dval ds = n
      ∧ (ds.head? = some 48 → ds = [48]) := by
  intro fuel
  induction fuel with
  | zero => intro n acc h; omega
  | succ f ih =>
    intro n acc h
    by_cases hn : n < 10
    · refine ⟨[dg n], by rw [natDigits_lt f n acc hn]; rfl, by simp, ?_, ?_, ?_⟩
      · intro d hd; rw [List.mem_singleton.mp hd]; exact (dg_spec n hn).1
      · show 0 * 10 + ((dg n).toNat - 48) = n
        rw [(dg_spec n hn).2]; omega
      · intro hh; have : dg n = 48 := by simpa using hh
        rw [this]
    · obtain ⟨ds, e, hne, hd, hv, hz⟩ := ih (n / 10) (dg (n % 10) :: acc) (by omega)
      have hm : n % 10 < 10 := Nat.mod_lt _ (by omega)
      refine ⟨ds ++ [dg (n % 10)], by rw [natDigits_ge f n acc hn, e]; simp, by simp, ?_, ?_, ?_⟩
      · intro d hd'
        rcases List.mem_append.mp hd' with h1 | h1
        · exact hd d h1
        · rw [List.mem_singleton.mp h1]; exact (dg_spec _ hm).1
      · rw [dval_append, hv, (dg_spec _ hm).2]; omega
      · intro hh
        cases ds with
        | nil => exact absurd rfl hne
        | cons x xs =>
          have hx : x = 48 := by simpa using hh
          have := hz (by simp [hx])
          rw [this] at hv
          have : dval [48] = 0 := by decide
          omega


theorem foldlM_digits (ds : Bytes) (h : ∀ d ∈ ds, isDigit d = true) (a : Nat) :
    ds.foldlM (fun a c => if isDigit c then some (a * 10 + (c.toNat - 48)) else none) a = some (ds.foldl (fun a c => a * 10 + (c.toNat - 48)) a) := by
  induction ds generalizing a with
  | nil => rfl
  | cons d r ih =>
    have hd := h d List.mem_cons_self
    simp only [List.foldlM_cons, hd, if_true, List.foldl_cons]
    exact ih (fun x hx => h x (List.mem_cons_of_mem _ hx)) _

theorem digitsVal_digits (ds : Bytes) (hne : ds ≠ []) (h : ∀ d ∈ ds, isDigit d = true) : digitsVal ds = some (dval ds) := by
  have : ds.isEmpty = false := by cases ds <;> simp_all
  simp only [digitsVal, this, Bool.false_eq_true, if_false]
  exact foldlM_digits ds h 0

/-- the unsigned part of `strconv.ParseInt(s, 0, 64)` on canonical decimal digits (no octal reading: no leading zero) -/
theorem parseInt0_nat (n : Nat) (hn : n < 2 ^ 63) : parseInt0 (decNat n) = some (n : Int) := by
  obtain ⟨ds, e, hne, hd, hv, hz⟩ := natDigits_spec (n + 1) n [] (by omega)
  have hds : decNat n = ds := by simp [decNat, e]
  cases hc : ds with
  | nil => exact absurd hc hne
  | cons c rest =>
    have hcd : isDigit c = true := hd c (by rw [hc]; exact List.mem_cons_self)
    have h45 : (c == 45) = false := by
      cases hx : c == 45 with
      | false => rfl
      | true => have : c = 45 := by simpa using hx
                subst this; exact absurd hcd (by decide)
    have h43 : (c == 43) = false := by
      cases hx : c == 43 with
      | false => rfl
      | true => have : c = 43 := by simpa using hx
                subst this; exact absurd hcd (by decide)
    have hoct : (c == 48 && !rest.isEmpty) = false := by
      cases hx : c == 48 with
      | false => rfl
      | true =>
        have : c = 48 := by simpa using hx
        have := hz (by rw [hc, this]; rfl)
        rw [hc] at this
        have : rest = [] := (by simpa using this : c = 48 ∧ rest = []).2
        simp [this]
    have hv' : digitsVal (c :: rest) = some n := by
      rw [← hc, digitsVal_digits ds hne hd, hv]
    rw [hds, hc]
    simp only [parseInt0, h45, h43, Bool.false_eq_true, if_false, List.isEmpty_cons, hoct, hv']
    have h1 : ¬ ((n : Int) < -(2 ^ 63)) := by omega
    have h2 : (n : Int) < 2 ^ 63 := by omega
    simp; omega


theorem decNat_digits (n : Nat) : ∃ c rest, decNat n = c :: rest ∧ isDigit c = true := by
  obtain ⟨ds, e, hne, hd, _, _⟩ := natDigits_spec (n + 1) n [] (by omega)
  have hds : decNat n = ds := by simp [decNat, e]
  cases hc : ds with
  | nil => exact absurd hc hne
  | cons c rest => exact ⟨c, rest, by rw [hds, hc], hd c (by rw [hc]; exact List.mem_cons_self)⟩

theorem parseInt0_neg (n : Nat) (h0 : 0 < n) (hn : n ≤ 2 ^ 63) : parseInt0 (45 :: decNat n) = some (-(n : Int)) := by
  obtain ⟨ds, e, hne, hd, hv, hz⟩ := natDigits_spec (n + 1) n [] (by omega)
  have hds : decNat n = ds := by simp [decNat, e]
  cases hc : ds with
  | nil => exact absurd hc hne
  | cons c rest =>
    have hoct : (c == 48 && !rest.isEmpty) = false := by
      cases hx : c == 48 with
      | false => rfl
      | true =>
        have : c = 48 := by simpa using hx
        have := hz (by rw [hc, this]; rfl)
        rw [hc] at this
        have : rest = [] := (by simpa using this : c = 48 ∧ rest = []).2
        simp [this]
    have hv' : digitsVal (c :: rest) = some n := by
      rw [← hc, digitsVal_digits ds hne hd, hv]
    rw [hds, hc]
    simp only [parseInt0, beq_self_eq_true, if_true, List.isEmpty_cons, Bool.false_eq_true, if_false, hoct, hv']
    simp; omega

/-- **every int64 is read back from its `%d` text by `strconv.ParseInt(s, 0, 64)`** (model `parseInt0`, `decInt`) -/
theorem parseInt0_decInt (i : Int) (h1 : -(2 ^ 63) ≤ i) (h2 : i < 2 ^ 63) : parseInt0 (decInt i) = some i := by
  by_cases hneg : i < 0
  · have := parseInt0_neg i.natAbs (by omega) (by omega)
    simp only [decInt, hneg, if_true]
    rw [this]; congr 1; omega
  · have := parseInt0_nat i.toNat (by omega)
    simp only [decInt, hneg, if_false]
    rw [this]; congr 1; omega

theorem numLead_class (c : UInt8) (h : isDigit c = true ∨ c = 45) :
    c ≠ 60 ∧ c ≠ 62 ∧ c ≠ 33 ∧ c ≠ 61 ∧ c ≠ 67 ∧ c ≠ 80 ∧ c ≠ 83 ∧ c ≠ 76 ∧ c ≠ 40 := by
  have := forall_byte (fun c => !(isDigit c || c == 45) || (c != 60 && c != 62 && c != 33 && c != 61 && c != 67 && c != 80 && c != 83 && c != 76 && c != 40))
    (by decide +kernel) c
  have hh : (isDigit c || c == 45) = true := by rcases h with h | h <;> simp [h]
  simp only [hh, Bool.not_true, Bool.false_or, Bool.and_eq_true, bne_iff_ne, ne_eq] at this
  obtain ⟨⟨⟨⟨⟨⟨⟨⟨a1, a2⟩, a3⟩, a4⟩, a5⟩, a6⟩, a7⟩, a8⟩, a9⟩ := this
  exact ⟨a1, a2, a3, a4, a5, a6, a7, a8, a9⟩

theorem decInt_head (i : Int) : ∃ c rest, decInt i = c :: rest ∧ (isDigit c = true ∨ c = 45) := by
  by_cases hneg : i < 0
  · exact ⟨45, decNat i.natAbs, by simp [decInt, hneg], Or.inr rfl⟩
  · obtain ⟨c, rest, e, hc⟩ := decNat_digits i.toNat
    exact ⟨c, rest, by simp [decInt, hneg, e], Or.inl hc⟩

/-- **`intOK` holds for every int64**: the decimal text is read back and is never mistaken for an operator or `(` -/
theorem intOK_all (i : Int) (h1 : -(2 ^ 63) ≤ i) (h2 : i < 2 ^ 63) : intOK i = true := by
  obtain ⟨c, rest, e, hc⟩ := decInt_head i
  obtain ⟨a1, a2, a3, a4, a5, a6, a7, a8, a9⟩ := numLead_class c hc
  simp only [intOK, parseInt0_decInt i h1 h2, beq_self_eq_true, Bool.true_and, Bool.and_eq_true, Bool.not_eq_true']
  rw [e]
  constructor
  · simp [isOpTok, condOps, litMatch, a1, a2, a3, a4, a5, a6, a7, a8]
  · simp [litMatch, LP, a9]

end Logrange.Lql
