import Logrange.Model.WritersLts
/-! # Invariant of the concurrent-writers LTS (`Model/WritersLts.lean`) -/
namespace Logrange.WritersLts

theorem readAll_cons (c : Chunk) (cs : List Chunk) : readAll (c :: cs) = c.recs ++ readAll cs := by simp [readAll]
theorem readAll_nil : readAll [] = [] := rfl
theorem byWriter_append (w : Nat) (a b : List TRec) : byWriter w (a ++ b) = byWriter w a ++ byWriter w b := by
  simp [byWriter]

/-- records of another writer appended to any chunk do not change what writer `v` sees in any suffix of the journal -/
theorem byWriter_drop_upd_other (v : Nat) (new : List TRec) (hn : byWriter v new = []) :
    ∀ (cs : List Chunk) (i k : Nat), byWriter v (readAll ((upd cs i new).drop k)) = byWriter v (readAll (cs.drop k)) := by
  intro cs
  induction cs with
  | nil => intro i k; simp [upd]
  | cons c cs ih =>
    intro i k
    cases i with
    | zero =>
      cases k with
      | zero => simp [upd, readAll_cons, byWriter_append, hn]
      | succ k => simp [upd]
    | succ i =>
      cases k with
      | zero =>
        have := ih i 0
        simp only [List.drop_zero] at this
        simp [upd, readAll_cons, byWriter_append, this]
      | succ k => simpa [upd] using ih i k

theorem readAll_drop_append_empty : ∀ (cs : List Chunk) (k : Nat),
    readAll ((cs ++ [({ recs := [], size := 0 } : Chunk)]).drop k) = readAll (cs.drop k) := by
  intro cs
  induction cs with
  | nil => intro k; cases k <;> simp [readAll]
  | cons c cs ih =>
    intro k
    cases k with
    | zero =>
      have := ih 0
      simp only [List.drop_zero] at this
      simp [readAll_cons, this]
    | succ k => simpa using ih k

theorem readAll_upd_self : ∀ (cs : List Chunk) (idx : Nat) (c : Chunk) (new : List TRec), cs[idx]? = some c →
    readAll (upd cs idx new) = readAll (cs.take (idx + 1)) ++ new ++ readAll (cs.drop (idx + 1)) := by
  intro cs
  induction cs with
  | nil => intro idx c new h; simp at h
  | cons d ds ih =>
    intro idx c new h
    cases idx with
    | zero => simp [upd, readAll_cons, readAll_nil]
    | succ i =>
      have h' : ds[i]? = some c := by simpa using h
      simp [upd, readAll_cons, ih i c new h', List.append_assoc]

theorem readAll_take_drop (cs : List Chunk) (k : Nat) : readAll cs = readAll (cs.take k) ++ readAll (cs.drop k) := by
  rw [readAll, readAll, readAll, ← List.flatMap_append, List.take_append_drop]

theorem byWriter_self (w : Nat) (l : List TRec) (h : ∀ r ∈ l, r.w = w) : byWriter w l = l := by
  simp only [byWriter, List.filter_eq_self]
  intro r hr; simp [h r hr]

theorem byWriter_other (v w : Nat) (l : List TRec) (h : ∀ r ∈ l, r.w = w) (hv : v ≠ w) : byWriter v l = [] := by
  simp only [byWriter, List.filter_eq_nil_iff]
  intro r hr; simp [h r hr]; exact fun e => hv e.symm

/-- the invariant, per writer -/
structure WInv (s : State) (v : Nat) : Prop where
  stored : byWriter v (readAll s.chunks) ++ (s.loc v).pending = (s.loc v).submitted.flatten
  own : ∀ r ∈ (s.loc v).pending, r.w = v
  idle : (s.loc v).active = false → (s.loc v).pending = []
  held : ∀ idx, (s.loc v).held = some idx → byWriter v (readAll (s.chunks.drop (idx + 1))) = []

def SInv (s : State) : Prop := ∀ v, WInv s v

theorem init_inv : SInv {} := by
  intro v
  exact ⟨by simp [readAll, byWriter], by simp, by simp, by simp⟩

theorem step_inv (maxSize : Nat) (s s' : State) (l : Label) (hi : SInv s) (hs : step maxSize s l = some s') : SInv s' := by
  cases l with
  | submit w batch =>
    simp only [step] at hs
    split at hs
    · simp at hs
    · rename_i hact
      simp only [Option.some.injEq] at hs
      subst hs
      intro v
      by_cases hv : v = w
      · subst hv
        have hp := (hi v).idle (by simpa using hact)
        have hst := (hi v).stored
        rw [hp, List.append_nil] at hst
        refine ⟨?_, ?_, ?_, ?_⟩
        · simp [setLoc, hst]
        · simp [setLoc]
        · simp [setLoc]
        · simp [setLoc]
      · have h := hi v
        exact ⟨by simpa [setLoc, hv] using h.stored, by simpa [setLoc, hv] using h.own,
          by simpa [setLoc, hv] using h.idle, by simpa [setLoc, hv] using h.held⟩
  | getChunk w =>
    simp only [step] at hs
    split at hs
    · simp at hs
    · split at hs
      · simp only [Option.some.injEq] at hs
        subst hs
        intro v
        have h := hi v
        have e0 := readAll_drop_append_empty s.chunks 0
        simp only [List.drop_zero] at e0
        by_cases hv : v = w
        · subst hv
          refine ⟨by simpa [setLoc, e0] using h.stored, by simpa [setLoc] using h.own, by simpa [setLoc] using h.idle, ?_⟩
          intro idx hidx
          simp only [setLoc, ↓reduceIte, Option.some.injEq] at hidx
          subst hidx
          simp [readAll, byWriter]
        · refine ⟨by simpa [setLoc, hv, e0] using h.stored, by simpa [setLoc, hv] using h.own,
            by simpa [setLoc, hv] using h.idle, ?_⟩
          intro idx hidx
          simp only [setLoc, hv, ↓reduceIte] at hidx
          simp only [readAll_drop_append_empty]
          exact h.held idx hidx
      · simp only [Option.some.injEq] at hs
        subst hs
        intro v
        have h := hi v
        by_cases hv : v = w
        · subst hv
          refine ⟨by simpa [setLoc] using h.stored, by simpa [setLoc] using h.own, by simpa [setLoc] using h.idle, ?_⟩
          intro idx hidx
          simp only [setLoc, ↓reduceIte, Option.some.injEq] at hidx
          subst hidx
          have : s.chunks.length - 1 + 1 ≥ s.chunks.length := by omega
          simp [List.drop_eq_nil_of_le this, readAll, byWriter]
        · exact ⟨by simpa [setLoc, hv] using h.stored, by simpa [setLoc, hv] using h.own,
            by simpa [setLoc, hv] using h.idle, by simpa [setLoc, hv] using h.held⟩
  | chunkWrite w =>
    simp only [step] at hs
    split at hs
    · simp at hs
    · rename_i idx hheld
      split at hs
      · simp at hs
      · rename_i c hc
        have hw := hi w
        -- what the write does to the stored sequence, for the writer and for everybody else
        have hnew_own : ∀ r ∈ (s.loc w).pending.take (taken maxSize c.size (s.loc w).pending), r.w = w :=
          fun r hr => hw.own r (List.mem_of_mem_take hr)
        have hself : byWriter w (readAll (upd s.chunks idx ((s.loc w).pending.take (taken maxSize c.size (s.loc w).pending))))
            = byWriter w (readAll s.chunks) ++ (s.loc w).pending.take (taken maxSize c.size (s.loc w).pending) := by
          rw [readAll_upd_self s.chunks idx c _ hc, byWriter_append, byWriter_append, hw.held idx hheld,
            byWriter_self w _ hnew_own, List.append_nil, readAll_take_drop s.chunks (idx + 1), byWriter_append,
            hw.held idx hheld, List.append_nil]
        have hother : ∀ v, v ≠ w → ∀ k, byWriter v (readAll ((upd s.chunks idx ((s.loc w).pending.take
            (taken maxSize c.size (s.loc w).pending))).drop k)) = byWriter v (readAll (s.chunks.drop k)) :=
          fun v hv k => byWriter_drop_upd_other v _ (byWriter_other v w _ hnew_own hv) s.chunks idx k
        have others : ∀ (l' : Local) (v : Nat), v ≠ w →
            WInv { chunks := upd s.chunks idx ((s.loc w).pending.take (taken maxSize c.size (s.loc w).pending)),
                   loc := setLoc s.loc w l' } v := by
          intro l' v hv
          have h := hi v
          have e0 := hother v hv 0
          simp only [List.drop_zero] at e0
          refine ⟨by simpa [setLoc, hv, e0] using h.stored, by simpa [setLoc, hv] using h.own,
            by simpa [setLoc, hv] using h.idle, ?_⟩
          intro i hidx
          simp only [setLoc, hv, ↓reduceIte] at hidx
          simp only [hother v hv]
          exact h.held i hidx
        split at hs
        · -- n > 0
          simp only [Option.some.injEq] at hs
          subst hs
          intro v
          by_cases hv : v = w
          · subst hv
            refine ⟨?_, ?_, ?_, ?_⟩
            · simp only [setLoc, ↓reduceIte, hself, List.append_assoc, List.take_append_drop]
              exact hw.stored
            · intro r hr
              simp only [setLoc, ↓reduceIte] at hr
              exact hw.own r (List.mem_of_mem_drop hr)
            · simp only [setLoc, ↓reduceIte]
              intro h; simpa using h
            · simp [setLoc]
          · exact others _ v hv
        · rename_i hn
          have hn0 : taken maxSize c.size (s.loc w).pending = 0 := by omega
          have hself0 : byWriter w (readAll (upd s.chunks idx [])) = byWriter w (readAll s.chunks) := by
            have := hself; rw [hn0] at this; simpa using this
          split at hs
          · simp only [Option.some.injEq] at hs
            subst hs
            intro v
            by_cases hv : v = w
            · subst hv
              refine ⟨?_, ?_, ?_, ?_⟩
              · simp only [setLoc, ↓reduceIte, hn0, List.take_zero, hself0]
                exact hw.stored
              · simpa [setLoc] using hw.own
              · simpa [setLoc] using hw.idle
              · simp [setLoc]
            · exact others _ v hv
          · rename_i hsz
            simp only [Option.some.injEq] at hs
            subst hs
            intro v
            by_cases hv : v = w
            · subst hv
              have hpend : (s.loc v).pending = [] := by
                cases hp : (s.loc v).pending with
                | nil => rfl
                | cons r rs => simp [hp, taken, hsz] at hn0
              refine ⟨?_, ?_, ?_, ?_⟩
              · simp only [setLoc, ↓reduceIte, hn0, List.take_zero, hself0]
                exact hw.stored
              · simpa [setLoc] using hw.own
              · simp [setLoc, hpend]
              · simp [setLoc]
            · exact others _ v hv

theorem run_inv (maxSize : Nat) : ∀ (sched : List Label) (s : State), SInv s → SInv (run maxSize s sched) := by
  intro sched
  induction sched with
  | nil => intro s h; exact h
  | cons l ls ih =>
    intro s h
    simp only [run]
    cases hs : step maxSize s l with
    | none => simpa using ih s h
    | some s' => simpa using ih s' (step_inv maxSize s s' l h hs)

end Logrange.WritersLts
