import Logrange.Proofs.Mixer
import Logrange.Proofs.MixerJournal
import Logrange.Proofs.RdRngFwd
import Logrange.Proofs.RdRngBwd
/-!
# The RANGED journal iterator is a lawful source of the mixer (C04/C09 on partitions read with RANGE)

`RSrc` is what `newCursor` makes of one partition when the query has a RANGE: `LogEventIterator{tags, it}` over
`partition.JIterator` (`Logrange.Rd.RIt`, `Model/RdSelector.lean`). Its stream (`view`) is the list of records the chunk
windows ADMIT (`wflat`), from the iterator's index on (forward) or at/before its position in reverse (backward); the range
re-check happens above the mixer tree, in the `fiterator`. `instLawfulRSrc` discharges C04's leaf contract `LawfulSource`
(read-only import of `Proofs/Mixer.lean`) from `rGetFwd`/`rNextFwd`/`rGetBwd`/`rNextBwd`/`rw_release_facts`, exactly as
`instLawfulJSrc` does for the library iterator.
-/
namespace Logrange.Mixer
open Logrange.Rd

/-- `LogEventIterator{tags, it}` over a `partition.JIterator` on journal `j` (chunk values carry their windows) -/
structure RSrc where
  tags : Nat
  j : Journal
  it : Rd.RIt := {}

instance : Inhabited RSrc := ⟨⟨0, [], {}⟩⟩

namespace RSrc

def ev (s : RSrc) (r : Rd.Rec) : Ev := ⟨r.ts, r.lbl, s.tags⟩

def get (s : RSrc) : RSrc × Option Ev := ({ s with it := (Rd.rGet s.j s.it).1 }, (Rd.rGet s.j s.it).2.map s.ev)
def next (s : RSrc) : RSrc := { s with it := Rd.rNext s.j s.it }
def release (s : RSrc) : RSrc := { s with it := Rd.rRelease s.it }
def setBackward (bk : Bool) (s : RSrc) : RSrc := { s with it := Rd.rSetBackward s.it bk }

instance : Source RSrc := ⟨get, next, release, setBackward⟩

/-- everything the windows of the partition admit, in stored order, as events under its tag line -/
def all (s : RSrc) : List Ev := (wflat s.j).map s.ev

def view (s : RSrc) : List Ev :=
  if s.it.bkwd then (((wflat s.j).take (wbCount s.j s.it)).reverse).map s.ev
  else ((wflat s.j).drop (wIdx s.j s.it)).map s.ev

def wf (s : RSrc) : Prop := Sorted s.j ∧ PosIds s.j ∧ bw_ChunkBound s.j ∧ RWF s.j s.it

theorem view_of (s : RSrc) (it' : Rd.RIt) :
    ({ s with it := it' } : RSrc).view =
      if it'.bkwd then (((wflat s.j).take (wbCount s.j it')).reverse).map s.ev
      else ((wflat s.j).drop (wIdx s.j it')).map s.ev := rfl

theorem get_spec (s : RSrc) (h : s.wf) :
    s.get.2 = s.view.head? ∧ s.get.1.view = s.view ∧ s.get.1.wf ∧ s.get.1.it.bkwd = s.it.bkwd := by
  obtain ⟨hs, hp, hb, hw⟩ := h
  simp only [get, view_of]
  cases hbk : s.it.bkwd
  · obtain ⟨g1, g2, g3, g4, _⟩ := rGetFwd s.j s.it hs hw hbk
    refine ⟨?_, ?_, ⟨hs, hp, hb, g2⟩, g3⟩
    · simp only [view, hbk, Bool.false_eq_true, if_false, List.head?_map, List.head?_drop, g1]
    · simp only [view, hbk, g3, Bool.false_eq_true, if_false, g4]
  · obtain ⟨g1, g2, g3, g4, _⟩ := rGetBwd s.j s.it hs hp hb hw hbk
    refine ⟨?_, ?_, ⟨hs, hp, hb, g2⟩, g3⟩
    · simp only [view, hbk, if_true, List.head?_map, g1]
      have hle := rw_wbCount_le s.j s.it
      cases hc : wbCount s.j s.it with
      | zero => simp
      | succ k =>
        rw [hc] at hle
        rw [JSrc.head_rev_take _ k (by omega)]
        simp
    · simp only [view, hbk, g3, if_true, g4]

theorem next_spec (s : RSrc) (h : s.wf) :
    s.next.view = s.view.tail ∧ s.next.wf ∧ s.next.it.bkwd = s.it.bkwd := by
  obtain ⟨hs, hp, hb, hw⟩ := h
  simp only [next, view_of]
  cases hbk : s.it.bkwd
  · obtain ⟨n1, n2, _, n4⟩ := rNextFwd s.j s.it hs hw hbk
    refine ⟨?_, ⟨hs, hp, hb, n1⟩, n2⟩
    simp only [view, hbk, n2, Bool.false_eq_true, if_false, n4, ← List.map_tail, List.tail_drop]
    congr 1
    by_cases hlt : wIdx s.j s.it + 1 ≤ (wflat s.j).length
    · rw [Nat.min_eq_left hlt]
    · rw [Nat.min_eq_right (by omega), List.drop_eq_nil_of_le (Nat.le_refl _), List.drop_eq_nil_of_le (by omega)]
  · obtain ⟨n1, n2, n3⟩ := rNextBwd s.j s.it hs hp hb hw hbk
    refine ⟨?_, ⟨hs, hp, hb, n1⟩, n2⟩
    simp only [view, hbk, n2, if_true, n3, ← List.map_tail]
    congr 1
    have hle := rw_wbCount_le s.j s.it
    cases hc : wbCount s.j s.it with
    | zero => simp
    | succ k =>
      rw [hc] at hle
      rw [JSrc.tail_rev_take _ k (by omega)]
      simp

theorem release_spec (s : RSrc) (h : s.wf) :
    s.release.view = s.view ∧ s.release.wf ∧ s.release.it.bkwd = s.it.bkwd := by
  obtain ⟨hs, hp, hb, hw⟩ := h
  obtain ⟨r1, r2, r3, _, _, r6⟩ := rw_release_facts s.j s.it
  simp only [release, view_of]
  refine ⟨?_, ⟨hs, hp, hb, r1 hw⟩, r3⟩
  simp only [view, r3, wIdx, r2, r6]

/-- **the ranged journal iterator under `LogEventIterator` meets the mixer's leaf contract** -/
instance instLawfulRSrc : LawfulSource RSrc where
  view := view
  dir s := s.it.bkwd
  wf := wf
  settled _ := True          -- `JIterator.Next` starts with a `Get` of its own
  get_spec s h := by
    obtain ⟨a, b, c, d⟩ := get_spec s h
    exact ⟨a, b, c, d, trivial⟩
  next_spec s h _ := next_spec s h
  release_spec s h := by
    obtain ⟨a, b, c⟩ := release_spec s h
    exact ⟨a, b, c, fun _ => trivial⟩
  setBackward_spec bk s h := ⟨⟨h.1, h.2.1, h.2.2.1, (rw_setBackward_facts s.j s.it bk).1 h.2.2.2⟩, rfl⟩

/-- a new cursor's ranged iterator ("head"): everything the windows admit is still to come -/
theorem view_head (tags : Nat) (j : Journal) : (⟨tags, j, {}⟩ : RSrc).view = (⟨tags, j, {}⟩ : RSrc).all := by
  simp [view, all, wIdx, rEffPos, Rd.RIt.pos, rw_wflatIdx_zero j]

/-- a ranged iterator placed behind every chunk (`tail`) and switched backward: all admitted records, newest first -/
theorem view_tail_backward (tags : Nat) (j : Journal) (cid idx : Nat) (h : ∀ c ∈ j, c.id < cid) :
    (setBackward true (⟨tags, j, { cid := cid, idx := idx }⟩ : RSrc)).view = (⟨tags, j, {}⟩ : RSrc).all.reverse := by
  have hb : wbCount j { cid := cid, idx := idx, bkwd := true } = (wflat j).length := by
    simp only [wbCount]
    apply wflatIdx_eq_len
    intro c hc
    simp only [wfiTerm, h c hc, if_true]
  simp only [setBackward, Rd.rSetBackward, view, all, hb, if_true, List.take_length, List.map_reverse]
  rfl

end RSrc
end Logrange.Mixer
