import Logrange.Model.PartScan
import Logrange.Model.RangedIter
import Logrange.Proofs.Points
/-! The forward scan of the selector/iterator over a journal delivers, chunk by chunk, exactly the positions inside each
chunk's window (`scanAll_eq`); with complete windows the range-filtered scan of a partition is the filter of its full
read (`partition_read_eq_filter`). -/
namespace Logrange.PartScan
open Logrange Selector Points

theorem filter_range_interval (a b : Nat) : ∀ n : Nat,
    (List.range n).filter (fun p => decide (a ≤ p ∧ p ≤ b)) = List.range' a (min n (b + 1) - a) := by
  intro n
  induction n with
  | zero => simp
  | succ n ih =>
    rw [List.range_succ, List.filter_append, ih]
    by_cases h : a ≤ n ∧ n ≤ b
    · have e1 : min (n + 1) (b + 1) - a = (min n (b + 1) - a) + 1 := by omega
      have e2 : a + (min n (b + 1) - a) = n := by omega
      rw [e1, List.range'_concat]
      simp [h, e2]
    · have e1 : min (n + 1) (b + 1) - a = min n (b + 1) - a := by omega
      rw [e1]
      simp [h]

theorem windowPositions_eq (st : ChkSt) :
    windowPositions st = List.range' st.minPos (min st.count (st.maxPos + 1) - st.minPos) := by
  unfold windowPositions
  exact filter_range_interval st.minPos st.maxPos st.count

/-- inside an opened chunk the iterator delivers the consecutive positions up to the end of the window / of the chunk -/
theorem scanFrom_eq (st : ChkSt) : ∀ (fuel pos : Nat), st.minPos ≤ pos → pos ≤ st.maxPos → st.count - pos ≤ fuel →
    scanFrom st fuel pos = List.range' pos (min st.count (st.maxPos + 1) - pos) := by
  intro fuel
  induction fuel with
  | zero =>
    intro pos _ _ hf
    have : min st.count (st.maxPos + 1) - pos = 0 := by omega
    simp [scanFrom, this]
  | succ fuel ih =>
    intro pos h1 h2 hf
    unfold scanFrom
    by_cases hc : pos < st.count
    · simp only [hc, if_true]
      by_cases hn : pos + 1 > st.maxPos
      · have hm : ¬ (pos + 1 < st.minPos) := by omega
        have e : min st.count (st.maxPos + 1) - pos = 1 := by omega
        simp [hn, e, List.range']
      · have hm : ¬ (pos + 1 < st.minPos) := by omega
        have e : min st.count (st.maxPos + 1) - pos = (min st.count (st.maxPos + 1) - (pos + 1)) + 1 := by omega
        rw [e, List.range'_succ]
        simp only [hm, hn, decide_false, Bool.or_self, Bool.false_eq_true, if_false]
        rw [ih (pos + 1) (by omega) (by omega) (by omega)]
    · have e : min st.count (st.maxPos + 1) - pos = 0 := by omega
      simp [hc, e]

/-- entering a chunk at index 0: either the chunk is refused and its window holds no position, or it is opened at
`minPos` and the scan delivers exactly the positions of the window -/
theorem checkAdvance_zero (st : ChkSt) :
    ((checkAdvance st 0).2 = false ∧ windowPositions st = []) ∨
    ((checkAdvance st 0).2 = true ∧ scanFrom st st.count (checkAdvance st 0).1 = windowPositions st) := by
  have hp : (if 0 < st.minPos then st.minPos else 0) = st.minPos := by
    by_cases h : 0 < st.minPos
    · simp [h]
    · simp [h]; omega
  by_cases hbad : st.minPos ≥ st.count ∨ st.minPos > st.maxPos
  · left
    constructor
    · simp only [checkAdvance, hp]
      rcases hbad with h | h
      · simp [h]
      · simp [h]
    · rw [windowPositions_eq]
      have : min st.count (st.maxPos + 1) - st.minPos = 0 := by omega
      simp [this]
  · right
    have h1 : ¬ st.minPos ≥ st.count := by omega
    have h2 : ¬ st.minPos > st.maxPos := by omega
    have hca : checkAdvance st 0 = (st.minPos, true) := by
      simp only [checkAdvance, hp]
      simp [h1, h2]
    rw [hca]
    refine ⟨rfl, ?_⟩
    rw [windowPositions_eq]
    exact scanFrom_eq st st.count st.minPos (Nat.le_refl _) (by omega) (by omega)

/-- **the scan as a fold over chunks**: `getPosForward`/`Get`/`Next`/`advanceChunk` deliver, chunk after chunk, the
positions inside each chunk's window -/
theorem scan_eq : ∀ (cs : List ChkSt) (fuel k : Nat), cs.length + 1 ≤ fuel → scan fuel cs 0 k = journalPositions cs k := by
  intro cs
  induction cs with
  | nil =>
    intro fuel k hf
    cases fuel with
    | zero => omega
    | succ f => simp [scan, getPosForward, journalPositions]
  | cons st rest ih =>
    intro fuel k hf
    cases fuel with
    | zero => omega
    | succ f =>
      rcases checkAdvance_zero st with ⟨hb, hw⟩ | ⟨hb, hw⟩
      · -- refused: getPosForward continues with the next chunk at index 0
        have hg : getPosForward (st :: rest) 0 k = getPosForward rest 0 (k + 1) := by
          simp only [getPosForward]
          cases hca : checkAdvance st 0 with
          | mk np ok =>
            rw [hca] at hb
            simp at hb
            subst hb
            rfl
        have hs : scan (f + 1) (st :: rest) 0 k = scan (f + 1) rest 0 (k + 1) := by
          simp only [scan, hg]
        rw [hs, ih (f + 1) (k + 1) (by simp at hf; omega)]
        simp [journalPositions, hw]
      · have hg : getPosForward (st :: rest) 0 k = some (k, (checkAdvance st 0).1, st, rest) := by
          simp only [getPosForward]
          cases hca : checkAdvance st 0 with
          | mk np ok =>
            rw [hca] at hb
            simp at hb
            subst hb
            rfl
        simp only [scan, hg, journalPositions]
        rw [hw, ih f (k + 1) (by simp at hf; omega)]

theorem scanAll_eq (cs : List ChkSt) : scanAll cs = journalPositions cs 0 :=
  scan_eq cs (cs.length + 1) 0 (Nat.le_refl _)

/-! ## partitions -/

/-- what the time index knows about one chunk -/
structure ChunkMeta where
  n : Nat
  hull : Hull
  idx : Option (List Pt)

/-- the status `updatePoss` gives the chunk for the range `r` -/
def statusOf (r : TmRange) (c : ChunkMeta) : ChkSt :=
  { minPos := (window c.hull c.idx r).1, maxPos := (window c.hull c.idx r).2, count := c.n }

/-- the window of every range contains every in-range position of the chunk -/
def WindowComplete (tsOf : Nat → Int) (c : ChunkMeta) : Prop :=
  ∀ (r : TmRange) (p : Nat), p < c.n → inRange r (tsOf p) → inWindow (window c.hull c.idx r) p

/-- all chunks of a partition (`ts k` = timestamps of chunk `k`) have complete windows -/
def AllComplete (ts : Nat → Nat → Int) : List ChunkMeta → Nat → Prop
  | [], _ => True
  | c :: rest, k => WindowComplete (ts k) c ∧ AllComplete ts rest (k + 1)

/-- the unbounded read: every position of every chunk in order -/
def fullPositions : List ChunkMeta → Nat → List (Nat × Nat)
  | [], _ => []
  | c :: rest, k => (List.range c.n).map (fun p => (k, p)) ++ fullPositions rest (k + 1)

/-- the ranged read of a partition: the selector/iterator scan under the statuses of `r`, then `fiterator`'s re-check -/
def rangedRead (ts : Nat → Nat → Int) (cs : List ChunkMeta) (r : TmRange) : List (Nat × Nat) :=
  (scanAll (cs.map (statusOf r))).filter (fun kp => RangedIter.fitInRange r.minTs r.maxTs (ts kp.1 kp.2))

theorem chunk_eq_of_complete {tsOf : Nat → Int} (c : ChunkMeta) (r : TmRange) (hw : WindowComplete tsOf c) :
    (windowPositions (statusOf r c)).filter (fun p => RangedIter.fitInRange r.minTs r.maxTs (tsOf p)) =
      (List.range c.n).filter (fun p => decide (inRange r (tsOf p))) := by
  have h1 : Generated.C02.fitLowerInclusive = true := by decide
  have h2 : Generated.C02.fitUpperInclusive = true := by decide
  unfold windowPositions statusOf
  simp only []
  rw [List.filter_filter]
  apply List.filter_congr
  intro p hp
  have hpn : p < c.n := by simpa using hp
  by_cases hr : inRange r (tsOf p)
  · have := hw r p hpn hr
    unfold inWindow at this
    have hr' := hr
    unfold inRange at hr'
    simp [RangedIter.fitInRange, h1, h2, this.1, this.2, hr, hr'.1, hr'.2]
  · have hr' := hr
    unfold inRange at hr'
    simp only [RangedIter.fitInRange, h1, h2, if_true, hr, decide_false]
    by_cases a : r.minTs ≤ tsOf p <;> by_cases b : tsOf p ≤ r.maxTs <;> simp [a, b] <;> omega

theorem journal_filter_eq (ts : Nat → Nat → Int) (r : TmRange) : ∀ (cs : List ChunkMeta) (k : Nat), AllComplete ts cs k →
    (journalPositions (cs.map (statusOf r)) k).filter (fun kp => RangedIter.fitInRange r.minTs r.maxTs (ts kp.1 kp.2)) =
      (fullPositions cs k).filter (fun kp => decide (inRange r (ts kp.1 kp.2))) := by
  intro cs
  induction cs with
  | nil => intro k _; simp [journalPositions, fullPositions]
  | cons c rest ih =>
    intro k hall
    simp only [List.map_cons, journalPositions, fullPositions, List.filter_append]
    rw [ih (k + 1) hall.2]
    congr 1
    rw [List.filter_map, List.filter_map]
    congr 1
    exact chunk_eq_of_complete (tsOf := ts k) c r hall.1

/-- **partition_read_eq_filter**: for a journal whose chunks all have complete windows, the ranged read over the whole
partition — selector stepping chunk by chunk, then the range re-check — is exactly the filter of the unbounded read. -/
theorem partition_read_eq_filter (ts : Nat → Nat → Int) (cs : List ChunkMeta) (r : TmRange) (hall : AllComplete ts cs 0) :
    rangedRead ts cs r = (fullPositions cs 0).filter (fun kp => decide (inRange r (ts kp.1 kp.2))) := by
  unfold rangedRead
  rw [scanAll_eq]
  exact journal_filter_eq ts r cs 0 hall

/-! ## a reader that starts inside a window (paging: a cursor re-created at the position the previous page ended with) -/

/-- the positions of a chunk's window at or behind `pIdx` -/
theorem windowFrom_eq (st : ChkSt) (pIdx : Nat) :
    (windowPositions st).filter (fun p => decide (pIdx ≤ p)) =
      List.range' (max st.minPos pIdx) (min st.count (st.maxPos + 1) - max st.minPos pIdx) := by
  unfold windowPositions
  rw [List.filter_filter, ← filter_range_interval (max st.minPos pIdx) st.maxPos st.count]
  apply List.filter_congr
  intro p _
  by_cases h1 : pIdx ≤ p <;> by_cases h2 : st.minPos ≤ p <;> by_cases h3 : p ≤ st.maxPos <;> simp [h1, h2, h3] <;> omega

/-- entering a chunk at ANY index `pIdx` (a cursor re-created at the position a page ended with): either the chunk is
refused and its window holds no position at or behind `pIdx`, or it is opened and the scan delivers exactly those -/
theorem checkAdvance_mid (st : ChkSt) (pIdx : Nat) :
    ((checkAdvance st pIdx).2 = false ∧ (windowPositions st).filter (fun p => decide (pIdx ≤ p)) = []) ∨
    ((checkAdvance st pIdx).2 = true ∧
      scanFrom st st.count (checkAdvance st pIdx).1 = (windowPositions st).filter (fun p => decide (pIdx ≤ p))) := by
  have hp : (if pIdx < st.minPos then st.minPos else pIdx) = max st.minPos pIdx := by
    by_cases h : pIdx < st.minPos
    · simp [h]; omega
    · simp [h]; omega
  rw [windowFrom_eq]
  by_cases hbad : max st.minPos pIdx ≥ st.count ∨ max st.minPos pIdx > st.maxPos
  · left
    constructor
    · simp only [checkAdvance, hp]
      rcases hbad with h | h
      · simp [h]
      · simp [h]
    · have : min st.count (st.maxPos + 1) - max st.minPos pIdx = 0 := by omega
      simp [this]
  · right
    have h1 : ¬ max st.minPos pIdx ≥ st.count := by omega
    have h2 : ¬ max st.minPos pIdx > st.maxPos := by omega
    have hca : checkAdvance st pIdx = (max st.minPos pIdx, true) := by
      simp only [checkAdvance, hp]
      simp [h1, h2]
    rw [hca]
    refine ⟨rfl, ?_⟩
    exact scanFrom_eq st st.count (max st.minPos pIdx) (by omega) (by omega) (by omega)

/-- **a reader that starts inside a chunk**: from `(chunk k, index pIdx)` the scan delivers the positions of that chunk's
window at or behind `pIdx`, then the windows of the chunks that follow -/
theorem scan_mid_eq (st : ChkSt) (rest : List ChkSt) (pIdx fuel k : Nat) (hf : rest.length + 2 ≤ fuel) :
    scan fuel (st :: rest) pIdx k =
      ((windowPositions st).filter (fun p => decide (pIdx ≤ p))).map (fun p => (k, p)) ++ journalPositions rest (k + 1) := by
  cases fuel with
  | zero => omega
  | succ f =>
    rcases checkAdvance_mid st pIdx with ⟨hb, hw⟩ | ⟨hb, hw⟩
    · have hg : getPosForward (st :: rest) pIdx k = getPosForward rest 0 (k + 1) := by
        simp only [getPosForward]
        cases hca : checkAdvance st pIdx with
        | mk np ok =>
          rw [hca] at hb
          simp at hb
          subst hb
          rfl
      have hs : scan (f + 1) (st :: rest) pIdx k = scan (f + 1) rest 0 (k + 1) := by
        simp only [scan, hg]
      rw [hs, scan_eq rest (f + 1) (k + 1) (by omega), hw]
      simp
    · have hg : getPosForward (st :: rest) pIdx k = some (k, (checkAdvance st pIdx).1, st, rest) := by
        simp only [getPosForward]
        cases hca : checkAdvance st pIdx with
        | mk np ok =>
          rw [hca] at hb
          simp at hb
          subst hb
          rfl
      simp only [scan, hg]
      rw [hw, scan_eq rest f (k + 1) (by omega)]

/-- the positions of a journal at or behind `(k, pIdx)` (first chunk of the list = chunk `k`) -/
def fullFrom : List ChunkMeta → Nat → Nat → List (Nat × Nat)
  | [], _, _ => []
  | c :: rest, pIdx, k => ((List.range c.n).filter (fun p => decide (pIdx ≤ p))).map (fun p => (k, p)) ++ fullPositions rest (k + 1)

/-- **resume_read_eq_filter** — paging from a position inside a window: a ranged read that is resumed at `(k, pIdx)` (a
new cursor at the position the previous page ended with: `getPosForward` enters the chunk at `pIdx`, corrected to the
window) delivers exactly the in-range records at or behind that position — provided the windows are complete. -/
theorem resume_read_eq_filter (ts : Nat → Nat → Int) (c : ChunkMeta) (rest : List ChunkMeta) (r : TmRange) (pIdx k : Nat)
    (hall : AllComplete ts (c :: rest) k) :
    (scan (rest.length + 2) ((c :: rest).map (statusOf r)) pIdx k).filter
        (fun kp => RangedIter.fitInRange r.minTs r.maxTs (ts kp.1 kp.2)) =
      (fullFrom (c :: rest) pIdx k).filter (fun kp => decide (inRange r (ts kp.1 kp.2))) := by
  rw [List.map_cons, scan_mid_eq _ _ pIdx _ k (by simp)]
  simp only [fullFrom, List.filter_append]
  rw [journal_filter_eq ts r rest (k + 1) hall.2]
  congr 1
  rw [List.filter_map, List.filter_map]
  congr 1
  have := chunk_eq_of_complete (tsOf := ts k) c r hall.1
  have hL : ∀ (P : Nat → Bool) (L : List Nat) (Q : Nat × Nat → Bool),
      List.filter (Q ∘ fun p => (k, p)) (List.filter P L) = List.filter P (List.filter (fun p => Q (k, p)) L) := by
    intro P L Q
    rw [List.filter_filter, List.filter_filter]
    apply List.filter_congr
    intro p _
    simp [Bool.and_comm]
  rw [hL, hL, this]

/-! ## backward entry -/

/-- **backward reading enters a chunk at or behind every in-range record**: `getPosBackward` enters a chunk that is not the
wanted one at index MaxUint32, `checkPosOrReduce` pulls it down to `min maxPos (count − 1)`; when the window contains a
position `q` of the chunk (what `chunk_window_sound` gives for every in-range `q`), the chunk is accepted and the entry
position is `≥ q` and inside the window — nothing in range lies behind the point where the backward reader starts, and
`Next` (which leaves the chunk below `minPos`) cannot leave before `q`. For the wanted chunk itself (`pIdx` = the position
a page ended with) the entry is `min pIdx (min maxPos (count − 1))`. -/
theorem checkReduce_covers (st : ChkSt) (pIdx q : Nat) (h1 : st.minPos ≤ q) (h2 : q ≤ st.maxPos) (h3 : q < st.count)
    (hc : st.count ≤ 4294967296) :
    checkReduce st pIdx = (min pIdx (min st.maxPos (st.count - 1)), decide (st.minPos ≤ min pIdx (min st.maxPos (st.count - 1)))) ∧
      (q ≤ pIdx → (checkReduce st pIdx).2 = true ∧ q ≤ (checkReduce st pIdx).1 ∧ (checkReduce st pIdx).1 ≤ st.maxPos) := by
  have hw : (st.count + 4294967296 - 1) % 4294967296 = st.count - 1 := by omega
  have e : checkReduce st pIdx = (min pIdx (min st.maxPos (st.count - 1)), decide (st.minPos ≤ min pIdx (min st.maxPos (st.count - 1)))) := by
    unfold checkReduce
    simp only [hw]
    by_cases a : pIdx > st.maxPos
    · by_cases b : st.maxPos ≥ st.count
      · have : min pIdx (min st.maxPos (st.count - 1)) = st.count - 1 := by omega
        simp [a, b, this]; omega
      · have : min pIdx (min st.maxPos (st.count - 1)) = st.maxPos := by omega
        simp [a, b, this]; omega
    · by_cases b : pIdx ≥ st.count
      · have : min pIdx (min st.maxPos (st.count - 1)) = st.count - 1 := by omega
        simp [a, b, this]; omega
      · have : min pIdx (min st.maxPos (st.count - 1)) = pIdx := by omega
        simp [a, b, this]; omega
  refine ⟨e, ?_⟩
  intro hq
  rw [e]
  refine ⟨by simp; omega, by simp; omega, by simp; omega⟩

end Logrange.PartScan
