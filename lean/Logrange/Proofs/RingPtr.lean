import Logrange.Model.RingPtr
import Logrange.Model.Ring
/-!
# The pointer-level `CLElement` model refines the list-level ring model

`Logrange.RingPtr` (Model/RingPtr.lean) executes the field reads/writes of pkg/container/clist.go on a heap;
`Logrange.Ring` (Model/Ring.lean) describes a ring as the list of its elements, head first in `next` order.

Abstraction relation. `Seg h a l b` ("segment"): walking from `a` over the cells of `l` to `b`, every
step `u → v` is linked in **both** directions, `h.next u = v ∧ h.prev v = u`.
`Repr h (x :: xs) := (x :: xs).Nodup ∧ Seg h x xs x`: the list has no duplicates and the walk
`x → xs[0] → … → xs.last → x` closes the cycle — i.e. for `r = [x0,…,x(n-1)]`, `h.next x_i = x_((i+1) mod n)` and
`h.prev x_((i+1) mod n) = x_i`: the `next` chain and the `prev` chain describe the same cycle.
`Repr h [] := True` (the nil pointer represents the empty ring in every heap). `ptr r := r.head?`.

Proved (all for arbitrary heaps, no fuel/size bound):
`repr_new`, `newElem_frame`, `append_refines` (all `r1 r2`: empty, singleton, long), `append_frame`,
`tearOff_refines`, `tearOff_frame`, `tearOff_nil`, `prev_refines`, `next_refines`, `len_refines`, and for the
provider's two-ring state machine `sim_step`, `sim_run`, `sim_run_init`, `sim_prev`, `sim_len`.
-/
namespace Logrange.RingPtr

/-! ## read after write -/

@[simp] theorem setNext_next (h : Heap) (x v y : Nat) :
    (setNext h x v).next y = if y = x then v else h.next y := rfl
@[simp] theorem setNext_prev (h : Heap) (x v y : Nat) : (setNext h x v).prev y = h.prev y := rfl
@[simp] theorem setPrev_prev (h : Heap) (x v y : Nat) :
    (setPrev h x v).prev y = if y = x then v else h.prev y := rfl
@[simp] theorem setPrev_next (h : Heap) (x v y : Nat) : (setPrev h x v).next y = h.next y := rfl

theorem newElem_next (h : Heap) (e y : Nat) :
    (newElem h e).next y = if y = e then e else h.next y := rfl
theorem newElem_prev (h : Heap) (e y : Nat) :
    (newElem h e).prev y = if y = e then e else h.prev y := rfl

/-- the net effect of the four writes of `Append` on the `next` fields -/
theorem append_next (h : Heap) (a c y : Nat) :
    (append h (some a) (some c)).1.next y =
      if y = h.prev c then h.next a else if y = a then c else h.next y := rfl
/-- … and on the `prev` fields -/
theorem append_prev (h : Heap) (a c y : Nat) :
    (append h (some a) (some c)).1.prev y =
      if y = c then a else if y = h.next a then h.prev c else h.prev y := rfl

theorem unlink_next (h : Heap) (e y : Nat) :
    (unlink h e).next y = if y = e then e else if y = h.prev e then h.next e else h.next y := rfl
theorem unlink_prev (h : Heap) (e y : Nat) :
    (unlink h e).prev y = if y = e then e else if y = h.next e then h.prev e else h.prev y := by
  simp [unlink]

/-! ## the abstraction relation -/

/-- `a → l[0] → … → l.last → b`, every step linked in both directions -/
def Seg (h : Heap) : Nat → List Nat → Nat → Prop
  | a, [], b => h.next a = b ∧ h.prev b = a
  | a, x :: xs, b => h.next a = x ∧ h.prev x = a ∧ Seg h x xs b

/-- heap `h` holds the ring `r` (head first, `next` order) -/
def Repr (h : Heap) : List Nat → Prop
  | [] => True
  | x :: xs => (x :: xs).Nodup ∧ Seg h x xs x

/-- the pointer that stands for the ring `r` -/
def ptr (r : List Nat) : Ptr := r.head?

@[simp] theorem ptr_nil : ptr [] = none := rfl
@[simp] theorem ptr_cons (x : Nat) (xs : List Nat) : ptr (x :: xs) = some x := rfl

instance segDec (h : Heap) : ∀ (l : List Nat) (a b : Nat), Decidable (Seg h a l b)
  | [], a, b => inferInstanceAs (Decidable (h.next a = b ∧ h.prev b = a))
  | x :: xs, a, b =>
    have := segDec h xs x b
    inferInstanceAs (Decidable (h.next a = x ∧ h.prev x = a ∧ Seg h x xs b))

instance reprDec (h : Heap) : ∀ r : List Nat, Decidable (Repr h r)
  | [] => inferInstanceAs (Decidable True)
  | x :: xs => inferInstanceAs (Decidable ((x :: xs).Nodup ∧ Seg h x xs x))

theorem seg_nil {h : Heap} {a b : Nat} : Seg h a [] b ↔ (h.next a = b ∧ h.prev b = a) := Iff.rfl
theorem seg_cons {h : Heap} {a x b : Nat} {xs : List Nat} :
    Seg h a (x :: xs) b ↔ (h.next a = x ∧ h.prev x = a ∧ Seg h x xs b) := Iff.rfl
@[simp] theorem repr_nil (h : Heap) : Repr h [] := trivial
theorem repr_cons {h : Heap} {x : Nat} {xs : List Nat} :
    Repr h (x :: xs) ↔ ((x :: xs).Nodup ∧ Seg h x xs x) := Iff.rfl

theorem seg_append {h : Heap} : ∀ (l1 : List Nat) (a m : Nat) (l2 : List Nat) (b : Nat),
    Seg h a (l1 ++ m :: l2) b ↔ (Seg h a l1 m ∧ Seg h m l2 b)
  | [], a, m, l2, b => by simp only [List.nil_append, seg_cons, seg_nil, and_assoc]
  | x :: xs, a, m, l2, b => by
    simp only [List.cons_append, seg_cons, seg_append xs, and_assoc]

theorem seg_frame {h h' : Heap} : ∀ {l : List Nat} {a b : Nat}, Seg h a l b →
    (∀ x, x ∈ a :: l → h'.next x = h.next x) → (∀ x, x ∈ l ++ [b] → h'.prev x = h.prev x) →
    Seg h' a l b
  | [], a, b, hs, hn, hp => by
    rw [seg_nil] at hs ⊢
    rw [hn a (by simp), hp b (by simp)]; exact hs
  | x :: xs, a, b, hs, hn, hp => by
    rw [seg_cons] at hs ⊢
    refine ⟨by rw [hn a (by simp)]; exact hs.1, by rw [hp x (by simp)]; exact hs.2.1,
      seg_frame hs.2.2 (fun y hy => hn y (List.mem_cons_of_mem _ hy))
        (fun y hy => hp y (List.mem_cons_of_mem _ hy))⟩

theorem seg_next_mem {h : Heap} : ∀ {l : List Nat} {a b x : Nat}, Seg h a l b → x ∈ a :: l →
    h.next x ∈ l ++ [b]
  | [], a, b, x, hs, hx => by
    rw [seg_nil] at hs
    have : x = a := by simpa using hx
    subst this; simp [hs.1]
  | y :: ys, a, b, x, hs, hx => by
    rw [seg_cons] at hs
    rcases List.mem_cons.1 hx with e | hx'
    · subst e; simp [hs.1]
    · exact List.mem_cons_of_mem _ (seg_next_mem hs.2.2 hx')

theorem seg_prev_mem {h : Heap} : ∀ {l : List Nat} {a b x : Nat}, Seg h a l b → x ∈ l ++ [b] →
    h.prev x ∈ a :: l
  | [], a, b, x, hs, hx => by
    rw [seg_nil] at hs
    have : x = b := by simpa using hx
    subst this; simp [hs.2]
  | y :: ys, a, b, x, hs, hx => by
    rw [seg_cons] at hs
    rcases List.mem_cons.1 hx with e | hx'
    · subst e; simp [hs.2.1]
    · exact List.mem_cons_of_mem _ (seg_prev_mem hs.2.2 hx')

theorem mem_snoc_iff {x a : Nat} {l : List Nat} : x ∈ l ++ [a] ↔ x ∈ a :: l := by
  simp [or_comm]

theorem repr_nodup {h : Heap} : ∀ {r : List Nat}, Repr h r → r.Nodup
  | [], _ => List.nodup_nil
  | _ :: _, hr => hr.1

theorem repr_next_mem {h : Heap} {r : List Nat} {x : Nat} (hr : Repr h r) (hx : x ∈ r) :
    h.next x ∈ r := by
  cases r with
  | nil => cases hx
  | cons a t =>
    exact mem_snoc_iff.1 (seg_next_mem hr.2 hx)

theorem repr_prev_mem {h : Heap} {r : List Nat} {x : Nat} (hr : Repr h r) (hx : x ∈ r) :
    h.prev x ∈ r := by
  cases r with
  | nil => cases hx
  | cons a t =>
    exact seg_prev_mem hr.2 (mem_snoc_iff.2 hx)

/-- a heap that agrees with `h` on the cells of `r` holds the same ring -/
theorem repr_frame {h h' : Heap} {r : List Nat} (hr : Repr h r)
    (hn : ∀ x, x ∈ r → h'.next x = h.next x) (hp : ∀ x, x ∈ r → h'.prev x = h.prev x) :
    Repr h' r := by
  cases r with
  | nil => trivial
  | cons a t =>
    exact ⟨hr.1, seg_frame hr.2 hn (fun x hx => hp x (mem_snoc_iff.1 hx))⟩

/-- the same ring read from its second cell -/
theorem repr_rotate {h : Heap} {a : Nat} {t : List Nat} (hr : Repr h (a :: t)) :
    Repr h (t ++ [a]) := by
  cases t with
  | nil => exact hr
  | cons n t' =>
    obtain ⟨nd, hs⟩ := hr
    rw [seg_cons] at hs
    rw [List.cons_append, repr_cons]
    refine ⟨?_, ?_⟩
    · simp only [List.nodup_cons, List.nodup_append, List.mem_cons, List.mem_append,
        List.not_mem_nil, or_false] at *
      grind
    · exact (seg_append t' n a [] n).2 ⟨hs.2.2, hs.1, hs.2.1⟩

/-- list bookkeeping: expand `Nodup`/membership facts and let `grind` finish -/
macro "lists" : tactic =>
  `(tactic| (simp only [List.nodup_cons, List.nodup_append, List.mem_cons, List.mem_append,
      List.mem_singleton, List.cons_append, List.nil_append, List.append_nil, List.append_assoc,
      List.not_mem_nil, false_or, or_false] at * <;> grind))

theorem snoc_cases (l : List Nat) : l = [] ∨ ∃ l' b, l = l' ++ [b] := by
  rcases List.eq_nil_or_concat l with h | ⟨l', b, h⟩
  · exact Or.inl h
  · exact Or.inr ⟨l', b, by rw [h, List.concat_eq_append]⟩

/-! ## 1. `NewCLElement` -/

theorem repr_new (h : Heap) (e : Nat) : Repr (newElem h e) [e] := by
  refine ⟨by simp, ?_⟩
  rw [seg_nil, newElem_next, newElem_prev]; simp

theorem newElem_frame (h : Heap) (e : Nat) (r : List Nat) (hr : Repr h r) (he : e ∉ r) :
    Repr (newElem h e) r := by
  refine repr_frame hr (fun x hx => ?_) (fun x hx => ?_)
  · rw [newElem_next, if_neg]; intro e'; subst e'; exact he hx
  · rw [newElem_prev, if_neg]; intro e'; subst e'; exact he hx

/-! ## 2. `Append` -/

theorem mem_ring_append {r1 r2 : List Nat} {x : Nat} :
    x ∈ Ring.append r1 r2 ↔ (x ∈ r1 ∨ x ∈ r2) := by
  cases r2 with
  | nil => simp [Ring.append]
  | cons c u =>
    cases r1 with
    | nil => simp [Ring.append]
    | cons a t =>
      simp only [Ring.append, List.mem_cons, List.mem_append]
      grind

/-- the core of `append_refines`: two non-empty disjoint rings -/
theorem append_seg (h : Heap) (a c : Nat) (t u : List Nat)
    (n1 : (a :: t).Nodup) (s1 : Seg h a t a) (n2 : (c :: u).Nodup) (s2 : Seg h c u c)
    (hd : ∀ x, x ∈ a :: t → x ∉ c :: u) :
    Seg (append h (some a) (some c)).1 a (c :: u ++ t) a := by
  rcases snoc_cases u with rfl | ⟨u', p, rfl⟩
  · cases t with
    | nil =>
      rw [seg_nil] at s1 s2
      obtain ⟨e1, e2⟩ := s1
      obtain ⟨e3, e4⟩ := s2
      simp only [List.append_nil, seg_cons, seg_nil, append_next, append_prev]
      lists
    | cons n t' =>
      rw [seg_cons] at s1
      rw [seg_nil] at s2
      obtain ⟨e1, e2, s1⟩ := s1
      obtain ⟨e3, e4⟩ := s2
      simp only [List.cons_append, List.nil_append, seg_cons]
      refine ⟨?_, ?_, ?_, ?_, seg_frame s1 (fun y hy => ?_) (fun y hy => ?_)⟩
      all_goals simp only [append_next, append_prev]
      all_goals lists
  · rw [seg_append u' c p [] c, seg_nil] at s2
    obtain ⟨s2, e3, e4⟩ := s2
    cases t with
    | nil =>
      rw [seg_nil] at s1
      obtain ⟨e1, e2⟩ := s1
      simp only [List.append_nil, seg_cons]
      rw [seg_append u' c p [] a, seg_nil]
      refine ⟨?_, ?_, seg_frame s2 (fun y hy => ?_) (fun y hy => ?_), ?_, ?_⟩
      all_goals simp only [append_next, append_prev]
      all_goals lists
    | cons n t' =>
      rw [seg_cons] at s1
      obtain ⟨e1, e2, s1⟩ := s1
      have e : c :: (u' ++ [p]) ++ n :: t' = c :: (u' ++ p :: n :: t') := by simp
      rw [e, seg_cons, seg_append u' c p (n :: t') a, seg_cons]
      refine ⟨?_, ?_, seg_frame s2 (fun y hy => ?_) (fun y hy => ?_), ?_, ?_,
        seg_frame s1 (fun y hy => ?_) (fun y hy => ?_)⟩
      all_goals simp only [append_next, append_prev]
      all_goals lists

theorem append_refines (h : Heap) (r1 r2 : List Nat) (h1 : Repr h r1) (h2 : Repr h r2)
    (hd : ∀ x, x ∈ r1 → x ∉ r2) :
    (append h (ptr r1) (ptr r2)).2 = ptr (Ring.append r1 r2) ∧
    Repr (append h (ptr r1) (ptr r2)).1 (Ring.append r1 r2) := by
  cases r2 with
  | nil => cases r1 <;> simp [append, Ring.append, h1]
  | cons c u =>
    cases r1 with
    | nil => simp [append, Ring.append, h2]
    | cons a t =>
      refine ⟨rfl, ?_⟩
      show Repr (append h (some a) (some c)).1 (a :: (c :: u ++ t))
      refine ⟨?_, append_seg h a c t u h1.1 h1.2 h2.1 h2.2 hd⟩
      have n1 := h1.1
      have n2 := h2.1
      clear h1 h2
      lists

/-- `Append` leaves every other ring alone -/
theorem append_frame (h : Heap) (r1 r2 r3 : List Nat) (h1 : Repr h r1) (h2 : Repr h r2)
    (h3 : Repr h r3) (d1 : ∀ x, x ∈ r3 → x ∉ r1) (d2 : ∀ x, x ∈ r3 → x ∉ r2) :
    Repr (append h (ptr r1) (ptr r2)).1 r3 := by
  cases r2 with
  | nil => exact h3
  | cons c u =>
    cases r1 with
    | nil => exact h3
    | cons a t =>
      have m1 : h.next a ∈ a :: t := repr_next_mem h1 (by simp)
      have m2 : h.prev c ∈ c :: u := repr_prev_mem h2 (by simp)
      refine repr_frame h3 (fun x hx => ?_) (fun x hx => ?_)
      · show (append h (some a) (some c)).1.next x = _
        have x1 : x ≠ h.prev c := fun e => d2 x hx (e ▸ m2)
        have x2 : x ≠ a := fun e => d1 x hx (by simp [e])
        rw [append_next, if_neg x1, if_neg x2]
      · show (append h (some a) (some c)).1.prev x = _
        have x1 : x ≠ h.next a := fun e => d1 x hx (e ▸ m1)
        have x2 : x ≠ c := fun e => d2 x hx (by simp [e])
        rw [append_prev, if_neg x2, if_neg x1]

/-! ## 3. `TearOff` -/

theorem tearOff_nil (h : Heap) (p : Ptr) : tearOff h p none = (h, p) := rfl

theorem erase_mid (e : Nat) (l1 l2 : List Nat) (h : e ∉ l1) :
    (l1 ++ e :: l2).erase e = l1 ++ l2 := by
  induction l1 with
  | nil => simp
  | cons x xs ih =>
    simp only [List.mem_cons, not_or] at h
    simp [ih h.2, Ne.symm h.1]

/-- the unlinked cell is a singleton ring again -/
theorem unlink_self (h : Heap) (e : Nat) : Repr (unlink h e) [e] := by
  refine ⟨by simp, ?_⟩
  rw [seg_nil, unlink_next, unlink_prev]; simp

/-- unlinking a non-head cell -/
theorem unlink_mid (h : Heap) (x e : Nat) (l1 l2 : List Nat)
    (hr : Repr h (x :: (l1 ++ e :: l2))) : Repr (unlink h e) (x :: (l1 ++ l2)) := by
  obtain ⟨nd, hs⟩ := hr
  rw [seg_append] at hs
  obtain ⟨s1, s2⟩ := hs
  refine ⟨by lists, ?_⟩
  rcases snoc_cases l1 with rfl | ⟨l1', p, rfl⟩
  · cases l2 with
    | nil =>
      rw [seg_nil] at s1 s2
      obtain ⟨e1, e2⟩ := s1
      obtain ⟨e3, e4⟩ := s2
      simp only [List.append_nil, seg_nil, unlink_next, unlink_prev]
      lists
    | cons n l2' =>
      rw [seg_nil] at s1
      rw [seg_cons] at s2
      obtain ⟨e1, e2⟩ := s1
      obtain ⟨e3, e4, s2⟩ := s2
      simp only [List.nil_append, seg_cons]
      refine ⟨?_, ?_, seg_frame s2 (fun y hy => ?_) (fun y hy => ?_)⟩
      all_goals simp only [unlink_next, unlink_prev]
      all_goals lists
  · rw [seg_append l1' x p [] e, seg_nil] at s1
    obtain ⟨s1, e1, e2⟩ := s1
    cases l2 with
    | nil =>
      rw [seg_nil] at s2
      obtain ⟨e3, e4⟩ := s2
      rw [List.append_nil, seg_append l1' x p [] x, seg_nil]
      refine ⟨seg_frame s1 (fun y hy => ?_) (fun y hy => ?_), ?_, ?_⟩
      all_goals simp only [unlink_next, unlink_prev]
      all_goals lists
    | cons n l2' =>
      rw [seg_cons] at s2
      obtain ⟨e3, e4, s2⟩ := s2
      have e' : l1' ++ [p] ++ n :: l2' = l1' ++ p :: n :: l2' := by simp
      rw [e', seg_append l1' x p (n :: l2') x, seg_cons]
      refine ⟨seg_frame s1 (fun y hy => ?_) (fun y hy => ?_), ?_, ?_,
        seg_frame s2 (fun y hy => ?_) (fun y hy => ?_)⟩
      all_goals simp only [unlink_next, unlink_prev]
      all_goals lists

theorem tearOff_refines (h : Heap) (r : List Nat) (e : Nat) (h1 : Repr h r) (he : e ∈ r) :
    (tearOff h (ptr r) (some e)).2 = ptr (Ring.tearOff r (some e)) ∧
    Repr (tearOff h (ptr r) (some e)).1 (Ring.tearOff r (some e)) ∧
    Repr (tearOff h (ptr r) (some e)).1 [e] := by
  cases r with
  | nil => cases he
  | cons a t =>
    by_cases hea : e = a
    · subst hea
      cases t with
      | nil =>
        have hn : h.next e = e := h1.2.1
        simp [tearOff, Ring.tearOff, hn, h1]
      | cons n t' =>
        have hn : h.next e = n := h1.2.1
        have hne : n ≠ e := by
          have := h1.1
          intro e'; subst e'; simp at this
        have hu : Repr (unlink h e) (n :: t') := by
          have := unlink_mid h n e t' [] (repr_rotate h1)
          simpa using this
        simp [tearOff, Ring.tearOff, hn, hne, hu, unlink_self]
    · have het : e ∈ t := by
        rcases List.mem_cons.1 he with e' | e'
        · exact absurd e' hea
        · exact e'
      obtain ⟨l1, l2, rfl⟩ := List.append_of_mem het
      have nd := h1.1
      have hl1 : e ∉ l1 := by
        intro hm
        clear h1 he het
        lists
      have her : (a :: (l1 ++ e :: l2)).erase e = a :: (l1 ++ l2) := by
        rw [List.erase_cons, erase_mid e l1 l2 hl1]
        simp [Ne.symm hea]
      have hu := unlink_mid h a e l1 l2 h1
      have hae : ¬ a = e := Ne.symm hea
      simp [tearOff, Ring.tearOff, her, hea, hae, hu, unlink_self]

/-- `TearOff` leaves every other ring alone -/
theorem tearOff_frame (h : Heap) (r r3 : List Nat) (e : Nat) (h1 : Repr h r) (he : e ∈ r)
    (h3 : Repr h r3) (d : ∀ x, x ∈ r3 → x ∉ r) :
    Repr (tearOff h (ptr r) (some e)).1 r3 := by
  have hu : Repr (unlink h e) r3 := by
    have m1 := repr_next_mem h1 he
    have m2 := repr_prev_mem h1 he
    refine repr_frame h3 (fun x hx => ?_) (fun x hx => ?_)
    · have x1 : x ≠ e := fun e' => d x hx (e' ▸ he)
      have x2 : x ≠ h.prev e := fun e' => d x hx (e' ▸ m2)
      rw [unlink_next, if_neg x1, if_neg x2]
    · have x1 : x ≠ e := fun e' => d x hx (e' ▸ he)
      have x2 : x ≠ h.next e := fun e' => d x hx (e' ▸ m1)
      rw [unlink_prev, if_neg x1, if_neg x2]
  cases r with
  | nil => cases he
  | cons a t =>
    simp only [tearOff, ptr_cons]
    by_cases hc : (decide (e = a) && decide (h.next a = a)) = true
    · simp only [hc, ↓reduceIte]; exact h3
    · simp only [hc]; exact hu

/-! ## 4. `Prev` / `Next` -/

theorem seg_prevAux {h : Heap} : ∀ {l : List Nat} {a b e : Nat}, Seg h a l b → e ∈ l ++ [b] →
    h.prev e = Ring.prevAux a (l ++ [b]) e
  | [], a, b, e, hs, he => by
    rw [seg_nil] at hs
    have : e = b := by simpa using he
    subst this
    simp [Ring.prevAux, hs.2]
  | x :: xs, a, b, e, hs, he => by
    rw [seg_cons] at hs
    by_cases hx : x = e
    · subst hx; simp [Ring.prevAux, hs.2.1]
    · have he' : e ∈ xs ++ [b] := by
        rcases List.mem_cons.1 he with e' | e'
        · exact absurd e'.symm hx
        · exact e'
      simp only [List.cons_append, Ring.prevAux, if_neg hx]
      exact seg_prevAux hs.2.2 he'

theorem prev_refines (h : Heap) (r : List Nat) (e : Nat) (h1 : Repr h r) (he : e ∈ r) :
    prevM h e = Ring.prev r e := by
  cases r with
  | nil => cases he
  | cons x xs =>
    obtain ⟨_, hs⟩ := h1
    show h.prev e = Ring.prev (x :: xs) e
    rcases snoc_cases xs with rfl | ⟨ys, l, rfl⟩
    · have : e = x := by simpa using he
      subst this
      rw [seg_nil] at hs
      simp [Ring.prev, Ring.prevAux, hs.2]
    · rw [seg_append ys x l [] x, seg_nil] at hs
      obtain ⟨s, _, e2⟩ := hs
      have hl : (x :: (ys ++ [l])).getLast? = some l := by
        rw [← List.cons_append, List.getLast?_concat]
      simp only [Ring.prev, hl, Ring.prevAux]
      by_cases hx : x = e
      · subst hx; simp [e2]
      · rw [if_neg hx]
        refine seg_prevAux s ?_
        rcases List.mem_cons.1 he with e' | e'
        · exact absurd e'.symm hx
        · exact e'

theorem next_refines (h : Heap) (r : List Nat) (e : Nat) (h1 : Repr h r) (he : e ∈ r) :
    nextM h e = Ring.next r e := prev_refines h r e h1 he

/-! ## 5. `Len` -/

theorem seg_len {h : Heap} : ∀ (l : List Nat) (a b f cnt : Nat), Seg h a l b → b ∉ l →
    l.length ≤ f → lenLoop h b f (h.next a) cnt = cnt + l.length
  | [], a, b, f, cnt, hs, _, _ => by
    rw [seg_nil] at hs
    cases f with
    | zero => simp [lenLoop]
    | succ f => simp [lenLoop, hs.1]
  | x :: xs, a, b, f, cnt, hs, hb, hf => by
    rw [seg_cons] at hs
    cases f with
    | zero => simp at hf
    | succ f =>
      have hxb : x ≠ b := by intro e; subst e; simp at hb
      have hb' : b ∉ xs := fun hm => hb (List.mem_cons_of_mem _ hm)
      have hf' : xs.length ≤ f := by simpa using hf
      rw [hs.1]
      simp only [lenLoop, if_neg hxb]
      rw [seg_len xs x b f (cnt + 1) hs.2.2 hb' hf']
      simp only [List.length_cons]; omega

theorem len_refines (h : Heap) (r : List Nat) (fuel : Nat) (h1 : Repr h r)
    (hf : r.length ≤ fuel) : len h (ptr r) fuel = Ring.len r := by
  cases r with
  | nil => rfl
  | cons a t =>
    obtain ⟨nd, hs⟩ := h1
    have ha : a ∉ t := (List.nodup_cons.1 nd).1
    have hf' : t.length ≤ fuel := by simp only [List.length_cons] at hf; omega
    show lenLoop h a fuel (h.next a) 1 = Ring.len (a :: t)
    rw [seg_len t a a fuel 1 hs ha hf']
    simp only [Ring.len, List.length_cons]; omega

/-! ## 6. every operation sequence of the provider's two rings -/

/-- the side conditions under which provider.go performs the operation -/
def okOp (l : LSt) : Op → Prop
  | .toHead e => e ∈ l.busy
  | .insertNew e => e ∉ l.busy ∧ e ∉ l.free
  | .insertFree => l.free ≠ []
  | .evict e _ => e ∈ l.busy

/-- the side conditions hold along the list-level run -/
def OkRun : LSt → List Op → Prop
  | _, [] => True
  | l, op :: ops => okOp l op ∧ OkRun (lstep l op) ops

instance okOpDec (l : LSt) : ∀ op : Op, Decidable (okOp l op)
  | .toHead e => inferInstanceAs (Decidable (e ∈ l.busy))
  | .insertNew e => inferInstanceAs (Decidable (e ∉ l.busy ∧ e ∉ l.free))
  | .insertFree => inferInstanceAs (Decidable (l.free ≠ []))
  | .evict e _ => inferInstanceAs (Decidable (e ∈ l.busy))

instance okRunDec : ∀ (l : LSt) (ops : List Op), Decidable (OkRun l ops)
  | _, [] => inferInstanceAs (Decidable True)
  | l, op :: ops =>
    have := okRunDec (lstep l op) ops
    inferInstanceAs (Decidable (okOp l op ∧ OkRun (lstep l op) ops))

/-- simulation relation: both rings are held by the one heap, they are disjoint, and the two
    pointers are the heads -/
def Sim (p : PSt) (l : LSt) : Prop :=
  Repr p.heap l.busy ∧ Repr p.heap l.free ∧ (∀ x, x ∈ l.busy → x ∉ l.free) ∧
  p.busy = ptr l.busy ∧ p.free = ptr l.free

/-- `e.Append(ring)` for a detached singleton `e`, with a third ring `f` in the same heap -/
theorem push_refines (h : Heap) (e : Nat) (r f : List Nat) (he : Repr h [e]) (hr : Repr h r)
    (hf : Repr h f) (er : e ∉ r) (ef : e ∉ f) (d : ∀ x, x ∈ r → x ∉ f) :
    (append h (some e) (ptr r)).2 = ptr (Ring.append [e] r) ∧
    Repr (append h (some e) (ptr r)).1 (Ring.append [e] r) ∧
    Repr (append h (some e) (ptr r)).1 f ∧
    (∀ x, x ∈ Ring.append [e] r → x ∉ f) ∧ (∀ x, x ∈ f → x ∉ Ring.append [e] r) := by
  have d1 : ∀ x, x ∈ [e] → x ∉ r := by
    intro x hx; have : x = e := by simpa using hx
    subst this; exact er
  have a := append_refines h [e] r he hr d1
  have fr := append_frame h [e] r f he hr hf
    (by intro x hx hx'; have : x = e := by simpa using hx'
        subst this; exact ef hx)
    (fun x hx hx' => d x hx' hx)
  rw [ptr_cons] at a fr
  refine ⟨a.1, a.2, fr, ?_, ?_⟩
  · intro x hx
    rcases mem_ring_append.1 hx with hx | hx
    · have : x = e := by simpa using hx
      subst this; exact ef
    · exact d x hx
  · intro x hx hx'
    rcases mem_ring_append.1 hx' with hx' | hx'
    · have : x = e := by simpa using hx'
      subst this; exact ef hx
    · exact d x hx' hx

theorem sim_step {p : PSt} {l : LSt} {op : Op} (hs : Sim p l) (ok : okOp l op) :
    Sim (pstep p op) (lstep l op) := by
  obtain ⟨hb, hf, hd, pb, pf⟩ := hs
  cases op with
  | toHead e =>
    have he : e ∈ l.busy := ok
    obtain ⟨t1, t2, t3⟩ := tearOff_refines p.heap l.busy e hb he
    have tf := tearOff_frame p.heap l.busy l.free e hb he hf (fun x hx hx' => hd x hx' hx)
    have nd := repr_nodup hb
    have er : e ∉ Ring.tearOff l.busy (some e) := by
      simp only [Ring.tearOff]; intro hm
      exact ((List.Nodup.mem_erase_iff nd).1 hm).1 rfl
    have d' : ∀ x, x ∈ Ring.tearOff l.busy (some e) → x ∉ l.free := by
      intro x hx; exact hd x (List.mem_of_mem_erase hx)
    obtain ⟨a1, a2, a3, a4, _⟩ := push_refines _ e _ l.free t3 t2 tf er (hd e he) d'
    rw [← t1] at a1 a2 a3
    simp only [pstep, lstep, Sim]
    rw [pb]
    exact ⟨a2, a3, a4, a1, pf⟩
  | insertNew e =>
    obtain ⟨eb, ef⟩ : e ∉ l.busy ∧ e ∉ l.free := ok
    have n1 := repr_new p.heap e
    have n2 := newElem_frame p.heap e l.busy hb eb
    have n3 := newElem_frame p.heap e l.free hf ef
    obtain ⟨a1, a2, a3, a4, _⟩ := push_refines _ e _ l.free n1 n2 n3 eb ef hd
    simp only [pstep, lstep, Sim]
    rw [pb]
    exact ⟨a2, a3, a4, a1, pf⟩
  | insertFree =>
    have hne : l.free ≠ [] := ok
    cases hfr : l.free with
    | nil => exact absurd hfr hne
    | cons e fs =>
      rw [hfr] at hf hd pf
      have he : e ∈ e :: fs := by simp
      obtain ⟨t1, t2, t3⟩ := tearOff_refines p.heap (e :: fs) e hf he
      have tf := tearOff_frame p.heap (e :: fs) l.busy e hf he hb hd
      have nd := repr_nodup hf
      have er : e ∉ Ring.tearOff (e :: fs) (some e) := by
        simp only [Ring.tearOff]; intro hm
        exact ((List.Nodup.mem_erase_iff nd).1 hm).1 rfl
      have d' : ∀ x, x ∈ l.busy → x ∉ Ring.tearOff (e :: fs) (some e) := by
        intro x hx hx'; exact hd x hx (List.mem_of_mem_erase hx')
      have eb : e ∉ l.busy := fun hm => hd e hm he
      obtain ⟨a1, a2, a3, a4, _⟩ := push_refines _ e _ _ t3 tf t2 eb er d'
      rw [ptr_cons] at t1 t2 t3 tf a1 a2 a3
      simp only [pstep, lstep, Sim, hfr, List.head?_cons]
      rw [pb, pf]
      exact ⟨a2, a3, a4, a1, t1⟩
  | evict e rc =>
    have he : e ∈ l.busy := ok
    obtain ⟨t1, t2, t3⟩ := tearOff_refines p.heap l.busy e hb he
    have tf := tearOff_frame p.heap l.busy l.free e hb he hf (fun x hx hx' => hd x hx' hx)
    have d' : ∀ x, x ∈ Ring.tearOff l.busy (some e) → x ∉ l.free := by
      intro x hx; exact hd x (List.mem_of_mem_erase hx)
    cases rc with
    | false =>
      simp only [pstep, lstep, Sim]
      rw [pb]
      exact ⟨t2, tf, d', t1, pf⟩
    | true =>
      have nd := repr_nodup hb
      have er : e ∉ Ring.tearOff l.busy (some e) := by
        simp only [Ring.tearOff]; intro hm
        exact ((List.Nodup.mem_erase_iff nd).1 hm).1 rfl
      obtain ⟨a1, a2, a3, _, a5⟩ := push_refines _ e l.free _ t3 tf t2 (hd e he) er
        (fun x hx hx' => d' x hx' hx)
      rw [← pf] at a1 a2 a3
      simp only [pstep, lstep, Sim, ↓reduceIte]
      rw [pb]
      exact ⟨a3, a2, a5, t1, a1⟩

theorem sim_init : Sim PSt.init LSt.init := by
  refine ⟨repr_nil _, repr_nil _, ?_, rfl, rfl⟩
  intro x hx; cases hx

/-- for all operation sequences: the pointer-level run is simulated by the list-level run -/
theorem sim_run : ∀ (ops : List Op) {p : PSt} {l : LSt}, Sim p l → OkRun l ops →
    Sim (prun p ops) (lrun l ops)
  | [], _, _, hs, _ => hs
  | _ :: ops, _, _, hs, ok => sim_run ops (sim_step hs ok.1) ok.2

theorem sim_run_init (ops : List Op) (ok : OkRun LSt.init ops) :
    Sim (prun PSt.init ops) (lrun LSt.init ops) := sim_run ops sim_init ok

/-- observations agree in simulated states: `e.Prev()` (and `e.Next()`, the same field) -/
theorem sim_prev {p : PSt} {l : LSt} (hs : Sim p l) :
    (∀ e, e ∈ l.busy → prevM p.heap e = Ring.prev l.busy e ∧ nextM p.heap e = Ring.next l.busy e) ∧
    (∀ e, e ∈ l.free → prevM p.heap e = Ring.prev l.free e ∧ nextM p.heap e = Ring.next l.free e) :=
  ⟨fun e he => ⟨prev_refines _ _ e hs.1 he, next_refines _ _ e hs.1 he⟩,
   fun e he => ⟨prev_refines _ _ e hs.2.1 he, next_refines _ _ e hs.2.1 he⟩⟩

/-- … and `Len()` with enough fuel -/
theorem sim_len {p : PSt} {l : LSt} (hs : Sim p l) (fuel : Nat) :
    (l.busy.length ≤ fuel → len p.heap p.busy fuel = Ring.len l.busy) ∧
    (l.free.length ≤ fuel → len p.heap p.free fuel = Ring.len l.free) := by
  obtain ⟨hb, hf, _, pb, pf⟩ := hs
  rw [pb, pf]
  exact ⟨len_refines _ _ _ hb, len_refines _ _ _ hf⟩

/-! ## non-vacuity: concrete rings -/

/-- three fresh cells, `2.Append(3)`, `1.Append(that)`: the heap holds the ring `[1,2,3]`, as the
    list model says -/
example :
    Repr (append (append (newElem (newElem (newElem Heap.init 1) 2) 3) (some 2) (some 3)).1
      (some 1) (some 2)).1 [1, 2, 3] ∧
    Ring.append [1] (Ring.append [2] [3]) = [1, 2, 3] := by decide

/-- tearing the head off `[1,2,3]`: new head `2`, ring `[2,3]`, and `1` is a singleton again -/
example :
    (tearOff (append (append (newElem (newElem (newElem Heap.init 1) 2) 3) (some 2) (some 3)).1
      (some 1) (some 2)).1 (some 1) (some 1)).2 = some 2 ∧
    Repr (tearOff (append (append (newElem (newElem (newElem Heap.init 1) 2) 3) (some 2) (some 3)).1
      (some 1) (some 2)).1 (some 1) (some 1)).1 [2, 3] ∧
    Repr (tearOff (append (append (newElem (newElem (newElem Heap.init 1) 2) 3) (some 2) (some 3)).1
      (some 1) (some 2)).1 (some 1) (some 1)).1 [1] ∧
    len (append (append (newElem (newElem (newElem Heap.init 1) 2) 3) (some 2) (some 3)).1
      (some 1) (some 2)).1 (some 1) 3 = 3 := by decide

/-- a provider run: three inserts, a hit, an eviction with recycling, an insert from the free pool -/
example :
    OkRun LSt.init [.insertNew 1, .insertNew 2, .insertNew 3, .toHead 1, .evict 2 true, .insertFree] ∧
    lrun LSt.init [.insertNew 1, .insertNew 2, .insertNew 3, .toHead 1, .evict 2 true, .insertFree]
      = { busy := [2, 1, 3], free := [] } := by decide

end Logrange.RingPtr
