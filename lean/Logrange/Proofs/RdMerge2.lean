import Logrange.Proofs.RdPaging
/-!
Paging over a MERGED cursor of two partitions (un-ranged, unfiltered, journals fixed): the two-source instance of the
generic mixer-tree interpreter of RdCursor.lean in explicit form (`cur2`), `Mixer.selectState/Get/Next/Release` on its
components, the abstraction `Abs2` (both journal iterators at flat indices a, b; the mixer's selection, if any, is
the head of the timestamp merge, ties to the first source), pages and chains.
-/
set_option linter.unusedSectionVars false
set_option linter.unusedVariables false
namespace Logrange.Rd

/-- a two-source, un-ranged, unfiltered cursor in explicit form -/
def cur2 (n1 n2 : Nat) (j1 j2 : Journal) (it1 it2 : It) (m m0 m1 : MixSt) : Cur :=
  { srcs := #[{ name := n1, jrnl := j1, it := .lib it1 }, { name := n2, jrnl := j2, it := .lib it2 }],
    nodes := #[.leaf 0, .leaf 1, .mix 0 1], mix := #[m0, m1, m], root := 2 }

theorem m2_mkCur (n1 n2 j1 j2) :
    mkCur [{ name := n1, jrnl := j1, it := .lib {} }, { name := n2, jrnl := j2, it := .lib {} }] false none none false
      = cur2 n1 n2 j1 j2 {} {} {} {} {} := by
  rfl

/-- what `selectState` does to the components when nothing is selected -/
def sel2 (j1 j2 : Journal) (it1 it2 : It) (m : MixSt) : It × It × MixSt :=
  let g1 := get j1 it1
  let it1' := if m.eof1 then it1 else g1.1
  let m1 : MixSt := if m.eof1 then m else
    match g1.2 with | some x => { m with le1 := some x } | none => { m with eof1 := true, le1 := none }
  let g2 := get j2 it2
  let it2' := if m1.eof2 then it2 else g2.1
  let m2 : MixSt := if m1.eof2 then m1 else
    match g2.2 with | some x => { m1 with le2 := some x } | none => { m1 with eof2 := true, le2 := none }
  let st :=
    if m2.eof1 && m2.eof2 then 3
    else if m2.eof1 then 2
    else if m2.eof2 then 1
    else
      let res := match m2.le1, m2.le2 with
        | some a, some b => decide (a.ts ≤ b.ts)
        | _, _ => true
      let res := if m2.bkwd then !res else res
      if res then 1 else 2
  (it1', it2', { m2 with st := st })

theorem m2_nodeGet0 (f n1 n2 j1 j2 it1 it2 m m0 m1) :
    nodeGet (f + 1) (cur2 n1 n2 j1 j2 it1 it2 m m0 m1) 0 = (cur2 n1 n2 j1 j2 (get j1 it1).1 it2 m m0 m1, (get j1 it1).2) := by
  rw [nodeGet]
  simp [cur2, Src.get, setSrc]
theorem m2_nodeGet1 (f n1 n2 j1 j2 it1 it2 m m0 m1) :
    nodeGet (f + 1) (cur2 n1 n2 j1 j2 it1 it2 m m0 m1) 1 = (cur2 n1 n2 j1 j2 it1 (get j2 it2).1 m m0 m1, (get j2 it2).2) := by
  rw [nodeGet]
  simp [cur2, Src.get, setSrc]

theorem m2_selectState (f n1 n2 j1 j2 it1 it2 m m0 m1) :
    selectState (f + 2) (cur2 n1 n2 j1 j2 it1 it2 m m0 m1) 2 =
      if m.st != 0 then cur2 n1 n2 j1 j2 it1 it2 m m0 m1 else
      cur2 n1 n2 j1 j2 (sel2 j1 j2 it1 it2 m).1 (sel2 j1 j2 it1 it2 m).2.1 (sel2 j1 j2 it1 it2 m).2.2 m0 m1 := by
  rw [selectState]
  have hm : (cur2 n1 n2 j1 j2 it1 it2 m m0 m1).mix[2]! = m := by simp [cur2]
  have hn : (cur2 n1 n2 j1 j2 it1 it2 m m0 m1).nodes[2]! = .mix 0 1 := by simp [cur2]
  rw [hm, hn]
  by_cases h : (m.st != 0) = true
  · simp [h]
  · simp only [h, Bool.false_eq_true, if_false]
    cases h1 : m.eof1 <;> cases h2 : m.eof2 <;> cases g1 : (get j1 it1).2 <;> cases g2 : (get j2 it2).2 <;>
      (simp only [m2_nodeGet0, m2_nodeGet1, h1, h2, g1, g2, Bool.not_false, Bool.not_true, if_true, if_false, Bool.false_eq_true]
       simp [sel2, h1, h2, g1, g2, cur2])

/-- the mixer state after `selectState` -/
def selM (j1 j2 : Journal) (it1 it2 : It) (m : MixSt) : It × It × MixSt :=
  if m.st != 0 then (it1, it2, m) else sel2 j1 j2 it1 it2 m

theorem m2_selectState' (f n1 n2 j1 j2 it1 it2 m m0 m1) :
    selectState (f + 2) (cur2 n1 n2 j1 j2 it1 it2 m m0 m1) 2 =
      cur2 n1 n2 j1 j2 (selM j1 j2 it1 it2 m).1 (selM j1 j2 it1 it2 m).2.1 (selM j1 j2 it1 it2 m).2.2 m0 m1 := by
  rw [m2_selectState]; unfold selM; split <;> rfl

theorem m2_curGet (n1 n2 j1 j2 it1 it2 m m0 m1) :
    curGet (cur2 n1 n2 j1 j2 it1 it2 m m0 m1) =
      (cur2 n1 n2 j1 j2 (selM j1 j2 it1 it2 m).1 (selM j1 j2 it1 it2 m).2.1 (selM j1 j2 it1 it2 m).2.2 m0 m1,
       let s := (selM j1 j2 it1 it2 m).2.2
       if s.st == 1 then s.le1 else if s.st == 2 then s.le2 else none) := by
  have hd : (cur2 n1 n2 j1 j2 it1 it2 m m0 m1).depth = 3 + 2 := by simp [Cur.depth, cur2]
  have hu : (cur2 n1 n2 j1 j2 it1 it2 m m0 m1).useF = false := rfl
  have hr : (cur2 n1 n2 j1 j2 it1 it2 m m0 m1).root = 2 := rfl
  unfold curGet
  rw [hu, hd, hr]
  simp only [Bool.not_false, if_true]
  rw [nodeGet]
  have hn : (cur2 n1 n2 j1 j2 it1 it2 m m0 m1).nodes[2]! = .mix 0 1 := by simp [cur2]
  rw [hn]
  simp only [m2_selectState']
  simp [cur2]

/-- `Mixer.Next` on the components -/
def nextM (j1 j2 : Journal) (it1 it2 : It) (m : MixSt) : It × It × MixSt :=
  let s := selM j1 j2 it1 it2 m
  let it1' := if s.2.2.st == 1 then next j1 s.1 else s.1
  let it2' := if s.2.2.st == 1 then s.2.1 else if s.2.2.st == 2 then next j2 s.2.1 else s.2.1
  let m' := if s.2.2.st == 1 then { s.2.2 with le1 := none } else if s.2.2.st == 2 then { s.2.2 with le2 := none } else s.2.2
  (it1', it2', { m' with st := 0 })

theorem m2_curNext (n1 n2 j1 j2 it1 it2 m m0 m1) :
    curNext (cur2 n1 n2 j1 j2 it1 it2 m m0 m1) =
      cur2 n1 n2 j1 j2 (nextM j1 j2 it1 it2 m).1 (nextM j1 j2 it1 it2 m).2.1 (nextM j1 j2 it1 it2 m).2.2 m0 m1 := by
  have hd : (cur2 n1 n2 j1 j2 it1 it2 m m0 m1).depth = 3 + 2 := by simp [Cur.depth, cur2]
  have hr : (cur2 n1 n2 j1 j2 it1 it2 m m0 m1).root = 2 := rfl
  unfold curNext
  rw [hd, hr, nodeNext]
  have hn : (cur2 n1 n2 j1 j2 it1 it2 m m0 m1).nodes[2]! = .mix 0 1 := by simp [cur2]
  rw [hn]
  simp only [m2_selectState']
  generalize hs : selM j1 j2 it1 it2 m = s
  obtain ⟨a, b, c⟩ := s
  have hmx : (cur2 n1 n2 j1 j2 a b c m0 m1).mix[2]! = c := by simp [cur2]
  simp only [hmx]
  unfold nextM; rw [hs]
  by_cases h1 : (c.st == 1) = true
  · simp only [h1, if_true]
    rw [nodeNext]; simp [cur2, Src.next, setSrc, h1]
  · by_cases h2 : (c.st == 2) = true
    · simp only [h1, h2, if_true, if_false, Bool.false_eq_true]
      rw [nodeNext]; simp [cur2, Src.next, setSrc, h1, h2]
    · simp [h1, h2, cur2]
def leTs (a b : Rec) : Bool := decide (a.ts ≤ b.ts)
/-- what a two-source cursor standing at flat indices `a`, `b` still has to deliver: the merge by timestamp,
ties to the first source -/
def R2 (j1 j2 : Journal) (a b : Nat) : List Rec := List.merge ((flat j1).drop a) ((flat j2).drop b) leTs

def MixOK (l1 l2 : List Rec) (m : MixSt) (a b : Nat) : Prop :=
  m.bkwd = false ∧ (m.eof1 = true → l1.length ≤ a) ∧ (m.eof2 = true → l2.length ≤ b) ∧
  (m.st = 0 ∨
   (m.st = 1 ∧ ∃ x, m.le1 = some x ∧ l1[a]? = some x ∧ (l2[b]? = none ∨ ∃ y, l2[b]? = some y ∧ x.ts ≤ y.ts)) ∨
   (m.st = 2 ∧ ∃ y, m.le2 = some y ∧ l2[b]? = some y ∧ (l1[a]? = none ∨ ∃ x, l1[a]? = some x ∧ ¬ x.ts ≤ y.ts)) ∨
   (m.st = 3 ∧ l1.length ≤ a ∧ l2.length ≤ b))

def ItOK (j : Journal) (it : It) (a : Nat) : Prop := WF j it ∧ it.bkwd = false ∧ Synced it ∧ fIdx j it = a

def outM (m : MixSt) : Option Rec := if m.st == 1 then m.le1 else if m.st == 2 then m.le2 else none

theorem m2_drop_some {l : List Rec} {a : Nat} {x : Rec} (h : l[a]? = some x) : l.drop a = x :: l.drop (a + 1) := by
  obtain ⟨hi, e⟩ := List.getElem?_eq_some_iff.mp h
  rw [List.drop_eq_getElem_cons hi, e]
theorem m2_drop_none {l : List Rec} {a : Nat} (h : l[a]? = none) : l.drop a = [] :=
  List.drop_eq_nil_of_le (List.getElem?_eq_none_iff.mp h)

/-- a selected mixer state shows the head of the merge -/
theorem m2_out_head {j1 j2 : Journal} {m : MixSt} {a b : Nat} (h : MixOK (flat j1) (flat j2) m a b) (hst : m.st ≠ 0) :
    outM m = (R2 j1 j2 a b).head? := by
  obtain ⟨_, _, _, hd⟩ := h
  unfold outM R2
  rcases hd with h0 | ⟨h1, x, hx, e1, e2⟩ | ⟨h2, y, hy, e2, e1⟩ | ⟨h3, e1, e2⟩
  · exact absurd h0 hst
  · rw [m2_drop_some e1]
    rcases e2 with e2 | ⟨y, e2, hle⟩
    · rw [m2_drop_none e2]; simp [h1, hx]
    · rw [m2_drop_some e2, List.cons_merge_cons]; simp [h1, hx, leTs, hle]
  · rw [m2_drop_some e2]
    rcases e1 with e1 | ⟨x, e1, hle⟩
    · rw [m2_drop_none e1]; simp [h2, hy]
    · rw [m2_drop_some e1, List.cons_merge_cons]; simp [h2, hy, leTs, hle]
  · rw [List.drop_eq_nil_of_le e1, List.drop_eq_nil_of_le e2]; simp [h3]

section sem
variable (HG : GetFwdSpec) (HN : NextFwdSpec)
include HG HN

theorem m2_get_ok {j : Journal} {it : It} {a : Nat} (hs : Sorted j) (h : ItOK j it a) :
    ItOK j (get j it).1 a ∧ (get j it).2 = (flat j)[a]? := by
  obtain ⟨hw, hb, hsy, hi⟩ := h
  obtain ⟨g1, g2, g3, g4, g5, _, _⟩ := HG j it hs hw hb
  exact ⟨⟨g2, g3, g5 hsy, by rw [g4, hi]⟩, by rw [g1, hi]⟩

theorem m2_next_ok {j : Journal} {it : It} {a : Nat} (hs : Sorted j) (h : ItOK j it a) (hlt : a < (flat j).length) :
    ItOK j (next j it) (a + 1) := by
  obtain ⟨hw, hb, hsy, hi⟩ := h
  obtain ⟨n1, n2, n3, n4⟩ := HN j it hs hw hb
  refine ⟨n1, n2, n3, ?_⟩
  rw [n4, hi]; omega

/-- `selectState`: afterwards something is selected, and it is the head of the merge -/
theorem m2_sel {j1 j2 : Journal} {it1 it2 : It} {m : MixSt} {a b : Nat} (hs1 : Sorted j1) (hs2 : Sorted j2)
    (h1 : ItOK j1 it1 a) (h2 : ItOK j2 it2 b) (hm : MixOK (flat j1) (flat j2) m a b) :
    ItOK j1 (selM j1 j2 it1 it2 m).1 a ∧ ItOK j2 (selM j1 j2 it1 it2 m).2.1 b ∧
    MixOK (flat j1) (flat j2) (selM j1 j2 it1 it2 m).2.2 a b ∧ (selM j1 j2 it1 it2 m).2.2.st ≠ 0 := by
  unfold selM
  by_cases hst : (m.st != 0) = true
  · rw [if_pos hst]; exact ⟨h1, h2, hm, by simpa using hst⟩
  · rw [if_neg hst]
    have hst0 : m.st = 0 := by simpa using hst
    obtain ⟨g1ok, g1⟩ := m2_get_ok HG HN hs1 h1
    obtain ⟨g2ok, g2⟩ := m2_get_ok HG HN hs2 h2
    obtain ⟨hbk, he1, he2, _⟩ := hm
    have n1 : ∀ {x}, (flat j1)[a]? = some x → ¬ (flat j1).length ≤ a := by
      intro x hx; have := (List.getElem?_eq_some_iff.mp hx).1; omega
    have n2 : ∀ {y}, (flat j2)[b]? = some y → ¬ (flat j2).length ≤ b := by
      intro y hy; have := (List.getElem?_eq_some_iff.mp hy).1; omega
    have z1 : (flat j1)[a]? = none → (flat j1).length ≤ a := List.getElem?_eq_none_iff.mp
    have z2 : (flat j2)[b]? = none → (flat j2).length ≤ b := List.getElem?_eq_none_iff.mp
    unfold sel2
    cases c1 : m.eof1 <;> cases c2 : m.eof2 <;> cases e1 : (flat j1)[a]? <;> cases e2 : (flat j2)[b]? <;>
      simp only [c1, c2, g1, g2, e1, e2, Bool.false_eq_true, if_false, if_true] <;>
      first
      | (exfalso; exact n1 e1 (he1 c1))
      | (exfalso; exact n2 e2 (he2 c2))
      | (refine ⟨?_, ?_, ?_, ?_⟩
         · first | exact h1 | exact g1ok
         · first | exact h2 | exact g2ok
         · unfold MixOK
           simp [hbk, c1, c2, e1, e2, z1, z2, he1, he2]
         · simp)
      | (rename_i x y
         refine ⟨g1ok, g2ok, ?_, ?_⟩
         · unfold MixOK
           by_cases hle : x.ts ≤ y.ts <;> simp [hle, hbk, c1, c2, e1, e2] <;> omega
         · by_cases hle : x.ts ≤ y.ts <;> simp [hle, hbk])

/-- `Mixer.Next`: the head of the merge is consumed, whatever was or was not selected before -/
theorem m2_next {j1 j2 : Journal} {it1 it2 : It} {m : MixSt} {a b : Nat} (hs1 : Sorted j1) (hs2 : Sorted j2)
    (h1 : ItOK j1 it1 a) (h2 : ItOK j2 it2 b) (hm : MixOK (flat j1) (flat j2) m a b) :
    ∃ a' b', ItOK j1 (nextM j1 j2 it1 it2 m).1 a' ∧ ItOK j2 (nextM j1 j2 it1 it2 m).2.1 b' ∧
      MixOK (flat j1) (flat j2) (nextM j1 j2 it1 it2 m).2.2 a' b' ∧ R2 j1 j2 a' b' = (R2 j1 j2 a b).tail := by
  obtain ⟨s1, s2, sm, sst⟩ := m2_sel HG HN hs1 hs2 h1 h2 hm
  unfold nextM
  generalize selM j1 j2 it1 it2 m = s at s1 s2 sm sst
  obtain ⟨i1, i2, ms⟩ := s
  simp only at s1 s2 sm sst ⊢
  obtain ⟨hbk, he1, he2, hd⟩ := sm
  unfold R2
  rcases hd with h0 | ⟨c1, x, hx, e1, e2⟩ | ⟨c2, y, hy, e2, e1⟩ | ⟨c3, e1, e2⟩
  · exact absurd h0 sst
  · have hlt : a < (flat j1).length := (List.getElem?_eq_some_iff.mp e1).1
    refine ⟨a + 1, b, ?_, ?_, ?_, ?_⟩
    · simp only [c1, beq_self_eq_true, if_true]; exact m2_next_ok HG HN hs1 s1 hlt
    · simp only [c1, beq_self_eq_true, if_true]; exact s2
    · simp only [c1, beq_self_eq_true, if_true]
      exact ⟨hbk, fun h => by have := he1 h; omega, he2, Or.inl rfl⟩
    · rw [m2_drop_some e1]
      rcases e2 with e2 | ⟨y, e2, hle⟩
      · rw [m2_drop_none e2]; simp
      · rw [m2_drop_some e2, List.cons_merge_cons]; simp [leTs, hle]
  · have hlt : b < (flat j2).length := (List.getElem?_eq_some_iff.mp e2).1
    have c21 : (ms.st == 1) = false := by simp [c2]
    refine ⟨a, b + 1, ?_, ?_, ?_, ?_⟩
    · simp only [c21, Bool.false_eq_true, if_false]; exact s1
    · simp only [c21, c2, beq_self_eq_true, Bool.false_eq_true, if_false, if_true]; exact m2_next_ok HG HN hs2 s2 hlt
    · simp only [c21, c2, beq_self_eq_true, Bool.false_eq_true, if_false, if_true]
      exact ⟨hbk, he1, fun h => by have := he2 h; omega, Or.inl rfl⟩
    · rw [m2_drop_some e2]
      rcases e1 with e1 | ⟨x, e1, hle⟩
      · rw [m2_drop_none e1]; simp
      · rw [m2_drop_some e1, List.cons_merge_cons]; simp [leTs, hle]
  · have c31 : (ms.st == 1) = false := by simp [c3]
    have c32 : (ms.st == 2) = false := by simp [c3]
    refine ⟨a, b, ?_, ?_, ?_, ?_⟩
    · simp only [c31, Bool.false_eq_true, if_false]; exact s1
    · simp only [c31, c32, Bool.false_eq_true, if_false]; exact s2
    · simp only [c31, c32, Bool.false_eq_true, if_false]
      exact ⟨hbk, he1, he2, Or.inl rfl⟩
    · rw [List.drop_eq_nil_of_le e1, List.drop_eq_nil_of_le e2]; simp

end sem

/-! ## the two-source cursor: abstraction, pages, chains -/

def Abs2 (n1 n2 : Nat) (j1 j2 : Journal) (c : Cur) (a b : Nat) : Prop :=
  ∃ it1 it2 m m0 m1, c = cur2 n1 n2 j1 j2 it1 it2 m m0 m1 ∧ ItOK j1 it1 a ∧ ItOK j2 it2 b ∧
    MixOK (flat j1) (flat j2) m a b

/-- the cursor still has to deliver `L` -/
def Rem2 (n1 n2 : Nat) (j1 j2 : Journal) (c : Cur) (L : List Rec) : Prop :=
  ∃ a b, Abs2 n1 n2 j1 j2 c a b ∧ R2 j1 j2 a b = L

theorem m2_curRelease (n1 n2 j1 j2 it1 it2 m m0 m1) :
    curRelease (cur2 n1 n2 j1 j2 it1 it2 m m0 m1) =
      cur2 n1 n2 j1 j2 (release it1) (release it2)
        { m with eof1 := false, eof2 := false, st := if m.st == 3 then 0 else m.st } m0 m1 := by
  have hd : (cur2 n1 n2 j1 j2 it1 it2 m m0 m1).depth = 3 + 2 := by simp [Cur.depth, cur2]
  have hr : (cur2 n1 n2 j1 j2 it1 it2 m m0 m1).root = 2 := rfl
  unfold curRelease
  rw [hd, hr, nodeRelease]
  have hn : (cur2 n1 n2 j1 j2 it1 it2 m m0 m1).nodes[2]! = .mix 0 1 := by simp [cur2]
  rw [hn]
  simp only
  rw [nodeRelease, nodeRelease]
  simp [cur2, Src.release, setSrc]

theorem m2_collectPos (n1 n2 j1 j2 it1 it2 m m0 m1) :
    collectPos (cur2 n1 n2 j1 j2 it1 it2 m m0 m1) = [(n1, it1.pos), (n2, it2.pos)] := by
  simp [collectPos, cur2, Src.pos]

def mk2 (n1 n2 : Nat) (j1 j2 : Journal) : Cur :=
  mkCur [{ name := n1, jrnl := j1, it := .lib {} }, { name := n2, jrnl := j2, it := .lib {} }] false none none false

theorem m2_applyStatePos (n1 n2 j1 j2 it1 it2 m m0 m1 p1 p2) (hne : n1 ≠ n2) :
    applyStatePos (cur2 n1 n2 j1 j2 it1 it2 m m0 m1) [(n1, p1), (n2, p2)] =
      cur2 n1 n2 j1 j2 (setPos j1 it1 p1) (setPos j2 it2 p2) m m0 m1 := by
  have h : (n1 == n2) = false := by simpa using hne
  simp [applyStatePos, cur2, Src.setPos, h]

theorem m2_applyCorner (n1 n2 j1 j2 it1 it2 m m0 m1) :
    applyCorner (cur2 n1 n2 j1 j2 it1 it2 m m0 m1) false =
      cur2 n1 n2 j1 j2 (setPos j1 it1 {}) (setPos j2 it2 {}) m m0 m1 := by
  simp [applyCorner, cur2, Src.setPos]

theorem m2_fresh_ok (j : Journal) (p : Pos) : ItOK j (setPos j {} p) (flatIdx j p) := by
  obtain ⟨h1, h2, h3⟩ := pg_setPos_fresh j p
  refine ⟨by unfold WF; rw [h1]; trivial, h3, by unfold Synced; rw [h1]; trivial, ?_⟩
  unfold fIdx effPos; rw [h1]; simp [h2]

theorem m2_mixOK_init (l1 l2 : List Rec) (a b : Nat) : MixOK l1 l2 {} a b :=
  ⟨rfl, (by intro h; cases h), (by intro h; cases h), Or.inl rfl⟩

theorem m2_fresh_abs (n1 n2 : Nat) (j1 j2 : Journal) (p1 p2 : Pos) (hne : n1 ≠ n2) :
    Abs2 n1 n2 j1 j2 (applyStatePos (mk2 n1 n2 j1 j2) [(n1, p1), (n2, p2)]) (flatIdx j1 p1) (flatIdx j2 p2) := by
  refine ⟨setPos j1 {} p1, setPos j2 {} p2, {}, {}, {}, ?_, m2_fresh_ok j1 p1, m2_fresh_ok j2 p2, m2_mixOK_init _ _ _ _⟩
  rw [mk2, m2_mkCur, m2_applyStatePos _ _ _ _ _ _ _ _ _ _ _ hne]

theorem m2_head_abs (n1 n2 : Nat) (j1 j2 : Journal) :
    Abs2 n1 n2 j1 j2 (applyCorner (mk2 n1 n2 j1 j2) false) 0 0 := by
  refine ⟨setPos j1 {} {}, setPos j2 {} {}, {}, {}, {}, by rw [mk2, m2_mkCur, m2_applyCorner], ?_, ?_, m2_mixOK_init _ _ _ _⟩
  · have := m2_fresh_ok j1 {}; rw [pg_flatIdx_zero] at this; exact this
  · have := m2_fresh_ok j2 {}; rw [pg_flatIdx_zero] at this; exact this

section sem2
variable (HG : GetFwdSpec) (HN : NextFwdSpec)
include HG HN

theorem m2_curGet_abs {n1 n2 j1 j2 c a b} (hs1 : Sorted j1) (hs2 : Sorted j2) (h : Abs2 n1 n2 j1 j2 c a b) :
    (curGet c).2 = (R2 j1 j2 a b).head? ∧ Abs2 n1 n2 j1 j2 (curGet c).1 a b := by
  obtain ⟨it1, it2, m, m0, m1, rfl, h1, h2, hm⟩ := h
  obtain ⟨s1, s2, sm, sst⟩ := m2_sel HG HN hs1 hs2 h1 h2 hm
  rw [m2_curGet]
  exact ⟨m2_out_head sm sst, _, _, _, _, _, rfl, s1, s2, sm⟩

theorem m2_curNext_abs {n1 n2 j1 j2 c a b} (hs1 : Sorted j1) (hs2 : Sorted j2) (h : Abs2 n1 n2 j1 j2 c a b) :
    ∃ a' b', Abs2 n1 n2 j1 j2 (curNext c) a' b' ∧ R2 j1 j2 a' b' = (R2 j1 j2 a b).tail := by
  obtain ⟨it1, it2, m, m0, m1, rfl, h1, h2, hm⟩ := h
  obtain ⟨a', b', x1, x2, xm, xr⟩ := m2_next HG HN hs1 hs2 h1 h2 hm
  rw [m2_curNext]
  exact ⟨a', b', ⟨_, _, _, _, _, rfl, x1, x2, xm⟩, xr⟩

theorem m2_readLoop {n1 n2 j1 j2} (hs1 : Sorted j1) (hs2 : Sorted j2) : ∀ (k : Nat) (c : Cur) (L acc : List Rec),
    Rem2 n1 n2 j1 j2 c L →
    (readLoop k c acc).2 = acc.reverse ++ L.take k ∧ Rem2 n1 n2 j1 j2 (readLoop k c acc).1 (L.drop k) := by
  intro k
  induction k with
  | zero => intro c L acc h; exact ⟨by simp [readLoop], by simpa [readLoop] using h⟩
  | succ k ih =>
    intro c L acc h
    obtain ⟨a, b, ha, rfl⟩ := h
    obtain ⟨g1, g2⟩ := m2_curGet_abs HG HN hs1 hs2 ha
    rw [readLoop]
    cases hg : (curGet c).2 with
    | none =>
      simp only [hg]
      have hnil : R2 j1 j2 a b = [] := by rw [hg] at g1; exact List.head?_eq_none_iff.mp g1.symm
      exact ⟨by simp [hnil], a, b, g2, by simp [hnil]⟩
    | some r =>
      simp only [hg]
      obtain ⟨a', b', hn, hr⟩ := m2_curNext_abs HG HN hs1 hs2 g2
      have hcons : R2 j1 j2 a b = r :: R2 j1 j2 a' b' := by
        rw [hg] at g1
        cases hL : R2 j1 j2 a b with
        | nil => rw [hL] at g1; cases g1
        | cons x xs => rw [hL] at g1 hr; simp at g1 hr; rw [hr, g1]
      obtain ⟨q1, q2⟩ := ih (curNext (curGet c).1) (R2 j1 j2 a' b') (r :: acc) ⟨a', b', hn, rfl⟩
      refine ⟨?_, ?_⟩
      · rw [q1, hcons]; simp
      · rw [hcons]; simpa using q2

/-- after `commit`: the cursor still has the same to deliver and reports positions of exactly these flat indices -/
theorem m2_commit {n1 n2 j1 j2 c L} (hs1 : Sorted j1) (hs2 : Sorted j2) (h : Rem2 n1 n2 j1 j2 c L) :
    Rem2 n1 n2 j1 j2 (commit c).1 L ∧
    ∃ p1 p2, (commit c).2 = [(n1, p1), (n2, p2)] ∧ R2 j1 j2 (flatIdx j1 p1) (flatIdx j2 p2) = L := by
  obtain ⟨a, b, ha, rfl⟩ := h
  obtain ⟨_, g2⟩ := m2_curGet_abs HG HN hs1 hs2 ha
  obtain ⟨it1, it2, m, m0, m1, e, ⟨w1, b1, sy1, f1⟩, ⟨w2, b2, sy2, f2⟩, hbk, he1, he2, hd⟩ := g2
  have hc : commit c = (curRelease (curGet c).1, collectPos (curGet c).1) := rfl
  rw [hc, e, m2_curRelease, m2_collectPos]
  obtain ⟨r1, r2, r3, r4, r5⟩ := pg_release_facts j1 it1
  obtain ⟨t1, t2, t3, t4, t5⟩ := pg_release_facts j2 it2
  refine ⟨⟨a, b, ⟨_, _, _, _, _, rfl, ⟨r1 w1, by rw [r3, b1], r4 sy1, by unfold fIdx at f1 ⊢; rw [r2, f1]⟩,
      ⟨t1 w2, by rw [t3, b2], t4 sy2, by unfold fIdx at f2 ⊢; rw [t2, f2]⟩, ?_⟩, rfl⟩, it1.pos, it2.pos, rfl, ?_⟩
  · refine ⟨hbk, (by intro h; cases h), (by intro h; cases h), ?_⟩
    rcases hd with h0 | ⟨c1, x⟩ | ⟨c2, y⟩ | ⟨c3, _⟩
    · exact Or.inl (by simp [h0])
    · exact Or.inr (Or.inl ⟨by simp [c1], x⟩)
    · exact Or.inr (Or.inr (Or.inl ⟨by simp [c2], y⟩))
    · exact Or.inl (by simp [c3])
  · rw [← pg_effPos_eq_pos w1 sy1, ← pg_effPos_eq_pos w2 sy2]
    unfold fIdx at f1 f2; rw [f1, f2]

end sem2

/-! ### chains of pages over two partitions (fixed journals) -/

def resume2 (n1 n2 : Nat) (j1 j2 : Journal) (c : Cur) (pm : List (Nat × Pos)) : Choice → Cur
  | .same => c
  | .fresh => applyStatePos (mk2 n1 n2 j1 j2) pm

def chain2 (n1 n2 : Nat) (j1 j2 : Journal) : Cur → List (Nat × Pos) → List (Choice × Nat) → List (List Rec)
  | _, _, [] => []
  | c, pm, st :: rest =>
    (pageOn st.2 (resume2 n1 n2 j1 j2 c pm st.1)).2.1 ::
      chain2 n1 n2 j1 j2 (pageOn st.2 (resume2 n1 n2 j1 j2 c pm st.1)).1 (pageOn st.2 (resume2 n1 n2 j1 j2 c pm st.1)).2.2 rest

def pages2 (n1 n2 : Nat) (j1 j2 : Journal) (l0 : Nat) (steps : List (Choice × Nat)) : List (List Rec) :=
  (pageOn l0 (applyCorner (mk2 n1 n2 j1 j2) false)).2.1 ::
    chain2 n1 n2 j1 j2 (pageOn l0 (applyCorner (mk2 n1 n2 j1 j2) false)).1 (pageOn l0 (applyCorner (mk2 n1 n2 j1 j2) false)).2.2 steps

section sem3
variable (HG : GetFwdSpec) (HN : NextFwdSpec)
include HG HN

theorem m2_pageOn {n1 n2 j1 j2 c L} (hs1 : Sorted j1) (hs2 : Sorted j2) (lim : Nat) (h : Rem2 n1 n2 j1 j2 c L) :
    (pageOn lim c).2.1 = L.take lim ∧ Rem2 n1 n2 j1 j2 (pageOn lim c).1 (L.drop lim) ∧
    ∃ p1 p2, (pageOn lim c).2.2 = [(n1, p1), (n2, p2)] ∧ R2 j1 j2 (flatIdx j1 p1) (flatIdx j2 p2) = L.drop lim := by
  obtain ⟨q1, q2⟩ := m2_readLoop HG HN hs1 hs2 lim c L [] h
  obtain ⟨c1, p1, p2, c2, c3⟩ := m2_commit HG HN hs1 hs2 q2
  exact ⟨by simpa [pageOn] using q1, c1, p1, p2, c2, c3⟩

theorem m2_chain {n1 n2 j1 j2} (hs1 : Sorted j1) (hs2 : Sorted j2) (hne : n1 ≠ n2) :
    ∀ (steps : List (Choice × Nat)) (c : Cur) (L : List Rec) (p1 p2 : Pos),
    Rem2 n1 n2 j1 j2 c L → R2 j1 j2 (flatIdx j1 p1) (flatIdx j2 p2) = L →
    (chain2 n1 n2 j1 j2 c [(n1, p1), (n2, p2)] steps).flatten = L.take (steps.map (·.2)).sum := by
  intro steps
  induction steps with
  | nil => intro c L p1 p2 _ _; simp [chain2]
  | cons st rest ih =>
    intro c L p1 p2 h hp
    have hres : Rem2 n1 n2 j1 j2 (resume2 n1 n2 j1 j2 c [(n1, p1), (n2, p2)] st.1) L := by
      cases hc : st.1 with
      | same => simpa [resume2] using h
      | fresh => exact ⟨_, _, by simpa [resume2] using m2_fresh_abs n1 n2 j1 j2 p1 p2 hne, hp⟩
    obtain ⟨e1, r1, q1, q2, e2, e3⟩ := m2_pageOn HG HN hs1 hs2 st.2 hres
    rw [chain2, List.flatten_cons, e2, ih _ _ q1 q2 r1 e3, e1]
    simp only [List.map_cons, List.sum_cons]
    rw [List.take_add]

/-- **paging over a merged cursor of two partitions** (un-ranged, unfiltered, journals fixed) -/
theorem m2_paging {n1 n2 : Nat} {j1 j2 : Journal} (hs1 : Sorted j1) (hs2 : Sorted j2) (hne : n1 ≠ n2) (l0 : Nat)
    (steps : List (Choice × Nat)) :
    (pages2 n1 n2 j1 j2 l0 steps).flatten =
      (List.merge (flat j1) (flat j2) leTs).take (l0 + (steps.map (·.2)).sum) := by
  have h0 : Rem2 n1 n2 j1 j2 (applyCorner (mk2 n1 n2 j1 j2) false) (List.merge (flat j1) (flat j2) leTs) :=
    ⟨0, 0, m2_head_abs n1 n2 j1 j2, by simp [R2]⟩
  obtain ⟨e1, r1, q1, q2, e2, e3⟩ := m2_pageOn HG HN hs1 hs2 l0 h0
  rw [pages2, List.flatten_cons, e2, m2_chain HG HN hs1 hs2 hne steps _ _ q1 q2 r1 e3, e1, List.take_add]

end sem3

/-! ### what the merge is, in the property's words -/

theorem m2_sublist_left (le : Rec → Rec → Bool) : ∀ (l1 l2 : List Rec), l1.Sublist (List.merge l1 l2 le) := by
  intro l1
  induction l1 with
  | nil => intro l2; exact List.nil_sublist _
  | cons x xs ih =>
    intro l2
    induction l2 with
    | nil => rw [List.merge_right]; exact List.Sublist.refl _
    | cons y ys ih2 =>
      rw [List.cons_merge_cons]
      split
      · exact List.Sublist.cons₂ x (ih (y :: ys))
      · exact List.Sublist.cons y ih2

theorem m2_sublist_right (le : Rec → Rec → Bool) : ∀ (l1 l2 : List Rec), l2.Sublist (List.merge l1 l2 le) := by
  intro l1
  induction l1 with
  | nil => intro l2; rw [List.nil_merge]; exact List.Sublist.refl _
  | cons x xs ih =>
    intro l2
    induction l2 with
    | nil => exact List.nil_sublist _
    | cons y ys ih2 =>
      rw [List.cons_merge_cons]
      split
      · exact List.Sublist.cons x (ih (y :: ys))
      · exact List.Sublist.cons₂ y ih2
end Logrange.Rd
