import Logrange.Model.ITree
import Logrange.Proofs.Points
import Logrange.Proofs.ChunkHist
/-!
# C02 — the inductive model of the `ckindex` block tree (`Logrange.ITree`) against the flat list (`Logrange.Points`)

(1) one level-0 block is the flat list (`tree_eq_points_level0`);
(2) on append-only input the whole tree evolves like the flat list and keeps its invariant (`tree_append_refines`);
(3) look-ups through a well-formed tree are look-ups on the flat list (`tree_lookup_eq_points`, `tree_lookup_records`);
(4) evaluated examples.
-/
namespace Logrange.ITree
open Logrange.Points (Pt Iv)
open Logrange.Points

/-! ## small list facts -/
theorem cntLE_le_length (pts : List Pt) (t : Int) : Points.cntLE pts t ≤ pts.length := by
  induction pts with
  | nil => simp [Points.cntLE]
  | cons a r ih =>
    by_cases h : a.ts ≤ t
    · rw [cntLE_cons_le h]; simp; exact ih
    · rw [cntLE_cons_gt h]; simp

theorem lastD_eq_getLastD (l : List Pt) : Points.lastD l = l.getLastD zeroPt := rfl

theorem take_snoc_getD (l : List Pt) (k : Nat) (d : Pt) (h : k < l.length) : l.take k ++ [l.getD k d] = l.take (k+1) := by
  rw [List.take_add_one, List.getD_eq_getElem?_getD, List.getElem?_eq_getElem h]
  simp

theorem leaf_insIdx (recs : List Pt) (ts : Int) (h : recs.length ≠ 0) :
    findIntervalInsertIdx (.leaf recs) ts = (Points.cntLE recs ts : Int) - 1 := by
  simp [findIntervalInsertIdx, records, recsOf, ITree.cntLE, h]

theorem leaf_intervals (recs : List Pt) (h : 2 ≤ recs.length) : intervals (.leaf recs) = recs.length - 1 := by
  have : ¬ recs.length ≤ 1 := by omega
  simp [intervals, records, recsOf, this]

theorem leaf_blockAdd (m d : Nat) (recs : List Pt) (it : Iv) (hlen : recs.length ≠ 1) :
    blockAdd m (d+1) (.leaf recs) it =
      if recs.length = m ∧ Points.cntLE recs it.p0.ts = recs.length then (.leaf recs, Points.lastD recs, some .full)
      else (.leaf (Points.add recs it), Points.lastD (Points.add recs it), none) := by
  by_cases hnil : recs = []
  · subst hnil
    by_cases hm : 0 = m
    · subst hm
      simp [blockAdd, findIntervalInsertIdx, intervals, records, recsOf, appendInterval, Points.cntLE, Points.lastD, zeroPt]
    · have hm' : ¬ m = 0 := fun h => hm h.symm
      simp [blockAdd, findIntervalInsertIdx, intervals, records, recsOf, appendInterval, Points.cntLE, Points.lastD,
        Points.add, hm]
  · have hn : 2 ≤ recs.length := by
      cases recs with
      | nil => exact absurd rfl hnil
      | cons a r => cases r with
        | nil => exact absurd rfl hlen
        | cons b r' => simp
    have hcl := cntLE_le_length recs it.p0.ts
    have hadd : Points.add recs it =
        (let c := Points.cntLE recs it.p0.ts
         if c = recs.length then recs ++ [it.p1]
         else
          let p1 : Pt := ⟨max it.p1.ts (Points.lastD recs).ts, it.p1.idx⟩
          if c = 0 then [⟨min it.p0.ts (Points.headD recs).ts, min it.p0.idx (Points.headD recs).idx⟩, p1]
          else recs.take c ++ [p1]) := by
      cases recs with
      | nil => exact absurd rfl hnil
      | cons a r => rfl
    rw [hadd]
    generalize hc : Points.cntLE recs it.p0.ts = c at hcl
    have hI := leaf_insIdx recs it.p0.ts (by omega)
    have hints := leaf_intervals recs hn
    rw [hc] at hI
    have hpos : recs.length - 1 > 0 := by omega
    simp only [blockAdd, hI, hints, hpos, if_true]
    by_cases hfull : c = recs.length
    · have e1 : (c : Int) - 1 = ((recs.length - 1 : Nat) : Int) := by omega
      rw [if_pos e1]
      simp only [hfull, and_true]
      by_cases hm : recs.length = m
      · simp [appendInterval, records, recsOf, hm, lastD_eq_getLastD]
      · have h0 : ¬ recs.length = 0 := by omega
        simp [appendInterval, records, recsOf, hm, h0, Points.lastD]
    · have hne : ¬ ((c : Int) - 1 = ((recs.length - 1 : Nat) : Int)) := by omega
      rw [if_neg hne]
      simp only [hfull, and_false, if_false]
      by_cases h0 : c = 0
      · subst h0
        simp [setLastInterval, reduce, Points.headD, Points.lastD, zeroPt]
      · have hpos' : ¬ ((c : Int) - 1 < 0) := by omega
        have htn : ((c : Int) - 1).toNat = c - 1 := by omega
        have hck : c - 1 + 2 = c + 1 := by omega
        have hlt : c - 1 < recs.length := by omega
        have htk : List.take (c - 1) recs ++ [recs.getD (c - 1) zeroPt] = List.take c recs := by
          have := take_snoc_getD recs (c - 1) zeroPt hlt
          rw [this]; congr 1; omega
        have hmin : min (min (c + 1) recs.length - 2) (c + 1) = c - 1 := by omega
        have hl0 : ¬ min (c + 1) recs.length = 0 := by omega
        simp only [hpos', if_false, htn, hck, setLastInterval, List.length_take, hl0, List.take_take, hmin, h0]
        have e : List.take (c - 1) recs ++ [recs.getD (c - 1) zeroPt, ⟨max it.p1.ts (recs.getLastD zeroPt).ts, it.p1.idx⟩]
            = List.take c recs ++ [⟨max it.p1.ts (recs.getLastD zeroPt).ts, it.p1.idx⟩] := by
          rw [← htk]; simp
        rw [e]; simp [Points.lastD, zeroPt]

theorem getD_pred_eq_getLastD (l : List Pt) (d : Pt) : l.getD (l.length - 1) d = l.getLastD d := by
  rw [List.getLastD_eq_getLast?, List.getLast?_eq_getElem?, List.getD_eq_getElem?_getD]

theorem leaf_findIdx (recs : List Pt) (ts : Int) (h : recs ≠ []) :
    findIntervalIdx (.leaf recs) ts = (Points.cntLE recs ts : Int) - 1 := by
  have : recs.length ≠ 0 := by simpa using h
  simp [findIntervalIdx, records, recsOf, ITree.cntLE, this]

theorem leaf_intervals' (recs : List Pt) (h : recs ≠ []) : intervals (.leaf recs) = recs.length - 1 := by
  have : recs.length ≠ 0 := by simpa using h
  have hr : records (.leaf recs) = recs.length := rfl
  unfold intervals
  rw [hr]
  by_cases h1 : recs.length ≤ 1
  · rw [if_pos h1]; omega
  · rw [if_neg h1]

theorem leaf_grEq (recs : List Pt) (ts : Int) :
    (recs ≠ [] → (grEq (.leaf recs) ts = none ↔ Points.cntLE recs ts = 0)) ∧
    (∀ r, grEq (.leaf recs) ts = some r → r.idx = Points.grEqPos recs ts) := by
  by_cases hnil : recs = []
  · subst hnil
    refine ⟨fun h => absurd rfl h, ?_⟩
    intro r h
    simp [grEq, findIntervalIdx, intervals, records, recsOf, lastRec, zeroPt] at h
    subst h
    simp [Points.grEqPos, Points.cntLE]
  · have hcl := cntLE_le_length recs ts
    have hl : recs.length ≠ 0 := by simpa using hnil
    have hI := leaf_findIdx recs ts hnil
    have hints := leaf_intervals' recs hnil
    generalize hc : Points.cntLE recs ts = c at hcl hI
    simp only [grEq, hI, hints]
    by_cases h0 : c = 0
    · subst h0
      simp [Points.grEqPos, hc]
    · have hpos : ¬ ((c : Int) - 1 < 0) := by omega
      rw [if_neg hpos]
      by_cases hfull : c = recs.length
      · have e1 : (c : Int) - 1 = ((recs.length - 1 : Nat) : Int) := by omega
        rw [if_pos e1]
        refine ⟨fun _ => by simp [h0], ?_⟩
        intro r h
        simp only [Option.some.injEq] at h
        subst h
        obtain ⟨n, hn⟩ : ∃ n, c = n + 1 := ⟨c - 1, by omega⟩
        have : n = recs.length - 1 := by omega
        simp only [Points.grEqPos, hc, hn, lastRec]
        rw [this, getD_pred_eq_getLastD]; rfl
      · have hne : ¬ ((c : Int) - 1 = ((recs.length - 1 : Nat) : Int)) := by omega
        rw [if_neg hne]
        refine ⟨fun _ => by simp [h0], ?_⟩
        intro r h
        simp only [Option.some.injEq] at h
        subst h
        obtain ⟨n, hn⟩ : ∃ n, c = n + 1 := ⟨c - 1, by omega⟩
        have : ((c : Int) - 1).toNat = n := by omega
        simp only [Points.grEqPos, hc, hn]
        rw [← hn, this]; rfl

theorem leaf_less (recs : List Pt) (ts : Int) :
    (less (.leaf recs) ts).map (·.idx) = Points.lessPos recs ts := by
  by_cases hnil : recs = []
  · subst hnil
    simp [less, findIntervalIdx, intervals, records, recsOf, Points.lessPos, Points.cntLE]
  · have hcl := cntLE_le_length recs ts
    have hl : recs.length ≠ 0 := by simpa using hnil
    have hI := leaf_findIdx recs ts hnil
    have hints := leaf_intervals' recs hnil
    generalize hc : Points.cntLE recs ts = c at hcl hI
    simp only [less, hI, hints, Points.lessPos, hc]
    by_cases h0 : c = 0
    · subst h0
      cases recs with
      | nil => exact absurd rfl hnil
      | cons a r => simp [firstRec]
    · have hpos : ¬ ((c : Int) - 1 < 0) := by omega
      rw [if_neg hpos]
      by_cases hfull : c = recs.length
      · have e1 : (c : Int) - 1 = ((recs.length - 1 : Nat) : Int) := by omega
        rw [if_pos e1, hfull]
        simp
      · have hne : ¬ ((c : Int) - 1 = ((recs.length - 1 : Nat) : Int)) := by omega
        rw [if_neg hne]
        have hlt : c < recs.length := by omega
        have : ((c : Int) - 1).toNat + 1 = c := by omega
        rw [this, List.drop_eq_getElem_cons hlt]
        simp [List.getD_eq_getElem?_getD, List.getElem?_eq_getElem hlt]

theorem lessPos_none_iff (recs : List Pt) (ts : Int) : Points.lessPos recs ts = none ↔ Points.cntLE recs ts = recs.length := by
  have hcl := cntLE_le_length recs ts
  unfold Points.lessPos
  constructor
  · intro h
    split at h
    · rename_i he
      have := congrArg List.length he
      simp at this; omega
    · simp at h
  · intro h
    rw [h]; simp

/-- **(1)** a single level-0 block behaves exactly like the flat list `Points`: `block.addInterval` is `Points.add`
(`errFullBlock` exactly when the block holds `maxRecs` records and the append case applies; the block is then unchanged
and the returned record is its last one), and the two look-ups are `grEqPos` / `lessPos`. -/
theorem tree_eq_points_level0 (maxRecs d : Nat) (recs : List Pt) (it : Iv) (hlen : recs.length ≠ 1) :
    (blockAdd maxRecs (d+1) (.leaf recs) it =
      if recs.length = maxRecs ∧ Points.cntLE recs it.p0.ts = recs.length then (.leaf recs, Points.lastD recs, some .full)
      else (.leaf (Points.add recs it), Points.lastD (Points.add recs it), none)) ∧
    (∀ t, (recs ≠ [] → (grEq (.leaf recs) t = none ↔ Points.cntLE recs t = 0)) ∧
          (∀ r, grEq (.leaf recs) t = some r → r.idx = Points.grEqPos recs t) ∧
          (less (.leaf recs) t).map (·.idx) = Points.lessPos recs t ∧
          (less (.leaf recs) t = none ↔ Points.cntLE recs t = recs.length)) := by
  refine ⟨leaf_blockAdd maxRecs d recs it hlen, fun t => ⟨(leaf_grEq recs t).1, (leaf_grEq recs t).2, leaf_less recs t, ?_⟩⟩
  rw [← lessPos_none_iff, ← leaf_less]
  cases less (.leaf recs) t <;> simp

/-! ## (2) the invariant of reachable trees and the append-only refinement -/

/-- the upper points of the level-0 intervals in traversal order -/
def p1s (t : T) : List Pt := (traversal t).map (·.p1)

/-- no gap between neighbouring children: the last level-0 record of one is the first of the next -/
def Contig : List T → Prop
  | [] => True
  | [_] => True
  | a :: b :: r => lastRec a = firstRec b ∧ Contig (b :: r)

/-- the invariant of a non-root subtree of level `d` -/
def WFd (m : Nat) : Nat → T → Prop
  | 0, .leaf recs => 2 ≤ recs.length ∧ recs.length ≤ m ∧ SortedTs recs
  | d+1, .node l keys kids last =>
      l = d+1 ∧ kids ≠ [] ∧ kids.length + 1 ≤ m ∧ (∀ k ∈ kids, WFd m d k) ∧
      keys = kids.map (fun k => (firstRec k).ts) ∧
      kids.getLast?.map lastRec = some last ∧
      Contig kids ∧
      (∀ k ∈ keys, k ≤ last.ts) ∧
      SortedTs (firstRec (.node l keys kids last) :: p1s (.node l keys kids last))
  | _, _ => False

/-- reachable trees: the empty index, or a well-formed tree of its level -/
def WF (m : Nat) (t : T) : Prop := t = .leaf [] ∨ WFd m (level t) t

def AppendOnly (t : T) (it : Iv) : Prop := ∀ p ∈ points t, p.ts ≤ it.p0.ts

/-! ### structural facts -/

theorem pairs_p1 : ∀ (recs : List Pt), (pairs recs).map (·.p1) = recs.tail
  | [] => rfl
  | [_] => rfl
  | a :: b :: r => by
    have := pairs_p1 (b :: r)
    simp [pairs, this]

theorem p1s_leaf (recs : List Pt) : p1s (.leaf recs) = recs.tail := by
  simp [p1s, traversal, pairs_p1]

theorem traversalL_eq (kids : List T) : traversalL kids = kids.flatMap traversal := by
  induction kids with
  | nil => simp [traversalL]
  | cons k ks ih => simp [traversalL, ih]

theorem p1s_node (l : Nat) (keys : List Int) (kids : List T) (last : Pt) :
    p1s (.node l keys kids last) = kids.flatMap p1s := by
  simp [p1s, traversal, traversalL_eq, List.map_flatMap]
  rfl

theorem firstRecL_snoc (ks : List T) (k k' : T) (h : firstRec k' = firstRec k) :
    firstRecL (ks ++ [k']) = firstRecL (ks ++ [k]) := by
  cases ks with
  | nil => simp [firstRecL, h]
  | cons a r => simp [firstRecL]

theorem firstRecL_snoc2 (ks : List T) (k c : T) : firstRecL (ks ++ [k] ++ [c]) = firstRecL (ks ++ [k]) := by
  cases ks with
  | nil => simp [firstRecL]
  | cons a r => simp [firstRecL]

theorem lastRecL_snoc (ks : List T) (k : T) : lastRecL (ks ++ [k]) ks.length = lastRec k := by
  induction ks with
  | nil => simp [lastRecL]
  | cons a r ih => simpa [lastRecL] using ih

theorem contig_replace_last : ∀ (ks : List T) (k k' : T), Contig (ks ++ [k]) → firstRec k' = firstRec k → Contig (ks ++ [k'])
  | [], _, _, _, _ => by simp [Contig]
  | [a], k, k', h, e => by
    simp [Contig] at h ⊢; rw [e]; exact h
  | a :: b :: r, k, k', h, e => by
    have := contig_replace_last (b :: r) k k'
    simp [Contig] at h this ⊢
    exact ⟨h.1, this h.2 e⟩

theorem contig_snoc : ∀ (ks : List T) (k c : T), Contig (ks ++ [k]) → lastRec k = firstRec c → Contig (ks ++ [k] ++ [c])
  | [], _, _, _, e => by simp [Contig, e]
  | [a], k, c, h, e => by
    simp [Contig] at h ⊢; exact ⟨h, e⟩
  | a :: b :: r, k, c, h, e => by
    have := contig_snoc (b :: r) k c
    simp [Contig] at h this ⊢
    exact ⟨h.1, this h.2 e⟩

theorem exists_snoc {α : Type} (l : List α) (h : l ≠ []) : ∃ ks k, l = ks ++ [k] :=
  ⟨l.dropLast, l.getLast h, (List.dropLast_concat_getLast h).symm⟩


/-! ### what the invariant gives -/

theorem wfd_level (m : Nat) : ∀ (d : Nat) (t : T), WFd m d t → level t = d
  | 0, .leaf _, _ => rfl
  | 0, .node .., h => by simp [WFd] at h
  | d+1, .leaf _, h => by simp [WFd] at h
  | d+1, .node l keys kids last, h => by simp only [WFd] at h; simp [level, h.1]

theorem wfd_trav (m : Nat) : ∀ (d : Nat) (t : T), WFd m d t → ∃ iv r, traversal t = iv :: r ∧ iv.p0 = firstRec t
  | 0, .leaf recs, h => by
    simp only [WFd] at h
    match recs, h with
    | a :: b :: r, _ => exact ⟨⟨a, b⟩, pairs (b :: r), by simp [traversal, pairs], by simp [firstRec]⟩
  | 0, .node .., h => by simp [WFd] at h
  | d+1, .leaf _, h => by simp [WFd] at h
  | d+1, .node l keys kids last, h => by
    simp only [WFd] at h
    obtain ⟨_, hne, _, hk, hkeys, _⟩ := h
    match kids, hne with
    | k :: ks, _ =>
      obtain ⟨iv, r, e1, e2⟩ := wfd_trav m d k (hk k (by simp))
      refine ⟨iv, r ++ traversalL ks, by simp [traversal, traversalL, e1], ?_⟩
      rw [e2, hkeys]; simp [firstRec, firstRecL]

theorem wfd_points (m d : Nat) (t : T) (h : WFd m d t) : points t = firstRec t :: p1s t := by
  obtain ⟨iv, r, e1, e2⟩ := wfd_trav m d t h
  simp [points, p1s, e1, e2]

theorem tail_getLast? : ∀ (recs : List Pt), 2 ≤ recs.length → recs.tail.getLast? = some (recs.getLastD zeroPt)
  | a :: b :: r, _ => by
    have : (b :: r).getLast? = some ((b :: r).getLast (by simp)) := List.getLast?_eq_some_getLast (by simp)
    simp [List.getLastD_eq_getLast?, List.getLast?_cons_cons, this]

theorem wfd_p1s_last (m : Nat) : ∀ (d : Nat) (t : T), WFd m d t → (p1s t).getLast? = some (lastRec t)
  | 0, .leaf recs, h => by
    simp only [WFd] at h
    rw [p1s_leaf, tail_getLast? recs h.1]; rfl
  | 0, .node .., h => by simp [WFd] at h
  | d+1, .leaf _, h => by simp [WFd] at h
  | d+1, .node l keys kids last, h => by
    simp only [WFd] at h
    obtain ⟨_, hne, _, hk, hkeys, _⟩ := h
    obtain ⟨ks, k, rfl⟩ := exists_snoc kids hne
    have ih := wfd_p1s_last m d k (hk k (by simp))
    have hl : keys.length - 1 = ks.length := by rw [hkeys]; simp
    have hkn : keys ≠ [] := by rw [hkeys]; simp
    rw [p1s_node]
    simp only [List.flatMap_append, List.flatMap_cons, List.flatMap_nil, List.append_nil, List.getLast?_append, ih]
    match keys, hkn with
    | _ :: _, _ => simp only [lastRec]; rw [hl, lastRecL_snoc]; simp

theorem wfd_lastD (m d : Nat) (t : T) (h : WFd m d t) : Points.lastD (firstRec t :: p1s t) = lastRec t := by
  have := wfd_p1s_last m d t h
  cases hp : p1s t with
  | nil => rw [hp] at this; simp at this
  | cons a r =>
    rw [hp] at this
    simp only [Points.lastD, List.getLastD_eq_getLast?, List.getLast?_cons_cons, this]; rfl

theorem wfd_last_mem (m d : Nat) (t : T) (h : WFd m d t) : lastRec t ∈ points t := by
  rw [wfd_points m d t h, ← wfd_lastD m d t h]
  exact lastD_mem _ (by simp)

theorem sorted_head_le : ∀ (l : List Pt) (a : Pt), SortedTs (a :: l) → ∀ p ∈ l, a.ts ≤ p.ts
  | [], _, _, p, hp => by simp at hp
  | b :: r, a, hs, p, hp => by
    have h1 : a.ts ≤ b.ts := hs.1
    cases hp with
    | head => exact h1
    | tail _ hp' => exact Int.le_trans h1 (sorted_head_le r b hs.2 p hp')

theorem wfd_sorted (m : Nat) : ∀ (d : Nat) (t : T), WFd m d t → SortedTs (firstRec t :: p1s t)
  | 0, .leaf recs, h => by
    simp only [WFd] at h
    match recs, h with
    | a :: b :: r, h => simpa [firstRec, p1s_leaf] using h.2.2
  | 0, .node .., h => by simp [WFd] at h
  | d+1, .leaf _, h => by simp [WFd] at h
  | d+1, .node l keys kids last, h => by
    simp only [WFd] at h
    exact h.2.2.2.2.2.2.2.2

theorem wfd_first_le_last (m d : Nat) (t : T) (h : WFd m d t) : (firstRec t).ts ≤ (lastRec t).ts := by
  have hs := wfd_sorted m d t h
  have hl := wfd_p1s_last m d t h
  exact sorted_head_le _ _ hs _ (List.mem_of_getLast? hl)

theorem wfd_tbi (m : Nat) : ∀ (d : Nat) (t : T), WFd m d t → theBlockInterval t = ⟨⟨(firstRec t).ts, 0⟩, lastRec t⟩
  | 0, .leaf recs, _ => rfl
  | 0, .node .., h => by simp [WFd] at h
  | d+1, .leaf _, h => by simp [WFd] at h
  | d+1, .node l keys kids last, h => by
    simp only [WFd] at h
    obtain ⟨_, hne, _, hk, hkeys, hlast, _⟩ := h
    obtain ⟨ks, k, rfl⟩ := exists_snoc kids hne
    have hl : keys.length - 1 = ks.length := by rw [hkeys]; simp
    have hkn : keys ≠ [] := by rw [hkeys]; simp
    have hlast' : last = lastRec k := by simpa using hlast.symm
    match keys, hkn with
    | k0 :: kr, _ =>
      simp only [theBlockInterval, firstRec, lastRec, List.headD_cons]
      rw [hl, lastRecL_snoc, hlast']
      have : k0 = (firstRecL (ks ++ [k])).ts := by
        cases ks with
        | nil => simp at hkeys; simp [firstRecL, hkeys.1]
        | cons a r => simp at hkeys; simp [firstRecL, hkeys.1]
      rw [this]


/-! ### one upper-level block, computed -/

theorem recsOf_node (l : Nat) (keys : List Int) (kids : List T) (last : Pt) (hk : keys ≠ []) :
    recsOf (.node l keys kids last) = keys.map (fun k => (⟨k, 0⟩ : Pt)) ++ [last] := by
  match keys, hk with
  | _ :: _, _ => rfl

theorem records_node (l : Nat) (keys : List Int) (kids : List T) (last : Pt) (hk : keys ≠ []) :
    records (.node l keys kids last) = keys.length + 1 := by
  simp [records, recsOf_node l keys kids last hk]

theorem intervals_node (l : Nat) (keys : List Int) (kids : List T) (last : Pt) (hk : keys ≠ []) :
    intervals (.node l keys kids last) = keys.length := by
  have hl : keys.length ≠ 0 := by simpa using hk
  unfold intervals
  rw [records_node l keys kids last hk]
  have : ¬ keys.length + 1 ≤ 1 := by omega
  rw [if_neg this]; omega

theorem cntLE_node_all (l : Nat) (keys : List Int) (kids : List T) (last : Pt) (hk : keys ≠ []) (ts : Int)
    (h1 : ∀ k ∈ keys, k ≤ ts) (h2 : last.ts ≤ ts) : ITree.cntLE (.node l keys kids last) ts = keys.length + 1 := by
  unfold ITree.cntLE
  rw [recsOf_node l keys kids last hk, Logrange.ChunkHist.cntLE_eq_length_of_all_le]
  · simp
  · intro p hp
    simp at hp
    rcases hp with ⟨k, hk', rfl⟩ | rfl
    · exact h1 k hk'
    · exact h2

theorem insIdx_node_all (l : Nat) (keys : List Int) (kids : List T) (last : Pt) (hk : keys ≠ []) (ts : Int)
    (h1 : ∀ k ∈ keys, k ≤ ts) (h2 : last.ts ≤ ts) :
    findIntervalInsertIdx (.node l keys kids last) ts = (keys.length : Int) - 1 := by
  unfold findIntervalInsertIdx
  simp only [records_node l keys kids last hk, cntLE_node_all l keys kids last hk ts h1 h2]
  simp; omega

theorem blockAdd_node (m d l : Nat) (keys : List Int) (kids : List T) (last : Pt) (it : Iv) :
    blockAdd m (d+1) (.node l keys kids last) it =
      upperLoop m (blockAdd m d) (m + 1)
        (removeLoop ((intervals (.node l keys kids last) : Int) - (findIntervalInsertIdx (.node l keys kids last) it.p0.ts + 1)).toNat
          (.node l keys kids last)) it
        (findIntervalInsertIdx (.node l keys kids last) it.p0.ts).toNat
        (intervals (removeLoop ((intervals (.node l keys kids last) : Int) - (findIntervalInsertIdx (.node l keys kids last) it.p0.ts + 1)).toNat
          (.node l keys kids last)) == 0) := rfl

theorem upperLoop_old_ok (m : Nat) (addKid : T → Iv → Res) (n : Nat) (b : T) (it : Iv) (i : Nat) (lb' : T) (lr : Pt)
    (h : addKid (kidAt b i) it = (lb', lr, none)) :
    upperLoop m addKid (n+1) b it i false = (setLastInterval b (theBlockInterval lb') lb', lr, none) := by
  simp [upperLoop, h]

theorem upperLoop_new_ok (m : Nat) (addKid : T → Iv → Res) (n : Nat) (b : T) (it : Iv) (i : Nat) (lb' : T) (lr : Pt)
    (h : addKid (emptyBlock (level b - 1)) it = (lb', lr, none)) :
    upperLoop m addKid (n+1) b it i true = (setLastInterval b (theBlockInterval lb') lb', lr, none) := by
  simp [upperLoop, h]

theorem upperLoop_old_full_full (m : Nat) (addKid : T → Iv → Res) (n : Nat) (b : T) (it : Iv) (i : Nat) (lb' : T) (lr : Pt)
    (h : addKid (kidAt b i) it = (lb', lr, some .full)) (b2 : T) (r2 : Pt) (e : Err)
    (h2 : appendInterval m (setKid b i lb') it = (b2, r2, some e)) :
    upperLoop m addKid (n+1) b it i false = (setKid b i lb', lr, some .full) := by
  simp [upperLoop, h, h2]

theorem upperLoop_old_full_ok (m : Nat) (addKid : T → Iv → Res) (n : Nat) (b : T) (it : Iv) (i : Nat) (lb' : T) (lr : Pt)
    (h : addKid (kidAt b i) it = (lb', lr, some .full)) (b2 : T) (r2 : Pt)
    (h2 : appendInterval m (setKid b i lb') it = (b2, r2, none)) :
    upperLoop m addKid (n+1) b it i false = upperLoop m addKid n b2 { it with p0 := lr } i true := by
  simp [upperLoop, h, h2]

theorem appendInterval_node_full (m l : Nat) (keys : List Int) (kids : List T) (last : Pt) (it : Iv) (hk : keys ≠ [])
    (hm : keys.length + 1 = m) :
    appendInterval m (.node l keys kids last) it = (.node l keys kids last, last, some .full) := by
  unfold appendInterval
  simp [records_node l keys kids last hk, hm, recsOf_node l keys kids last hk]

theorem appendInterval_node_ok (m l : Nat) (keys : List Int) (kids : List T) (last : Pt) (it : Iv) (hk : keys ≠ [])
    (hm : keys.length + 1 ≠ m) :
    appendInterval m (.node l keys kids last) it = (.node l (keys ++ [last.ts]) kids it.p1, it.p1, none) := by
  unfold appendInterval
  simp [records_node l keys kids last hk, hm]

theorem setLastInterval_node (l : Nat) (keys : List Int) (kids : List T) (last : Pt) (it : Iv) (kid : T) (hk : keys ≠ []) :
    setLastInterval (.node l keys kids last) it kid =
      .node l (keys.dropLast ++ [it.p0.ts]) (kids.take (keys.length - 1) ++ [kid]) it.p1 := by
  match keys, hk with
  | _ :: _, _ => rfl


/-! ### appending -/

theorem wfd_single (m d : Nat) (hm : 2 ≤ m) (c : T) (h : WFd m d c) :
    WFd m (d+1) (.node (d+1) [(firstRec c).ts] [c] (lastRec c)) := by
  simp only [WFd]
  refine ⟨trivial, by simp, by simpa using hm, by simpa using h, by simp, by simp, by simp [Contig], ?_, ?_⟩
  · intro k hk
    simp at hk; subst hk
    exact wfd_first_le_last m d c h
  · have := wfd_sorted m d c h
    simpa [firstRec, firstRecL, p1s_node] using this

theorem new_chain (m : Nat) (hm : 2 ≤ m) : ∀ (d : Nat) (it : Iv), it.p0.ts ≤ it.p1.ts →
    ∃ c, blockAdd m (d+1) (emptyBlock d) it = (c, it.p1, none) ∧ WFd m d c ∧ p1s c = [it.p1] ∧
      firstRec c = it.p0 ∧ lastRec c = it.p1
  | 0, it, h01 => by
    refine ⟨.leaf [it.p0, it.p1], ?_, ?_, ?_, rfl, rfl⟩
    · have := leaf_blockAdd m 0 [] it (by simp)
      have hm0 : ¬ (0 = m) := by omega
      simpa [emptyBlock, hm0, Points.add, Points.lastD] using this
    · simp only [WFd]
      exact ⟨by simp, by simpa using hm, ⟨h01, trivial⟩⟩
    · simp [p1s_leaf]
  | d+1, it, h01 => by
    obtain ⟨c, hc, hwf, hp, hf, hl⟩ := new_chain m hm d it h01
    have he : emptyBlock (d+1) = .node (d+1) [] [] zeroPt := by simp [emptyBlock]
    have hI : findIntervalInsertIdx (.node (d+1) [] [] zeroPt) it.p0.ts = 0 := by
      simp [findIntervalInsertIdx, records, recsOf]
    have hints : intervals (.node (d+1) [] [] zeroPt) = 0 := by
      simp [intervals, records, recsOf]
    have hstep : blockAdd m (d+1+1) (.node (d+1) [] [] zeroPt) it =
        (setLastInterval (.node (d+1) [] [] zeroPt) (theBlockInterval c) c, it.p1, none) := by
      rw [blockAdd_node, hI, hints]
      simp only [Int.toNat_zero]
      have : (((0 : Nat) : Int) - (0 + 1)).toNat = 0 := by omega
      rw [this]
      simp only [removeLoop, hints, beq_self_eq_true]
      exact upperLoop_new_ok m (blockAdd m (d+1)) m _ it 0 c it.p1 (by simpa [level] using hc)
    refine ⟨.node (d+1) [(firstRec c).ts] [c] (lastRec c), ?_, wfd_single m d hm c hwf, ?_, ?_, ?_⟩
    · rw [he, hstep, wfd_tbi m d c hwf]; rfl
    · simp [p1s_node, hp]
    · simp [firstRec, firstRecL, hf]
    · simp [lastRec, lastRecL, hl]


theorem sorted_le_last : ∀ (l : List Pt), SortedTs l → ∀ p ∈ l, p.ts ≤ (Points.lastD l).ts
  | [], _, p, hp => by simp at hp
  | [a], _, p, hp => by simp at hp; subst hp; simp [Points.lastD]
  | a :: b :: r, hs, p, hp => by
    rw [lastD_cons_cons]
    have ih := sorted_le_last (b :: r) hs.2
    cases hp with
    | head => exact Int.le_trans hs.1 (ih b (by simp))
    | tail _ hp' => exact ih p hp'

theorem add_append_case (recs : List Pt) (it : Iv) (hne : recs ≠ []) (hc : Points.cntLE recs it.p0.ts = recs.length) :
    Points.add recs it = recs ++ [it.p1] := by
  cases recs with
  | nil => exact absurd rfl hne
  | cons a r => simp only [Points.add, hc, if_true]

theorem set_snoc (ks : List T) (k k' : T) : (ks ++ [k]).set ks.length k' = ks ++ [k'] := by
  induction ks with
  | nil => rfl
  | cons a r ih => simp [ih]

theorem lastRec_node_snoc (l : Nat) (keys : List Int) (ks : List T) (k : T) (la : Pt) (h : keys.length = ks.length + 1) :
    lastRec (.node l keys (ks ++ [k]) la) = lastRec k := by
  match keys, h with
  | x :: r, h =>
    simp only [lastRec]
    have : (x :: r).length - 1 = ks.length := by simp at h ⊢; omega
    rw [this]; exact lastRecL_snoc ks k

theorem blockAdd_append (m : Nat) (hm : 2 ≤ m) : ∀ (d : Nat) (t : T) (it : Iv), WFd m d t →
    (lastRec t).ts ≤ it.p0.ts → it.p0.ts ≤ it.p1.ts →
    (∃ t', blockAdd m (d+1) t it = (t', it.p1, none) ∧ WFd m d t' ∧ p1s t' = p1s t ++ [it.p1] ∧
        firstRec t' = firstRec t ∧ lastRec t' = it.p1) ∨
    (blockAdd m (d+1) t it = (t, lastRec t, some .full) ∧ records t = m)
  | 0, .leaf recs, it, h, hle, h01 => by
    simp only [WFd] at h
    obtain ⟨h2, hlm, hs⟩ := h
    have hne : recs ≠ [] := by intro e; subst e; simp at h2
    have hle' : (Points.lastD recs).ts ≤ it.p0.ts := hle
    have hc : Points.cntLE recs it.p0.ts = recs.length :=
      Logrange.ChunkHist.cntLE_eq_length_of_all_le _ _ (fun p hp => Int.le_trans (sorted_le_last recs hs p hp) hle')
    have hb := leaf_blockAdd m 0 recs it (by omega)
    by_cases hfull : recs.length = m
    · right
      rw [hb, if_pos ⟨hfull, hc⟩]
      exact ⟨rfl, hfull⟩
    · left
      have : ¬ (recs.length = m ∧ Points.cntLE recs it.p0.ts = recs.length) := fun h => hfull h.1
      rw [hb, if_neg this, add_append_case recs it hne hc, lastD_snoc]
      refine ⟨_, rfl, ?_, ?_, ?_, ?_⟩
      · simp only [WFd]
        refine ⟨by simp; omega, by simp; omega, sortedTs_snoc it.p1 recs hne hs (Int.le_trans hle' h01)⟩
      · rw [p1s_leaf, p1s_leaf, List.tail_append_of_ne_nil hne]
      · cases recs with
        | nil => exact absurd rfl hne
        | cons a r => rfl
      · simp [lastRec]
  | 0, .node .., _, h, _, _ => by simp [WFd] at h
  | d+1, .leaf _, _, h, _, _ => by simp [WFd] at h
  | d+1, .node l keys kids last, it, h, hle, h01 => by
    have hWF := h
    simp only [WFd] at h
    obtain ⟨hl, hne, hlen, hk, hkeys, hlast, hcon, hkle, hsort⟩ := h
    obtain ⟨ks, k, rfl⟩ := exists_snoc kids hne
    subst hl
    have hkn : keys ≠ [] := by rw [hkeys]; simp
    have hkl : keys.length = ks.length + 1 := by rw [hkeys]; simp
    have hkl' : keys.length - 1 = ks.length := by omega
    have hlast' : last = lastRec k := by simpa using hlast.symm
    have hlr : ∀ (kk : T) (la : Pt), lastRec (.node (d+1) keys (ks ++ [kk]) la) = lastRec kk := by
      intro kk la
      match keys, hkn, hkl' with
      | _ :: _, _, hkl' => simp only [lastRec]; rw [hkl']; exact lastRecL_snoc ks kk
    have hfr : ∀ (kk : T) (la : Pt), firstRec kk = firstRec k →
        firstRec (.node (d+1) keys (ks ++ [kk]) la) = firstRec (.node (d+1) keys (ks ++ [k]) last) := by
      intro kk la e
      match keys, hkn with
      | _ :: _, _ => simp only [firstRec]; exact firstRecL_snoc ks k kk e
    rw [hlr k last] at hle ⊢
    have hle' : last.ts ≤ it.p0.ts := by rw [hlast']; exact hle
    have hkeys_le : ∀ x ∈ keys, x ≤ it.p0.ts := fun x hx => Int.le_trans (hkle x hx) hle'
    have hI := insIdx_node_all (d+1) keys (ks ++ [k]) last hkn it.p0.ts hkeys_le hle'
    have hints := intervals_node (d+1) keys (ks ++ [k]) last hkn
    have hstep : blockAdd m (d+1+1) (.node (d+1) keys (ks ++ [k]) last) it =
        upperLoop m (blockAdd m (d+1)) (m+1) (.node (d+1) keys (ks ++ [k]) last) it ks.length false := by
      rw [blockAdd_node, hI, hints]
      have e1 : ((keys.length : Int) - ((keys.length : Int) - 1 + 1)).toNat = 0 := by omega
      have e2 : ((keys.length : Int) - 1).toNat = ks.length := by omega
      have e3 : (keys.length == 0) = false := by simp; omega
      rw [e1, e2]
      simp only [removeLoop, hints, e3]
    have hkid : kidAt (.node (d+1) keys (ks ++ [k]) last) ks.length = k := by
      simp [kidAt]
    have hkwf : WFd m d k := hk k (by simp)
    rcases blockAdd_append m hm d k it hkwf hle h01 with ⟨k', hk', hwf', hp', hf', hl'⟩ | ⟨hkf, hrec⟩
    · left
      have hres := upperLoop_old_ok m (blockAdd m (d+1)) m (.node (d+1) keys (ks ++ [k]) last) it ks.length k' it.p1
        (by rw [hkid]; exact hk')
      rw [wfd_tbi m d k' hwf', setLastInterval_node _ _ _ _ _ _ hkn] at hres
      have ek : keys.dropLast ++ [(firstRec k').ts] = keys := by
        rw [hf', hkeys]; simp
      have ekid : List.take (keys.length - 1) (ks ++ [k]) ++ [k'] = ks ++ [k'] := by
        rw [hkl']; simp
      simp only [ek, ekid, hl'] at hres
      refine ⟨.node (d+1) keys (ks ++ [k']) it.p1, by rw [hstep, hres], ?_, ?_, hfr k' it.p1 hf', ?_⟩
      · have hp1s : p1s (.node (d+1) keys (ks ++ [k']) it.p1) = p1s (.node (d+1) keys (ks ++ [k]) last) ++ [it.p1] := by
          simp [p1s_node, hp']
        simp only [WFd]
        refine ⟨trivial, by simp, by simpa using hlen, ?_, ?_, by simp [hl'], contig_replace_last ks k k' hcon hf', ?_, ?_⟩
        · intro x hx
          simp at hx
          rcases hx with hx | rfl
          · exact hk x (by simp [hx])
          · exact hwf'
        · rw [hkeys]; simp [hf']
        · intro x hx
          exact Int.le_trans (hkeys_le x hx) h01
        · rw [hp1s, hfr k' it.p1 hf']
          have := sortedTs_snoc it.p1 _ (by simp) hsort
            (by rw [wfd_lastD m (d+1) _ hWF, hlr k last]; exact Int.le_trans hle h01)
          simpa using this
      · simp [p1s_node, hp']
      · rw [hlr k' it.p1, hl']
    · have hsk : setKid (.node (d+1) keys (ks ++ [k]) last) ks.length k = .node (d+1) keys (ks ++ [k]) last := by
        simp [setKid]
      by_cases hm' : keys.length + 1 = m
      · right
        have hap := appendInterval_node_full m (d+1) keys (ks ++ [k]) last it hkn hm'
        have hres := upperLoop_old_full_full m (blockAdd m (d+1)) m (.node (d+1) keys (ks ++ [k]) last) it ks.length k
          (lastRec k) (by rw [hkid]; exact hkf) _ _ _ (by rw [hsk]; exact hap)
        rw [hsk] at hres
        exact ⟨by rw [hstep, hres], by rw [records_node _ _ _ _ hkn]; exact hm'⟩
      · left
        have hap := appendInterval_node_ok m (d+1) keys (ks ++ [k]) last it hkn hm'
        have hres := upperLoop_old_full_ok m (blockAdd m (d+1)) m (.node (d+1) keys (ks ++ [k]) last) it ks.length k
          (lastRec k) (by rw [hkid]; exact hkf) _ _ (by rw [hsk]; exact hap)
        have hm1 : m - 1 + 1 = m := by omega
        have h01' : ({ it with p0 := lastRec k } : Iv).p0.ts ≤ ({ it with p0 := lastRec k } : Iv).p1.ts :=
          Int.le_trans hle h01
        obtain ⟨c, hc, hcwf, hcp, hcf, hcl⟩ := new_chain m hm d { it with p0 := lastRec k } h01'
        have hkn2 : keys ++ [last.ts] ≠ [] := by simp
        have hres2 := upperLoop_new_ok m (blockAdd m (d+1)) (m - 1) (.node (d+1) (keys ++ [last.ts]) (ks ++ [k]) it.p1)
          { it with p0 := lastRec k } ks.length c it.p1 (by simpa [level] using hc)
        rw [wfd_tbi m d c hcwf, setLastInterval_node _ _ _ _ _ _ hkn2] at hres2
        have ekid : List.take ((keys ++ [last.ts]).length - 1) (ks ++ [k]) ++ [c] = ks ++ [k] ++ [c] := by
          rw [List.take_of_length_le (by simp [hkl])]
        simp only [List.dropLast_concat, ekid, hcf, hcl] at hres2
        rw [hm1] at hres2
        refine ⟨.node (d+1) (keys ++ [(lastRec k).ts]) (ks ++ [k] ++ [c]) it.p1, ?_, ?_, ?_, ?_, ?_⟩
        · rw [hstep, hres, hres2]
        · have hp1s : p1s (.node (d+1) (keys ++ [(lastRec k).ts]) (ks ++ [k] ++ [c]) it.p1)
              = p1s (.node (d+1) keys (ks ++ [k]) last) ++ [it.p1] := by
            simp [p1s_node, hcp]
          have hfr2 : firstRec (.node (d+1) (keys ++ [(lastRec k).ts]) (ks ++ [k] ++ [c]) it.p1)
              = firstRec (.node (d+1) keys (ks ++ [k]) last) := by
            match keys, hkn with
            | _ :: _, _ => simp only [firstRec, List.cons_append]; exact firstRecL_snoc2 ks k c
          simp only [WFd]
          refine ⟨trivial, by simp, ?_, ?_, ?_, by simp [hcl], contig_snoc ks k c hcon (by rw [hcf]), ?_, ?_⟩
          · have : keys.length + 1 ≤ m := by simpa [hkl] using hlen
            simp; omega
          · intro x hx
            simp at hx
            rcases hx with hx | rfl | rfl
            · exact hk x (by simp [hx])
            · exact hkwf
            · exact hcwf
          · rw [hkeys]; simp [hcf]
          · intro x hx
            simp at hx
            rcases hx with hx | rfl
            · exact Int.le_trans (hkeys_le x hx) h01
            · exact Int.le_trans hle h01
          · rw [hp1s, hfr2]
            have := sortedTs_snoc it.p1 _ (by simp) hsort
              (by rw [wfd_lastD m (d+1) _ hWF, hlr k last]; exact Int.le_trans hle h01)
            simpa using this
        · simp [p1s_node, hcp]
        · match keys, hkn with
          | _ :: _, _ => simp only [firstRec, List.cons_append]; exact firstRecL_snoc2 ks k c
        · rw [lastRec_node_snoc _ _ (ks ++ [k]) c _ (by simp [hkl]), hcl]


/-! ### `prune` and the top level -/

theorem prune_wfd (m : Nat) : ∀ (d : Nat) (t : T), WFd m d t →
    ∃ d', WFd m d' (prune t) ∧ firstRec (prune t) = firstRec t ∧ p1s (prune t) = p1s t
  | 0, .leaf recs, h => ⟨0, by simpa [prune] using h, by simp [prune], by simp [prune]⟩
  | 0, .node .., h => by simp [WFd] at h
  | d+1, .leaf _, h => by simp [WFd] at h
  | d+1, .node l keys kids last, h => by
    by_cases hi : intervals (.node l keys kids last) > 1
    · exact ⟨d+1, by simpa [prune, hi] using h, by simp [prune, hi], by simp [prune, hi]⟩
    · have hWF := h
      simp only [WFd] at h
      obtain ⟨_, hne, _, hk, hkeys, _⟩ := h
      have hkn : keys ≠ [] := by
        rw [hkeys]; simpa using hne
      rw [intervals_node l keys kids last hkn] at hi
      have hkl : kids.length = keys.length := by rw [hkeys]; simp
      match kids, hne, hkl with
      | [k], _, _ =>
        obtain ⟨d', h1, h2, h3⟩ := prune_wfd m d k (hk k (by simp))
        have hp : prune (.node l keys [k] last) = prune k := by
          rw [prune]
          have : ¬ intervals (.node l keys [k] last) > 1 := by
            rw [intervals_node l keys [k] last hkn]; exact hi
          rw [if_neg this]; rfl
        refine ⟨d', by rw [hp]; exact h1, ?_, ?_⟩
        · rw [hp, h2]
          match keys, hkn with
          | _ :: _, _ => simp [firstRec, firstRecL]
        · rw [hp, h3]; simp [p1s_node]
      | _ :: _ :: _, _, hkl => simp at hkl; omega

theorem addLoop_ok (m n d : Nat) (b b' : T) (it : Iv) (lr : Pt)
    (h : blockAdd m (level b + 1) b it = (b', lr, none)) (hwf : WFd m d b') :
    ∃ t', addLoop m (n+1) b it = some t' ∧ WF m t' ∧ points t' = firstRec b' :: p1s b' := by
  obtain ⟨d', h1, h2, h3⟩ := prune_wfd m d b' hwf
  refine ⟨prune b', by simp [addLoop, h], Or.inr (by rw [wfd_level m d' _ h1]; exact h1), ?_⟩
  rw [wfd_points m d' _ h1, h2, h3]

/-- **(2)** appending to a well-formed tree never fails, keeps the invariant, and the point list of the tree grows
exactly like the flat list in the append case of `Points.add`. -/
theorem tree_append_refines (maxRecs : Nat) (hm : 3 ≤ maxRecs) (t : T) (it : Iv)
    (hwf : WF maxRecs t) (hao : AppendOnly t it) (h01 : it.p0.ts ≤ it.p1.ts) :
    ∃ t', add maxRecs t it = some t' ∧ WF maxRecs t' ∧
      points t' = (if points t = [] then [it.p0, it.p1] else points t ++ [it.p1]) := by
  have hm2 : 2 ≤ maxRecs := by omega
  rcases hwf with rfl | hwf
  · obtain ⟨c, hc, hcwf, hcp, hcf, _⟩ := new_chain maxRecs hm2 0 it h01
    obtain ⟨t', h1, h2, h3⟩ := addLoop_ok maxRecs 7 0 (.leaf []) c it it.p1 hc hcwf
    refine ⟨t', h1, h2, ?_⟩
    rw [h3, hcp, hcf]; rfl
  · generalize hd : level t = d at hwf
    have hpts := wfd_points maxRecs d t hwf
    have hle : (lastRec t).ts ≤ it.p0.ts := hao _ (wfd_last_mem maxRecs d t hwf)
    have hne : ¬ points t = [] := by rw [hpts]; simp
    rw [if_neg hne, hpts]
    rcases blockAdd_append maxRecs hm2 d t it hwf hle h01 with ⟨t1, hb, hwf1, hp1, hf1, _⟩ | ⟨hb, hrec⟩
    · obtain ⟨t', h1, h2, h3⟩ := addLoop_ok maxRecs 7 d t t1 it it.p1 (by rw [hd]; exact hb) hwf1
      exact ⟨t', h1, h2, by rw [h3, hf1, hp1]; rfl⟩
    · -- a new root above the full tree
      have hroot : makeRootFor t = .node (d+1) [(firstRec t).ts] [t] (lastRec t) := by
        unfold makeRootFor
        rw [wfd_tbi maxRecs d t hwf, hd]; rfl
      have hrwf := wfd_single maxRecs d hm2 t hwf
      have hlr : lastRec (.node (d+1) [(firstRec t).ts] [t] (lastRec t)) = lastRec t := by
        simp [lastRec, lastRecL]
      have h01' : ({ it with p0 := lastRec t } : Iv).p0.ts ≤ ({ it with p0 := lastRec t } : Iv).p1.ts :=
        Int.le_trans hle h01
      have hstep : add maxRecs t it = addLoop maxRecs 7 (.node (d+1) [(firstRec t).ts] [t] (lastRec t))
          { it with p0 := lastRec t } := by
        unfold add
        rw [addLoop, hd, hb]
        simp only [hroot]
      rcases blockAdd_append maxRecs hm2 (d+1) _ { it with p0 := lastRec t } hrwf (by rw [hlr]; exact Int.le_refl _) h01'
        with ⟨t2, hb2, hwf2, hp2, hf2, _⟩ | ⟨_, hrec2⟩
      · obtain ⟨t', h1, h2, h3⟩ := addLoop_ok maxRecs 6 (d+1) (.node (d+1) [(firstRec t).ts] [t] (lastRec t)) t2
          { it with p0 := lastRec t } it.p1 hb2 hwf2
        refine ⟨t', by rw [hstep]; exact h1, h2, ?_⟩
        rw [h3, hf2, hp2]
        simp [firstRec, firstRecL, p1s_node]
      · rw [records_node _ _ _ _ (by simp)] at hrec2
        simp at hrec2; omega

/-- corollary: on append-only input the tree's point list is `Points.add` of the old point list -/
theorem tree_append_refines_add (maxRecs : Nat) (hm : 3 ≤ maxRecs) (t : T) (it : Iv)
    (hwf : WF maxRecs t) (hao : AppendOnly t it) (h01 : it.p0.ts ≤ it.p1.ts) :
    ∃ t', add maxRecs t it = some t' ∧ WF maxRecs t' ∧ points t' = Points.add (points t) it := by
  obtain ⟨t', h1, h2, h3⟩ := tree_append_refines maxRecs hm t it hwf hao h01
  refine ⟨t', h1, h2, ?_⟩
  rw [h3]
  by_cases hp : points t = []
  · rw [if_pos hp, hp]; rfl
  · rw [if_neg hp, add_append_case _ it hp (Logrange.ChunkHist.cntLE_eq_length_of_all_le _ _ hao)]

/-! ## (3) look-ups through the tree are look-ups on the flat list -/

/-- `grEq` on the flat list, returning the record: the LAST point with `ts ≤ t` -/
def gSpec (P : List Pt) (ts : Int) : Option Pt :=
  if Points.cntLE P ts = 0 then none else some (P.getD (Points.cntLE P ts - 1) zeroPt)
/-- `less` on the flat list, returning the record: the FIRST point with `ts > t` -/
def lSpec (P : List Pt) (ts : Int) : Option Pt := (P.drop (Points.cntLE P ts)).head?

theorem gSpec_idx (P : List Pt) (ts : Int) (r : Pt) (h : gSpec P ts = some r) : r.idx = Points.grEqPos P ts := by
  unfold gSpec at h
  by_cases h0 : Points.cntLE P ts = 0
  · simp [h0] at h
  · obtain ⟨n, hn⟩ : ∃ n, Points.cntLE P ts = n + 1 := ⟨Points.cntLE P ts - 1, by omega⟩
    simp only [hn, Nat.add_one_ne_zero, if_false, Option.some.injEq, Nat.add_sub_cancel] at h
    subst h
    simp only [Points.grEqPos, hn]; rfl

theorem lSpec_idx (P : List Pt) (ts : Int) : (lSpec P ts).map (·.idx) = Points.lessPos P ts := by
  unfold lSpec Points.lessPos
  cases P.drop (Points.cntLE P ts) <;> simp

def cnt (l : List Int) (ts : Int) : Nat := (l.takeWhile (fun x => decide (x ≤ ts))).length

theorem cntLE_eq_cnt (R : List Pt) (ts : Int) : Points.cntLE R ts = cnt (R.map (·.ts)) ts := by
  induction R with
  | nil => rfl
  | cons a r ih =>
    by_cases h : a.ts ≤ ts
    · rw [cntLE_cons_le h, ih]; simp [cnt, h]
    · rw [cntLE_cons_gt h]; simp [cnt, h]

theorem cnt_le : ∀ (l : List Int) (ts : Int) (i : Nat) (x : Int), i < cnt l ts → l[i]? = some x → x ≤ ts
  | [], _, _, _, h, _ => by simp [cnt] at h
  | a :: r, ts, i, x, h, hx => by
    by_cases ha : a ≤ ts
    · cases i with
      | zero => simp at hx; subst hx; exact ha
      | succ i' =>
        simp at hx
        have : i' < cnt r ts := by simp [cnt, List.takeWhile, ha] at h; exact h
        exact cnt_le r ts i' x this hx
    · simp [cnt, List.takeWhile, ha] at h

theorem cnt_gt : ∀ (l : List Int) (ts : Int) (x : Int), l[cnt l ts]? = some x → ¬ x ≤ ts
  | [], _, _, h => by simp at h
  | a :: r, ts, x, hx => by
    by_cases ha : a ≤ ts
    · have : cnt (a :: r) ts = cnt r ts + 1 := by simp [cnt, List.takeWhile, ha]
      rw [this] at hx; simp at hx
      exact cnt_gt r ts x hx
    · have : cnt (a :: r) ts = 0 := by simp [cnt, List.takeWhile, ha]
      rw [this] at hx; simp at hx; subst hx; exact ha

theorem grEqL_eq : ∀ (kids : List T) (j : Nat) (ts : Int),
    grEqL kids j ts = match kids[j]? with | some k => grEq k ts | none => none
  | [], _, _ => by simp [grEqL]
  | k :: _, 0, _ => by simp [grEqL]
  | _ :: ks, j+1, ts => by simpa [grEqL] using grEqL_eq ks j ts

theorem lessL_eq : ∀ (kids : List T) (j : Nat) (ts : Int),
    lessL kids j ts = match kids[j]? with | some k => less k ts | none => none
  | [], _, _ => by simp [lessL]
  | k :: _, 0, _ => by simp [lessL]
  | _ :: ks, j+1, ts => by simpa [lessL] using lessL_eq ks j ts

/-- under contiguity the timestamps of an upper block's records are: first ts of the subtree, then the last ts of
every child -/
theorem keys_last_eq : ∀ (kids : List T) (last : Pt), kids ≠ [] → Contig kids → kids.getLast?.map lastRec = some last →
    kids.map (fun k => (firstRec k).ts) ++ [last.ts] = (firstRecL kids).ts :: kids.map (fun k => (lastRec k).ts)
  | [], _, h, _, _ => absurd rfl h
  | [k0], last, _, _, hl => by
    simp at hl; simp [firstRecL, hl]
  | k0 :: k1 :: r, last, _, hc, hl => by
    have ih := keys_last_eq (k1 :: r) last (by simp) hc.2 (by simpa [List.getLast?_cons_cons] using hl)
    simp only [List.map_cons, List.cons_append, firstRecL] at ih ⊢
    rw [ih, hc.1]

theorem decomp (m d : Nat) : ∀ (kids : List T) (j : Nat) (k : T), (∀ x ∈ kids, WFd m d x) → Contig kids → kids[j]? = some k →
    ∃ A B, firstRecL kids :: kids.flatMap p1s = A ++ (firstRec k :: p1s k) ++ B
  | [], _, _, _, _, h => by simp at h
  | k0 :: rest, 0, k, _, _, h => by
    simp at h; subst h
    exact ⟨[], rest.flatMap p1s, by simp [firstRecL]⟩
  | [k0], j+1, k, _, _, h => by simp at h
  | k0 :: k1 :: r, j+1, k, hw, hc, h => by
    obtain ⟨A, B, e⟩ := decomp m d (k1 :: r) j k (fun x hx => hw x (List.mem_cons_of_mem _ hx)) hc.2 (by simpa using h)
    have hl := wfd_p1s_last m d k0 (hw k0 (by simp))
    obtain ⟨X, hX⟩ : ∃ X, p1s k0 = X ++ [lastRec k0] := by
      have hne : p1s k0 ≠ [] := by intro e; rw [e] at hl; simp at hl
      refine ⟨(p1s k0).dropLast, ?_⟩
      have := List.dropLast_concat_getLast hne
      rw [List.getLast?_eq_some_getLast hne] at hl
      simp only [Option.some.injEq] at hl
      rw [← hl]; exact this.symm
    refine ⟨firstRec k0 :: X ++ A, B, ?_⟩
    simp only [firstRecL] at e
    rw [List.flatMap_cons, hX, hc.1]
    simp only [firstRecL, List.cons_append, List.append_assoc, List.nil_append]
    rw [e]; simp

theorem sorted_prefix_le : ∀ (A : List Pt) (q : Pt) (X : List Pt), SortedTs (A ++ q :: X) → ∀ a ∈ A, a.ts ≤ q.ts
  | [], _, _, _, a, ha => by simp at ha
  | a0 :: A', q, X, hs, a, ha => by
    have hs' : SortedTs (a0 :: (A' ++ q :: X)) := hs
    cases ha with
    | head => exact sorted_head_le _ _ hs' q (by simp)
    | tail _ h' =>
      have : SortedTs (A' ++ q :: X) := by
        cases hA : A' ++ q :: X with
        | nil => trivial
        | cons b r => rw [hA] at hs'; exact hs'.2
      exact sorted_prefix_le A' q X this a h'

theorem cntLE_append_all : ∀ (A X : List Pt) (ts : Int), (∀ a ∈ A, a.ts ≤ ts) → Points.cntLE (A ++ X) ts = A.length + Points.cntLE X ts
  | [], X, ts, _ => by simp
  | a :: A', X, ts, h => by
    have := cntLE_append_all A' X ts (fun x hx => h x (List.mem_cons_of_mem _ hx))
    rw [List.cons_append, cntLE_cons_le (h a (by simp)), this]; simp; omega

theorem cntLE_append_lt (Q B : List Pt) (ts : Int) (h : Points.cntLE Q ts < Q.length) :
    Points.cntLE (Q ++ B) ts = Points.cntLE Q ts := by
  unfold Points.cntLE at h ⊢
  rw [List.takeWhile_append]
  have : ¬ (List.takeWhile (fun p => decide (p.ts ≤ ts)) Q).length = Q.length := by omega
  rw [if_neg this]

/-- a ts-sorted list `A ++ Q ++ B` whose middle part starts at or below `ts` and ends above it is searched inside `Q` -/
theorem spec_sub (A Q B : List Pt) (ts : Int) (q0 : Pt) (Q' : List Pt) (hQ : Q = q0 :: Q')
    (hs : SortedTs (A ++ Q ++ B)) (h0 : q0.ts ≤ ts) (hl : ¬ (Points.lastD Q).ts ≤ ts) :
    gSpec (A ++ Q ++ B) ts = gSpec Q ts ∧ lSpec (A ++ Q ++ B) ts = lSpec Q ts := by
  have hA : ∀ a ∈ A, a.ts ≤ ts := by
    intro a ha
    have : SortedTs (A ++ q0 :: (Q' ++ B)) := by simpa [hQ] using hs
    exact Int.le_trans (sorted_prefix_le A q0 _ this a ha) h0
  have hlt : Points.cntLE Q ts < Q.length := by
    have := cntLE_le_length Q ts
    by_cases e : Points.cntLE Q ts = Q.length
    · exact absurd (all_le_of_cntLE_eq_length ts Q e _ (lastD_mem Q (by simp [hQ]))) hl
    · omega
  have hpos : 1 ≤ Points.cntLE Q ts := by rw [hQ, cntLE_cons_le h0]; omega
  have hc : Points.cntLE (A ++ Q ++ B) ts = A.length + Points.cntLE Q ts := by
    rw [List.append_assoc, cntLE_append_all A _ ts hA, cntLE_append_lt Q B ts hlt]
  constructor
  · unfold gSpec
    rw [hc]
    have e1 : ¬ A.length + Points.cntLE Q ts = 0 := by omega
    have e2 : ¬ Points.cntLE Q ts = 0 := by omega
    rw [if_neg e1, if_neg e2]
    have e3 : A.length + Points.cntLE Q ts - 1 = A.length + (Points.cntLE Q ts - 1) := by omega
    rw [e3]
    simp only [List.getD_eq_getElem?_getD, List.append_assoc]
    rw [List.getElem?_append_right (by omega)]
    have e4 : A.length + (Points.cntLE Q ts - 1) - A.length = Points.cntLE Q ts - 1 := by omega
    rw [e4, List.getElem?_append_left (by omega)]
  · unfold lSpec
    rw [hc, List.append_assoc, List.drop_append]
    have e1 : List.drop (A.length + Points.cntLE Q ts) A = [] := List.drop_eq_nil_of_le (by omega)
    have e2 : A.length + Points.cntLE Q ts - A.length = Points.cntLE Q ts := by omega
    rw [e1, e2, List.nil_append, List.drop_append]
    have hne : List.drop (Points.cntLE Q ts) Q ≠ [] := by
      intro e; have := congrArg List.length e; simp at this; omega
    cases hd : List.drop (Points.cntLE Q ts) Q with
    | nil => exact absurd hd hne
    | cons x r => simp


theorem leaf_grEq_exact (recs : List Pt) (ts : Int) (hnil : recs ≠ []) : grEq (.leaf recs) ts = gSpec recs ts := by
  have hcl := cntLE_le_length recs ts
  have hl : recs.length ≠ 0 := by simpa using hnil
  have hI := leaf_findIdx recs ts hnil
  have hints := leaf_intervals' recs hnil
  unfold gSpec
  generalize hc : Points.cntLE recs ts = c at hcl hI
  simp only [grEq, hI, hints]
  by_cases h0 : c = 0
  · subst h0; simp
  · have hpos : ¬ ((c : Int) - 1 < 0) := by omega
    rw [if_neg hpos, if_neg h0]
    by_cases hfull : c = recs.length
    · have e1 : (c : Int) - 1 = ((recs.length - 1 : Nat) : Int) := by omega
      rw [if_pos e1, hfull, getD_pred_eq_getLastD]; rfl
    · have hne : ¬ ((c : Int) - 1 = ((recs.length - 1 : Nat) : Int)) := by omega
      have : ((c : Int) - 1).toNat = c - 1 := by omega
      rw [if_neg hne, this]

theorem leaf_less_exact (recs : List Pt) (ts : Int) (hnil : recs ≠ []) : less (.leaf recs) ts = lSpec recs ts := by
  have hcl := cntLE_le_length recs ts
  have hl : recs.length ≠ 0 := by simpa using hnil
  have hI := leaf_findIdx recs ts hnil
  have hints := leaf_intervals' recs hnil
  unfold lSpec
  generalize hc : Points.cntLE recs ts = c at hcl hI
  simp only [less, hI, hints]
  by_cases h0 : c = 0
  · subst h0
    cases recs with
    | nil => exact absurd rfl hnil
    | cons a r => simp [firstRec]
  · have hpos : ¬ ((c : Int) - 1 < 0) := by omega
    rw [if_neg hpos]
    by_cases hfull : c = recs.length
    · have e1 : (c : Int) - 1 = ((recs.length - 1 : Nat) : Int) := by omega
      rw [if_pos e1, hfull]; simp
    · have hne : ¬ ((c : Int) - 1 = ((recs.length - 1 : Nat) : Int)) := by omega
      rw [if_neg hne]
      have hlt : c < recs.length := by omega
      have : ((c : Int) - 1).toNat + 1 = c := by omega
      rw [this, List.drop_eq_getElem_cons hlt]
      simp [List.getD_eq_getElem?_getD, List.getElem?_eq_getElem hlt]

theorem lookups_wfd (m : Nat) : ∀ (d : Nat) (t : T) (ts : Int), WFd m d t →
    grEq t ts = gSpec (points t) ts ∧ less t ts = lSpec (points t) ts
  | 0, .leaf recs, ts, h => by
    have hp := wfd_points m 0 _ h
    simp only [WFd] at h
    have hne : recs ≠ [] := by intro e; subst e; simp at h
    have : points (.leaf recs) = recs := by
      rw [hp, p1s_leaf]
      cases recs with
      | nil => exact absurd rfl hne
      | cons a r => rfl
    rw [this]
    exact ⟨leaf_grEq_exact recs ts hne, leaf_less_exact recs ts hne⟩
  | 0, .node .., _, h => by simp [WFd] at h
  | d+1, .leaf _, _, h => by simp [WFd] at h
  | d+1, .node l keys kids last, ts, h => by
    have hWF := h
    simp only [WFd] at h
    obtain ⟨_, hne, _, hk, hkeys, hlast, hcon, _, _⟩ := h
    have hkn : keys ≠ [] := by rw [hkeys]; simpa using hne
    have hkl : keys.length = kids.length := by rw [hkeys]; simp
    have hfr : firstRec (.node l keys kids last) = firstRecL kids := by
      match keys, hkn with
      | _ :: _, _ => rfl
    have hP : points (.node l keys kids last) = firstRecL kids :: kids.flatMap p1s := by
      rw [wfd_points m (d+1) _ hWF, hfr, p1s_node]
    have hsort : SortedTs (firstRecL kids :: kids.flatMap p1s) := by
      have := wfd_sorted m (d+1) _ hWF
      rwa [hfr, p1s_node] at this
    have hlastD : Points.lastD (firstRecL kids :: kids.flatMap p1s) = lastRec (.node l keys kids last) := by
      have := wfd_lastD m (d+1) _ hWF
      rwa [hfr, p1s_node] at this
    have hlr : last = lastRec (.node l keys kids last) := by
      have := wfd_tbi m (d+1) _ hWF
      simp only [theBlockInterval, Iv.mk.injEq] at this
      exact this.2
    have hL1 : (recsOf (.node l keys kids last)).map (·.ts) = keys ++ [last.ts] := by
      rw [recsOf_node l keys kids last hkn]; simp [List.map_map, Function.comp_def]
    have hL2 : keys ++ [last.ts] = (firstRecL kids).ts :: kids.map (fun k => (lastRec k).ts) := by
      rw [hkeys]; exact keys_last_eq kids last hne hcon hlast
    have hcnt : ITree.cntLE (.node l keys kids last) ts = cnt (keys ++ [last.ts]) ts := by
      unfold ITree.cntLE; rw [cntLE_eq_cnt, hL1]
    have hcl : cnt (keys ++ [last.ts]) ts ≤ keys.length + 1 := by
      have := cntLE_le_length (recsOf (.node l keys kids last)) ts
      rw [cntLE_eq_cnt, hL1, recsOf_node l keys kids last hkn] at this
      simpa using this
    have hI : findIntervalIdx (.node l keys kids last) ts = (cnt (keys ++ [last.ts]) ts : Int) - 1 := by
      unfold findIntervalIdx
      rw [records_node l keys kids last hkn, hcnt]; simp
    have hints := intervals_node l keys kids last hkn
    rw [hP]
    generalize hc : cnt (keys ++ [last.ts]) ts = c at hcl hI
    have hc2 : cnt ((firstRecL kids).ts :: kids.map (fun k => (lastRec k).ts)) ts = c := by rw [← hL2]; exact hc
    simp only [grEq, less, hI, hints]
    by_cases h0 : c = 0
    · subst h0
      have hgt : ¬ (firstRecL kids).ts ≤ ts := by
        apply cnt_gt ((firstRecL kids).ts :: kids.map (fun k => (lastRec k).ts)) ts
        rw [hc2]; simp
      have hc0 : Points.cntLE (firstRecL kids :: kids.flatMap p1s) ts = 0 := cntLE_cons_gt hgt
      simp [gSpec, lSpec, hc0, hfr]
    · have hpos : ¬ ((c : Int) - 1 < 0) := by omega
      rw [if_neg hpos, if_neg hpos]
      by_cases hfull : c = keys.length + 1
      · have e1 : (c : Int) - 1 = ((keys.length : Nat) : Int) := by omega
        rw [if_pos e1, if_pos e1]
        have hle : last.ts ≤ ts := by
          apply cnt_le (keys ++ [last.ts]) ts keys.length last.ts (by omega)
          simp
        have hall : Points.cntLE (firstRecL kids :: kids.flatMap p1s) ts = (firstRecL kids :: kids.flatMap p1s).length := by
          apply Logrange.ChunkHist.cntLE_eq_length_of_all_le
          intro p hp
          refine Int.le_trans (sorted_le_last _ hsort p hp) ?_
          rw [hlastD, ← hlr]; exact hle
        constructor
        · unfold gSpec
          rw [hall, if_neg (by simp), getD_pred_eq_getLastD]
          exact congrArg some hlastD.symm
        · unfold lSpec
          rw [hall]; simp
      · have hne1 : ¬ ((c : Int) - 1 = ((keys.length : Nat) : Int)) := by omega
        rw [if_neg hne1, if_neg hne1]
        have hj : ((c : Int) - 1).toNat = c - 1 := by omega
        have hjlt : c - 1 < kids.length := by omega
        rw [hj, grEqL_eq, lessL_eq]
        have hkj : kids[c - 1]? = some (kids[c - 1]) := List.getElem?_eq_getElem hjlt
        generalize kids[c - 1] = kj at hkj
        rw [hkj]
        have hkjwf : WFd m d kj := hk kj (List.mem_of_getElem? hkj)
        obtain ⟨ihg, ihl⟩ := lookups_wfd m d kj ts hkjwf
        obtain ⟨A, B, hdec⟩ := decomp m d kids (c - 1) kj hk hcon hkj
        have h0' : (firstRec kj).ts ≤ ts := by
          apply cnt_le (keys ++ [last.ts]) ts (c - 1) _ (by omega)
          rw [List.getElem?_append_left (by omega), hkeys, List.getElem?_map, hkj]; rfl
        have hl' : ¬ (Points.lastD (firstRec kj :: p1s kj)).ts ≤ ts := by
          rw [wfd_lastD m d kj hkjwf]
          apply cnt_gt ((firstRecL kids).ts :: kids.map (fun k => (lastRec k).ts)) ts
          rw [hc2]
          have : c = (c - 1) + 1 := by omega
          rw [this, List.getElem?_cons_succ, List.getElem?_map]
          simp only [hkj]; rfl
        have hsub := spec_sub A (firstRec kj :: p1s kj) B ts (firstRec kj) (p1s kj) rfl (by rw [← hdec]; exact hsort) h0' hl'
        rw [hdec, hsub.1, hsub.2]
        dsimp only
        rw [ihg, ihl, wfd_points m d kj hkjwf]
        exact ⟨rfl, rfl⟩


/-- **(3)** look-ups through a well-formed tree are the look-ups on its flat point list: `grEq` fails
(`errAllMatches`) exactly when no point has `ts ≤ t` and otherwise returns the position of the LAST point with
`ts ≤ t`; `less` returns the position of the FIRST point with `ts > t` and fails exactly when there is none.
(For the empty index `leaf []` the real `grEq` returns the zero record instead of `errAllMatches`: position 0, as
`grEqPos`.) Equal timestamps across a block boundary need no side condition. -/
theorem tree_lookup_eq_points (maxRecs : Nat) (t : T) (ts : Int) (hwf : WF maxRecs t) :
    (t ≠ .leaf [] → (grEq t ts = none ↔ Points.cntLE (points t) ts = 0)) ∧
    (∀ r, grEq t ts = some r → r.idx = Points.grEqPos (points t) ts) ∧
    (less t ts).map (·.idx) = Points.lessPos (points t) ts ∧
    (less t ts = none ↔ Points.cntLE (points t) ts = (points t).length) := by
  have hless : ∀ (o : Option Pt), o.map (·.idx) = Points.lessPos (points t) ts →
      (o = none ↔ Points.cntLE (points t) ts = (points t).length) := by
    intro o ho
    rw [← lessPos_none_iff, ← ho]
    cases o <;> simp
  rcases hwf with rfl | hwf
  · have hp : points (.leaf []) = [] := rfl
    have hl := leaf_less [] ts
    rw [hp]
    refine ⟨fun h => absurd rfl h, (leaf_grEq [] ts).2, hl, ?_⟩
    have := hless _ (by rw [hp]; exact hl)
    rwa [hp] at this
  · obtain ⟨hg, hl⟩ := lookups_wfd maxRecs (level t) t ts hwf
    have hl' : (less t ts).map (·.idx) = Points.lessPos (points t) ts := by rw [hl, lSpec_idx]
    refine ⟨fun _ => ?_, ?_, hl', hless _ hl'⟩
    · rw [hg]; unfold gSpec
      by_cases h0 : Points.cntLE (points t) ts = 0 <;> simp [h0]
    · intro r hr
      rw [hg] at hr
      exact gSpec_idx _ _ _ hr

/-- the records themselves, not only their positions -/
theorem tree_lookup_records (maxRecs : Nat) (t : T) (ts : Int) (hwf : WF maxRecs t) (hne : t ≠ .leaf []) :
    grEq t ts = gSpec (points t) ts ∧ less t ts = lSpec (points t) ts := by
  rcases hwf with rfl | hwf
  · exact absurd rfl hne
  · exact lookups_wfd maxRecs (level t) t ts hwf

/-! ## (4) evaluated examples: `maxRecs = 4`, an append-only sequence reaching level 2 -/

/-- interval `i` of the example stream: timestamps `[10i+2, 10i+9]`, positions `[5i, 5i+4]` -/
def exIv (i : Nat) : Iv := ⟨⟨10 * i + 2, 5 * i⟩, ⟨10 * i + 9, 5 * i + 4⟩⟩

def addAll (m : Nat) (t : T) (its : List Iv) : Option T := its.foldl (fun acc it => acc.bind (fun t => add m t it)) (some t)

def exTree (n : Nat) : Option T := addAll 4 (.leaf []) ((List.range n).map exIv)
def exFlat (n : Nat) : List Pt := ((List.range n).map exIv).foldl Points.add []

example : (exTree 3).map rootLevel = some 0 := by decide +kernel
example : (exTree 4).map rootLevel = some 1 := by decide +kernel
example : (exTree 9).map rootLevel = some 1 := by decide +kernel
example : (exTree 10).map rootLevel = some 2 := by decide +kernel
example : (exTree 12).map points = some (exFlat 12) := by decide +kernel
example : (exTree 12).map points = some
    [⟨2, 0⟩, ⟨9, 4⟩, ⟨19, 9⟩, ⟨29, 14⟩, ⟨39, 19⟩, ⟨49, 24⟩, ⟨59, 29⟩, ⟨69, 34⟩, ⟨79, 39⟩, ⟨89, 44⟩, ⟨99, 49⟩, ⟨109, 54⟩,
     ⟨119, 59⟩] := by decide +kernel
example : ∀ n ∈ List.range 30, (exTree n).map points = some (exFlat n) := by decide +kernel
/-- look-ups through the level-2 tree = look-ups on the flat list, at every timestamp around the indexed range -/
example : ∀ ts ∈ (List.range 130).map (fun (n : Nat) => (n : Int) - 3),
    (exTree 12).map (fun t => ((grEq t ts).map (·.idx), (less t ts).map (·.idx))) =
      some (if Points.cntLE (exFlat 12) ts = 0 then none else some (Points.grEqPos (exFlat 12) ts), Points.lessPos (exFlat 12) ts) := by
  decide +kernel

/-! ## whole append-only streams -/

/-- an append-only stream relative to the points indexed so far: every interval is ordered and starts at or above
every indexed timestamp -/
def Stream : List Pt → List Iv → Prop
  | _, [] => True
  | P, it :: r => (∀ p ∈ P, p.ts ≤ it.p0.ts) ∧ it.p0.ts ≤ it.p1.ts ∧ Stream (Points.add P it) r

theorem addAll_none (m : Nat) : ∀ (its : List Iv), its.foldl (fun acc it => acc.bind (fun t => add m t it)) none = none
  | [] => rfl
  | _ :: r => by simpa [List.foldl] using addAll_none m r

theorem addAll_cons (m : Nat) (t : T) (it : Iv) (r : List Iv) :
    addAll m t (it :: r) = match add m t it with | some t' => addAll m t' r | none => none := by
  unfold addAll
  simp only [List.foldl, Option.bind_some]
  cases add m t it with
  | none => exact addAll_none m r
  | some t' => rfl

/-- every append-only stream is indexed without error, the tree stays well-formed (so `WF` is the invariant of all
trees reachable by monotone writes — in particular it is satisfiable at every depth), and its point list is the flat
list built by `Points.add` -/
theorem tree_append_stream (maxRecs : Nat) (hm : 3 ≤ maxRecs) : ∀ (its : List Iv) (t : T), WF maxRecs t →
    Stream (points t) its →
    ∃ t', addAll maxRecs t its = some t' ∧ WF maxRecs t' ∧ points t' = its.foldl Points.add (points t)
  | [], t, hwf, _ => ⟨t, rfl, hwf, rfl⟩
  | it :: r, t, hwf, hs => by
    obtain ⟨t1, h1, h2, h3⟩ := tree_append_refines_add maxRecs hm t it hwf hs.1 hs.2.1
    obtain ⟨t', h4, h5, h6⟩ := tree_append_stream maxRecs hm r t1 h2 (by rw [h3]; exact hs.2.2)
    refine ⟨t', ?_, h5, ?_⟩
    · rw [addAll_cons, h1]; exact h4
    · rw [h6, h3]; rfl

end Logrange.ITree
