import Logrange.Model.ITree
import Logrange.Proofs.Points
import Logrange.Proofs.ChunkHist
/-!
# C02 — the inductive model of the `ckindex` block tree (`Logrange.ITree`) against the flat list (`Logrange.Points`)

(1) one level-0 block is the flat list (`tree_eq_points_level0`);
(2) on append-only input the whole tree evolves like the flat list and keeps its invariant (`tree_append_refines`);
(3) look-ups through a well-formed tree are look-ups on the flat list (`tree_grEq_eq_points`, `tree_less_eq_points`);
(4) evaluated examples.
-/
namespace Logrange.ITree
open Logrange.Points (Pt Iv)
open Logrange.Points

/-! ## small list facts -/
theorem cntLE_le_length (pts : List Pt) (t : Int) : Points.cntLE pts t ≤ pts.length := by
  induction pts with
  | nil => simp [Points.cntLE]
  | cons a r ih =>
    by_cases h : a.ts ≤ t
    · rw [cntLE_cons_le h]; simp; exact ih
    · rw [cntLE_cons_gt h]; simp

theorem lastD_eq_getLastD (l : List Pt) : Points.lastD l = l.getLastD zeroPt := rfl

theorem take_snoc_getD (l : List Pt) (k : Nat) (d : Pt) (h : k < l.length) : l.take k ++ [l.getD k d] = l.take (k+1) := by
  rw [List.take_add_one, List.getD_eq_getElem?_getD, List.getElem?_eq_getElem h]
  simp

theorem leaf_insIdx (recs : List Pt) (ts : Int) (h : recs.length ≠ 0) :
    findIntervalInsertIdx (.leaf recs) ts = (Points.cntLE recs ts : Int) - 1 := by
  simp [findIntervalInsertIdx, records, recsOf, ITree.cntLE, h]

theorem leaf_intervals (recs : List Pt) (h : 2 ≤ recs.length) : intervals (.leaf recs) = recs.length - 1 := by
  have : ¬ recs.length ≤ 1 := by omega
  simp [intervals, records, recsOf, this]

theorem leaf_blockAdd (m d : Nat) (recs : List Pt) (it : Iv) (hlen : recs.length ≠ 1) :
    blockAdd m (d+1) (.leaf recs) it =
      if recs.length = m ∧ Points.cntLE recs it.p0.ts = recs.length then (.leaf recs, Points.lastD recs, some .full)
      else (.leaf (Points.add recs it), Points.lastD (Points.add recs it), none) := by
  by_cases hnil : recs = []
  · subst hnil
    by_cases hm : 0 = m
    · subst hm
      simp [blockAdd, findIntervalInsertIdx, intervals, records, recsOf, appendInterval, Points.cntLE, Points.lastD, zeroPt]
    · have hm' : ¬ m = 0 := fun h => hm h.symm
      simp [blockAdd, findIntervalInsertIdx, intervals, records, recsOf, appendInterval, Points.cntLE, Points.lastD,
        Points.add, hm]
  · have hn : 2 ≤ recs.length := by
      cases recs with
      | nil => exact absurd rfl hnil
      | cons a r => cases r with
        | nil => exact absurd rfl hlen
        | cons b r' => simp
    have hcl := cntLE_le_length recs it.p0.ts
    have hadd : Points.add recs it =
        (let c := Points.cntLE recs it.p0.ts
         if c = recs.length then recs ++ [it.p1]
         else
          let p1 : Pt := ⟨max it.p1.ts (Points.lastD recs).ts, it.p1.idx⟩
          if c = 0 then [⟨min it.p0.ts (Points.headD recs).ts, min it.p0.idx (Points.headD recs).idx⟩, p1]
          else recs.take c ++ [p1]) := by
      cases recs with
      | nil => exact absurd rfl hnil
      | cons a r => rfl
    rw [hadd]
    generalize hc : Points.cntLE recs it.p0.ts = c at hcl
    have hI := leaf_insIdx recs it.p0.ts (by omega)
    have hints := leaf_intervals recs hn
    rw [hc] at hI
    have hpos : recs.length - 1 > 0 := by omega
    simp only [blockAdd, hI, hints, hpos, if_true]
    by_cases hfull : c = recs.length
    · have e1 : (c : Int) - 1 = ((recs.length - 1 : Nat) : Int) := by omega
      rw [if_pos e1]
      simp only [hfull, and_true]
      by_cases hm : recs.length = m
      · simp [appendInterval, records, recsOf, hm, lastD_eq_getLastD]
      · have h0 : ¬ recs.length = 0 := by omega
        simp [appendInterval, records, recsOf, hm, h0, Points.lastD]
    · have hne : ¬ ((c : Int) - 1 = ((recs.length - 1 : Nat) : Int)) := by omega
      rw [if_neg hne]
      simp only [hfull, and_false, if_false]
      by_cases h0 : c = 0
      · subst h0
        simp [setLastInterval, reduce, Points.headD, Points.lastD, zeroPt]
      · have hpos' : ¬ ((c : Int) - 1 < 0) := by omega
        have htn : ((c : Int) - 1).toNat = c - 1 := by omega
        have hck : c - 1 + 2 = c + 1 := by omega
        have hlt : c - 1 < recs.length := by omega
        have htk : List.take (c - 1) recs ++ [recs.getD (c - 1) zeroPt] = List.take c recs := by
          have := take_snoc_getD recs (c - 1) zeroPt hlt
          rw [this]; congr 1; omega
        have hmin : min (min (c + 1) recs.length - 2) (c + 1) = c - 1 := by omega
        have hl0 : ¬ min (c + 1) recs.length = 0 := by omega
        simp only [hpos', if_false, htn, hck, setLastInterval, List.length_take, hl0, List.take_take, hmin, h0]
        have e : List.take (c - 1) recs ++ [recs.getD (c - 1) zeroPt, ⟨max it.p1.ts (recs.getLastD zeroPt).ts, it.p1.idx⟩]
            = List.take c recs ++ [⟨max it.p1.ts (recs.getLastD zeroPt).ts, it.p1.idx⟩] := by
          rw [← htk]; simp
        rw [e]; simp [Points.lastD, zeroPt]

theorem getD_pred_eq_getLastD (l : List Pt) (d : Pt) : l.getD (l.length - 1) d = l.getLastD d := by
  rw [List.getLastD_eq_getLast?, List.getLast?_eq_getElem?, List.getD_eq_getElem?_getD]

theorem leaf_findIdx (recs : List Pt) (ts : Int) (h : recs ≠ []) :
    findIntervalIdx (.leaf recs) ts = (Points.cntLE recs ts : Int) - 1 := by
  have : recs.length ≠ 0 := by simpa using h
  simp [findIntervalIdx, records, recsOf, ITree.cntLE, this]

theorem leaf_intervals' (recs : List Pt) (h : recs ≠ []) : intervals (.leaf recs) = recs.length - 1 := by
  have : recs.length ≠ 0 := by simpa using h
  have hr : records (.leaf recs) = recs.length := rfl
  unfold intervals
  rw [hr]
  by_cases h1 : recs.length ≤ 1
  · rw [if_pos h1]; omega
  · rw [if_neg h1]

theorem leaf_grEq (recs : List Pt) (ts : Int) :
    (recs ≠ [] → (grEq (.leaf recs) ts = none ↔ Points.cntLE recs ts = 0)) ∧
    (∀ r, grEq (.leaf recs) ts = some r → r.idx = Points.grEqPos recs ts) := by
  by_cases hnil : recs = []
  · subst hnil
    refine ⟨fun h => absurd rfl h, ?_⟩
    intro r h
    simp [grEq, findIntervalIdx, intervals, records, recsOf, lastRec, zeroPt] at h
    subst h
    simp [Points.grEqPos, Points.cntLE]
  · have hcl := cntLE_le_length recs ts
    have hl : recs.length ≠ 0 := by simpa using hnil
    have hI := leaf_findIdx recs ts hnil
    have hints := leaf_intervals' recs hnil
    generalize hc : Points.cntLE recs ts = c at hcl hI
    simp only [grEq, hI, hints]
    by_cases h0 : c = 0
    · subst h0
      simp [Points.grEqPos, hc]
    · have hpos : ¬ ((c : Int) - 1 < 0) := by omega
      rw [if_neg hpos]
      by_cases hfull : c = recs.length
      · have e1 : (c : Int) - 1 = ((recs.length - 1 : Nat) : Int) := by omega
        rw [if_pos e1]
        refine ⟨fun _ => by simp [h0], ?_⟩
        intro r h
        simp only [Option.some.injEq] at h
        subst h
        obtain ⟨n, hn⟩ : ∃ n, c = n + 1 := ⟨c - 1, by omega⟩
        have : n = recs.length - 1 := by omega
        simp only [Points.grEqPos, hc, hn, lastRec]
        rw [this, getD_pred_eq_getLastD]; rfl
      · have hne : ¬ ((c : Int) - 1 = ((recs.length - 1 : Nat) : Int)) := by omega
        rw [if_neg hne]
        refine ⟨fun _ => by simp [h0], ?_⟩
        intro r h
        simp only [Option.some.injEq] at h
        subst h
        obtain ⟨n, hn⟩ : ∃ n, c = n + 1 := ⟨c - 1, by omega⟩
        have : ((c : Int) - 1).toNat = n := by omega
        simp only [Points.grEqPos, hc, hn]
        rw [← hn, this]; rfl

theorem leaf_less (recs : List Pt) (ts : Int) :
    (less (.leaf recs) ts).map (·.idx) = Points.lessPos recs ts := by
  by_cases hnil : recs = []
  · subst hnil
    simp [less, findIntervalIdx, intervals, records, recsOf, Points.lessPos, Points.cntLE]
  · have hcl := cntLE_le_length recs ts
    have hl : recs.length ≠ 0 := by simpa using hnil
    have hI := leaf_findIdx recs ts hnil
    have hints := leaf_intervals' recs hnil
    generalize hc : Points.cntLE recs ts = c at hcl hI
    simp only [less, hI, hints, Points.lessPos, hc]
    by_cases h0 : c = 0
    · subst h0
      cases recs with
      | nil => exact absurd rfl hnil
      | cons a r => simp [firstRec]
    · have hpos : ¬ ((c : Int) - 1 < 0) := by omega
      rw [if_neg hpos]
      by_cases hfull : c = recs.length
      · have e1 : (c : Int) - 1 = ((recs.length - 1 : Nat) : Int) := by omega
        rw [if_pos e1, hfull]
        simp
      · have hne : ¬ ((c : Int) - 1 = ((recs.length - 1 : Nat) : Int)) := by omega
        rw [if_neg hne]
        have hlt : c < recs.length := by omega
        have : ((c : Int) - 1).toNat + 1 = c := by omega
        rw [this, List.drop_eq_getElem_cons hlt]
        simp [List.getD_eq_getElem?_getD, List.getElem?_eq_getElem hlt]

theorem lessPos_none_iff (recs : List Pt) (ts : Int) : Points.lessPos recs ts = none ↔ Points.cntLE recs ts = recs.length := by
  have hcl := cntLE_le_length recs ts
  unfold Points.lessPos
  constructor
  · intro h
    split at h
    · rename_i he
      have := congrArg List.length he
      simp at this; omega
    · simp at h
  · intro h
    rw [h]; simp

/-- **(1)** a single level-0 block behaves exactly like the flat list `Points`: `block.addInterval` is `Points.add`
(`errFullBlock` exactly when the block holds `maxRecs` records and the append case applies; the block is then unchanged
and the returned record is its last one), and the two look-ups are `grEqPos` / `lessPos`. -/
theorem tree_eq_points_level0 (maxRecs d : Nat) (recs : List Pt) (it : Iv) (hlen : recs.length ≠ 1) :
    (blockAdd maxRecs (d+1) (.leaf recs) it =
      if recs.length = maxRecs ∧ Points.cntLE recs it.p0.ts = recs.length then (.leaf recs, Points.lastD recs, some .full)
      else (.leaf (Points.add recs it), Points.lastD (Points.add recs it), none)) ∧
    (∀ t, (recs ≠ [] → (grEq (.leaf recs) t = none ↔ Points.cntLE recs t = 0)) ∧
          (∀ r, grEq (.leaf recs) t = some r → r.idx = Points.grEqPos recs t) ∧
          (less (.leaf recs) t).map (·.idx) = Points.lessPos recs t ∧
          (less (.leaf recs) t = none ↔ Points.cntLE recs t = recs.length)) := by
  refine ⟨leaf_blockAdd maxRecs d recs it hlen, fun t => ⟨(leaf_grEq recs t).1, (leaf_grEq recs t).2, leaf_less recs t, ?_⟩⟩
  rw [← lessPos_none_iff, ← leaf_less]
  cases less (.leaf recs) t <;> simp

end Logrange.ITree
