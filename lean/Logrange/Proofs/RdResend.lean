import Logrange.Proofs.RdPaging
import Logrange.Proofs.RdIterFwd
/-!
Re-positioning a HELD one-source cursor (`crsr.ApplyState` with a position that differs from the cursor's own),
with the repair proposed for finding F22: after `applyStatePos` the wrapping iterators are made to forget what
they buffered (`SetBackward(true); SetBackward(false)`). Result: the cursor stands at the flat index of the
requested position with an empty fiterator cache — exactly like a fresh cursor built from that position.
-/
set_option linter.unusedSectionVars false
set_option linter.unusedVariables false
namespace Logrange.Rd

/-- `JIterator.SetPos` on a well-formed, synced forward iterator with a settled target position -/
theorem rs_setPos {j : Journal} {it : It} {p : Pos} (hs : Sorted j) (hwf : WF j it) (hb : it.bkwd = false)
    (hsy : Synced it) (hp : Settled j p) :
    WF j (setPos j it p) ∧ (setPos j it p).bkwd = false ∧ Synced (setPos j it p) ∧
    fIdx j (setPos j it p) = flatIdx j p := by
  obtain ⟨ch, hm, hid, hle⟩ := hp
  unfold setPos
  by_cases h0 : p.cid = it.cid ∧ p.idx = it.idx
  · rw [if_pos h0]
    refine ⟨hwf, hb, hsy, ?_⟩
    unfold fIdx; rw [effPos_eq_pos hwf hsy]
    cases p; cases it; simp only [It.pos] at *; simp_all
  · rw [if_neg h0]
    by_cases hc : p.cid ≠ it.cid
    · simp only [hc, ne_eq, not_false_eq_true, if_true]
      refine ⟨by unfold WF; trivial, hb, by unfold Synced; trivial, ?_⟩
      unfold fIdx effPos; cases p; rfl
    · have hc' : p.cid = it.cid := by simpa using hc
      simp only [hc, if_false]
      cases hci : it.ci with
      | none =>
        simp only
        refine ⟨by unfold WF; simp [hci], hb, by unfold Synced; simp [hci], ?_⟩
        unfold fIdx effPos; simp only [hci]; cases p; rfl
      | some c =>
        simp only
        unfold WF at hwf; rw [hci] at hwf
        obtain ⟨w1, w2, w3, w4, w5⟩ := hwf
        have hcnt : cntOf j c.chunk = ch.cnt := by
          rw [w1, ← hc', ← hid]; exact cntOf_mem hs hm
        -- the chunk iterator ends up exactly at p.idx
        have hpos : (ciSetPos j c (p.idx : Int)).pos = (p.idx : Int) ∧ (ciSetPos j c (p.idx : Int)).chunk = c.chunk ∧
            ((ciSetPos j c (p.idx : Int)).cached = true → (0 : Int) ≤ p.idx ∧ (p.idx : Int) < cntOf j c.chunk) := by
          unfold ciSetPos
          by_cases he : (p.idx : Int) = c.pos
          · rw [if_pos he]
            exact ⟨he.symm, rfl, fun hcached => by rw [he]; exact w5 hcached⟩
          · rw [if_neg he]
            have h1 : ¬ ((p.idx : Int) > (cntOf j c.chunk : Int)) := by rw [hcnt]; omega
            simp only [h1, if_false]
            have h2 : ¬ ((p.idx : Int) < 0) := by omega
            simp only [h2, if_false]
            exact ⟨trivial, trivial, by intro h; cases h⟩
        obtain ⟨q1, q2, q3⟩ := hpos
        refine ⟨?_, hb, ?_, ?_⟩
        · unfold WF; simp only
          refine ⟨by rw [q2, w1, hc'], by rw [q2]; exact w2, by rw [q1]; omega, by rw [q1, q2, hcnt]; omega, ?_⟩
          intro hcached; rw [q1, q2]; exact q3 hcached
        · unfold Synced; simp only; rw [q1]; exact ⟨by omega, by simp⟩
        · unfold fIdx effPos; simp only; rw [q1, q2, w1, ← hc']; simp

theorem rs_toggle (it : It) (hb : it.bkwd = false) : setBackward (setBackward it true) false = it := by
  cases it; simp only [setBackward] at *; simp_all

/-- the held cursor after `ApplyState` with the proposed repair stands where a fresh cursor from `p` stands -/
theorem rs_reposition {name : Nat} {j : Journal} {w : Bool} {c : Cur} {i : Nat} {p : Pos} (hs : Sorted j)
    (h : Abs name j w true c i) (hp : Settled j p) :
    Abs name j w true (curSetBackward (curSetBackward (applyStatePos c [(name, p)]) true) false) (flatIdx j p) := by
  obtain ⟨it, v, l, m, rfl, hst⟩ := h
  unfold St at hst
  obtain ⟨hwf, hb, _, _, hsy, _⟩ := hst
  obtain ⟨s1, s2, s3, s4⟩ := rs_setPos hs hwf hb (hsy rfl).1 hp
  rw [pg_applyStatePos, pg_curSetBackward, pg_curSetBackward, rs_toggle _ s2]
  refine ⟨setPos j it p, _, l, m, rfl, ?_⟩
  unfold St
  refine ⟨s1, s2, s4, ?_, ?_, (by intro h; cases h)⟩
  · intro hw hv; subst hw; simp at hv
  · intro _; exact ⟨s3, by intro hw hv; subst hw; simp at hv⟩

end Logrange.Rd
