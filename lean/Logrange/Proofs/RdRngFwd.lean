import Logrange.Proofs.RdRngDefs
/-!
Forward-direction proofs for the RANGED journal iterator model (`partition.JIterator` + `chkSelector`, C03/C16):
`rGet`/`rNext` against the admitted-records abstraction (`rGetFwd : RGetFwdSpec`, `rNextFwd : RNextFwdSpec`),
enumeration (`rf_drain_eq`, `rf_pos_after`), and the window contract (`rf_filter_wflat`: under `WinSound` the admitted
records filtered by the range are the stored records filtered by the range).
-/
set_option linter.unusedVariables false
namespace Logrange.Rd

def stOf (c : Chunk) : ChkSt := { minPos := c.minPos, maxPos := c.maxPos, count := c.cnt }

/-- per-chunk contribution to `wflatIdx` -/
def wfiTerm (c : Chunk) (p : Pos) : Nat :=
  if c.id < p.cid then c.wlen else if c.id = p.cid then c.wBefore p.idx else 0

theorem wflatIdx_cons (c : Chunk) (r : Journal) (p : Pos) :
    wflatIdx (c :: r) p = wfiTerm c p + wflatIdx r p := rfl

theorem wflat_length_cons (c : Chunk) (r : Journal) : (wflat (c :: r)).length = c.wlen + (wflat r).length := by
  rw [rw_wflat_cons, List.length_append, rw_wrecs_length]

theorem wflatIdx_congr {j : Journal} {p q : Pos} (h : ∀ c ∈ j, wfiTerm c p = wfiTerm c q) :
    wflatIdx j p = wflatIdx j q := by
  induction j with
  | nil => rfl
  | cons c r ih =>
    rw [wflatIdx_cons, wflatIdx_cons, h c (by simp), ih (fun x hx => h x (by simp [hx]))]

theorem wflatIdx_eq_len {j : Journal} {p : Pos} (h : ∀ c ∈ j, wfiTerm c p = c.wlen) :
    wflatIdx j p = (wflat j).length := by
  induction j with
  | nil => simp [wflatIdx, wflat]
  | cons c r ih =>
    rw [wflatIdx_cons, wflat_length_cons, h c (by simp), ih (fun x hx => h x (by simp [hx]))]

theorem wflatIdx_eq_zero {j : Journal} {p : Pos} (h : ∀ c ∈ j, wfiTerm c p = 0) :
    wflatIdx j p = 0 := by
  induction j with
  | nil => simp [wflatIdx]
  | cons c r ih =>
    rw [wflatIdx_cons, h c (by simp), ih (fun x hx => h x (by simp [hx]))]

theorem wBefore_full (c : Chunk) {k : Nat} (h : c.hi ≤ k) : c.wBefore k = c.wlen := by
  unfold Chunk.wBefore Chunk.wlen; rw [Nat.min_eq_right h]

/-! ## the selector -/

theorem rf_statOf_rebuild {j : Journal} (hs : Sorted j) {c : Chunk} (hm : c ∈ j) :
    statOf (rebuild j []) c.id = some (stOf c) := by
  induction j with
  | nil => cases hm
  | cons d r ih =>
    rcases List.mem_cons.mp hm with rfl | hm'
    · simp [statOf, rebuild, stOf]
    · have := hs.head_lt c hm'
      have hne : (d.id == c.id) = false := by simp; omega
      have := ih hs.tail hm'
      simp only [statOf, rebuild, List.map_cons, List.find?_cons, hne] at this ⊢
      exact this

theorem rf_getStatus {j : Journal} {stats : List (Nat × ChkSt)} {c : Chunk} (hs : Sorted j)
    (hst : RStats j stats) (hm : c ∈ j) : getStatus j stats c = (rebuild j [], stOf c) := by
  have h0 := rf_statOf_rebuild hs hm
  have hr : ∀ x, rebuild j x = rebuild j [] := fun _ => rfl
  rcases hst with rfl | rfl
  · simp only [getStatus]
    have : statOf [] c.id = none := rfl
    rw [this]; simp [h0]
  · have hl : (rebuild j []).length = j.length := by simp [rebuild]
    simp only [getStatus, h0, hl, hr]
    simp [stOf]

theorem rf_checkAdvance (c : Chunk) (p : Nat) :
    checkAdvance (stOf c) p = if max p c.minPos < c.hi then (max p c.minPos, true) else (c.cnt, false) := by
  unfold checkAdvance stOf Chunk.hi
  simp only
  by_cases h1 : p < c.minPos
  · have e : max p c.minPos = c.minPos := by omega
    simp only [h1, if_true, e]
    by_cases h2 : c.minPos ≥ c.cnt ∨ c.minPos > c.maxPos
    · rw [if_pos h2, if_neg (by omega)]
    · rw [if_neg h2, if_pos (by omega)]
  · have e : max p c.minPos = p := by omega
    simp only [h1, if_false, e]
    by_cases h2 : p ≥ c.cnt ∨ p > c.maxPos
    · rw [if_pos h2, if_neg (by omega)]
    · rw [if_neg h2, if_pos (by omega)]

def startIdx : List Chunk → Nat → Nat
  | [], _ => 0
  | c :: _, p => c.wBefore p

theorem rf_sorted_sub {c : Chunk} {r : Journal} (h : Sorted (c :: r)) : Sorted r := h.tail

/-- the loop of `getPosForward` over a sorted suffix `cs` of the journal -/
theorem rf_fwdLoop {j : Journal} (hs : Sorted j) : ∀ (cs : List Chunk) (stats : List (Nat × ChkSt)) (pIdx : Nat)
    (lastC : Chunk) (lastCnt : Nat) (st' : List (Nat × ChkSt)) (ck : Option Chunk) (pos : Pos),
    (∀ c ∈ cs, c ∈ j) → Sorted cs → RStats j stats →
    fwdLoop j cs stats pIdx lastC lastCnt = (st', ck, pos) →
    (∀ c, ck = some c → c ∈ cs ∧ pos.cid = c.id ∧ c.minPos ≤ pos.idx ∧ pos.idx < c.hi ∧
        wflatIdx cs pos = startIdx cs pIdx ∧ st' = rebuild j []) ∧
    (ck = none → startIdx cs pIdx = (wflat cs).length ∧ RStats j st' ∧
        pos = (match cs.getLast? with | some l => ⟨l.id, l.cnt⟩ | none => ⟨lastC.id, lastCnt⟩)) := by
  intro cs
  induction cs with
  | nil =>
    intro stats pIdx lastC lastCnt st' ck pos _ _ hst h
    simp only [fwdLoop, Prod.mk.injEq] at h
    obtain ⟨rfl, rfl, rfl⟩ := h
    exact ⟨(by intro c hc; cases hc), fun _ => ⟨by simp [startIdx, wflat], hst, rfl⟩⟩
  | cons c rest ih =>
    intro stats pIdx lastC lastCnt st' ck pos hsub hsc hst h
    have hcj : c ∈ j := hsub c (List.mem_cons_self ..)
    have hlt := hsc.head_lt
    have hz : ∀ q : Pos, q.cid = c.id → wflatIdx rest q = 0 := fun q hq => wflatIdx_eq_zero (fun x hx => by
      have := hlt x hx; simp only [wfiTerm]; rw [if_neg (by omega), if_neg (by omega)])
    rw [fwdLoop, rf_getStatus hs hst hcj] at h
    simp only [rf_checkAdvance] at h
    by_cases hok : max pIdx c.minPos < c.hi
    · simp only [hok, if_true, Prod.mk.injEq] at h
      obtain ⟨rfl, rfl, rfl⟩ := h
      refine ⟨?_, by intro h; cases h⟩
      intro c' hc'; cases hc'
      refine ⟨List.mem_cons_self .., rfl, by simp only; omega, hok, ?_, rfl⟩
      rw [wflatIdx_cons, hz _ rfl]
      simp only [wfiTerm, Nat.lt_irrefl, if_false, if_true, startIdx, Chunk.wBefore]
      omega
    · simp only [hok, if_false, Bool.false_eq_true] at h
      have hfull : c.wBefore pIdx = c.wlen := by
        unfold Chunk.wBefore Chunk.wlen; omega
      obtain ⟨iA, iB⟩ := ih (rebuild j []) 0 c (stOf c).count st' ck pos
        (fun x hx => hsub x (List.mem_cons_of_mem _ hx)) hsc.tail (Or.inr rfl) h
      constructor
      · intro c' hc'
        obtain ⟨m1, m2, m3, m4, m5, m6⟩ := iA c' hc'
        refine ⟨List.mem_cons_of_mem _ m1, m2, m3, m4, ?_, m6⟩
        have hidlt : c.id < pos.cid := by rw [m2]; exact hlt c' m1
        rw [wflatIdx_cons, m5]
        simp only [wfiTerm, hidlt, if_true, startIdx, hfull]
        cases rest with
        | nil => cases m1
        | cons c1 r' => simp [startIdx, Chunk.wBefore]
      · intro hn
        obtain ⟨n1, n2, n3⟩ := iB hn
        refine ⟨?_, n2, ?_⟩
        · rw [wflat_length_cons, ← n1]
          simp only [startIdx, hfull]
          cases rest with
          | nil => simp [startIdx]
          | cons c1 r' => simp [startIdx, Chunk.wBefore]
        · cases rest with
          | nil => rw [n3]; simp [stOf]
          | cons c1 r' => rw [List.getLast?_cons_cons]; exact n3

/-- positions at or behind `cid`: the chunks before `cid` count in full on both sides -/
theorem rf_dropWhile_idx (j : Journal) (cid : Nat) (q q' : Pos) (h1 : cid ≤ q.cid) (h2 : cid ≤ q'.cid)
    (h : wflatIdx (j.dropWhile (fun c => decide (c.id < cid))) q = wflatIdx (j.dropWhile (fun c => decide (c.id < cid))) q') :
    wflatIdx j q = wflatIdx j q' := by
  induction j with
  | nil => rfl
  | cons c r ih =>
    by_cases hc : c.id < cid
    · have e : (c :: r).dropWhile (fun c => decide (c.id < cid)) = r.dropWhile (fun c => decide (c.id < cid)) := by
        rw [List.dropWhile_cons]; simp [hc]
      rw [e] at h
      rw [wflatIdx_cons, wflatIdx_cons, ih h]
      simp only [wfiTerm]
      rw [if_pos (by omega), if_pos (by omega)]
    · have e : (c :: r).dropWhile (fun c => decide (c.id < cid)) = c :: r := by
        rw [List.dropWhile_cons]; simp [hc]
      rw [e] at h; exact h

theorem rf_dropWhile_len (j : Journal) (cid : Nat) (q : Pos) (h1 : cid ≤ q.cid)
    (h : wflatIdx (j.dropWhile (fun c => decide (c.id < cid))) q = (wflat (j.dropWhile (fun c => decide (c.id < cid)))).length) :
    wflatIdx j q = (wflat j).length := by
  induction j with
  | nil => rfl
  | cons c r ih =>
    by_cases hc : c.id < cid
    · have e : (c :: r).dropWhile (fun c => decide (c.id < cid)) = r.dropWhile (fun c => decide (c.id < cid)) := by
        rw [List.dropWhile_cons]; simp [hc]
      rw [e] at h
      rw [wflatIdx_cons, wflat_length_cons, ih h]
      simp only [wfiTerm]
      rw [if_pos (by omega)]
    · have e : (c :: r).dropWhile (fun c => decide (c.id < cid)) = c :: r := by
        rw [List.dropWhile_cons]; simp [hc]
      rw [e] at h; exact h

theorem rf_dropWhile_sub (j : Journal) (p : Chunk → Bool) : ∀ c ∈ j.dropWhile p, c ∈ j :=
  fun c hc => (List.dropWhile_sublist p).subset hc

theorem rf_dropWhile_sorted {j : Journal} (hs : Sorted j) (p : Chunk → Bool) : Sorted (j.dropWhile p) :=
  List.Pairwise.sublist (List.dropWhile_sublist p) hs

theorem rf_dropWhile_head {j : Journal} {cid : Nat} {c0 : Chunk} {rest : List Chunk}
    (h : j.dropWhile (fun c => decide (c.id < cid)) = c0 :: rest) : cid ≤ c0.id := by
  induction j with
  | nil => simp at h
  | cons c r ih =>
    rw [List.dropWhile_cons] at h
    by_cases hc : c.id < cid
    · simp only [hc, decide_true, if_true] at h; exact ih h
    · simp only [hc, decide_false, Bool.false_eq_true, if_false, List.cons.injEq] at h
      obtain ⟨rfl, _⟩ := h; omega

theorem rf_wflatIdx_last {j : Journal} (hs : Sorted j) {l : Chunk} (h : j.getLast? = some l) {k : Nat}
    (hk : l.hi ≤ k) : wflatIdx j ⟨l.id, k⟩ = (wflat j).length := by
  obtain ⟨hm, hmax⟩ := getLast_max hs h
  apply wflatIdx_eq_len
  intro c hc
  simp only [wfiTerm]
  by_cases h1 : c.id < l.id
  · rw [if_pos h1]
  · have : c.id = l.id := by have := hmax c hc; omega
    have e : c = l := sorted_id_inj hs hc hm this
    subst e
    rw [if_neg h1, if_pos rfl]; exact wBefore_full _ hk

theorem rf_dropWhile_getLast (j : Journal) (p : Chunk → Bool) (h : j.dropWhile p ≠ []) :
    (j.dropWhile p).getLast? = j.getLast? := by
  have e := List.takeWhile_append_dropWhile (p := p) (l := j)
  conv => rhs; rw [← e]
  rw [List.getLast?_append]
  cases hd : (j.dropWhile p).getLast? with
  | none => exact absurd (List.getLast?_eq_none_iff.mp hd) h
  | some x => rfl

theorem rf_dropWhile_nil {j : Journal} {p : Chunk → Bool} (h : j.dropWhile p = []) : ∀ x ∈ j, p x = true := by
  induction j with
  | nil => intro x hx; cases hx
  | cons c r ih =>
    rw [List.dropWhile_cons] at h
    by_cases hc : p c = true
    · simp only [hc, if_true] at h
      intro x hx
      rcases List.mem_cons.mp hx with rfl | hx'
      · exact hc
      · exact ih h x hx'
    · simp [hc] at h

/-- `getPosForward` -/
theorem rf_getPosForward {j : Journal} (hs : Sorted j) {stats : List (Nat × ChkSt)} (hst : RStats j stats) (p : Pos)
    (st' : List (Nat × ChkSt)) (ck : Option Chunk) (pos : Pos) (h : getPosForward j stats p = (st', ck, pos)) :
    (∀ c, ck = some c → c ∈ j ∧ pos.cid = c.id ∧ c.minPos ≤ pos.idx ∧ pos.idx < c.hi ∧
        wflatIdx j pos = wflatIdx j p ∧ st' = rebuild j []) ∧
    (ck = none → wflatIdx j p = (wflat j).length ∧ wflatIdx j pos = (wflat j).length ∧ RStats j st' ∧
        (j ≠ [] → ∃ l ∈ j, pos = ⟨l.id, l.cnt⟩)) := by
  unfold getPosForward at h
  cases hl : j.getLast? with
  | none =>
    have : j = [] := List.getLast?_eq_none_iff.mp hl
    subst this
    simp only [List.getLast?_nil, Prod.mk.injEq] at h
    obtain ⟨rfl, rfl, rfl⟩ := h
    exact ⟨(by intro c hc; cases hc), fun _ => ⟨rfl, rfl, hst, fun h => absurd rfl h⟩⟩
  | some l =>
    rw [hl] at h
    simp only at h
    cases hd : j.dropWhile (fun c => decide (c.id < p.cid)) with
    | nil =>
      rw [hd] at h
      simp only [Prod.mk.injEq] at h
      obtain ⟨rfl, rfl, rfl⟩ := h
      refine ⟨(by intro c hc; cases hc), fun _ => ⟨?_, rf_wflatIdx_last hs hl (by unfold Chunk.hi; omega), hst,
        fun _ => ⟨l, (getLast_max hs hl).1, rfl⟩⟩⟩
      apply wflatIdx_eq_len
      intro c hc
      have := rf_dropWhile_nil hd c hc
      simp only [decide_eq_true_eq] at this
      simp only [wfiTerm, this, if_true]
    | cons c0 rest =>
      rw [hd] at h
      simp only at h
      have hsub : ∀ c ∈ c0 :: rest, c ∈ j := by rw [← hd]; exact rf_dropWhile_sub j _
      have hsc : Sorted (c0 :: rest) := by rw [← hd]; exact rf_dropWhile_sorted hs _
      have hge : p.cid ≤ c0.id := rf_dropWhile_head hd
      have hlt := hsc.head_lt
      obtain ⟨A, B⟩ := rf_fwdLoop hs (c0 :: rest) stats _ c0 0 st' ck pos hsub hsc hst h
      have hrest0 : wflatIdx rest p = 0 := wflatIdx_eq_zero (fun x hx => by
        have := hlt x hx; simp only [wfiTerm]; rw [if_neg (by omega), if_neg (by omega)])
      have hstart : wflatIdx (c0 :: rest) p = startIdx (c0 :: rest) (if c0.id ≠ p.cid then 0 else p.idx) := by
        rw [wflatIdx_cons, hrest0]
        simp only [wfiTerm, startIdx]
        by_cases he : c0.id = p.cid
        · simp [he]
        · rw [if_neg (by omega), if_neg he]; simp [he, Chunk.wBefore]
      constructor
      · intro c hc
        obtain ⟨m1, m2, m3, m4, m5, m6⟩ := A c hc
        refine ⟨hsub c m1, m2, m3, m4, ?_, m6⟩
        have hpc : p.cid ≤ pos.cid := by
          rw [m2]
          rcases List.mem_cons.mp m1 with rfl | hr
          · exact hge
          · have := hlt c hr; omega
        apply rf_dropWhile_idx j p.cid pos p hpc (Nat.le_refl _)
        rw [hd, m5, hstart]
      · intro hn
        obtain ⟨n1, n2, n3⟩ := B hn
        have hne : j.dropWhile (fun c => decide (c.id < p.cid)) ≠ [] := by rw [hd]; simp
        have hgl : (c0 :: rest).getLast? = some l := by rw [← hd, rf_dropWhile_getLast j _ hne, hl]
        rw [hgl] at n3
        simp only at n3
        refine ⟨?_, ?_, n2, fun _ => ⟨l, (getLast_max hs hl).1, n3⟩⟩
        · apply rf_dropWhile_len j p.cid p (Nat.le_refl _)
          rw [hd, hstart, n1]
        · rw [n3]; exact rf_wflatIdx_last hs hl (by unfold Chunk.hi; omega)

/-- admitted record `k` of chunk `ch` sits at its `wflat` index -/
theorem rf_wflat_get {j : Journal} (hs : Sorted j) {ch : Chunk} (hm : ch ∈ j) {k : Nat} (h1 : ch.minPos ≤ k)
    (h2 : k < ch.hi) : (wflat j)[wflatIdx j ⟨ch.id, k⟩]? = ch.recs[k]? := by
  induction j with
  | nil => cases hm
  | cons c r ih =>
    rw [wflatIdx_cons, rw_wflat_cons]
    rcases List.mem_cons.mp hm with rfl | hm'
    · have hl := hs.head_lt
      have z : wflatIdx r ⟨ch.id, k⟩ = 0 := wflatIdx_eq_zero (fun x hx => by
        have := hl x hx; simp only [wfiTerm]; rw [if_neg (by omega), if_neg (by omega)])
      rw [z]
      have hh : k < ch.recs.length ∧ k < ch.maxPos + 1 := by
        unfold Chunk.hi Chunk.cnt at h2; omega
      have : wfiTerm ch ⟨ch.id, k⟩ = k - ch.minPos := by
        simp only [wfiTerm, Nat.lt_irrefl, if_false, if_true, Chunk.wBefore]; omega
      rw [this, Nat.add_zero, List.getElem?_append_left (by rw [rw_wrecs_length]; unfold Chunk.wlen; omega)]
      simp only [Chunk.wrecs, List.getElem?_drop, List.getElem?_take]
      rw [if_pos (by omega)]
      congr 1; omega
    · have := hs.head_lt ch hm'
      have t : wfiTerm c ⟨ch.id, k⟩ = c.wrecs.length := by
        simp only [wfiTerm]; rw [if_pos this, rw_wrecs_length]
      rw [t, List.getElem?_append_right (by omega)]
      rw [← ih hs.tail hm']
      congr 1; omega

/-- leaving chunk `ch` at or behind the end of its window = standing before the next chunk id -/
theorem rf_wflatIdx_next {j : Journal} (hs : Sorted j) {ch : Chunk} (hm : ch ∈ j) {q : Nat} (hq : ch.hi ≤ q) :
    wflatIdx j ⟨ch.id + 1, 0⟩ = wflatIdx j ⟨ch.id, q⟩ := by
  apply wflatIdx_congr
  intro c hc
  simp only [wfiTerm]
  by_cases h1 : c.id < ch.id
  · rw [if_pos (by omega), if_pos h1]
  · by_cases h2 : c.id = ch.id
    · have e : c = ch := sorted_id_inj hs hc hm h2
      subst e
      rw [if_pos (by omega), if_neg h1, if_pos rfl, wBefore_full _ hq]
    · rw [if_neg (by omega), if_neg h1, if_neg h2]
      split
      · simp [Chunk.wBefore]
      · rfl

/-- what a forward call answers: `eof = false` → a chunk is open on an admitted record; `eof = true` → no chunk is
open and nothing is left -/
def EnsOut (j : Journal) (i : Nat) (r : RIt × Bool) : Prop :=
  r.1.bkwd = false ∧ wIdx j r.1 = i ∧ RWF j r.1 ∧ RSynced r.1 ∧
  (r.2 = false → ∃ c ch, r.1.ci = some c ∧ ch ∈ j ∧ ch.id = c.chunk ∧ c.cached = false ∧ 0 ≤ c.pos ∧
      c.pos < (ch.cnt : Int)) ∧
  (r.2 = true → r.1.ci = none ∧ i = (wflat j).length ∧ (j ≠ [] → Settled j r.1.pos))

theorem rf_ensure_fwd {j : Journal} (hs : Sorted j) {s : RIt} (hci : s.ci = none) (hb : s.bkwd = false)
    (hst : RStats j s.stats) : EnsOut j (wIdx j s) (rEnsure j s) := by
  have hw : wIdx j s = wflatIdx j ⟨s.cid, s.idx⟩ := by simp [wIdx, rEffPos, hci, RIt.pos]
  rw [hw]
  rcases hg : getPosForward j s.stats ⟨s.cid, s.idx⟩ with ⟨st', ck, pos⟩
  obtain ⟨A, B⟩ := rf_getPosForward hs hst _ st' ck pos hg
  unfold rEnsure EnsOut
  simp only [hci, hb, Bool.false_eq_true, if_false, hg]
  cases ck with
  | none =>
    obtain ⟨b1, b2, b3, b4⟩ := B rfl
    simp only
    refine ⟨trivial, ?_, ?_, ?_, (by intro h; cases h), fun _ => ⟨trivial, b1, fun hne => ?_⟩⟩
    · simp only [wIdx, rEffPos, RIt.pos]; rw [b1]; exact b2
    · simp only [RWF]; exact b3
    · simp only [RSynced]
    · obtain ⟨l, hl, hp⟩ := b4 hne
      exact ⟨l, hl, by simp [RIt.pos, hp], by simp [RIt.pos, hp]⟩
  | some c =>
    obtain ⟨a1, a2, a3, a4, a5, a6⟩ := A c rfl
    simp only
    have hcnt : cntOf j c.id = c.cnt := cntOf_mem hs a1
    have hh : pos.idx < c.cnt ∧ pos.idx < c.maxPos + 1 := by unfold Chunk.hi at a4; omega
    have hci' : ciSetPos j { chunk := c.id } (pos.idx : Int) = { chunk := c.id, pos := (pos.idx : Int), cached := false } := by
      rw [ciSetPos_fresh, hcnt, Nat.min_eq_left (by omega)]
    rw [hci']
    refine ⟨trivial, ?_, ?_, ?_, fun _ => ⟨_, c, rfl, a1, rfl, rfl, by simp, by simp; omega⟩, (by intro h; cases h)⟩
    · simp only [wIdx, rEffPos, Int.toNat_natCast]
      rw [← a5, ← a2]
    · simp only [RWF]
      exact ⟨a6, a2.symm, c, a1, rfl, by omega, by simp; omega, by simp; omega, by simp; omega, by intro h; cases h⟩
    · simp only [RSynced, Int.toNat_natCast]; exact ⟨by simp, trivial⟩

theorem rf_advance_fwd {j : Journal} (hs : Sorted j) {s : RIt} {c : CIt} {ch : Chunk} (hci : s.ci = some c)
    (hb : s.bkwd = false) (hstats : s.stats = rebuild j []) (hm : ch ∈ j) (hid : ch.id = c.chunk)
    (hcid : s.cid = ch.id) (h0 : 0 ≤ c.pos) (hend : ch.hi ≤ c.pos.toNat) (hle : c.pos.toNat ≤ ch.cnt) :
    EnsOut j (wIdx j s) (rAdvance j s) := by
  obtain ⟨cid, idx, ci, bkwd, stats⟩ := s
  simp only at hci hb hstats hcid
  subst hci hb hstats hcid
  have hw : wIdx j ⟨ch.id, idx, some c, false, rebuild j []⟩ = wflatIdx j ⟨ch.id, c.pos.toNat⟩ := by
    simp [wIdx, rEffPos, hid]
  have hens := rf_ensure_fwd hs (s := ⟨ch.id + 1, 0, none, false, rebuild j []⟩) rfl rfl (Or.inr rfl)
  have hw1 : wIdx j ⟨ch.id + 1, 0, none, false, rebuild j []⟩ = wIdx j ⟨ch.id, idx, some c, false, rebuild j []⟩ := by
    rw [hw]
    simp only [wIdx, rEffPos, RIt.pos]
    exact rf_wflatIdx_next hs hm hend
  rw [hw1] at hens
  unfold rAdvance
  simp only [Bool.false_eq_true, if_false, h0, if_true, Bool.not_false, Bool.and_true]
  generalize rEnsure j ⟨ch.id + 1, 0, none, false, rebuild j []⟩ = res at hens
  obtain ⟨s2, eof⟩ := res
  unfold EnsOut at hens ⊢
  obtain ⟨e1, e2, e3, e4, e5, e6⟩ := hens
  simp only at e1 e2 e3 e4 e5 e6 ⊢
  by_cases hl : (eof && s2.cid == ch.id) = true
  · simp only [hl, if_true]
    have heof : eof = true := by
      cases eof <;> simp_all
    obtain ⟨f1, f2, _⟩ := e6 heof
    refine ⟨e1, ?_, ?_, ?_, (by intro h; rw [heof] at h; cases h), fun _ => ⟨f1, f2, fun _ => ⟨ch, hm, rfl, hle⟩⟩⟩
    · simp only [wIdx, rEffPos, f1, RIt.pos]; rw [hid]
    · simp only [RWF, f1]
      have := e3; simp only [RWF, f1] at this; exact this
    · simp only [RSynced, f1]
  · simp only [hl, Bool.false_eq_true, if_false]
    exact ⟨e1, e2, e3, e4, e5, e6⟩

/-- what forward `rGet`/`rGetLoop` answers from a state with index `i` -/
def GetOutR (j : Journal) (i : Nat) (synced : Prop) (r : RIt × Option Rec) : Prop :=
  r.2 = (wflat j)[i]? ∧ RWF j r.1 ∧ r.1.bkwd = false ∧ wIdx j r.1 = i ∧ (synced → RSynced r.1) ∧
  (r.2.isSome → ROnRecord j r.1) ∧ (r.2 = none → r.1.ci = none ∧ (j ≠ [] → Settled j r.1.pos))

/-- the open chunk iterator stands on a record: one round of the loop delivers it -/
theorem rf_getLoop_on {j : Journal} (hs : Sorted j) (f : Nat) {s : RIt} {c : CIt} (hci : s.ci = some c)
    (hwf : RWF j s) (hb : s.bkwd = false) (hlt : c.pos < (cntOf j c.chunk : Int)) :
    GetOutR j (wIdx j s) (RSynced s) (rGetLoop j (f + 1) s) := by
  obtain ⟨cid, idx, ci, bkwd, stats⟩ := s
  simp only at hci hb
  subst hci hb
  simp only [RWF] at hwf
  obtain ⟨w1, w2, ch, hm, hid, w3, w4, w5, w6, w7⟩ := hwf
  have hcnt : cntOf j c.chunk = ch.cnt := by rw [← hid]; exact cntOf_mem hs hm
  rw [hcnt] at hlt
  have g := ciGet_fwd hs hm hid (by omega) w6 (fun _ => ⟨by omega, hlt⟩)
  rw [rGetLoop]
  simp only
  generalize ciGet j false c = res at g
  obtain ⟨c', r⟩ := res
  obtain ⟨g1, g2, g3, g4⟩ := g
  simp only at g1 g2 g3 g4 ⊢
  have hp : c'.pos = c.pos := by omega
  obtain ⟨g3a, g3b⟩ := g3 (by omega)
  cases r with
  | none => simp at g3b
  | some l =>
    simp only
    have hk1 : ch.minPos ≤ c.pos.toNat := by omega
    have hk2 : c.pos.toNat < ch.hi := by unfold Chunk.hi; omega
    have hw : wIdx j ⟨cid, idx, some c, false, stats⟩ = wflatIdx j ⟨ch.id, c.pos.toNat⟩ := by
      simp [wIdx, rEffPos, hid]
    unfold GetOutR
    refine ⟨?_, ?_, rfl, ?_, ?_, ?_, (by intro h; cases h)⟩
    · rw [hw, rf_wflat_get hs hm hk1 hk2, g3a, hp]
    · simp only [RWF]
      exact ⟨w1, by rw [g1]; exact w2, ch, hm, by rw [g1]; exact hid, w3, by omega, by omega, by omega, fun _ => by omega⟩
    · rw [hw]; simp only [wIdx, rEffPos, g1, hp, hid]
    · intro hsy; simp only [RSynced] at hsy ⊢; rw [hp]; exact hsy
    · intro _; exact ⟨c', rfl, by omega, by rw [g1, hcnt]; omega⟩

theorem rf_getLoop_fwd {j : Journal} (hs : Sorted j) (f : Nat) {s : RIt} {c : CIt} (hci : s.ci = some c)
    (hwf : RWF j s) (hb : s.bkwd = false) :
    GetOutR j (wIdx j s) (RSynced s) (rGetLoop j (f + 2) s) := by
  have hwf0 := hwf
  simp only [RWF, hci] at hwf
  obtain ⟨w1, w2, ch, hm, hid, w3, w4, w5, w6, w7⟩ := hwf
  have hcnt : cntOf j c.chunk = ch.cnt := by rw [← hid]; exact cntOf_mem hs hm
  by_cases hlt : c.pos < (ch.cnt : Int)
  · exact rf_getLoop_on hs (f + 1) hci hwf0 hb (by rw [hcnt]; exact hlt)
  · -- at the end of the chunk: the chunk iterator answers EOF, the next admitted chunk is opened
    have hpe : c.pos = (ch.cnt : Int) := by omega
    obtain ⟨cid, idx, ci, bkwd, stats⟩ := s
    simp only at hci hb w1 w2
    subst hci hb w1
    have hcf : c.cached = false := by
      cases hc : c.cached with
      | false => rfl
      | true => have := w7 hc; omega
    have g := ciGet_fwd hs hm hid (by omega) w6 (fun h => by rw [hcf] at h; cases h)
    rw [rGetLoop]
    simp only
    generalize ciGet j false c = res at g
    obtain ⟨c', r⟩ := res
    obtain ⟨g1, g2, g3, g4⟩ := g
    simp only at g1 g2 g3 g4 ⊢
    have hp : c'.pos = c.pos := by omega
    obtain ⟨g4a, g4b⟩ := g4 (by omega)
    subst g4a
    simp only
    have hadv := rf_advance_fwd hs (s := ⟨cid, idx, some c', false, rebuild j []⟩) (c := c') (ch := ch) rfl rfl rfl hm
      (by rw [g1]; exact hid) (by rw [← w2, ← hid]) (by omega) (by unfold Chunk.hi; omega) (by omega)
    have hw : wIdx j ⟨cid, idx, some c', false, rebuild j []⟩ = wIdx j ⟨cid, idx, some c, false, rebuild j []⟩ := by
      simp only [wIdx, rEffPos, g1, hp]
    rw [hw] at hadv
    generalize rAdvance j ⟨cid, idx, some c', false, rebuild j []⟩ = res at hadv
    obtain ⟨s', eof⟩ := res
    unfold EnsOut at hadv
    obtain ⟨e1, e2, e3, e4, e5, e6⟩ := hadv
    simp only at e1 e2 e3 e4 e5 e6 ⊢
    cases eof with
    | true =>
      simp only [if_true]
      obtain ⟨f1, f2, f3⟩ := e6 rfl
      unfold GetOutR
      refine ⟨?_, e3, e1, e2, fun _ => e4, (by intro h; cases h), fun _ => ⟨f1, f3⟩⟩
      rw [f2]; simp
    | false =>
      simp only [Bool.false_eq_true, if_false]
      obtain ⟨c2, ch2, h1, h2, h3, h4, h5, h6⟩ := e5 rfl
      have hcnt2 : cntOf j c2.chunk = ch2.cnt := by rw [← h3]; exact cntOf_mem hs h2
      have := rf_getLoop_on hs f h1 e3 e1 (by rw [hcnt2]; exact h6)
      rw [e2] at this
      unfold GetOutR at this ⊢
      obtain ⟨t1, t2, t3, t4, t5, t6, t7⟩ := this
      exact ⟨t1, t2, t3, t4, fun _ => t5 e4, t6, t7⟩

theorem rf_get_out {j : Journal} (hs : Sorted j) {s : RIt} (hwf : RWF j s) (hb : s.bkwd = false) :
    GetOutR j (wIdx j s) (RSynced s) (rGet j s) := by
  unfold rGet
  cases hci : s.ci with
  | some c =>
    have he : rEnsure j s = (s, false) := by simp [rEnsure, hci]
    rw [he]
    simp only [Bool.false_eq_true, if_false]
    exact rf_getLoop_fwd hs j.length hci hwf hb
  | none =>
    have hst : RStats j s.stats := by simpa [RWF, hci] using hwf
    have hens := rf_ensure_fwd hs hci hb hst
    generalize rEnsure j s = res at hens
    obtain ⟨s', eof⟩ := res
    unfold EnsOut at hens
    obtain ⟨e1, e2, e3, e4, e5, e6⟩ := hens
    simp only at e1 e2 e3 e4 e5 e6 ⊢
    cases eof with
    | true =>
      simp only [if_true]
      obtain ⟨f1, f2, f3⟩ := e6 rfl
      unfold GetOutR
      refine ⟨?_, e3, e1, e2, fun _ => e4, (by intro h; cases h), fun _ => ⟨f1, f3⟩⟩
      rw [f2]; simp
    | false =>
      simp only [Bool.false_eq_true, if_false]
      obtain ⟨c2, ch2, h1, h2, h3, h4, h5, h6⟩ := e5 rfl
      have := rf_getLoop_fwd hs j.length h1 e3 e1
      rw [e2] at this
      unfold GetOutR at this ⊢
      obtain ⟨t1, t2, t3, t4, t5, t6, t7⟩ := this
      exact ⟨t1, t2, t3, t4, fun _ => t5 e4, t6, t7⟩

/-- forward `Get` of the ranged iterator against the admitted-records abstraction -/
theorem rGetFwd : RGetFwdSpec := by
  intro j s hs hwf hb
  obtain ⟨a, b, c, d, e, f, g⟩ := rf_get_out hs hwf hb
  exact ⟨a, b, c, d, e, f, fun h => (g h).1⟩

theorem rf_next_out {j : Journal} (hs : Sorted j) {s : RIt} (hwf : RWF j s) (hb : s.bkwd = false) :
    RWF j (rNext j s) ∧ (rNext j s).bkwd = false ∧ RSynced (rNext j s) ∧
    wIdx j (rNext j s) = min (wIdx j s + 1) (wflat j).length := by
  have g := rf_get_out hs hwf hb
  have hle := rw_wIdx_le j s
  unfold rNext
  generalize wIdx j s = i at g hle ⊢
  generalize rGet j s = res at g
  obtain ⟨s1, r⟩ := res
  unfold GetOutR at g
  obtain ⟨g1, g2, g3, g4, _, g6, g7⟩ := g
  simp only at g1 g2 g3 g4 g6 g7 ⊢
  cases r with
  | none =>
    have hci := (g7 rfl).1
    simp only [hci]
    have : (wflat j).length ≤ i := by have := g1.symm; simpa using this
    refine ⟨g2, g3, by simp [RSynced, hci], ?_⟩
    rw [g4]; omega
  | some l =>
    obtain ⟨c, hci, h0, hlt⟩ := g6 rfl
    have hilt : i < (wflat j).length := by
      rcases Nat.lt_or_ge i (wflat j).length with h | h
      · exact h
      · rw [List.getElem?_eq_none h] at g1; simp at g1
    obtain ⟨cid, idx, ci, bkwd, stats⟩ := s1
    simp only at hci g3
    subst hci g3
    have hwf1 := g2
    simp only [RWF] at g2
    obtain ⟨w1, w2, ch, hm, hid, w3, w4, w5, w6, w7⟩ := g2
    subst w1
    have hcnt : cntOf j c.chunk = ch.cnt := by rw [← hid]; exact cntOf_mem hs hm
    rw [hcnt] at hlt
    have hnx := ciNext_fwd hs hm hid h0 hlt
    have hstat : statOf (rebuild j []) c.chunk = some (stOf ch) := by rw [← hid]; exact rf_statOf_rebuild hs hm
    simp only [hnx, hstat, Option.getD_some, stOf]
    have hwi : i = wflatIdx j ⟨ch.id, c.pos.toNat⟩ := by
      rw [← g4]; simp [wIdx, rEffPos, hid]
    have hk2 : c.pos.toNat < ch.hi := by unfold Chunk.hi; omega
    have hstep : wflatIdx j ⟨ch.id, (c.pos + 1).toNat⟩ = i + 1 := by
      have e1 : (c.pos + 1).toNat = c.pos.toNat + 1 := by omega
      rw [hwi, e1, rw_wflatIdx_in hs hm, rw_wflatIdx_in hs hm c.pos.toNat]
      have : ch.wBefore (c.pos.toNat + 1) = ch.wBefore c.pos.toNat + 1 := by
        unfold Chunk.wBefore; omega
      omega
    have hmin : min (i + 1) (wflat j).length = i + 1 := by omega
    by_cases hout : c.pos + 1 < 0 ∨ (c.pos + 1).toNat < ch.minPos ∨ (c.pos + 1).toNat > ch.maxPos
    · rw [if_pos hout]
      have hadv := rf_advance_fwd hs (s := ⟨cid, idx, some ⟨c.chunk, c.pos + 1, false⟩, false, rebuild j []⟩)
        (c := ⟨c.chunk, c.pos + 1, false⟩) (ch := ch) rfl rfl rfl hm hid (by rw [← w2, ← hid]) (by simp; omega)
        (by unfold Chunk.hi; simp only; omega) (by simp only; omega)
      have hw : wIdx j ⟨cid, idx, some ⟨c.chunk, c.pos + 1, false⟩, false, rebuild j []⟩ = i + 1 := by
        rw [← hstep]; simp [wIdx, rEffPos, hid]
      rw [hw] at hadv
      unfold EnsOut at hadv
      obtain ⟨e1, e2, e3, e4, _, _⟩ := hadv
      exact ⟨e3, e1, e4, by rw [e2, hmin]⟩
    · rw [if_neg hout]
      refine ⟨?_, rfl, ?_, ?_⟩
      · simp only [RWF]
        exact ⟨trivial, w2, ch, hm, hid, w3, by omega, by omega, by omega, by intro h; cases h⟩
      · simp only [RSynced]; exact ⟨by omega, trivial⟩
      · rw [hmin, ← hstep]; simp [wIdx, rEffPos, hid]

/-- after a forward `Get` of a synced iterator the reported position names an existing chunk and an index inside it or
at its end (what `State()` exports) -/
theorem rf_get_settled {j : Journal} (hs : Sorted j) {s : RIt} (hwf : RWF j s) (hb : s.bkwd = false)
    (hsy : RSynced s) (hne : j ≠ []) : Settled j (rGet j s).1.pos := by
  obtain ⟨_, g2, _, _, g5, g6, g7⟩ := rf_get_out hs hwf hb
  cases hr : (rGet j s).2 with
  | none => exact (g7 hr).2 hne
  | some l =>
    obtain ⟨c, hc, h0, _⟩ := g6 (by rw [hr]; rfl)
    have hsy' := g5 hsy
    unfold RWF at g2; unfold RSynced at hsy'
    rw [hc] at g2 hsy'
    obtain ⟨_, e1, ch, hm, he, _, _, _, hcn, _⟩ := g2
    refine ⟨ch, hm, by simp [RIt.pos, he, e1], ?_⟩
    simp only [RIt.pos]
    rw [hsy'.2]; omega

/-- forward `Next` of the ranged iterator -/
theorem rNextFwd : RNextFwdSpec := by
  intro j s hs hwf hb
  exact rf_next_out hs hwf hb

/-- draining the ranged iterator forward delivers the admitted records from its index on -/
theorem rf_drain_eq (j : Journal) (s : RIt) (n : Nat) (hs : Sorted j) (hwf : RWF j s) (hb : s.bkwd = false) :
    rDrain j n s = ((wflat j).drop (wIdx j s)).take n := by
  induction n generalizing s with
  | zero => simp [rDrain]
  | succ n ih =>
    have g := rf_get_out hs hwf hb
    have hle := rw_wIdx_le j s
    rw [rDrain]
    generalize wIdx j s = i at g hle ⊢
    generalize rGet j s = res at g ⊢
    obtain ⟨s', r⟩ := res
    unfold GetOutR at g
    obtain ⟨g1, g2, g3, g4, _, _, _⟩ := g
    simp only at g1 g2 g3 g4
    cases r with
    | none =>
      simp only
      have : (wflat j).length ≤ i := by have := g1.symm; simpa using this
      rw [List.drop_eq_nil_of_le this]; rfl
    | some l =>
      simp only
      obtain ⟨n1, n2, _, n4⟩ := rf_next_out hs g2 g3
      rw [ih (rNext j s') n1 n2]
      have hlt : i < (wflat j).length := by
        rcases Nat.lt_or_ge i (wflat j).length with h | h
        · exact h
        · rw [List.getElem?_eq_none h] at g1; simp at g1
      have e : wIdx j (rNext j s') = i + 1 := by rw [n4, g4]; omega
      rw [e]
      have hd : (wflat j).drop i = l :: (wflat j).drop (i + 1) := by
        rw [List.drop_eq_getElem_cons hlt]
        congr 1
        have := List.getElem?_eq_getElem hlt
        rw [this] at g1
        exact (Option.some.inj g1).symm
      rw [hd, List.take_succ_cons]

theorem rf_pos_after (j : Journal) (s : RIt) (k : Nat) (hs : Sorted j) (hwf : RWF j s) (hb : s.bkwd = false) :
    wIdx j (rStepK j k s) = min (wIdx j s + k) (wflat j).length ∧ RWF j (rStepK j k s) ∧
    (rStepK j k s).bkwd = false := by
  induction k generalizing s with
  | zero =>
    have hle := rw_wIdx_le j s
    simp only [rStepK]
    exact ⟨by omega, hwf, hb⟩
  | succ k ih =>
    have g := rf_get_out hs hwf hb
    unfold GetOutR at g
    obtain ⟨_, g2, g3, g4, _, _, _⟩ := g
    obtain ⟨n1, n2, _, n4⟩ := rf_next_out hs g2 g3
    rw [rStepK]
    obtain ⟨i1, i2, i3⟩ := ih (rNext j (rGet j s).1) n1 n2
    refine ⟨?_, i2, i3⟩
    rw [i1, n4, g4]
    omega

/-! ## the executable well-formedness test and the drain SPEC the model driver prints -/

theorem rf_rwfB_sound {j : Journal} {s : RIt} (h : rwfB j s = true) : RWF j s := by
  unfold rwfB at h
  unfold RWF
  cases hci : s.ci with
  | none =>
    rw [hci] at h
    simp only [Bool.or_eq_true, List.isEmpty_iff, beq_iff_eq] at h
    exact h
  | some c =>
    rw [hci] at h
    simp only [Bool.and_eq_true, beq_iff_eq, List.any_eq_true, decide_eq_true_eq, Bool.or_eq_true,
      Bool.not_eq_true'] at h
    obtain ⟨⟨h1, h2⟩, ch, hm, ⟨⟨⟨⟨⟨a1, a2⟩, a3⟩, a4⟩, a5⟩, a6⟩⟩ := h
    refine ⟨h1, h2, ch, hm, a1, a2, a3, a4, a5, ?_⟩
    intro hc
    rcases a6 with a6 | a6
    · rw [hc] at a6; cases a6
    · exact a6

/-- what the driver answers for `it.spec` on a ranged iterator going forward IS what a drain delivers -/
theorem rf_spec_drain_fwd (j : Journal) (s : RIt) (n : Nat) (hs : Sorted j) (h : rwfB j s = true)
    (hb : s.bkwd = false) (hn : (wflat j).length ≤ n) : rDrain j n s = rSpecDrain j s := by
  rw [rf_drain_eq j s n hs (rf_rwfB_sound h) hb]
  unfold rSpecDrain
  rw [hb]
  simp only [Bool.false_eq_true, if_false]
  apply List.take_of_length_le
  simp only [wIdx, List.length_drop]; omega

end Logrange.Rd
