import Logrange.Proofs.MixerErr
import Logrange.Proofs.Mixer
/-!
# One model: the error model (`Model/MixerErr.lean`) and the proved model (`Model/Mixer.lean`) at tree level, and what the
callers of the merged cursor can observe when a source fails

* `LawfulSourceE` — the law that ties a source's real read `getE` to its read in the proved model `get`: when `getE` does not
  fail, it *is* `get`.
* `It.getE_ok` — tree level, any nesting: a `Get` of the tree that does not answer an error is the base model's `Get` (answer and
  new state). `It.getE_errfree`, `It.nextE_errfree`: over sources that never fail the two models are the same functions.
* `It.getE_err_blocked` — a `Get` that answers an error leaves the tree `Blocked` on a failing source (when failures are
  persistent: `P`), `It.blocked_*` — and then every operation (`Get`, `Next`, `Release`, `SetBackward`) keeps it blocked.
* `It.nextE_dich` — `Next` (which drops the error of its `selectState`) is the base model's `Next` or leaves the tree blocked.
* `It.runE_dich` — any caller (a program that chooses its next operation from everything it has seen so far: answers,
  `CurrentPos`, …) drives the error model exactly like the base model until the first error, and from then on the tree is blocked.
* `It.pageE_dich`, `It.page_eq_take` — the read loop of `Querier.Query`.
-/
namespace Logrange.Mixer

/-- the real read of a source, when it does not fail, is its read in the proved model -/
class LawfulSourceE (σ : Type) [SourceE σ] : Prop where
  getE_ok : ∀ s : σ, (SourceE.getE s).2 ≠ .err →
    SourceE.getE s = ((Source.get s).1, Res.ofOption (Source.get s).2)

theorem Res.ofOption_ne_err (o : Option Ev) : Res.ofOption o ≠ .err := by
  cases o <;> simp [Res.ofOption]

instance instLawfulLeafE : LawfulSourceE LeafE where
  getE_ok s h := by
    have h' : (LeafE.getE s).2 ≠ .err := h
    show LeafE.getE s = _
    unfold LeafE.getE at h' ⊢
    by_cases hc : s.l.clamp < (s.l.les.length : Int) ∧ s.l.clamp ≥ 0 ∧ s.bad.contains s.l.clamp.toNat = true
    · simp only [hc, and_self, if_true] at h'
      exact absurd rfl h'
    · simp only [hc, if_false]
      rfl

/-! ## `selectStateE` against `selectState` -/

/-- when no error is returned, `selectStateE` is `selectState` on any answers that agree with the real ones where the code asks -/
theorem selectStateE_eq {α : Type} (m : MixSt) (a b : α) (ga gb : α × Res) (ga' gb' : α × Option Ev)
    (h1 : m.eof1 = false → ga.2 ≠ .err → ga = (ga'.1, Res.ofOption ga'.2))
    (h2 : m.eof2 = false → gb.2 ≠ .err → gb = (gb'.1, Res.ofOption gb'.2))
    (hne : (m.selectStateE a b ga gb).2.2.2 = false) :
    m.selectStateE a b ga gb =
      ((m.selectState a b ga' gb').1, (m.selectState a b ga' gb').2.1, (m.selectState a b ga' gb').2.2, false) := by
  obtain ⟨ga1, ga2⟩ := ga
  obtain ⟨gb1, gb2⟩ := gb
  obtain ⟨ga1', ga2'⟩ := ga'
  obtain ⟨gb1', gb2'⟩ := gb'
  by_cases h : m.st = 0
  case neg => simp [MixSt.selectStateE, MixSt.selectState, h]
  simp only at h1 h2
  have hg1 : m.eof1 = false → ga2 ≠ .err := by
    intro e1 he; subst he
    simp [MixSt.selectStateE, h, e1] at hne
  have hg2 : m.eof2 = false → gb2 ≠ .err := by
    intro e2 he; subst he
    cases e1 : m.eof1 <;> cases ga2 <;> simp [MixSt.selectStateE, h, e1, e2] at hne
  cases e1 : m.eof1 <;> cases e2 : m.eof2
  · have q1 := h1 e1 (hg1 e1)
    have q2 := h2 e2 (hg2 e2)
    simp only [Prod.mk.injEq] at q1 q2
    obtain ⟨rfl, rfl⟩ := q1
    obtain ⟨rfl, rfl⟩ := q2
    cases ga2' <;> cases gb2' <;>
      simp [MixSt.selectStateE, MixSt.selectState, h, e1, e2, Res.ofOption, MixSt.fetch1, MixSt.fetch2]
  · have q1 := h1 e1 (hg1 e1)
    simp only [Prod.mk.injEq] at q1
    obtain ⟨rfl, rfl⟩ := q1
    cases ga2' <;>
      simp [MixSt.selectStateE, MixSt.selectState, h, e1, e2, Res.ofOption, MixSt.fetch1, MixSt.fetch2]
  · have q2 := h2 e2 (hg2 e2)
    simp only [Prod.mk.injEq] at q2
    obtain ⟨rfl, rfl⟩ := q2
    cases gb2' <;>
      simp [MixSt.selectStateE, MixSt.selectState, h, e1, e2, Res.ofOption, MixSt.fetch1, MixSt.fetch2]
  · simp [MixSt.selectStateE, MixSt.selectState, h, e1, e2]

/-- where an error comes from -/
theorem selectStateE_flag {α : Type} (m : MixSt) (a b : α) (ga gb : α × Res)
    (h : (m.selectStateE a b ga gb).2.2.2 = true) :
    m.st = 0 ∧ ((m.eof1 = false ∧ ga.2 = .err) ∨ ((m.eof1 = true ∨ ga.2 ≠ .err) ∧ m.eof2 = false ∧ gb.2 = .err)) := by
  unfold MixSt.selectStateE at h
  by_cases h0 : m.st ≠ 0
  · simp [h0] at h
  · have h0' : m.st = 0 := by omega
    refine ⟨h0', ?_⟩
    simp only [h0, if_false] at h
    cases e1 : m.eof1 <;> cases e2 : m.eof2 <;> cases g1 : ga.2 <;> cases g2 : gb.2 <;> simp_all

/-- the state after `selectStateE` keeps "a selected source is not flagged as ended" -/
theorem selectStateE_sane {α : Type} (m : MixSt) (a b : α) (ga gb : α × Res)
    (hs : (m.st = 1 → m.eof1 = false) ∧ (m.st = 2 → m.eof2 = false)) :
    ((m.selectStateE a b ga gb).1.st = 1 → (m.selectStateE a b ga gb).1.eof1 = false) ∧
    ((m.selectStateE a b ga gb).1.st = 2 → (m.selectStateE a b ga gb).1.eof2 = false) := by
  unfold MixSt.selectStateE
  by_cases h0 : m.st ≠ 0
  · simpa [h0] using hs
  · have h0' : m.st = 0 := by omega
    simp only [h0, if_false]
    cases e1 : m.eof1 <;> cases e2 : m.eof2 <;> cases g1 : ga.2 <;> cases g2 : gb.2 <;>
      simp [MixSt.choose, e1, e2, h0'] <;> (try split) <;> simp_all

namespace It
variable {σ : Type} [SourceE σ]

/-! ## `Get` -/

/-- **a `Get` of the tree that does not answer an error is the proved model's `Get`** (answer and new state, any nesting) -/
theorem getE_ok [LawfulSourceE σ] (t : It σ) (h : t.getE.2 ≠ .err) :
    t.getE = (t.get.1, Res.ofOption t.get.2) := by
  induction t with
  | leaf s =>
    have := LawfulSourceE.getE_ok s (by simpa [getE] using h)
    simp only [getE, get]
    rw [this]
  | mix m a b iha ihb =>
    simp only [getE] at h ⊢
    have hne : (m.selectStateE a b a.getE b.getE).2.2.2 = false := by
      cases hf : (m.selectStateE a b a.getE b.getE).2.2.2
      · rfl
      · simp [hf] at h
    have e := selectStateE_eq m a b a.getE b.getE a.get b.get (fun _ hn => iha hn) (fun _ hn => ihb hn) hne
    rw [e]
    simp [get]

/-- `P`-blocked trees answer the error (from `Proofs/MixerErr.lean`), restated -/
theorem blocked_getE (P : σ → Prop) (hP : ∀ s, P s → (SourceE.getE s).2 = .err ∧ P (SourceE.getE s).1)
    (t : It σ) (h : t.Blocked P) : t.getE.2 = .err ∧ t.getE.1.Blocked P := getE_blocked P hP t h

/-- **a `Get` that answers an error leaves the tree blocked**: when every failure leaves the failing source in `P` -/
theorem getE_err_blocked (P : σ → Prop) (hE : ∀ s : σ, (SourceE.getE s).2 = .err → P (SourceE.getE s).1)
    (t : It σ) (h : t.getE.2 = .err) : t.getE.1.Blocked P := by
  induction t with
  | leaf s => exact hE s (by simpa [getE] using h)
  | mix m a b iha ihb =>
    simp only [getE] at h ⊢
    have hf : (m.selectStateE a b a.getE b.getE).2.2.2 = true := by
      cases hf : (m.selectStateE a b a.getE b.getE).2.2.2
      · simp [hf] at h; exact absurd h (Res.ofOption_ne_err _)
      · rfl
    obtain ⟨h0, hc⟩ := selectStateE_flag m a b a.getE b.getE hf
    rcases hc with ⟨e1, g1⟩ | ⟨h1, e2, g2⟩
    · obtain ⟨_, s0, f1, _, _, ea, _⟩ := selectStateE_err1 m a b a.getE b.getE h0 e1 g1
      simp only [Blocked]
      refine ⟨s0, Or.inl ⟨f1, ?_⟩⟩
      rw [ea]; exact iha g1
    · obtain ⟨_, s0, f2, _, eb, _⟩ := selectStateE_err2 m a b a.getE b.getE h0 h1 e2 g2
      simp only [Blocked]
      refine ⟨s0, Or.inr ⟨f2, ?_⟩⟩
      rw [eb]; exact ihb g2

/-! ## the sanity invariant: a selected source is not flagged as ended -/

def Sane : It σ → Prop
  | .leaf _ => True
  | .mix m a b => a.Sane ∧ b.Sane ∧ (m.st = 1 → m.eof1 = false) ∧ (m.st = 2 → m.eof2 = false)

theorem init_sane (a b : It σ) (ha : a.Sane) (hb : b.Sane) : (init a b).Sane := by
  simp [init, Sane, ha, hb]

theorem getE_sane (t : It σ) (h : t.Sane) : t.getE.1.Sane := by
  induction t with
  | leaf s => trivial
  | mix m a b iha ihb =>
    obtain ⟨sa, sb, s1, s2⟩ := h
    simp only [getE, Sane]
    have hc := selectStateE_cases m a b a.getE b.getE
    have hs := selectStateE_sane m a b a.getE b.getE ⟨s1, s2⟩
    refine ⟨?_, ?_, hs.1, hs.2⟩
    · rcases hc.1 with r | r <;> rw [r]
      · exact sa
      · exact iha sa
    · rcases hc.2 with r | r <;> rw [r]
      · exact sb
      · exact ihb sb

theorem release_sane (t : It σ) (h : t.Sane) : t.release.Sane := by
  induction t with
  | leaf s => trivial
  | mix m a b iha ihb =>
    obtain ⟨sa, sb, _, _⟩ := h
    simp [release, Sane, iha sa, ihb sb]

theorem setBackward_sane (bk : Bool) (t : It σ) (h : t.Sane) : (t.setBackward bk).Sane := by
  induction t with
  | leaf s => trivial
  | mix m a b iha ihb =>
    obtain ⟨sa, sb, s1, s2⟩ := h
    simp only [setBackward]
    split
    · exact ⟨sa, sb, s1, s2⟩
    · simp only [release]
      exact ⟨release_sane _ (iha sa), release_sane _ (ihb sb), by simp, by simp⟩

/-! ## `Next` -/

/-- unfolding of `nextE` at a mixer -/
theorem nextE_mix (m : MixSt) (a b : It σ) :
    (It.mix m a b).nextE =
      (let r := m.selectStateE a b a.getE b.getE
       if r.1.st = 1 then .mix { r.1 with st := 0 } r.2.1.nextE r.2.2.1
       else if r.1.st = 2 then .mix { r.1 with st := 0 } r.2.1 r.2.2.1.nextE
       else .mix { r.1 with st := 0 } r.2.1 r.2.2.1) := by
  rw [nextE]
  split
  rename_i m' a' b' fl heq
  simp only [heq]
  split
  · rename_i h1; simp [h1]
  · rename_i h2; simp [h2]
  · rename_i n1 n2
    have : m'.st ≠ 1 := by intro h; exact n1 h
    have : m'.st ≠ 2 := by intro h; exact n2 h
    simp [*]

/-- the same for the base model -/
theorem next_mix [Source σ] (m : MixSt) (a b : It σ) :
    (It.mix m a b).next =
      (let r := m.selectState a b a.get b.get
       if r.1.st = 1 then .mix { r.1 with st := 0 } r.2.1.next r.2.2
       else if r.1.st = 2 then .mix { r.1 with st := 0 } r.2.1 r.2.2.next
       else .mix { r.1 with st := 0 } r.2.1 r.2.2) := by
  rw [next]
  split
  rename_i m' a' b' heq
  simp only [heq]
  split
  · rename_i h1; simp [h1]
  · rename_i h2; simp [h2]
  · rename_i n1 n2
    have : m'.st ≠ 1 := by intro h; exact n1 h
    have : m'.st ≠ 2 := by intro h; exact n2 h
    simp [*]

/-- a `Next` whose `selectState` fails changes what the failed `Get` changed and nothing else -/
theorem nextE_of_err (m : MixSt) (a b : It σ) (h : (It.mix m a b).getE.2 = .err) :
    (It.mix m a b).nextE = (It.mix m a b).getE.1 := by
  simp only [getE] at h
  have hf : (m.selectStateE a b a.getE b.getE).2.2.2 = true := by
    cases hf : (m.selectStateE a b a.getE b.getE).2.2.2
    · simp [hf] at h; exact absurd h (Res.ofOption_ne_err _)
    · rfl
  obtain ⟨h0, hc⟩ := selectStateE_flag m a b a.getE b.getE hf
  have hst : (m.selectStateE a b a.getE b.getE).1.st = 0 := by
    rcases hc with ⟨e1, g1⟩ | ⟨h1, e2, g2⟩
    · exact (selectStateE_err1 m a b a.getE b.getE h0 e1 g1).2.1
    · exact (selectStateE_err2 m a b a.getE b.getE h0 h1 e2 g2).2.1
  rw [nextE_mix]
  simp only [getE, hst]
  have : ({ (m.selectStateE a b a.getE b.getE).1 with st := 0 } : MixSt) = (m.selectStateE a b a.getE b.getE).1 := by
    rw [← hst]
  simp [this]

theorem nextE_sane_aux (n : Nat) : ∀ t : It σ, t.size ≤ n → t.Sane → t.nextE.Sane := by
  induction n with
  | zero => intro t hn; cases t <;> simp [size] at hn
  | succ n ih =>
    intro t hn h
    cases t with
    | leaf s => simp [nextE, Sane]
    | mix m a b =>
      obtain ⟨sa, sb, _, _⟩ := h
      have hc := selectStateE_cases m a b a.getE b.getE
      have sa' : (m.selectStateE a b a.getE b.getE).2.1.Sane := by
        rcases hc.1 with r | r <;> rw [r]
        · exact sa
        · exact getE_sane a sa
      have sb' : (m.selectStateE a b a.getE b.getE).2.2.1.Sane := by
        rcases hc.2 with r | r <;> rw [r]
        · exact sb
        · exact getE_sane b sb
      have za : (m.selectStateE a b a.getE b.getE).2.1.size ≤ n := by
        have := getE_size a; simp only [size] at hn
        rcases hc.1 with r | r <;> rw [r] <;> omega
      have zb : (m.selectStateE a b a.getE b.getE).2.2.1.size ≤ n := by
        have := getE_size b; simp only [size] at hn
        rcases hc.2 with r | r <;> rw [r] <;> omega
      rw [nextE_mix]
      simp only
      split
      · exact ⟨ih _ za sa', sb', by simp, by simp⟩
      · split
        · exact ⟨sa', ih _ zb sb', by simp, by simp⟩
        · exact ⟨sa', sb', by simp, by simp⟩

theorem nextE_sane (t : It σ) (h : t.Sane) : t.nextE.Sane := nextE_sane_aux t.size t (Nat.le_refl _) h

/-- **`Next` in the error model is the proved model's `Next`, or it has swallowed an error and the tree is blocked** -/
theorem nextE_dich_aux [LawfulSourceE σ] (P : σ → Prop)
    (hE : ∀ s : σ, (SourceE.getE s).2 = .err → P (SourceE.getE s).1) (n : Nat) :
    ∀ t : It σ, t.size ≤ n → t.Sane → t.nextE = t.next ∨ t.nextE.Blocked P := by
  induction n with
  | zero => intro t hn; cases t <;> simp [size] at hn
  | succ n ih =>
    intro t hn h
    cases t with
    | leaf s => left; simp [nextE, next]
    | mix m a b =>
      by_cases herr : (It.mix m a b).getE.2 = .err
      · right
        rw [nextE_of_err m a b herr]
        exact getE_err_blocked P hE _ herr
      · have hne : (m.selectStateE a b a.getE b.getE).2.2.2 = false := by
          cases hf : (m.selectStateE a b a.getE b.getE).2.2.2
          · rfl
          · simp [getE, hf] at herr
        have e := selectStateE_eq m a b a.getE b.getE a.get b.get
          (fun _ hn => getE_ok a hn) (fun _ hn => getE_ok b hn) hne
        obtain ⟨sa, sb, s1, s2⟩ := h
        have hc := selectStateE_cases m a b a.getE b.getE
        have hs := selectStateE_sane m a b a.getE b.getE ⟨s1, s2⟩
        have sa' : (m.selectStateE a b a.getE b.getE).2.1.Sane := by
          rcases hc.1 with r | r <;> rw [r]
          · exact sa
          · exact getE_sane a sa
        have sb' : (m.selectStateE a b a.getE b.getE).2.2.1.Sane := by
          rcases hc.2 with r | r <;> rw [r]
          · exact sb
          · exact getE_sane b sb
        have za : (m.selectStateE a b a.getE b.getE).2.1.size ≤ n := by
          have := getE_size a; simp only [size] at hn
          rcases hc.1 with r | r <;> rw [r] <;> omega
        have zb : (m.selectStateE a b a.getE b.getE).2.2.1.size ≤ n := by
          have := getE_size b; simp only [size] at hn
          rcases hc.2 with r | r <;> rw [r] <;> omega
        rw [nextE_mix, next_mix]
        rw [e] at hs sa' sb' za zb ⊢
        simp only at hs sa' sb' za zb ⊢
        generalize m.selectState a b a.get b.get = r at *
        obtain ⟨m', a', b'⟩ := r
        simp only at hs sa' sb' za zb ⊢
        by_cases c1 : m'.st = 1
        · simp only [c1, if_true]
          rcases ih a' za sa' with q | q
          · left; rw [q]
          · right; exact ⟨rfl, Or.inl ⟨hs.1 c1, q⟩⟩
        · by_cases c2 : m'.st = 2
          · simp only [c2, if_true]
            have : ¬ (2 = 1) := by decide
            simp only [this, if_false]
            rcases ih b' zb sb' with q | q
            · left; rw [q]
            · right; exact ⟨rfl, Or.inr ⟨hs.2 c2, q⟩⟩
          · left; simp [c1, c2]

theorem nextE_dich [LawfulSourceE σ] (P : σ → Prop)
    (hE : ∀ s : σ, (SourceE.getE s).2 = .err → P (SourceE.getE s).1) (t : It σ) (h : t.Sane) :
    t.nextE = t.next ∨ t.nextE.Blocked P := nextE_dich_aux P hE t.size t (Nat.le_refl _) h

/-! ## a blocked tree stays blocked -/

/-- what "the record cannot be read" means for a source: `Get` fails and stays there, and `Release` or a direction switch do not
move the source off the record. (`Next` is not in the list: a mixer never calls `Next` on a source whose `Get` failed —
`nextE_of_err` — so nothing is assumed about it. The journal iterators do not step over a record they cannot read —
`cIterator.Next` advances only `if err == nil` —, the in-memory test iterator would.) -/
structure Persistent (P : σ → Prop) : Prop where
  getE : ∀ s, P s → (SourceE.getE s).2 = .err ∧ P (SourceE.getE s).1
  release : ∀ s, P s → P (Source.release s)
  setBackward : ∀ bk s, P s → P (Source.setBackward bk s)

/-- the cursor is a merge (at least two partitions): its root is a mixer -/
def isMix : It σ → Prop
  | .leaf _ => False
  | .mix _ _ _ => True

theorem getE_isMix (t : It σ) (h : t.isMix) : t.getE.1.isMix := by
  cases t with
  | leaf s => exact h
  | mix m a b => simp [getE, isMix]

theorem nextE_isMix (t : It σ) (h : t.isMix) : t.nextE.isMix := by
  cases t with
  | leaf s => exact absurd h (by simp [isMix])
  | mix m a b =>
    rw [nextE_mix]
    simp only
    split
    · trivial
    · split <;> trivial

theorem release_isMix (t : It σ) (h : t.isMix) : t.release.isMix := by
  cases t with
  | leaf s => exact absurd h (by simp [isMix])
  | mix m a b => simp [release, isMix]

theorem setBackward_isMix (bk : Bool) (t : It σ) (h : t.isMix) : (t.setBackward bk).isMix := by
  cases t with
  | leaf s => exact absurd h (by simp [isMix])
  | mix m a b =>
    simp only [setBackward]
    split
    · trivial
    · simp [release, isMix]

theorem blocked_nextE (P : σ → Prop) (hP : Persistent P) (t : It σ) (hm : t.isMix) (h : t.Blocked P) :
    t.nextE.Blocked P := by
  cases t with
  | leaf s => exact absurd hm (by simp [isMix])
  | mix m a b =>
    obtain ⟨g1, g2⟩ := getE_blocked P hP.getE _ h
    rw [nextE_of_err m a b g1]; exact g2

theorem blocked_release (P : σ → Prop) (hP : Persistent P) (t : It σ) (h : t.Blocked P) : t.release.Blocked P := by
  induction t with
  | leaf s => exact hP.release s h
  | mix m a b iha ihb =>
    obtain ⟨h0, hb⟩ := h
    simp only [release, Blocked, h0]
    refine ⟨by simp, ?_⟩
    rcases hb with ⟨_, ba⟩ | ⟨_, bb⟩
    · exact Or.inl ⟨by simp, iha ba⟩
    · exact Or.inr ⟨by simp, ihb bb⟩

theorem blocked_setBackward (P : σ → Prop) (hP : Persistent P) (bk : Bool) (t : It σ) (h : t.Blocked P) :
    (t.setBackward bk).Blocked P := by
  induction t with
  | leaf s => exact hP.setBackward bk s h
  | mix m a b iha ihb =>
    simp only [setBackward]
    split
    · exact h
    · obtain ⟨h0, hb⟩ := h
      simp only [release, Blocked]
      refine ⟨by simp, ?_⟩
      rcases hb with ⟨_, ba⟩ | ⟨_, bb⟩
      · exact Or.inl ⟨by simp, blocked_release P hP _ (iha ba)⟩
      · exact Or.inr ⟨by simp, blocked_release P hP _ (ihb bb)⟩

/-! ## any caller -/

/-- the operations a caller has on the merged cursor -/
inductive Op where
  | get | next | release | setBackward (bk : Bool)
deriving DecidableEq, Repr

/-- one operation on the error model (`some r`: what `Get` answered) -/
def stepE (t : It σ) : Op → It σ × Option Res
  | .get => (t.getE.1, some t.getE.2)
  | .next => (t.nextE, none)
  | .release => (t.release, none)
  | .setBackward bk => (t.setBackward bk, none)

/-- the same on the proved model -/
def step (t : It σ) : Op → It σ × Option Res
  | .get => (t.get.1, some (Res.ofOption t.get.2))
  | .next => (t.next, none)
  | .release => (t.release, none)
  | .setBackward bk => (t.setBackward bk, none)

/-- a caller: decides its next operation (or stops) from what it has seen — the answers and any observation `obs` of the cursor
(`CurrentPos`, the positions of the journal iterators, …) after every step. `Offset`, `iterateToPos`, `State`, `commit`,
`WaitNewData`'s `Release`, the read loops of the two `Query` functions are such callers. -/
abbrev Caller (ω : Type) := List (Option Res × ω) → Option Op

def runE {ω : Type} (obs : It σ → ω) (c : Caller ω) : Nat → It σ → List (Option Res × ω) → It σ × List (Option Res × ω)
  | 0, t, h => (t, h)
  | n+1, t, h =>
    match c h with
    | none => (t, h)
    | some op => runE obs c n (t.stepE op).1 (h ++ [((t.stepE op).2, obs (t.stepE op).1)])

def run {ω : Type} (obs : It σ → ω) (c : Caller ω) : Nat → It σ → List (Option Res × ω) → It σ × List (Option Res × ω)
  | 0, t, h => (t, h)
  | n+1, t, h =>
    match c h with
    | none => (t, h)
    | some op => run obs c n (t.step op).1 (h ++ [((t.step op).2, obs (t.step op).1)])

theorem stepE_sane (t : It σ) (h : t.Sane) (op : Op) : (t.stepE op).1.Sane := by
  cases op
  · exact getE_sane t h
  · exact nextE_sane t h
  · exact release_sane t h
  · exact setBackward_sane _ t h

theorem stepE_isMix (t : It σ) (h : t.isMix) (op : Op) : (t.stepE op).1.isMix := by
  cases op
  · exact getE_isMix t h
  · exact nextE_isMix t h
  · exact release_isMix t h
  · exact setBackward_isMix _ t h

theorem blocked_stepE (P : σ → Prop) (hP : Persistent P) (t : It σ) (hm : t.isMix) (h : t.Blocked P) (op : Op) :
    (t.stepE op).1.Blocked P := by
  cases op
  · exact (getE_blocked P hP.getE t h).2
  · exact blocked_nextE P hP t hm h
  · exact blocked_release P hP t h
  · exact blocked_setBackward P hP _ t h

theorem blocked_runE {ω : Type} (P : σ → Prop) (hP : Persistent P) (obs : It σ → ω) (c : Caller ω) (n : Nat) :
    ∀ (t : It σ) (h : List (Option Res × ω)), t.isMix → t.Blocked P → (runE obs c n t h).1.Blocked P := by
  induction n with
  | zero => intro t h _ hb; exact hb
  | succ n ih =>
    intro t h hm hb
    simp only [runE]
    split
    · exact hb
    · exact ih _ _ (stepE_isMix t hm _) (blocked_stepE P hP t hm hb _)

/-- one step: the same as in the proved model, or the tree is blocked afterwards -/
theorem stepE_dich [LawfulSourceE σ] (P : σ → Prop)
    (hE : ∀ s : σ, (SourceE.getE s).2 = .err → P (SourceE.getE s).1) (t : It σ) (h : t.Sane) (op : Op) :
    t.stepE op = t.step op ∨ (t.stepE op).1.Blocked P := by
  cases op
  · by_cases he : t.getE.2 = .err
    · right; exact getE_err_blocked P hE t he
    · left
      have := getE_ok t he
      simp only [stepE, step]
      rw [this]
  · rcases nextE_dich P hE t h with q | q
    · left; simp only [stepE, step]; rw [q]
    · right; exact q
  · left; rfl
  · left; rfl

/-- **any caller drives the error model exactly like the proved model, or ends on a blocked tree.** Errors are persistent (`P`),
the real read agrees with the model's read when it does not fail; then a run of any caller program of any length from any sane
tree either is step by step the run over the proved model — same operations chosen, same answers (none of them an error), same
observations, same final tree — or its final tree is blocked: every later `Get` answers the error. -/
theorem runE_dich [LawfulSourceE σ] {ω : Type} (P : σ → Prop) (hP : Persistent P)
    (hE : ∀ s : σ, (SourceE.getE s).2 = .err → P (SourceE.getE s).1)
    (obs : It σ → ω) (c : Caller ω) (n : Nat) :
    ∀ (t : It σ) (h : List (Option Res × ω)), t.Sane → t.isMix →
      runE obs c n t h = run obs c n t h ∨ (runE obs c n t h).1.Blocked P := by
  induction n with
  | zero => intro t h _ _; left; rfl
  | succ n ih =>
    intro t h hs hm
    simp only [runE, run]
    cases hc : c h with
    | none => left; rfl
    | some op =>
      simp only
      rcases stepE_dich P hE t hs op with q | q
      · rw [← q]
        exact ih _ _ (stepE_sane t hs op) (stepE_isMix t hm op)
      · right
        exact blocked_runE P hP obs c n _ _ (stepE_isMix t hm op) q

/-! ## sources that never fail: the two models are one -/

theorem getE_errfree [LawfulSourceE σ] (hN : ∀ s : σ, (SourceE.getE s).2 ≠ .err) (t : It σ) :
    t.getE = (t.get.1, Res.ofOption t.get.2) := by
  apply getE_ok
  intro he
  have := getE_err_blocked (fun _ => False) (fun s h => absurd h (hN s)) t he
  generalize t.getE.1 = u at this
  induction u with
  | leaf s => exact this
  | mix m a b iha ihb =>
    obtain ⟨_, hb⟩ := this
    rcases hb with ⟨_, q⟩ | ⟨_, q⟩
    · exact iha q
    · exact ihb q

theorem nextE_errfree_aux [LawfulSourceE σ] (hN : ∀ s : σ, (SourceE.getE s).2 ≠ .err) (n : Nat) :
    ∀ t : It σ, t.size ≤ n → t.nextE = t.next := by
  induction n with
  | zero => intro t hn; cases t <;> simp [size] at hn
  | succ n ih =>
    intro t hn
    cases t with
    | leaf s => simp [nextE, next]
    | mix m a b =>
      have ga := getE_errfree hN a
      have gb := getE_errfree hN b
      have hne : (m.selectStateE a b a.getE b.getE).2.2.2 = false := by
        have := getE_errfree hN (It.mix m a b)
        cases hf : (m.selectStateE a b a.getE b.getE).2.2.2
        · rfl
        · have h2 : (It.mix m a b).getE.2 = .err := by simp [getE, hf]
          rw [this] at h2
          exact absurd h2 (Res.ofOption_ne_err _)
      have e := selectStateE_eq m a b a.getE b.getE a.get b.get (fun _ _ => ga) (fun _ _ => gb) hne
      have hc := selectState_cases m a b a.get b.get
      have za : (m.selectState a b a.get b.get).2.1.size ≤ n := by
        have := get_size a; simp only [size] at hn
        rcases hc.1 with r | r <;> rw [r] <;> omega
      have zb : (m.selectState a b a.get b.get).2.2.size ≤ n := by
        have := get_size b; simp only [size] at hn
        rcases hc.2 with r | r <;> rw [r] <;> omega
      rw [nextE_mix, next_mix, e]
      simp only
      rw [ih _ za, ih _ zb]

/-- **over sources that never fail the error model IS the proved model** (any tree, any nesting, any state) -/
theorem nextE_errfree [LawfulSourceE σ] (hN : ∀ s : σ, (SourceE.getE s).2 ≠ .err) (t : It σ) : t.nextE = t.next :=
  nextE_errfree_aux hN t.size t (Nat.le_refl _)

/-! ## the read loop of `Query` -/

/-- the read loop on the proved model -/
def page : Nat → It σ → It σ × List Ev
  | 0, t => (t, [])
  | n+1, t =>
    match t.get with
    | (t', some e) => let r := page n t'.next; (r.1, e :: r.2)
    | (t', none) => (t', [])

theorem pageE_of_err (k : Nat) (t : It σ) (h : t.getE.2 = .err) : (pageE (k+1) t).2.2 = true := by
  rw [pageE]
  split
  · rename_i heq; rw [heq] at h; simp at h
  · rename_i heq; rw [heq] at h; simp at h
  · rfl

/-- **the read loop fails, or it delivers exactly the page of the proved model** (and leaves the cursor in the proved model's
state, or blocked) -/
theorem pageE_dich [LawfulSourceE σ] (P : σ → Prop)
    (hP : ∀ s, P s → (SourceE.getE s).2 = .err ∧ P (SourceE.getE s).1)
    (hE : ∀ s : σ, (SourceE.getE s).2 = .err → P (SourceE.getE s).1) (n : Nat) :
    ∀ t : It σ, t.Sane →
      (pageE n t).2.2 = true ∨
      ((pageE n t).2.2 = false ∧ (pageE n t).2.1 = (page n t).2 ∧ ((pageE n t).1 = (page n t).1 ∨ (pageE n t).1.Blocked P)) := by
  induction n with
  | zero => intro t _; right; exact ⟨rfl, rfl, Or.inl rfl⟩
  | succ n ih =>
    intro t hs
    by_cases he : t.getE.2 = .err
    · left
      exact pageE_of_err n t he
    · have g := getE_ok t he
      have hs1 : t.get.1.Sane := by
        have := getE_sane t hs; rw [g] at this; exact this
      cases hg : t.get.2 with
      | none =>
        right
        have e1 : t.getE = (t.get.1, .eof) := by rw [g, hg]; rfl
        have e2 : t.get = (t.get.1, none) := by rw [← hg]
        simp only [pageE, page]
        rw [e1, e2]
        exact ⟨rfl, rfl, Or.inl rfl⟩
      | some e =>
        have e1 : t.getE = (t.get.1, .ok e) := by rw [g, hg]; rfl
        have e2 : t.get = (t.get.1, some e) := by rw [← hg]
        simp only [pageE, page]
        rw [e1, e2]
        simp only
        rcases nextE_dich P hE t.get.1 hs1 with q | q
        · rw [q]
          have hs2 : t.get.1.next.Sane := by rw [← q]; exact nextE_sane _ hs1
          rcases ih _ hs2 with r | ⟨r1, r2, r3⟩
          · left; exact r
          · right; exact ⟨r1, by rw [r2], r3⟩
        · -- the `Next` swallowed an error: the tree is blocked; the next `Get` (if the limit allows one) fails
          cases n with
          | zero =>
            right
            simp only [pageE, page]
            exact ⟨by simp, by simp, Or.inr q⟩
          | succ k =>
            left
            have gb := (getE_blocked P hP _ q).1
            have := pageE_of_err k _ gb
            simp only [this]

/-- over sources that never fail the read loop is the proved model's read loop and never fails -/
theorem pageE_errfree [LawfulSourceE σ] (hN : ∀ s : σ, (SourceE.getE s).2 ≠ .err) (n : Nat) :
    ∀ t : It σ, pageE n t = ((page n t).1, (page n t).2, false) := by
  induction n with
  | zero => intro t; rfl
  | succ n ih =>
    intro t
    have g := getE_errfree hN t
    cases hg : t.get.2 with
    | none =>
      have e1 : t.getE = (t.get.1, .eof) := by rw [g, hg]; rfl
      have e2 : t.get = (t.get.1, none) := Prod.ext rfl hg
      simp only [pageE, page]
      rw [e1, e2]
    | some e =>
      have e1 : t.getE = (t.get.1, .ok e) := by rw [g, hg]; rfl
      have e2 : t.get = (t.get.1, some e) := Prod.ext rfl hg
      simp only [pageE, page]
      rw [e1, e2]
      simp only
      rw [nextE_errfree hN, ih]

/-! ## against the denotation of the proved model -/

theorem WF_sane [LawfulSource σ] (t : It σ) (h : t.WF) : t.Sane := by
  induction t with
  | leaf s => trivial
  | mix m a b iha ihb =>
    obtain ⟨wa, wb, _, _, e1, e2, hst⟩ := h
    refine ⟨iha wa, ihb wb, ?_, ?_⟩
    · intro h1
      rcases hst with h0 | ⟨hs, _, _⟩
      · omega
      · cases he : m.eof1
        · rfl
        · have := e1 he
          rw [this] at hs
          cases hv : b.view <;> simp [hv, sel, h1] at hs
    · intro h2
      rcases hst with h0 | ⟨hs, _, _⟩
      · omega
      · cases he : m.eof2
        · rfl
        · have := e2 he
          rw [this] at hs
          cases hv : a.view <;> simp [hv, sel, h2] at hs

/-- the read loop on the proved model delivers the first `n` events of the tree's stream and leaves the rest -/
theorem page_eq_take [LawfulSource σ] (n : Nat) : ∀ t : It σ, t.WF →
    (page n t).2 = t.view.take n ∧ (page n t).1.WF ∧ (page n t).1.view = t.view.drop n := by
  induction n with
  | zero => intro t h; exact ⟨by simp [page], h, by simp [page]⟩
  | succ n ih =>
    intro t h
    obtain ⟨g2, gv, gw, _, gs⟩ := get_spec t h
    cases hv : t.view with
    | nil =>
      rw [hv] at g2
      have e2 : t.get = (t.get.1, none) := Prod.ext rfl g2
      simp only [page]
      rw [e2]
      exact ⟨by simp, gw, by rw [gv, hv]; simp⟩
    | cons e es =>
      rw [hv] at g2
      have e2 : t.get = (t.get.1, some e) := Prod.ext rfl g2
      obtain ⟨nv, nw, _⟩ := next_spec _ gw gs
      obtain ⟨i1, i2, i3⟩ := ih _ nw
      simp only [page]
      rw [e2]
      simp only
      rw [nv, gv, hv] at i1 i3
      exact ⟨by rw [i1]; simp, i2, by rw [i3]; simp⟩

end It

/-! ## the in-memory leaf whose unreadable records stay unreadable -/

/-- an in-memory leaf all of whose failures are persistent -/
def StickyLeaf := { s : LeafE // s.sticky = true }

namespace StickyLeaf

theorem getE_sticky (s : LeafE) : (LeafE.getE s).1.sticky = s.sticky := by
  unfold LeafE.getE
  by_cases hc : s.l.clamp < (s.l.les.length : Int) ∧ s.l.clamp ≥ 0 ∧ s.bad.contains s.l.clamp.toNat = true
  · simp only [hc, and_self, if_true]
  · simp only [hc, if_false]

instance : SourceE StickyLeaf where
  get s := (⟨{ s.1 with l := s.1.l.get.1 }, s.2⟩, s.1.l.get.2)
  next s := ⟨{ s.1 with l := s.1.l.next }, s.2⟩
  release s := s
  setBackward bk s := ⟨{ s.1 with l := s.1.l.setBackward bk }, s.2⟩
  getE s := (⟨(LeafE.getE s.1).1, (getE_sticky s.1).trans s.2⟩, (LeafE.getE s.1).2)

instance : SourcePos StickyLeaf := ⟨fun s => (s.1.l.tags, s.1.l.idx)⟩

instance : LawfulSourceE StickyLeaf where
  getE_ok s h := by
    have h' : (LeafE.getE s.1).2 ≠ .err := h
    have := LawfulSourceE.getE_ok s.1 h'
    have e1 : (SourceE.getE s.1) = LeafE.getE s.1 := rfl
    rw [e1] at this
    apply Prod.ext
    · apply Subtype.ext
      show (LeafE.getE s.1).1 = _
      rw [this]; rfl
    · show (LeafE.getE s.1).2 = _
      rw [this]; rfl

/-- the leaf stands on a record that cannot be read -/
def OnBad (s : StickyLeaf) : Prop :=
  0 ≤ s.1.l.idx ∧ s.1.l.idx < s.1.l.les.length ∧ s.1.bad.contains s.1.l.idx.toNat = true

theorem clamp_inrange (l : Leaf) (h0 : 0 ≤ l.idx) (h1 : l.idx < l.les.length) : l.clamp = l.idx := by
  unfold Leaf.clamp
  cases hb : l.bkwd <;> simp [hb] <;> omega

theorem getE_onBad (s : StickyLeaf) (h : OnBad s) : (SourceE.getE s).2 = .err ∧ OnBad (SourceE.getE s).1 := by
  obtain ⟨h0, h1, h2⟩ := h
  have hc := clamp_inrange s.1.l h0 h1
  have e : LeafE.getE s.1 = ({ s.1 with l := { s.1.l with idx := s.1.l.clamp }, bad := s.1.bad }, .err) := by
    unfold LeafE.getE
    have : s.1.l.clamp < (s.1.l.les.length : Int) ∧ s.1.l.clamp ≥ 0 ∧ s.1.bad.contains s.1.l.clamp.toNat = true := by
      rw [hc]; exact ⟨h1, h0, h2⟩
    simp only [this, and_self, if_true, s.2]
  refine ⟨?_, ?_⟩
  · show (LeafE.getE s.1).2 = .err
    rw [e]
  · show 0 ≤ (LeafE.getE s.1).1.l.idx ∧ (LeafE.getE s.1).1.l.idx < (LeafE.getE s.1).1.l.les.length ∧
      (LeafE.getE s.1).1.bad.contains (LeafE.getE s.1).1.l.idx.toNat = true
    rw [e]
    simp only [hc]
    exact ⟨h0, h1, h2⟩

/-- every failure of a sticky leaf is of this kind -/
theorem err_onBad (s : StickyLeaf) (h : (SourceE.getE s).2 = .err) : OnBad (SourceE.getE s).1 := by
  have h' : (LeafE.getE s.1).2 = .err := h
  show 0 ≤ (LeafE.getE s.1).1.l.idx ∧ (LeafE.getE s.1).1.l.idx < (LeafE.getE s.1).1.l.les.length ∧
      (LeafE.getE s.1).1.bad.contains (LeafE.getE s.1).1.l.idx.toNat = true
  unfold LeafE.getE at h' ⊢
  by_cases hc : s.1.l.clamp < (s.1.l.les.length : Int) ∧ s.1.l.clamp ≥ 0 ∧ s.1.bad.contains s.1.l.clamp.toNat = true
  · simp only [hc, and_self, if_true, s.2]
  · simp only [hc, if_false] at h'
    exact absurd h' (Res.ofOption_ne_err _)

theorem persistent : It.Persistent OnBad where
  getE := getE_onBad
  release := fun _ h => h
  setBackward := fun _ _ h => h

end StickyLeaf

end Logrange.Mixer
