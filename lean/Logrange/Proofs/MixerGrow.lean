import Logrange.Proofs.Mixer
/-!
# Appends at ANY Get/Next boundary to partitions the cursor has not exhausted

`Proofs/Mixer.lean` (`mapLeaves_grow`) covers sources that grow behind a `Release`. Here: no `Release` at all. A source whose stream
is not empty keeps its head and is extended at its end (an append to a partition that still has undelivered records); a source
whose stream has ended stays ended (`GrowsLive`). Then nothing a mixer remembers — `eof` flags, the selected state, the buffered
head — is invalidated: the invariant `WF` holds for the grown tree as it stands, in either direction.
-/
namespace Logrange.Mixer
namespace It
variable {σ : Type} [Source σ] [LawfulSource σ]
open LawfulSource

/-- what an append to a partition that the cursor has not exhausted does to its source: well formed, same direction, asked stays
asked, the head stays the head, and an ended stream stays ended -/
def GrowsLive (s s' : σ) : Prop :=
  LawfulSource.wf s' ∧ LawfulSource.dir s' = LawfulSource.dir s ∧
  (LawfulSource.settled s → LawfulSource.settled s') ∧
  (∀ x, (LawfulSource.view s).head? = some x → (LawfulSource.view s').head? = some x) ∧
  (LawfulSource.view s = [] → LawfulSource.view s' = [])

theorem GrowsLive.refl (s : σ) (h : LawfulSource.wf s) : GrowsLive s s :=
  ⟨h, rfl, fun x => x, fun _ x => x, fun x => x⟩

/-- selection and head of a merge (either direction) do not change under such growth -/
theorem sel_live (bk : Bool) (va vb va' vb' : List Ev)
    (a4 : ∀ x, va.head? = some x → va'.head? = some x) (a5 : va = [] → va' = [])
    (b4 : ∀ x, vb.head? = some x → vb'.head? = some x) (b5 : vb = [] → vb' = []) :
    sel bk va' vb' = sel bk va vb ∧ (mergeSpec bk va' vb').head? = (mergeSpec bk va vb).head? := by
  cases va with
  | nil =>
    rw [a5 rfl]
    cases vb with
    | nil => rw [b5 rfl]; exact ⟨rfl, rfl⟩
    | cons y ys =>
      have hy := b4 y rfl
      cases vb' with
      | nil => simp at hy
      | cons y' ys' =>
        simp only [List.head?_cons, Option.some.injEq] at hy; subst hy
        simp [sel]
  | cons x xs =>
    have hx := a4 x rfl
    cases va' with
    | nil => simp at hx
    | cons x' xs' =>
      simp only [List.head?_cons, Option.some.injEq] at hx; subst hx
      cases vb with
      | nil => rw [b5 rfl]; simp [sel]
      | cons y ys =>
        have hy := b4 y rfl
        cases vb' with
        | nil => simp at hy
        | cons y' ys' =>
          simp only [List.head?_cons, Option.some.injEq] at hy; subst hy
          simp only [sel, mergeSpec_cons_cons]
          split <;> simp

/-- **a tree in any reachable state whose live sources grow is still a correct merger — no `Release` needed** -/
theorem mapLeaves_grow_live (f : σ → σ) (it : It σ) (h : it.WF) (hf : ∀ s ∈ it.leaves, GrowsLive s (f s)) :
    (it.mapLeaves f).WF ∧ (it.mapLeaves f).dir = it.dir ∧ (it.settled → (it.mapLeaves f).settled) ∧
    (∀ x, it.view.head? = some x → (it.mapLeaves f).view.head? = some x) ∧
    (it.view = [] → (it.mapLeaves f).view = []) := by
  induction it with
  | leaf s =>
    obtain ⟨g1, g2, g3, g4, g5⟩ := hf s (by simp [leaves])
    exact ⟨g1, g2, g3, g4, g5⟩
  | mix m a b iha ihb =>
    obtain ⟨wa, wb, da, db, e1, e2, hst⟩ := h
    obtain ⟨A1, A2, A3, A4, A5⟩ := iha wa
      (fun s hs => hf s (by simp only [leaves, List.mem_append]; exact Or.inl hs))
    obtain ⟨B1, B2, B3, B4, B5⟩ := ihb wb
      (fun s hs => hf s (by simp only [leaves, List.mem_append]; exact Or.inr hs))
    have G := sel_live m.bkwd a.view b.view _ _ A4 A5 B4 B5
    simp only [mapLeaves, WF, dir, settled, view] at *
    refine ⟨⟨A1, B1, A2.trans da, B2.trans db, fun he => A5 (e1 he), fun he => B5 (e2 he), ?_⟩, trivial, fun _ => trivial, ?_, ?_⟩
    · rcases hst with h0 | ⟨hs1, hs2, hs3⟩
      · exact Or.inl h0
      · right
        refine ⟨hs1.trans G.1.symm, ?_, ?_⟩
        · intro h1; exact ⟨A4 _ (hs2 h1).1, A3 (hs2 h1).2⟩
        · intro h2; exact ⟨B4 _ (hs3 h2).1, B3 (hs3 h2).2⟩
    · intro x hx; rw [G.2]; exact hx
    · intro he
      have hl : (mergeSpec m.bkwd a.view b.view).length = 0 := by rw [he]; rfl
      rw [(mergeSpec_perm _ _ _).length_eq, List.length_append] at hl
      have ea : a.view = [] := List.eq_nil_of_length_eq_zero (by omega)
      have eb : b.view = [] := List.eq_nil_of_length_eq_zero (by omega)
      rw [A5 ea, B5 eb]; simp [mergeSpec]

end It

/-- an append to an in-memory partition that still has undelivered records (read forward) is such a growth -/
theorem Leaf.append_growsLive (l : Leaf) (r : Rec) (hw : l.wf) (hb : l.bkwd = false)
    (hne : LawfulSource.view l ≠ []) : It.GrowsLive l (l.append r) := by
  obtain ⟨h1, h2⟩ := hw
  have hv : (l.append r).view = l.view ++ [l.ev r] := by
    simp only [Leaf.view, Leaf.append, hb, Bool.false_eq_true, if_false]
    rw [List.drop_append_of_le_length (by omega)]
    simp only [List.map_append, List.map_cons, List.map_nil]
    rfl
  refine ⟨⟨h1, by simp only [Leaf.append, List.length_append, List.length_singleton]; omega⟩, rfl, ?_, ?_, ?_⟩
  · intro hs
    simpa [LawfulSource.settled, Leaf.settled, Leaf.append, hb] using hs
  · intro x hx
    show (l.append r).view.head? = some x
    have hx' : l.view.head? = some x := hx
    rw [hv]
    cases hvv : l.view with
    | nil => rw [hvv] at hx'; simp at hx'
    | cons y ys => rw [hvv] at hx'; simpa using hx'
  · intro he; exact absurd he hne

end Logrange.Mixer
