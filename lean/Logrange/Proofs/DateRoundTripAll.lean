import Logrange.Proofs.DateRoundTrip
import Logrange.Proofs.DateShapes
/-!
# Round trip `time.Parse ∘ render` on civil fields for EVERY layout element the format lists use

Same architecture as `DateRoundTrip.lean` (numeric fixed-width subset): a lemma per element (`parseStd_render`), induction
over the item list (`parseItems_render`), Go's epilogue `finish` applied to the fields the layout carries (`projectX`).
What may follow an element in the text (a digit after a 1–2 digit field or a fraction, `.`/`,` after seconds, an
upper-case letter or a sign after a zone abbreviation) is controlled statically: `firstSet` over-approximates the first
byte of the rest of the text from the shapes of the next element (`renderItems_shape`), `ParseWF` checks it per item.
-/
namespace Logrange.Date

/-! ## literals, in general -/

theorem cutspace_of_head {l : Bytes} (h : l.head? ≠ some 32) : cutspace l = l := by
  cases l with
  | nil => rfl
  | cons x t =>
    have : (x == 32) = false := by
      apply beq_false_of_ne; intro e; subst e; simp at h
    simp [cutspace, List.dropWhile, this]

/-- `skip` of a literal in front of any text: when the literal ends with a blank Go eats the blanks that follow too -/
theorem skip_lit_gen (rest : Bytes) :
    ∀ (fuel : Nat) (pre : Bytes), pre.length < fuel →
      skip fuel (pre ++ rest) pre = some (if pre.getLast? = some 32 then cutspace rest else rest)
  | 0, _, h => by omega
  | fuel + 1, [], _ => by simp [skip]
  | fuel + 1, p :: prest, h => by
    simp only [List.length_cons] at h
    by_cases hp : (p == 32) = true
    · have e : p = 32 := by simpa using hp
      subst e
      -- value = ' ' :: prest ++ rest: both sides lose their blanks
      have c2 : cutspace ((32 : UInt8) :: prest) = cutspace prest := by simp [cutspace, List.dropWhile]
      have c1 : cutspace ((32 : UInt8) :: (prest ++ rest)) = cutspace (prest ++ rest) := by simp [cutspace, List.dropWhile]
      simp only [List.cons_append, skip, beq_self_eq_true, if_true, bne_self_eq_false, Bool.false_eq_true, if_false, c1, c2]
      -- split prest into its blanks and the remainder
      by_cases hall : cutspace prest = []
      · -- prest is all blanks: the literal ends with a blank, everything up to the first non-blank of rest goes
        have hcs : cutspace (prest ++ rest) = cutspace rest := by
          clear h c1 c2
          induction prest with
          | nil => rfl
          | cons x t ih =>
            have hx : (x == 32) = true := by
              cases hx : (x == 32) with
              | true => rfl
              | false => simp [cutspace, List.dropWhile, hx] at hall
            have : cutspace t = [] := by simpa [cutspace, List.dropWhile, hx] using hall
            simpa [cutspace, List.dropWhile, hx] using ih this
        have hlast : ((32 : UInt8) :: prest).getLast? = some 32 := by
          clear h c1 c2 hcs
          induction prest with
          | nil => rfl
          | cons x t ih =>
            have hx : x = 32 := by
              cases hx : (x == 32) with
              | true => simpa using hx
              | false => simp [cutspace, List.dropWhile, hx] at hall
            have ht : cutspace t = [] := by subst hx; simpa [cutspace, List.dropWhile] using hall
            subst hx
            have := ih ht
            simp only [List.getLast?_cons_cons] at this ⊢
            exact this
        rw [hall, hcs, hlast]
        cases fuel with
        | zero => omega
        | succ n => simp [skip]
      · -- prest = blanks ++ q, q starts with a non-blank
        have hq : (cutspace prest).head? ≠ some 32 := by
          clear h c1 c2
          induction prest with
          | nil => simp [cutspace] at hall
          | cons x t ih =>
            by_cases hx : (x == 32) = true
            · have : cutspace (x :: t) = cutspace t := by simp [cutspace, List.dropWhile, hx]
              rw [this] at hall ⊢; exact ih hall
            · have hx' : (x == 32) = false := by simpa using hx
              simp only [cutspace, List.dropWhile, hx', List.head?_cons, ne_eq, Option.some.injEq]
              intro e; subst e; simp at hx'
        have hcs : cutspace (prest ++ rest) = cutspace prest ++ rest := by
          clear h c1 c2 hq
          induction prest with
          | nil => simp [cutspace] at hall
          | cons x t ih =>
            by_cases hx : (x == 32) = true
            · have e1 : cutspace (x :: t) = cutspace t := by simp [cutspace, List.dropWhile, hx]
              have e2 : cutspace (x :: t ++ rest) = cutspace (t ++ rest) := by simp [cutspace, List.dropWhile, hx]
              rw [e1] at hall ⊢; rw [e2]; exact ih hall
            · have hx' : (x == 32) = false := by simpa using hx
              simp [cutspace, List.dropWhile, hx']
        have hlen : (cutspace prest).length < fuel := by
          have := cutspace_length_le prest; omega
        have hlast : ((32 : UInt8) :: prest).getLast? = (cutspace prest).getLast? := by
          clear h c1 c2 hq hcs hlen
          induction prest with
          | nil => simp [cutspace] at hall
          | cons x t ih =>
            by_cases hx : (x == 32) = true
            · have e1 : cutspace (x :: t) = cutspace t := by simp [cutspace, List.dropWhile, hx]
              rw [e1] at hall ⊢
              have hxe : x = 32 := by simpa using hx
              subst hxe
              simp only [List.getLast?_cons_cons]
              exact ih hall
            · have hx' : (x == 32) = false := by simpa using hx
              simp [cutspace, List.dropWhile, hx', List.getLast?_cons_cons]
        rw [hcs, skip_lit_gen rest fuel (cutspace prest) hlen, hlast]
    · have hp' : (p == 32) = false := by simpa using hp
      simp only [List.cons_append, skip, hp', Bool.false_eq_true, if_false, beq_self_eq_true, if_true]
      rw [skip_lit_gen rest fuel prest (by omega)]
      cases prest with
      | nil =>
        have : p ≠ 32 := by intro e; subst e; simp at hp'
        simp [this]
      | cons q t => simp [List.getLast?_cons_cons]

theorem skipLit_gen (pre rest : Bytes) :
    skipLit (pre ++ rest) pre = some (if pre.getLast? = some 32 then cutspace rest else rest) :=
  skip_lit_gen rest _ pre (by omega)

/-- in front of a text that does not begin with a blank the literal is simply removed -/
theorem skipLit_plain (pre : Bytes) {rest : Bytes} (h : rest.head? ≠ some 32) : skipLit (pre ++ rest) pre = some rest := by
  rw [skipLit_gen]; split
  · exact congrArg some (cutspace_of_head h)
  · rfl

/-! ## name tables -/

/-- some position inside both names tells them apart, case-insensitively -/
def differs (e name : Bytes) : Bool :=
  (List.range (min e.length name.length)).any (fun j => (e[j]?.map lowerB) != (name[j]?.map lowerB))

/-- no earlier entry of the table can be mistaken for entry `k` -/
def distinctBefore (tab : List Bytes) : Bool :=
  (List.range tab.length).all (fun k => (List.range k).all (fun j =>
    match tab[j]?, tab[k]? with
    | some e, some n => differs e n
    | _, _ => true))

theorem lookup_miss {e name : Bytes} (hd : differs e name = true) (v : Bytes) :
    ((name ++ v).length ≥ e.length && ((name ++ v).take e.length).map lowerB == e.map lowerB) = false := by
  simp only [differs, List.any_eq_true, List.mem_range, bne_iff_ne, ne_eq] at hd
  obtain ⟨j, hj, hne⟩ := hd
  have hje : j < e.length := by omega
  have hjn : j < name.length := by omega
  cases hlen : decide ((name ++ v).length ≥ e.length) with
  | false => simp [hlen]
  | true =>
    simp only [Bool.true_and]
    apply beq_false_of_ne
    intro heq
    have h1 : (((name ++ v).take e.length).map lowerB)[j]? = (e.map lowerB)[j]? := by rw [heq]
    rw [List.getElem?_map, List.getElem?_map, List.getElem?_take_of_lt hje, List.getElem?_append_left hjn] at h1
    exact hne h1.symm

theorem lookupFrom_hit : ∀ (tab : List Bytes) (i k : Nat) (name v : Bytes), tab[k]? = some name →
    (∀ j, j < k → ∀ e, tab[j]? = some e → differs e name = true) → lookupFrom i (name ++ v) tab = some (i + k, v)
  | [], _, _, _, _, h, _ => by simp at h
  | e :: tab, i, 0, name, v, h, _ => by
    simp at h; subst h
    have : ((e ++ v).length ≥ e.length && ((e ++ v).take e.length).map lowerB == e.map lowerB) = true := by simp
    simp only [lookupFrom, this, if_true]; simp
  | e :: tab, i, k + 1, name, v, h, hd => by
    have hmiss := lookup_miss (hd 0 (by omega) e (by simp)) v
    simp only [lookupFrom, hmiss, Bool.false_eq_true, if_false]
    rw [lookupFrom_hit tab (i + 1) k name v (by simpa using h) (fun j hj e' he' => hd (j + 1) (by omega) e' (by simpa using he'))]
    congr 2; omega

theorem lookup_hit {tab : List Bytes} (hdist : distinctBefore tab = true) {k : Nat} {name : Bytes} (h : tab[k]? = some name) (v : Bytes) :
    lookup tab (name ++ v) = some (k, v) := by
  have hk : k < tab.length := by
    rcases Nat.lt_or_ge k tab.length with h' | h'
    · exact h'
    · rw [List.getElem?_eq_none h'] at h; cases h
  have := lookupFrom_hit tab 0 k name v h (by
    intro j hj e he
    simp only [distinctBefore, List.all_eq_true, List.mem_range] at hdist
    have := hdist k hk j hj
    rw [he, h] at this; exact this)
  simpa [lookup] using this

theorem tables_distinct : distinctBefore shortMonths = true ∧ distinctBefore longMonths = true ∧
    distinctBefore shortDays = true ∧ distinctBefore longDays = true := by decide

/-! ## what an element writes into Go's locals -/

def pivotYear (y : Nat) : Int := if y % 100 ≥ 69 then ((y % 100 : Nat) : Int) + 1900 else ((y % 100 : Nat) : Int) + 2000

def setStdX (s : Std) (i : XInst) (f : F) : F :=
  match s with
  | .longYear => { f with year := i.year }
  | .year => { f with year := pivotYear i.year }
  | .month | .longMonth | .numMonth | .zeroMonth => { f with month := i.month }
  | .day | .underDay | .zeroDay => { f with day := i.day }
  | .hour => { f with hour := i.hour }
  | .hour12 | .zeroHour12 => { f with hour := hour12Of i.hour }
  | .zeroMinute => { f with min := i.min }
  | .zeroSecond => { f with sec := i.sec }
  | .frac9 _ => { f with nsec := i.nsec }
  | .pm => if i.hour ≥ 12 then { f with pmS := true } else { f with am := true }
  | .numTZ | .numColonTZ => { f with zoneOffset := some (i.offMin * 60) }
  | .tz => if i.zname = bUTC then { f with zUTC := true } else { f with zoneName := some i.zname }
  | _ => f

def projectFX (items : List (Bytes × Std)) (i : XInst) (f : F) : F := items.foldl (fun f it => setStdX it.2 i f) f

/-- Go's epilogue applied to the fields the layout carries -/
def projectX (L : Layout) (i : XInst) : PR := finish (projectFX L.items i {})

/-- the elements of the format lists -/
def inScope (s : Std) : Bool := (rxAtomsOfStd s).isSome

/-! ## what must not follow an element -/

def badSet (s : Std) (next : Option Std) : BSet :=
  match s with
  | .day | .numMonth | .hour12 | .underDay | .frac9 _ => dS
  | .zeroSecond => (match next with | some (.frac9 _) => [] | _ => [(44, 44), (46, 46)])
  | .tz => [(65, 90), (43, 43), (45, 45)]
  | _ => []

def FollowOK (s : Std) (next : Option Std) (R : Bytes) : Prop := ∀ c, R.head? = some c → inCls (badSet s next) c = false

theorem plain_vals {txt R : Bytes} (hne : txt ≠ []) (hh : txt.head? ≠ some 32) {val : Bytes}
    (hv : val = txt ++ R ∨ val = cutspace (txt ++ R)) : val = txt ++ R := by
  rcases hv with h | h
  · exact h
  · rw [h]; apply cutspace_of_head; rw [head?_append_of_ne hne]; exact hh

theorem validInst_of_validX {i : XInst} (hi : ValidX i) : ValidInst i.toInst := by
  obtain ⟨hy1, hy2, hm1, hm12, hd1, hdd, hh, hmi, hse, _⟩ := hi
  exact ⟨by omega, hm1, hm12, hd1, hdd, hh, hmi, hse⟩

theorem pad2_ne_nil (n : Nat) : pad2 n ≠ [] := by simp [pad2]
theorem pad2_head (n : Nat) : (pad2 n).head? ≠ some 32 := by
  simp only [pad2, List.head?_cons, ne_eq, Option.some.injEq]; exact dig_ne_blank _

theorem not_digit_of_follow {R : Bytes} (h : ∀ c, R.head? = some c → inCls dS c = false) :
    R = [] ∨ ∃ c t, R = c :: t ∧ isDig c = false := by
  cases R with
  | nil => exact Or.inl rfl
  | cons c t => exact Or.inr ⟨c, t, rfl, by rw [← inCls_dS]; exact h c rfl⟩

theorem getnum_one (n : Nat) (R : Bytes) (hR : R = [] ∨ ∃ c t, R = c :: t ∧ isDig c = false) :
    getnum (dig n :: R) false = some (((n % 10 : Nat) : Int), R) := by
  rcases hR with h | ⟨c, t, h, hc⟩
  · subst h; simp [getnum, isDig_dig, dval_dig]
  · subst h; simp [getnum, isDig_dig, dval_dig, hc]

theorem getnum_num12 (n : Nat) (hn : n < 100) (R : Bytes) (hR : R = [] ∨ ∃ c t, R = c :: t ∧ isDig c = false) :
    getnum (num12 n ++ R) false = some ((n : Int), R) := by
  simp only [num12]; split
  · rename_i h10
    have := getnum_one n R hR
    have e : n % 10 = n := by omega
    rw [e] at this; simpa using this
  · exact getnum_pad2 n hn false R

theorem num12_ne_nil (n : Nat) : num12 n ≠ [] := by simp only [num12]; split <;> simp [pad2]
theorem num12_head (n : Nat) : (num12 n).head? ≠ some 32 := by
  simp only [num12]; split
  · simp only [List.head?_cons, ne_eq, Option.some.injEq]; exact dig_ne_blank _
  · exact pad2_head n

theorem atoi_pad2 (k : Nat) (hk : k < 100) : atoi (pad2 k) = some (k : Int) := by
  have d1 := isDig_dig (k / 10)
  have h45 : (dig (k / 10) == 45) = false := by
    apply beq_false_of_ne; intro e; rw [e] at d1; simp [isDig] at d1
  have h43 : (dig (k / 10) == 43) = false := by
    apply beq_false_of_ne; intro e; rw [e] at d1; simp [isDig] at d1
  simp only [atoi, pad2, h45, h43, Bool.false_eq_true, if_false, List.isEmpty_cons, List.all_cons, List.all_nil, isDig_dig,
    Bool.and_self, Bool.not_true, Bool.or_self, List.foldl_cons, List.foldl_nil, dval_dig]
  congr 1
  omega

/-! ## one element -/

/-- every shape of the element starts with a byte that is not a blank (all elements but `_2`) -/
def plainStd (s : Std) : Bool := (symStd s).all (fun v => match v with | x :: _ => !inCls x 32 | [] => false)

theorem plain_of_shape {s : Std} {i : XInst} (hi : ValidX i) {txt : Bytes} (ht : renderStd s i = some txt) (hp : plainStd s = true) :
    txt ≠ [] ∧ txt.head? ≠ some 32 := by
  obtain ⟨sh, hsh, hs⟩ := renderStd_shape s i hi txt ht
  have := List.all_eq_true.mp hp sh hsh
  cases sh with
  | nil => simp at this
  | cons x xs =>
    cases txt with
    | nil => simp [hasShape] at hs
    | cons c t =>
      simp only [hasShape] at hs
      refine ⟨by simp, ?_⟩
      simp only [List.head?_cons, ne_eq, Option.some.injEq]
      intro e; subst e
      simp [hs.1] at this

theorem commaOrPeriod_eq (c : UInt8) : commaOrPeriod c = inCls [(44, 44), (46, 46)] c := by
  have h1 := inCls_bS 44 c
  have h2 := inCls_bS 46 c
  simp only [inCls, bS, List.any_cons, List.any_nil, Bool.or_false] at h1 h2 ⊢
  rw [h1, h2, commaOrPeriod, Bool.or_comm]

/-- the result type of the per-element lemma -/
def ElemOK (s : Std) (i : XInst) (next : Option Std) (R : Bytes) (f : F) (txt : Bytes) : Prop :=
  renderStd s i = some txt ∧ txt ≠ [] ∧
    ∀ val, (val = txt ++ R ∨ val = cutspace (txt ++ R)) → parseStd s next val f = some (setStdX s i f, R)

theorem elem_plain {s : Std} {i : XInst} (hi : ValidX i) {next : Option Std} {R : Bytes} {f : F} {txt : Bytes}
    (ht : renderStd s i = some txt) (hp : plainStd s = true)
    (h : parseStd s next (txt ++ R) f = some (setStdX s i f, R)) : ElemOK s i next R f txt := by
  obtain ⟨hne, hh⟩ := plain_of_shape hi ht hp
  exact ⟨ht, hne, fun val hv => by rw [plain_vals hne hh hv]; exact h⟩

theorem elem_numeric (s : Std) (hs : numericStd s = true) (hns : s ≠ .zeroSecond) (i : XInst) (hi : ValidX i) (next : Option Std)
    (R : Bytes) (f : F) : ∃ txt, ElemOK s i next R f txt := by
  obtain ⟨txt, hfmt, hhead, _, hparse⟩ := parseStd_format s hs i.toInst (validInst_of_validX hi) next R f (fun e => absurd e hns)
  have hr : renderStd s i = some txt := by
    cases s <;> simp [numericStd] at hs <;> simpa [renderStd] using hfmt
  have hset : setStd s i.toInst f = setStdX s i f := by
    cases s <;> simp [numericStd] at hs <;> rfl
  have hne : txt ≠ [] := by
    intro e; subst e
    cases s <;> simp [numericStd] at hs <;> simp [formatStd, pad2, pad4] at hfmt
  refine ⟨txt, hr, hne, fun val hv => ?_⟩
  rw [plain_vals hne hhead hv, hparse, hset]

theorem elem_zeroSecond (i : XInst) (hi : ValidX i) (next : Option Std) (R : Bytes) (f : F) (hf : FollowOK .zeroSecond next R) :
    ElemOK .zeroSecond i next R f (pad2 i.sec) := by
  have hse : i.sec < 60 := hi.2.2.2.2.2.2.2.2.1
  apply elem_plain hi (by simp [renderStd, formatStd]) (by decide)
  simp only [parseStd, getnum_pad2 i.sec (by omega), setStdX]
  have hrange : (decide ((i.sec : Int) < 0) || decide ((60 : Int) ≤ i.sec)) = false := by simp; omega
  simp only [hrange, Bool.false_eq_true, if_false]
  -- the look-ahead for a fraction
  cases hcond : (decide (R.length ≥ 2) && commaOrPeriod (R.headD 0) && isDigitAt R 1) with
  | false => simp only [Bool.false_eq_true, if_false]
  | true =>
    simp only [if_true]
    have hcond' := hcond
    simp only [Bool.and_eq_true] at hcond'
    obtain ⟨⟨hl, hcp⟩, _⟩ := hcond'
    cases R with
    | nil => simp at hl
    | cons c t =>
      have hbad := hf c rfl
      simp only [List.headD_cons] at hcp
      have hno : ∀ (nx : Option Std), (∀ n, nx ≠ some (.frac9 n)) → inCls (badSet .zeroSecond nx) c = false → False := by
        intro nx hnx hb
        have : badSet .zeroSecond nx = [(44, 44), (46, 46)] := by
          cases nx with
          | none => rfl
          | some n => cases n <;> first | rfl | exact absurd rfl (hnx _)
        rw [this, ← commaOrPeriod_eq, hcp] at hb; cases hb
      cases next with
      | none => exact absurd hbad (fun h => hno none (fun n => by simp) h)
      | some n =>
        cases n <;> first
          | rfl
          | exact absurd hbad (fun h => hno _ (fun n => by simp) h)

theorem follow_digit {s : Std} {next : Option Std} {R : Bytes} (hb : badSet s next = dS) (hf : FollowOK s next R) :
    R = [] ∨ ∃ c t, R = c :: t ∧ isDig c = false :=
  not_digit_of_follow (fun c hc => by have := hf c hc; rwa [hb] at this)

theorem hour12Of_le (h : Nat) : 1 ≤ hour12Of h ∧ hour12Of h ≤ 12 := by
  by_cases h0 : h % 12 = 0 <;> simp [hour12Of, h0] <;> omega

theorem beq_h12 : (Std.hour12 == Std.zeroHour12) = false := by decide
theorem beq_day : (Std.day == Std.zeroDay) = false := by decide
theorem beq_dayu : (Std.day == Std.underDay) = false := by decide
theorem beq_nm : (Std.numMonth == Std.zeroMonth) = false := by decide
theorem beq_ud : (Std.underDay == Std.zeroDay) = false := by decide

theorem elem_year (i : XInst) (hi : ValidX i) (next : Option Std) (R : Bytes) (f : F) :
    ElemOK .year i next R f (pad2 (i.year % 100)) := by
  apply elem_plain hi (by simp [renderStd, formatStd]) (by decide)
  have hlen : ¬ ((pad2 (i.year % 100) ++ R).length < 2) := by simp [pad2]
  have htake : (pad2 (i.year % 100) ++ R).take 2 = pad2 (i.year % 100) := by simp [pad2]
  have hdrop : (pad2 (i.year % 100) ++ R).drop 2 = R := by simp [pad2]
  simp only [parseStd, hlen, if_false, htake, hdrop, atoi_pad2 (i.year % 100) (by omega), Option.map_some, setStdX, pivotYear]
  congr 3
  split <;> split <;> omega

theorem elem_zeroHour12 (i : XInst) (hi : ValidX i) (next : Option Std) (R : Bytes) (f : F) :
    ElemOK .zeroHour12 i next R f (pad2 (hour12Of i.hour)) := by
  apply elem_plain hi (by simp [renderStd, formatStd]) (by decide)
  have := hour12Of_le i.hour
  simp only [parseStd, getnum_pad2 (hour12Of i.hour) (by omega), Option.bind, setStdX]
  have hr : (decide (((hour12Of i.hour : Nat) : Int) < 0) || decide ((12 : Int) < (hour12Of i.hour : Nat))) = false := by simp; omega
  simp [hr]

theorem elem_hour12 (i : XInst) (hi : ValidX i) (next : Option Std) (R : Bytes) (f : F) (hf : FollowOK .hour12 next R) :
    ElemOK .hour12 i next R f (num12 (hour12Of i.hour)) := by
  apply elem_plain hi (by simp [renderStd, formatStd]) (by decide)
  have := hour12Of_le i.hour
  simp only [parseStd, beq_h12, getnum_num12 (hour12Of i.hour) (by omega) R (follow_digit rfl hf), Option.bind, setStdX]
  have hr : (decide (((hour12Of i.hour : Nat) : Int) < 0) || decide ((12 : Int) < (hour12Of i.hour : Nat))) = false := by simp; omega
  simp [hr]

theorem day_le_31 {i : XInst} (hi : ValidX i) : i.day ≤ 31 := by
  obtain ⟨_, _, _, _, _, hdd, _⟩ := hi
  have : daysIn i.month i.year ≤ 31 := (daysIn_bounds _ _).2.1
  omega

theorem elem_day (i : XInst) (hi : ValidX i) (next : Option Std) (R : Bytes) (f : F) (hf : FollowOK .day next R) :
    ElemOK .day i next R f (num12 i.day) := by
  apply elem_plain hi (by simp [renderStd, formatStd]) (by decide)
  have := day_le_31 hi
  simp [parseStd, beq_day, beq_dayu, getnum_num12 i.day (by omega) R (follow_digit rfl hf), setStdX]

theorem elem_numMonth (i : XInst) (hi : ValidX i) (next : Option Std) (R : Bytes) (f : F) (hf : FollowOK .numMonth next R) :
    ElemOK .numMonth i next R f (num12 i.month) := by
  apply elem_plain hi (by simp [renderStd, formatStd]) (by decide)
  have hm1 : 1 ≤ i.month := hi.2.2.1
  have hm12 : i.month ≤ 12 := hi.2.2.2.1
  simp only [parseStd, beq_nm, getnum_num12 i.month (by omega) R (follow_digit rfl hf), Option.bind, setStdX]
  have hr : (decide ((i.month : Int) ≤ 0) || decide ((12 : Int) < i.month)) = false := by simp; omega
  simp [hr]
  omega

theorem elem_underDay (i : XInst) (hi : ValidX i) (next : Option Std) (R : Bytes) (f : F) (hf : FollowOK .underDay next R) :
    ElemOK .underDay i next R f (if i.day < 10 then [32, dig i.day] else pad2 i.day) := by
  have hd31 := day_le_31 hi
  have hR := follow_digit (s := .underDay) (next := next) rfl hf
  refine ⟨by simp [renderStd, formatStd], by split <;> simp [pad2], fun val hv => ?_⟩
  by_cases h10 : i.day < 10
  · simp only [h10, if_true] at hv
    have e : i.day % 10 = i.day := by omega
    have hg := getnum_one i.day R hR
    rw [e] at hg
    have hcs : cutspace ([32, dig i.day] ++ R) = dig i.day :: R := by
      have hne : (dig i.day == 32) = false := beq_false_of_ne (dig_ne_blank _)
      simp [cutspace, List.dropWhile, hne]
    rcases hv with hv | hv
    · subst hv
      simp [parseStd, beq_ud, hg, setStdX]
    · rw [hcs] at hv; subst hv
      have hne : (some (dig i.day) == some (32 : UInt8)) = false := by
        apply beq_false_of_ne; intro e; exact dig_ne_blank _ (Option.some.inj e)
      simp [parseStd, beq_ud, hne, hg, setStdX]
  · simp only [h10, if_false] at hv
    have hv' := plain_vals (pad2_ne_nil _) (pad2_head _) hv
    subst hv'
    have hne : ((pad2 i.day ++ R).head? == some 32) = false := by
      simp only [pad2, List.cons_append, List.head?_cons]
      apply beq_false_of_ne; intro e; exact dig_ne_blank _ (Option.some.inj e)
    simp only [parseStd, beq_ud, hne, beq_self_eq_true, Bool.true_and, Bool.false_eq_true, if_false,
      getnum_pad2 i.day (by omega), Option.map_some, setStdX]

theorem elem_name (s : Std) (tab : List Bytes) (hdist : distinctBefore tab = true) (k : Nat) (i : XInst) (hi : ValidX i)
    (next : Option Std) (R : Bytes) (f : F) (txt : Bytes) (hp : plainStd s = true)
    (hr : renderStd s i = some txt) (htab : tab[k]? = some txt)
    (hparse : ∀ v, parseStd s next (txt ++ v) f = (lookup tab (txt ++ v)).map (fun p => (setStdX s i f, p.2)) ∨
      parseStd s next (txt ++ v) f = (lookup tab (txt ++ v)).map (fun p => ({ f with month := (p.1 : Int) + 1 }, p.2))
        ∧ setStdX s i f = { f with month := (k : Int) + 1 }) :
    ElemOK s i next R f txt := by
  apply elem_plain hi hr hp
  rcases hparse R with h | ⟨h, hs⟩
  · rw [h, lookup_hit hdist htab]; rfl
  · rw [h, lookup_hit hdist htab, hs]; rfl

theorem elem_month (i : XInst) (hi : ValidX i) (next : Option Std) (R : Bytes) (f : F) :
    ∃ txt, ElemOK .month i next R f txt := by
  have hm1 : 1 ≤ i.month := hi.2.2.1
  have hm12 : i.month ≤ 12 := hi.2.2.2.1
  have hlt : i.month - 1 < shortMonths.length := by simp [shortMonths]; omega
  refine ⟨shortMonths[i.month - 1], elem_name .month shortMonths tables_distinct.1 (i.month - 1) i hi next R f _ (by decide)
    (by simp [renderStd, formatStd, List.getElem?_eq_getElem hlt]) (List.getElem?_eq_getElem hlt) (fun v => Or.inr ⟨rfl, ?_⟩)⟩
  simp only [setStdX]; congr 1; omega

theorem elem_longMonth (i : XInst) (hi : ValidX i) (next : Option Std) (R : Bytes) (f : F) :
    ∃ txt, ElemOK .longMonth i next R f txt := by
  have hm1 : 1 ≤ i.month := hi.2.2.1
  have hm12 : i.month ≤ 12 := hi.2.2.2.1
  have hlt : i.month - 1 < longMonths.length := by simp [longMonths]; omega
  refine ⟨longMonths[i.month - 1], elem_name .longMonth longMonths tables_distinct.2.1 (i.month - 1) i hi next R f _ (by decide)
    (by simp [renderStd, formatStd, List.getElem?_eq_getElem hlt]) (List.getElem?_eq_getElem hlt) (fun v => Or.inr ⟨rfl, ?_⟩)⟩
  simp only [setStdX]; congr 1; omega

theorem elem_weekDay (i : XInst) (hi : ValidX i) (next : Option Std) (R : Bytes) (f : F) :
    ∃ txt, ElemOK .weekDay i next R f txt := by
  have hwd : i.wd < 7 := hi.2.2.2.2.2.2.2.2.2.1
  have hlt : i.wd < shortDays.length := by simp [shortDays]; omega
  exact ⟨shortDays[i.wd], elem_name .weekDay shortDays tables_distinct.2.2.1 i.wd i hi next R f _ (by decide)
    (by simp [renderStd, formatStd, List.getElem?_eq_getElem hlt]) (List.getElem?_eq_getElem hlt) (fun v => Or.inl rfl)⟩

theorem elem_longWeekDay (i : XInst) (hi : ValidX i) (next : Option Std) (R : Bytes) (f : F) :
    ∃ txt, ElemOK .longWeekDay i next R f txt := by
  have hwd : i.wd < 7 := hi.2.2.2.2.2.2.2.2.2.1
  have hlt : i.wd < longDays.length := by simp [longDays]; omega
  exact ⟨longDays[i.wd], elem_name .longWeekDay longDays tables_distinct.2.2.2 i.wd i hi next R f _ (by decide)
    (by simp [renderStd, formatStd, List.getElem?_eq_getElem hlt]) (List.getElem?_eq_getElem hlt) (fun v => Or.inl rfl)⟩

theorem elem_pm (i : XInst) (hi : ValidX i) (next : Option Std) (R : Bytes) (f : F) :
    ∃ txt, ElemOK .pm i next R f txt := by
  by_cases h : i.hour ≥ 12
  · refine ⟨[80, 77], elem_plain hi (by simp [renderStd, formatStd, h]) (by decide) ?_⟩
    simp [parseStd, setStdX, h]
  · refine ⟨[65, 77], elem_plain hi (by simp [renderStd, formatStd, h]) (by decide) ?_⟩
    simp [parseStd, setStdX, h]

/-! ### zones -/

theorem getnum_pad2_nil (n : Nat) (hn : n < 100) : getnum (pad2 n) true = some ((n : Int), []) := by
  have := getnum_pad2 n hn true []
  simpa using this

theorem offMin_cases (i : XInst) : (i.offMin < 0 ∧ ((i.offMin.natAbs : Nat) : Int) = -i.offMin) ∨
    (¬ i.offMin < 0 ∧ ((i.offMin.natAbs : Nat) : Int) = i.offMin) := by
  by_cases h : i.offMin < 0
  · exact Or.inl ⟨h, by omega⟩
  · exact Or.inr ⟨h, by omega⟩

theorem numTZ_plain (f : F) (sg : UInt8) (hh mm : Nat) (R : Bytes) (h1 : hh ≤ 24) (h2 : mm ≤ 60) :
    numTZ f .numTZ (sg :: (pad2 hh ++ pad2 mm) ++ R) =
      if sg = 43 then some ({ f with zoneOffset := some (((hh : Int) * 60 + mm) * 60) }, R)
      else if sg = 45 then some ({ f with zoneOffset := some (-(((hh : Int) * 60 + mm) * 60)) }, R) else none := by
  have hc : (Std.numTZ == Std.numColonTZ || Std.numTZ == Std.isoColonTZ) = false := by decide
  have hs : (Std.numTZ == Std.numShortTZ || Std.numTZ == Std.isoShortTZ) = false := by decide
  have hlen : ¬ ((sg :: (pad2 hh ++ pad2 mm) ++ R).length < 5) := by simp [pad2]
  have hhh : ((sg :: (pad2 hh ++ pad2 mm) ++ R).drop 1).take 2 = pad2 hh := by simp [pad2]
  have hmm : ((sg :: (pad2 hh ++ pad2 mm) ++ R).drop 3).take 2 = pad2 mm := by simp [pad2]
  have hdrop : (sg :: (pad2 hh ++ pad2 mm) ++ R).drop 5 = R := by simp [pad2]
  have hrange : (decide ((hh : Int) > 24) || decide ((mm : Int) > 60)) = false := by simp; omega
  simp only [numTZ, hc, hs, Bool.false_eq_true, if_false, hlen, Bool.false_and, hhh, hmm, hdrop,
    getnum_pad2_nil hh (by omega), getnum_pad2_nil mm (by omega), hrange]
  simp only [List.cons_append, List.head?_cons]
  by_cases e1 : sg = 43
  · subst e1; simp
  · by_cases e2 : sg = 45
    · subst e2; simp
    · have n1 : (some sg == some (43 : UInt8)) = false := by
        apply beq_false_of_ne; intro e; exact e1 (Option.some.inj e)
      have n2 : (some sg == some (45 : UInt8)) = false := by
        apply beq_false_of_ne; intro e; exact e2 (Option.some.inj e)
      simp [e1, e2, n1, n2]

theorem numTZ_colon (f : F) (sg : UInt8) (hh mm : Nat) (R : Bytes) (h1 : hh ≤ 24) (h2 : mm ≤ 60) :
    numTZ f .numColonTZ (sg :: (pad2 hh ++ 58 :: pad2 mm) ++ R) =
      if sg = 43 then some ({ f with zoneOffset := some (((hh : Int) * 60 + mm) * 60) }, R)
      else if sg = 45 then some ({ f with zoneOffset := some (-(((hh : Int) * 60 + mm) * 60)) }, R) else none := by
  have hc : (Std.numColonTZ == Std.numColonTZ || Std.numColonTZ == Std.isoColonTZ) = true := by decide
  have hlen : ¬ ((sg :: (pad2 hh ++ 58 :: pad2 mm) ++ R).length < 6) := by simp [pad2]
  have hcol : ((sg :: (pad2 hh ++ 58 :: pad2 mm) ++ R)[3]? != some 58) = false := by simp [pad2]
  have hhh : ((sg :: (pad2 hh ++ 58 :: pad2 mm) ++ R).drop 1).take 2 = pad2 hh := by simp [pad2]
  have hmm : ((sg :: (pad2 hh ++ 58 :: pad2 mm) ++ R).drop 4).take 2 = pad2 mm := by simp [pad2]
  have hdrop : (sg :: (pad2 hh ++ 58 :: pad2 mm) ++ R).drop 6 = R := by simp [pad2]
  have hrange : (decide ((hh : Int) > 24) || decide ((mm : Int) > 60)) = false := by simp; omega
  simp only [numTZ, hc, if_true, hlen, if_false, hcol, Bool.true_and, Bool.false_eq_true, hhh, hmm, hdrop,
    getnum_pad2_nil hh (by omega), getnum_pad2_nil mm (by omega), hrange]
  simp only [List.cons_append, List.head?_cons]
  by_cases e1 : sg = 43
  · subst e1; simp
  · by_cases e2 : sg = 45
    · subst e2; simp
    · have n1 : (some sg == some (43 : UInt8)) = false := by
        apply beq_false_of_ne; intro e; exact e1 (Option.some.inj e)
      have n2 : (some sg == some (45 : UInt8)) = false := by
        apply beq_false_of_ne; intro e; exact e2 (Option.some.inj e)
      simp [e1, e2, n1, n2]

theorem elem_numTZ (i : XInst) (hi : ValidX i) (next : Option Std) (R : Bytes) (f : F) :
    ∃ txt, ElemOK .numTZ i next R f txt := by
  have hoff : i.offMin.natAbs < 1440 := hi.2.2.2.2.2.2.2.2.2.2.2.2.2.2.1
  refine ⟨(if i.offMin < 0 then 45 else 43) :: (pad2 (i.offMin.natAbs / 60) ++ pad2 (i.offMin.natAbs % 60)),
    elem_plain hi (by simp only [renderStd]) (by decide) ?_⟩
  simp only [parseStd, numTZ_plain f _ _ _ R (by omega : i.offMin.natAbs / 60 ≤ 24) (by omega : i.offMin.natAbs % 60 ≤ 60), setStdX]
  rcases offMin_cases i with ⟨hneg, habs⟩ | ⟨hneg, habs⟩
  · simp only [hneg, if_true]; simp; omega
  · simp only [hneg, if_false]; simp; omega

theorem elem_numColonTZ (i : XInst) (hi : ValidX i) (next : Option Std) (R : Bytes) (f : F) :
    ∃ txt, ElemOK .numColonTZ i next R f txt := by
  have hoff : i.offMin.natAbs < 1440 := hi.2.2.2.2.2.2.2.2.2.2.2.2.2.2.1
  refine ⟨(if i.offMin < 0 then 45 else 43) :: (pad2 (i.offMin.natAbs / 60) ++ 58 :: pad2 (i.offMin.natAbs % 60)),
    elem_plain hi (by simp only [renderStd]) (by decide) ?_⟩
  simp only [parseStd, numTZ_colon f _ _ _ R (by omega : i.offMin.natAbs / 60 ≤ 24) (by omega : i.offMin.natAbs % 60 ≤ 60), setStdX]
  rcases offMin_cases i with ⟨hneg, habs⟩ | ⟨hneg, habs⟩
  · simp only [hneg, if_true]; simp; omega
  · simp only [hneg, if_false]; simp; omega

/-! ### the zone abbreviation -/

theorem badTZ_eq (c : UInt8) : inCls (badSet .tz none) c = (isUpperB c || c == 43 || c == 45) := by
  have h1 := inCls_bS 43 c
  have h2 := inCls_bS 45 c
  simp only [inCls, bS, List.any_cons, List.any_nil, Bool.or_false] at h1 h2
  simp only [badSet, inCls, List.any_cons, List.any_nil, Bool.or_false, h1, h2, isUpperB, Bool.or_assoc]

theorem upper_facts {c : UInt8} (h : isUpperB c = true) : c ≠ 104 ∧ c ≠ 101 ∧ c ≠ 43 ∧ c ≠ 45 ∧ c ≠ 32 := by
  simp only [isUpperB, Bool.and_eq_true, decide_eq_true_eq, UInt8.le_iff_toNat_le] at h
  have e65 : (65 : UInt8).toNat = 65 := rfl
  have e90 : (90 : UInt8).toNat = 90 := rfl
  rw [e65, e90] at h
  refine ⟨?_, ?_, ?_, ?_, ?_⟩ <;> (intro e; subst e; simp at h)

theorem elem_tz (i : XInst) (hi : ValidX i) (next : Option Std) (R : Bytes) (f : F) (hf : FollowOK .tz next R) :
    ElemOK .tz i next R f i.zname := by
  obtain ⟨a, b, c, hz, ha, hb, hc⟩ := hi.2.2.2.2.2.2.2.2.2.2.2.2.2.2.2
  apply elem_plain hi (by simp only [renderStd]) (by decide)
  -- what follows
  have hR : R = [] ∨ ∃ x t, R = x :: t ∧ isUpperB x = false ∧ x ≠ 43 ∧ x ≠ 45 := by
    cases R with
    | nil => exact Or.inl rfl
    | cons x t =>
      have := hf x rfl
      have hb' : badSet .tz next = badSet .tz none := rfl
      rw [hb', badTZ_eq] at this
      simp only [Bool.or_eq_false_iff, beq_eq_false_iff_ne, ne_eq] at this
      exact Or.inr ⟨x, t, rfl, this.1.1, this.1.2, this.2⟩
  rw [hz]
  by_cases hutc : i.zname = bUTC
  · rw [hz] at hutc
    simp only [bUTC, List.cons.injEq, and_true] at hutc
    obtain ⟨rfl, rfl, rfl⟩ := hutc
    simp [parseStd, hasPrefix, bUTC, setStdX, hz]
  · have hnp : hasPrefix ([a, b, c] ++ R) bUTC = false := by
      rw [hz] at hutc
      simp only [bUTC, List.cons.injEq, and_true, not_and] at hutc
      simp only [hasPrefix, bUTC, List.cons_append, List.nil_append, Bool.and_true]
      by_cases e1 : a = 85
      · by_cases e2 : b = 84
        · have := hutc e1 e2
          simp [e1, e2, this]
        · simp [e2]
      · simp [e1]
    obtain ⟨hb104, hb101, _, _, _⟩ := upper_facts hb
    obtain ⟨_, _, ha43, ha45, _⟩ := upper_facts ha
    have hch : hasPrefix ([a, b, c] ++ R) [67, 104, 83, 84] = false := by simp [hasPrefix, hb104]
    have hme : hasPrefix ([a, b, c] ++ R) [77, 101, 83, 84] = false := by simp [hasPrefix, hb101]
    have hlen : ¬ (([a, b, c] ++ R).length < 3) := by simp
    have hso : parseSignedOffset R = 0 := by
      rcases hR with h | ⟨x, t, h, _, h43, h45⟩
      · subst h; rfl
      · subst h; simp [parseSignedOffset, h43, h45]
    have hnup : (((([a, b, c] ++ R).take 6).takeWhile isUpperB).length) = 3 := by
      rcases hR with h | ⟨x, t, h, hx, _, _⟩
      · subst h; simp [List.takeWhile, ha, hb, hc]
      · subst h; simp [List.takeWhile, ha, hb, hc, hx]
    have hname : parseTZName ([a, b, c] ++ R) = some 3 := by
      simp only [parseTZName, hlen, if_false, hch, hme, Bool.or_self, Bool.false_eq_true]
      by_cases hg : hasPrefix ([a, b, c] ++ R) bGMT = true
      · simp only [hg, if_true]
        split
        · rfl
        · have : ([a, b, c] ++ R).drop 3 = R := by simp
          rw [this, hso]
      · have hg' : hasPrefix ([a, b, c] ++ R) bGMT = false := by simpa using hg
        have hs1 : (([a, b, c] ++ R).head? == some 43) = false := by
          simp only [List.cons_append, List.head?_cons]; apply beq_false_of_ne; intro e; exact ha43 (Option.some.inj e)
        have hs2 : (([a, b, c] ++ R).head? == some 45) = false := by
          simp only [List.cons_append, List.head?_cons]; apply beq_false_of_ne; intro e; exact ha45 (Option.some.inj e)
        simp only [hg', Bool.false_eq_true, if_false, hs1, hs2, Bool.or_self, hnup]
        simp
    simp only [parseStd, hnp, Bool.false_eq_true, if_false, hname, setStdX, hutc]
    simp [hz]

/-! ### the fraction -/

theorem padN_length : ∀ (k n : Nat), (padN k n).length = k
  | 0, _ => rfl
  | k + 1, n => by simp [padN, padN_length k]

theorem padN_allDig : ∀ (k n : Nat), ∀ c ∈ padN k n, isDig c = true
  | 0, _, c, h => by simp [padN] at h
  | k + 1, n, c, h => by
    simp only [padN, List.mem_append, List.mem_singleton] at h
    rcases h with h | h
    · exact padN_allDig k _ c h
    · subst h; exact isDig_dig n

theorem takeWhile_digits : ∀ (ds R : Bytes), (∀ c ∈ ds, isDig c = true) → (R = [] ∨ ∃ c t, R = c :: t ∧ isDig c = false) →
    (ds ++ R).takeWhile isDig = ds
  | [], R, _, hR => by
    rcases hR with h | ⟨c, t, h, hc⟩
    · subst h; rfl
    · subst h; simp [List.takeWhile, hc]
  | d :: ds, R, h, hR => by
    have hd : isDig d = true := h d (List.mem_cons_self ..)
    simp only [List.cons_append, List.takeWhile, hd]
    rw [takeWhile_digits ds R (fun c hc => h c (List.mem_cons_of_mem _ hc)) hR]

/-- the value of a digit string under `atoi`'s fold -/
def dfold (a : Int) (c : UInt8) : Int := a * 10 + dval c

theorem foldl_padN : ∀ (k n : Nat) (a : Int), (padN k n).foldl dfold a = a * (10 : Int) ^ k + ((n % 10 ^ k : Nat) : Int)
  | 0, n, a => by simp [padN, Nat.mod_one]
  | k + 1, n, a => by
    rw [padN, List.foldl_append, foldl_padN k (n / 10) a]
    simp only [List.foldl_cons, List.foldl_nil, dfold, dval_dig]
    have e : n % 10 ^ (k + 1) = (n / 10 % 10 ^ k) * 10 + n % 10 := by
      rw [Nat.pow_succ, Nat.mul_comm, Nat.mod_mul, Nat.add_comm, Nat.mul_comm]
    rw [e, Int.pow_succ]
    push_cast
    rw [Int.add_mul, Int.mul_assoc, Int.add_assoc]

theorem atoi_padN (k n : Nat) (hk : 1 ≤ k) (hn : n < 10 ^ k) : atoi (padN k n) = some (n : Int) := by
  cases hp : padN k n with
  | nil => have := padN_length k n; rw [hp] at this; simp at this; omega
  | cons c r =>
    have hall : ∀ x ∈ c :: r, isDig x = true := by rw [← hp]; exact padN_allDig k n
    have hc : isDig c = true := hall c (List.mem_cons_self ..)
    have h45 : (c == 45) = false := by apply beq_false_of_ne; intro e; subst e; simp [isDig] at hc
    have h43 : (c == 43) = false := by apply beq_false_of_ne; intro e; subst e; simp [isDig] at hc
    have hall' : (c :: r).all isDig = true := by rw [List.all_eq_true]; exact hall
    have hf := foldl_padN k n 0
    rw [hp] at hf
    have hf' : (c :: r).foldl (fun a c => a * 10 + dval c) 0 = (n : Int) := by
      have : (c :: r).foldl dfold 0 = (c :: r).foldl (fun a c => a * 10 + dval c) 0 := rfl
      rw [← this, hf, Nat.mod_eq_of_lt hn]; simp
    simp only [atoi, h45, h43, Bool.false_eq_true, if_false, List.isEmpty_cons, hall', Bool.not_true, Bool.or_self, hf']

theorem take_frac (l R : Bytes) : ((46 :: l ++ R).take (1 + l.length)).drop 1 = l := by
  rw [Nat.add_comm, List.cons_append, List.take_succ_cons, List.drop_succ_cons, List.drop_zero]
  simp

theorem drop_frac (l R : Bytes) : (46 :: l ++ R).drop (1 + l.length) = R := by
  rw [Nat.add_comm, List.cons_append, List.drop_succ_cons]
  simp

theorem elem_frac9 (n : Nat) (i : XInst) (hi : ValidX i) (next : Option Std) (R : Bytes) (f : F) (hf : FollowOK (.frac9 n) next R) :
    ElemOK (.frac9 n) i next R f (46 :: padN i.fracDigits (i.nsec / 10 ^ (9 - i.fracDigits))) := by
  have hi' := hi
  obtain ⟨_, _, _, _, _, _, _, _, _, _, hf3, hf9, hns, hnsm, _⟩ := hi
  have hR := follow_digit (s := .frac9 n) (next := next) rfl hf
  apply elem_plain hi' (by simp only [renderStd]) (by rfl)
  clear hi'
  generalize hq : i.nsec / 10 ^ (9 - i.fracDigits) = q
  generalize hk : i.fracDigits = k at *
  have hqlt : q < 10 ^ k := by
    rw [← hq]
    apply Nat.div_lt_of_lt_mul
    rw [← Nat.pow_add]
    have : 9 - k + k = 9 := by omega
    rw [this]; exact hns
  have hmul : q * 10 ^ (9 - k) = i.nsec := by
    rw [← hq]; exact Nat.div_mul_cancel (Nat.dvd_of_mod_eq_zero hnsm)
  have hlenp := padN_length k q
  have hdr : digitRun ((46 :: padN k q ++ R).drop 1) = padN k q := by
    simp only [List.cons_append, List.drop_succ_cons, List.drop_zero, digitRun]
    exact takeWhile_digits _ _ (padN_allDig k q) hR
  -- the guard: at least two bytes, a period, then a digit
  cases hp : padN k q with
  | nil => rw [hp] at hlenp; simp at hlenp; omega
  | cons d ds =>
    have hd : isDig d = true := by
      have := padN_allDig k q d (by rw [hp]; exact List.mem_cons_self ..)
      exact this
    have hguard : (decide ((46 :: (d :: ds) ++ R).length < 2) || !commaOrPeriod ((46 :: (d :: ds) ++ R).headD 0) ||
        !isDigitAt (46 :: (d :: ds) ++ R) 1) = false := by
      simp [commaOrPeriod, isDigitAt, hd]
    rw [hp] at hdr hlenp
    have htake : ((46 :: (d :: ds) ++ R).take (1 + (d :: ds).length)).drop 1 = d :: ds := take_frac _ _
    have hdropR : (46 :: (d :: ds) ++ R).drop (1 + (d :: ds).length) = R := drop_frac _ _
    have hnb : ¬ (1 + (d :: ds).length > 10) := by rw [hlenp]; omega
    have hat : atoi (d :: ds) = some (q : Int) := by rw [← hp]; exact atoi_padN k q (by omega) hqlt
    have hnanos : parseNanos (46 :: (d :: ds) ++ R) (1 + (d :: ds).length) = some (((i.nsec : Nat) : Int), false) := by
      have hcp : commaOrPeriod 46 = true := by decide
      simp only [parseNanos, List.cons_append, hcp, Bool.not_true, Bool.false_eq_true, if_false, hnb]
      have htake' : List.drop 1 (List.take (1 + (d :: ds).length) (46 :: d :: (ds ++ R))) = d :: ds := htake
      rw [htake', hat]
      have hq0 : ¬ ((q : Int) < 0) := by omega
      simp only [hq0, if_false]
      congr 2
      rw [hlenp]
      have : 10 - (1 + k) = 9 - k := by omega
      rw [this, ← hmul]; push_cast; rfl
    simp only [parseStd, hguard, Bool.false_eq_true, if_false, hdr, hnanos, hdropR, setStdX]

/-! ## all elements together -/

theorem parseStd_render (s : Std) (hs : inScope s = true) (i : XInst) (hi : ValidX i) (next : Option Std) (R : Bytes) (f : F)
    (hf : FollowOK s next R) : ∃ txt, ElemOK s i next R f txt := by
  cases s <;> simp [inScope, rxAtomsOfStd] at hs
  case year => exact ⟨_, elem_year i hi next R f⟩
  case longYear => exact elem_numeric .longYear (by decide) (by decide) i hi next R f
  case month => exact elem_month i hi next R f
  case longMonth => exact elem_longMonth i hi next R f
  case numMonth => exact ⟨_, elem_numMonth i hi next R f hf⟩
  case zeroMonth => exact elem_numeric .zeroMonth (by decide) (by decide) i hi next R f
  case weekDay => exact elem_weekDay i hi next R f
  case longWeekDay => exact elem_longWeekDay i hi next R f
  case day => exact ⟨_, elem_day i hi next R f hf⟩
  case underDay => exact ⟨_, elem_underDay i hi next R f hf⟩
  case zeroDay => exact elem_numeric .zeroDay (by decide) (by decide) i hi next R f
  case hour => exact elem_numeric .hour (by decide) (by decide) i hi next R f
  case hour12 => exact ⟨_, elem_hour12 i hi next R f hf⟩
  case zeroHour12 => exact ⟨_, elem_zeroHour12 i hi next R f⟩
  case zeroMinute => exact elem_numeric .zeroMinute (by decide) (by decide) i hi next R f
  case zeroSecond => exact ⟨_, elem_zeroSecond i hi next R f hf⟩
  case pm => exact elem_pm i hi next R f
  case numTZ => exact elem_numTZ i hi next R f
  case numColonTZ => exact elem_numColonTZ i hi next R f
  case tz => exact ⟨_, elem_tz i hi next R f hf⟩
  case frac9 n => exact ⟨_, elem_frac9 n i hi next R f hf⟩

/-! ## what can come first in the rest of the text -/

/-- the bytes the text of the remaining items (followed by the tail) can begin with -/
def firstSet (items : List (Bytes × Std)) (tail : Bytes) : BSet :=
  match items with
  | [] => (match tail with | c :: _ => bS c | [] => [])
  | (c :: _, _) :: _ => bS c
  | ([], s) :: _ => (symStd s).flatMap (fun v => v.headD [])

theorem inCls_flatMap {α : Type} (l : List α) (g : α → BSet) (c : UInt8) :
    inCls (l.flatMap g) c = l.any (fun v => inCls (g v) c) := by
  induction l with
  | nil => rfl
  | cons x xs ih =>
    simp only [List.flatMap_cons, List.any_cons, ← ih]
    simp only [inCls, List.any_append]

theorem firstSet_sound (i : XInst) (hi : ValidX i) (items : List (Bytes × Std)) (tail body : Bytes)
    (hb : renderItems items i = some body) (c : UInt8) (hc : (body ++ tail).head? = some c) :
    inCls (firstSet items tail) c = true := by
  cases items with
  | nil =>
    simp [renderItems] at hb; subst hb
    cases tail with
    | nil => simp at hc
    | cons x t => simp at hc; subst hc; simp [firstSet, inCls_bS]
  | cons it rest =>
    obtain ⟨pre, s⟩ := it
    simp only [renderItems] at hb
    split at hb
    · rename_i a b ha _
      cases hb
      cases pre with
      | cons x t => simp at hc; subst hc; simp [firstSet, inCls_bS]
      | nil =>
        obtain ⟨sh, hsh, hs⟩ := renderStd_shape s i hi a ha
        cases a with
        | nil =>
          -- an element never renders the empty text
          have := hasShape_length hs
          cases sh with
          | nil =>
            exfalso
            have hne : ∀ v ∈ symStd s, v ≠ [] := by
              cases s <;> simp [symStd]
            exact hne [] hsh rfl
          | cons _ _ => simp at this
        | cons x t =>
          simp at hc; subst hc
          cases sh with
          | nil => simp [hasShape] at hs
          | cons y ys =>
            simp only [hasShape] at hs
            simp only [firstSet, inCls_flatMap, List.any_eq_true]
            exact ⟨y :: ys, hsh, by simpa using hs.1⟩
    · cases hb

/-- the static check: nothing the rest can begin with is forbidden after the element -/
def parseWFItems : List (Bytes × Std) → Bytes → Bool
  | [], _ => true
  | (_, s) :: rest, tail =>
    inScope s && !meets (badSet s (rest.head?.map (·.2))) (firstSet rest tail) && parseWFItems rest tail

/-- **the layouts the round trip holds for** (decidable; true for every layout of both format lists) -/
def ParseWF (L : Layout) : Bool := parseWFItems L.items L.tail

theorem follow_of_static {s : Std} {next : Option Std} {rest : List (Bytes × Std)} {tail body : Bytes} {i : XInst} (hi : ValidX i)
    (hb : renderItems rest i = some body) (hm : meets (badSet s next) (firstSet rest tail) = false) :
    FollowOK s next (body ++ tail) := by
  intro c hc
  have hin := firstSet_sound i hi rest tail body hb c hc
  cases h : inCls (badSet s next) c with
  | false => rfl
  | true => rw [meets_of_inCls hin h] at hm; cases hm

theorem parseItems_render (tail : Bytes) (i : XInst) (hi : ValidX i) :
    ∀ (items : List (Bytes × Std)), parseWFItems items tail = true →
      ∃ body, renderItems items i = some body ∧ ∀ f, parseItems tail items (body ++ tail) f = some (projectFX items i f)
  | [], _ => by
    refine ⟨[], rfl, fun f => ?_⟩
    have := skipLit_gen tail []
    simp only [List.append_nil] at this
    have hnil : (if tail.getLast? = some 32 then cutspace ([] : Bytes) else []) = [] := by split <;> rfl
    simp [parseItems, this, hnil, projectFX]
  | (pre, s) :: rest, h => by
    simp only [parseWFItems, Bool.and_eq_true, Bool.not_eq_true'] at h
    obtain ⟨⟨hs, hm⟩, hrest⟩ := h
    obtain ⟨body', hb', hparse'⟩ := parseItems_render tail i hi rest hrest
    have hf := follow_of_static (s := s) (next := rest.head?.map (·.2)) hi hb' hm
    refine ⟨pre ++ (Classical.choose (parseStd_render s hs i hi (rest.head?.map (·.2)) (body' ++ tail) {} hf)) ++ body', ?_, ?_⟩
    · have := (Classical.choose_spec (parseStd_render s hs i hi (rest.head?.map (·.2)) (body' ++ tail) {} hf)).1
      simp [renderItems, this, hb']
    · intro f
      obtain ⟨txt, hr, hne, hp⟩ := parseStd_render s hs i hi (rest.head?.map (·.2)) (body' ++ tail) f hf
      have hsame : Classical.choose (parseStd_render s hs i hi (rest.head?.map (·.2)) (body' ++ tail) {} hf) = txt := by
        have h1 := (Classical.choose_spec (parseStd_render s hs i hi (rest.head?.map (·.2)) (body' ++ tail) {} hf)).1
        rw [hr] at h1; exact (Option.some.inj h1).symm
      rw [hsame]
      have e : pre ++ txt ++ body' ++ tail = pre ++ (txt ++ (body' ++ tail)) := by simp [List.append_assoc]
      rw [e]
      have hval := hp (if pre.getLast? = some 32 then cutspace (txt ++ (body' ++ tail)) else txt ++ (body' ++ tail))
        (by split <;> simp)
      simp only [parseItems, skipLit_gen, hval, hparse']
      simp [projectFX]

/-! ## the epilogue never fails -/

theorem isLeap_pivot (y : Nat) (h : isLeap (y : Int) = true) : isLeap (pivotYear y) = true := by
  simp only [isLeap, Bool.and_eq_true, beq_iff_eq, Bool.or_eq_true, bne_iff_ne, ne_eq] at h ⊢
  simp only [pivotYear]
  split <;> omega

theorem daysIn_pivot (m : Int) (y : Nat) : daysIn m (y : Int) ≤ daysIn m (pivotYear y) := by
  simp only [daysIn]
  by_cases h2 : (m == 2) = true
  · simp only [h2, if_true]
    by_cases hl : isLeap (y : Int) = true
    · simp [hl, isLeap_pivot y hl]
    · have hl' : isLeap (y : Int) = false := by simpa using hl
      simp only [hl', Bool.false_eq_true, if_false]
      split <;> omega
  · simp [h2]

structure XInv (i : XInst) (f : F) : Prop where
  year : f.year = 0 ∨ f.year = i.year ∨ f.year = pivotYear i.year
  month : f.month = -1 ∨ f.month = i.month
  day : f.day = -1 ∨ f.day = i.day

theorem XInv.set {i : XInst} {f : F} (h : XInv i f) (s : Std) : XInv i (setStdX s i f) := by
  obtain ⟨a, b, c⟩ := h
  cases s <;> simp only [setStdX] <;> first
    | exact ⟨a, b, c⟩
    | exact ⟨Or.inr (Or.inl rfl), b, c⟩
    | exact ⟨Or.inr (Or.inr rfl), b, c⟩
    | exact ⟨a, Or.inr rfl, c⟩
    | exact ⟨a, b, Or.inr rfl⟩
    | (split <;> exact ⟨a, b, c⟩)

theorem XInv.fold {i : XInst} : ∀ (items : List (Bytes × Std)) {f : F}, XInv i f → XInv i (projectFX items i f)
  | [], _, h => h
  | it :: rest, _, h => by
    simp only [projectFX, List.foldl_cons]
    exact XInv.fold rest (h.set it.2)

theorem finish_ok {i : XInst} (hi : ValidX i) {f : F} (h : XInv i f) : ∃ c, finish f = .ok c := by
  obtain ⟨_, _, hm1, hm12, hd1, hdd, _⟩ := hi
  obtain ⟨hy, hm, hd⟩ := h
  have b1 := daysIn_bounds i.month i.year
  have b2 := daysIn_pivot i.month i.year
  have key : ¬ ((if f.day < 0 then 1 else f.day) < 1 ∨
      (if f.day < 0 then 1 else f.day) > daysIn (if f.month < 0 then 1 else f.month) f.year) := by
    rcases hd with hd | hd
    · have b := daysIn_bounds (if f.month < 0 then 1 else f.month) f.year
      simp only [hd]; simp; omega
    · rw [hd]
      have hdn : ¬ ((i.day : Int) < 0) := by omega
      simp only [hdn, if_false]
      rcases hm with hm | hm
      · simp only [hm]; simp [daysIn_one]; omega
      · rw [hm]
        have hmn : ¬ ((i.month : Int) < 0) := by omega
        simp only [hmn, if_false]
        rcases hy with hy | hy | hy
        · rw [hy]; omega
        · rw [hy]; omega
        · rw [hy]; omega
  simp only [finish]
  rw [if_neg (by simpa using key)]
  exact ⟨_, rfl⟩

/-- **the round trip for every layout element of the lists**: the text of a valid instant in a well-formed layout is
parsed back to Go's epilogue of exactly the fields the layout carries -/
theorem render_parse_all (L : Layout) (hL : ParseWF L = true) (i : XInst) (hi : ValidX i) :
    ∃ txt, renderLayout L i = some txt ∧ parseLayout L txt = projectX L i := by
  obtain ⟨body, hb, hp⟩ := parseItems_render L.tail i hi L.items hL
  refine ⟨body ++ L.tail, by simp [renderLayout, hb], ?_⟩
  have hsup : L.supported = true := by
    simp only [Layout.supported, List.all_eq_true]
    intro it hit
    have : ∀ (items : List (Bytes × Std)) (tail : Bytes), parseWFItems items tail = true → ∀ x ∈ items, inScope x.2 = true := by
      intro items tail
      induction items with
      | nil => intro _ x hx; cases hx
      | cons y ys ih =>
        intro hwf x hx
        obtain ⟨p, s⟩ := y
        simp only [parseWFItems, Bool.and_eq_true] at hwf
        rcases List.mem_cons.mp hx with e | e
        · subst e; exact hwf.1.1
        · exact ih hwf.2 x e
    have hsc := this L.items L.tail hL it hit
    cases hs : it.2 <;> simp [hs, inScope, rxAtomsOfStd] at hsc ⊢
  simp only [parseLayout, hsup, Bool.not_true, Bool.false_eq_true, if_false, hp, projectX]

/-- …and that parse succeeds -/
theorem projectX_ok (L : Layout) (i : XInst) (hi : ValidX i) : ∃ c, projectX L i = .ok c :=
  finish_ok hi (XInv.fold L.items ⟨Or.inl rfl, Or.inl rfl, Or.inl rfl⟩)

end Logrange.Date
