import Logrange.Proofs.DateRoundTrip
import Logrange.Proofs.DateShapes
/-!
# Round trip `time.Parse ∘ render` on civil fields for EVERY layout element the format lists use

Same architecture as `DateRoundTrip.lean` (numeric fixed-width subset): a lemma per element (`parseStd_render`), induction
over the item list (`parseItems_render`), Go's epilogue `finish` applied to the fields the layout carries (`projectX`).
What may follow an element in the text (a digit after a 1–2 digit field or a fraction, `.`/`,` after seconds, an
upper-case letter or a sign after a zone abbreviation) is controlled statically: `firstSet` over-approximates the first
byte of the rest of the text from the shapes of the next element (`renderItems_shape`), `ParseWF` checks it per item.
-/
namespace Logrange.Date

/-! ## literals, in general -/

theorem cutspace_of_head {l : Bytes} (h : l.head? ≠ some 32) : cutspace l = l := by
  cases l with
  | nil => rfl
  | cons x t =>
    have : (x == 32) = false := by
      apply beq_false_of_ne; intro e; subst e; simp at h
    simp [cutspace, List.dropWhile, this]

/-- `skip` of a literal in front of any text: when the literal ends with a blank Go eats the blanks that follow too -/
theorem skip_lit_gen (rest : Bytes) :
    ∀ (fuel : Nat) (pre : Bytes), pre.length < fuel →
      skip fuel (pre ++ rest) pre = some (if pre.getLast? = some 32 then cutspace rest else rest)
  | 0, _, h => by omega
  | fuel + 1, [], _ => by simp [skip]
  | fuel + 1, p :: prest, h => by
    simp only [List.length_cons] at h
    by_cases hp : (p == 32) = true
    · have e : p = 32 := by simpa using hp
      subst e
      -- value = ' ' :: prest ++ rest: both sides lose their blanks
      have c2 : cutspace ((32 : UInt8) :: prest) = cutspace prest := by simp [cutspace, List.dropWhile]
      have c1 : cutspace ((32 : UInt8) :: (prest ++ rest)) = cutspace (prest ++ rest) := by simp [cutspace, List.dropWhile]
      simp only [List.cons_append, skip, beq_self_eq_true, if_true, bne_self_eq_false, Bool.false_eq_true, if_false, c1, c2]
      -- split prest into its blanks and the remainder
      by_cases hall : cutspace prest = []
      · -- prest is all blanks: the literal ends with a blank, everything up to the first non-blank of rest goes
        have hcs : cutspace (prest ++ rest) = cutspace rest := by
          clear h c1 c2
          induction prest with
          | nil => rfl
          | cons x t ih =>
            have hx : (x == 32) = true := by
              cases hx : (x == 32) with
              | true => rfl
              | false => simp [cutspace, List.dropWhile, hx] at hall
            have : cutspace t = [] := by simpa [cutspace, List.dropWhile, hx] using hall
            simpa [cutspace, List.dropWhile, hx] using ih this
        have hlast : ((32 : UInt8) :: prest).getLast? = some 32 := by
          clear h c1 c2 hcs
          induction prest with
          | nil => rfl
          | cons x t ih =>
            have hx : x = 32 := by
              cases hx : (x == 32) with
              | true => simpa using hx
              | false => simp [cutspace, List.dropWhile, hx] at hall
            have ht : cutspace t = [] := by subst hx; simpa [cutspace, List.dropWhile] using hall
            subst hx
            have := ih ht
            simp only [List.getLast?_cons_cons] at this ⊢
            exact this
        rw [hall, hcs, hlast]
        cases fuel with
        | zero => omega
        | succ n => simp [skip]
      · -- prest = blanks ++ q, q starts with a non-blank
        have hq : (cutspace prest).head? ≠ some 32 := by
          clear h c1 c2
          induction prest with
          | nil => simp [cutspace] at hall
          | cons x t ih =>
            by_cases hx : (x == 32) = true
            · have : cutspace (x :: t) = cutspace t := by simp [cutspace, List.dropWhile, hx]
              rw [this] at hall ⊢; exact ih hall
            · have hx' : (x == 32) = false := by simpa using hx
              simp only [cutspace, List.dropWhile, hx', List.head?_cons, ne_eq, Option.some.injEq]
              intro e; subst e; simp at hx'
        have hcs : cutspace (prest ++ rest) = cutspace prest ++ rest := by
          clear h c1 c2 hq
          induction prest with
          | nil => simp [cutspace] at hall
          | cons x t ih =>
            by_cases hx : (x == 32) = true
            · have e1 : cutspace (x :: t) = cutspace t := by simp [cutspace, List.dropWhile, hx]
              have e2 : cutspace (x :: t ++ rest) = cutspace (t ++ rest) := by simp [cutspace, List.dropWhile, hx]
              rw [e1] at hall ⊢; rw [e2]; exact ih hall
            · have hx' : (x == 32) = false := by simpa using hx
              simp [cutspace, List.dropWhile, hx']
        have hlen : (cutspace prest).length < fuel := by
          have := cutspace_length_le prest; omega
        have hlast : ((32 : UInt8) :: prest).getLast? = (cutspace prest).getLast? := by
          clear h c1 c2 hq hcs hlen
          induction prest with
          | nil => simp [cutspace] at hall
          | cons x t ih =>
            by_cases hx : (x == 32) = true
            · have e1 : cutspace (x :: t) = cutspace t := by simp [cutspace, List.dropWhile, hx]
              rw [e1] at hall ⊢
              have hxe : x = 32 := by simpa using hx
              subst hxe
              simp only [List.getLast?_cons_cons]
              exact ih hall
            · have hx' : (x == 32) = false := by simpa using hx
              simp [cutspace, List.dropWhile, hx', List.getLast?_cons_cons]
        rw [hcs, skip_lit_gen rest fuel (cutspace prest) hlen, hlast]
    · have hp' : (p == 32) = false := by simpa using hp
      simp only [List.cons_append, skip, hp', Bool.false_eq_true, if_false, beq_self_eq_true, if_true]
      rw [skip_lit_gen rest fuel prest (by omega)]
      cases prest with
      | nil =>
        have : p ≠ 32 := by intro e; subst e; simp at hp'
        simp [this]
      | cons q t => simp [List.getLast?_cons_cons]

theorem skipLit_gen (pre rest : Bytes) :
    skipLit (pre ++ rest) pre = some (if pre.getLast? = some 32 then cutspace rest else rest) :=
  skip_lit_gen rest _ pre (by omega)

/-- in front of a text that does not begin with a blank the literal is simply removed -/
theorem skipLit_plain (pre : Bytes) {rest : Bytes} (h : rest.head? ≠ some 32) : skipLit (pre ++ rest) pre = some rest := by
  rw [skipLit_gen]; split
  · exact congrArg some (cutspace_of_head h)
  · rfl

/-! ## name tables -/

/-- some position inside both names tells them apart, case-insensitively -/
def differs (e name : Bytes) : Bool :=
  (List.range (min e.length name.length)).any (fun j => (e[j]?.map lowerB) != (name[j]?.map lowerB))

/-- no earlier entry of the table can be mistaken for entry `k` -/
def distinctBefore (tab : List Bytes) : Bool :=
  (List.range tab.length).all (fun k => (List.range k).all (fun j =>
    match tab[j]?, tab[k]? with
    | some e, some n => differs e n
    | _, _ => true))

theorem lookup_miss {e name : Bytes} (hd : differs e name = true) (v : Bytes) :
    ((name ++ v).length ≥ e.length && ((name ++ v).take e.length).map lowerB == e.map lowerB) = false := by
  simp only [differs, List.any_eq_true, List.mem_range, bne_iff_ne, ne_eq] at hd
  obtain ⟨j, hj, hne⟩ := hd
  have hje : j < e.length := by omega
  have hjn : j < name.length := by omega
  cases hlen : decide ((name ++ v).length ≥ e.length) with
  | false => simp [hlen]
  | true =>
    simp only [Bool.true_and]
    apply beq_false_of_ne
    intro heq
    have h1 : (((name ++ v).take e.length).map lowerB)[j]? = (e.map lowerB)[j]? := by rw [heq]
    rw [List.getElem?_map, List.getElem?_map, List.getElem?_take_of_lt hje, List.getElem?_append_left hjn] at h1
    exact hne h1.symm

theorem lookupFrom_hit : ∀ (tab : List Bytes) (i k : Nat) (name v : Bytes), tab[k]? = some name →
    (∀ j, j < k → ∀ e, tab[j]? = some e → differs e name = true) → lookupFrom i (name ++ v) tab = some (i + k, v)
  | [], _, _, _, _, h, _ => by simp at h
  | e :: tab, i, 0, name, v, h, _ => by
    simp at h; subst h
    have : ((e ++ v).length ≥ e.length && ((e ++ v).take e.length).map lowerB == e.map lowerB) = true := by simp
    simp only [lookupFrom, this, if_true]; simp
  | e :: tab, i, k + 1, name, v, h, hd => by
    have hmiss := lookup_miss (hd 0 (by omega) e (by simp)) v
    simp only [lookupFrom, hmiss, Bool.false_eq_true, if_false]
    rw [lookupFrom_hit tab (i + 1) k name v (by simpa using h) (fun j hj e' he' => hd (j + 1) (by omega) e' (by simpa using he'))]
    congr 2; omega

theorem lookup_hit {tab : List Bytes} (hdist : distinctBefore tab = true) {k : Nat} {name : Bytes} (h : tab[k]? = some name) (v : Bytes) :
    lookup tab (name ++ v) = some (k, v) := by
  have hk : k < tab.length := by
    rcases Nat.lt_or_ge k tab.length with h' | h'
    · exact h'
    · rw [List.getElem?_eq_none h'] at h; cases h
  have := lookupFrom_hit tab 0 k name v h (by
    intro j hj e he
    simp only [distinctBefore, List.all_eq_true, List.mem_range] at hdist
    have := hdist k hk j hj
    rw [he, h] at this; exact this)
  simpa [lookup] using this

theorem tables_distinct : distinctBefore shortMonths = true ∧ distinctBefore longMonths = true ∧
    distinctBefore shortDays = true ∧ distinctBefore longDays = true := by decide

/-! ## what an element writes into Go's locals -/

def pivotYear (y : Nat) : Int := if y % 100 ≥ 69 then ((y % 100 : Nat) : Int) + 1900 else ((y % 100 : Nat) : Int) + 2000

def setStdX (s : Std) (i : XInst) (f : F) : F :=
  match s with
  | .longYear => { f with year := i.year }
  | .year => { f with year := pivotYear i.year }
  | .month | .longMonth | .numMonth | .zeroMonth => { f with month := i.month }
  | .day | .underDay | .zeroDay => { f with day := i.day }
  | .hour => { f with hour := i.hour }
  | .hour12 | .zeroHour12 => { f with hour := hour12Of i.hour }
  | .zeroMinute => { f with min := i.min }
  | .zeroSecond => { f with sec := i.sec }
  | .frac9 _ => { f with nsec := i.nsec }
  | .pm => if i.hour ≥ 12 then { f with pmS := true } else { f with am := true }
  | .numTZ | .numColonTZ => { f with zoneOffset := some (i.offMin * 60) }
  | .tz => if i.zname = bUTC then { f with zUTC := true } else { f with zoneName := some i.zname }
  | _ => f

def projectFX (items : List (Bytes × Std)) (i : XInst) (f : F) : F := items.foldl (fun f it => setStdX it.2 i f) f

/-- Go's epilogue applied to the fields the layout carries -/
def projectX (L : Layout) (i : XInst) : PR := finish (projectFX L.items i {})

/-- the elements of the format lists -/
def inScope (s : Std) : Bool := (rxAtomsOfStd s).isSome

/-! ## what must not follow an element -/

def badSet (s : Std) (next : Option Std) : BSet :=
  match s with
  | .day | .numMonth | .hour12 | .underDay | .frac9 _ => dS
  | .zeroSecond => (match next with | some (.frac9 _) => [] | _ => [(44, 44), (46, 46)])
  | .tz => [(65, 90), (43, 43), (45, 45)]
  | _ => []

def FollowOK (s : Std) (next : Option Std) (R : Bytes) : Prop := ∀ c, R.head? = some c → inCls (badSet s next) c = false

theorem plain_vals {txt R : Bytes} (hne : txt ≠ []) (hh : txt.head? ≠ some 32) {val : Bytes}
    (hv : val = txt ++ R ∨ val = cutspace (txt ++ R)) : val = txt ++ R := by
  rcases hv with h | h
  · exact h
  · rw [h]; apply cutspace_of_head; rw [head?_append_of_ne hne]; exact hh

theorem validInst_of_validX {i : XInst} (hi : ValidX i) : ValidInst i.toInst := by
  obtain ⟨hy1, hy2, hm1, hm12, hd1, hdd, hh, hmi, hse, _⟩ := hi
  exact ⟨by omega, hm1, hm12, hd1, hdd, hh, hmi, hse⟩

theorem pad2_ne_nil (n : Nat) : pad2 n ≠ [] := by simp [pad2]
theorem pad2_head (n : Nat) : (pad2 n).head? ≠ some 32 := by
  simp only [pad2, List.head?_cons, ne_eq, Option.some.injEq]; exact dig_ne_blank _

theorem not_digit_of_follow {R : Bytes} (h : ∀ c, R.head? = some c → inCls dS c = false) :
    R = [] ∨ ∃ c t, R = c :: t ∧ isDig c = false := by
  cases R with
  | nil => exact Or.inl rfl
  | cons c t => exact Or.inr ⟨c, t, rfl, by rw [← inCls_dS]; exact h c rfl⟩

theorem getnum_one (n : Nat) (R : Bytes) (hR : R = [] ∨ ∃ c t, R = c :: t ∧ isDig c = false) :
    getnum (dig n :: R) false = some (((n % 10 : Nat) : Int), R) := by
  rcases hR with h | ⟨c, t, h, hc⟩
  · subst h; simp [getnum, isDig_dig, dval_dig]
  · subst h; simp [getnum, isDig_dig, dval_dig, hc]

theorem getnum_num12 (n : Nat) (hn : n < 100) (R : Bytes) (hR : R = [] ∨ ∃ c t, R = c :: t ∧ isDig c = false) :
    getnum (num12 n ++ R) false = some ((n : Int), R) := by
  simp only [num12]; split
  · rename_i h10
    have := getnum_one n R hR
    have e : n % 10 = n := by omega
    rw [e] at this; simpa using this
  · exact getnum_pad2 n hn false R

theorem num12_ne_nil (n : Nat) : num12 n ≠ [] := by simp only [num12]; split <;> simp [pad2]
theorem num12_head (n : Nat) : (num12 n).head? ≠ some 32 := by
  simp only [num12]; split
  · simp only [List.head?_cons, ne_eq, Option.some.injEq]; exact dig_ne_blank _
  · exact pad2_head n

theorem atoi_pad2 (k : Nat) (hk : k < 100) : atoi (pad2 k) = some (k : Int) := by
  have d1 := isDig_dig (k / 10)
  have h45 : (dig (k / 10) == 45) = false := by
    apply beq_false_of_ne; intro e; rw [e] at d1; simp [isDig] at d1
  have h43 : (dig (k / 10) == 43) = false := by
    apply beq_false_of_ne; intro e; rw [e] at d1; simp [isDig] at d1
  simp only [atoi, pad2, h45, h43, Bool.false_eq_true, if_false, List.isEmpty_cons, List.all_cons, List.all_nil, isDig_dig,
    Bool.and_self, Bool.not_true, Bool.or_self, List.foldl_cons, List.foldl_nil, dval_dig]
  congr 1
  omega

end Logrange.Date
