import Logrange.Model.WireRT
/-!
# Lemmas for the C01 wire round trip (`Logrange/Model/WireRT.lean`)
-/
namespace Logrange.WireRT
open Go

/-! ## fixed-width integers -/

theorem be_length (n k : Nat) : (be n k).length = k := by
  induction k with
  | zero => rfl
  | succ k ih => simp [be, ih]

theorem foldl_be (n : Nat) : ∀ (k acc : Nat),
    (be n k).foldl (fun a (x : UInt8) => a * 256 + x.toNat) acc = acc * 256 ^ k + n % 256 ^ k := by
  intro k
  induction k with
  | zero => intro acc; simp [be, Nat.mod_one]
  | succ k ih =>
    intro acc
    have hlt : n / 256 ^ k % 256 < 256 := Nat.mod_lt _ (by decide)
    have h1 : (UInt8.ofNat (n / 256 ^ k % 256)).toNat = n / 256 ^ k % 256 := by
      rw [UInt8.toNat_ofNat']; exact Nat.mod_eq_of_lt hlt
    simp only [be, List.foldl_cons, h1, ih]
    rw [Nat.mod_pow_succ, Nat.pow_succ]
    grind

theorem fromBE_be (n k : Nat) (h : n < 256 ^ k) : fromBE (be n k) = n := by
  unfold fromBE
  rw [foldl_be, Nat.mod_eq_of_lt h]; simp

theorem u64_be (ts : Nat) (rest : Bytes) (h : ts < two64) : u64 (be ts 8 ++ rest) = .ok (8, ts) := by
  have hl : (be ts 8).length = 8 := be_length ts 8
  have ht : (be ts 8 ++ rest).take 8 = be ts 8 := by
    have := @List.take_left _ (be ts 8) rest
    rw [hl] at this; exact this
  have hlen : ¬ (be ts 8 ++ rest).length < 8 := by simp [hl]
  unfold u64
  rw [if_neg hlen, ht, fromBE_be ts 8 (by simpa [two64] using h)]

theorem u32_be (n : Nat) (rest : Bytes) (h : n < two32) : u32 (be n 4 ++ rest) = .ok (4, n) := by
  have hl : (be n 4).length = 4 := be_length n 4
  have ht : (be n 4 ++ rest).take 4 = be n 4 := by
    have := @List.take_left _ (be n 4) rest
    rw [hl] at this; exact this
  have hlen : ¬ (be n 4 ++ rest).length < 4 := by simp [hl]
  unfold u32
  rw [if_neg hlen, ht, fromBE_be n 4 (by simpa [two32] using h)]

theorem drop_be (n k : Nat) (rest : Bytes) : (be n k ++ rest).drop k = rest := by
  have := @List.drop_left _ (be n k) rest
  rw [be_length] at this; exact this

/-! ## varint -/

theorem or_eq_add_of_lt (res x shft : Nat) (h : res < 2 ^ shft) : res ||| (x * 2 ^ shft) = res + x * 2 ^ shft := by
  have := Nat.shiftLeft_add_eq_or_of_lt h x
  rw [Nat.shiftLeft_eq] at this
  rw [Nat.or_comm, ← this, Nat.add_comm]

theorem addTerm (x shft : Nat) (h : x * 2 ^ shft < two64) :
    (if shft ≥ 64 then 0 else (x * 2 ^ shft) % two64) = x * 2 ^ shft := by
  by_cases hs : shft ≥ 64
  · rw [if_pos hs]
    have hp : two64 ≤ 2 ^ shft := by
      have : (2:Nat) ^ 64 ≤ 2 ^ shft := Nat.pow_le_pow_right (by decide) hs
      simpa [two64] using this
    cases x with
    | zero => simp
    | succ x =>
      have : 2 ^ shft ≤ (x + 1) * 2 ^ shft := Nat.le_mul_of_pos_left _ (by omega)
      omega
  · rw [if_neg hs, Nat.mod_eq_of_lt h]

theorem toNat_ofNat_lt (x : Nat) (h : x < 256) : (UInt8.ofNat x).toNat = x := by
  rw [UInt8.toNat_ofNat']; exact Nat.mod_eq_of_lt h

/-- decoding the varint image of `v` (at most `fuel+1` groups) in the middle of a decode: position, shift and
accumulator advance as if `v` were added at the current shift -/
theorem uvarint_marshal : ∀ (fuel v idx shft res : Nat) (rest : Bytes),
    v < 128 ^ (fuel + 1) → v * 2 ^ shft < two64 → res < 2 ^ shft →
    uvarintGo (marshalUvarintGo (fuel + 1) v ++ rest) idx shft res
      = .ok (idx + (marshalUvarintGo (fuel + 1) v).length, res + v * 2 ^ shft) := by
  intro fuel
  induction fuel with
  | zero =>
    intro v idx shft res rest hv h64 hres
    have hv' : ¬ v > 127 := by simp at hv; omega
    have hb : (UInt8.ofNat v).toNat = v := toNat_ofNat_lt v (by omega)
    have hm : v % 128 = v := Nat.mod_eq_of_lt (by omega)
    simp only [marshalUvarintGo, if_neg hv', List.cons_append, List.nil_append, uvarintGo, hb, hm]
    rw [addTerm v shft h64, or_eq_add_of_lt res v shft hres]
    have : v ≤ 127 := by omega
    simp [this]
  | succ fuel ih =>
    intro v idx shft res rest hv h64 hres
    by_cases hgt : v > 127
    · have hb : (UInt8.ofNat (128 + v % 128)).toNat = 128 + v % 128 := toNat_ofNat_lt _ (by omega)
      have hm : (128 + v % 128) % 128 = v % 128 := by omega
      have hnle : ¬ (128 + v % 128 ≤ 127) := by omega
      have hdm : (v % 128) * 2 ^ shft + (v / 128) * (2 ^ shft * 128) = v * 2 ^ shft := by
        have := Nat.div_add_mod v 128
        grind
      have hp7 : 2 ^ (shft + 7) = 2 ^ shft * 128 := by rw [Nat.pow_add]
      have hle : (v % 128) * 2 ^ shft < two64 := by omega
      have hmod : (v % 128) * 2 ^ shft ≤ 127 * 2 ^ shft := Nat.mul_le_mul_right _ (by omega)
      have hv2 : v / 128 < 128 ^ (fuel + 1) := by
        apply Nat.div_lt_of_lt_mul
        rw [Nat.pow_succ] at hv; omega
      rw [marshalUvarintGo, if_pos hgt]
      simp only [List.cons_append, uvarintGo, hb, hm, if_neg hnle]
      rw [addTerm _ shft hle, or_eq_add_of_lt res _ shft hres]
      rw [ih (v / 128) (idx + 1) (shft + 7) (res + v % 128 * 2 ^ shft) rest hv2 (by rw [hp7]; omega) (by rw [hp7]; omega)]
      rw [hp7]
      simp only [List.length_cons]
      congr 2
      · omega
      · omega
    · have hb : (UInt8.ofNat v).toNat = v := toNat_ofNat_lt v (by omega)
      have hm : v % 128 = v := Nat.mod_eq_of_lt (by omega)
      rw [marshalUvarintGo, if_neg hgt]
      simp only [List.cons_append, List.nil_append, uvarintGo, hb, hm]
      rw [addTerm v shft h64, or_eq_add_of_lt res v shft hres]
      have : v ≤ 127 := by omega
      simp [this]

theorem marshalUvarint_length_le (fuel v : Nat) : (marshalUvarintGo fuel v).length ≤ fuel := by
  induction fuel generalizing v with
  | zero => simp [marshalUvarintGo]
  | succ fuel ih =>
    rw [marshalUvarintGo]
    split
    · simp only [List.length_cons]; have := ih (v / 128); omega
    · simp

theorem uvarLen_le (v : Nat) : uvarLen v ≤ 10 := marshalUvarint_length_le 10 _

theorem uvarint_roundtrip (v : Nat) (rest : Bytes) (h : v < two64) :
    uvarint (marshalUvarint v ++ rest) = .ok (uvarLen v, v) := by
  unfold uvarint marshalUvarint uvarLen marshalUvarint
  rw [Nat.mod_eq_of_lt h]
  have := uvarint_marshal 9 v 0 0 0 rest (by simp [two64] at h; omega) (by simpa using h) (by simp)
  simpa using this

/-! ## length-prefixed bytes -/

theorem wrap64_small (x : Int) (h0 : 0 ≤ x) (h : x < (two63 : Int)) : wrap64 x = x := by
  have h63 : (two63 : Int) = 9223372036854775808 := by simp [two63]
  have h64 : (two64 : Int) = 18446744073709551616 := by simp [two64]
  have hm : x % (two64 : Int) = x := Int.emod_eq_of_lt h0 (by omega)
  simp only [wrap64, hm]
  split
  · omega
  · rfl

theorem marshalBytes_length (b : Bytes) : (marshalBytes b).length = uvarLen b.length + b.length := by
  simp [marshalBytes, uvarLen]

/-- a byte string is "small" when its length plus the longest varint fits an int64 — every Go slice is -/
def Small (b : Bytes) : Prop := b.length + 10 < two63

theorem bytesField_marshal (b rest : Bytes) (h : Small b) :
    bytesField (marshalBytes b ++ rest) = .ok ((marshalBytes b).length, b) := by
  unfold Small at h
  have hl := uvarLen_le b.length
  have hv : b.length < two64 := by simp only [two63, two64] at *; omega
  have hassoc : marshalBytes b ++ rest = marshalUvarint b.length ++ (b ++ rest) := by
    simp [marshalBytes, List.append_assoc]
  have hlen : (marshalBytes b ++ rest).length = uvarLen b.length + b.length + rest.length := by
    simp [marshalBytes_length]
  have hdrop : (marshalBytes b ++ rest).drop (uvarLen b.length) = b ++ rest := by
    rw [hassoc]; unfold uvarLen; exact List.drop_left
  unfold bytesField
  rw [hassoc, uvarint_roundtrip _ _ hv, ← hassoc]
  have w1 : wrap64 ((b.length : Nat) : Int) = (b.length : Int) :=
    wrap64_small _ (by omega) (by simp only [two63] at *; omega)
  have w2 : wrap64 ((b.length : Int) + ((uvarLen b.length : Nat) : Int)) = (b.length : Int) + (uvarLen b.length : Int) :=
    wrap64_small _ (by omega) (by simp only [two63] at *; omega)
  simp only [w1, w2, hlen]
  have c1 : ¬ (((uvarLen b.length + b.length + rest.length : Nat) : Int) < (b.length : Int) + (uvarLen b.length : Int)) := by omega
  have c2 : ¬ ((b.length : Int) + (uvarLen b.length : Int) < ((uvarLen b.length : Nat) : Int)) := by omega
  rw [if_neg c1, if_neg c2, hdrop]
  have t1 : ((b.length : Int) + (uvarLen b.length : Int)).toNat = uvarLen b.length + b.length := by omega
  rw [t1, marshalBytes_length]
  have t2 : uvarLen b.length + b.length - uvarLen b.length = b.length := by omega
  rw [t2, List.take_left]

theorem rpcString_marshal (b rest : Bytes) (h : Small b) :
    rpcString (marshalBytes b ++ rest) = .ok ((marshalBytes b).length, b) := by
  unfold rpcString
  split
  · have hv : b.length < two64 := by unfold Small at h; simp only [two63, two64] at *; omega
    have hassoc : marshalBytes b ++ rest = marshalUvarint b.length ++ (b ++ rest) := by
      simp [marshalBytes, List.append_assoc]
    have hu : uvarint (marshalBytes b ++ rest) = .ok (uvarLen b.length, b.length) := by
      rw [hassoc]; exact uvarint_roundtrip _ _ hv
    have hlen : (marshalBytes b ++ rest).length = uvarLen b.length + b.length + rest.length := by
      simp [marshalBytes_length]
    rw [hu]
    simp only [hlen]
    have : ¬ b.length > uvarLen b.length + b.length + rest.length - uvarLen b.length := by omega
    rw [if_neg this]
    exact bytesField_marshal b rest h
  · exact bytesField_marshal b rest h

theorem drop_marshalBytes (b rest : Bytes) : (marshalBytes b ++ rest).drop (marshalBytes b).length = rest :=
  List.drop_left

/-! ## the record codec -/

/-- the events Go can hold: the timestamp is a 64-bit value, message and fields are Go slices/strings -/
structure Event.WF (e : Event) : Prop where
  ts : e.ts < two64
  msg : Small e.msg
  fields : Small e.fields

theorem header_facts :
    Generated.C01.recVersion ||| Generated.C01.headerFieldsBit < 256 ∧ Generated.C01.recVersion < 256 ∧
    (Generated.C01.recVersion ||| Generated.C01.headerFieldsBit) &&& Generated.C01.marshalFieldsMask ≠ 0 ∧
    (Generated.C01.recVersion ||| Generated.C01.headerFieldsBit) &&& Generated.C01.unmarshalFieldsMask ≠ 0 ∧
    Generated.C01.recVersion &&& Generated.C01.marshalFieldsMask = 0 ∧
    Generated.C01.recVersion &&& Generated.C01.unmarshalFieldsMask = 0 := by decide

/-- `Unmarshal(Marshal(e))` into an event whose `Fields` is `prev`: the event comes back, except that an event
without fields keeps `prev` (the header bit is clear and `Unmarshal` leaves `le.Fields` alone). -/
theorem unmarshal_marshal (e : Event) (prev rest : Bytes) (h : e.WF) :
    Event.unmarshal prev (e.marshal ++ rest)
      = .ok (e.marshal.length, ⟨e.ts, e.msg, if e.fields.length > 0 then e.fields else prev⟩) := by
  obtain ⟨h1, h2, h3, h4, h5, h6⟩ := header_facts
  by_cases hf : e.fields.length > 0
  · have hh : e.header = Generated.C01.recVersion ||| Generated.C01.headerFieldsBit := by simp [Event.header, hf]
    have hm : e.marshal = UInt8.ofNat e.header :: (be e.ts 8 ++ (marshalBytes e.msg ++ (marshalBytes e.fields ++ []))) := by
      simp [Event.marshal, hh, h3]
    rw [hm, hh]
    simp only [List.cons_append, List.append_assoc, Event.unmarshal, List.nil_append]
    rw [u64_be _ _ h.ts]
    simp only [drop_be]
    rw [bytesField_marshal _ _ h.msg]
    simp only [drop_marshalBytes]
    rw [toNat_ofNat_lt _ h1]
    simp only [bne_iff_ne, ne_eq, h4, not_false_eq_true, ↓reduceIte]
    rw [bytesField_marshal _ _ h.fields]
    simp [hf, be_length]
    omega
  · have hh : e.header = Generated.C01.recVersion := by simp [Event.header, hf]
    have hm : e.marshal = UInt8.ofNat e.header :: (be e.ts 8 ++ (marshalBytes e.msg ++ [])) := by
      simp [Event.marshal, hh, h5]
    rw [hm, hh]
    simp only [List.cons_append, List.append_assoc, Event.unmarshal, List.nil_append]
    rw [u64_be _ _ h.ts]
    simp only [drop_be]
    rw [bytesField_marshal _ _ h.msg]
    rw [toNat_ofNat_lt _ h2]
    simp [h6, hf, be_length]
    omega

/-! ## the write packet -/

structure WEvent.WF (e : WEvent) : Prop where
  ts : e.ts < two64
  msg : Small e.msg
  tags : Small e.tags
  fields : Small e.fields

theorem drop_add {α : Type} (l : List α) (a b : Nat) : l.drop (a + b) = (l.drop a).drop b := by
  rw [List.drop_drop]

theorem encodeEvent_eq (e : WEvent) (rest : Bytes) :
    encodeEvent e ++ rest = be e.ts 8 ++ (marshalBytes e.msg ++ (marshalBytes e.tags ++ (marshalBytes e.fields ++ rest))) := by
  simp [encodeEvent, List.append_assoc]

theorem encodeEvent_length (e : WEvent) :
    (encodeEvent e).length = 8 + (marshalBytes e.msg).length + (marshalBytes e.tags).length + (marshalBytes e.fields).length := by
  simp [encodeEvent, be_length]; omega

theorem decodeEvent_encode (e : WEvent) (rest : Bytes) (h : e.WF) :
    decodeEvent (encodeEvent e ++ rest) = .ok ((encodeEvent e).length, e) := by
  rw [encodeEvent_eq, encodeEvent_length]
  unfold decodeEvent
  rw [u64_be _ _ h.ts]
  simp only [drop_add, drop_be]
  rw [rpcString_marshal _ _ h.msg]
  simp only [drop_marshalBytes]
  rw [rpcString_marshal _ _ h.tags]
  simp only [drop_marshalBytes]
  rw [rpcString_marshal _ _ h.fields]

theorem drop_encodeEvent (e : WEvent) (rest : Bytes) : (encodeEvent e ++ rest).drop (encodeEvent e).length = rest :=
  List.drop_left

theorem encodeEvents_length_ge (evs : List WEvent) : evs.length ≤ (encodeEvents evs).length := by
  induction evs with
  | nil => simp [encodeEvents]
  | cons e es ih =>
    simp only [encodeEvents, List.length_append, List.length_cons, encodeEvent_length]
    omega

/-- the server-side iterator enumerates the encoded events, one `Get`/`Next` per event -/
theorem wpLoop_encode (parseKV : Bytes → Option Bytes) : ∀ (evs : List WEvent) (it : WpIter) (fuel : Nat),
    it.read = false → it.rest = encodeEvents evs → it.cur + evs.length = it.recs → evs.length < fuel →
    (∀ e ∈ evs, e.WF) →
    wpLoop parseKV fuel it = .ok (evs.map (storedModel parseKV it.flds)) := by
  intro evs
  induction evs with
  | nil =>
    intro it fuel hr _ hc hf _
    cases fuel with
    | zero => simp at hf
    | succ f =>
      have : it.cur ≥ it.recs := by simp at hc; omega
      simp [wpLoop, wpGet, hr, this]
  | cons e es ih =>
    intro it fuel hr hrest hc hf hwf
    cases fuel with
    | zero => simp at hf
    | succ f =>
      have hlt : ¬ it.cur ≥ it.recs := by simp at hc; omega
      have hd := decodeEvent_encode e (encodeEvents es) (hwf e (by simp))
      simp only [wpLoop, wpGet, hr, hlt, hrest, encodeEvents, hd, Bool.false_eq_true, ↓reduceIte]
      rw [ih _ f (by simp [wpNext]) (by simp [wpNext]) (by simp [wpNext] at hc ⊢; omega)
        (by simp at hf; omega) (fun x hx => hwf x (by simp [hx]))]
      simp [storedModel, wpNext]

/-- the validation pass of the repaired `init` accepts a complete packet whose field texts all parse -/
theorem strictLoop_encode_some (parseKV : Bytes → Option Bytes) (wf : Bytes) : ∀ (evs : List WEvent),
    (∀ e ∈ evs, e.WF) → (∀ e ∈ evs, (parseKV e.fields).isSome) →
    ∃ es, strictLoop parseKV wf evs.length (encodeEvents evs) = some es := by
  intro evs
  induction evs with
  | nil => intro _ _; exact ⟨[], rfl⟩
  | cons e es ih =>
    intro hwf hok
    have hd := decodeEvent_encode e (encodeEvents es) (hwf e (by simp))
    have hp := hok e (by simp)
    obtain ⟨r, hr⟩ := ih (fun x hx => hwf x (by simp [hx])) (fun x hx => hok x (by simp [hx]))
    cases hpe : parseKV e.fields with
    | none => simp [hpe] at hp
    | some ef =>
      refine ⟨⟨e.ts, e.msg, wf ++ ef⟩ :: r, ?_⟩
      simp only [List.length_cons, strictLoop, encodeEvents, hd, hpe, drop_encodeEvent, hr, Option.map_some]

theorem wpInit_encode (parseKV : Bytes → Option Bytes) (tags flds wf : Bytes) (evs : List WEvent)
    (ht : Small tags) (hf : Small flds) (hp : parseKV flds = some wf) (hn : evs.length < two32)
    (hwf : ∀ e ∈ evs, e.WF)
    (hval : Generated.C01.wpInitValidatesEvents = true → ∀ e ∈ evs, (parseKV e.fields).isSome) :
    ∃ it, wpInit parseKV (wpEncode tags flds evs) = .ok it ∧ it.tags = tags ∧ it.flds = wf ∧
      it.rest = encodeEvents evs ∧ it.recs = evs.length ∧ it.cur = 0 ∧ it.read = false := by
  unfold wpInit wpEncode
  rw [rpcString_marshal _ _ ht]
  simp only [drop_marshalBytes]
  rw [rpcString_marshal _ _ hf]
  simp only [drop_add, drop_marshalBytes]
  rw [u32_be _ _ (Nat.mod_lt _ (by decide))]
  simp only [hp, drop_be, Nat.mod_eq_of_lt hn]
  by_cases hfact : Generated.C01.wpInitValidatesEvents = true
  · obtain ⟨es, he⟩ := strictLoop_encode_some parseKV wf evs hwf (hval hfact)
    simp only [hfact, ↓reduceIte, he]
    exact ⟨_, rfl, rfl, rfl, rfl, rfl, rfl, rfl⟩
  · simp only [hfact, Bool.false_eq_true, ↓reduceIte]
    exact ⟨_, rfl, rfl, rfl, rfl, rfl, rfl, rfl⟩

theorem wpDrain_encode (parseKV : Bytes → Option Bytes) (tags flds wf : Bytes) (evs : List WEvent)
    (ht : Small tags) (hf : Small flds) (hp : parseKV flds = some wf) (hn : evs.length < two32)
    (hwf : ∀ e ∈ evs, e.WF)
    (hval : Generated.C01.wpInitValidatesEvents = true → ∀ e ∈ evs, (parseKV e.fields).isSome) :
    wpDrain parseKV (wpEncode tags flds evs) = .ok (tags, evs.map (storedModel parseKV wf)) := by
  obtain ⟨it, hi, h1, h2, h3, h4, h5, h6⟩ := wpInit_encode parseKV tags flds wf evs ht hf hp hn hwf hval
  unfold wpDrain
  rw [hi]
  simp only []
  have hlen : evs.length < (wpEncode tags flds evs).length + 1 := by
    have := encodeEvents_length_ge evs
    simp only [wpEncode, List.length_append]
    omega
  rw [wpLoop_encode parseKV evs it _ h6 h3 (by rw [h5, h4]; simp) hlen hwf]
  simp [h1, h2]

end Logrange.WireRT

/-! ## an acknowledged packet is a strictly well-formed packet (after the repair of F20b/F20c: `init` validates) -/
namespace Logrange.WireRT

theorem wpFields_eq' (wf ef : Bytes) : wpFields wf ef = wf ++ ef := by
  have h1 : Generated.C01.concatReceiverFirst = true := by decide
  have h2 : Generated.C01.wpConcatReceiverIsWriteLevel = true := by decide
  simp [wpFields, concat, h1, h2]

theorem decodeEvent_ok_len (buf : Bytes) (k : Nat) (e : WEvent) (h : decodeEvent buf = .ok (k, e)) :
    8 ≤ buf.length ∧ 8 ≤ k := by
  unfold decodeEvent u64 at h
  by_cases hl : buf.length < 8
  · simp [hl] at h
  · simp only [hl, ↓reduceIte] at h
    repeat' split at h
    all_goals first
      | (simp at h; done)
      | (simp only [Out.ok.injEq, Prod.mk.injEq] at h; exact ⟨by omega, by omega⟩)

theorem strictLoop_len (parseKV : Bytes → Option Bytes) (wf : Bytes) : ∀ (n : Nat) (rest : Bytes) (es : List Event),
    strictLoop parseKV wf n rest = some es → n ≤ rest.length := by
  intro n
  induction n with
  | zero => intro rest es _; omega
  | succ n ih =>
    intro rest es h
    simp only [strictLoop] at h
    split at h
    · rename_i k we hd
      split at h
      · rename_i ef hp
        cases hs : strictLoop parseKV wf n (rest.drop k) with
        | none => simp [hs] at h
        | some es1 =>
          have := ih _ _ hs
          have ⟨h8, hk⟩ := decodeEvent_ok_len rest k we hd
          simp only [List.length_drop] at this
          omega
      · simp at h
    · simp at h

/-- what the validation pass accepted is exactly what the iterator then hands over -/
theorem strict_implies_loop (parseKV : Bytes → Option Bytes) : ∀ (n : Nat) (it : WpIter) (es : List Event) (fuel : Nat),
    strictLoop parseKV it.flds n it.rest = some es → it.read = false → it.cur + n = it.recs → n < fuel →
    wpLoop parseKV fuel it = .ok es := by
  intro n
  induction n with
  | zero =>
    intro it es fuel h hr hc hf
    cases fuel with
    | zero => omega
    | succ f =>
      have : it.cur ≥ it.recs := by omega
      simp only [strictLoop, Option.some.injEq] at h
      simp [wpLoop, wpGet, hr, this, ← h]
  | succ n ih =>
    intro it es fuel h hr hc hf
    cases fuel with
    | zero => omega
    | succ f =>
      have hlt : ¬ it.cur ≥ it.recs := by omega
      simp only [strictLoop] at h
      split at h
      · rename_i k we hd
        split at h
        · rename_i ef hp
          cases hs : strictLoop parseKV it.flds n (it.rest.drop k) with
          | none => simp [hs] at h
          | some es1 =>
            simp only [hs, Option.map_some, Option.some.injEq] at h
            simp only [wpLoop, wpGet, hr, hlt, hd, hp, Bool.false_eq_true, ↓reduceIte, Option.getD_some, wpFields_eq']
            rw [ih _ es1 f (by simpa [wpNext] using hs) (by simp [wpNext]) (by simp [wpNext]; omega) (by omega)]
            simp [← h]
        · simp at h
      · simp at h

/-- the size `LogEvent.WritableSize()` computes is the number of bytes `LogEvent.Marshal` writes, for every event -/
theorem writableSize_eq_marshal_length (e : Event) : e.writableSize = e.marshal.length := by
  obtain ⟨_, _, h3, _, h5, _⟩ := header_facts
  by_cases hf : e.fields.length > 0
  · have hh : e.header = Generated.C01.recVersion ||| Generated.C01.headerFieldsBit := by simp [Event.header, hf]
    simp [Event.writableSize, Event.marshal, hh, h3, hf, be_length, marshalBytes_length]
    omega
  · have hh : e.header = Generated.C01.recVersion := by simp [Event.header, hf]
    simp [Event.writableSize, Event.marshal, hh, h5, hf, be_length, marshalBytes_length]
    omega

end Logrange.WireRT
