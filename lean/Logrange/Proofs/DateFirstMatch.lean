import Logrange.Proofs.DateRoundTripAll
/-!
# First match: a format whose text no earlier format of the list can even match is claimed by itself

`cleanIdx fmts k`: for every earlier format `j < k` the may-matcher finds nothing in any shape of format `k`'s texts
(kernel-evaluated); by `find_none_of_findS` the real search of format `j` then finds nothing in any text of format `k`, so
`Format.Parse` of `j` fails; format `k`'s own expression returns the whole text (`find_whole_of_ownMatchD`) and its layout
parses it back (`render_parse_all`).
-/
namespace Logrange.Date

/-- what `Format.Parse` does after a successful layout parse -/
def adjustRes (adj : Adjust) (cf : CFormat) (now : Now) (c : Civil) : FRes :=
  if cf.noDate then (if adj.date then .ok (adjustDate now c) else .ok c)
  else if !cf.hasYear then
    (if adj.year then
      (match c.zone with
       | .named _ disp => if disp != 0 then .unsupported 3 else .ok (adjustYear now c)
       | _ => .ok (adjustYear now c))
     else .ok c)
  else .ok c

theorem formatParse_of_find {adj : Adjust} {cf : CFormat} {now : Now} {txt : Bytes} {r : Rx} {c : Civil}
    (hr : cf.rx = some r) (hf : findG cf.guard r txt = some txt) (hp : parseLayout cf.layout txt = .ok c) :
    formatParse adj cf now txt = adjustRes adj cf now c := by
  simp only [formatParse, hr, hf, hp, adjustRes]
  split <;> rfl

theorem formatParse_err_of_find {adj : Adjust} {cf : CFormat} {now : Now} {txt : Bytes} {r : Rx}
    (hr : cf.rx = some r) (hf : findG cf.guard r txt = none) : formatParse adj cf now txt = .err := by
  simp only [formatParse, hr, hf]

/-- the claim of format `k` as `parser.Parse` reports it -/
def claim (k : Nat) : FRes → PRes
  | .ok c => .ok k c
  | .err => .err
  | .unsupported w => .unsupported k w

theorem parseFrom_first {adj : Adjust} {now : Now} {buf : Bytes} :
    ∀ (fmts : List CFormat) (i0 k : Nat) (ck : CFormat), fmts[k]? = some ck →
      (∀ j, j < k → ∀ cj, fmts[j]? = some cj → formatParse adj cj now buf = .err) →
      formatParse adj ck now buf ≠ .err →
      parseFrom adj now buf i0 fmts = claim (i0 + k) (formatParse adj ck now buf)
  | [], _, _, _, h, _, _ => by simp at h
  | cf :: rest, i0, 0, ck, h, _, hne => by
    simp at h; subst h
    simp only [parseFrom]
    cases hfp : formatParse adj cf now buf with
    | ok c => simp [claim]
    | unsupported w => simp [claim]
    | err => exact absurd hfp hne
  | cf :: rest, i0, k + 1, ck, h, herr, hne => by
    have h0 := herr 0 (by omega) cf (by simp)
    simp only [parseFrom, h0]
    rw [parseFrom_first rest (i0 + 1) k ck (by simpa using h)
      (fun j hj cj hcj => herr (j + 1) (by omega) cj (by simpa using hcj)) hne]
    congr 1; omega

/-- format `k`'s texts cannot be matched by the expression of any earlier format of the list -/
def cleanIdx (fmts : List CFormat) (k : Nat) : Bool :=
  match fmts[k]? with
  | none => false
  | some ck =>
    (List.range k).all (fun j =>
      match fmts[j]? with
      | none => true
      | some cj =>
        match cj.rx with
        | none => false
        | some r => (symLayout ck.layout).all (fun sh => !findSG cj.guard r false sh))

/-- format `k`'s own expression returns the whole of every text of the format, and its layout is well formed -/
def ownOK (cf : CFormat) : Bool :=
  ParseWF cf.layout && (match cf.rx with | some r => (symLayout cf.layout).all (ownMatchD r) | none => false)

/-- **own expression**: the format's expression, searched unanchored in the format's own text, returns the whole text -/
theorem own_regexp_whole {cf : CFormat} (hown : ownOK cf = true) {i : XInst} (hi : ValidX i) {txt : Bytes}
    (ht : renderLayout cf.layout i = some txt) : ∃ r, cf.rx = some r ∧ find r txt = some txt ∧ findG cf.guard r txt = some txt := by
  simp only [ownOK, Bool.and_eq_true] at hown
  obtain ⟨sh, hsh, hs⟩ := renderLayout_shape cf.layout i hi txt ht
  cases hr : cf.rx with
  | none => rw [hr] at hown; simp at hown
  | some r =>
    rw [hr] at hown
    have hm := matchAt_whole_of_ownMatchD hs (List.all_eq_true.mp hown.2 sh hsh)
    exact ⟨r, rfl, find_whole_of_ownMatchD hs (List.all_eq_true.mp hown.2 sh hsh), findG_of_matchAt hm⟩

/-- **first match**: for a clean index the list's answer for the text of any valid instant is format `k`'s own claim of
exactly the fields the layout carries -/
theorem first_match_clean {adj : Adjust} {now : Now} {fmts : List CFormat} {k : Nat} {ck : CFormat} (hk : fmts[k]? = some ck)
    (hclean : cleanIdx fmts k = true) (hown : ownOK ck = true) (i : XInst) (hi : ValidX i) :
    ∃ txt c, renderLayout ck.layout i = some txt ∧ projectX ck.layout i = .ok c ∧
      parseFirst adj fmts now txt = claim k (adjustRes adj ck now c) := by
  have hwf : ParseWF ck.layout = true := by
    simp only [ownOK, Bool.and_eq_true] at hown; exact hown.1
  obtain ⟨txt, ht, hp⟩ := render_parse_all ck.layout hwf i hi
  obtain ⟨c, hc⟩ := projectX_ok ck.layout i hi
  obtain ⟨r, hr, _, hf⟩ := own_regexp_whole hown hi ht
  obtain ⟨sh, hsh, hs⟩ := renderLayout_shape ck.layout i hi txt ht
  refine ⟨txt, c, ht, hc, ?_⟩
  have hfp : formatParse adj ck now txt = adjustRes adj ck now c := formatParse_of_find hr hf (by rw [hp, hc])
  have hne : formatParse adj ck now txt ≠ .err := by
    rw [hfp]; simp only [adjustRes]
    split
    · split <;> simp
    · split
      · split
        · split
          · split <;> simp
          · simp
        · simp
      · simp
  have hearlier : ∀ j, j < k → ∀ cj, fmts[j]? = some cj → formatParse adj cj now txt = .err := by
    intro j hj cj hcj
    simp only [cleanIdx, hk, List.all_eq_true, List.mem_range] at hclean
    have := hclean j hj
    rw [hcj] at this
    simp only at this
    cases hrj : cj.rx with
    | none => rw [hrj] at this; simp at this
    | some rj =>
      rw [hrj] at this
      have hns : findSG cj.guard rj false sh = false := by
        have := List.all_eq_true.mp this sh hsh
        simpa using this
      exact formatParse_err_of_find hrj (findFrom_none_of_findSG cj.guard rj txt sh false false hs (fun h => h) hns)
  have := parseFrom_first (adj := adj) (now := now) (buf := txt) fmts 0 k ck hk hearlier hne
  simp only [parseFirst, this, Nat.zero_add, hfp]

/-! ## the LQL wrapper: a rendered text goes straight to the format list -/

/-- no blank at either end, no `-` in front, a digit somewhere — decided on the shape -/
def lqlShapeOK (sh : List BSet) : Bool :=
  (match sh.head? with | some x => !inCls x 32 && !inCls x 45 | none => false) &&
  (match sh.getLast? with | some x => !inCls x 32 | none => false) &&
  sh.any (fun x => within x dS)

theorem hasShape_head {txt : Bytes} {sh : List BSet} (h : hasShape txt sh) {x : BSet} (hx : sh.head? = some x) :
    ∃ c, txt.head? = some c ∧ inCls x c = true := by
  cases sh with
  | nil => simp at hx
  | cons y ys =>
    cases txt with
    | nil => simp [hasShape] at h
    | cons c t => simp at hx; subst hx; simp only [hasShape] at h; exact ⟨c, rfl, h.1⟩

theorem hasShape_last : ∀ {txt : Bytes} {sh : List BSet}, hasShape txt sh → ∀ {x : BSet}, sh.getLast? = some x →
    ∃ c, txt.getLast? = some c ∧ inCls x c = true
  | [], [], _, _, hx => by simp at hx
  | [], _ :: _, h, _, _ => by simp [hasShape] at h
  | _ :: _, [], h, _, _ => by simp [hasShape] at h
  | c :: t, y :: ys, h, x, hx => by
    simp only [hasShape] at h
    cases ys with
    | nil =>
      have := hasShape_nil_right h.2
      subst this
      simp at hx; subst hx
      exact ⟨c, rfl, h.1⟩
    | cons z zs =>
      cases t with
      | nil => simp [hasShape] at h
      | cons d t' =>
        simp only [List.getLast?_cons_cons] at hx ⊢
        exact hasShape_last h.2 hx

theorem hasShape_any : ∀ {txt : Bytes} {sh : List BSet}, hasShape txt sh → sh.any (fun x => within x dS) = true →
    ∃ d ∈ txt, isDig d = true
  | [], [], _, h => by simp at h
  | [], _ :: _, h, _ => by simp [hasShape] at h
  | _ :: _, [], h, _ => by simp [hasShape] at h
  | c :: t, y :: ys, h, ha => by
    simp only [hasShape] at h
    simp only [List.any_cons, Bool.or_eq_true] at ha
    rcases ha with ha | ha
    · exact ⟨c, List.mem_cons_self .., by rw [← inCls_dS]; exact inCls_of_within ha h.1⟩
    · obtain ⟨d, hd, hdd⟩ := hasShape_any h.2 ha
      exact ⟨d, List.mem_cons_of_mem _ hd, hdd⟩

theorem lowerB_digit {d : UInt8} (h : isDig d = true) : lowerB d = d := by
  have : isUpperB d = false := (sdByte_facts (Or.inl h)).2.1
  simp [lowerB, this]

theorem lowerB_eq_minus {c : UInt8} (h : lowerB c = 45) : c = 45 := by
  simp only [lowerB] at h
  split at h
  · rename_i hu
    exfalso
    simp only [isUpperB, Bool.and_eq_true, decide_eq_true_eq, UInt8.le_iff_toNat_le] at hu
    have e65 : (65 : UInt8).toNat = 65 := rfl
    have e90 : (90 : UInt8).toNat = 90 := rfl
    rw [e65, e90] at hu
    have h2 : (c + 32).toNat = 45 := by rw [h]; rfl
    rw [UInt8.toNat_add] at h2
    have e32 : (32 : UInt8).toNat = 32 := rfl
    rw [e32] at h2
    omega
  · exact h

theorem relativeShape_none_of_head {s : Bytes} (h : s.head? ≠ some 45) : relativeShape s = none := by
  cases s with
  | nil => rfl
  | cons c r =>
    have : (c != 45) = true := by
      simp only [List.head?_cons, ne_eq, Option.some.injEq] at h
      simpa using h
    simp [relativeShape, this]

theorem parseConstants_none_of_digit {s : Bytes} (h : ∃ d ∈ s, isDig d = true) : parseConstants s = none := by
  obtain ⟨d, hd, hdd⟩ := h
  have no : ∀ (k : Bytes), (∀ x ∈ k, isDig x = false) → (s == k) = false := by
    intro k hk
    apply beq_false_of_ne; intro e; subst e
    rw [hk d hd] at hdd; cases hdd
  simp only [parseConstants]
  rw [no bMinute (by decide), no bHour (by decide), no bDay (by decide), no bWeek (by decide)]
  simp

/-- a text with an LQL-safe shape, claimed by format `k` of the list, is what `parseLqlDateTime` answers — when the format
list is handed the literal as written (`fmtLower = false`, /repo ab30677) -/
theorem parseLql_of_list (cfg : LqlCfg) (hfl : cfg.fmtLower = false) (fmts : List CFormat) (now : Now) {txt : Bytes} {sh : List BSet}
    (hs : hasShape txt sh) (hok : lqlShapeOK sh = true) {k : Nat} {c : Civil}
    (hpf : parseFirst cfg.adj fmts now txt = .ok k c) : parseLql cfg fmts now txt = .abs k c := by
  simp only [lqlShapeOK, Bool.and_eq_true] at hok
  obtain ⟨⟨hhead, hlast⟩, hdig⟩ := hok
  -- the first byte
  cases hh : sh.head? with
  | none => rw [hh] at hhead; simp at hhead
  | some x =>
    rw [hh] at hhead
    simp only [Bool.and_eq_true, Bool.not_eq_true'] at hhead
    obtain ⟨c0, hc0, hin0⟩ := hasShape_head hs hh
    have h32 : c0 ≠ 32 := by intro e; subst e; rw [hhead.1] at hin0; cases hin0
    have h45 : c0 ≠ 45 := by intro e; subst e; rw [hhead.2] at hin0; cases hin0
    cases hl : sh.getLast? with
    | none => rw [hl] at hlast; simp at hlast
    | some y =>
      rw [hl] at hlast
      simp only [Bool.not_eq_true'] at hlast
      obtain ⟨c1, hc1, hin1⟩ := hasShape_last hs hl
      have hl32 : c1 ≠ 32 := by intro e; subst e; rw [hlast] at hin1; cases hin1
      have hdigit := hasShape_any hs hdig
      -- trim leaves the text alone
      have htrim : trimBlanks txt = txt := by
        have h1 : txt.dropWhile (· == 32) = txt := cutspace_of_head (by rw [hc0]; simpa using h32)
        have h2 : txt.reverse.dropWhile (· == 32) = txt.reverse :=
          cutspace_of_head (by rw [List.head?_reverse, hc1]; simpa using hl32)
        simp only [trimBlanks, h1, h2, List.reverse_reverse]
      -- both the text and its lower-cased form: no leading minus, a digit inside
      have hlowhead : (toLowerAscii txt).head? ≠ some 45 := by
        cases txt with
        | nil => simp at hc0
        | cons a t =>
          simp at hc0; subst hc0
          simp only [toLowerAscii, List.map, List.head?_cons, ne_eq, Option.some.injEq]
          exact fun e => h45 (lowerB_eq_minus e)
      have hlowdig : ∃ d ∈ toLowerAscii txt, isDig d = true := by
        obtain ⟨d, hd, hdd⟩ := hdigit
        exact ⟨d, by simp only [toLowerAscii, List.mem_map]; exact ⟨d, hd, lowerB_digit hdd⟩, hdd⟩
      have hhead' : txt.head? ≠ some 45 := by rw [hc0]; simpa using h45
      have hdt1 : (if cfg.trim then trimBlanks txt else txt) = txt := by split <;> simp [htrim]
      simp only [parseLql, hdt1, hfl, Bool.false_eq_true, if_false]
      by_cases hlow : cfg.lower = true
      · simp only [hlow, if_true, relativeShape_none_of_head hlowhead, parseLqlRest, parseConstants_none_of_digit hlowdig, hpf]
      · have hlow' : cfg.lower = false := by simpa using hlow
        simp only [hlow', Bool.false_eq_true, if_false, relativeShape_none_of_head hhead', parseLqlRest,
          parseConstants_none_of_digit hdigit, hpf]

end Logrange.Date
