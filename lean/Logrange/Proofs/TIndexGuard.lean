import Logrange.Model.TIndexGuard
import Logrange.Proofs.TIndexRun
import Logrange.Proofs.TagsTight
/-!
# The tag index with the write-time guard of F08r: identity and persisted keys without any `Safe` hypothesis
-/
namespace Logrange.Proofs.TIndexGuard
open Go Logrange.KV Logrange.Tags Logrange.TIndexId Logrange.TIndexGuard Logrange.Proofs.KV Logrange.Proofs.Tags
  Logrange.Proofs.TIndexId Logrange.Proofs.TIndexRun Logrange.Proofs.Quote

theorem reparses_iff (m : Map) : reparses m = true ↔ parse (line m) = some m := by
  unfold reparses; exact beq_iff_eq

/-- without the guard the model is literally the model of the current code -/
theorem guard_off (s : St) (raw : Bytes) (create : Bool) :
    getOrCreateG false s raw create = ((getOrCreate s raw create).1, .res (getOrCreate s raw create).2) := by
  unfold getOrCreateG getOrCreate
  cases lookup s.tmap raw with
  | some td => rfl
  | none =>
    cases parse raw with
    | none => rfl
    | some tgs =>
      by_cases h3 : tgs.isEmpty = true
      · simp only [h3, if_true]
      · simp only [h3, Bool.false_and, Bool.false_eq_true, if_false]
        cases lookup s.tmap (line tgs) with
        | some td2 => rfl
        | none => cases create <;> rfl

/-- a guarded step = refuse when `guardRejects`, otherwise the step of the current code (what the model driver runs) -/
theorem guarded_decomp (g : Bool) (s : St) (raw : Bytes) (create : Bool) :
    getOrCreateG g s raw create =
      if g && guardRejects s raw then (s, .notReparsing)
      else ((getOrCreate s raw create).1, .res (getOrCreate s raw create).2) := by
  cases g with
  | false => simp only [Bool.false_and, Bool.false_eq_true, if_false]; exact guard_off s raw create
  | true =>
    unfold getOrCreateG getOrCreate guardRejects
    cases lookup s.tmap raw with
    | some td => simp
    | none =>
      cases parse raw with
      | none => simp
      | some tgs =>
        by_cases h3 : tgs.isEmpty = true
        · simp [h3]
        · cases hr : reparses tgs with
          | false => simp [h3, hr]
          | true =>
            simp only [h3, hr, Bool.not_true, Bool.false_eq_true, if_false, Option.isNone_none,
              Bool.not_false, Bool.and_false]
            cases lookup s.tmap (line tgs) with
            | some td2 => rfl
            | none => cases create <;> rfl

/-- the cases of one guarded step -/
theorem guarded_cases (s : St) (raw : Bytes) (create : Bool) :
    ((getOrCreateG true s raw create).1 = s ∧
      (∀ i, (getOrCreateG true s raw create).2 = .res (.ok i) →
        ∃ e ∈ s.tmap, e.2.src = i ∧ (e.1 = raw ∨ ∃ m, parse raw = some m ∧ m ≠ [] ∧ reparses m = true ∧ e.1 = line m))) ∨
    ∃ tgs, parse raw = some tgs ∧ tgs ≠ [] ∧ reparses tgs = true ∧ lookup s.tmap raw = none ∧
      lookup s.tmap (line tgs) = none ∧
      getOrCreateG true s raw create =
        ({ tmap := (line tgs, ⟨s.next, tgs⟩) :: s.tmap, next := s.next + 1 }, .res (.ok s.next)) := by
  cases h1 : lookup s.tmap raw with
  | some td =>
    left
    obtain ⟨e, he, hek, hed⟩ := lookup_some h1
    unfold getOrCreateG; simp only [h1]
    refine ⟨trivial, ?_⟩
    intro i hi
    cases hi
    exact ⟨e, he, by rw [hed], Or.inl hek⟩
  | none =>
    cases h2 : parse raw with
    | none =>
      left; unfold getOrCreateG; simp only [h1, h2]
      exact ⟨trivial, fun i hi => by cases hi⟩
    | some tgs =>
      by_cases h3 : tgs.isEmpty = true
      · left; unfold getOrCreateG; simp only [h1, h2, h3, if_true]
        exact ⟨trivial, fun i hi => by cases hi⟩
      · have hne : tgs ≠ [] := by intro e; rw [e] at h3; exact h3 rfl
        cases hr : reparses tgs with
        | false =>
          left; unfold getOrCreateG
          simp only [h1, h2, h3, hr, Bool.false_eq_true, if_false, Bool.not_false, Bool.and_self, if_true]
          exact ⟨trivial, fun i hi => by cases hi⟩
        | true =>
          cases h4 : lookup s.tmap (line tgs) with
          | some td2 =>
            left
            obtain ⟨e, he, hek, hed⟩ := lookup_some h4
            unfold getOrCreateG
            simp only [h1, h2, h3, hr, h4, Bool.false_eq_true, if_false, Bool.not_true, Bool.and_false]
            refine ⟨trivial, ?_⟩
            intro i hi
            cases hi
            exact ⟨e, he, by rw [hed], Or.inr ⟨tgs, rfl, hne, hr, hek⟩⟩
          | none =>
            cases create with
            | false =>
              left; unfold getOrCreateG
              simp only [h1, h2, h3, hr, h4, Bool.false_eq_true, if_false, Bool.not_true, Bool.and_false, Bool.not_false,
                if_true]
              exact ⟨trivial, fun i hi => by cases hi⟩
            | true =>
              right
              refine ⟨tgs, rfl, hne, hr, rfl, h4, ?_⟩
              unfold getOrCreateG
              simp only [h1, h2, h3, hr, h4, Bool.false_eq_true, if_false, Bool.not_true, Bool.and_false]

/-- the invariant of the guarded index: `TInv` and every key reads back as the set of its descriptor -/
def RInv (s : St) : Prop := TInv s ∧ ∀ e ∈ s.tmap, parse e.1 = some e.2.tags

theorem rinv_init : RInv {} := ⟨tinv_init, fun e he => by cases he⟩

theorem rinv_step (s : St) (raw : Bytes) (create : Bool) (h : RInv s) : RInv (getOrCreateG true s raw create).1 := by
  rcases guarded_cases s raw create with ⟨e, _⟩ | ⟨tgs, hp, hne, hr, _, hl, e⟩
  · rw [e]; exact h
  · rw [e]
    obtain ⟨⟨h1, h2, h3⟩, h4⟩ := h
    refine ⟨⟨?_, ?_, ?_⟩, ?_⟩
    · intro x hx
      rcases List.mem_cons.mp hx with hx | hx
      · subst hx
        exact ⟨rfl, parse_WF raw tgs hp, hne, Nat.lt_succ_self _⟩
      · obtain ⟨a, b, c, d⟩ := h1 x hx
        exact ⟨a, b, c, Nat.lt_succ_of_lt d⟩
    · simp only [List.map_cons, List.nodup_cons]
      refine ⟨?_, h2⟩
      intro hm
      obtain ⟨x, hx, hxe⟩ := List.mem_map.mp hm
      exact lookup_none hl x hx hxe
    · simp only [List.map_cons, List.nodup_cons]
      refine ⟨?_, h3⟩
      intro hm
      obtain ⟨x, hx, hxe⟩ := List.mem_map.mp hm
      have := (h1 x hx).2.2.2
      have hxe' : x.2.src = s.next := hxe
      omega
    · intro x hx
      rcases List.mem_cons.mp hx with hx | hx
      · subst hx; exact (reparses_iff tgs).mp hr
      · exact h4 x hx

theorem rinv_run (s : St) (ops : List (Bytes × Bool)) (h : RInv s) : RInv (runG true s ops) := by
  induction ops generalizing s with
  | nil => exact h
  | cons op ops ih =>
    obtain ⟨raw, create⟩ := op
    simp only [runG]
    exact ih _ (rinv_step s raw create h)

/-- the index only grows -/
theorem guarded_mono (s : St) (raw : Bytes) (create : Bool) :
    ∀ e ∈ s.tmap, e ∈ (getOrCreateG true s raw create).1.tmap := by
  intro e he
  rcases guarded_cases s raw create with ⟨h, _⟩ | ⟨tgs, _, _, _, _, _, h⟩
  · rw [h]; exact he
  · rw [h]; exact List.mem_cons_of_mem _ he

/-- an accepted text denotes a non-empty set, and the partition it gets holds exactly that set -/
theorem guarded_accept (s : St) (h : RInv s) (raw : Bytes) (create : Bool) (i : Nat)
    (hr : (getOrCreateG true s raw create).2 = .res (.ok i)) :
    ∃ m, parse raw = some m ∧ m ≠ [] ∧ parse (line m) = some m ∧
      ∃ e ∈ (getOrCreateG true s raw create).1.tmap, e.2.src = i ∧ e.2.tags = m := by
  rcases guarded_cases s raw create with ⟨hs, hok⟩ | ⟨tgs, hp, hne, hrp, _, _, e⟩
  · obtain ⟨e, he, hsrc, hk⟩ := hok i hr
    obtain ⟨hkl, _, hne, _⟩ := h.1.1 e he
    have hpk := h.2 e he
    rw [hs]
    rcases hk with hk | ⟨m, hp, hmne, hrp, hk⟩
    · refine ⟨e.2.tags, by rw [← hk]; exact hpk, hne, by rw [← hkl]; exact hpk, e, he, hsrc, rfl⟩
    · have hm : e.2.tags = m := by
        have := (reparses_iff m).mp hrp
        rw [← hk, hpk] at this
        exact Option.some.inj this
      exact ⟨m, hp, hmne, (reparses_iff m).mp hrp, e, he, hsrc, hm⟩
  · rw [e] at hr ⊢
    cases hr
    exact ⟨tgs, hp, hne, (reparses_iff tgs).mp hrp, _, List.mem_cons_self, rfl, rfl⟩

/-- **Partition identity with the guard, no `Safe` hypothesis**: two accepted texts get the same partition iff they
denote the same set -/
theorem guarded_same_partition_iff (s : St) (h : RInv s) (t1 t2 : Bytes) (c1 c2 : Bool) (i j : Nat) (m1 m2 : Map)
    (h1 : (getOrCreateG true s t1 c1).2 = .res (.ok i))
    (h2 : (getOrCreateG true (getOrCreateG true s t1 c1).1 t2 c2).2 = .res (.ok j))
    (p1 : parse t1 = some m1) (p2 : parse t2 = some m2) : i = j ↔ m1 = m2 := by
  have hi1 := rinv_step s t1 c1 h
  have hi2 := rinv_step _ t2 c2 hi1
  obtain ⟨a1, pa1, _, _, e1, he1, hs1, ht1⟩ := guarded_accept s h t1 c1 i h1
  obtain ⟨a2, pa2, _, _, e2, he2, hs2, ht2⟩ := guarded_accept _ hi1 t2 c2 j h2
  rw [p1] at pa1; rw [p2] at pa2
  cases pa1; cases pa2
  have he1' := guarded_mono _ t2 c2 e1 he1
  constructor
  · intro hij
    have : e1 = e2 := eq_of_nodup_map (·.2.src) _ hi2.1.2.2 e1 he1' e2 he2 (by rw [hs1, hs2, hij])
    rw [← ht1, ← ht2, this]
  · intro hm
    have k1 := (hi2.1.1 e1 he1').1
    have k2 := (hi2.1.1 e2 he2).1
    have : e1 = e2 := eq_of_nodup_map (·.1) _ hi2.1.2.1 e1 he1' e2 he2 (by rw [k1, k2, ht1, ht2, hm])
    rw [← hs1, ← hs2, this]

/-- **The guard rejects exactly the texts whose set's line does not read back**: a text that is not already a key, parses
to a non-empty set `m`, is refused iff `parse (line m) ≠ some m` -/
theorem guarded_rejects_exactly (s : St) (raw : Bytes) (create : Bool) (m : Map) (hl : lookup s.tmap raw = none)
    (hp : parse raw = some m) (hne : m ≠ []) :
    (getOrCreateG true s raw create).2 = .notReparsing ↔ parse (line m) ≠ some m := by
  have h3 : m.isEmpty = false := by cases m with | nil => exact absurd rfl hne | cons _ _ => rfl
  unfold getOrCreateG
  simp only [hl, hp, h3, Bool.false_eq_true, if_false, Bool.true_and]
  cases hr : reparses m with
  | false =>
    simp only [Bool.not_false, if_true, true_iff]
    intro e; rw [(reparses_iff m).mpr e] at hr; cases hr
  | true =>
    simp only [Bool.not_true, Bool.false_eq_true, if_false]
    have := (reparses_iff m).mp hr
    constructor
    · intro e
      cases h4 : lookup s.tmap (line m) with
      | some td => rw [h4] at e; cases e
      | none => rw [h4] at e; cases create <;> cases e
    · intro e; exact absurd this e

/-- every Safe set — and every set of the larger class `safeW` — passes the guard: the repair refuses nothing the
`_partial` theorems cover -/
theorem safeW_reparses (m : Map) (hwf : Map.WF m) (hs : safeW m = true) : reparses m = true :=
  (reparses_iff m).mpr (Logrange.Proofs.TagsTight.roundtrip_weak quoteContract m hwf hs)

/-- persisted keys with the guard: load ∘ save rebuilds the same map, no `Safe` hypothesis -/
theorem guarded_load_save (s : St) (h : RInv s) : loadEntries (saveState s) = some s.tmap :=
  loadEntries_map s.tmap h.2

end Logrange.Proofs.TIndexGuard
