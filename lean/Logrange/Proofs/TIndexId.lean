import Logrange.Model.TIndexId
import Logrange.Proofs.Tags
import Logrange.Proofs.TagsEval
/-!
# Partition identity (`getOrCreateJournal`) and selection (`Visit`) over the in-memory tag index
-/
namespace Logrange.Proofs.TIndexId
open Go Logrange.KV Logrange.Tags Logrange.TagsEval Logrange.TIndexId Logrange.Proofs.KV Logrange.Proofs.Tags

/-! ## look-up -/

theorem lookup_none {tm : List (Bytes × Desc)} {k : Bytes} (h : lookup tm k = none) :
    ∀ e ∈ tm, e.1 ≠ k := by
  unfold lookup at h
  simp only [Option.map_eq_none_iff, List.find?_eq_none] at h
  intro e he
  simpa using h e he

theorem lookup_some {tm : List (Bytes × Desc)} {k : Bytes} {d : Desc} (h : lookup tm k = some d) :
    ∃ e ∈ tm, e.1 = k ∧ e.2 = d := by
  unfold lookup at h
  cases hf : tm.find? (fun e => e.1 = k) with
  | none => rw [hf] at h; cases h
  | some e =>
    rw [hf] at h
    refine ⟨e, List.mem_of_find?_eq_some hf, ?_, ?_⟩
    · simpa using List.find?_some hf
    · simpa using h

theorem eq_of_nodup_map {α β : Type} (f : α → β) : ∀ (l : List α), (l.map f).Nodup →
    ∀ a ∈ l, ∀ b ∈ l, f a = f b → a = b := by
  intro l
  induction l with
  | nil => intro _ a ha; cases ha
  | cons x r ih =>
    intro hn a ha b hb hab
    rw [List.map_cons, List.nodup_cons] at hn
    rcases List.mem_cons.mp ha with ha' | ha' <;> rcases List.mem_cons.mp hb with hb' | hb'
    · rw [ha', hb']
    · rw [ha'] at hab
      exact absurd (hab ▸ List.mem_map_of_mem hb') hn.1
    · rw [hb'] at hab
      exact absurd (hab ▸ List.mem_map_of_mem ha') hn.1
    · exact ih hn.2 a ha' b hb' hab

/-- the only state change of `getOrCreateJournal` is the creation of the descriptor of a new set -/
theorem getOrCreate_cases (s : St) (raw : Bytes) (create : Bool) :
    (getOrCreate s raw create).1 = s ∨
    ∃ tgs, parse raw = some tgs ∧ tgs ≠ [] ∧ lookup s.tmap raw = none ∧ lookup s.tmap (line tgs) = none ∧
      getOrCreate s raw create =
        ({ tmap := (line tgs, ⟨s.next, tgs⟩) :: s.tmap, next := s.next + 1 }, .ok s.next) := by
  cases h1 : lookup s.tmap raw with
  | some td => left; unfold getOrCreate; rw [h1]
  | none =>
    cases h2 : parse raw with
    | none => left; unfold getOrCreate; simp only [h1, h2]
    | some tgs =>
      by_cases h3 : tgs.isEmpty = true
      · left; unfold getOrCreate; simp only [h1, h2, h3, if_true]
      · cases h4 : lookup s.tmap (line tgs) with
        | some td2 =>
          left; unfold getOrCreate; simp only [h1, h2, h3, h4, Bool.false_eq_true, if_false]
        | none =>
          cases create with
          | false =>
            left; unfold getOrCreate
            simp only [h1, h2, h3, h4, Bool.false_eq_true, if_false, Bool.not_false, if_true]
          | true =>
            right
            refine ⟨tgs, rfl, ?_, rfl, h4, ?_⟩
            · intro e; rw [e] at h3; exact h3 rfl
            · unfold getOrCreate
              simp only [h1, h2, h3, h4, Bool.false_eq_true, if_false, Bool.not_true]

/-! ## the invariant -/

/-- every key is the canonical line of its descriptor's non-empty well-formed set, keys are distinct (a map),
ids are distinct and below `next` -/
def TInv (s : St) : Prop :=
  (∀ e ∈ s.tmap, e.1 = line e.2.tags ∧ Map.WF e.2.tags ∧ e.2.tags ≠ [] ∧ e.2.src < s.next) ∧
  (s.tmap.map (·.1)).Nodup ∧ (s.tmap.map (·.2.src)).Nodup

theorem tinv_init : TInv {} := by
  refine ⟨?_, ?_, ?_⟩
  · intro e he; cases he
  · exact List.Pairwise.nil
  · exact List.Pairwise.nil

theorem tinv_step (s : St) (raw : Bytes) (create : Bool) (h : TInv s) : TInv (getOrCreate s raw create).1 := by
  rcases getOrCreate_cases s raw create with e | ⟨tgs, hp, hne, _, hl, e⟩
  · rw [e]; exact h
  · rw [e]
    obtain ⟨h1, h2, h3⟩ := h
    refine ⟨?_, ?_, ?_⟩
    · intro x hx
      rcases List.mem_cons.mp hx with hx | hx
      · subst hx
        exact ⟨rfl, parse_WF raw tgs hp, hne, Nat.lt_succ_self _⟩
      · obtain ⟨a, b, c, d⟩ := h1 x hx
        exact ⟨a, b, c, Nat.lt_succ_of_lt d⟩
    · simp only [List.map_cons, List.nodup_cons]
      refine ⟨?_, h2⟩
      intro hm
      obtain ⟨x, hx, hxe⟩ := List.mem_map.mp hm
      exact lookup_none hl x hx hxe
    · simp only [List.map_cons, List.nodup_cons]
      refine ⟨?_, h3⟩
      intro hm
      obtain ⟨x, hx, hxe⟩ := List.mem_map.mp hm
      have := (h1 x hx).2.2.2
      have hxe' : x.2.src = s.next := hxe
      omega

theorem tinv_run (s : St) (ops : List (Bytes × Bool)) (h : TInv s) : TInv (run s ops) := by
  induction ops generalizing s with
  | nil => exact h
  | cons op ops ih =>
    obtain ⟨raw, create⟩ := op
    simp only [run]
    exact ih _ (tinv_step s raw create h)

/-- all stored sets are in the Safe class -/
def SafeSt (s : St) : Prop := ∀ e ∈ s.tmap, safe e.2.tags = true

theorem safeSt_step (s : St) (raw : Bytes) (create : Bool) (h : SafeSt s)
    (hr : ∀ m, parse raw = some m → safe m = true) : SafeSt (getOrCreate s raw create).1 := by
  rcases getOrCreate_cases s raw create with e | ⟨tgs, hp, _, _, _, e⟩
  · rw [e]; exact h
  · rw [e]
    intro x hx
    rcases List.mem_cons.mp hx with hx | hx
    · subst hx; exact hr tgs hp
    · exact h x hx

/-! ## identity: one descriptor per tag set -/

/-- a stored entry whose tags are `m` is the entry under the key `line m` -/
theorem entry_unique (s : St) (hinv : TInv s) (e1 e2 : Bytes × Desc) (h1 : e1 ∈ s.tmap) (h2 : e2 ∈ s.tmap)
    (h : e1.2.tags = e2.2.tags) : e1 = e2 := by
  apply eq_of_nodup_map (·.1) s.tmap hinv.2.1 e1 h1 e2 h2
  show e1.1 = e2.1
  rw [(hinv.1 e1 h1).1, (hinv.1 e2 h2).1, h]

theorem getOrCreate_spec (hq : QuoteContract) (s : St) (hinv : TInv s) (hsafe : SafeSt s) (t : Bytes) (m : Map)
    (hp : parse t = some m) (hne : m ≠ []) (hs : safe m = true) :
    ∃ i, (getOrCreate s t true).2 = .ok i ∧
      (∃ e ∈ (getOrCreate s t true).1.tmap, e.2.src = i ∧ e.2.tags = m) ∧
      (∀ e ∈ s.tmap, e.2.tags = m → e.2.src = i) ∧ (∀ e ∈ s.tmap, e ∈ (getOrCreate s t true).1.tmap) := by
  have hwf : Map.WF m := parse_WF t m hp
  have hnE : m.isEmpty = false := by cases m with | nil => exact absurd rfl hne | cons _ _ => rfl
  cases h1 : lookup s.tmap t with
  | some td =>
    -- the raw text is a stored canonical line: it re-reads as the stored set
    obtain ⟨e, he, hek, hed⟩ := lookup_some h1
    obtain ⟨hk, hw, _, _⟩ := hinv.1 e he
    have hrt := roundtrip_core hq e.2.tags hw (hsafe e he)
    rw [← hk, hek, hp] at hrt
    have hm : e.2.tags = m := (Option.some.inj hrt).symm
    have hg : getOrCreate s t true = (s, .ok td.src) := by unfold getOrCreate; rw [h1]
    rw [hg]
    refine ⟨td.src, rfl, ⟨e, he, by rw [hed], hm⟩, ?_, fun x hx => hx⟩
    intro x hx hxm
    have := entry_unique s hinv x e hx he (by rw [hxm, hm])
    rw [this, hed]
  | none =>
    cases h2 : lookup s.tmap (line m) with
    | some td2 =>
      obtain ⟨e, he, hek, hed⟩ := lookup_some h2
      obtain ⟨hk, hw, _, _⟩ := hinv.1 e he
      have hm : e.2.tags = m :=
        line_injective hq e.2.tags m hw hwf (hsafe e he) hs (by rw [← hk, hek])
      have hg : getOrCreate s t true = (s, .ok td2.src) := by
        unfold getOrCreate; simp only [h1, hp, hnE, h2, Bool.false_eq_true, if_false]
      rw [hg]
      refine ⟨td2.src, rfl, ⟨e, he, by rw [hed], hm⟩, ?_, fun x hx => hx⟩
      intro x hx hxm
      have := entry_unique s hinv x e hx he (by rw [hxm, hm])
      rw [this, hed]
    | none =>
      have hg : getOrCreate s t true =
          ({ tmap := (line m, ⟨s.next, m⟩) :: s.tmap, next := s.next + 1 }, .ok s.next) := by
        unfold getOrCreate
        simp only [h1, hp, hnE, h2, Bool.false_eq_true, if_false, Bool.not_true]
      rw [hg]
      refine ⟨s.next, rfl, ⟨_, List.mem_cons_self, rfl, rfl⟩, ?_, fun x hx => List.mem_cons_of_mem _ hx⟩
      intro x hx hxm
      have hk := (hinv.1 x hx).1
      rw [hxm] at hk
      exact absurd hk (lookup_none h2 x hx)

/-- **Two tag texts denote the same partition iff they denote the same tag set** (on the Safe class) -/
theorem same_partition_iff (hq : QuoteContract) (s : St) (hinv : TInv s) (hsafe : SafeSt s) (t1 t2 : Bytes)
    (m1 m2 : Map) (hp1 : parse t1 = some m1) (hp2 : parse t2 = some m2) (hne1 : m1 ≠ []) (hne2 : m2 ≠ [])
    (hs1 : safe m1 = true) (hs2 : safe m2 = true) :
    ∃ i j, (getOrCreate s t1 true).2 = .ok i ∧
      (getOrCreate (getOrCreate s t1 true).1 t2 true).2 = .ok j ∧ (i = j ↔ m1 = m2) := by
  obtain ⟨i, hi, ⟨e1, he1, he1s, he1t⟩, _, _⟩ := getOrCreate_spec hq s hinv hsafe t1 m1 hp1 hne1 hs1
  have hinv1 := tinv_step s t1 true hinv
  have hsafe1 := safeSt_step s t1 true hsafe (fun m hm => by rw [hp1] at hm; cases hm; exact hs1)
  obtain ⟨j, hj, ⟨e2, he2, he2s, he2t⟩, huniq, hmono⟩ :=
    getOrCreate_spec hq (getOrCreate s t1 true).1 hinv1 hsafe1 t2 m2 hp2 hne2 hs2
  have hinv2 := tinv_step (getOrCreate s t1 true).1 t2 true hinv1
  refine ⟨i, j, hi, hj, ?_, ?_⟩
  · intro hij
    have := eq_of_nodup_map (·.2.src) _ hinv2.2.2 e1 (hmono e1 he1) e2 he2 (by show e1.2.src = e2.2.src; rw [he1s, he2s, hij])
    rw [← he1t, ← he2t, this]
  · intro hm
    rw [← he1s]
    exact huniq e1 he1 (by rw [he1t, hm])

/-! ## selection -/

theorem from_empty (so : StrOps) (s : St) : visit so s .none = some (s.tmap.map (·.2)) := by
  simp [visit, buildSource]

theorem from_tags (so : StrOps) (s : St) (t : Map) :
    visit so s (.tags t) =
      some ((s.tmap.map (·.2)).filter (fun d => t.all (fun p => d.tags.get? p.1 == some p.2))) := by
  simp [visit, buildSource, subsetOf, mapSubset]

theorem from_expr (so : StrOps) (s : St) (e : OrList) :
    (∀ f, buildOr so e = some f →
      visit so s (.expr e) = some ((s.tmap.map (·.2)).filter (fun d => orRef so e d.tags == some true))) ∧
    (buildOr so e = none → visit so s (.expr e) = none) := by
  refine ⟨?_, ?_⟩
  · intro f h
    have : (fun d : Desc => orRef so e d.tags == some true) = (fun d => f d.tags) := by
      funext d
      rw [Logrange.Proofs.TagsEval.buildOr_some so e f h d.tags]
      simp
    rw [this]
    simp [visit, buildSource, h]
  · intro h
    simp [visit, buildSource, h]

end Logrange.Proofs.TIndexId
