import Logrange.Model.Fields
/-! Lemmas about the field encoding: `Fields.Value` on a well-formed encoding is the first-match look-up. -/
namespace Logrange.Fields

theorem decode_length (fuel : Nat) : ∀ (f : Bytes) (ps : List (Bytes × Bytes)),
    decode fuel f = some ps → 2 * ps.length ≤ f.length := by
  induction fuel with
  | zero => intro f ps h; simp [decode] at h
  | succ k ih =>
    intro f ps h
    cases f with
    | nil => simp [decode] at h; subst h; simp
    | cons n rest =>
      simp only [decode] at h
      split at h
      · cases h
      · rename_i hlen
        split at h
        · cases h
        · rename_i m r2 hd
          split at h
          · cases h
          · rename_i hlen2
            cases hrec : decode k (r2.drop m.toNat) with
            | none => simp [hrec] at h
            | some ps' =>
              simp [hrec] at h
              subst h
              have h1 := ih _ _ hrec
              have h2 : (rest.drop n.toNat).length = (m :: r2).length := by rw [hd]
              simp only [List.length_drop, List.length_cons] at h1 h2 ⊢
              omega

/-- `valueGo` on a decodable encoding: the value of the first pair with that name, or empty -/
theorem valueGo_decode (name : Bytes) (fuel : Nat) : ∀ (f : Bytes) (ps : List (Bytes × Bytes)),
    decode fuel f = some ps → ∀ fv, 2 * ps.length + 1 ≤ fv →
    valueGo name fv f true = some ((firstValue ps name).getD []) := by
  induction fuel with
  | zero => intro f ps h; simp [decode] at h
  | succ k ih =>
    intro f ps h fv hfv
    cases f with
    | nil =>
      simp [decode] at h; subst h
      cases fv <;> simp [valueGo, firstValue]
    | cons n rest =>
      simp only [decode] at h
      split at h
      · cases h
      · rename_i hlen
        split at h
        · cases h
        · rename_i m r2 hd
          split at h
          · cases h
          · rename_i hlen2
            cases hrec : decode k (r2.drop m.toNat) with
            | none => simp [hrec] at h
            | some ps' =>
              simp [hrec] at h
              subst h
              -- two items are consumed: fv = fv'' + 2
              obtain ⟨fv2, rfl⟩ : ∃ fv2, fv = fv2 + 2 := ⟨fv - 2, by simp at hfv; omega⟩
              have hfv2 : 2 * ps'.length + 1 ≤ fv2 := by simp at hfv; omega
              have hrecv := ih _ _ hrec fv2 hfv2
              have skip : valueGo name (fv2 + 1) (rest.drop n.toNat) false
                  = some ((firstValue ps' name).getD []) := by
                rw [hd]; simp only [valueGo, Bool.false_and, Bool.false_eq_true, if_false, Bool.not_false]
                exact hrecv
              have htl : (rest.take n.toNat).length = n.toNat := by
                simp only [List.length_take]; omega
              by_cases hn : n.toNat = name.length
              · by_cases hk : rest.take n.toNat = name
                · rw [hn] at hk hd hlen
                  simp [valueGo, hn, hk, hd, firstValue, hlen2]
                  omega
                · have hk' : (rest.take n.toNat == name) = false := by simpa using hk
                  have : ¬ rest.length < name.length := by omega
                  simp only [valueGo, hn, beq_self_eq_true, Bool.and_self, if_true, this, if_false]
                  rw [← hn]
                  simp only [hk, if_false, Bool.not_true]
                  rw [skip]
                  simp [firstValue, hk']
              · have hk : (rest.take n.toNat == name) = false := by
                  apply beq_false_of_ne
                  intro e; rw [e] at htl; exact hn htl.symm
                have hn' : (n.toNat == name.length) = false := by simpa using hn
                simp only [valueGo, hn', Bool.and_false, Bool.false_eq_true, if_false, Bool.not_true]
                rw [skip]
                simp [firstValue, hk]

/-- **`Fields.Value` on a well-formed encoding** never panics and returns the value of the first field with that
name, or the empty string when there is none. -/
theorem valueP_wf (f name : Bytes) (ps : List (Bytes × Bytes)) (h : pairs? f = some ps) :
    valueP f name = some ((firstValue ps name).getD []) := by
  unfold valueP
  unfold pairs? at h
  exact valueGo_decode name _ f ps h _ (by have := decode_length _ f ps h; omega)

theorem value_wf (f name : Bytes) (h : WF f) : value f name = (firstValue (pairs f) name).getD [] := by
  obtain ⟨ps, hp⟩ := h
  simp [value, pairs, hp, valueP_wf f name ps hp]

end Logrange.Fields
