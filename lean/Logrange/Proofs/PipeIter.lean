import Logrange.Proofs.PipeScan
import Logrange.Proofs.PipeHist
/-! C02 — the stateful iterator of the pipeline model (`RangedIter.scan`) on the states of the history model: `PipeScan.scan_eq_absScan`
composed with `PipeHist.run_read_eq_filter`. -/
namespace Logrange.PipeHist
open Logrange

theorem fresh_toSt (p : PSt) (rmin rmax : Int) : PipeScan.Fresh (toSt p rmin rmax) := by
  refine ⟨rfl, rfl, rfl, rfl, rfl, rfl, rfl, ?_, by simp [toSt, journal]⟩
  intro i h
  have h' : i < (journal p.tss).length := by simpa [toSt] using h
  show ((journal p.tss).toArray[i]'(by simpa using h')).id = 10 * (i + 1)
  simp [journal]; omega

theorem total_toSt (p : PSt) (rmin rmax : Int) : PipeScan.total (toSt p rmin rmax) = (p.tss.map (·.length)).sum := by
  unfold PipeScan.total toSt journal
  simp only [List.map_map]
  congr 1
  apply List.ext_getElem
  · simp
  · intro i h1 h2
    simp at h1
    simp [h1]

/-- **the stateful iterator of the pipeline model on a history state**: what `RangedIter.scan` (fresh cursor, no paging, enough
fuel) delivers is the filter of the unbounded read, positions as (journal chunk id, index) -/
theorem run_scan_eq_filter (evs : List Ev) (hs : (allTs evs).Pairwise (· ≤ ·))
    (hb : ∀ t ∈ allTs evs, Points.minI64 ≤ t ∧ t ≤ RebuildHist.maxI64) (hok : HistOK {} evs)
    (hsmall : ∀ l ∈ (run evs).tss, l.length ≤ 4294967295) (rmin rmax : Int) (fuel : Nat)
    (hfuel : ((run evs).tss.map (·.length)).sum + 2 ≤ fuel) :
    (RangedIter.scan (toSt (run evs) rmin rmax) 0 fuel).2.toList =
      ((fullRead (run evs).tss 0).filter (fun kq => decide (rmin ≤ tsAt (run evs).tss kq ∧ tsAt (run evs).tss kq ≤ rmax))).map
        (fun kp => (10 * (kp.1 + 1), kp.2)) := by
  rw [PipeScan.scan_eq_absScan _ (fresh_toSt _ _ _) fuel (by rw [total_toSt]; exact hfuel)]
  have := (run_read_eq_filter evs hs hb hok hsmall rmin rmax).1
  unfold read at this
  rw [this]
end Logrange.PipeHist
