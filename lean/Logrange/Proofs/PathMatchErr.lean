import Logrange.Proofs.PathMatch
/-!
`ErrBadPattern` does not depend on the name — for **every** pattern (with `*`, classes, escapes, any bytes):
whether `path.Match` reports a malformed pattern is decided by the pattern alone (`validateRest`, the algorithm's own
syntax check of all chunks). Hence a LIKE pattern accepted by the builder's pre-test on the probe name is evaluable on
every subject.
-/
namespace Logrange.PathSpec
open Logrange.PathMatch

/-! ## the class loop: what it leaves of the chunk (and whether it fails) does not depend on the rune -/

theorem classLoop_rest_indep : ∀ (f : Nat) (body : Bytes) (r r' : Nat) (h h' : Bool) (k : Nat) (m m' : Bool),
    (classLoop f body r h k m).map (·.2) = (classLoop f body r' h' k m').map (·.2) := by
  intro f
  induction f with
  | zero => intros; rfl
  | succ f ih =>
    intro body r r' h h' k m m'
    cases body with
    | nil => rfl
    | cons c rest =>
      simp only [classLoop]
      by_cases hc : (c == RBR && decide (k > 0)) = true
      · simp [hc]
      · simp only [hc, Bool.false_eq_true, if_false]
        cases getEsc (c :: rest) with
        | none => rfl
        | some lp =>
          obtain ⟨lo, ch1⟩ := lp
          simp only []
          cases ch1 with
          | nil => rfl
          | cons d ch2 =>
            simp only []
            by_cases hd : (d == DASH) = true
            · simp only [hd, if_true]
              cases getEsc ch2 with
              | none => rfl
              | some hp => obtain ⟨hi, ch3⟩ := hp; exact ih _ _ _ _ _ _ _ _
            · simp only [hd, Bool.false_eq_true, if_false]; exact ih _ _ _ _ _ _ _ _

/-! ## one chunk: `ErrBadPattern` does not depend on the name or on the `failed` flag -/

theorem afterCls_isSome (mf : Nat) (s s' : Bytes) (f f' neg : Bool) (R R' : Option (Bool × Bytes))
    (hR : R.map (·.2) = R'.map (·.2))
    (ih : ∀ (c s s' : Bytes) (fl fl' : Bool), (matchChunk mf c s fl).isSome = (matchChunk mf c s' fl').isSome) :
    (afterCls mf s f neg R).isSome = (afterCls mf s' f' neg R').isSome := by
  cases R with
  | none => cases R' with
    | none => rfl
    | some x => simp at hR
  | some x => cases R' with
    | none => simp at hR
    | some y =>
      obtain ⟨m, q⟩ := x; obtain ⟨m', q'⟩ := y
      simp only [Option.map_some, Option.some.injEq] at hR
      subst hR
      simp only [afterCls]; exact ih _ _ _ _ _

theorem matchChunk_isSome_indep : ∀ (f : Nat) (c s s' : Bytes) (fl fl' : Bool),
    (matchChunk f c s fl).isSome = (matchChunk f c s' fl').isSome := by
  intro f
  induction f with
  | zero => intros; rfl
  | succ f ih =>
    intro c s s' fl fl'
    -- it suffices to compare every call with the canonical one on the empty name after a failure
    suffices key : ∀ (s : Bytes) (fl : Bool), (matchChunk (f+1) c s fl).isSome = (matchChunk (f+1) c [] true).isSome by
      rw [key s fl, key s' fl']
    intro s fl
    cases c with
    | nil => cases fl <;> simp [matchChunk]
    | cons x rest =>
      by_cases hq : x = QM
      · subst hq
        cases fl with
        | true => rw [mc_qm_t, mc_qm_t]; exact ih _ _ _ _ _
        | false => cases s with
          | nil => rw [mc_qm_nil, mc_qm_t]
          | cons y t => rw [mc_qm_cons, mc_qm_t]; exact ih _ _ _ _ _
      by_cases hb : x = BS
      · subst hb
        cases rest with
        | nil => rw [mc_bs_end, mc_bs_end]
        | cons z rest' =>
          cases fl with
          | true => rw [mc_bs_t, mc_bs_t]; exact ih _ _ _ _ _
          | false => cases s with
            | nil => rw [mc_bs_nil, mc_bs_t]
            | cons y t => rw [mc_bs_cons, mc_bs_t]; exact ih _ _ _ _ _
      by_cases hl : x = LBR
      · subst hl
        cases fl with
        | true =>
          rw [mc_cls_t, mc_cls_t]
          exact afterCls_isSome f _ _ _ _ _ _ _ rfl ih
        | false => cases s with
          | nil => rw [mc_cls_nil, mc_cls_t]
          | cons y t =>
            rw [mc_cls_cons, mc_cls_t]
            exact afterCls_isSome f _ _ _ _ _ _ _ (classLoop_rest_indep _ _ _ _ _ _ _ _ _) ih
      · have h1 : (x == LBR) = false := by simpa using hl
        have h2 : (x == QM) = false := by simpa using hq
        have h3 : (x == BS) = false := by simpa using hb
        cases fl with
        | true => rw [mc_lit_t _ _ _ _ h1 h2 h3, mc_lit_t _ _ _ _ h1 h2 h3]; exact ih _ _ _ _ _
        | false => cases s with
          | nil => rw [mc_lit_nil _ _ _ h1 h2 h3, mc_lit_t _ _ _ _ h1 h2 h3]
          | cons y t => rw [mc_lit_cons _ _ _ _ _ h1 h2 h3, mc_lit_t _ _ _ _ h1 h2 h3]; exact ih _ _ _ _ _

theorem mc_isSome_indep (chunk s s' : Bytes) : (mc chunk s).isSome = (mc chunk s').isSome :=
  matchChunk_isSome_indep _ _ _ _ _ _

/-! ## `scanChunk` makes progress -/

theorem scanLoop_ge : ∀ (f : Nat) (r : Bytes) (i : Nat) (inr : Bool), i ≤ scanLoop f r i inr := by
  intro f
  induction f with
  | zero => intros; simp [scanLoop]
  | succ f ih =>
    intro r i inr
    cases r with
    | nil => simp [scanLoop]
    | cons c r' =>
      simp only [scanLoop]
      split
      · cases r' with
        | nil => simp
        | cons x r'' => exact Nat.le_trans (by omega) (ih r'' (i + 2) inr)
      · split
        · exact Nat.le_trans (by omega) (ih r' (i + 1) true)
        · split
          · exact Nat.le_trans (by omega) (ih r' (i + 1) false)
          · split
            · exact Nat.le_refl _
            · exact Nat.le_trans (by omega) (ih r' (i + 1) inr)

theorem scanLoop_pos (f : Nat) (c : UInt8) (r : Bytes) (hc : (c == STAR) = false) : 1 ≤ scanLoop (f+1) (c :: r) 0 false := by
  simp only [scanLoop, hc, Bool.false_and]
  split
  · cases r with
    | nil => simp
    | cons x r'' => exact Nat.le_trans (by omega) (scanLoop_ge f r'' (0 + 2) false)
  · split
    · exact scanLoop_ge f r (0 + 1) true
    · split
      · exact scanLoop_ge f r (0 + 1) false
      · simp only [Bool.false_eq_true, if_false]; exact scanLoop_ge f r (0 + 1) false

theorem drop_takeWhile_head (q : UInt8 → Bool) : ∀ (p : Bytes) (c : UInt8) (r : Bytes),
    p.drop (p.takeWhile q).length = c :: r → q c = false := by
  intro p
  induction p with
  | nil => intro c r h; simp at h
  | cons x t ih =>
    intro c r h
    by_cases hx : q x = true
    · simp only [List.takeWhile_cons, hx, if_true, List.length_cons, List.drop_succ_cons] at h
      exact ih c r h
    · simp only [List.takeWhile_cons, hx, Bool.false_eq_true, if_false, List.length_nil, List.drop_zero, List.cons.injEq] at h
      rw [← h.1]; simpa using hx

/-- for a non-empty pattern: the rest is shorter, and an empty chunk means nothing is left -/
theorem scanChunk_facts (p : Bytes) (hp : p ≠ []) (star : Bool) (chunk rest : Bytes) (h : scanChunk p = (star, chunk, rest)) :
    rest.length < p.length ∧ (chunk.isEmpty = true → rest = [] ∧ star = true) := by
  simp only [scanChunk, Prod.mk.injEq] at h
  obtain ⟨hs, hc, hr⟩ := h
  generalize hst : (p.takeWhile (· == STAR)).length = stars at hs hc hr
  have hsl : stars ≤ p.length := by rw [← hst]; exact (List.takeWhile_prefix _).length_le
  cases hp' : p.drop stars with
  | nil =>
    rw [hp'] at hc hr
    simp only [List.length_nil, List.take_nil, List.drop_nil] at hc hr
    subst hc; subst hr
    have : 0 < p.length := List.length_pos_iff.mpr hp
    have hge : p.length ≤ stars := by
      have := congrArg List.length hp'
      simp only [List.length_drop, List.length_nil] at this; omega
    refine ⟨by simpa using this, fun _ => ⟨rfl, ?_⟩⟩
    rw [← hs]; simp; omega
  | cons c r =>
    rw [hp'] at hc hr
    have hcs : (c == STAR) = false := by
      have := drop_takeWhile_head (· == STAR) p c r (by rw [hst]; exact hp')
      simpa using this
    have hpos := scanLoop_pos (c :: r).length c r hcs
    have hlen : (c :: r).length = p.length - stars := by
      have := congrArg List.length hp'; simp only [List.length_drop] at this; omega
    subst hr; subst hc
    have h1 : 1 ≤ (c :: r).length := by simp
    refine ⟨?_, ?_⟩
    · simp only [List.length_drop]; omega
    · intro he
      simp only [List.isEmpty_iff, List.take_eq_nil_iff] at he
      rcases he with he | he
      · omega
      · cases he

/-! ## the syntax check does not depend on its fuel -/

theorem validateRest_fuel : ∀ (k k' : Nat) (p : Bytes), p.length < k → p.length < k' → validateRest k p = validateRest k' p := by
  intro k
  induction k with
  | zero => intro k' p h; omega
  | succ k ih =>
    intro k' p h h'
    obtain ⟨k2, rfl⟩ : ∃ k2, k' = k2 + 1 := ⟨k' - 1, by omega⟩
    simp only [validateRest]
    by_cases hp : p.isEmpty = true
    · simp [hp]
    · simp only [hp, Bool.false_eq_true, if_false]
      rcases hsc : scanChunk p with ⟨star, chunk, rest⟩
      simp only []
      cases mc chunk [] with
      | none => rfl
      | some x =>
        simp only []
        by_cases hl : rest.length < p.length
        · simp only [hl, if_true]; exact ih k2 rest (by omega) (by omega)
        · simp [hl]

theorem starLoop_isSome (chunk : Bytes) (hc : ∀ s, (mc chunk s).isSome = true) :
    ∀ (f : Nat) (n : Bytes) (b : Bool), (starLoop f chunk n b).isSome = true := by
  intro f
  induction f with
  | zero => intros; rfl
  | succ f ih =>
    intro n b
    cases n with
    | nil => rfl
    | cons c rest =>
      simp only [starLoop]
      split
      · rfl
      · have := hc rest
        cases hm : mc chunk rest with
        | none => rw [hm] at this; cases this
        | some tb =>
          obtain ⟨t, ok⟩ := tb
          cases ok with
          | true => simp only []; split; exact ih _ _; rfl
          | false => exact ih _ _

/-- **whether `path.Match` reports `ErrBadPattern` is decided by the pattern alone** -/
theorem matchGo_isSome : ∀ (f : Nat) (p n : Bytes), p.length < f →
    (matchGo f p n).isSome = validateRest (p.length + 1) p := by
  intro f
  induction f with
  | zero => intro p n h; omega
  | succ f ih =>
    intro p n hf
    simp only [matchGo, validateRest]
    by_cases hp : p.isEmpty = true
    · simp [hp]
    · simp only [hp, Bool.false_eq_true, if_false]
      have hpne : p ≠ [] := by simpa using hp
      rcases hsc : scanChunk p with ⟨star, chunk, rest⟩
      obtain ⟨hlt, hemp⟩ := scanChunk_facts p hpne star chunk rest hsc
      simp only []
      have hvr : ∀ k, rest.length < k → validateRest k rest = validateRest (rest.length + 1) rest :=
        fun k hk => validateRest_fuel k _ rest hk (by omega)
      by_cases hse : (star && chunk.isEmpty) = true
      · simp only [hse, if_true, Option.isSome_some]
        simp only [Bool.and_eq_true] at hse
        obtain ⟨hr, _⟩ := hemp hse.2
        have hce : chunk = [] := by simpa using hse.2
        subst hr; subst hce
        have hv : validateRest p.length [] = true := by
          cases hk : p.length with
          | zero => simp at hlt; omega
          | succ k => simp [validateRest]
        simp [mc, matchChunk, hv]
      · simp only [hse, Bool.false_eq_true, if_false]
        have hind := mc_isSome_indep chunk n []
        cases hm0 : mc chunk [] with
        | none =>
          rw [hm0] at hind
          cases hmn : mc chunk n with
          | none => rfl
          | some x => rw [hmn] at hind; cases hind
        | some x0 =>
          have hall : ∀ s, (mc chunk s).isSome = true := by
            intro s; rw [mc_isSome_indep chunk s [], hm0]; rfl
          simp only [hlt, if_true]
          rw [hvr p.length (by omega)]
          cases hmn : mc chunk n with
          | none => have := hall n; rw [hmn] at this; cases this
          | some tb =>
            obtain ⟨t, ok⟩ := tb
            simp only []
            have hrec : ∀ t', (matchGo f rest t').isSome = validateRest (rest.length + 1) rest :=
              fun t' => ih rest t' (by omega)
            have hfin : (if validateRest (rest.length + 1) rest = true then some false else none : Option Bool).isSome
                = validateRest (rest.length + 1) rest := by
              cases validateRest (rest.length + 1) rest <;> rfl
            split
            · exact hrec t
            · split
              · have hsl := starLoop_isSome chunk hall (n.length + 1) n rest.isEmpty
                cases hst : starLoop (n.length + 1) chunk n rest.isEmpty with
                | none => rw [hst] at hsl; cases hsl
                | some o =>
                  cases o with
                  | some t' => exact hrec t'
                  | none => exact hfin
              · exact hfin

theorem pathMatch_isSome (p n : Bytes) : (pathMatch p n).isSome = validateRest (p.length + 1) p :=
  matchGo_isSome _ p n (by omega)

end Logrange.PathSpec
