import Logrange.Proofs.MixerPos
/-!
# The in-memory leaf meets the position contract (`LawfulSourcePos Leaf`)

`pview l` is read off a twin leaf whose records carry their own index as payload: its stream laws are those of `LawfulSource Leaf`.
-/
namespace Logrange.Mixer
namespace Leaf

/-- the same leaf, every record's payload replaced by its index -/
def idxLeaf (l : Leaf) : Leaf := { l with les := (List.range l.les.length).map (fun i => ⟨0, i⟩) }

theorem idxLeaf_len (l : Leaf) : l.idxLeaf.les.length = l.les.length := by simp [idxLeaf]

theorem idxLeaf_clamp (l : Leaf) : l.idxLeaf.clamp = l.clamp := by
  simp [clamp, idxLeaf]

theorem idxLeaf_get (l : Leaf) : l.idxLeaf.get.1 = l.get.1.idxLeaf := by
  simp only [get_eq, idxLeaf_clamp]; rfl

theorem idxLeaf_next (l : Leaf) : l.idxLeaf.next = l.next.idxLeaf := by
  unfold next
  simp only [idxLeaf_len]
  have hb : l.idxLeaf.bkwd = l.bkwd := rfl
  have hi : l.idxLeaf.idx = l.idx := rfl
  rw [hb, hi]
  cases hbk : l.bkwd
  · simp only [Bool.false_eq_true, if_false]
    by_cases hc : l.idx < l.les.length <;> simp [hc, idxLeaf]
  · simp only [if_true]
    by_cases hc : l.idx ≥ 0 <;> simp [hc, idxLeaf]

theorem next_tags (l : Leaf) : l.next.tags = l.tags := by
  unfold next
  split <;> split <;> rfl

theorem idxLeaf_wf (l : Leaf) (h : l.wf) : l.idxLeaf.wf := by
  simpa [wf, idxLeaf] using h

theorem idxLeaf_settled (l : Leaf) (h : l.settled) : l.idxLeaf.settled := by
  simpa [settled, idxLeaf] using h

def pview (l : Leaf) : List (Int × Int) := l.idxLeaf.view.map (fun e => ((l.tags : Int), (e.msg : Int)))

theorem view_length_idx (l : Leaf) : l.idxLeaf.view.length = l.view.length := by
  simp [view, idxLeaf]
  split <;> simp

instance instLawfulLeafPos : LawfulSourcePos Leaf where
  pview := pview
  pview_length l _ := by
    show (pview l).length = l.view.length
    simp only [pview, List.length_map, view_length_idx]
  pos_get l h p hp := by
    show (((l.get).1.tags : Int), (l.get).1.idx) = p
    have G := get_spec l.idxLeaf (idxLeaf_wf l h)
    simp only [pview, List.head?_map] at hp
    rw [← G.1, get_eq, idxLeaf_clamp, idxLeaf_len] at hp
    simp only [get_eq]
    split at hp
    · rename_i hc
      simp only [idxLeaf, List.getElem?_map, List.getElem?_range, Option.map_map] at hp
      have hlt : l.clamp.toNat < l.les.length := by omega
      simp only [List.getElem?_range hlt, Option.map_some, Option.some.injEq] at hp
      rw [← hp]
      simp only [Function.comp, ev]
      congr 1
      omega
    · simp at hp
  pview_get l h := by
    show pview (l.get).1 = pview l
    simp only [pview]
    rw [← idxLeaf_get, (get_spec l.idxLeaf (idxLeaf_wf l h)).2.1]
    rfl
  pview_next l h hs := by
    show pview l.next = (pview l).tail
    simp only [pview]
    rw [next_tags, ← idxLeaf_next, (next_spec l.idxLeaf (idxLeaf_wf l h) (idxLeaf_settled l hs)).1, List.map_tail]
  pview_release l _ := ⟨rfl, rfl⟩

end Leaf
end Logrange.Mixer
