import Logrange.Model.PipeRead
import Logrange.Proofs.PartScan
/-! The stateful ranged iterator of the pipeline model (`RangedIter.scan`: `getStatus`/`rebuildStatuses`,
`getPosForward`, `ensure`, `advance`, `itGet`, `itNext`, `curGet`/`curNext`) delivers, for a fresh forward cursor without
paging, exactly the abstract scan `PipeRead.absScan`. -/
set_option linter.unusedSimpArgs false
set_option linter.unusedVariables false
namespace Logrange.PipeScan
open Logrange Selector

/-- a fresh cursor on a journal whose chunk ids are 10, 20, 30, … (dense ids × 10, as the pipeline model has them) -/
structure Fresh (s : RangedIter.St) : Prop where
  stats : s.stats = []
  ci : s.ci = none
  cst : s.cst = none
  cid : s.cid = 0
  idx : s.idx = 0
  fwd : s.bkwd = false
  fValid : s.fValid = false
  ids : ∀ i (h : i < s.cks.size), (s.cks[i]).id = 10 * (i + 1)
  tssSize : s.tss.size = s.cks.size

/-- number of records of the journal -/
def total (s : RangedIter.St) : Nat := (s.cks.toList.map (·.cnt)).sum

/-! ## 1. `syncChunks`, `updatePoss`, `rebuildStatuses` -/

theorem syncChunks_fields (s : RangedIter.St) :
    (RangedIter.syncChunks s).cks = s.cks ∧ (RangedIter.syncChunks s).tss = s.tss ∧
    (RangedIter.syncChunks s).rmin = s.rmin ∧ (RangedIter.syncChunks s).rmax = s.rmax ∧
    (RangedIter.syncChunks s).stats = s.stats ∧ (RangedIter.syncChunks s).bkwd = s.bkwd ∧
    (RangedIter.syncChunks s).cid = s.cid ∧ (RangedIter.syncChunks s).idx = s.idx ∧
    (RangedIter.syncChunks s).ci = s.ci ∧ (RangedIter.syncChunks s).cst = s.cst ∧
    (RangedIter.syncChunks s).fValid = s.fValid ∧ (RangedIter.syncChunks s).fLe = s.fLe := by
  have f1 : Generated.C02.syncChunksDropsStaleEntries = true := by decide
  unfold RangedIter.syncChunks
  simp only [f1, if_true]
  split <;> simp

theorem updatePossWith_count (rmin rmax hmin hmax : Int) (g l : Int → CIndex.Ans) (st : ChkSt) :
    (updatePossWith rmin rmax hmin hmax g l st).1.count = st.count := by
  unfold updatePossWith
  split
  · rfl
  · simp only []

theorem updatePoss_count (s : RangedIter.St) (cid : Nat) (st : ChkSt) :
    (RangedIter.updatePoss s cid st).1.count = st.count := by
  unfold RangedIter.updatePoss
  split
  · split <;> rfl
  · split
    · rfl
    · exact updatePossWith_count ..

/-- the status a rebuild gives a chunk -/
def stFn (s : RangedIter.St) (c : JChunk) : ChkSt :=
  (RangedIter.updatePoss (RangedIter.syncChunks s) c.id
    { ((((RangedIter.syncChunks s).stats.find? (·.1 == c.id)).map (·.2)).getD {}) with count := c.cnt }).1

theorem stFn_count (s : RangedIter.St) (c : JChunk) : (stFn s c).count = c.cnt := by
  unfold stFn
  rw [updatePoss_count]

theorem stats_fold (s : RangedIter.St) : ∀ (L : List JChunk) (acc : List (Nat × ChkSt) × Nat),
    (L.foldl (fun (acc : List (Nat × ChkSt) × Nat) c =>
      let old := ((s.stats.find? (·.1 == c.id)).map (·.2)).getD {}
      let (st, k) := RangedIter.updatePoss s c.id { old with count := c.cnt }
      (acc.1 ++ [(c.id, st)], acc.2 + k)) acc).1 =
    acc.1 ++ L.map (fun c => (c.id, (RangedIter.updatePoss s c.id
      { (((s.stats.find? (·.1 == c.id)).map (·.2)).getD {}) with count := c.cnt }).1)) := by
  intro L
  induction L with
  | nil => intro acc; simp
  | cons c r ih =>
    intro acc
    rw [List.foldl_cons, ih]
    simp

theorem rebuild_stats (s : RangedIter.St) :
    (RangedIter.rebuildStatuses s).stats = s.cks.toList.map (fun c => (c.id, stFn s c)) := by
  unfold RangedIter.rebuildStatuses
  simp only []
  rw [← Array.foldl_toList]
  have := stats_fold (RangedIter.syncChunks s) (RangedIter.syncChunks s).cks.toList ([], 0)
  simp only [List.nil_append] at this
  rw [this, (syncChunks_fields s).1]
  rfl

theorem rebuild_fields (s : RangedIter.St) :
    (RangedIter.rebuildStatuses s).cks = s.cks ∧ (RangedIter.rebuildStatuses s).tss = s.tss ∧
    (RangedIter.rebuildStatuses s).rmin = s.rmin ∧ (RangedIter.rebuildStatuses s).rmax = s.rmax ∧
    (RangedIter.rebuildStatuses s).bkwd = s.bkwd ∧
    (RangedIter.rebuildStatuses s).cid = s.cid ∧ (RangedIter.rebuildStatuses s).idx = s.idx ∧
    (RangedIter.rebuildStatuses s).ci = s.ci ∧ (RangedIter.rebuildStatuses s).cst = s.cst ∧
    (RangedIter.rebuildStatuses s).fValid = s.fValid ∧ (RangedIter.rebuildStatuses s).fLe = s.fLe := by
  have h := syncChunks_fields s
  unfold RangedIter.rebuildStatuses
  simp only []
  exact ⟨h.1, h.2.1, h.2.2.1, h.2.2.2.1, h.2.2.2.2.2.1, h.2.2.2.2.2.2.1, h.2.2.2.2.2.2.2.1, h.2.2.2.2.2.2.2.2.1,
    h.2.2.2.2.2.2.2.2.2.1, h.2.2.2.2.2.2.2.2.2.2.1, h.2.2.2.2.2.2.2.2.2.2.2⟩

/-! ## 2. states whose statuses exist -/

/-- status of the `k`-th chunk for a fresh selector on `s0` -/
def stOf (s0 : RangedIter.St) (k : Nat) : ChkSt := ((PipeRead.statuses s0)[k]?).getD {}

theorem statuses_eq (s0 : RangedIter.St) : PipeRead.statuses s0 = s0.cks.toList.map (stFn s0) := by
  unfold PipeRead.statuses
  rw [rebuild_stats, List.map_map]
  rfl

theorem statuses_length (s0 : RangedIter.St) : (PipeRead.statuses s0).length = s0.cks.size := by
  rw [statuses_eq]; simp

theorem stOf_eq (s0 : RangedIter.St) (k : Nat) (h : k < s0.cks.size) : stOf s0 k = stFn s0 (s0.cks[k]) := by
  unfold stOf
  rw [statuses_eq]
  simp [h]

theorem stOf_count (s0 : RangedIter.St) (k : Nat) (h : k < s0.cks.size) : (stOf s0 k).count = (s0.cks[k]).cnt := by
  rw [stOf_eq s0 k h, stFn_count]

theorem find_ids (g : JChunk → ChkSt) : ∀ (L : List JChunk) (off k : Nat),
    (∀ i (h : i < L.length), (L[i]).id = 10 * (off + i + 1)) → (h : k < L.length) →
    (L.map (fun c => (c.id, g c))).find? (·.1 == 10 * (off + k + 1)) = some (10 * (off + k + 1), g L[k]) := by
  intro L
  induction L with
  | nil => intro off k _ h; simp at h
  | cons c r ih =>
    intro off k hid h
    cases k with
    | zero =>
      have := hid 0 (by simp)
      simp at this
      simp [this]
    | succ k =>
      have h0 := hid 0 (by simp)
      simp at h0
      have hb : ((c.id, g c).fst == 10 * (off + (k + 1) + 1)) = false := by
        simp [h0]; omega
      rw [List.map_cons, List.find?_cons, hb]
      have := ih (off + 1) k (by
        intro i hi
        have := hid (i + 1) (by simp; omega)
        simp at this
        rw [this]; omega) (by simpa using h)
      have e : off + 1 + k + 1 = off + (k + 1) + 1 := by omega
      rw [e] at this
      simp only [List.getElem_cons_succ]
      exact this

/-- a state whose statuses exist (and that is otherwise the journal of `s0`) -/
structure Ready (s0 s : RangedIter.St) : Prop where
  cks : s.cks = s0.cks
  tss : s.tss = s0.tss
  rmin : s.rmin = s0.rmin
  rmax : s.rmax = s0.rmax
  stats : s.stats = (RangedIter.rebuildStatuses s0).stats
  bkwd : s.bkwd = false

theorem ready_rebuild {s0 : RangedIter.St} (hf : Fresh s0) : Ready s0 (RangedIter.rebuildStatuses s0) := by
  have h := rebuild_fields s0
  exact ⟨h.1, h.2.1, h.2.2.1, h.2.2.2.1, rfl, by rw [h.2.2.2.2.1]; exact hf.fwd⟩

theorem cntOfS_eq {s0 s : RangedIter.St} (hf : Fresh s0) (hc : s.cks = s0.cks) (k : Nat) (h : k < s0.cks.size) :
    RangedIter.cntOfS s (10 * (k + 1)) = (s0.cks[k]).cnt := by
  unfold RangedIter.cntOfS
  have e : 10 * (k + 1) / 10 - 1 = k := by omega
  rw [e, hc]
  simp [h, hf.ids k h]

theorem find_stat {s0 : RangedIter.St} (hf : Fresh s0) (k : Nat) (h : k < s0.cks.size) :
    (RangedIter.rebuildStatuses s0).stats.find? (·.1 == 10 * (k + 1)) = some (10 * (k + 1), stOf s0 k) := by
  rw [rebuild_stats, stOf_eq s0 k h]
  have := find_ids (stFn s0) s0.cks.toList 0 k (by
    intro i hi
    have := hf.ids i (by simpa using hi)
    simpa using this) (by simpa using h)
  simpa using this

theorem getStatus_ready {s0 s : RangedIter.St} (hf : Fresh s0) (hr : Ready s0 s) (k : Nat) (h : k < s0.cks.size) :
    RangedIter.getStatus s (10 * (k + 1)) = (s, stOf s0 k) := by
  unfold RangedIter.getStatus
  simp only [hr.stats, find_stat hf k h]
  have h1 : s.cks.size = (RangedIter.rebuildStatuses s0).stats.length := by
    rw [rebuild_stats, hr.cks]; simp
  have h2 : (stOf s0 k).count = RangedIter.cntOfS s (10 * (k + 1)) := by
    rw [cntOfS_eq hf hr.cks k h, stOf_count s0 k h]
  simp [h1, h2]

theorem getStatus_fresh {s0 : RangedIter.St} (hf : Fresh s0) (k : Nat) (h : k < s0.cks.size) :
    RangedIter.getStatus s0 (10 * (k + 1)) = (RangedIter.rebuildStatuses s0, stOf s0 k) := by
  unfold RangedIter.getStatus
  simp only [hf.stats, List.find?_nil, find_stat hf k h]
  rfl

/-! ## 3. the abstract side: what remains to be delivered -/

/-- positions of a chunk's window from `p` on -/
def win (st : ChkSt) (p : Nat) : List Nat := List.range' p (min st.count (st.maxPos + 1) - p)

/-- the windows of the chunks `j, j+1, …` -/
def JP (s0 : RangedIter.St) (j : Nat) : List (Nat × Nat) :=
  PartScan.journalPositions ((PipeRead.statuses s0).drop j) j

/-- what remains when chunk `k` is open at `p` -/
def rem (s0 : RangedIter.St) (k p : Nat) : List (Nat × Nat) :=
  (win (stOf s0 k) p).map (fun q => (k, q)) ++ JP s0 (k + 1)

theorem JP_end (s0 : RangedIter.St) (j : Nat) (h : s0.cks.size ≤ j) : JP s0 j = [] := by
  unfold JP
  rw [List.drop_eq_nil_of_le (by rw [statuses_length]; exact h)]
  rfl

theorem JP_step (s0 : RangedIter.St) (j : Nat) (h : j < s0.cks.size) : JP s0 j = rem s0 j (stOf s0 j).minPos := by
  unfold JP rem
  have hl : j < (PipeRead.statuses s0).length := by rw [statuses_length]; exact h
  rw [List.drop_eq_getElem_cons hl]
  simp only [PartScan.journalPositions]
  rw [PartScan.windowPositions_eq]
  have : stOf s0 j = (PipeRead.statuses s0)[j] := by unfold stOf; simp [hl]
  rw [this]
  rfl

theorem win_cons (st : ChkSt) (p : Nat) (h1 : p < st.count) (h2 : p ≤ st.maxPos) : win st p = p :: win st (p + 1) := by
  unfold win
  have e : min st.count (st.maxPos + 1) - p = (min st.count (st.maxPos + 1) - (p + 1)) + 1 := by omega
  rw [e, List.range'_succ]

theorem win_nil (st : ChkSt) (p : Nat) (h : p ≥ st.count ∨ p > st.maxPos) : win st p = [] := by
  unfold win
  have e : min st.count (st.maxPos + 1) - p = 0 := by omega
  rw [e]; rfl

theorem rem_cons (s0 : RangedIter.St) (k p : Nat) (h1 : p < (stOf s0 k).count) (h2 : p ≤ (stOf s0 k).maxPos) :
    rem s0 k p = (k, p) :: rem s0 k (p + 1) := by
  unfold rem
  rw [win_cons _ _ h1 h2]
  rfl

theorem rem_nil (s0 : RangedIter.St) (k p : Nat) (h : p ≥ (stOf s0 k).count ∨ p > (stOf s0 k).maxPos) :
    rem s0 k p = JP s0 (k + 1) := by
  unfold rem
  rw [win_nil _ _ h]
  rfl

theorem checkAdvance_eq (st : ChkSt) (pI : Nat) :
    checkAdvance st pI = if max st.minPos pI ≥ st.count ∨ max st.minPos pI > st.maxPos then (st.count, false)
      else (max st.minPos pI, true) := by
  have hp : (if pI < st.minPos then st.minPos else pI) = max st.minPos pI := by
    by_cases h : pI < st.minPos
    · simp [h]; omega
    · simp [h]; omega
  simp only [checkAdvance, hp]
  by_cases h : max st.minPos pI ≥ st.count ∨ max st.minPos pI > st.maxPos
  · rw [if_pos h]; rcases h with h | h <;> simp [h]
  · rw [if_neg h]
    have h1 : ¬ max st.minPos pI ≥ st.count := by omega
    have h2 : ¬ max st.minPos pI > st.maxPos := by omega
    simp [h1, h2]

/-! ## 4. `getPosForward` -/

theorem getStatus_pre {s0 s : RangedIter.St} (hf : Fresh s0) (hp : s = s0 ∨ Ready s0 s) (k : Nat) (h : k < s0.cks.size) :
    ∃ s1, RangedIter.getStatus s (10 * (k + 1)) = (s1, stOf s0 k) ∧ Ready s0 s1 ∧ (Ready s0 s → s1 = s) := by
  by_cases hr : Ready s0 s
  · exact ⟨s, getStatus_ready hf hr k h, hr, fun _ => rfl⟩
  · rcases hp with hp | hp
    · subst hp
      exact ⟨_, getStatus_fresh hf k h, ready_rebuild hf, fun h => absurd h hr⟩
    · exact absurd hp hr

theorem go_spec {s0 : RangedIter.St} (hf : Fresh s0) : ∀ (d j : Nat), j + d = s0.cks.size →
    ∀ (s : RangedIter.St) (fuel : Nat) (lastC : JChunk) (lastCnt : Nat), (s = s0 ∨ Ready s0 s) → d + 1 ≤ fuel →
    (∃ s', RangedIter.getPosForward.go fuel s (s0.cks.toList.drop j) 0 lastC lastCnt =
        (s', none, {}, (if d = 0 then (lastC.id, lastCnt) else (10 * s0.cks.size, (stOf s0 (s0.cks.size - 1)).count))) ∧
        JP s0 j = [] ∧ (Ready s0 s → s' = s)) ∨
    (∃ s' k np, RangedIter.getPosForward.go fuel s (s0.cks.toList.drop j) 0 lastC lastCnt =
        (s', some (10 * (k + 1)), stOf s0 k, (10 * (k + 1), np)) ∧ Ready s0 s' ∧ j ≤ k ∧ k < s0.cks.size ∧
        np < (stOf s0 k).count ∧ (stOf s0 k).minPos ≤ np ∧ np ≤ (stOf s0 k).maxPos ∧ JP s0 j = rem s0 k np) := by
  intro d
  induction d with
  | zero =>
    intro j hj s fuel lastC lastCnt hp hfu
    left
    obtain ⟨f, rfl⟩ : ∃ f, fuel = f + 1 := ⟨fuel - 1, by omega⟩
    have : s0.cks.toList.drop j = [] := List.drop_eq_nil_of_le (by simp; omega)
    rw [this]
    refine ⟨s, ?_, JP_end s0 j (by omega), fun _ => rfl⟩
    rw [RangedIter.getPosForward.go]
    simp
  | succ d ih =>
    intro j hj s fuel lastC lastCnt hp hfu
    obtain ⟨f, rfl⟩ : ∃ f, fuel = f + 1 := ⟨fuel - 1, by omega⟩
    have hjs : j < s0.cks.size := by omega
    have hl : j < s0.cks.toList.length := by simpa using hjs
    rw [List.drop_eq_getElem_cons hl]
    have hid : (s0.cks.toList[j]).id = 10 * (j + 1) := by simpa using hf.ids j hjs
    obtain ⟨s1, hg, hr1, hs1⟩ := getStatus_pre hf hp j hjs
    rw [RangedIter.getPosForward.go, hid, hg]
    simp only []
    rw [checkAdvance_eq]
    have hm : max (stOf s0 j).minPos 0 = (stOf s0 j).minPos := by omega
    rw [hm]
    by_cases hc : (stOf s0 j).minPos ≥ (stOf s0 j).count ∨ (stOf s0 j).minPos > (stOf s0 j).maxPos
    · rw [if_pos hc]
      simp only [Bool.false_eq_true, if_false]
      have hJ : JP s0 j = JP s0 (j + 1) := by rw [JP_step s0 j hjs, rem_nil s0 j _ hc]
      rcases ih (j + 1) (by omega) s1 f (s0.cks.toList[j]) (stOf s0 j).count (Or.inr hr1) (by omega) with
        ⟨s', h1, h2, h3⟩ | ⟨s', k, np, h1, h2, h3, h4⟩
      · left
        refine ⟨s', ?_, by rw [hJ, h2], fun h => by rw [h3 hr1, hs1 h]⟩
        rw [h1]
        by_cases hd : d = 0
        · have : j = s0.cks.size - 1 := by omega
          have e : 10 * (j + 1) = 10 * s0.cks.size := by omega
          simp only [hd, if_true, hid, e, ← this]; simp
        · simp [hd]
      · right
        exact ⟨s', k, np, h1, h2, by omega, h4.1, h4.2.1, h4.2.2.1, h4.2.2.2.1, by rw [hJ]; exact h4.2.2.2.2⟩
    · rw [if_neg hc]
      simp only [if_true]
      right
      exact ⟨s1, j, (stOf s0 j).minPos, rfl, hr1, Nat.le_refl _, hjs, by omega, Nat.le_refl _, by omega, JP_step s0 j hjs⟩

theorem filter_drop {α : Type} (p : α → Bool) : ∀ (L : List α) (j : Nat),
    (∀ i (h : i < L.length), i < j → p L[i] = false) → (∀ i (h : i < L.length), j ≤ i → p L[i] = true) →
    L.filter p = L.drop j := by
  intro L
  induction L with
  | nil => intro j _ _; simp
  | cons a r ih =>
    intro j h1 h2
    cases j with
    | zero =>
      have : ∀ x ∈ (a :: r), p x = true := by
        intro x hx
        obtain ⟨i, hi, rfl⟩ := List.getElem_of_mem hx
        exact h2 i hi (Nat.zero_le _)
      rw [List.filter_eq_self.mpr this]
      rfl
    | succ j =>
      have h0 := h1 0 (by simp) (by omega)
      simp only [List.getElem_cons_zero] at h0
      rw [List.filter_cons_of_neg (by simp [h0]), List.drop_succ_cons]
      apply ih
      · intro i hi hij
        have := h1 (i + 1) (by simp; omega) (by omega)
        simpa using this
      · intro i hi hij
        have := h2 (i + 1) (by simp; omega) (by omega)
        simpa using this

theorem after_eq {s0 : RangedIter.St} (hf : Fresh s0) (cid j : Nat) (h1 : ∀ i, i < j → 10 * (i + 1) < cid)
    (h2 : cid ≤ 10 * (j + 1)) : s0.cks.toList.filter (fun c => decide (c.id ≥ cid)) = s0.cks.toList.drop j := by
  apply filter_drop
  · intro i hi hij
    have := hf.ids i (by simpa using hi)
    have := h1 i hij
    simp; omega
  · intro i hi hij
    have := hf.ids i (by simpa using hi)
    simp; omega

theorem gpf_spec {s0 s : RangedIter.St} (hf : Fresh s0) (hp : s = s0 ∨ Ready s0 s) (cid idx j : Nat)
    (hj : j ≤ s0.cks.size) (h1 : ∀ i, i < j → 10 * (i + 1) < cid) (h2 : cid < 10 * (j + 1)) :
    (∃ s' e, RangedIter.getPosForward s cid idx = (s', none, {}, e) ∧ JP s0 j = [] ∧ (Ready s0 s → s' = s) ∧
        (0 < s0.cks.size → e = (10 * s0.cks.size, (stOf s0 (s0.cks.size - 1)).count))) ∨
    (∃ s' k np, RangedIter.getPosForward s cid idx = (s', some (10 * (k + 1)), stOf s0 k, (10 * (k + 1), np)) ∧
        Ready s0 s' ∧ j ≤ k ∧ k < s0.cks.size ∧
        np < (stOf s0 k).count ∧ (stOf s0 k).minPos ≤ np ∧ np ≤ (stOf s0 k).maxPos ∧ JP s0 j = rem s0 k np) := by
  have hck : s.cks = s0.cks := by
    rcases hp with rfl | h
    · rfl
    · exact h.cks
  unfold RangedIter.getPosForward
  simp only [hck]
  by_cases h0 : s0.cks.size = 0
  · left
    have : s0.cks.toList.isEmpty = true := by simp; exact Array.eq_empty_of_size_eq_zero h0
    rw [if_pos this]
    exact ⟨_, _, rfl, JP_end s0 j (by omega), fun _ => rfl, fun h => by omega⟩
  · have : ¬ s0.cks.toList.isEmpty = true := by
      simp; intro h; rw [h] at h0; simp at h0
    rw [if_neg this, after_eq hf cid j h1 (by omega)]
    by_cases hjs : j = s0.cks.size
    · have hd : s0.cks.toList.drop j = [] := List.drop_eq_nil_of_le (by simp; omega)
      rw [hd]
      simp only []
      left
      refine ⟨s, _, rfl, JP_end s0 j (by omega), fun _ => rfl, fun hpos => ?_⟩
      have hlast : s0.cks.toList.getLast! = s0.cks[s0.cks.size - 1]'(by omega) := by
        apply List.getLast!_of_getLast?
        rw [List.getLast?_eq_getElem?]
        simp
      rw [hlast, hf.ids _ (by omega), stOf_count s0 _ (by omega)]
      have : s0.cks.size - 1 + 1 = s0.cks.size := by omega
      rw [this]
    · have hjs' : j < s0.cks.size := by omega
      have hl : j < s0.cks.toList.length := by simpa using hjs'
      have hd := List.drop_eq_getElem_cons hl
      have hid : (s0.cks.toList[j]).id = 10 * (j + 1) := by simpa using hf.ids j hjs'
      split
      · rename_i heq
        rw [hd] at heq
        simp at heq
      · rename_i c0 tail heq
        have hc0 : c0 = s0.cks.toList[j] := by
          rw [hd] at heq
          simp at heq
          exact heq.1.symm
        have hne : (c0.id != cid) = true := by
          rw [hc0, hid]; simp; omega
        rw [if_pos hne]
        rcases go_spec hf (s0.cks.size - j) j (by omega) s ((s0.cks.toList.drop j).length + 1) c0 0 hp
            (by simp) with ⟨s', h1', h2', h3'⟩ | h
        · left
          refine ⟨s', _, h1', h2', h3', fun _ => ?_⟩
          have : ¬ (s0.cks.size - j = 0) := by omega
          rw [if_neg this]
        · right
          exact h

/-! ## 5. the chunk iterator (forward) -/

theorem ciSetPos_open (cnt chunk np : Nat) (h : np ≤ cnt) :
    ciSetPos cnt { chunk := chunk } (np : Int) = { chunk := chunk, pos := (np : Int), cached := false } := by
  unfold ciSetPos
  by_cases h0 : np = 0
  · subst h0; simp
  · have h1 : ¬ ((np : Int) > (cnt : Int)) := by omega
    have h2 : ¬ ((np : Int) < 0) := by omega
    have h3 : ((np : Int) == (0 : Int)) = false := by simp; omega
    simp only [h3, h1, h2, if_false, Bool.false_eq_true]

theorem ciGet_cached (cnt : Nat) (c : CIt) (h : c.cached = true) : ciGet cnt false c = (c, true) := by
  unfold ciGet
  simp [h]

theorem ciGet_in (cnt chunk p : Nat) (h : p < cnt) :
    ciGet cnt false { chunk := chunk, pos := (p : Int), cached := false } =
      ({ chunk := chunk, pos := (p : Int), cached := true }, true) := by
  unfold ciGet
  have h1 : ¬ ((p : Int) < 0) := by omega
  have h2 : ¬ ((p : Int) ≥ (cnt : Int)) := by omega
  simp [h1, h2]

theorem ciGet_out (cnt chunk p : Nat) (h : cnt ≤ p) :
    ciGet cnt false { chunk := chunk, pos := (p : Int), cached := false } =
      ({ chunk := chunk, pos := (p : Int), cached := false }, false) := by
  unfold ciGet
  have h1 : ¬ ((p : Int) < 0) := by omega
  have h2 : ((p : Int) ≥ (cnt : Int)) := by omega
  simp [h1, h2]

theorem ciNext_cached (cnt chunk p : Nat) :
    ciNext cnt false { chunk := chunk, pos := (p : Int), cached := true } =
      { chunk := chunk, pos := ((p + 1 : Nat) : Int), cached := false } := by
  unfold ciNext
  rw [ciGet_cached _ _ rfl]
  simp

/-- chunk `k` is open at position `p` (inside its window) -/
structure OpenAt (s0 s : RangedIter.St) (k p : Nat) (cached : Bool) : Prop where
  ready : Ready s0 s
  hk : k < s0.cks.size
  ci : s.ci = some { chunk := 10 * (k + 1), pos := (p : Int), cached := cached }
  cst : s.cst = some (stOf s0 k)
  cid : s.cid = 10 * (k + 1)
  lo : (stOf s0 k).minPos ≤ p
  hi : p ≤ (stOf s0 k).maxPos

theorem ensure_closed {s0 s : RangedIter.St} (hf : Fresh s0) (hp : s = s0 ∨ Ready s0 s) (hci : s.ci = none)
    (hb : s.bkwd = false) (j : Nat) (hj : j ≤ s0.cks.size) (h1 : ∀ i, i < j → 10 * (i + 1) < s.cid)
    (h2 : s.cid < 10 * (j + 1)) :
    (∃ s', RangedIter.ensure s = (s', true) ∧ JP s0 j = [] ∧
      (Ready s0 s → 0 < s0.cks.size → Ready s0 s' ∧ s'.ci = none ∧ s'.cid = 10 * s0.cks.size ∧
        s'.idx = (stOf s0 (s0.cks.size - 1)).count)) ∨
    (∃ s' k np, RangedIter.ensure s = (s', false) ∧ OpenAt s0 s' k np false ∧ j ≤ k ∧ np < (stOf s0 k).count ∧
      JP s0 j = rem s0 k np) := by
  unfold RangedIter.ensure
  simp only [hci, hb, Bool.false_eq_true, if_false]
  rcases gpf_spec hf hp s.cid s.idx j hj h1 h2 with ⟨s', e, hg, hJ, hs, he⟩ | ⟨s', k, np, hg, hr, hjk, hk, hn, hlo, hhi, hJ⟩
  · left
    rw [hg]
    simp only []
    refine ⟨_, rfl, hJ, fun hrd hpos => ?_⟩
    have := hs hrd
    subst this
    rw [he hpos, if_neg (by rw [hb]; simp)]
    exact ⟨⟨hrd.cks, hrd.tss, hrd.rmin, hrd.rmax, hrd.stats, hrd.bkwd⟩, hci, rfl, rfl⟩
  · right
    rw [hg]
    simp only []
    refine ⟨_, k, np, rfl, ?_, hjk, hn, hJ⟩
    have hcnt : RangedIter.cntOfS { s' with cid := 10 * (k + 1), idx := np } (10 * (k + 1)) = (stOf s0 k).count := by
      rw [cntOfS_eq hf (by exact hr.cks) k hk, stOf_count s0 k hk]
    rw [hcnt, ciSetPos_open _ _ _ (by omega)]
    exact ⟨⟨hr.cks, hr.tss, hr.rmin, hr.rmax, hr.stats, hr.bkwd⟩, hk, rfl, rfl, rfl, hlo, hhi⟩

theorem advance_fwd (s : RangedIter.St) (c : CIt) (hci : s.ci = some c) (hb : s.bkwd = false) (hpos : c.pos ≥ 0)
    (r : RangedIter.St × Bool)
    (hr : RangedIter.ensure { s with ci := none, cst := none, cid := s.cid + 1, idx := 0 } = r) :
    RangedIter.advance s =
      (if r.2 = true ∧ r.1.cid = s.cid then ({ r.1 with cid := s.cid, idx := c.pos.toNat }, true) else r) := by
  have g : Generated.C02.advanceChunkKeepsIteratorPos = true := by decide
  subst hr
  cases s with
  | mk cks cidx tss rmin rmax stats rr cid idx ci cst bkwd fv fle =>
  simp only at hci hb
  subst hci hb
  unfold RangedIter.advance
  simp only [hpos, g, if_true, Bool.false_eq_true, if_false, Bool.true_and, Bool.not_false, Bool.and_true]
  generalize RangedIter.ensure _ = r
  cases r with
  | mk a b =>
  cases b <;> simp

theorem eof_again {s0 s : RangedIter.St} (hf : Fresh s0) (hr : Ready s0 s) (hci : s.ci = none) (m : Nat)
    (hm : s0.cks.size = m + 1) (hcid : s.cid = 10 * (m + 1))
    (hx : max (stOf s0 m).minPos s.idx ≥ (stOf s0 m).count ∨ max (stOf s0 m).minPos s.idx > (stOf s0 m).maxPos) :
    ∃ s', RangedIter.ensure s = (s', true) := by
  unfold RangedIter.ensure
  simp only [hci, hr.bkwd, Bool.false_eq_true, if_false]
  unfold RangedIter.getPosForward
  simp only [hr.cks]
  have hne : ¬ s0.cks.toList.isEmpty = true := by
    simp; intro h; rw [h] at hm; simp at hm
  rw [if_neg hne, after_eq hf s.cid m (by intro i hi; omega) (by omega)]
  have hl : m < s0.cks.toList.length := by simp; omega
  have hd := List.drop_eq_getElem_cons hl
  have hd2 : s0.cks.toList.drop (m + 1) = [] := List.drop_eq_nil_of_le (by simp; omega)
  have hid : (s0.cks.toList[m]).id = 10 * (m + 1) := by simpa using hf.ids m (by omega)
  rw [hd, hd2]
  simp only [hid, hcid, bne_self_eq_false, Bool.false_eq_true, if_false, List.length_cons, List.length_nil]
  rw [RangedIter.getPosForward.go, hid, getStatus_ready hf hr m (by omega)]
  simp only []
  rw [checkAdvance_eq, if_pos hx]
  simp only [Bool.false_eq_true, if_false]
  rw [RangedIter.getPosForward.go]
  exact ⟨_, rfl⟩

/-- the cursor is at the end of the data (position: last chunk, an index its status refuses): every further
`ensure` reports EOF again -/
structure AtEof (s0 s : RangedIter.St) : Prop where
  ready : Ready s0 s
  ci : s.ci = none
  last : ∃ m, s0.cks.size = m + 1 ∧ s.cid = 10 * (m + 1) ∧
    (max (stOf s0 m).minPos s.idx ≥ (stOf s0 m).count ∨ max (stOf s0 m).minPos s.idx > (stOf s0 m).maxPos)

theorem AtEof.eof {s0 s : RangedIter.St} (hf : Fresh s0) (h : AtEof s0 s) : ∃ s', RangedIter.ensure s = (s', true) := by
  obtain ⟨m, hm, hcid, hx⟩ := h.last
  exact eof_again hf h.ready h.ci m hm hcid hx

theorem advance_spec {s0 s : RangedIter.St} {r : RangedIter.St × Bool} (hA : RangedIter.advance s = r)
    (hf : Fresh s0) (hr : Ready s0 s) (k q : Nat) (cached : Bool)
    (hk : k < s0.cks.size) (hcid : s.cid = 10 * (k + 1))
    (hci : s.ci = some { chunk := 10 * (k + 1), pos := (q : Int), cached := cached })
    (hlo : (stOf s0 k).minPos ≤ q) (hout : q ≥ (stOf s0 k).count ∨ q > (stOf s0 k).maxPos) :
    (∃ s', r = (s', true) ∧ JP s0 (k + 1) = [] ∧ AtEof s0 s') ∨
    (∃ s' k' np, r = (s', false) ∧ OpenAt s0 s' k' np false ∧ np < (stOf s0 k').count ∧
      JP s0 (k + 1) = rem s0 k' np) := by
  subst hA
  have hr1 : Ready s0 { s with ci := none, cst := none, cid := s.cid + 1, idx := 0 } :=
    ⟨hr.cks, hr.tss, hr.rmin, hr.rmax, hr.stats, hr.bkwd⟩
  rcases ensure_closed hf (Or.inr hr1) rfl hr.bkwd (k + 1) (by omega)
      (by intro i hi; show 10 * (i + 1) < s.cid + 1; omega) (by show s.cid + 1 < _; omega) with
    ⟨s', he, hJ, hs⟩ | ⟨s', k', np, he, ho, hkk, hn, hJ⟩
  · left
    obtain ⟨hr', hci', hcid', hidx'⟩ := hs hr1 (by omega)
    rw [advance_fwd s _ hci hr.bkwd (by simp) _ he]
    simp only [true_and]
    obtain ⟨m, hm⟩ : ∃ m, s0.cks.size = m + 1 := ⟨s0.cks.size - 1, by omega⟩
    have hm' : s0.cks.size - 1 = m := by omega
    rw [hm'] at hidx'
    by_cases hc : s'.cid = s.cid
    · rw [if_pos hc]
      refine ⟨_, rfl, hJ, ⟨hr'.cks, hr'.tss, hr'.rmin, hr'.rmax, hr'.stats, hr'.bkwd⟩, hci', ?_⟩
      have hkm : k = m := by omega
      subst hkm
      refine ⟨k, hm, hcid, ?_⟩
      show max (stOf s0 k).minPos (Int.toNat (q : Int)) ≥ _ ∨ max (stOf s0 k).minPos (Int.toNat (q : Int)) > _
      rw [Int.toNat_natCast]
      omega
    · rw [if_neg hc]
      refine ⟨_, rfl, hJ, hr', hci', m, hm, by rw [hcid', hm], ?_⟩
      rw [hidx']
      omega
  · right
    rw [advance_fwd s _ hci hr.bkwd (by simp) _ he]
    simp only [Bool.false_eq_true, false_and, if_false]
    exact ⟨s', k', np, rfl, ho, hn, hJ⟩

/-! ## 6. `Get` and `Next` -/

theorem ciGet_open (cnt chunk p : Nat) (cached : Bool) (h : p < cnt) :
    ciGet cnt false { chunk := chunk, pos := (p : Int), cached := cached } =
      ({ chunk := chunk, pos := (p : Int), cached := true }, true) := by
  cases cached
  · exact ciGet_in cnt chunk p h
  · exact ciGet_cached _ _ rfl

theorem loop_in {s0 s : RangedIter.St} (hf : Fresh s0) (k p : Nat) (cached : Bool) (ho : OpenAt s0 s k p cached)
    (hp : p < (stOf s0 k).count) (f : Nat) :
    RangedIter.itGet.loop (f + 1) s =
      ({ s with ci := some { chunk := 10 * (k + 1), pos := (p : Int), cached := true } }, some (10 * (k + 1), p)) ∧
    OpenAt s0 { s with ci := some { chunk := 10 * (k + 1), pos := (p : Int), cached := true } } k p true := by
  constructor
  · rw [RangedIter.itGet.loop]
    simp only [ho.ci, ho.ready.bkwd]
    rw [cntOfS_eq hf ho.ready.cks k ho.hk, ← stOf_count s0 k ho.hk, ciGet_open _ _ _ _ hp]
    simp
  · exact ⟨⟨ho.ready.cks, ho.ready.tss, ho.ready.rmin, ho.ready.rmax, ho.ready.stats, ho.ready.bkwd⟩, ho.hk, rfl,
      ho.cst, ho.cid, ho.lo, ho.hi⟩

theorem loop_spec {s0 s : RangedIter.St} (hf : Fresh s0) (k p : Nat) (cached : Bool) (ho : OpenAt s0 s k p cached)
    (hc : cached = true → p < (stOf s0 k).count) (f : Nat) :
    (∃ s', RangedIter.itGet.loop (f + 2) s = (s', none) ∧ rem s0 k p = []) ∨
    (∃ s' k' p', RangedIter.itGet.loop (f + 2) s = (s', some (10 * (k' + 1), p')) ∧ OpenAt s0 s' k' p' true ∧
      p' < (stOf s0 k').count ∧ rem s0 k p = rem s0 k' p') := by
  by_cases hp : p < (stOf s0 k).count
  · right
    obtain ⟨h1, h2⟩ := loop_in hf k p cached ho hp (f + 1)
    exact ⟨_, k, p, h1, h2, hp, rfl⟩
  · have hcf : cached = false := by
      cases cached
      · rfl
      · exact absurd (hc rfl) hp
    subst hcf
    rw [RangedIter.itGet.loop]
    simp only [ho.ci, ho.ready.bkwd]
    rw [cntOfS_eq hf ho.ready.cks k ho.hk, ← stOf_count s0 k ho.hk, ciGet_out _ _ _ (by omega)]
    simp only [Bool.false_eq_true, if_false]
    have hrem : rem s0 k p = JP s0 (k + 1) := rem_nil s0 k p (Or.inl (by omega))
    generalize hA : RangedIter.advance _ = r
    rcases advance_spec hA
        hf ⟨ho.ready.cks, ho.ready.tss, ho.ready.rmin, ho.ready.rmax, ho.ready.stats, by first | rfl | exact ho.ready.bkwd⟩
        k p false ho.hk
        ho.cid rfl ho.lo (Or.inl (by omega)) with ⟨s', rfl, hJ, _⟩ | ⟨s', k', np, rfl, ho', hn, hJ⟩
    · left
      exact ⟨s', by simp, by rw [hrem, hJ]⟩
    · right
      simp only [Bool.false_eq_true, if_false]
      obtain ⟨h1, h2⟩ := loop_in hf k' np false ho' hn f
      exact ⟨_, k', np, h1, h2, hn, by rw [hrem, hJ]⟩

/-- the cursor's position and what remains to be delivered from there -/
def Pos' (s0 s : RangedIter.St) (R : List (Nat × Nat)) : Prop :=
  (∃ k p, OpenAt s0 s k p false ∧ R = rem s0 k p) ∨ (AtEof s0 s ∧ R = [])

/-- … including the fresh cursor -/
def Pos (s0 s : RangedIter.St) (R : List (Nat × Nat)) : Prop :=
  (s = s0 ∧ R = JP s0 0) ∨ Pos' s0 s R

theorem Pos'.upd {s0 s : RangedIter.St} {R : List (Nat × Nat)} (h : Pos' s0 s R) (fv : Bool) (fl : Option (Nat × Nat)) :
    Pos' s0 { s with fValid := fv, fLe := fl } R := by
  rcases h with ⟨k, p, ho, hR⟩ | ⟨he, hR⟩
  · left
    exact ⟨k, p, ⟨⟨ho.ready.cks, ho.ready.tss, ho.ready.rmin, ho.ready.rmax, ho.ready.stats, ho.ready.bkwd⟩,
      ho.hk, ho.ci, ho.cst, ho.cid, ho.lo, ho.hi⟩, hR⟩
  · right
    exact ⟨⟨⟨he.ready.cks, he.ready.tss, he.ready.rmin, he.ready.rmax, he.ready.stats, he.ready.bkwd⟩, he.ci, he.last⟩, hR⟩

theorem OpenAt.upd {s0 s : RangedIter.St} {k p : Nat} {c : Bool} (ho : OpenAt s0 s k p c) (fv : Bool)
    (fl : Option (Nat × Nat)) : OpenAt s0 { s with fValid := fv, fLe := fl } k p c :=
  ⟨⟨ho.ready.cks, ho.ready.tss, ho.ready.rmin, ho.ready.rmax, ho.ready.stats, ho.ready.bkwd⟩,
      ho.hk, ho.ci, ho.cst, ho.cid, ho.lo, ho.hi⟩

theorem itGet_open {s0 s : RangedIter.St} (hf : Fresh s0) (k p : Nat) (cached : Bool) (ho : OpenAt s0 s k p cached)
    (hc : cached = true → p < (stOf s0 k).count) :
    (∃ s', RangedIter.itGet s = (s', none) ∧ rem s0 k p = []) ∨
    (∃ s' k' p', RangedIter.itGet s = (s', some (10 * (k' + 1), p')) ∧ OpenAt s0 s' k' p' true ∧
      p' < (stOf s0 k').count ∧ rem s0 k p = rem s0 k' p') := by
  have he : RangedIter.ensure s = (s, false) := by
    unfold RangedIter.ensure
    simp only [ho.ci]
  unfold RangedIter.itGet
  rw [he]
  simp only [Bool.false_eq_true, if_false]
  exact loop_spec hf k p cached ho hc s.cks.size

theorem itGet_spec {s0 s : RangedIter.St} (hf : Fresh s0) (R : List (Nat × Nat)) (hpos : Pos s0 s R) :
    (∃ s', RangedIter.itGet s = (s', none) ∧ R = []) ∨
    (∃ s' k p, RangedIter.itGet s = (s', some (10 * (k + 1), p)) ∧ OpenAt s0 s' k p true ∧
      p < (stOf s0 k).count ∧ R = rem s0 k p) := by
  rcases hpos with ⟨rfl, hR⟩ | ⟨k, p, ho, hR⟩ | ⟨he, hR⟩
  · rcases ensure_closed hf (Or.inl rfl) hf.ci hf.fwd 0 (Nat.zero_le _) (by intro i hi; omega) (by rw [hf.cid]; omega)
      with ⟨s', he, hJ, _⟩ | ⟨s', k, np, he, ho, _, hn, hJ⟩
    · left
      unfold RangedIter.itGet
      rw [he]
      exact ⟨s', by simp, by rw [hR, hJ]⟩
    · right
      unfold RangedIter.itGet
      rw [he]
      simp only [Bool.false_eq_true, if_false]
      obtain ⟨h1, h2⟩ := loop_in hf k np false ho hn (s'.cks.size + 1)
      exact ⟨_, k, np, h1, h2, hn, by rw [hR, hJ]⟩
  · subst hR
    exact itGet_open hf k p false ho (by intro h; cases h)
  · left
    obtain ⟨s', hs'⟩ := he.eof hf
    unfold RangedIter.itGet
    rw [hs']
    exact ⟨s', by simp, hR⟩

theorem itNext_spec {s0 s : RangedIter.St} (hf : Fresh s0) (k p : Nat) (ho : OpenAt s0 s k p true)
    (hp : p < (stOf s0 k).count) : Pos' s0 (RangedIter.itNext s) (rem s0 k (p + 1)) := by
  have he : RangedIter.ensure s = (s, false) := by
    unfold RangedIter.ensure
    simp only [ho.ci]
  obtain ⟨h1, h2⟩ := loop_in hf k p true ho hp (s.cks.size + 1)
  have hg : RangedIter.itGet s =
      ({ s with ci := some { chunk := 10 * (k + 1), pos := (p : Int), cached := true } }, some (10 * (k + 1), p)) := by
    unfold RangedIter.itGet
    rw [he]
    simp only [Bool.false_eq_true, if_false]
    exact h1
  unfold RangedIter.itNext
  rw [hg]
  simp only [ho.cst, ho.ready.bkwd]
  rw [cntOfS_eq hf (by exact ho.ready.cks) k ho.hk, ciNext_cached]
  by_cases hout : p + 1 > (stOf s0 k).maxPos
  · have hcond : (decide (((p + 1 : Nat) : Int) < 0) || decide ((((p + 1 : Nat) : Int)).toNat < (stOf s0 k).minPos) ||
        decide ((((p + 1 : Nat) : Int)).toNat > (stOf s0 k).maxPos)) = true := by
      rw [Int.toNat_natCast]; simp; omega
    simp only [hcond, if_true]
    generalize hA : RangedIter.advance _ = r
    rcases advance_spec hA
        hf ⟨ho.ready.cks, ho.ready.tss, ho.ready.rmin, ho.ready.rmax, ho.ready.stats, by first | rfl | exact ho.ready.bkwd⟩
        k (p + 1) false
        ho.hk ho.cid rfl (by have := ho.lo; omega) (Or.inr hout) with ⟨s', rfl, hJ, hE⟩ | ⟨s', k', np, rfl, ho', hn, hJ⟩
    · right
      exact ⟨hE, by rw [rem_nil s0 k (p + 1) (Or.inr hout), hJ]⟩
    · left
      exact ⟨k', np, ho', by rw [rem_nil s0 k (p + 1) (Or.inr hout), hJ]⟩
  · have hcond : (decide (((p + 1 : Nat) : Int) < 0) || decide ((((p + 1 : Nat) : Int)).toNat < (stOf s0 k).minPos) ||
        decide ((((p + 1 : Nat) : Int)).toNat > (stOf s0 k).maxPos)) = false := by
      rw [Int.toNat_natCast]
      have := ho.lo
      simp; omega
    simp only [hcond, Bool.false_eq_true, if_false]
    left
    refine ⟨k, p + 1, ⟨⟨ho.ready.cks, ho.ready.tss, ho.ready.rmin, ho.ready.rmax, ho.ready.stats,
      by first | rfl | exact ho.ready.bkwd⟩,
      ho.hk, rfl, by first | rfl | exact ho.cst, ho.cid, by have := ho.lo; omega, by omega⟩, rfl⟩

/-! ## 7. the cursor: `fiterator`'s range re-check, and the scan -/

theorem tsAt_eq {s0 s : RangedIter.St} (hf : Fresh s0) (hc : s.cks = s0.cks) (ht : s.tss = s0.tss) (k p : Nat)
    (hk : k < s0.cks.size) : RangedIter.tsAt s (10 * (k + 1), p) = PipeRead.tsOfPos s0 (k, p) := by
  unfold RangedIter.tsAt RangedIter.chunkIndexOf PipeRead.tsOfPos
  have e : 10 * (k + 1) / 10 - 1 = k := by omega
  simp only [e, hc, ht]
  simp [hk, hf.ids k hk]

/-- the range re-check on a position of the abstract scan -/
def fit (s0 : RangedIter.St) (kp : Nat × Nat) : Bool :=
  RangedIter.fitInRange s0.rmin s0.rmax (PipeRead.tsOfPos s0 kp)

def out (kp : Nat × Nat) : Nat × Nat := (10 * (kp.1 + 1), kp.2)

theorem curNext_pos {s0 s : RangedIter.St} (hf : Fresh s0) (k p : Nat) (ho : OpenAt s0 s k p true)
    (hp : p < (stOf s0 k).count) :
    Pos s0 (RangedIter.curNext s) (rem s0 k (p + 1)) ∧ (RangedIter.curNext s).fValid = false := by
  unfold RangedIter.curNext
  exact ⟨Or.inr ((itNext_spec hf k p ho hp).upd false none), rfl⟩

theorem curGet_spec {s0 : RangedIter.St} (hf : Fresh s0) : ∀ (g : Nat) (s : RangedIter.St) (R : List (Nat × Nat)),
    Pos s0 s R → s.fValid = false → R.length + 1 ≤ g →
    (∃ s', RangedIter.curGet g s = (s', none) ∧ R.filter (fit s0) = []) ∨
    (∃ s' kp R', RangedIter.curGet g s = (s', some (out kp)) ∧ R.filter (fit s0) = kp :: R'.filter (fit s0) ∧
      R'.length < R.length ∧ Pos s0 (RangedIter.curNext s') R' ∧ (RangedIter.curNext s').fValid = false) := by
  intro g
  induction g with
  | zero => intro s R _ _ h; omega
  | succ g ih =>
    intro s R hpos hfv hg
    rw [RangedIter.curGet]
    simp only [hfv, Bool.false_eq_true, if_false]
    rcases itGet_spec hf R hpos with ⟨s1, h1, hR⟩ | ⟨s1, k, p, h1, ho, hp, hR⟩
    · left
      rw [h1]
      exact ⟨_, rfl, by rw [hR]; rfl⟩
    · rw [h1]
      simp only []
      have hcond : RangedIter.fitInRange s1.rmin s1.rmax (RangedIter.tsAt s1 (10 * (k + 1), p)) = fit s0 (k, p) := by
        rw [tsAt_eq hf ho.ready.cks ho.ready.tss k p ho.hk, ho.ready.rmin, ho.ready.rmax]; rfl
      rw [hcond]
      have hRc : R = (k, p) :: rem s0 k (p + 1) := by rw [hR, rem_cons s0 k p hp ho.hi]
      by_cases hfit : fit s0 (k, p) = true
      · right
        rw [if_pos hfit]
        obtain ⟨hP, hV⟩ := curNext_pos hf k p (ho.upd true (some (10 * (k + 1), p))) hp
        refine ⟨_, (k, p), rem s0 k (p + 1), rfl, ?_, by rw [hRc]; simp, hP, hV⟩
        rw [hRc, List.filter_cons_of_pos hfit]
      · have hfit' := hfit
        unfold fit at hfit'
        rw [if_neg hfit]
        obtain ⟨hP, hV⟩ := curNext_pos hf k p (ho.upd s1.fValid (some (10 * (k + 1), p))) hp
        have hlen : (rem s0 k (p + 1)).length + 1 ≤ g := by
          rw [hRc] at hg; simp at hg; omega
        have hflt : R.filter (fit s0) = (rem s0 k (p + 1)).filter (fit s0) := by
          rw [hRc, List.filter_cons_of_neg hfit]
        rcases ih _ _ hP hV hlen with ⟨s', h2, h3⟩ | ⟨s', kp, R', h2, h3, h4, h5, h6⟩
        · left
          exact ⟨s', h2, by rw [hflt, h3]⟩
        · right
          exact ⟨s', kp, R', h2, by rw [hflt, h3], by rw [hRc]; simp; omega, h5, h6⟩

theorem run_spec {s0 : RangedIter.St} (hf : Fresh s0) : ∀ (f : Nat) (s : RangedIter.St) (R : List (Nat × Nat))
    (inPage : Nat) (acc : Array (Nat × Nat)),
    Pos s0 s R → s.fValid = false → R.length + 1 ≤ f →
    (RangedIter.scan.run 0 f s inPage acc).2.toList = acc.toList ++ (R.filter (fit s0)).map out := by
  intro f
  induction f with
  | zero => intro s R _ _ _ _ h; omega
  | succ f ih =>
    intro s R inPage acc hpos hfv hg
    rw [RangedIter.scan.run]
    rcases curGet_spec hf (f + 1) s R hpos hfv hg with ⟨s', h1, h2⟩ | ⟨s', kp, R', h1, h2, h3, h4, h5⟩
    · rw [h1, h2]
      simp
    · rw [h1]
      simp only [bne_self_eq_false, Bool.false_and, Bool.false_eq_true, if_false]
      rw [ih _ R' _ _ h4 h5 (by omega), h2]
      simp

theorem journalPositions_length : ∀ (cs : List ChkSt) (k : Nat),
    (PartScan.journalPositions cs k).length ≤ (cs.map (·.count)).sum := by
  intro cs
  induction cs with
  | nil => intro k; simp [PartScan.journalPositions]
  | cons st rest ih =>
    intro k
    simp only [PartScan.journalPositions, List.length_append, List.length_map, List.map_cons, List.sum_cons]
    have := ih (k + 1)
    rw [PartScan.windowPositions_eq, List.length_range']
    omega

theorem JP_zero_length (s0 : RangedIter.St) : (JP s0 0).length ≤ total s0 := by
  unfold JP total
  rw [List.drop_zero]
  refine Nat.le_trans (journalPositions_length _ 0) (Nat.le_of_eq ?_)
  rw [statuses_eq, List.map_map]
  congr 1
  apply List.map_congr_left
  intro c _
  exact stFn_count s0 c

/-- **the stateful iterator of the pipeline model delivers the abstract scan**: a fresh forward cursor without paging
(`page = 0`), with enough fuel, returns exactly `PipeRead.absScan` (positions as (chunk id, index)). -/
theorem scan_eq_absScan (s : RangedIter.St) (hf : Fresh s) (fuel : Nat) (hfuel : total s + 2 ≤ fuel) :
    (RangedIter.scan s 0 fuel).2.toList = (PipeRead.absScan s).map (fun kp => (10 * (kp.1 + 1), kp.2)) := by
  unfold RangedIter.scan
  have hlen := JP_zero_length s
  rw [run_spec hf fuel s (JP s 0) 0 #[] (Or.inl ⟨rfl, rfl⟩) hf.fValid (by omega)]
  unfold PipeRead.absScan
  rw [PartScan.scanAll_eq]
  simp only [JP, List.drop_zero, Array.toList_empty, List.nil_append]
  rfl

end Logrange.PipeScan
