import Logrange.Model.PipeRead
import Logrange.Proofs.PartScan
/-! The stateful ranged iterator of the pipeline model (`RangedIter.scan`: `getStatus`/`rebuildStatuses`,
`getPosForward`, `ensure`, `advance`, `itGet`, `itNext`, `curGet`/`curNext`) delivers, for a fresh forward cursor without
paging, exactly the abstract scan `PipeRead.absScan`. -/
set_option linter.unusedSimpArgs false
set_option linter.unusedVariables false
namespace Logrange.PipeScan
open Logrange Selector

/-- a fresh cursor on a journal whose chunk ids are 10, 20, 30, … (dense ids × 10, as the pipeline model has them) -/
structure Fresh (s : RangedIter.St) : Prop where
  stats : s.stats = []
  ci : s.ci = none
  cst : s.cst = none
  cid : s.cid = 0
  idx : s.idx = 0
  fwd : s.bkwd = false
  fValid : s.fValid = false
  ids : ∀ i (h : i < s.cks.size), (s.cks[i]).id = 10 * (i + 1)
  tssSize : s.tss.size = s.cks.size

/-- number of records of the journal -/
def total (s : RangedIter.St) : Nat := (s.cks.toList.map (·.cnt)).sum

/-! ## 1. `syncChunks`, `updatePoss`, `rebuildStatuses` -/

theorem syncChunks_fields (s : RangedIter.St) :
    (RangedIter.syncChunks s).cks = s.cks ∧ (RangedIter.syncChunks s).tss = s.tss ∧
    (RangedIter.syncChunks s).rmin = s.rmin ∧ (RangedIter.syncChunks s).rmax = s.rmax ∧
    (RangedIter.syncChunks s).stats = s.stats ∧ (RangedIter.syncChunks s).bkwd = s.bkwd ∧
    (RangedIter.syncChunks s).cid = s.cid ∧ (RangedIter.syncChunks s).idx = s.idx ∧
    (RangedIter.syncChunks s).ci = s.ci ∧ (RangedIter.syncChunks s).cst = s.cst ∧
    (RangedIter.syncChunks s).fValid = s.fValid ∧ (RangedIter.syncChunks s).fLe = s.fLe := by
  have f1 : Generated.C02.syncChunksDropsStaleEntries = true := by decide
  unfold RangedIter.syncChunks
  simp only [f1, if_true]
  split <;> simp

theorem updatePossWith_count (rmin rmax hmin hmax : Int) (g l : Int → CIndex.Ans) (st : ChkSt) :
    (updatePossWith rmin rmax hmin hmax g l st).1.count = st.count := by
  unfold updatePossWith
  split
  · rfl
  · simp only []

theorem updatePoss_count (s : RangedIter.St) (cid : Nat) (st : ChkSt) :
    (RangedIter.updatePoss s cid st).1.count = st.count := by
  unfold RangedIter.updatePoss
  split
  · split <;> rfl
  · split
    · rfl
    · exact updatePossWith_count ..

/-- the status a rebuild gives a chunk -/
def stFn (s : RangedIter.St) (c : JChunk) : ChkSt :=
  (RangedIter.updatePoss (RangedIter.syncChunks s) c.id
    { ((((RangedIter.syncChunks s).stats.find? (·.1 == c.id)).map (·.2)).getD {}) with count := c.cnt }).1

theorem stFn_count (s : RangedIter.St) (c : JChunk) : (stFn s c).count = c.cnt := by
  unfold stFn
  rw [updatePoss_count]

theorem stats_fold (s : RangedIter.St) : ∀ (L : List JChunk) (acc : List (Nat × ChkSt) × Nat),
    (L.foldl (fun (acc : List (Nat × ChkSt) × Nat) c =>
      let old := ((s.stats.find? (·.1 == c.id)).map (·.2)).getD {}
      let (st, k) := RangedIter.updatePoss s c.id { old with count := c.cnt }
      (acc.1 ++ [(c.id, st)], acc.2 + k)) acc).1 =
    acc.1 ++ L.map (fun c => (c.id, (RangedIter.updatePoss s c.id
      { (((s.stats.find? (·.1 == c.id)).map (·.2)).getD {}) with count := c.cnt }).1)) := by
  intro L
  induction L with
  | nil => intro acc; simp
  | cons c r ih =>
    intro acc
    rw [List.foldl_cons, ih]
    simp

theorem rebuild_stats (s : RangedIter.St) :
    (RangedIter.rebuildStatuses s).stats = s.cks.toList.map (fun c => (c.id, stFn s c)) := by
  unfold RangedIter.rebuildStatuses
  simp only []
  rw [← Array.foldl_toList]
  have := stats_fold (RangedIter.syncChunks s) (RangedIter.syncChunks s).cks.toList ([], 0)
  simp only [List.nil_append] at this
  rw [this, (syncChunks_fields s).1]
  rfl

theorem rebuild_fields (s : RangedIter.St) :
    (RangedIter.rebuildStatuses s).cks = s.cks ∧ (RangedIter.rebuildStatuses s).tss = s.tss ∧
    (RangedIter.rebuildStatuses s).rmin = s.rmin ∧ (RangedIter.rebuildStatuses s).rmax = s.rmax ∧
    (RangedIter.rebuildStatuses s).bkwd = s.bkwd ∧
    (RangedIter.rebuildStatuses s).cid = s.cid ∧ (RangedIter.rebuildStatuses s).idx = s.idx ∧
    (RangedIter.rebuildStatuses s).ci = s.ci ∧ (RangedIter.rebuildStatuses s).cst = s.cst ∧
    (RangedIter.rebuildStatuses s).fValid = s.fValid ∧ (RangedIter.rebuildStatuses s).fLe = s.fLe := by
  have h := syncChunks_fields s
  unfold RangedIter.rebuildStatuses
  simp only []
  exact ⟨h.1, h.2.1, h.2.2.1, h.2.2.2.1, h.2.2.2.2.2.1, h.2.2.2.2.2.2.1, h.2.2.2.2.2.2.2.1, h.2.2.2.2.2.2.2.2.1,
    h.2.2.2.2.2.2.2.2.2.1, h.2.2.2.2.2.2.2.2.2.2.1, h.2.2.2.2.2.2.2.2.2.2.2⟩

/-! ## 2. states whose statuses exist -/

/-- status of the `k`-th chunk for a fresh selector on `s0` -/
def stOf (s0 : RangedIter.St) (k : Nat) : ChkSt := ((PipeRead.statuses s0)[k]?).getD {}

theorem statuses_eq (s0 : RangedIter.St) : PipeRead.statuses s0 = s0.cks.toList.map (stFn s0) := by
  unfold PipeRead.statuses
  rw [rebuild_stats, List.map_map]
  rfl

theorem statuses_length (s0 : RangedIter.St) : (PipeRead.statuses s0).length = s0.cks.size := by
  rw [statuses_eq]; simp

theorem stOf_eq (s0 : RangedIter.St) (k : Nat) (h : k < s0.cks.size) : stOf s0 k = stFn s0 (s0.cks[k]) := by
  unfold stOf
  rw [statuses_eq]
  simp [h]

theorem stOf_count (s0 : RangedIter.St) (k : Nat) (h : k < s0.cks.size) : (stOf s0 k).count = (s0.cks[k]).cnt := by
  rw [stOf_eq s0 k h, stFn_count]

theorem find_ids (g : JChunk → ChkSt) : ∀ (L : List JChunk) (off k : Nat),
    (∀ i (h : i < L.length), (L[i]).id = 10 * (off + i + 1)) → (h : k < L.length) →
    (L.map (fun c => (c.id, g c))).find? (·.1 == 10 * (off + k + 1)) = some (10 * (off + k + 1), g L[k]) := by
  intro L
  induction L with
  | nil => intro off k _ h; simp at h
  | cons c r ih =>
    intro off k hid h
    cases k with
    | zero =>
      have := hid 0 (by simp)
      simp at this
      simp [this]
    | succ k =>
      have h0 := hid 0 (by simp)
      simp at h0
      have hb : ((c.id, g c).fst == 10 * (off + (k + 1) + 1)) = false := by
        simp [h0]; omega
      rw [List.map_cons, List.find?_cons, hb]
      have := ih (off + 1) k (by
        intro i hi
        have := hid (i + 1) (by simp; omega)
        simp at this
        rw [this]; omega) (by simpa using h)
      have e : off + 1 + k + 1 = off + (k + 1) + 1 := by omega
      rw [e] at this
      simp only [List.getElem_cons_succ]
      exact this

/-- a state whose statuses exist (and that is otherwise the journal of `s0`) -/
structure Ready (s0 s : RangedIter.St) : Prop where
  cks : s.cks = s0.cks
  tss : s.tss = s0.tss
  rmin : s.rmin = s0.rmin
  rmax : s.rmax = s0.rmax
  stats : s.stats = (RangedIter.rebuildStatuses s0).stats
  bkwd : s.bkwd = false

theorem ready_rebuild {s0 : RangedIter.St} (hf : Fresh s0) : Ready s0 (RangedIter.rebuildStatuses s0) := by
  have h := rebuild_fields s0
  exact ⟨h.1, h.2.1, h.2.2.1, h.2.2.2.1, rfl, by rw [h.2.2.2.2.1]; exact hf.fwd⟩

theorem cntOfS_eq {s0 s : RangedIter.St} (hf : Fresh s0) (hc : s.cks = s0.cks) (k : Nat) (h : k < s0.cks.size) :
    RangedIter.cntOfS s (10 * (k + 1)) = (s0.cks[k]).cnt := by
  unfold RangedIter.cntOfS
  have e : 10 * (k + 1) / 10 - 1 = k := by omega
  rw [e, hc]
  simp [h, hf.ids k h]

theorem find_stat {s0 : RangedIter.St} (hf : Fresh s0) (k : Nat) (h : k < s0.cks.size) :
    (RangedIter.rebuildStatuses s0).stats.find? (·.1 == 10 * (k + 1)) = some (10 * (k + 1), stOf s0 k) := by
  rw [rebuild_stats, stOf_eq s0 k h]
  have := find_ids (stFn s0) s0.cks.toList 0 k (by
    intro i hi
    have := hf.ids i (by simpa using hi)
    simpa using this) (by simpa using h)
  simpa using this

theorem getStatus_ready {s0 s : RangedIter.St} (hf : Fresh s0) (hr : Ready s0 s) (k : Nat) (h : k < s0.cks.size) :
    RangedIter.getStatus s (10 * (k + 1)) = (s, stOf s0 k) := by
  unfold RangedIter.getStatus
  simp only [hr.stats, find_stat hf k h]
  have h1 : s.cks.size = (RangedIter.rebuildStatuses s0).stats.length := by
    rw [rebuild_stats, hr.cks]; simp
  have h2 : (stOf s0 k).count = RangedIter.cntOfS s (10 * (k + 1)) := by
    rw [cntOfS_eq hf hr.cks k h, stOf_count s0 k h]
  simp [h1, h2]

theorem getStatus_fresh {s0 : RangedIter.St} (hf : Fresh s0) (k : Nat) (h : k < s0.cks.size) :
    RangedIter.getStatus s0 (10 * (k + 1)) = (RangedIter.rebuildStatuses s0, stOf s0 k) := by
  unfold RangedIter.getStatus
  simp only [hf.stats, List.find?_nil, find_stat hf k h]
  rfl

/-! ## 3. the abstract side: what remains to be delivered -/

/-- positions of a chunk's window from `p` on -/
def win (st : ChkSt) (p : Nat) : List Nat := List.range' p (min st.count (st.maxPos + 1) - p)

/-- the windows of the chunks `j, j+1, …` -/
def JP (s0 : RangedIter.St) (j : Nat) : List (Nat × Nat) :=
  PartScan.journalPositions ((PipeRead.statuses s0).drop j) j

/-- what remains when chunk `k` is open at `p` -/
def rem (s0 : RangedIter.St) (k p : Nat) : List (Nat × Nat) :=
  (win (stOf s0 k) p).map (fun q => (k, q)) ++ JP s0 (k + 1)

theorem JP_end (s0 : RangedIter.St) (j : Nat) (h : s0.cks.size ≤ j) : JP s0 j = [] := by
  unfold JP
  rw [List.drop_eq_nil_of_le (by rw [statuses_length]; exact h)]
  rfl

theorem JP_step (s0 : RangedIter.St) (j : Nat) (h : j < s0.cks.size) : JP s0 j = rem s0 j (stOf s0 j).minPos := by
  unfold JP rem
  have hl : j < (PipeRead.statuses s0).length := by rw [statuses_length]; exact h
  rw [List.drop_eq_getElem_cons hl]
  simp only [PartScan.journalPositions]
  rw [PartScan.windowPositions_eq]
  have : stOf s0 j = (PipeRead.statuses s0)[j] := by unfold stOf; simp [hl]
  rw [this]
  rfl

theorem win_cons (st : ChkSt) (p : Nat) (h1 : p < st.count) (h2 : p ≤ st.maxPos) : win st p = p :: win st (p + 1) := by
  unfold win
  have e : min st.count (st.maxPos + 1) - p = (min st.count (st.maxPos + 1) - (p + 1)) + 1 := by omega
  rw [e, List.range'_succ]

theorem win_nil (st : ChkSt) (p : Nat) (h : p ≥ st.count ∨ p > st.maxPos) : win st p = [] := by
  unfold win
  have e : min st.count (st.maxPos + 1) - p = 0 := by omega
  rw [e]; rfl

theorem rem_cons (s0 : RangedIter.St) (k p : Nat) (h1 : p < (stOf s0 k).count) (h2 : p ≤ (stOf s0 k).maxPos) :
    rem s0 k p = (k, p) :: rem s0 k (p + 1) := by
  unfold rem
  rw [win_cons _ _ h1 h2]
  rfl

theorem rem_nil (s0 : RangedIter.St) (k p : Nat) (h : p ≥ (stOf s0 k).count ∨ p > (stOf s0 k).maxPos) :
    rem s0 k p = JP s0 (k + 1) := by
  unfold rem
  rw [win_nil _ _ h]
  rfl

theorem checkAdvance_eq (st : ChkSt) (pI : Nat) :
    checkAdvance st pI = if max st.minPos pI ≥ st.count ∨ max st.minPos pI > st.maxPos then (st.count, false)
      else (max st.minPos pI, true) := by
  have hp : (if pI < st.minPos then st.minPos else pI) = max st.minPos pI := by
    by_cases h : pI < st.minPos
    · simp [h]; omega
    · simp [h]; omega
  simp only [checkAdvance, hp]
  by_cases h : max st.minPos pI ≥ st.count ∨ max st.minPos pI > st.maxPos
  · rw [if_pos h]; rcases h with h | h <;> simp [h]
  · rw [if_neg h]
    have h1 : ¬ max st.minPos pI ≥ st.count := by omega
    have h2 : ¬ max st.minPos pI > st.maxPos := by omega
    simp [h1, h2]

/-! ## 4. `getPosForward` -/

theorem getStatus_pre {s0 s : RangedIter.St} (hf : Fresh s0) (hp : s = s0 ∨ Ready s0 s) (k : Nat) (h : k < s0.cks.size) :
    ∃ s1, RangedIter.getStatus s (10 * (k + 1)) = (s1, stOf s0 k) ∧ Ready s0 s1 ∧ (Ready s0 s → s1 = s) := by
  by_cases hr : Ready s0 s
  · exact ⟨s, getStatus_ready hf hr k h, hr, fun _ => rfl⟩
  · rcases hp with hp | hp
    · subst hp
      exact ⟨_, getStatus_fresh hf k h, ready_rebuild hf, fun h => absurd h hr⟩
    · exact absurd hp hr

theorem go_spec {s0 : RangedIter.St} (hf : Fresh s0) : ∀ (d j : Nat), j + d = s0.cks.size →
    ∀ (s : RangedIter.St) (fuel : Nat) (lastC : JChunk) (lastCnt : Nat), (s = s0 ∨ Ready s0 s) → d + 1 ≤ fuel →
    (∃ s', RangedIter.getPosForward.go fuel s (s0.cks.toList.drop j) 0 lastC lastCnt =
        (s', none, {}, (if d = 0 then (lastC.id, lastCnt) else (10 * s0.cks.size, (stOf s0 (s0.cks.size - 1)).count))) ∧
        JP s0 j = [] ∧ (Ready s0 s → s' = s)) ∨
    (∃ s' k np, RangedIter.getPosForward.go fuel s (s0.cks.toList.drop j) 0 lastC lastCnt =
        (s', some (10 * (k + 1)), stOf s0 k, (10 * (k + 1), np)) ∧ Ready s0 s' ∧ j ≤ k ∧ k < s0.cks.size ∧
        np < (stOf s0 k).count ∧ (stOf s0 k).minPos ≤ np ∧ np ≤ (stOf s0 k).maxPos ∧ JP s0 j = rem s0 k np) := by
  intro d
  induction d with
  | zero =>
    intro j hj s fuel lastC lastCnt hp hfu
    left
    obtain ⟨f, rfl⟩ : ∃ f, fuel = f + 1 := ⟨fuel - 1, by omega⟩
    have : s0.cks.toList.drop j = [] := List.drop_eq_nil_of_le (by simp; omega)
    rw [this]
    refine ⟨s, ?_, JP_end s0 j (by omega), fun _ => rfl⟩
    rw [RangedIter.getPosForward.go]
    simp
  | succ d ih =>
    intro j hj s fuel lastC lastCnt hp hfu
    obtain ⟨f, rfl⟩ : ∃ f, fuel = f + 1 := ⟨fuel - 1, by omega⟩
    have hjs : j < s0.cks.size := by omega
    have hl : j < s0.cks.toList.length := by simpa using hjs
    rw [List.drop_eq_getElem_cons hl]
    have hid : (s0.cks.toList[j]).id = 10 * (j + 1) := by simpa using hf.ids j hjs
    obtain ⟨s1, hg, hr1, hs1⟩ := getStatus_pre hf hp j hjs
    rw [RangedIter.getPosForward.go, hid, hg]
    simp only []
    rw [checkAdvance_eq]
    have hm : max (stOf s0 j).minPos 0 = (stOf s0 j).minPos := by omega
    rw [hm]
    by_cases hc : (stOf s0 j).minPos ≥ (stOf s0 j).count ∨ (stOf s0 j).minPos > (stOf s0 j).maxPos
    · rw [if_pos hc]
      simp only [Bool.false_eq_true, if_false]
      have hJ : JP s0 j = JP s0 (j + 1) := by rw [JP_step s0 j hjs, rem_nil s0 j _ hc]
      rcases ih (j + 1) (by omega) s1 f (s0.cks.toList[j]) (stOf s0 j).count (Or.inr hr1) (by omega) with
        ⟨s', h1, h2, h3⟩ | ⟨s', k, np, h1, h2, h3, h4⟩
      · left
        refine ⟨s', ?_, by rw [hJ, h2], fun h => by rw [h3 hr1, hs1 h]⟩
        rw [h1]
        by_cases hd : d = 0
        · have : j = s0.cks.size - 1 := by omega
          have e : 10 * (j + 1) = 10 * s0.cks.size := by omega
          simp only [hd, if_true, hid, e, ← this]; simp
        · simp [hd]
      · right
        exact ⟨s', k, np, h1, h2, by omega, h4.1, h4.2.1, h4.2.2.1, h4.2.2.2.1, by rw [hJ]; exact h4.2.2.2.2⟩
    · rw [if_neg hc]
      simp only [if_true]
      right
      exact ⟨s1, j, (stOf s0 j).minPos, rfl, hr1, Nat.le_refl _, hjs, by omega, Nat.le_refl _, by omega, JP_step s0 j hjs⟩

theorem filter_drop {α : Type} (p : α → Bool) : ∀ (L : List α) (j : Nat),
    (∀ i (h : i < L.length), i < j → p L[i] = false) → (∀ i (h : i < L.length), j ≤ i → p L[i] = true) →
    L.filter p = L.drop j := by
  intro L
  induction L with
  | nil => intro j _ _; simp
  | cons a r ih =>
    intro j h1 h2
    cases j with
    | zero =>
      have : ∀ x ∈ (a :: r), p x = true := by
        intro x hx
        obtain ⟨i, hi, rfl⟩ := List.getElem_of_mem hx
        exact h2 i hi (Nat.zero_le _)
      rw [List.filter_eq_self.mpr this]
      rfl
    | succ j =>
      have h0 := h1 0 (by simp) (by omega)
      simp only [List.getElem_cons_zero] at h0
      rw [List.filter_cons_of_neg (by simp [h0]), List.drop_succ_cons]
      apply ih
      · intro i hi hij
        have := h1 (i + 1) (by simp; omega) (by omega)
        simpa using this
      · intro i hi hij
        have := h2 (i + 1) (by simp; omega) (by omega)
        simpa using this

theorem after_eq {s0 : RangedIter.St} (hf : Fresh s0) (cid j : Nat) (h1 : ∀ i, i < j → 10 * (i + 1) < cid)
    (h2 : cid < 10 * (j + 1)) : s0.cks.toList.filter (fun c => decide (c.id ≥ cid)) = s0.cks.toList.drop j := by
  apply filter_drop
  · intro i hi hij
    have := hf.ids i (by simpa using hi)
    have := h1 i hij
    simp; omega
  · intro i hi hij
    have := hf.ids i (by simpa using hi)
    simp; omega

end Logrange.PipeScan
