import Logrange.Proofs.MixerPosS
import Logrange.Proofs.MixerPosLeaf
/-!
# The in-memory leaf meets `LawfulSourcePosS` (with `sync := True`), incl. the direction-switch law
-/
namespace Logrange.Mixer
namespace Leaf

theorem clamp_inrange' (l : Leaf) (h0 : 0 ≤ l.idx) (h1 : l.idx < l.les.length) : l.clamp = l.idx := by
  unfold clamp
  cases hb : l.bkwd <;> simp <;> omega

/-- the head of the stream in terms of `clamp` -/
theorem view_head_clamp (l : Leaf) (h : l.wf) :
    l.view.head? = if l.clamp < l.les.length ∧ l.clamp ≥ 0 then (l.les[l.clamp.toNat]?).map l.ev else none := by
  rw [← (get_spec l h).1, get_eq]

theorem pview_head (l : Leaf) (h : l.wf) (p : Int × Int) (hp : (pview l).head? = some p) :
    l.clamp < l.les.length ∧ l.clamp ≥ 0 ∧ p = ((l.tags : Int), l.clamp) := by
  simp only [pview, List.head?_map] at hp
  rw [view_head_clamp l.idxLeaf (idxLeaf_wf l h), idxLeaf_clamp, idxLeaf_len] at hp
  split at hp
  · rename_i hc
    have hlt : l.clamp.toNat < l.les.length := by omega
    simp only [idxLeaf, List.getElem?_map, List.getElem?_range hlt, Option.map_some, Option.some.injEq] at hp
    refine ⟨hc.1, hc.2, ?_⟩
    rw [← hp]
    simp only [ev]
    congr 1
    omega
  · simp at hp

instance instLawfulLeafPosS : LawfulSourcePosS Leaf where
  pview := pview
  pview_length := instLawfulLeafPos.pview_length
  sync _ := True
  sync_get _ _ _ := trivial
  sync_next _ _ _ _ := trivial
  sync_release _ _ _ := trivial
  pos_get l h _ p hp := instLawfulLeafPos.pos_get l h p hp
  pview_get := instLawfulLeafPos.pview_get
  pview_next := instLawfulLeafPos.pview_next
  pview_release := instLawfulLeafPos.pview_release
  head_setBackward bk l h _ p hp hpos := by
    obtain ⟨c1, c2, rfl⟩ := pview_head l h p hp
    have hidx : l.idx = l.clamp := by
      have : ((l.tags : Int), l.idx) = ((l.tags : Int), l.clamp) := hpos
      exact (Prod.mk.injEq _ _ _ _ ▸ this).2
    have h0 : 0 ≤ l.idx := by omega
    have h1 : l.idx < l.les.length := by omega
    have hw' : (l.setBackward bk).wf := h
    have hc' : (l.setBackward bk).clamp = l.idx := clamp_inrange' (l.setBackward bk) h0 h1
    refine ⟨?_, ?_, ?_⟩
    · show (pview (l.setBackward bk)).head? = _
      have hne : (pview (l.setBackward bk)).head? ≠ none := by
        simp only [pview, List.head?_map]
        rw [view_head_clamp _ (idxLeaf_wf _ hw'), idxLeaf_clamp, idxLeaf_len, hc']
        have : l.idx < (l.setBackward bk).les.length ∧ l.idx ≥ 0 := ⟨h1, h0⟩
        have hlt : l.idx.toNat < (l.setBackward bk).les.length := by
          have : (l.setBackward bk).les.length = l.les.length := rfl
          omega
        simp [this, idxLeaf, List.getElem?_range hlt]
      cases hq : (pview (l.setBackward bk)).head? with
      | none => exact absurd hq hne
      | some q =>
        obtain ⟨_, _, rfl⟩ := pview_head _ hw' q hq
        rw [hc', ← hidx]; rfl
    · show (l.setBackward bk).view.head? = l.view.head?
      rw [view_head_clamp _ hw', view_head_clamp l h, hc', ← hidx]; rfl
    · show (((l.setBackward bk).tags : Int), (l.setBackward bk).idx) = _
      rw [← hidx]; rfl

end Leaf
end Logrange.Mixer
