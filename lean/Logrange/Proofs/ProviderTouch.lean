import Logrange.Proofs.ProviderSweep
/-!
# The ring is ordered by last touch — `Sorted` is an invariant, not a hypothesis

`touch s e` (ProviderSweep) recovers the time of the last touch of a holder from its expiry time. Every operation that
writes a holder's `expTime`/`busy` (`GetOrCreate` hit, insert, `Release`) writes `now + busyTo` resp. `now + idleTo`
and moves the element to the head of the ring; the sweeps only unlink; the clock only grows. So the ring is ordered by
last touch (head = most recent) and no touch lies in the future: `TouchInv`. With `idleTo ≤ busyTo` this gives `Sorted`
(`Sorted_of_touch_order`), hence the halving bound of ProviderSweep for every reachable state: `sweeper_bound`.
-/
namespace Logrange.Provider
open Logrange.Ring

def TouchInv (s : St) : Prop :=
  s.ring.Pairwise (fun x y => touch s y ≤ touch s x) ∧ ∀ e ∈ s.ring, touch s e ≤ s.now

def clockOKL : Label → Prop
  | .age d => 0 ≤ d
  | _ => True

/-- the clock never goes back -/
def ClockOK (tr : List Label) : Prop := ∀ l ∈ tr, clockOKL l

/-- the touch order together with the (never modified) knobs -/
def TK (s : St) (i b : Int) : Prop := TouchInv s ∧ s.idleTo = i ∧ s.busyTo = b

/-! ## two generic shapes of a step: unlink some elements / put one element at the head with touch = now -/

theorem TK_aux {s s' : St} (h : TouchInv s) (hi : s'.idleTo = s.idleTo) (hb : s'.busyTo = s.busyTo)
    (hnow : s.now ≤ s'.now) (r : List Nat) (hsub : r.Sublist s.ring)
    (hsame : ∀ y ∈ r, (s'.holders y).exp = (s.holders y).exp ∧ (s'.holders y).busy = (s.holders y).busy) :
    r.Pairwise (fun x y => touch s' y ≤ touch s' x) ∧ ∀ e ∈ r, touch s' e ≤ s'.now := by
  have ht : ∀ y ∈ r, touch s' y = touch s y := by
    intro y hy; obtain ⟨h1, h2⟩ := hsame y hy
    simp only [touch, h1, h2, hi, hb]
  constructor
  · refine (List.Pairwise.sublist hsub h.1).imp_of_mem ?_
    intro x y hx hy hxy; rw [ht x hx, ht y hy]; exact hxy
  · intro e he; rw [ht e he]
    have := h.2 e (hsub.subset he); omega

theorem TK_sub {s s' : St} {i b : Int} (h : TK s i b) (hi : s'.idleTo = s.idleTo) (hb : s'.busyTo = s.busyTo)
    (hnow : s.now ≤ s'.now) (hsub : s'.ring.Sublist s.ring)
    (hsame : ∀ y ∈ s'.ring, (s'.holders y).exp = (s.holders y).exp ∧ (s'.holders y).busy = (s.holders y).busy) :
    TK s' i b :=
  ⟨TK_aux h.1 hi hb hnow s'.ring hsub hsame, hi.trans h.2.1, hb.trans h.2.2⟩

theorem TK_head {s s' : St} {i b : Int} (h : TK s i b) (hi : s'.idleTo = s.idleTo) (hb : s'.busyTo = s.busyTo)
    (hnow : s.now ≤ s'.now) (e : Nat) (r : List Nat) (hring : s'.ring = e :: r) (hsub : r.Sublist s.ring)
    (hsame : ∀ y ∈ r, (s'.holders y).exp = (s.holders y).exp ∧ (s'.holders y).busy = (s.holders y).busy)
    (ht : touch s' e = s'.now) : TK s' i b := by
  obtain ⟨a1, a2⟩ := TK_aux h.1 hi hb hnow r hsub hsame
  refine ⟨⟨?_, ?_⟩, hi.trans h.2.1, hb.trans h.2.2⟩
  · rw [hring]
    exact List.pairwise_cons.2 ⟨fun y hy => by rw [ht]; exact a2 y hy, a1⟩
  · intro y hy
    rw [hring] at hy
    rcases List.mem_cons.1 hy with rfl | hy
    · rw [ht]; exact Int.le_refl _
    · exact a2 y hy

theorem TK_init (m : Nat) (i b : Int) : TK (init m i b) i b :=
  ⟨⟨by simp [init], by simp [init]⟩, rfl, rfl⟩

/-! ## the operations -/

theorem TK_lookup {s : St} {i b : Int} (id q p : Nat) (ok : Bool) (j : J s) (h : TK s i b) :
    TK (lookup s id q p ok).1 i b := by
  unfold lookup
  simp only []
  split
  · split
    · rename_i e hg
      split
      · exact h
      · split
        · exact h
        · rename_i c hc
          split
          · exact h
          · refine TK_head h rfl rfl (Int.le_refl _) e (s.ring.erase e) ?_ List.erase_sublist ?_ ?_
            · simp only [toHead, hset, setCur, tearOff, append_single]
            · intro y hy
              have : y ≠ e := ((List.Nodup.mem_erase_iff j.a).1 hy).1
              simp [toHead, hset, setCur, this]
            · simp [touch, toHead, hset, setCur]
    · exact h
  · exact h

theorem TK_create {s : St} {i b : Int} (id q p : Nat) (k : CreateKind) (c n : Nat) (h : TK s i b) :
    TK (create s id q p k c n).1 i b := by
  unfold create
  cases k <;> exact h

theorem TK_insert {s : St} {i b : Int} (c : Nat) (j : J s) (h : TK s i b) : TK (insert true s c).1 i b := by
  unfold insert
  simp only [Bool.true_and]
  split
  · exact h
  · cases hf : s.free with
    | cons f rest =>
      have hfr : f ∉ s.ring := fun hm => j.b2 f hm (by rw [hf]; exact List.mem_cons_self ..)
      refine TK_head h rfl rfl (Int.le_refl _) f s.ring ?_ (List.Sublist.refl _) ?_ ?_
      · simp only [hset, append_single]
      · intro y hy
        have : y ≠ f := fun k => hfr (k ▸ hy)
        simp [hset, this]
      · simp [touch, hset]
    | nil =>
      have hfr : s.nextElem ∉ s.ring := fun hm => by have := j.c _ (Or.inl hm); omega
      refine TK_head h rfl rfl (Int.le_refl _) s.nextElem s.ring ?_ (List.Sublist.refl _) ?_ ?_
      · simp only [hset, append_single]
      · intro y hy
        have : y ≠ s.nextElem := fun k => hfr (k ▸ hy)
        simp [hset, this]
      · simp [touch, hset]

theorem TK_release {s : St} {i b : Int} (c cp : Nat) (j : J s) (h : TK s i b) : TK (release false s c cp).1 i b := by
  unfold release
  simp only [Bool.not_false, Bool.true_and]
  split
  · exact h
  · rename_i e hm
    split
    · exact h
    · split
      · exact h
      · refine TK_head h rfl rfl (Int.le_refl _) e (s.ring.erase e) ?_ List.erase_sublist ?_ ?_
        · simp only [toHead, hset, setCur, tearOff, append_single]
        · intro y hy
          have : y ≠ e := ((List.Nodup.mem_erase_iff j.a).1 hy).1
          simp [toHead, hset, setCur, this]
        · simp [touch, toHead, hset, setCur]

theorem evict_knobs (s : St) (x : Nat) (r : Bool) :
    (evict s x r).idleTo = s.idleTo ∧ (evict s x r).busyTo = s.busyTo := by
  unfold evict
  simp only []
  split
  · exact ⟨rfl, rfl⟩
  · repeat' split
    all_goals exact ⟨rfl, rfl⟩

theorem TK_evict {s : St} {i b : Int} {x : Nat} (k : K s) (hx : x ∈ s.ring) (r : Bool) (h : TK s i b) :
    TK (evict s x r) i b := by
  obtain ⟨c, hc, _⟩ := k.j.e x hx
  obtain ⟨f1, f2, _⟩ := evict_fields hc r
  have kn := evict_knobs s x r
  have hring := (Rest_evict x r k.j k.r hx).2
  refine TK_sub h kn.1 kn.2 (by rw [f1]; exact Int.le_refl _) (by rw [hring]; exact List.erase_sublist) ?_
  intro y _
  rw [f2]
  by_cases hy : y = x <;> simp [hy]

theorem TK_sweepBySizeLoop {i b : Int} (fuel : Nat) : ∀ {s : St}, K s → TK s i b → TK (sweepBySizeLoop fuel s) i b := by
  induction fuel with
  | zero => intro s _ h; exact h
  | succ n ih =>
    intro s k h
    unfold sweepBySizeLoop
    split
    · split
      · exact h
      · rename_i e hl
        have he : e ∈ s.ring := List.mem_of_mem_getLast? (by simp [hl])
        have hk := K_evict e false k he
        have ht := TK_evict k he false h
        simp only []
        split
        · exact ht
        · exact ih hk ht
    · exact h

theorem knobs_sweepByTimeLoop (cnt : Nat) : ∀ (s : St) (e : Nat),
    (sweepByTimeLoop cnt s e).idleTo = s.idleTo ∧ (sweepByTimeLoop cnt s e).busyTo = s.busyTo := by
  induction cnt with
  | zero => intro s e; exact ⟨rfl, rfl⟩
  | succ n ih =>
    intro s e
    unfold sweepByTimeLoop
    simp only []
    split
    · have he := evict_knobs s (prev s.ring e) true
      split
      · exact he
      · exact ⟨(ih _ _).1.trans he.1, (ih _ _).2.trans he.2⟩
    · split
      · exact ⟨rfl, rfl⟩
      · exact ih _ _

theorem knobs_sweepByTime (s : St) : (sweepByTime s).idleTo = s.idleTo ∧ (sweepByTime s).busyTo = s.busyTo := by
  unfold sweepByTime
  split
  · exact ⟨rfl, rfl⟩
  · exact knobs_sweepByTimeLoop _ _ _

theorem TK_sweepByTime {s : St} {i b : Int} (k : K s) (h : TK s i b) : TK (sweepByTime s) i b := by
  have F := (sweepByTime_spec k).1
  have kn := knobs_sweepByTime s
  refine TK_sub h kn.1 kn.2 (by rw [F.now]; exact Int.le_refl _) (by rw [F.ring]; exact List.filter_sublist) ?_
  intro y _; exact ⟨F.hexp y, F.hbusy y⟩

theorem TK_age {s : St} {i b : Int} (d : Int) (hd : 0 ≤ d) (h : TK s i b) : TK (age s d) i b := by
  refine TK_sub h rfl rfl ?_ (List.Sublist.refl _) (fun _ _ => ⟨rfl, rfl⟩)
  show s.now ≤ s.now + d
  omega

/-! ## traces -/

theorem TK_step_split {s : St} {i b : Int} (l : Label) (hs : l.isSplit = true) (k : K s) (hc : clockOKL l)
    (h : TK s i b) : TK (stepL true false s l) i b := by
  cases l with
  | lookup id q p ok => exact TK_lookup id q p ok k.j h
  | create id q p kd c n => exact TK_create id q p kd c n h
  | insert c => exact TK_insert c k.j h
  | get id q p ok kd cache c n => simp [Label.isSplit] at hs
  | release c cp => exact TK_release c cp k.j h
  | age d => exact TK_age d hc h
  | sweepT => exact TK_sweepByTime k h
  | sweepS => exact TK_sweepBySizeLoop _ k h

theorem TK_run_split {i b : Int} (tr : List Label) : ∀ {s : St}, K s → TK s i b → (∀ l ∈ tr, l.isSplit = true) →
    WF s tr → ClockOK tr → TK (run true false s tr) i b := by
  induction tr with
  | nil => intro s _ h _ _ _; exact h
  | cons l tr ih =>
    intro s k h hs wf hc
    have hl := hs l (List.mem_cons_self ..)
    exact ih (K_step_split l hl k wf.1) (TK_step_split l hl k (hc l (List.mem_cons_self ..)) h)
      (fun x hx => hs x (List.mem_cons_of_mem _ hx)) wf.2 (fun x hx => hc x (List.mem_cons_of_mem _ hx))

theorem getParts_clock (s : St) (id q p : Nat) (ok : Bool) (k : CreateKind) (cache : Bool) (c n : Nat) :
    ClockOK (getParts s id q p ok k cache c n) := by
  intro l hl
  unfold getParts at hl
  repeat' split at hl
  all_goals (simp at hl; rcases hl with h | h | h <;> (try subst h) <;> simp_all [clockOKL])

theorem TK_step {s : St} {i b : Int} (l : Label) (k : K s) (wf : wfLabel s l) (hc : clockOKL l) (h : TK s i b) :
    TK (stepL true false s l) i b := by
  cases hl : l.isSplit
  · cases l with
    | get id q p ok kd cache c n =>
      rw [← get_refines_split]
      exact TK_run_split _ k h (getParts_split s id q p ok kd cache c n) (get_parts_wf k.j id q p ok kd cache c n wf)
        (getParts_clock s id q p ok kd cache c n)
    | _ => simp [Label.isSplit] at hl
  · exact TK_step_split l hl k hc h

theorem TK_run {i b : Int} (tr : List Label) : ∀ {s : St}, K s → TK s i b → WF s tr → ClockOK tr →
    TK (run true false s tr) i b := by
  induction tr with
  | nil => intro s _ h _ _; exact h
  | cons l tr ih =>
    intro s k h wf hc
    exact ih (K_step l k wf.1) (TK_step l k wf.1 (hc l (List.mem_cons_self ..)) h) wf.2
      (fun x hx => hc x (List.mem_cons_of_mem _ hx))

/-- the touch order is an invariant of well-formed traces whose clock does not go back -/
theorem TouchInv_run (tr : List Label) {s : St} (k : K s) (h : TouchInv s) (wf : WF s tr) (hc : ClockOK tr) :
    TouchInv (run true false s tr) :=
  (TK_run tr k (⟨h, rfl, rfl⟩ : TK s s.idleTo s.busyTo) wf hc).1

theorem TouchInv_init (m : Nat) (i b : Int) : TouchInv (init m i b) := (TK_init m i b).1

/-- the knobs are never modified -/
theorem knobs_run (tr : List Label) {s : St} (k : K s) (h : TouchInv s) (wf : WF s tr) (hc : ClockOK tr) :
    (run true false s tr).idleTo = s.idleTo ∧ (run true false s tr).busyTo = s.busyTo :=
  (TK_run tr k (⟨h, rfl, rfl⟩ : TK s s.idleTo s.busyTo) wf hc).2

/-- `Sorted` holds in every reachable state (idle timeout ≤ busy timeout, clock monotone) -/
theorem Sorted_reachable (m : Nat) (i b : Int) (hib : i ≤ b) (tr : List Label) (wf : WF (init m i b) tr)
    (hc : ClockOK tr) : Sorted (run true false (init m i b) tr) := by
  obtain ⟨h1, h2, h3⟩ := TK_run tr (K_init m i b) (TK_init m i b) wf hc
  exact Sorted_of_touch_order (by rw [h2, h3]; exact hib) h1.1

/-- in every reachable state with fewer than `2^n` expired holders, `n` sweeps unlink every expired holder and close
    the cursors of the idle ones — no ordering hypothesis -/
theorem sweeper_bound (m : Nat) (i b : Int) (hib : i ≤ b) (tr : List Label) (wf : WF (init m i b) tr) (hc : ClockOK tr)
    (n : Nat)
    (hlt : ((run true false (init m i b) tr).ring.filter (expd (run true false (init m i b) tr))).length < 2 ^ n) :
    ∀ e ∈ (run true false (init m i b) tr).ring,
      ((run true false (init m i b) tr).holders e).exp < (run true false (init m i b) tr).now →
      e ∉ (sweepN n (run true false (init m i b) tr)).ring ∧
      (((run true false (init m i b) tr).holders e).busy = false → ∀ c,
        ((run true false (init m i b) tr).holders e).cur = some c →
        ((sweepN n (run true false (init m i b) tr)).cursors c).closed =
          ((sweepN n (run true false (init m i b) tr)).cursors c).acquired) :=
  sweeps_close n _ (K_run tr (K_init m i b) wf) (Sorted_reachable m i b hib tr wf hc) hlt

end Logrange.Provider
