import Logrange.Proofs.Tags
/-!
# Every name (and every raw piece) `tag.Parse` produces is readable again

`split_pieces_inert`: every piece of a successful `SplitString` is inert (`scan p false = some false`).
`inert_trimSpaces`: `TrimSpaces` preserves inertness. `parsed_names_readable`: the names of a parsed set are
non-empty, trimmed and inert, so the only `safeKey` defect reachable through `tag.Parse` is a leading `{`
(`parsed_names_safeKey`).
-/
namespace Logrange.Proofs.ParsedKeys
open Go Logrange.Quote Logrange.KV Logrange.Tags Logrange.Proofs.KV Logrange.Proofs.Tags

/-! ## 1. the pieces of a successful split are inert -/

theorem splitGo_nil_inert (b ex : Bool) (cur : Bytes) (out ps : List Bytes)
    (hc : scan cur.reverse false = some b) (ho : ∀ p ∈ out, scan p false = some false)
    (h : splitGo [] ⟨b, ex, cur, out⟩ = some ps) : ∀ p ∈ ps, scan p false = some false := by
  rw [splitGo.eq_def] at h
  simp only [] at h
  cases b with
  | true => simp at h
  | false =>
    simp only [Bool.false_eq_true, if_false, Option.some.injEq] at h
    subst h
    intro p hp
    rw [List.mem_reverse] at hp
    rcases List.mem_cons.mp hp with hp | hp
    · rw [hp]; exact hc
    · exact ho p hp

/-- invariant of `splitGo`: the current piece, scanned from outside a string, agrees with the in-string flag, and
every closed piece is inert -/
theorem splitGo_pieces_inert : ∀ (n : Nat) (rest : Bytes), rest.length ≤ n →
    ∀ (b ex : Bool) (cur : Bytes) (out ps : List Bytes),
    scan cur.reverse false = some b → (∀ p ∈ out, scan p false = some false) →
    splitGo rest ⟨b, ex, cur, out⟩ = some ps → ∀ p ∈ ps, scan p false = some false := by
  intro n
  induction n with
  | zero =>
    intro rest hr b ex cur out ps hc ho h
    have : rest = [] := List.eq_nil_of_length_eq_zero (by omega)
    subst this
    exact splitGo_nil_inert b ex cur out ps hc ho h
  | succ n ih =>
    intro rest hr b ex cur out ps hc ho h
    match rest, hr, h with
    | [], _, h => exact splitGo_nil_inert b ex cur out ps hc ho h
    | c :: rest', hr, h =>
      simp only [List.length_cons] at hr
      rw [splitGo.eq_def] at h
      simp only [] at h
      by_cases hq : c == DQ
      · simp only [hq, if_true] at h
        refine ih rest' (by omega) (!b) ex (c :: cur) out ps ?_ ho h
        rw [List.reverse_cons, scan_append _ _ _ _ hc, scan.eq_def]
        simp [hq, scan]
      · simp only [hq] at h
        by_cases hb : (c == BS && b) = true
        · simp only [hb, if_true] at h
          match rest', hr, h with
          | [], _, h => simp at h
          | d :: rest'', hr, h =>
            simp only [List.length_cons] at hr
            simp only at h
            have hbt : b = true := by simp at hb; exact hb.2
            subst hbt
            refine ih rest'' (by omega) true ex (d :: c :: cur) out ps ?_ ho h
            have e2 : (d :: c :: cur).reverse = cur.reverse ++ [c, d] := by simp
            rw [e2, scan_append _ _ _ _ hc, scan.eq_def]
            simp only []
            simp only [hq, hb, if_true]
            simp [scan]
        · simp only [hb] at h
          by_cases hs : ((c == EQ || c == CM) && !b) = true
          · simp only [hs, if_true] at h
            have hbf : b = false := by simp at hs; exact hs.2
            subst hbf
            by_cases hx : ((c == EQ) != ex) = true
            · simp [hx] at h
            · simp only [hx] at h
              refine ih rest' (by omega) false (!ex) [] (cur.reverse :: out) ps (by simp [scan]) ?_ h
              intro p hp
              rcases List.mem_cons.mp hp with hp | hp
              · rw [hp]; exact hc
              · exact ho p hp
          · simp only [hs] at h
            refine ih rest' (by omega) b ex (c :: cur) out ps ?_ ho h
            rw [List.reverse_cons, scan_append _ _ _ _ hc, scan.eq_def]
            simp only []
            simp only [hq, hb, hs]
            simp [scan]

/-- **Every piece a successful split returns is inert** -/
theorem split_pieces_inert (s : Bytes) (ps : List Bytes) (h : splitString s = some ps) :
    ∀ p ∈ ps, scan p false = some false := by
  unfold splitString at h
  exact splitGo_pieces_inert s.length s (Nat.le_refl _) false true [] [] ps (by simp [scan])
    (by intro p hp; cases hp) h

/-! ## 2. `TrimSpaces` preserves inertness -/

theorem scan_SP_cons (r : Bytes) (b : Bool) : scan (SP :: r) b = scan r b := by
  rw [scan.eq_def]
  have h1 : (SP == DQ) = false := by decide
  have h2 : (SP == BS) = false := by decide
  have h3 : (SP == EQ) = false := by decide
  have h4 : (SP == CM) = false := by decide
  simp [h1, h2, h3, h4]

theorem scan_dropWhile_SP (p : Bytes) (b : Bool) : scan (p.dropWhile (· == SP)) b = scan p b := by
  induction p with
  | nil => rfl
  | cons c r ih =>
    by_cases hc : c = SP
    · subst hc
      rw [scan_SP_cons]
      simpa using ih
    · simp [hc]

/-- a blank at the end of a piece that ends outside a string was scanned outside a string (it is not the byte
skipped by a backslash: after that byte the flag is still `true`) -/
theorem scan_snoc_SP : ∀ (n : Nat) (p : Bytes), p.length ≤ n → ∀ (b : Bool),
    scan (p ++ [SP]) b = some false → scan p b = some false := by
  intro n
  induction n with
  | zero =>
    intro p hp b h
    have : p = [] := List.eq_nil_of_length_eq_zero (by omega)
    subst this
    rw [List.nil_append, scan_SP_cons] at h
    exact h
  | succ n ih =>
    intro p hp b h
    match p, hp, h with
    | [], _, h =>
      rw [List.nil_append, scan_SP_cons] at h
      exact h
    | c :: p', hp, h =>
      simp only [List.length_cons] at hp
      rw [List.cons_append, scan.eq_def] at h
      simp only [] at h
      rw [scan.eq_def]
      simp only []
      by_cases hq : c == DQ
      · simp only [hq, if_true] at h ⊢
        exact ih p' (by omega) (!b) h
      · simp only [hq] at h ⊢
        by_cases hb : (c == BS && b) = true
        · simp only [hb, if_true] at h ⊢
          match p', hp, h with
          | [], _, h =>
            have hbt : b = true := by simp at hb; exact hb.2
            subst hbt
            simp [scan] at h
          | d :: p'', hp, h =>
            simp only [List.length_cons] at hp
            simp only [List.cons_append] at h
            simp only []
            exact ih p'' (by omega) b h
        · simp only [hb] at h ⊢
          by_cases hs : ((c == EQ || c == CM) && !b) = true
          · simp [hs] at h
          · simp only [hs] at h ⊢
            exact ih p' (by omega) b h

theorem scan_reverse_dropWhile_SP (q : Bytes) (h : scan q.reverse false = some false) :
    scan (q.dropWhile (· == SP)).reverse false = some false := by
  induction q with
  | nil => exact h
  | cons c r ih =>
    by_cases hc : c = SP
    · subst hc
      rw [List.reverse_cons] at h
      have := scan_snoc_SP r.reverse.length r.reverse (Nat.le_refl _) false h
      simpa using ih this
    · simpa [hc] using h

/-- **Trimming blanks preserves inertness** -/
theorem inert_trimSpaces (p : Bytes) (h : scan p false = some false) :
    scan (trimSpaces p) false = some false := by
  unfold trimSpaces
  apply scan_reverse_dropWhile_SP
  rw [List.reverse_reverse, scan_dropWhile_SP]
  exact h

/-! ## 3. the names of a parsed set -/

theorem head?_dropWhile_SP (l : Bytes) : (l.dropWhile (· == SP)).head? ≠ some SP := by
  induction l with
  | nil => simp
  | cons c r ih =>
    by_cases hc : c = SP
    · subst hc; simpa using ih
    · simp [hc]

theorem getLast?_dropWhile_SP (l : Bytes) (x : UInt8) (h : (l.dropWhile (· == SP)).getLast? = some x) :
    l.getLast? = some x := by
  obtain ⟨t, ht⟩ := List.dropWhile_suffix (l := l) (· == SP)
  rw [← ht, List.getLast?_append, h]
  rfl

theorem trimmed_trimSpaces (p : Bytes) : trimmed (trimSpaces p) = true := by
  unfold trimmed trimSpaces
  simp only [Bool.and_eq_true, bne_iff_ne, ne_eq]
  refine ⟨?_, ?_⟩
  · rw [List.head?_reverse]
    intro h
    have := getLast?_dropWhile_SP _ _ h
    rw [List.getLast?_reverse] at this
    exact head?_dropWhile_SP p this
  · rw [List.getLast?_reverse]
    exact head?_dropWhile_SP _

/-- what `ToMap`'s loop makes of inert pieces: every name is non-empty, trimmed and inert -/
theorem toPairs_names : ∀ (parts : List Bytes) (ps : List (Bytes × Bytes)), toPairs parts = some ps →
    (∀ p ∈ parts, scan p false = some false) →
    ∀ q ∈ ps, q.1 ≠ [] ∧ trimmed q.1 = true ∧ inert q.1 = true
  | [], ps, h, _ => by
    simp only [toPairs, Option.some.injEq] at h
    subst h
    intro q hq; cases hq
  | [_], ps, h, _ => by simp [toPairs] at h
  | k :: v :: rest, ps, h, hin => by
    simp only [toPairs] at h
    by_cases hk : (trimSpaces k).isEmpty = true
    · simp [hk] at h
    · simp only [hk] at h
      cases hv : decodeValue (trimSpaces v) with
      | none => simp [hv] at h
      | some v' =>
        cases hr : toPairs rest with
        | none => simp [hv, hr] at h
        | some r =>
          simp only [hv, hr, Bool.false_eq_true, if_false, Option.some.injEq] at h
          subst h
          intro q hq
          rcases List.mem_cons.mp hq with hq | hq
          · subst hq
            refine ⟨?_, trimmed_trimSpaces k, ?_⟩
            · intro e
              have e' : trimSpaces k = [] := e
              simp [e'] at hk
            · unfold inert
              simp only
              rw [inert_trimSpaces k (hin k List.mem_cons_self)]
              simp
          · exact toPairs_names rest r hr
              (fun p hp => hin p (List.mem_cons_of_mem _ (List.mem_cons_of_mem _ hp))) q hq

theorem foldl_insert_mem (P : Bytes × Bytes → Prop) (ps : List (Bytes × Bytes)) : ∀ (acc : Map),
    (∀ q ∈ acc, P q) → (∀ q ∈ ps, P q) →
    ∀ q ∈ ps.foldl (fun m p => Map.insert p.1 p.2 m) acc, P q := by
  induction ps with
  | nil => intro acc ha _ q hq; exact ha q hq
  | cons p ps ih =>
    intro acc ha hp
    simp only [List.foldl_cons]
    refine ih _ ?_ (fun q hq => hp q (List.mem_cons_of_mem _ hq))
    intro q hq
    rcases mem_insert p.1 p.2 acc q hq with hq | hq
    · rw [hq]; exact hp p List.mem_cons_self
    · exact ha q hq

/-- every entry of `Map.ofPairs ps` is an element of `ps` -/
theorem mem_ofPairs (ps : List (Bytes × Bytes)) (q : Bytes × Bytes) (h : q ∈ Map.ofPairs ps) : q ∈ ps :=
  foldl_insert_mem (· ∈ ps) ps [] (by intro q hq; cases hq) (fun _ hq => hq) q h

theorem toMap_names_readable (t : Bytes) (m : Map) (h : toMap t = some m) :
    ∀ p ∈ m, p.1 ≠ [] ∧ trimmed p.1 = true ∧ inert p.1 = true := by
  unfold toMap at h
  split at h
  · cases h
  · split at h
    · cases h; intro p hp; cases hp
    · split at h
      · cases h
      · rename_i parts hsplit
        split at h
        · cases h
        · rename_i ps hpairs
          cases h
          intro p hp
          exact toPairs_names parts ps hpairs (split_pieces_inert _ parts hsplit) p (mem_ofPairs ps p hp)

/-- **The names of a parsed set are non-empty, trimmed and inert** -/
theorem parsed_names_readable (t : Bytes) (m : Map) (h : parse t = some m) :
    ∀ p ∈ m, p.1 ≠ [] ∧ trimmed p.1 = true ∧ inert p.1 = true := by
  unfold parse at h
  split at h
  · cases h; intro p hp; cases hp
  · exact toMap_names_readable t m h

/-- **The only name defect reachable through `tag.Parse` is a leading `{`** -/
theorem parsed_names_safeKey (t : Bytes) (m : Map) (h : parse t = some m) :
    ∀ p ∈ m, safeKey p.1 = true ∨ p.1.head? = some LB := by
  intro p hp
  obtain ⟨h1, h2, h3⟩ := parsed_names_readable t m h p hp
  by_cases hl : p.1.head? = some LB
  · exact Or.inr hl
  · left
    unfold safeKey
    have h0 : p.1.isEmpty = false := by
      cases hk : p.1 with
      | nil => exact absurd hk h1
      | cons _ _ => rfl
    simp [h0, h2, h3, hl]

end Logrange.Proofs.ParsedKeys
