import Logrange.Model.FIter
/-! Lemmas for the filtering iterator: `Get` finds the first passing event, draining is `List.filter`. -/
namespace Logrange.FIter
variable {σ α : Type}

/-- fuel-free description of `Get` on a state without a cached event: skip to the first passing event -/
def getSpec (I : It σ α) (q : α → Bool) : Nat → σ → Option α → FIt σ α × Got α
  | 0, s, le => (⟨s, le, false⟩, .eof)
  | n+1, s, le =>
    match I.get s with
    | none => (⟨s, le, false⟩, .eof)
    | some e => if q e then (⟨s, some e, true⟩, .ok e) else getSpec I q n (I.next s) (some e)

theorem get_eq_spec (I : It σ α) (flt rng : α → Bool) (n : Nat) :
    ∀ (s : σ) (le : Option α) (g : Nat), Exhausts I n s → n + 1 ≤ g →
      get I flt rng g ⟨s, le, false⟩ = getSpec I (fun e => flt e && rng e) n s le := by
  induction n with
  | zero =>
    intro s le g hex hg
    obtain ⟨g', rfl⟩ : ∃ g', g = g' + 1 := ⟨g - 1, by omega⟩
    simp only [Exhausts] at hex
    simp [get, getSpec, hex]
  | succ n ih =>
    intro s le g hex hg
    obtain ⟨g', rfl⟩ : ∃ g', g = g' + 1 := ⟨g - 1, by omega⟩
    simp only [Exhausts] at hex
    cases hget : I.get s with
    | none => simp [get, getSpec, hget]
    | some e =>
      have hex' : Exhausts I n (I.next s) := by
        rcases hex with h | h
        · rw [hget] at h; cases h
        · exact h
      by_cases hq : (flt e && rng e) = true
      · simp [get, getSpec, hget, hq]
      · have hq' : (flt e && rng e) = false := by simpa using hq
        simp only [get, getSpec, hget, hq', Bool.false_eq_true, if_false, next]
        exact ih (I.next s) (some e) g' hex' (by omega)

/-- draining through the fiterator = filtering what the wrapped iterator delivers (any sufficient fuel) -/
theorem drain_eq_filter (I : It σ α) (flt rng : α → Bool) (n : Nat) :
    ∀ (s : σ) (le : Option α) (g k : Nat), Exhausts I n s → n + 1 ≤ g → n + 1 ≤ k →
      drain I flt rng g k ⟨s, le, false⟩ = (drainIt I n s).filter (fun e => flt e && rng e) := by
  induction n with
  | zero =>
    intro s le g k hex hg hk
    obtain ⟨k', rfl⟩ : ∃ k', k = k' + 1 := ⟨k - 1, by omega⟩
    have := get_eq_spec I flt rng 0 s le g hex hg
    simp [drain, this, getSpec, drainIt]
  | succ n ih =>
    intro s le g k hex hg hk
    obtain ⟨k', rfl⟩ : ∃ k', k = k' + 1 := ⟨k - 1, by omega⟩
    have hgs := get_eq_spec I flt rng (n+1) s le g hex hg
    simp only [Exhausts] at hex
    cases hget : I.get s with
    | none => simp [drain, hgs, getSpec, hget, drainIt]
    | some e =>
      have hex' : Exhausts I n (I.next s) := by
        rcases hex with h | h
        · rw [hget] at h; cases h
        · exact h
      by_cases hq : (flt e && rng e) = true
      · have := ih (I.next s) (some e) g k' hex' (by omega) (by omega)
        simp only [drain, hgs, getSpec, hget, hq, if_true, next, drainIt]
        rw [this]
        simp [List.filter_cons, hq]
      · have hq' : (flt e && rng e) = false := by simpa using hq
        -- the round that skips `e` is the same round started at the next position
        have hgs' := get_eq_spec I flt rng n (I.next s) (some e) g hex' (by omega)
        have e1 : drain I flt rng g (k'+1) ⟨s, le, false⟩ = drain I flt rng g (k'+1) ⟨I.next s, some e, false⟩ := by
          simp only [drain, hgs, hgs', getSpec, hget, hq', Bool.false_eq_true, if_false]
        rw [e1, ih (I.next s) (some e) g (k'+1) hex' (by omega) (by omega)]
        simp [drainIt, hget, List.filter_cons, hq']

/-! ## the list iterator -/

theorem listIt_exhausts_fwd (items : List α) : ∀ (n i : Nat), n + i = items.length →
    Exhausts (listIt α) n ⟨items, (i : Int), false, false⟩ := by
  intro n
  induction n with
  | zero =>
    intro i h
    simp only [Exhausts, listIt]
    have : ¬ ((i : Int) < 0) := by omega
    simp only [this, if_false, Int.toNat_natCast]
    exact List.getElem?_eq_none (by omega)
  | succ n ih =>
    intro i h
    simp only [Exhausts]
    right
    have := ih (i + 1) (by omega)
    simpa [listIt] using this

theorem listIt_drain_fwd (items : List α) : ∀ (n i : Nat), n + i = items.length →
    drainIt (listIt α) n ⟨items, (i : Int), false, false⟩ = items.drop i := by
  intro n
  induction n with
  | zero => intro i h; simp [drainIt, List.drop_eq_nil_of_le (show items.length ≤ i by omega)]
  | succ n ih =>
    intro i h
    have hi : i < items.length := by omega
    have : ¬ ((i : Int) < 0) := by omega
    have hrec := ih (i + 1) (by omega)
    simp only [drainIt, listIt, this, if_false, Int.toNat_natCast, List.getElem?_eq_getElem hi]
    simp only [listIt] at hrec
    have e : ((i : Int) + 1) = ((i + 1 : Nat) : Int) := by omega
    simp only [Bool.false_eq_true, if_false, e, hrec]
    exact (List.drop_eq_getElem_cons hi).symm

theorem listIt_exhausts_bwd (items : List α) : ∀ (i : Nat),
    Exhausts (listIt α) (i + 1) ⟨items, (i : Int), true, false⟩ := by
  intro i
  induction i with
  | zero =>
    simp only [Exhausts]
    right
    simp [listIt]
  | succ i ih =>
    simp only [Exhausts]
    right
    have e : ((i + 1 : Nat) : Int) - 1 = (i : Int) := by omega
    simp only [listIt, if_true, e]
    exact ih

theorem drainIt_succ {σ α : Type} (I : It σ α) (n : Nat) (s : σ) :
    drainIt I (n+1) s = match I.get s with | none => [] | some e => e :: drainIt I n (I.next s) := rfl

theorem listIt_drain_bwd (items : List α) : ∀ (i : Nat), i < items.length →
    drainIt (listIt α) (i + 1) ⟨items, (i : Int), true, false⟩ = (items.take (i + 1)).reverse := by
  intro i
  induction i with
  | zero =>
    intro h
    cases items with
    | nil => simp at h
    | cons a t => simp [drainIt, listIt]
  | succ i ih =>
    intro h
    have hn : ¬ (((i + 1 : Nat) : Int) < 0) := by omega
    have e : ((i + 1 : Nat) : Int) - 1 = (i : Int) := by omega
    have hg : (listIt α).get ⟨items, ((i + 1 : Nat) : Int), true, false⟩ = some items[i + 1] := by
      simp only [listIt, hn, if_false, Int.toNat_natCast, List.getElem?_eq_getElem h]
    have hx : (listIt α).next ⟨items, ((i + 1 : Nat) : Int), true, false⟩ = ⟨items, (i : Int), true, false⟩ := by
      simp only [listIt, if_true, e]
    rw [drainIt_succ, hg, hx]
    simp only []
    rw [ih (by omega), List.take_succ_eq_append_getElem h, List.reverse_append]
    simp

end Logrange.FIter
