import Logrange.Model.DateFloat
import Logrange.Proofs.Date
/-!
# The float64 model of `-<num>(m|h|d)`: exactness on small integers, monotonicity, non-negativity

No floating point contract is assumed: `f64Round` is a function on naturals and everything below is arithmetic.

* `rne_mono`: rounding `x / y` to the nearest integer (ties to even) is monotone in the rational `x / y`;
* `rawVal_mono`: so is rounding to 53 significant bits (binade by binade; across binades the power of two between
  them separates the results);
* `f64Round_mono`, `f64MulNat_mono`, `f64ToDur_mono`, `relDur_mono`.
-/
/- 2^1074 and 2^2098 occur as literals; let the elaborator evaluate them (GMP) instead of refusing and unfolding `Nat.pow` -/
set_option exponentiation.threshold 4096

namespace Logrange.Date

/-! ## 1. round to the nearest integer -/

theorem rne_ge_div (x y : Nat) : x / y ≤ rne x y := by
  unfold rne; split
  · omega
  · split
    · omega
    · split <;> omega

theorem rne_le_div_succ (x y : Nat) : rne x y ≤ x / y + 1 := by
  unfold rne; split
  · omega
  · split
    · omega
    · split <;> omega

theorem div_le_div_of_cross {x y x' y' : Nat} (hy : 0 < y) (hy' : 0 < y') (h : x * y' ≤ x' * y) :
    x / y ≤ x' / y' := by
  rw [Nat.le_div_iff_mul_le hy']
  have h1 : x / y * y ≤ x := Nat.div_mul_le_self x y
  have h2 : x / y * y' * y ≤ x' * y :=
    calc x / y * y' * y = x / y * y * y' := Nat.mul_right_comm ..
      _ ≤ x * y' := Nat.mul_le_mul_right _ h1
      _ ≤ x' * y := h
  exact Nat.le_of_mul_le_mul_right h2 hy

theorem cross_lt {y r y' r' : Nat} (hy' : 0 < y') (hr : r * y' ≤ r' * y) (h : y < 2 * r) : y' < 2 * r' := by
  apply Nat.lt_of_not_le; intro hc
  have a : y * y' < 2 * r * y' := Nat.mul_lt_mul_of_pos_right h hy'
  have b : 2 * r' * y ≤ y' * y := Nat.mul_le_mul_right y hc
  rw [Nat.mul_assoc] at a b
  rw [Nat.mul_comm y' y] at b
  omega

theorem cross_le {y r y' r' : Nat} (hy : 0 < y) (hr : r * y' ≤ r' * y) (h : y ≤ 2 * r) : y' ≤ 2 * r' := by
  apply Nat.le_of_not_lt; intro hc
  have a : y * y' ≤ 2 * r * y' := Nat.mul_le_mul_right y' h
  have b : 2 * r' * y < y' * y := Nat.mul_lt_mul_of_pos_right hc hy
  rw [Nat.mul_assoc] at a b
  rw [Nat.mul_comm y' y] at b
  omega

/-- rounding to nearest, ties to even, is monotone: `x / y ≤ x' / y'` (as rationals) gives `rne x y ≤ rne x' y'` -/
theorem rne_mono {x y x' y' : Nat} (hy : 0 < y) (hy' : 0 < y') (h : x * y' ≤ x' * y) : rne x y ≤ rne x' y' := by
  have hq := div_le_div_of_cross hy hy' h
  rcases Nat.lt_or_eq_of_le hq with hlt | heq
  · have := rne_le_div_succ x y
    have := rne_ge_div x' y'
    omega
  · have hx := Nat.div_add_mod x y
    have hx' := Nat.div_add_mod x' y'
    have hr : (x % y) * y' ≤ (x' % y') * y := by
      rw [← hx, ← hx', ← heq] at h
      rw [Nat.add_mul, Nat.add_mul] at h
      have e : y * (x / y) * y' = y' * (x / y) * y := by
        rw [Nat.mul_comm y (x / y), Nat.mul_comm y' (x / y), Nat.mul_right_comm]
      omega
    have F1 := cross_lt (y := y) (r := x % y) (y' := y') (r' := x' % y') hy' hr
    have F2 := cross_le (y := y) (r := x % y) (y' := y') (r' := x' % y') hy hr
    unfold rne
    rw [← heq]
    generalize x / y = q at *
    generalize x % y = r at *
    generalize x' % y' = r' at *
    repeat' split
    all_goals omega

theorem rne_one (t : Nat) : rne t 1 = t := by
  simp [rne, Nat.mod_one]

theorem rne_mul_self (t : Nat) {y : Nat} (hy : 0 < y) : rne (t * y) y = t := by
  simp [rne, Nat.mul_mod_left, Nat.mul_div_cancel t hy, hy]

theorem rne_le_of_le {x y t : Nat} (hy : 0 < y) (h : x ≤ t * y) : rne x y ≤ t := by
  have := rne_mono (x := x) (y := y) (x' := t) (y' := 1) hy (by omega) (by omega)
  rwa [rne_one] at this

theorem le_rne_of_le {x y t : Nat} (hy : 0 < y) (h : t * y ≤ x) : t ≤ rne x y := by
  have := rne_mono (x := t) (y := 1) (x' := x) (y' := y) (by omega) hy (by omega)
  rwa [rne_one] at this

/-! ## 2. round to 53 significant bits -/

theorem log2Floor_mono {a b : Nat} (h : a ≤ b) : log2Floor a ≤ log2Floor b := by
  unfold log2Floor
  by_cases ha : a = 0
  · subst ha; simp
  · have h1 := Nat.log2_self_le ha
    have h2 := Nat.lt_log2_self (n := b)
    have h3 : 2 ^ a.log2 < 2 ^ (b.log2 + 1) := by omega
    have := (Nat.pow_lt_pow_iff_right (by omega : 1 < 2)).mp h3
    omega

/-- the rounded value, scaled by 2^1074 -/
def rawVal (N D : Nat) : Nat := rne N (D * 2 ^ binade N D) * 2 ^ binade N D

theorem binade_mono {N D N' D' : Nat} (hD : 0 < D) (hD' : 0 < D') (h : N * D' ≤ N' * D) :
    binade N D ≤ binade N' D' := by
  have := log2Floor_mono (div_le_div_of_cross hD hD' h)
  unfold binade; omega

/-- everything in the binade `k` is below `2^(k+53)` -/
theorem binade_upper {N D : Nat} (hD : 0 < D) : N < 2 ^ 53 * (D * 2 ^ binade N D) := by
  have h1 := Nat.lt_log2_self (n := N / D)
  have h2 : (N / D).log2 + 1 ≤ binade N D + 53 := by unfold binade log2Floor; omega
  have h3 : N / D < 2 ^ (binade N D + 53) := Nat.lt_of_lt_of_le h1 (Nat.pow_le_pow_right (by omega) h2)
  have h4 := (Nat.div_lt_iff_lt_mul hD).mp h3
  have e : 2 ^ (binade N D + 53) * D = 2 ^ 53 * (D * 2 ^ binade N D) := by
    rw [Nat.pow_add, Nat.mul_comm D, ← Nat.mul_assoc, Nat.mul_comm (2 ^ binade N D)]
  omega

/-- everything in a binade `k > 0` is at least `2^(k+52)` -/
theorem binade_lower {N D : Nat} (hD : 0 < D) (hk : 0 < binade N D) : 2 ^ 52 * (D * 2 ^ binade N D) ≤ N := by
  have hne : N / D ≠ 0 := by
    intro h0; unfold binade log2Floor at hk; rw [h0] at hk; simp at hk
  have h1 := Nat.log2_self_le hne
  have h2 : (N / D).log2 = binade N D + 52 := by unfold binade log2Floor at hk ⊢; omega
  rw [h2] at h1
  have h4 := (Nat.le_div_iff_mul_le hD).mp h1
  have e : 2 ^ (binade N D + 52) * D = 2 ^ 52 * (D * 2 ^ binade N D) := by
    rw [Nat.pow_add, Nat.mul_comm D, ← Nat.mul_assoc, Nat.mul_comm (2 ^ binade N D)]
  omega

theorem rawVal_mono {N D N' D' : Nat} (hD : 0 < D) (hD' : 0 < D') (h : N * D' ≤ N' * D) :
    rawVal N D ≤ rawVal N' D' := by
  have hk := binade_mono hD hD' h
  unfold rawVal
  rcases Nat.lt_or_eq_of_le hk with hlt | heq
  · have hp : 0 < 2 ^ binade N D := Nat.two_pow_pos _
    have hp' : 0 < 2 ^ binade N' D' := Nat.two_pow_pos _
    have hu : rne N (D * 2 ^ binade N D) ≤ 2 ^ 53 :=
      rne_le_of_le (Nat.mul_pos hD hp) (Nat.le_of_lt (binade_upper hD))
    have hl : 2 ^ 52 ≤ rne N' (D' * 2 ^ binade N' D') :=
      le_rne_of_le (Nat.mul_pos hD' hp') (binade_lower hD' (by omega))
    calc rne N (D * 2 ^ binade N D) * 2 ^ binade N D
        ≤ 2 ^ 53 * 2 ^ binade N D := Nat.mul_le_mul_right _ hu
      _ = 2 ^ (53 + binade N D) := (Nat.pow_add ..).symm
      _ ≤ 2 ^ (52 + binade N' D') := Nat.pow_le_pow_right (by omega) (by omega)
      _ = 2 ^ 52 * 2 ^ binade N' D' := Nat.pow_add ..
      _ ≤ rne N' (D' * 2 ^ binade N' D') * 2 ^ binade N' D' := Nat.mul_le_mul_right _ hl
  · rw [← heq]
    have hp : 0 < 2 ^ binade N D := Nat.two_pow_pos _
    apply Nat.mul_le_mul_right
    apply rne_mono (Nat.mul_pos hD hp) (Nat.mul_pos hD' hp)
    rw [← Nat.mul_assoc, ← Nat.mul_assoc]
    exact Nat.mul_le_mul_right _ h

/-! ## 3. `f64Round`: order, monotonicity, exactness -/

/-- the order of the values; +Inf is the top -/
def F64.le : F64 → F64 → Prop
  | .fin m k, .fin m' k' => m * 2 ^ k ≤ m' * 2 ^ k'
  | .fin _ _, .inf => True
  | .inf, .fin _ _ => False
  | .inf, .inf => True

/-- the value is the natural number `n` -/
def F64.eqNat (v : F64) (n : Nat) : Prop := v.scaled = some (n * 2 ^ 1074)

theorem F64.le_inf (v : F64) : F64.le v .inf := by cases v <;> trivial

theorem F64.le_refl (v : F64) : F64.le v v := by cases v <;> simp [F64.le]

theorem f64Round_eq (n d : Nat) :
    f64Round n d = if rawVal (n * 2 ^ 1074) d < ovfScaled then
      .fin (rne (n * 2 ^ 1074) (d * 2 ^ binade (n * 2 ^ 1074) d)) (binade (n * 2 ^ 1074) d) else .inf := rfl

/-- correctly rounded conversion is monotone -/
theorem f64Round_mono {a b c d : Nat} (hb : 0 < b) (hd : 0 < d) (h : a * d ≤ c * b) :
    F64.le (f64Round a b) (f64Round c d) := by
  have h' : a * 2 ^ 1074 * d ≤ c * 2 ^ 1074 * b := by
    rw [Nat.mul_right_comm a, Nat.mul_right_comm c]; exact Nat.mul_le_mul_right _ h
  have hm := rawVal_mono hb hd h'
  rw [f64Round_eq, f64Round_eq]
  generalize ovfScaled = B
  split
  · split
    · exact hm
    · trivial
  · split
    · omega
    · trivial

theorem scaled_lt_pow {a E F : Nat} (ha : a < 2 ^ 53) (h : 53 + E ≤ F) : a * 2 ^ E < 2 ^ F := by
  have h1 : a * 2 ^ E < 2 ^ 53 * 2 ^ E := Nat.mul_lt_mul_of_pos_right ha (Nat.two_pow_pos _)
  have h2 : 2 ^ 53 * 2 ^ E = 2 ^ (53 + E) := (Nat.pow_add ..).symm
  have h3 : 2 ^ (53 + E) ≤ 2 ^ F := Nat.pow_le_pow_right (by omega) h
  omega

theorem ovfScaled_eq : ovfScaled = 2 ^ 2098 := rfl

theorem f64Round_exact' (a d : Nat) (hd : 0 < d) (ha : a < 2 ^ 53) :
    ∃ m k, f64Round (a * d) d = .fin m k ∧ m * 2 ^ k = a * 2 ^ 1074 := by
  have eN : a * d * 2 ^ 1074 = a * 2 ^ 1074 * d := Nat.mul_right_comm ..
  have hdiv : a * d * 2 ^ 1074 / d = a * 2 ^ 1074 := by rw [eN]; exact Nat.mul_div_cancel _ hd
  have hlt : a * 2 ^ 1074 < 2 ^ 1127 := scaled_lt_pow ha (by omega)
  have hk : binade (a * d * 2 ^ 1074) d ≤ 1074 := by
    unfold binade log2Floor; rw [hdiv]
    by_cases h0 : a * 2 ^ 1074 = 0
    · rw [h0]; simp
    · have := (Nat.log2_lt h0).mpr hlt
      omega
  obtain ⟨k, hkdef⟩ : ∃ k, binade (a * d * 2 ^ 1074) d = k := ⟨_, rfl⟩
  rw [hkdef] at hk
  have e2 : 2 ^ (1074 - k) * 2 ^ k = (2 : Nat) ^ 1074 := by
    rw [← Nat.pow_add, Nat.sub_add_cancel hk]
  have hp : 0 < d * 2 ^ k := Nat.mul_pos hd (Nat.two_pow_pos _)
  have eN' : a * d * 2 ^ 1074 = a * 2 ^ (1074 - k) * (d * 2 ^ k) := by
    rw [← e2]; ac_rfl
  have hr : rne (a * d * 2 ^ 1074) (d * 2 ^ k) = a * 2 ^ (1074 - k) := by
    rw [eN']; exact rne_mul_self _ hp
  have hv : a * 2 ^ (1074 - k) * 2 ^ k = a * 2 ^ 1074 := by rw [Nat.mul_assoc, e2]
  have hov : a * 2 ^ 1074 < ovfScaled := by
    rewrite [ovfScaled_eq]; exact scaled_lt_pow ha (by omega)
  refine ⟨a * 2 ^ (1074 - k), k, ?_, hv⟩
  rw [f64Round_eq]; unfold rawVal
  rw [hkdef, hr, hv, if_pos hov]

/-- integers below 2^53 are represented exactly -/
theorem f64Round_exact (n : Nat) (h : n < 2 ^ 53) : F64.eqNat (f64Round n 1) n := by
  obtain ⟨m, k, e, hv⟩ := f64Round_exact' n 1 (by omega) h
  rw [Nat.mul_one] at e
  rw [e]; simp only [F64.eqNat, F64.scaled, hv]

/-! ## 4. multiplication and conversion to a duration -/

theorem f64MulNat_inf (mult : Nat) : f64MulNat .inf mult = .inf := rfl

theorem f64MulNat_fin (m k mult : Nat) : f64MulNat (.fin m k) mult = f64Round (m * 2 ^ k * mult) (2 ^ 1074) := rfl

theorem f64MulNat_mono {v v' : F64} {ma mb : Nat} (hv : F64.le v v') (hm : ma ≤ mb) :
    F64.le (f64MulNat v ma) (f64MulNat v' mb) := by
  cases v with
  | inf =>
    cases v' with
    | inf => simp only [f64MulNat_inf]; exact F64.le_inf _
    | fin m' k' => exact False.elim hv
  | fin m k =>
    cases v' with
    | inf => simp only [f64MulNat_inf]; exact F64.le_inf _
    | fin m' k' =>
      have hle : m * 2 ^ k ≤ m' * 2 ^ k' := hv
      have h2 : m * 2 ^ k * ma * 2 ^ 1074 ≤ m' * 2 ^ k' * mb * 2 ^ 1074 :=
        Nat.mul_le_mul_right _ (Nat.mul_le_mul hle hm)
      have h3 := f64Round_mono (a := m * 2 ^ k * ma) (b := 2 ^ 1074) (c := m' * 2 ^ k' * mb) (d := 2 ^ 1074)
        (Nat.two_pow_pos _) (Nat.two_pow_pos _) h2
      simp only [f64MulNat_fin]; exact h3

theorem durBound_eq : durBound = 2 ^ 63 * 2 ^ 1074 := rfl

/-- a conversion inside the int64 range is at most 2^63 - 1 -/
theorem f64ToDur_le_ovf {ovf : Nat} (hovf : 9223372036854775807 ≤ ovf) (v : F64) : f64ToDur ovf v ≤ ovf := by
  cases v with
  | inf => exact Nat.le_refl _
  | fin m k =>
    simp only [f64ToDur]
    split
    · next h =>
      rw [durBound_eq] at h
      have h2 := (Nat.div_lt_iff_lt_mul (Nat.two_pow_pos 1074)).mpr h
      have e : (2 : Nat) ^ 63 = 9223372036854775808 := by decide
      omega
    · exact Nat.le_refl _

theorem f64ToDur_mono {ovf : Nat} (hovf : 9223372036854775807 ≤ ovf) {v v' : F64} (hv : F64.le v v') :
    f64ToDur ovf v ≤ f64ToDur ovf v' := by
  cases v' with
  | inf => exact f64ToDur_le_ovf hovf v
  | fin m' k' =>
    cases v with
    | inf => exact absurd hv (by simp [F64.le])
    | fin m k =>
      have hle : m * 2 ^ k ≤ m' * 2 ^ k' := hv
      have h1 := f64ToDur_le_ovf hovf (.fin m k)
      simp only [f64ToDur] at h1 ⊢
      generalize durBound = B at *
      split
      · split
        · exact Nat.div_le_div_right hle
        · next h => rw [if_pos ‹_›] at h1; exact h1
      · split
        · omega
        · exact Nat.le_refl _

/-! ## 5. `decValue`, `parseFloatDec`, `relDur` -/

theorem takeWhile_allDig : ∀ {s : Bytes}, AllDig s → s.takeWhile isDig = s
  | [], _ => rfl
  | c :: r, h => by
    rw [List.takeWhile_cons, AllDig.head h]; simp only [if_true]
    rw [takeWhile_allDig (AllDig.tail h)]

theorem dropWhile_allDig : ∀ {s : Bytes}, AllDig s → s.dropWhile isDig = []
  | [], _ => rfl
  | c :: r, h => by
    rw [List.dropWhile_cons, AllDig.head h]; simp only [if_true]
    exact dropWhile_allDig (AllDig.tail h)

theorem decValue_allDig {s : Bytes} (h : AllDig s) (hne : s ≠ []) : decValue s = some (natOfDigits s, 1) := by
  unfold decValue
  rw [dropWhile_allDig h, takeWhile_allDig h]
  cases s with
  | nil => exact absurd rfl hne
  | cons c r => rfl

theorem decValue_natDecimal (n : Nat) : decValue (natDecimal n) = some (n, 1) := by
  rw [decValue_allDig (natDecimal_allDig n) (natDecimal_ne_nil n), natOfDigits_natDecimal]

theorem decValue_den_pos {s : Bytes} {n d : Nat} (h : decValue s = some (n, d)) : 0 < d := by
  unfold decValue at h
  split at h
  · split at h
    · cases h
    · cases h; omega
  · split at h
    · cases h; exact Nat.pow_pos (by omega)
    · cases h

theorem parseFloatDec_of_decValue {s : Bytes} {n d : Nat} (hv : decValue s = some (n, d)) :
    parseFloatDec s = F64.finite? (f64Round n d) := by
  unfold parseFloatDec
  rewrite [hv, Option.bind_some]
  rfl

theorem finite?_eq_some {w v : F64} (h : F64.finite? w = some v) : w = v ∧ v ≠ .inf := by
  cases w with
  | inf => cases h
  | fin m k => cases h; exact ⟨rfl, fun e => by cases e⟩

theorem parseFloatDec_eq {s : Bytes} {n d : Nat} {v : F64} (hv : decValue s = some (n, d))
    (h : parseFloatDec s = some v) : f64Round n d = v ∧ v ≠ .inf := by
  rewrite [parseFloatDec_of_decValue hv] at h
  exact finite?_eq_some h
theorem relDur_eq {ovf : Nat} {s : Bytes} {mult : Nat} {r : Int} (h : relDur ovf s mult = some r) :
    ∃ v, parseFloatDec s = some v ∧ r = ((f64ToDur ovf (f64MulNat v mult) : Nat) : Int) := by
  unfold relDur at h
  cases hp : parseFloatDec s with
  | none => rw [hp] at h; cases h
  | some v => rw [hp] at h; cases h; exact ⟨v, rfl, rfl⟩

theorem relDur_of_parse {ovf : Nat} {s : Bytes} {mult : Nat} {v : F64} (h : parseFloatDec s = some v) :
    relDur ovf s mult = some ((f64ToDur ovf (f64MulNat v mult) : Nat) : Int) := by
  unfold relDur; rewrite [h]; rfl

theorem f64ToDur_fin (ovf m k : Nat) :
    f64ToDur ovf (.fin m k) = if m * 2 ^ k < durBound then m * 2 ^ k / 2 ^ 1074 else ovf := rfl

/-- small integer amounts are exact: no rounding anywhere -/
theorem relDur_exact_small (ovf n mult : Nat) (hm : 0 < mult) (h : n * mult < 9007199254740992) :
    relDur ovf (natDecimal n) mult = some ((n * mult : Nat) : Int) := by
  have e53 : (2 : Nat) ^ 53 = 9007199254740992 := by decide
  have hn : n < 2 ^ 53 := by
    have : n * 1 ≤ n * mult := Nat.mul_le_mul_left n hm
    omega
  obtain ⟨m, k, e1, hv1⟩ := f64Round_exact' n 1 (by omega) hn
  rw [Nat.mul_one] at e1
  obtain ⟨m2, k2, e2, hv2⟩ := f64Round_exact' (n * mult) (2 ^ 1074) (Nat.two_pow_pos _) (by omega)
  have hp : parseFloatDec (natDecimal n) = some (.fin m k) := by
    rewrite [parseFloatDec_of_decValue (decValue_natDecimal n), e1]; rfl
  have hmul : f64MulNat (.fin m k) mult = .fin m2 k2 := by
    rw [f64MulNat_fin, hv1, Nat.mul_right_comm, e2]
  have hlt : m2 * 2 ^ k2 < durBound := by
    rewrite [hv2, durBound_eq]
    have h63 : n * mult < 2 ^ 63 := by omega
    exact Nat.mul_lt_mul_of_pos_right h63 (Nat.two_pow_pos _)
  have hdur : f64ToDur ovf (.fin m2 k2) = n * mult := by
    rewrite [f64ToDur_fin, if_pos hlt, hv2]; exact Nat.mul_div_cancel _ (Nat.two_pow_pos _)
  rewrite [relDur_of_parse hp, hmul, hdur]; rfl

/-- a larger amount of a larger unit never gives a smaller duration -/
theorem relDur_mono (ovf : Nat) (hovf : 9223372036854775807 ≤ ovf) (sa sb : Bytes) (na da nb db ma mb : Nat)
    (hva : decValue sa = some (na, da)) (hvb : decValue sb = some (nb, db)) (hle : na * db ≤ nb * da)
    (hm : ma ≤ mb) (ra rb : Int) (ha : relDur ovf sa ma = some ra) (hb : relDur ovf sb mb = some rb) :
    ra ≤ rb := by
  obtain ⟨va, hpa, era⟩ := relDur_eq ha
  obtain ⟨vb, hpb, erb⟩ := relDur_eq hb
  obtain ⟨ea, _⟩ := parseFloatDec_eq hva hpa
  obtain ⟨eb, _⟩ := parseFloatDec_eq hvb hpb
  have h1 : F64.le va vb := by
    rw [← ea, ← eb]; exact f64Round_mono (decValue_den_pos hva) (decValue_den_pos hvb) hle
  have h2 := f64ToDur_mono hovf (f64MulNat_mono h1 hm)
  rw [era, erb]; exact Int.ofNat_le.mpr h2

theorem relDur_mono_nat (ovf : Nat) (hovf : 9223372036854775807 ≤ ovf) (a b ma mb : Nat) (hab : a ≤ b)
    (hm : ma ≤ mb) (ra rb : Int) (ha : relDur ovf (natDecimal a) ma = some ra)
    (hb : relDur ovf (natDecimal b) mb = some rb) : ra ≤ rb :=
  relDur_mono ovf hovf _ _ a 1 b 1 ma mb (decValue_natDecimal a) (decValue_natDecimal b) (by omega) hm ra rb ha hb

theorem relDur_nonneg (ovf : Nat) (s : Bytes) (m : Nat) (r : Int) (h : relDur ovf s m = some r) : 0 ≤ r := by
  obtain ⟨v, _, e⟩ := relDur_eq h
  rw [e]; exact Int.natCast_nonneg _

/-- whatever the text: the amount is at most 2^63 - 1 ns (a conversion inside the int64 range) or it is the
platform's out-of-range result -/
theorem relDur_le_ovf (ovf : Nat) (hovf : 9223372036854775807 ≤ ovf) (s : Bytes) (m : Nat) (r : Int)
    (h : relDur ovf s m = some r) : r ≤ (ovf : Int) := by
  obtain ⟨v, _, e⟩ := relDur_eq h
  rw [e]; exact Int.ofNat_le.mpr (f64ToDur_le_ovf hovf _)

theorem f64ToDur_cases (ovf : Nat) (v : F64) : f64ToDur ovf v = ovf ∨ f64ToDur ovf v < 9223372036854775808 := by
  cases v with
  | inf => exact Or.inl rfl
  | fin m k =>
    rewrite [f64ToDur_fin]
    split
    · next h =>
      rewrite [durBound_eq] at h
      have h2 := (Nat.div_lt_iff_lt_mul (Nat.two_pow_pos 1074)).mpr h
      have e : (2 : Nat) ^ 63 = 9223372036854775808 := by decide
      exact Or.inr (by omega)
    · exact Or.inl rfl

/-- a literal is rejected (range error / outside the model), or the amount is inside the int64 range, or it is
exactly the platform's out-of-range result: nothing else can come out -/
theorem relDur_overflow_rejected_or_saturated (ovf : Nat) (s : Bytes) (m : Nat) :
    relDur ovf s m = none ∨
      ∃ r : Nat, relDur ovf s m = some (r : Int) ∧ (r = ovf ∨ r < 9223372036854775808) := by
  cases hp : parseFloatDec s with
  | none => left; unfold relDur; rewrite [hp]; rfl
  | some v => exact Or.inr ⟨_, relDur_of_parse hp, f64ToDur_cases ovf _⟩

/-! ## 6. the model on concrete texts (reference: Python `int(float(s) * mult)`, IEEE binary64) -/

-- "0.1" minutes
example : relDur amd64Ovf [48, 46, 49] 60000000000 = some 6000000000 := by decide +kernel
-- "0.3" minutes: 0.3 is 0.299999999999999988897769753748…, the product rounds back to 18000000000
example : relDur amd64Ovf [48, 46, 51] 60000000000 = some 18000000000 := by decide +kernel
-- "1.5" hours
example : relDur amd64Ovf [49, 46, 53] 3600000000000 = some 5400000000000 := by decide +kernel
-- "4.35" minutes: 260999999999, one below 261000000000 (4.35 is not a binary fraction)
example : relDur amd64Ovf [52, 46, 51, 53] 60000000000 = some 260999999999 := by decide +kernel
-- "106751" days is the last whole day inside the int64 range, "106752" days saturates
example : relDur amd64Ovf [49, 48, 54, 55, 53, 49] 86400000000000 = some 9223286400000000000 := by decide +kernel
example : relDur amd64Ovf [49, 48, 54, 55, 53, 50] 86400000000000 = some 9223372036854775808 := by decide +kernel
example : relDur 9223372036854775807 [49, 48, 54, 55, 53, 50] 86400000000000 = some 9223372036854775807 := by
  decide +kernel
-- "9007199254740993" = 2^53 + 1 is a tie and rounds to the even 2^53
example : parseFloatDec [57, 48, 48, 55, 49, 57, 57, 50, 53, 52, 55, 52, 48, 57, 57, 51] =
    some (.fin 4503599627370496 1075) := by decide +kernel
-- "5." and ".5" are accepted, "." and "1e3" are outside the modelled texts
example : relDur amd64Ovf [53, 46] 60000000000 = some 300000000000 := by decide +kernel
example : relDur amd64Ovf [46, 53] 60000000000 = some 30000000000 := by decide +kernel
example : decValue [46] = none := by decide +kernel
example : decValue [49, 101, 51] = none := by decide +kernel
-- a 310 digit number is a range error of ParseFloat
example : parseFloatDec (49 :: List.replicate 309 48) = none := by decide +kernel

end Logrange.Date
