import Logrange.Proofs.TagsNecessity
/-!
# Necessity of `safeW` for sets of any size whose raw values are inert

`safeW_necessary_inert`: if every value printed raw is inert (`rawInert`) and the line of a well-formed set reads back as the
same set, the set is in `safeW`. Together with `TagsTight.roundtrip_weak`: on `rawInert` sets, `safeW` is EXACTLY the class of
sets that survive emit + re-read (`safeW_iff_inert`). No hypothesis on the first name: a first name starting with `{` is
refuted here (the brace-stripped text yields a strictly shorter first name, which is no name of the set).

Route: `RemoveCurlyBraces` returns the line minus a prefix of blanks/`{` and a suffix of blanks/`}` (`rcb_decomp`); both are
neutral for `SplitString`'s automaton, so the stripped text is again a join of inert pieces — the same pieces except for the
first name and the last printed value (`setLastVal`); `split_items` / `toPairs` give the pairs, the names force the prefix to
be empty, `ofPairs_of_WF` makes the pairs list equal to the set, and every raw value is then read back by
`decodeValue (trimSpaces ·)`, which only works when it is trimmed and starts with no quote (`raw_decode`).
-/
namespace Logrange.Proofs.TagsNecessityN
open Go Logrange.Quote Logrange.KV Logrange.Tags Logrange.Proofs.KV Logrange.Proofs.Tags Logrange.Proofs.ParsedKeys
  Logrange.Proofs.UnquoteFix Logrange.Proofs.TagsNecessity

/-- every value that is printed raw (does not trigger quoting) is inert: SplitString's automaton, started outside a string,
meets no top-level separator in it and ends outside a string (balanced double quotes, no dangling backslash inside them) -/
def rawInert (m : Map) : Bool := m.all (fun p => needsQuote p.2 || inert p.2)

/-! ### RemoveCurlyBraces: what is stripped -/

theorem leadScan_decomp : ∀ (s : Bytes) (cnt : Nat) (r : Bytes) (c : Nat), leadScan s cnt = (r, c) →
    ∃ pre, s = pre ++ r ∧ ∀ x ∈ pre, x = SP ∨ x = LB := by
  intro s
  induction s with
  | nil =>
    intro cnt r c h
    simp only [leadScan, Prod.mk.injEq] at h
    exact ⟨[], by simp [h.1], by simp⟩
  | cons a t ih =>
    intro cnt r c h
    unfold leadScan at h
    by_cases h1 : (a == SP) = true
    · rw [if_pos h1] at h
      obtain ⟨pre, hp, hall⟩ := ih _ _ _ h
      refine ⟨a :: pre, by rw [hp]; rfl, ?_⟩
      intro x hx
      rcases List.mem_cons.mp hx with hx | hx
      · left; rw [hx]; simpa using h1
      · exact hall x hx
    · rw [if_neg h1] at h
      by_cases h2 : (a == LB) = true
      · rw [if_pos h2] at h
        obtain ⟨pre, hp, hall⟩ := ih _ _ _ h
        refine ⟨a :: pre, by rw [hp]; rfl, ?_⟩
        intro x hx
        rcases List.mem_cons.mp hx with hx | hx
        · right; rw [hx]; simpa using h2
        · exact hall x hx
      · rw [if_neg h2] at h
        simp only [Prod.mk.injEq] at h
        exact ⟨[], by simp [h.1], by simp⟩

theorem trailScan_decomp : ∀ (r : Bytes) (n : Int) (rem : Bytes), 0 ≤ n → trailScan r n = (rem, 0) →
    ∃ junk, r = junk ++ rem ∧ (∀ x ∈ junk, x = SP ∨ x = RB) ∧ rem.head? ≠ some RB := by
  intro r
  induction r with
  | nil =>
    intro n rem _ h
    simp only [trailScan, Prod.mk.injEq] at h
    exact ⟨[], by simp [h.1], by simp, by simp [← h.1]⟩
  | cons c r ih =>
    intro n rem hn h
    unfold trailScan at h
    rw [if_pos (by omega)] at h
    by_cases h1 : (c == SP) = true
    · rw [if_pos h1] at h
      obtain ⟨junk, hj, hall, hhd⟩ := ih n rem hn h
      refine ⟨c :: junk, by rw [hj]; rfl, ?_, hhd⟩
      intro x hx
      rcases List.mem_cons.mp hx with hx | hx
      · left; rw [hx]; simpa using h1
      · exact hall x hx
    · rw [if_neg h1] at h
      by_cases h2 : (c == RB) = true
      · rw [if_pos h2] at h
        by_cases hn1 : 0 ≤ n - 1
        · obtain ⟨junk, hj, hall, hhd⟩ := ih (n - 1) rem hn1 h
          refine ⟨c :: junk, by rw [hj]; rfl, ?_, hhd⟩
          intro x hx
          rcases List.mem_cons.mp hx with hx | hx
          · right; rw [hx]; simpa using h2
          · exact hall x hx
        · rw [trailScan_neg r (n - 1) (by omega)] at h
          simp only [Prod.mk.injEq] at h
          omega
      · rw [if_neg h2] at h
        simp only [Prod.mk.injEq] at h
        obtain ⟨h, _⟩ := h
        subst h
        exact ⟨[], rfl, by simp, by simpa using h2⟩

/-- `RemoveCurlyBraces` strips a prefix of blanks and `{` and a suffix of blanks and `}`; what is left starts with no `{`
and ends with no `}` -/
theorem rcb_decomp (t fine : Bytes) (h : removeCurlyBraces t = some fine) (hne : fine ≠ []) :
    ∃ pre suf, t = pre ++ fine ++ suf ∧ (∀ x ∈ pre, x = SP ∨ x = LB) ∧ (∀ x ∈ suf, x = SP ∨ x = RB) ∧
      fine.head? ≠ some LB ∧ fine.getLast? ≠ some RB := by
  unfold removeCurlyBraces at h
  cases hl : leadScan t 0 with
  | mk r c =>
    rw [hl] at h
    obtain ⟨pre, hpre, hpa⟩ := leadScan_decomp t 0 r c hl
    cases r with
    | nil =>
      simp only [] at h
      split at h
      · cases h
      · cases h; exact absurd rfl hne
    | cons x tl =>
      simp only [] at h
      cases ht : trailScan tl.reverse (c : Int) with
      | mk rem cnt =>
        rw [ht] at h
        simp only [] at h
        split at h
        · cases h
        · rename_i hc
          cases h
          simp only [Bool.or_eq_true, bne_iff_ne, ne_eq, not_or, Decidable.not_not] at hc
          obtain ⟨hrne, hcnt⟩ := hc
          subst hcnt
          obtain ⟨junk, hj, hja, hhd⟩ := trailScan_decomp _ _ _ (by omega) ht
          have htl : tl = rem.reverse ++ junk.reverse := by
            have := congrArg List.reverse hj
            simpa using this
          refine ⟨pre, junk.reverse, ?_, hpa, ?_, ?_, ?_⟩
          · rw [hpre, htl]; simp
          · intro y hy; exact hja y (by simpa using hy)
          · have := (leadScan_head t 0 x tl c hl).2
            simpa using this
          · cases rem with
            | nil => simp at hrne
            | cons a rr =>
              have e : x :: (a :: rr).reverse = (x :: rr.reverse) ++ [a] := by simp
              rw [e, List.getLast?_concat]
              simpa using hhd

/-! ### bytes the automaton ignores -/

theorem scan_cons_neutral (c : UInt8) (r : Bytes) (b : Bool) (h1 : (c == DQ) = false) (h2 : (c == BS) = false)
    (h3 : (c == EQ) = false) (h4 : (c == CM) = false) : scan (c :: r) b = scan r b := by
  rw [scan.eq_def]; simp [h1, h2, h3, h4]

theorem scan_neutral_prefix : ∀ (pre r : Bytes) (b : Bool), (∀ x ∈ pre, x = SP ∨ x = LB) →
    scan (pre ++ r) b = scan r b := by
  intro pre
  induction pre with
  | nil => intro r b _; rfl
  | cons a pre ih =>
    intro r b h
    have ih' := ih r b (fun x hx => h x (List.mem_cons_of_mem _ hx))
    rcases h a List.mem_cons_self with e | e
    · subst e
      rw [List.cons_append, scan_cons_neutral _ _ _ (by decide) (by decide) (by decide) (by decide)]; exact ih'
    · subst e
      rw [List.cons_append, scan_cons_neutral _ _ _ (by decide) (by decide) (by decide) (by decide)]; exact ih'

/-- `ParsedKeys.scan_snoc_SP` for any byte the automaton ignores -/
theorem scan_snoc_neutral (c0 : UInt8) (n1 : (c0 == DQ) = false) (n2 : (c0 == BS) = false) (n3 : (c0 == EQ) = false)
    (n4 : (c0 == CM) = false) : ∀ (n : Nat) (p : Bytes), p.length ≤ n → ∀ (b : Bool),
    scan (p ++ [c0]) b = some false → scan p b = some false := by
  intro n
  induction n with
  | zero =>
    intro p hp b h
    have : p = [] := List.eq_nil_of_length_eq_zero (by omega)
    subst this
    rw [List.nil_append, scan_cons_neutral c0 [] b n1 n2 n3 n4] at h
    exact h
  | succ n ih =>
    intro p hp b h
    match p, hp, h with
    | [], _, h =>
      rw [List.nil_append, scan_cons_neutral c0 [] b n1 n2 n3 n4] at h
      exact h
    | c :: p', hp, h =>
      simp only [List.length_cons] at hp
      rw [List.cons_append, scan.eq_def] at h
      simp only [] at h
      rw [scan.eq_def]
      simp only []
      by_cases hq : c == DQ
      · simp only [hq, if_true] at h ⊢
        exact ih p' (by omega) (!b) h
      · simp only [hq] at h ⊢
        by_cases hb : (c == BS && b) = true
        · simp only [hb, if_true] at h ⊢
          match p', hp, h with
          | [], _, h =>
            have hbt : b = true := by simp at hb; exact hb.2
            subst hbt
            simp [scan] at h
          | d :: p'', hp, h =>
            simp only [List.length_cons] at hp
            simp only [List.cons_append] at h
            simp only []
            exact ih p'' (by omega) b h
        · simp only [hb] at h ⊢
          by_cases hs : ((c == EQ || c == CM) && !b) = true
          · simp [hs] at h
          · simp only [hs] at h ⊢
            exact ih p' (by omega) b h

theorem scan_strip_suffix : ∀ (suf : Bytes), (∀ x ∈ suf, x = SP ∨ x = RB) → ∀ (p : Bytes),
    scan (p ++ suf) false = some false → scan p false = some false := by
  intro suf
  induction suf with
  | nil => intro _ p h; simpa using h
  | cons a s ih =>
    intro hs p h
    have e : p ++ a :: s = (p ++ [a]) ++ s := by simp
    rw [e] at h
    have h1 := ih (fun x hx => hs x (List.mem_cons_of_mem _ hx)) (p ++ [a]) h
    rcases hs a List.mem_cons_self with e | e
    · subst e
      exact scan_snoc_neutral _ (by decide) (by decide) (by decide) (by decide) p.length p (Nat.le_refl _) false h1
    · subst e
      exact scan_snoc_neutral _ (by decide) (by decide) (by decide) (by decide) p.length p (Nat.le_refl _) false h1

/-! ### cutting a prefix off the first name, a suffix off the last value -/

theorem prefix_split : ∀ (pre X k Y : Bytes), (∀ x ∈ pre, x ≠ EQ) → pre ++ X = k ++ EQ :: Y →
    ∃ k', k = pre ++ k' ∧ X = k' ++ EQ :: Y := by
  intro pre
  induction pre with
  | nil => intro X k Y _ h; exact ⟨k, rfl, by simpa using h⟩
  | cons a pre ih =>
    intro X k Y hp h
    cases k with
    | nil =>
      simp only [List.cons_append, List.nil_append, List.cons.injEq] at h
      exact absurd h.1 (hp a List.mem_cons_self)
    | cons b k2 =>
      simp only [List.cons_append, List.cons.injEq] at h
      obtain ⟨hab, h⟩ := h
      obtain ⟨k', hk, hX⟩ := ih X k2 Y (fun x hx => hp x (List.mem_cons_of_mem _ hx)) h
      exact ⟨k', by rw [hab, hk]; rfl, hX⟩

theorem suffix_split (suf X Z en : Bytes) (hs : ∀ x ∈ suf, x ≠ EQ) (h : X ++ suf = Z ++ EQ :: en) :
    ∃ en', en = en' ++ suf ∧ X = Z ++ EQ :: en' := by
  have hr : suf.reverse ++ X.reverse = en.reverse ++ EQ :: Z.reverse := by
    have := congrArg List.reverse h
    simpa using this
  obtain ⟨k', hk, hX⟩ := prefix_split suf.reverse X.reverse en.reverse Z.reverse
    (fun x hx => hs x (by simpa using hx)) hr
  refine ⟨k'.reverse, ?_, ?_⟩
  · have := congrArg List.reverse hk
    simpa using this
  · have := congrArg List.reverse hX
    simpa using this

/-! ### the printed pairs, with the last printed value replaced -/

/-- a pair as printed: the name and the encoded value -/
def encP (p : Bytes × Bytes) : Bytes × Bytes := (p.1, encTag p.2)

/-- what `ToMap`'s loop makes of a (name piece, value piece) -/
def decP (e : Bytes × Bytes) : Option (Bytes × Bytes) :=
  (decodeValue (trimSpaces e.2)).map (fun v => (trimSpaces e.1, v))

def setLastVal (e : Bytes) : List (Bytes × Bytes) → List (Bytes × Bytes)
  | [] => []
  | [p] => [(p.1, e)]
  | p :: q :: r => p :: setLastVal e (q :: r)

theorem setLastVal_cons2 (e : Bytes) (p q : Bytes × Bytes) (r : List (Bytes × Bytes)) :
    setLastVal e (p :: q :: r) = p :: setLastVal e (q :: r) := rfl

theorem setLastVal_keys (e : Bytes) : ∀ E : List (Bytes × Bytes), (setLastVal e E).map (·.1) = E.map (·.1)
  | [] => rfl
  | [_] => rfl
  | p :: q :: r => by
    rw [setLastVal_cons2, List.map_cons, setLastVal_keys e (q :: r)]
    rfl

theorem setLastVal_ne (e : Bytes) (E : List (Bytes × Bytes)) (h : E ≠ []) : setLastVal e E ≠ [] := by
  cases E with
  | nil => exact absurd rfl h
  | cons p R => cases R <;> simp [setLastVal]

theorem mem_setLastVal (e : Bytes) : ∀ (E : List (Bytes × Bytes)) (x : Bytes × Bytes), x ∈ setLastVal e E →
    ∃ y ∈ E, x.1 = y.1 ∧ (x.2 = y.2 ∨ x.2 = e)
  | [], x, h => by cases h
  | [p], x, h => by
    simp only [setLastVal, List.mem_singleton] at h
    exact ⟨p, List.mem_cons_self, by rw [h], Or.inr (by rw [h])⟩
  | p :: q :: r, x, h => by
    rw [setLastVal_cons2] at h
    rcases List.mem_cons.mp h with h | h
    · exact ⟨p, List.mem_cons_self, by rw [h], Or.inl (by rw [h])⟩
    · obtain ⟨y, hy, h1, h2⟩ := mem_setLastVal e (q :: r) x h
      exact ⟨y, List.mem_cons_of_mem _ hy, h1, h2⟩

theorem head_shape (e : Bytes) (R : List (Bytes × Bytes)) :
    ∃ Y, ∀ k : Bytes, joinItems (((k, e) :: R).map (item id)) = k ++ EQ :: Y := by
  cases R with
  | nil => exact ⟨e, fun k => by simp [joinItems, item]⟩
  | cons q R' => exact ⟨e ++ CM :: joinItems ((q :: R').map (item id)), fun k => by simp [joinItems, item]⟩

theorem joinItems_cons_ne (x : Bytes) (L : List Bytes) (h : L ≠ []) :
    joinItems (x :: L) = x ++ CM :: joinItems L := by
  cases L with
  | nil => exact absurd rfl h
  | cons y r => rfl

theorem last_shape : ∀ (E : List (Bytes × Bytes)), E ≠ [] →
    ∃ Z q, E.getLast? = some q ∧ joinItems (E.map (item id)) = Z ++ EQ :: q.2 ∧
      ∀ e, joinItems ((setLastVal e E).map (item id)) = Z ++ EQ :: e := by
  intro E
  induction E with
  | nil => intro h; exact absurd rfl h
  | cons p R ih =>
    intro _
    cases R with
    | nil => exact ⟨p.1, p, rfl, by simp [joinItems, item], fun e => by simp [setLastVal, joinItems, item]⟩
    | cons q R' =>
      obtain ⟨Z, l, hl, hZ, hZe⟩ := ih (by simp)
      refine ⟨item id p ++ CM :: Z, l, ?_, ?_, ?_⟩
      · rw [List.getLast?_cons_cons]; exact hl
      · rw [List.map_cons, joinItems_cons_ne _ _ (by simp), hZ]; simp
      · intro e
        have hne : (setLastVal e (q :: R')).map (item id) ≠ [] := by
          intro h0
          exact setLastVal_ne e (q :: R') (by simp) (List.map_eq_nil_iff.mp h0)
        rw [setLastVal_cons2, List.map_cons, joinItems_cons_ne _ _ hne, hZe e]; simp

theorem toPairs_inv : ∀ (E ps : List (Bytes × Bytes)),
    toPairs (E.flatMap (fun p => [p.1, p.2])) = some ps → E.map decP = ps.map some := by
  intro E
  induction E with
  | nil => intro ps h; simp [toPairs] at h; subst h; rfl
  | cons p R ih =>
    intro ps h
    simp only [List.flatMap_cons, List.cons_append, List.nil_append, toPairs] at h
    split at h
    · cases h
    · cases hd : decodeValue (trimSpaces p.2) with
      | none => rw [hd] at h; cases h
      | some v =>
        rw [hd] at h
        simp only [] at h
        cases hr : toPairs (R.flatMap (fun p => [p.1, p.2])) with
        | none => rw [hr] at h; cases h
        | some r' =>
          rw [hr] at h
          simp only [Option.some.injEq] at h
          subst h
          simp [decP, hd, ih r' hr]

theorem keys_of_dec : ∀ (E ps : List (Bytes × Bytes)), E.map decP = ps.map some →
    ps.map (·.1) = E.map (fun e => trimSpaces e.1) := by
  intro E
  induction E with
  | nil =>
    intro ps h
    cases ps with
    | nil => rfl
    | cons _ _ => simp at h
  | cons p R ih =>
    intro ps h
    cases ps with
    | nil => simp at h
    | cons a ps' =>
      simp only [List.map_cons, List.cons.injEq] at h
      obtain ⟨h1, h2⟩ := h
      simp only [List.map_cons, List.cons.injEq]
      refine ⟨?_, ih ps' h2⟩
      unfold decP at h1
      cases hd : decodeValue (trimSpaces p.2) with
      | none => rw [hd] at h1; cases h1
      | some v =>
        rw [hd] at h1
        simp only [Option.map_some, Option.some.injEq] at h1
        rw [← h1]

/-- the pairs read from the printed pairs (last printed value replaced by `e'`) are the set itself: every value but the
last is read back from its own encoding, the last from `e'` -/
theorem extract (e' : Bytes) : ∀ m : Map, m ≠ [] → (setLastVal e' (m.map encP)).map decP = m.map some →
    (∃ q, m.getLast? = some q ∧ decodeValue (trimSpaces e') = some q.2) ∧
      ∀ p ∈ m, decodeValue (trimSpaces (encTag p.2)) = some p.2 ∨ m.getLast? = some p := by
  intro m
  induction m with
  | nil => intro h; exact absurd rfl h
  | cons p R ih =>
    intro _ h
    cases R with
    | nil =>
      simp only [List.map_cons, List.map_nil, setLastVal, encP, decP, List.cons.injEq, and_true] at h
      cases hd : decodeValue (trimSpaces e') with
      | none => rw [hd] at h; cases h
      | some v =>
        rw [hd] at h
        simp only [Option.map_some, Option.some.injEq] at h
        refine ⟨⟨p, rfl, by rw [← h]⟩, ?_⟩
        intro x hx
        right
        rw [List.mem_singleton.mp hx]; rfl
    | cons q R' =>
      rw [List.map_cons, List.map_cons, setLastVal_cons2, List.map_cons, List.map_cons (f := some)] at h
      simp only [List.cons.injEq] at h
      obtain ⟨h1, h2⟩ := h
      rw [← List.map_cons (f := encP)] at h2
      obtain ⟨⟨l, hl, hdl⟩, hall⟩ := ih (by simp) h2
      refine ⟨⟨l, by rw [List.getLast?_cons_cons]; exact hl, hdl⟩, ?_⟩
      intro x hx
      rcases List.mem_cons.mp hx with hx | hx
      · left
        subst hx
        unfold decP encP at h1
        cases hd : decodeValue (trimSpaces (encTag x.2)) with
        | none => rw [hd] at h1; cases h1
        | some v =>
          rw [hd] at h1
          simp only [Option.map_some, Option.some.injEq] at h1
          rw [← h1]
      · rcases hall x hx with ha | ha
        · exact Or.inl ha
        · right; rw [List.getLast?_cons_cons]; exact ha

/-- a value read back by `decodeValue` from a text no richer in backslashes/quotes and no longer was not unquoted -/
theorem raw_decode (w v : Bytes) (hs : special w ≤ special v) (hl : w.length ≤ v.length)
    (hd : decodeValue w = some v) : w = v ∧ v.head? ≠ some DQ ∧ v.head? ≠ some BQ := by
  cases w with
  | nil =>
    simp only [decodeValue, Option.some.injEq] at hd
    subst hd
    simp
  | cons c r =>
    unfold decodeValue at hd
    simp only [] at hd
    split at hd
    · rename_i hq
      exfalso
      refine unquote_shrunk_ne (c :: r) v hs hl ?_ hd
      simp only [Bool.or_eq_true, beq_iff_eq] at hq
      rcases hq with hq | hq
      · exact Or.inl (by simp [hq])
      · exact Or.inr (by simp [hq])
    · rename_i hq
      simp only [Option.some.injEq] at hd
      simp only [Bool.or_eq_true, beq_iff_eq, not_or] at hq
      refine ⟨hd, ?_, ?_⟩
      · rw [← hd]; simpa using hq.1
      · rw [← hd]; simpa using hq.2

/-- a raw value that `ToMap` reads back from its own text is non-empty, trimmed and starts with no quote -/
theorem okRaw_of_decode (v : Bytes) (hn : needsQuote v = false) (hin : scan v false = some false)
    (hd : decodeValue (trimSpaces v) = some v) : okRaw v = true := by
  obtain ⟨hvne, _⟩ := needsQuote_false v hn
  obtain ⟨hw1, hw2, hw3⟩ := raw_decode _ _ (special_trimSpaces_le v) (length_trimSpaces_le v) hd
  have htr : trimmed v = true := by
    have := trimmed_trimSpaces v
    rw [hw1] at this; exact this
  have h0 : v.isEmpty = false := by
    cases v with
    | nil => exact absurd rfl hvne
    | cons _ _ => rfl
  unfold okRaw
  simp only [Bool.and_eq_true, bne_iff_ne, ne_eq, Bool.not_eq_true']
  exact ⟨⟨⟨⟨h0, htr⟩, by simp [inert, hin]⟩, hw2⟩, hw3⟩

theorem map_encP_item (m : List (Bytes × Bytes)) : (m.map encP).map (item id) = m.map (item encTag) := by
  rw [List.map_map]
  rfl

/-- **Necessity of `safeW` on sets whose raw values are inert**: if the line of a well-formed set reads back as the same
set, the set is in `safeW` -/
theorem safeW_necessary_inert (m : Map) (hwf : Map.WF m) (hi : rawInert m = true)
    (h : parse (line m) = some m) : safeW m = true := by
  cases m with
  | nil => rfl
  | cons p r =>
    obtain ⟨k1, v1⟩ := p
    have hkey : ∀ x ∈ (k1, v1) :: r, x.1 ≠ [] ∧ trimmed x.1 = true ∧ scan x.1 false = some false := by
      intro x hx
      obtain ⟨a, b, c⟩ := parsed_names_readable _ _ h x hx
      exact ⟨a, b, by simpa [inert] using c⟩
    have henc : ∀ x ∈ (k1, v1) :: r, scan (encTag x.2) false = some false := by
      intro x hx
      unfold encTag
      by_cases hn : needsQuote x.2 = true
      · rw [if_pos hn]
        have := inert_quote Logrange.Proofs.Quote.quoteContract x.2
        simpa [inert] using this
      · rw [if_neg hn]
        have := List.all_eq_true.mp hi x hx
        simpa [hn, inert] using this
    rw [line_of_WF _ hwf] at h
    generalize hL : joinItems (((k1, v1) :: r).map (item encTag)) = L at h
    unfold parse at h
    split at h
    · cases h
    unfold toMap at h
    cases hr : removeCurlyBraces L with
    | none => rw [hr] at h; cases h
    | some fine =>
      rw [hr] at h
      simp only [] at h
      split at h
      · cases h
      rename_i hfe
      have hfne : fine ≠ [] := by intro e; rw [e] at hfe; simp at hfe
      cases hs : splitString fine with
      | none => rw [hs] at h; cases h
      | some parts =>
        rw [hs] at h
        simp only [] at h
        cases hp : toPairs parts with
        | none => rw [hp] at h; cases h
        | some ps =>
          rw [hp] at h
          simp only [Option.some.injEq] at h
          obtain ⟨pre, suf, hdec, hpre, hsuf, hhd, hlastRB⟩ := rcb_decomp _ _ hr hfne
          -- the line is `k1=Y`
          obtain ⟨Y, hY⟩ := head_shape (encTag v1) (r.map encP)
          have hL1 : L = k1 ++ EQ :: Y := by
            rw [← hL, ← map_encP_item]; exact hY k1
          have hpreEQ : ∀ x ∈ pre, x ≠ EQ := by
            intro x hx e
            rcases hpre x hx with h' | h' <;> (rw [h'] at e; exact absurd e (by decide))
          have hsufEQ : ∀ x ∈ suf, x ≠ EQ := by
            intro x hx e
            rcases hsuf x hx with h' | h' <;> (rw [h'] at e; exact absurd e (by decide))
          obtain ⟨k1', hk1, hX⟩ := prefix_split pre (fine ++ suf) k1 Y hpreEQ (by rw [← hL1, hdec]; simp)
          -- the printed pairs with the first name cut
          obtain ⟨Z, q, hq, hZ, hZe⟩ := last_shape ((k1', encTag v1) :: r.map encP) (by simp)
          have hfs : fine ++ suf = Z ++ EQ :: q.2 := by rw [hX, ← hY k1', hZ]
          obtain ⟨en', hen, hfine⟩ := suffix_split suf fine Z q.2 hsufEQ hfs
          have hfineJ : fine = joinItems ((setLastVal en' ((k1', encTag v1) :: r.map encP)).map (item id)) := by
            rw [hZe en']; exact hfine
          -- all pieces are inert
          have hk1' : scan k1' false = some false := by
            have := (hkey (k1, v1) List.mem_cons_self).2.2
            simp only [] at this
            rw [hk1, scan_neutral_prefix pre k1' false hpre] at this
            exact this
          have hE1 : ∀ y ∈ (k1', encTag v1) :: r.map encP, scan y.1 false = some false ∧ scan y.2 false = some false := by
            intro y hy
            rcases List.mem_cons.mp hy with hy | hy
            · rw [hy]; exact ⟨hk1', henc (k1, v1) List.mem_cons_self⟩
            · obtain ⟨x, hx, hxe⟩ := List.mem_map.mp hy
              rw [← hxe]
              exact ⟨(hkey x (List.mem_cons_of_mem _ hx)).2.2, henc x (List.mem_cons_of_mem _ hx)⟩
          have hq2 : scan q.2 false = some false := (hE1 q (List.mem_of_getLast? hq)).2
          have hen' : scan en' false = some false := scan_strip_suffix suf hsuf en' (by rw [← hen]; exact hq2)
          have hin : ∀ x ∈ setLastVal en' ((k1', encTag v1) :: r.map encP),
              scan x.1 false = some false ∧ scan (id x.2) false = some false := by
            intro x hx
            obtain ⟨y, hy, h1, h2⟩ := mem_setLastVal en' _ x hx
            obtain ⟨a, b⟩ := hE1 y hy
            refine ⟨by rw [h1]; exact a, ?_⟩
            rcases h2 with h2 | h2
            · rw [id_eq, h2]; exact b
            · rw [id_eq, h2]; exact hen'
          have hsplit := split_items id (setLastVal en' ((k1', encTag v1) :: r.map encP)) []
            (setLastVal_ne _ _ (by simp)) hin
          unfold splitString at hs
          have e0 : ({} : SS) = { inStr := false, expKV := true, cur := [], out := [] } := rfl
          rw [hfineJ, e0, hsplit] at hs
          simp only [List.reverse_nil, List.nil_append, Option.some.injEq] at hs
          subst hs
          have hdecs := toPairs_inv _ _ hp
          have hkeys := keys_of_dec _ _ hdecs
          -- the names read are the names printed, the first one cut and trimmed
          have hkeysR : ps.map (·.1) = trimSpaces k1' :: r.map (·.1) := by
            rw [hkeys]
            have e1 : (setLastVal en' ((k1', encTag v1) :: r.map encP)).map (fun e => trimSpaces e.1)
                = ((setLastVal en' ((k1', encTag v1) :: r.map encP)).map (·.1)).map trimSpaces := by
              rw [List.map_map]; rfl
            rw [e1, setLastVal_keys, List.map_cons, List.map_cons, List.map_map, List.map_map]
            simp only [List.cons.injEq, true_and]
            apply List.map_congr_left
            intro x hx
            show trimSpaces x.1 = x.1
            exact trimSpaces_of_trimmed _ (hkey x (List.mem_cons_of_mem _ hx)).2.1
          -- nothing was cut off the first name
          have hpre0 : pre = [] := by
            have hmem : (k1, v1) ∈ ps := mem_ofPairs ps _ (by rw [h]; exact List.mem_cons_self)
            have hk : k1 ∈ ps.map (·.1) := List.mem_map.mpr ⟨(k1, v1), hmem, rfl⟩
            rw [hkeysR] at hk
            rcases List.mem_cons.mp hk with e | e
            · have h1 := length_trimSpaces_le k1'
              have hl : k1.length = pre.length + k1'.length := by rw [hk1]; simp
              rw [← e] at h1
              exact List.eq_nil_of_length_eq_zero (by omega)
            · exfalso
              obtain ⟨y, hy, hye⟩ := List.mem_map.mp e
              have hlt := (List.pairwise_cons.mp hwf).1 y hy
              simp only [] at hlt hye
              exact bytesLt_ne hlt hye.symm
          subst hpre0
          simp only [List.nil_append] at hk1
          subst hk1
          have htk1 : trimSpaces k1 = k1 := trimSpaces_of_trimmed _ (hkey (k1, v1) List.mem_cons_self).2.1
          rw [htk1] at hkeysR
          -- so the pairs read are a well-formed list, hence the set itself
          have hpsWF : Map.WF ps := by
            unfold Map.WF
            have hw : (((k1, v1) :: r).map (·.1)).Pairwise (fun a b => bytesLt a b = true) :=
              List.pairwise_map.mpr hwf
            rw [List.map_cons, ← hkeysR] at hw
            exact List.pairwise_map.mp hw
          rw [ofPairs_of_WF ps hpsWF] at h
          subst h
          obtain ⟨⟨ql, hql, hdl⟩, hall⟩ := extract en' ((k1, v1) :: r) (by simp) hdecs
          have hqlm : ql ∈ (k1, v1) :: r := List.mem_of_getLast? hql
          have hqe : q = encP ql := by
            have e : ((k1, encTag v1) :: r.map encP) = ((k1, v1) :: r).map encP := rfl
            rw [e, List.getLast?_map, hql] at hq
            simpa using hq.symm
          subst hqe
          -- the last value, when raw: nothing was cut off it, and it does not end with `}`
          have hlastfact : needsQuote ql.2 = false → okRaw ql.2 = true ∧ ql.2.getLast? ≠ some RB := by
            intro hn
            obtain ⟨hvne, _⟩ := needsQuote_false ql.2 hn
            have hev : encTag ql.2 = ql.2 := by unfold encTag; simp [hn]
            have hv : ql.2 = en' ++ suf := by rw [← hev]; exact hen
            have hsw : special (trimSpaces en') ≤ special ql.2 := by
              have := special_trimSpaces_le en'
              rw [hv, special_append]; omega
            have hlw : (trimSpaces en').length ≤ ql.2.length := by
              have := length_trimSpaces_le en'
              rw [hv, List.length_append]; omega
            obtain ⟨hw1, _, _⟩ := raw_decode _ _ hsw hlw hdl
            have hsuf0 : suf = [] := by
              have h1 := length_trimSpaces_le en'
              have h2 : ql.2.length = en'.length + suf.length := by rw [hv]; simp
              rw [hw1] at h1
              exact List.eq_nil_of_length_eq_zero (by omega)
            subst hsuf0
            simp only [List.append_nil] at hv
            subst hv
            refine ⟨okRaw_of_decode ql.2 hn (by rw [← hev]; exact henc ql hqlm) hdl, ?_⟩
            obtain ⟨c, tl, hc⟩ : ∃ c tl, ql.2 = c :: tl := by
              cases hc : ql.2 with
              | nil => exact absurd hc hvne
              | cons c tl => exact ⟨c, tl, rfl⟩
            have hgl : fine.getLast? = ql.2.getLast? := by
              rw [hfine, hc, List.getLast?_append, List.getLast?_cons_cons]
              cases hg : (c :: tl).getLast? with
              | none => simp at hg
              | some y => simp
            rw [← hgl]; exact hlastRB
          have hall' : ∀ x ∈ (k1, v1) :: r, okPair x = true := by
            intro x hx
            obtain ⟨a, b, c⟩ := hkey x hx
            have hk : okKey x.1 = true := by
              unfold okKey
              have h0 : x.1.isEmpty = false := by
                cases hx1 : x.1 with
                | nil => exact absurd hx1 a
                | cons _ _ => rfl
              simp [h0, b, inert, c]
            unfold okPair
            rw [hk, Bool.true_and]
            by_cases hn : needsQuote x.2 = true
            · simp [hn]
            · have hn' : needsQuote x.2 = false := by simpa using hn
              rw [hn', Bool.false_or]
              have hev : encTag x.2 = x.2 := by unfold encTag; simp [hn']
              rcases hall x hx with hd | hlast
              · rw [hev] at hd
                exact okRaw_of_decode x.2 hn' (by rw [← hev]; exact henc x hx) hd
              · have hxq : ql = x := by
                  rw [hql] at hlast; exact Option.some.inj hlast
                subst hxq
                exact (hlastfact hn').1
          unfold safeW
          simp only [Bool.and_eq_true]
          refine ⟨⟨List.all_eq_true.mpr hall', ?_⟩, ?_⟩
          · unfold firstOK
            simp only [List.head?_cons]
            obtain ⟨c, k', hck⟩ : ∃ c k', k1 = c :: k' := by
              cases hc : k1 with
              | nil => exact absurd hc (hkey (k1, v1) List.mem_cons_self).1
              | cons c k' => exact ⟨c, k', rfl⟩
            have hfh : fine.head? = some c := by
              have := congrArg List.head? hX
              rw [hck] at this
              cases hfc : fine with
              | nil => exact absurd hfc hfne
              | cons f ft => rw [hfc] at this; simpa using this
            rw [hfh] at hhd
            rw [hck]
            simpa using hhd
          · unfold lastOK
            rw [hql]
            simp only []
            by_cases hn : needsQuote ql.2 = true
            · simp [hn]
            · have hn' : needsQuote ql.2 = false := by simpa using hn
              simp [hn', (hlastfact hn').2]

/-- on sets whose raw values are inert, `safeW` is exactly the class of sets that survive emit + re-read -/
theorem safeW_iff_inert (m : Map) (hwf : Map.WF m) (hi : rawInert m = true) :
    parse (line m) = some m ↔ safeW m = true :=
  ⟨safeW_necessary_inert m hwf hi,
   Logrange.Proofs.TagsTight.roundtrip_weak Logrange.Proofs.Quote.quoteContract m hwf⟩

/-! ### a syntactic sufficient condition for `rawInert`: no double quote in a raw value -/

theorem scan_plain : ∀ (v : Bytes), (∀ x ∈ v, x ≠ DQ ∧ x ≠ EQ ∧ x ≠ CM) → scan v false = some false := by
  intro v
  induction v with
  | nil => intro _; rfl
  | cons c r ih =>
    intro h
    obtain ⟨h1, h2, h3⟩ := h c List.mem_cons_self
    have e1 : (c == DQ) = false := by simpa using h1
    have e2 : (c == EQ) = false := by simpa using h2
    have e3 : (c == CM) = false := by simpa using h3
    rw [scan.eq_def]
    simp only [e1, e2, e3, Bool.false_eq_true, if_false, Bool.and_false, Bool.or_false, Bool.false_and]
    exact ih (fun x hx => h x (List.mem_cons_of_mem _ hx))

/-- a set none of whose raw values holds a double quote is `rawInert` -/
theorem rawInert_of_noDQ (m : Map) (h : ∀ p ∈ m, needsQuote p.2 = false → DQ ∉ p.2) : rawInert m = true := by
  unfold rawInert
  apply List.all_eq_true.mpr
  intro p hp
  by_cases hn : needsQuote p.2 = true
  · simp [hn]
  · have hn' : needsQuote p.2 = false := by simpa using hn
    obtain ⟨_, hns⟩ := needsQuote_false p.2 hn'
    have hq := h p hp hn'
    have : scan p.2 false = some false :=
      scan_plain p.2 (fun x hx => ⟨fun e => hq (e ▸ hx), (hns x hx).1, (hns x hx).2⟩)
    simp [hn', inert, this]

/-- **Necessity of `safeW` on sets whose raw values hold no double quote** (no semantic hypothesis left) -/
theorem safeW_iff_noDQ (m : Map) (hwf : Map.WF m) (h : ∀ p ∈ m, needsQuote p.2 = false → DQ ∉ p.2) :
    parse (line m) = some m ↔ safeW m = true :=
  safeW_iff_inert m hwf (rawInert_of_noDQ m h)

end Logrange.Proofs.TagsNecessityN
