import Logrange.Proofs.LqlEngineTrunc
namespace Logrange.Lql
open Logrange.Generated.C12

theorem parseBytes_deep : ∀ b ∈ LP :: condOps, parseBytes b = none := by decide
theorem parseInt0_deep : ∀ b ∈ LP :: condOps, parseInt0 b = none := by decide

theorem deep_val (n : Tok) (hk : n.t ≠ TT.keyword) (h : litMatch n LP = true ∨ isOpTok n = true) : n.v ∈ LP :: condOps := by
  have hk' : (n.t == TT.keyword) = false := by simpa using hk
  rcases h with h | h
  · simp only [litMatch, hk', Bool.false_eq_true, if_false, beq_iff_eq] at h
    rw [h]; exact List.mem_cons_self
  · simp only [isOpTok, List.any_eq_true] at h
    obtain ⟨l, hl, hm⟩ := h
    simp only [litMatch, hk', Bool.false_eq_true, if_false, beq_iff_eq] at hm
    rw [hm]; exact List.mem_cons_of_mem _ hl

/-! ## the direct clause readers as raw reading + conversion -/
def cvo {α : Type} (conv : Bytes → Option α) : Option Bytes → Option (Option α)
  | none => some none
  | some b => (conv b).map some

def convCl {α : Type} (conv : Bytes → Option α) (x : Option (Option Bytes × List Tok)) : Option (Option α × List Tok) :=
  match x with
  | none => none
  | some (ob, r) => (cvo conv ob).map (fun v => (v, r))

theorem dSize_raw (kw : Bytes) (toks : List Tok) : dSizeClause kw toks = convCl parseBytes (rawKw kw .number toks) := by
  cases toks with
  | nil => rfl
  | cons t rest =>
    simp only [dSizeClause, rawKw]
    cases litMatch t kw with
    | false => rfl
    | true =>
      cases rest with
      | nil => rfl
      | cons n r' =>
        by_cases hty : n.t = TT.number
        · simp only [hty, beq_self_eq_true, if_true, convCl, cvo]; cases parseBytes n.v <;> rfl
        · have hty' : (n.t == TT.number) = false := by simpa using hty
          simp [hty', convCl]

theorem dDate_raw (dp : Bytes → Option Int) (kw : Bytes) (toks : List Tok) : dDateClause dp kw toks = convCl dp (rawKw kw .string toks) := by
  cases toks with
  | nil => rfl
  | cons t rest =>
    simp only [dDateClause, rawKw]
    cases litMatch t kw with
    | false => rfl
    | true =>
      cases rest with
      | nil => rfl
      | cons n r' =>
        by_cases hty : n.t = TT.string
        · simp only [hty, beq_self_eq_true, if_true, convCl, cvo]; cases dp n.v <;> rfl
        · have hty' : (n.t == TT.string) = false := by simpa using hty
          simp [hty', convCl]

theorem dInt_raw (kw : Bytes) (toks : List Tok) : dKwClause kw dIntTok toks = convCl parseInt0 (rawKw kw .number toks) := by
  cases toks with
  | nil => rfl
  | cons t rest =>
    simp only [dKwClause, rawKw]
    cases litMatch t kw with
    | false => rfl
    | true =>
      cases rest with
      | nil => rfl
      | cons n r' =>
        simp only [dIntTok, if_true]
        cases hty : n.t == TT.number with
        | false => simp [convCl]
        | true => simp only [if_true, convCl, cvo]; cases parseInt0 n.v <;> rfl

/-! ## TRUNCATE: the four clauses -/
def cls4 : List Cl := [(kwMINSIZE, "MinSize", .number), (kwMAXSIZE, "MaxSize", .number), (kwBEFORE, "Before", .string), (kwMAXDBSIZE, "MaxDbSize", .number)]

def dChain4 (dp : Bytes → Option Int) (t2 : List Tok) : Option (Option Nat × Option Nat × Option Int × Option Nat) :=
  match dSizeClause kwMINSIZE t2 with
  | none => none
  | some (mn, t3) =>
    match dSizeClause kwMAXSIZE t3 with
    | none => none
    | some (mx, t4) =>
      match dDateClause dp kwBEFORE t4 with
      | none => none
      | some (bf, t5) =>
        match dSizeClause kwMAXDBSIZE t5 with
        | none => none
        | some (db, r) => (match r with | [] => some (mn, mx, bf, db) | _ :: _ => none)

def mkTrunc (dry : Bool) (src : Option Source) (q : Option Nat × Option Nat × Option Int × Option Nat) : Truncate :=
  { dryRun := dry, source := src, minSize := q.1, maxSize := q.2.1, before := q.2.2.1, maxDbSize := q.2.2.2 }

theorem dTruncBody_eq (dp : Bytes → Option Int) (f : Nat) (toks : List Tok) :
    dTruncBody dp f toks = (match dOptSource f (dDryRun toks).2 with
      | none => none
      | some (src, t2) => (dChain4 dp t2).map (mkTrunc (dDryRun toks).1 src)) := by
  unfold dTruncBody dChain4
  cases dOptSource f (dDryRun toks).2 with
  | none => rfl
  | some p =>
    obtain ⟨src, t2⟩ := p
    simp only []
    cases dSizeClause kwMINSIZE t2 with
    | none => rfl
    | some p1 =>
      obtain ⟨mn, t3⟩ := p1
      simp only []
      cases dSizeClause kwMAXSIZE t3 with
      | none => rfl
      | some p2 =>
        obtain ⟨mx, t4⟩ := p2
        simp only []
        cases dDateClause dp kwBEFORE t4 with
        | none => rfl
        | some p3 =>
          obtain ⟨bf, t5⟩ := p3
          simp only []
          cases dSizeClause kwMAXDBSIZE t5 with
          | none => rfl
          | some p4 =>
            obtain ⟨db, r⟩ := p4
            cases r <;> rfl

def conv4 (dp : Bytes → Option Int) (o1 o2 o3 o4 : Option Bytes) : Option (Option Nat × Option Nat × Option Int × Option Nat) :=
  (cvo parseBytes o1).bind fun mn => (cvo parseBytes o2).bind fun mx => (cvo dp o3).bind fun bf => (cvo parseBytes o4).bind fun db =>
    some (mn, mx, bf, db)

theorem glue4 (dp : Bytes → Option Int) (t2 : List Tok) :
    (∃ o1 o2 o3 o4, rawChain cls4 t2 = some ([o1, o2, o3, o4], []) ∧ dChain4 dp t2 = conv4 dp o1 o2 o3 o4)
    ∨ ((∀ obs, rawChain cls4 t2 ≠ some (obs, [])) ∧ dChain4 dp t2 = none) := by
  simp only [dChain4, dSize_raw, dDate_raw, rawChain, cls4]
  cases rawKw kwMINSIZE TT.number t2 with
  | none => right; simp [convCl]
  | some p1 =>
    obtain ⟨o1, r1⟩ := p1
    simp only []
    cases rawKw kwMAXSIZE TT.number r1 with
    | none => right; cases h : cvo parseBytes o1 <;> simp [convCl, h]
    | some p2 =>
      obtain ⟨o2, r2⟩ := p2
      simp only []
      cases rawKw kwBEFORE TT.string r2 with
      | none => right; cases h : cvo parseBytes o1 <;> cases h2 : cvo parseBytes o2 <;> simp [convCl, h, h2]
      | some p3 =>
        obtain ⟨o3, r3⟩ := p3
        simp only []
        cases rawKw kwMAXDBSIZE TT.number r3 with
        | none => right; cases h : cvo parseBytes o1 <;> cases h2 : cvo parseBytes o2 <;> cases h3 : cvo dp o3 <;> simp [convCl, h, h2, h3]
        | some p4 =>
          obtain ⟨o4, r4⟩ := p4
          simp only []
          cases r4 with
          | nil =>
            left; refine ⟨o1, o2, o3, o4, rfl, ?_⟩
            cases h : cvo parseBytes o1 <;> cases h2 : cvo parseBytes o2 <;> cases h3 : cvo dp o3 <;> cases h4 : cvo parseBytes o4 <;>
              simp [convCl, conv4, h, h2, h3, h4]
          | cons q r5 =>
            right
            cases h : cvo parseBytes o1 <;> cases h2 : cvo parseBytes o2 <;> cases h3 : cvo dp o3 <;> cases h4 : cvo parseBytes o4 <;>
              simp [convCl, h, h2, h3, h4]
end Logrange.Lql
