import Logrange.Proofs.TIndexId
import Logrange.Proofs.Quote
/-!
# The tag index along runs: fast path, reachable states, racing first writers, persisted keys

Everything here is instantiated with the proved `quoteContract`, so no theorem carries a `QuoteContract` hypothesis.
-/
namespace Logrange.Proofs.TIndexRun
open Go Logrange.KV Logrange.Tags Logrange.TagsEval Logrange.TIndexId Logrange.Proofs.KV Logrange.Proofs.Tags
  Logrange.Proofs.TIndexId Logrange.Proofs.Quote

/-! ## 1. fast path -/

/-- a raw text that hits the map is the canonical line of the stored set and denotes exactly that set -/
theorem fast_path_sound (s : St) (hinv : TInv s) (hsafe : SafeSt s) (raw : Bytes) (td : Desc)
    (h : lookup s.tmap raw = some td) : raw = line td.tags ∧ parse raw = some td.tags := by
  obtain ⟨e, he, hek, hed⟩ := lookup_some h
  obtain ⟨hk, hw, _, _⟩ := hinv.1 e he
  have hrt := roundtrip_core quoteContract e.2.tags hw (hsafe e he)
  have hraw : raw = line td.tags := by rw [← hek, hk, hed]
  refine ⟨hraw, ?_⟩
  rw [hraw, ← hed]
  exact hrt

/-! ## 4. persisted keys -/

theorem tindex_keys_reparse (s : St) (hinv : TInv s) (hsafe : SafeSt s) :
    ∀ e ∈ s.tmap, parse e.1 = some e.2.tags := by
  intro e he
  obtain ⟨hk, hw, _, _⟩ := hinv.1 e he
  rw [hk]
  exact roundtrip_core quoteContract e.2.tags hw (hsafe e he)

theorem loadEntries_map (l : List (Bytes × Desc)) (h : ∀ e ∈ l, parse e.1 = some e.2.tags) :
    loadEntries (l.map (fun e => (e.1, e.2.src))) = some l := by
  induction l with
  | nil => rfl
  | cons x r ih =>
    have hr := ih (fun e he => h e (List.mem_cons_of_mem _ he))
    have hx := h x List.mem_cons_self
    obtain ⟨k, src, tags⟩ := x
    have hx' : parse k = some tags := hx
    simp only [List.map_cons, loadEntries, hx', hr]

theorem load_save (s : St) (hinv : TInv s) (hsafe : SafeSt s) : loadEntries (saveState s) = some s.tmap :=
  loadEntries_map s.tmap (tindex_keys_reparse s hinv hsafe)

/-! ## 2. reachable states -/

/-- every text of the history that the parser accepts denotes a Safe set -/
def SafeOps (ops : List (Bytes × Bool)) : Prop := ∀ op ∈ ops, ∀ m, parse op.1 = some m → safe m = true

theorem safeSt_run (s : St) (ops : List (Bytes × Bool)) (h : SafeSt s) (ho : SafeOps ops) :
    SafeSt (run s ops) := by
  induction ops generalizing s with
  | nil => exact h
  | cons op ops ih =>
    obtain ⟨raw, create⟩ := op
    simp only [run]
    exact ih _ (safeSt_step s raw create h (ho (raw, create) List.mem_cons_self))
      (fun x hx => ho x (List.mem_cons_of_mem _ hx))

theorem safeSt_init : SafeSt {} := by
  intro e he; cases he

theorem reachable_inv (ops : List (Bytes × Bool)) (ho : SafeOps ops) :
    TInv (run {} ops) ∧ SafeSt (run {} ops) :=
  ⟨tinv_run {} ops tinv_init, safeSt_run {} ops safeSt_init ho⟩

theorem same_partition_reachable (ops : List (Bytes × Bool)) (ho : SafeOps ops) (t1 t2 : Bytes) (m1 m2 : Map)
    (hp1 : parse t1 = some m1) (hp2 : parse t2 = some m2) (hne1 : m1 ≠ []) (hne2 : m2 ≠ [])
    (hs1 : safe m1 = true) (hs2 : safe m2 = true) :
    ∃ i j, (getOrCreate (run {} ops) t1 true).2 = .ok i ∧
      (getOrCreate (getOrCreate (run {} ops) t1 true).1 t2 true).2 = .ok j ∧ (i = j ↔ m1 = m2) :=
  same_partition_iff quoteContract (run {} ops) (reachable_inv ops ho).1 (reachable_inv ops ho).2
    t1 t2 m1 m2 hp1 hp2 hne1 hne2 hs1 hs2

/-! ## 3. racing first writers -/

/-- writer `w`: its raw text and the set it denotes -/
def Writers (ws : List (Bytes × Map)) : Prop := ∀ w ∈ ws, parse w.1 = some w.2 ∧ w.2 ≠ [] ∧ safe w.2 = true

theorem runRes_cons (s : St) (raw : Bytes) (ts : List Bytes) :
    runRes s (raw :: ts) = ((runRes (getOrCreate s raw true).1 ts).1,
      (getOrCreate s raw true).2 :: (runRes (getOrCreate s raw true).1 ts).2) := rfl

/-- `runRes` and `run` agree on the state -/
theorem runRes_fst (s : St) (ts : List Bytes) : (runRes s ts).1 = run s (ts.map (fun t => (t, true))) := by
  induction ts generalizing s with
  | nil => rfl
  | cons t ts ih =>
    rw [runRes_cons, List.map_cons]
    simp only [run]
    exact ih _

theorem runRes_length (s : St) (ts : List Bytes) : (runRes s ts).2.length = ts.length := by
  induction ts generalizing s with
  | nil => rfl
  | cons t ts ih =>
    rw [runRes_cons]
    simp only [List.length_cons]
    rw [ih]

/-- one critical section of a writer of the Safe non-empty set `m` -/
theorem writer_step (s : St) (hinv : TInv s) (hsafe : SafeSt s) (t : Bytes) (m : Map)
    (hp : parse t = some m) (hne : m ≠ []) (hs : safe m = true) :
    ∃ i, (getOrCreate s t true).2 = .ok i ∧
      TInv (getOrCreate s t true).1 ∧ SafeSt (getOrCreate s t true).1 ∧
      (∃ e ∈ (getOrCreate s t true).1.tmap, e.2.src = i ∧ e.2.tags = m) ∧
      (∀ e ∈ s.tmap, e ∈ (getOrCreate s t true).1.tmap) ∧
      (∀ e ∈ (getOrCreate s t true).1.tmap, e ∈ s.tmap ∨ e.2.tags = m) := by
  obtain ⟨i, hi, hex, _, hmono⟩ := getOrCreate_spec quoteContract s hinv hsafe t m hp hne hs
  refine ⟨i, hi, tinv_step s t true hinv,
    safeSt_step s t true hsafe (fun m' hm' => by rw [hp] at hm'; cases hm'; exact hs), hex, hmono, ?_⟩
  rcases getOrCreate_cases s t true with e | ⟨tgs, hp', _, _, _, e⟩
  · rw [e]; intro x hx; exact Or.inl hx
  · rw [e]
    intro x hx
    rcases List.mem_cons.mp hx with hx | hx
    · right
      subst hx
      rw [hp] at hp'
      cases hp'
      rfl
    · exact Or.inl hx

/-- the schedule induction: everything the two theorems below need, about the final state of the schedule -/
theorem racing_core (ws : List (Bytes × Map)) : Writers ws → ∀ s, TInv s → SafeSt s →
    TInv (runRes s (ws.map (·.1))).1 ∧ SafeSt (runRes s (ws.map (·.1))).1 ∧
    (∀ e ∈ s.tmap, e ∈ (runRes s (ws.map (·.1))).1.tmap) ∧
    (∀ e ∈ (runRes s (ws.map (·.1))).1.tmap, e ∈ s.tmap ∨ ∃ w ∈ ws, e.2.tags = w.2) ∧
    (∀ w ∈ ws, ∃ e ∈ (runRes s (ws.map (·.1))).1.tmap, e.2.tags = w.2) ∧
    ∃ ids : List Nat, (runRes s (ws.map (·.1))).2 = ids.map Res.ok ∧ ids.length = ws.length ∧
      ∀ (a : Nat) (w : Bytes × Map) (ia : Nat), ws[a]? = some w → ids[a]? = some ia →
        ∃ e ∈ (runRes s (ws.map (·.1))).1.tmap, e.2.src = ia ∧ e.2.tags = w.2 := by
  induction ws with
  | nil =>
    intro _ s hinv hsafe
    refine ⟨hinv, hsafe, fun e he => he, fun e he => Or.inl he, (fun w hw => by cases hw), [], rfl, rfl, ?_⟩
    intro a w ia h
    simp at h
  | cons w ws ih =>
    intro hw s hinv hsafe
    obtain ⟨hp, hne, hs⟩ := hw w List.mem_cons_self
    have hw' : Writers ws := fun x hx => hw x (List.mem_cons_of_mem _ hx)
    obtain ⟨i, hi, hinv1, hsafe1, ⟨e0, he0, he0s, he0t⟩, hmono1, hnew1⟩ :=
      writer_step s hinv hsafe w.1 w.2 hp hne hs
    obtain ⟨hinvF, hsafeF, hmonoF, hnewF, hallF, ids, hids, hlen, hidx⟩ := ih hw' _ hinv1 hsafe1
    rw [List.map_cons, runRes_cons]
    refine ⟨hinvF, hsafeF, fun e he => hmonoF e (hmono1 e he), ?_, ?_, i :: ids, ?_, ?_, ?_⟩
    · intro e he
      rcases hnewF e he with h | ⟨x, hx, hxe⟩
      · rcases hnew1 e h with h' | h'
        · exact Or.inl h'
        · exact Or.inr ⟨w, List.mem_cons_self, h'⟩
      · exact Or.inr ⟨x, List.mem_cons_of_mem _ hx, hxe⟩
    · intro x hx
      rcases List.mem_cons.mp hx with hx | hx
      · rw [hx]; exact ⟨e0, hmonoF e0 he0, he0t⟩
      · exact hallF x hx
    · show (getOrCreate s w.1 true).2 :: _ = _
      rw [hi, hids]
      rfl
    · simp only [List.length_cons, hlen]
    · intro a x ia hx hia
      cases a with
      | zero =>
        simp only [List.getElem?_cons_zero, Option.some.injEq] at hx hia
        subst hx
        subst hia
        exact ⟨e0, hmonoF e0 he0, he0s, he0t⟩
      | succ a =>
        simp only [List.getElem?_cons_succ] at hx hia
        exact hidx a x ia hx hia

/-- for every schedule: every writer gets a partition id, two writers get the same id iff their sets are equal -/
theorem racing_writers_ids (s : St) (hinv : TInv s) (hsafe : SafeSt s) (ws : List (Bytes × Map))
    (hw : Writers ws) :
    ∃ ids : List Nat, (runRes s (ws.map (·.1))).2 = ids.map Res.ok ∧ ids.length = ws.length ∧
      ∀ a b (ha : a < ws.length) (hb : b < ws.length) (ia ib : Nat), ids[a]? = some ia → ids[b]? = some ib →
        (ia = ib ↔ (ws[a]).2 = (ws[b]).2) := by
  obtain ⟨hinvF, _, _, _, _, ids, hids, hlen, hidx⟩ := racing_core ws hw s hinv hsafe
  refine ⟨ids, hids, hlen, ?_⟩
  intro a b ha hb ia ib hia hib
  obtain ⟨ea, hea, heas, heat⟩ := hidx a ws[a] ia (List.getElem?_eq_getElem ha) hia
  obtain ⟨eb, heb, hebs, hebt⟩ := hidx b ws[b] ib (List.getElem?_eq_getElem hb) hib
  constructor
  · intro h
    have := eq_of_nodup_map (·.2.src) _ hinvF.2.2 ea hea eb heb
      (by show ea.2.src = eb.2.src; rw [heas, hebs, h])
    rw [← heat, ← hebt, this]
  · intro h
    have := entry_unique _ hinvF ea eb hea heb (by rw [heat, hebt, h])
    rw [← heas, ← hebs, this]

/-- … and afterwards the index holds exactly one partition for every writer's set; sets stored before stay where
they were; no partition exists for a set nobody wrote -/
theorem racing_writers_one_partition (s : St) (hinv : TInv s) (hsafe : SafeSt s) (ws : List (Bytes × Map))
    (hw : Writers ws) :
    let s' := (runRes s (ws.map (·.1))).1
    TInv s' ∧ SafeSt s' ∧ (∀ e ∈ s.tmap, e ∈ s'.tmap) ∧
    (∀ w ∈ ws, ∃ e ∈ s'.tmap, e.2.tags = w.2 ∧ ∀ e' ∈ s'.tmap, e'.2.tags = w.2 → e' = e) ∧
    (∀ e ∈ s'.tmap, e ∈ s.tmap ∨ ∃ w ∈ ws, e.2.tags = w.2) := by
  intro s'
  obtain ⟨hinvF, hsafeF, hmonoF, hnewF, hallF, _⟩ := racing_core ws hw s hinv hsafe
  refine ⟨hinvF, hsafeF, hmonoF, ?_, hnewF⟩
  intro w hwm
  obtain ⟨e, he, het⟩ := hallF w hwm
  refine ⟨e, he, het, ?_⟩
  intro e' he' he't
  exact entry_unique s' hinvF e' e he' he (by rw [he't, het])

end Logrange.Proofs.TIndexRun
