import Logrange.Proofs.ScanWorker
import Logrange.Proofs.ScanDrain
import Logrange.Proofs.ScanCrash
/-! The SIZE of the lag of a save whose marshal falls between a confirm rendez-vous and its `setOffset`
(pc `setting`): the stored offset lags behind the confirmed end by exactly the one event that was just confirmed —
at least 1 and at most `recsPerEvent` consecutive confirmed records. For the worker LTS (`Model/ScanWorker.lean`) and
for the split-save system (`Model/ScanCrash.lean`). -/
namespace Logrange.ScanWorker
open Logrange.LineReader

/-- `p` is the end of a prefix of `j` records of `conf`, `cp` the end of `j + m` of them; `m = 0` outside the window,
`1 ≤ m ≤ k` inside -/
def Lag (k start : Nat) (conf : List Bytes) (p cp : Nat) (w : Bool) : Prop :=
  ∃ j m, j + m ≤ conf.length ∧ m ≤ k ∧ p = start + bytesOf (conf.take j) ∧
    cp = start + bytesOf (conf.take (j + m)) ∧ (w = false → m = 0) ∧ (w = true → 1 ≤ m)

/-- prefix indices stay valid when the confirmed list grows -/
theorem lag_append {k start : Nat} {conf : List Bytes} {p cp : Nat} {w : Bool} (x : List Bytes)
    (h : Lag k start conf p cp w) : Lag k start (conf ++ x) p cp w := by
  obtain ⟨j, m, h1, h2, h3, h4, h5, h6⟩ := h
  refine ⟨j, m, by simp only [List.length_append]; omega, h2, ?_, ?_, h5, h6⟩
  · rw [List.take_append_of_le_length (by omega)]; exact h3
  · rw [List.take_append_of_le_length h1]; exact h4

/-- the batch invariant: `lenOk` of `Proofs/ScanDrain.lean` extended to the pcs of `sendOrSleep`: the batch in flight is
not empty and has at most `k` records; after the confirm rendez-vous it is the tail of the confirmed records -/
def batchOk (k : Nat) (s : S) : Prop :=
  match s.pc with
  | .top => s.recs.length < k
  | .sampled _ => s.recs.length < k
  | .tail _ _ _ => s.recs.length < k
  | .sleeping _ _ => s.recs = []
  | .got _ _ _ => s.recs.length ≤ k
  | .sending _ _ => s.recs ≠ [] ∧ s.recs.length ≤ k
  | .confirming _ _ => s.recs ≠ [] ∧ s.recs.length ≤ k
  | .setting _ _ => s.recs ≠ [] ∧ s.recs.length ≤ k ∧ ∃ pre, s.confirmed = pre ++ s.recs
  | .done => True

theorem batchOk_init (k start : Nat) (hk : 1 ≤ k) : batchOk k (init start) := by
  simp [batchOk, init]; omega

theorem batchOk_step (c : Cfg) (hk : 1 ≤ c.recsPerEvent) (s s' : S) (l : L) (h : batchOk c.recsPerEvent s)
    (hs : step c s l = some s') : batchOk c.recsPerEvent s' := by
  cases l <;> simp only [step] at hs <;> (repeat' split at hs) <;>
    first
    | cases hs; done
    | (obtain rfl := Option.some.inj hs
       simp_all [batchOk, finish]
       try omega)

/-- every step keeps `start` and only appends to `confirmed` -/
theorem step_conf_grow (c : Cfg) (s s' : S) (l : L) (hs : step c s l = some s') :
    s'.start = s.start ∧ ∃ x, s'.confirmed = s.confirmed ++ x := by
  cases l <;> simp only [step] at hs <;> (repeat' split at hs) <;>
    first
    | (obtain rfl := Option.some.inj hs
       refine ⟨rfl, ?_⟩
       first
       | exact ⟨[], (List.append_nil _).symm⟩
       | exact ⟨_, rfl⟩)
    | cases hs

/-- what a persist stores: the offset is the end of the confirmed records without the batch just confirmed (at pc
`setting`) or the confirmed end itself (elsewhere) -/
theorem lag_at_persist (k : Nat) (s : S) (hw : WInv s) (hb : batchOk k s) :
    Lag k s.start s.confirmed s.offset (confEnd s) (isSetting s.pc) := by
  have hoff := hw.offEq
  by_cases hset : isSetting s.pc = true
  · obtain ⟨u, eof, hpc⟩ : ∃ u eof, s.pc = .setting u eof := by
      cases h : s.pc <;> simp [h, isSetting] at hset ⊢
    simp only [batchOk, hpc] at hb
    obtain ⟨hne, hle, pre, hpre⟩ := hb
    rw [hset]
    simp only [hset, if_true, confEnd] at hoff
    have hpos : 1 ≤ s.recs.length := by
      cases hr : s.recs with
      | nil => exact absurd hr hne
      | cons a b => simp
    refine ⟨pre.length, s.recs.length, ?_, hle, ?_, ?_, (fun h => by cases h), fun _ => hpos⟩
    · rw [hpre]; simp
    · rw [hpre, List.take_left']
      · rw [hpre] at hoff; simp only [bytesOf_append] at hoff; omega
      · rfl
    · simp only [confEnd]
      rw [List.take_of_length_le]
      rw [hpre]; simp
  · have hset : isSetting s.pc = false := by simpa using hset
    rw [hset]
    simp only [hset, confEnd] at hoff
    refine ⟨s.confirmed.length, 0, by omega, by omega, ?_, ?_, fun _ => rfl, fun h => by cases h⟩
    · rw [List.take_length]; simp at hoff; omega
    · simp only [confEnd, Nat.add_zero, List.take_length]

/-- the lag invariant of a worker state -/
def lagOk (k : Nat) (s : S) : Prop :=
  Lag k s.start s.confirmed s.persisted s.confAtPersist s.persistInWindow

theorem lagOk_init (k start : Nat) : lagOk k (init start) :=
  ⟨0, 0, by simp [init], by omega, by simp [init], by simp [init], fun _ => rfl, fun h => by simp [init] at h⟩

theorem lagOk_step (c : Cfg) (s s' : S) (l : L) (hw : WInv s) (hb : batchOk c.recsPerEvent s)
    (h : lagOk c.recsPerEvent s) (hs : step c s l = some s') : lagOk c.recsPerEvent s' := by
  by_cases hl : Logrange.ScanCrash.isPersistLabel l = true
  · have e := Logrange.ScanCrash.step_persist c s s' l hl hs
    subst e
    exact lag_at_persist c.recsPerEvent s hw hb
  · have hl : Logrange.ScanCrash.isPersistLabel l = false := by simpa using hl
    obtain ⟨e1, e2, e3⟩ := Logrange.ScanCrash.step_nonpersist c s s' l hl hs
    obtain ⟨g1, x, g2⟩ := step_conf_grow c s s' l hs
    unfold lagOk
    rw [e1, e2, e3, g1, g2]
    exact lag_append x h

theorem lag_run (c : Cfg) (hk : 1 ≤ c.recsPerEvent) : ∀ (tr : List L) (s : S), WInv s → batchOk c.recsPerEvent s →
    lagOk c.recsPerEvent s →
    WInv (run c s tr) ∧ batchOk c.recsPerEvent (run c s tr) ∧ lagOk c.recsPerEvent (run c s tr) ∧
      (run c s tr).start = s.start
  | [], s, h1, h2, h3 => ⟨h1, h2, h3, rfl⟩
  | l :: ls, s, h1, h2, h3 => by
    simp only [run]
    cases hs : step c s l with
    | none => exact lag_run c hk ls s h1 h2 h3
    | some s' =>
      obtain ⟨a, b, d, e⟩ := lag_run c hk ls s' (winv_step c s s' l h1 hs) (batchOk_step c hk s s' l h2 hs)
        (lagOk_step c s s' l h1 h2 h3 hs)
      exact ⟨a, b, d, by rw [e]; exact (step_conf_grow c s s' l hs).1⟩

/-- **the lag invariant**: what was persisted is the end of a prefix of `j` confirmed records, the confirmed end at
that persist the end of `j + m` of them, with `m = 0` outside the window and `1 ≤ m ≤ recsPerEvent` inside -/
theorem window_lag_is_one_event (c : Cfg) (hk : 1 ≤ c.recsPerEvent) (start : Nat) (tr : List L) :
    let s := run c (init start) tr
    ∃ j m, j + m ≤ s.confirmed.length ∧ m ≤ c.recsPerEvent ∧
      s.persisted = start + bytesOf (s.confirmed.take j) ∧
      s.confAtPersist = start + bytesOf (s.confirmed.take (j + m)) ∧
      (s.persistInWindow = false → m = 0) ∧ (s.persistInWindow = true → 1 ≤ m) := by
  intro s
  obtain ⟨_, _, h, hst⟩ := lag_run c hk tr (init start) (winv_init start) (batchOk_init _ start hk)
    (lagOk_init _ start)
  have hst : s.start = start := hst
  have h : Lag c.recsPerEvent s.start s.confirmed s.persisted s.confAtPersist s.persistInWindow := h
  rw [hst] at h
  exact h

end Logrange.ScanWorker

namespace Logrange.ScanCrash
open Logrange.ScanWorker

/-- the lag invariant of the split-save system: the inner one, and the same for what `scanner.json` holds -/
structure CLag (k : Nat) (x : CS) : Prop where
  winv : WInv x.s
  batch : batchOk k x.s
  inner : lagOk k x.s
  disk : Lag k x.s.start x.s.confirmed x.disk x.diskConf x.diskWin

theorem clag_init (k start : Nat) (hk : 1 ≤ k) : CLag k (cinit start) :=
  ⟨winv_init start, batchOk_init k start hk, lagOk_init k start, lagOk_init k start⟩

theorem clag_step (c : Cfg) (hk : 1 ≤ c.recsPerEvent) (x x' : CS) (l : CL) (h : CLag c.recsPerEvent x)
    (hs : cstep c x l = some x') : CLag c.recsPerEvent x' := by
  obtain ⟨hw, hb, hi, hd⟩ := h
  cases l with
  | w l =>
    simp only [cstep] at hs
    split at hs
    · cases hs
    · split at hs
      · rename_i s' hst
        obtain rfl := Option.some.inj hs
        obtain ⟨g1, y, g2⟩ := step_conf_grow c x.s s' l hst
        refine ⟨winv_step c x.s s' l hw hst, batchOk_step c hk x.s s' l hb hst, lagOk_step c x.s s' l hw hb hi hst, ?_⟩
        show Lag c.recsPerEvent s'.start s'.confirmed x.disk x.diskConf x.diskWin
        rw [g1, g2]
        exact lag_append y hd
      · cases hs
  | saveBegin final =>
    simp only [cstep] at hs
    split at hs
    · cases hs
    · split at hs
      · rename_i s' hst
        obtain rfl := Option.some.inj hs
        obtain ⟨g1, y, g2⟩ := step_conf_grow c x.s s' _ hst
        refine ⟨winv_step c x.s s' _ hw hst, batchOk_step c hk x.s s' _ hb hst, lagOk_step c x.s s' _ hw hb hi hst, ?_⟩
        show Lag c.recsPerEvent s'.start s'.confirmed x.disk x.diskConf x.diskWin
        rw [g1, g2]
        exact lag_append y hd
      · cases hs
  | saveRename =>
    simp only [cstep] at hs
    split at hs
    · obtain rfl := Option.some.inj hs
      exact ⟨hw, hb, hi, hi⟩
    · cases hs

theorem clag_run (c : Cfg) (hk : 1 ≤ c.recsPerEvent) : ∀ (tr : List CL) (x : CS), CLag c.recsPerEvent x →
    CLag c.recsPerEvent (crun c x tr)
  | [], x, h => by simpa [crun] using h
  | l :: ls, x, h => by
    simp only [crun]
    cases hs : cstep c x l with
    | none => exact clag_run c hk ls x h
    | some x' => exact clag_run c hk ls x' (clag_step c hk x x' l h hs)

/-- **the same for the split-save system**: what `scanner.json` holds -/
theorem crash_window_lag_is_one_event (c : Cfg) (hk : 1 ≤ c.recsPerEvent) (start : Nat) (tr : List CL) :
    let x := crun c (cinit start) tr
    ∃ j m, j + m ≤ x.s.confirmed.length ∧ m ≤ c.recsPerEvent ∧
      x.disk = start + bytesOf (x.s.confirmed.take j) ∧
      x.diskConf = start + bytesOf (x.s.confirmed.take (j + m)) ∧
      (x.diskWin = false → m = 0) ∧ (x.diskWin = true → 1 ≤ m) := by
  intro x
  have h := (clag_run c hk tr (cinit start) (clag_init _ start hk)).disk
  have hst : x.s.start = start := crun_start c tr (cinit start)
  have h : Lag c.recsPerEvent x.s.start x.s.confirmed x.disk x.diskConf x.diskWin := h
  rw [hst] at h
  exact h

end Logrange.ScanCrash
