import Logrange.Proofs.LqlStmt
/-!
# C12: the participle-engine interpreter on the REGENERATED grammar simulates the direct parsers (part 1: one-step
equations of the interpreter, struct `Identifier`)

Every struct lemma starts from `grammar "<Struct>" = some <body>` proved by `rfl` against `Generated/C12.lean`, so a
changed struct tag in pkg/lql/parser.go breaks the proof on the next run.
-/
namespace Logrange.Lql
open Logrange.Generated.C12

/-! ## one-step equations of the interpreter (every node kind except `.strct`) -/
section eqs
variable (c : Ctx)

theorem parse_ref (f : Nat) (t : TT) (cur : Nat) : parse c (f+1) (.ref t) cur =
    (match peek c cur with
     | some tk => if tk.t == t then .ok [.str tk.v] [] (cur+1) else .noMatch
     | none => .noMatch) := by simp only [parse]; rfl
theorem parse_lit (f : Nat) (s : Bytes) (cur : Nat) : parse c (f+1) (.lit s) cur =
    (match peek c cur with
     | some tk => if litMatch tk s then .ok [.str tk.v] [] (cur+1) else .noMatch
     | none => .noMatch) := by simp only [parse]; rfl
theorem parse_capture (f : Nat) (fl : String) (n : Node) (cur : Nat) : parse c (f+1) (.capture fl n) cur =
    (match parse c f n cur with
     | .ok vals caps cur' => .ok [.str []] (caps ++ [(fl, vals)]) cur'
     | .noMatch => .noMatch
     | .err k _ => .err k true) := by simp only [parse]; rfl
theorem parse_strct (f : Nat) (name : String) (body : Node) (cur : Nat) (h : c.grammar name = some body) :
    parse c (f+1) (.strct name) cur =
    (match parse c f body cur with
     | .ok _ caps cur' => .ok [.node name caps] [] cur'
     | .noMatch => .noMatch
     | .err k _ => .err k true) := by simp only [parse, h]; rfl
theorem parse_seq (f : Nat) (ns : List Node) (cur : Nat) : parse c (f+1) (.seq ns) cur = parseSeq c f ns cur true [] [] := by simp only [parse]
theorem parse_disj (f : Nat) (ns : List Node) (cur : Nat) : parse c (f+1) (.disj ns) cur = parseDisj c f ns cur none := by simp only [parse]
theorem parse_once (f : Nat) (n : Node) (cur : Nat) : parse c (f+1) (.group n .once) cur = parse c f n cur := by simp only [parse]
theorem parse_opt (f : Nat) (n : Node) (cur : Nat) : parse c (f+1) (.group n .zeroOrOne) cur =
    (match parse c f n cur with
     | .ok vals caps cur' => .ok vals caps cur'
     | .noMatch => .ok [] [] cur
     | .err k hv => if k > cur + lookahead then .err k hv else .ok (if hv then [.str []] else []) [] cur) := by simp only [parse]; rfl
theorem parse_rep (f : Nat) (n : Node) (cur : Nat) : parse c (f+1) (.group n .zeroOrMore) cur = parseRep c f n cur [] [] := by simp only [parse]
theorem parseSeq_nil (f : Nat) (cur : Nat) (first : Bool) (vals : List Val) (caps : Caps) :
    parseSeq c (f+1) [] cur first vals caps = if vals.isEmpty then .noMatch else .ok vals caps cur := by simp only [parseSeq]
theorem parseSeq_cons (f : Nat) (n : Node) (ns : List Node) (cur : Nat) (first : Bool) (vals : List Val) (caps : Caps) :
    parseSeq c (f+1) (n :: ns) cur first vals caps =
    (match parse c f n cur with
     | .ok v cp cur' => parseSeq c f ns cur' false (vals ++ v) (caps ++ cp)
     | .noMatch => if first then .noMatch else .err cur (!vals.isEmpty)
     | .err k hv => .err k (hv || !vals.isEmpty)) := by simp only [parseSeq]; rfl
theorem parseDisj_nil (f : Nat) (cur : Nat) (d : Option (Nat × Bool)) :
    parseDisj c (f+1) [] cur d = (match d with | some (k, hv) => .err k hv | none => .noMatch) := by rw [parseDisj.eq_def]; cases d <;> rfl
theorem parseDisj_cons (f : Nat) (n : Node) (ns : List Node) (cur : Nat) (deepest : Option (Nat × Bool)) :
    parseDisj c (f+1) (n :: ns) cur deepest =
    (match parse c f n cur with
     | .ok vals caps cur' => .ok vals caps cur'
     | .noMatch => parseDisj c f ns cur deepest
     | .err k hv =>
       if k > cur + lookahead then .err k hv
       else parseDisj c f ns cur (match deepest with | some (d, dh) => if k ≥ d then some (k, hv) else some (d, dh) | none => some (k, hv))) := by
  simp only [parseDisj]; rfl
theorem parseRep_succ (f : Nat) (n : Node) (cur : Nat) (vals : List Val) (caps : Caps) :
    parseRep c (f+1) n cur vals caps =
    (match parse c f n cur with
     | .ok v cp cur' => if cur' == cur then .ok (vals ++ v) (caps ++ cp) cur' else parseRep c f n cur' (vals ++ v) (caps ++ cp)
     | .noMatch => .ok vals caps cur
     | .err k hv => if k > cur + lookahead then .err k (hv || !vals.isEmpty) else .ok (if hv then vals ++ [.str []] else vals) caps cur) := by
  simp only [parseRep]; rfl
end eqs
end Logrange.Lql

namespace Logrange.Lql
open Logrange.Generated.C12

theorem drop_of_get {toks : List Tok} {cur : Nat} {tk : Tok} (h : toks[cur]? = some tk) :
    toks.drop cur = tk :: toks.drop (cur+1) := by
  obtain ⟨hl, rfl⟩ := List.getElem?_eq_some_iff.mp h
  exact List.drop_eq_getElem_cons hl
theorem drop_of_none {toks : List Tok} {cur : Nat} (h : toks[cur]? = none) : toks.drop cur = [] := by
  simpa using h
theorem lt_of_get {toks : List Tok} {cur : Nat} {tk : Tok} (h : toks[cur]? = some tk) : cur < toks.length :=
  (List.getElem?_eq_some_iff.mp h).1

/-! ## Identifier -/
def identTailNode : Node := .seq [(.lit [44]), (.capture "Params" (.strct "Identifier"))]
def opNode : Node := .group (.disj [(.capture "Operand" (.ref .ident)), (.capture "Operand" (.ref .keyword))]) .once
def identBody : Node :=
  .seq [opNode, (.group (.group (.seq [(.lit [40]), (.capture "Params" (.strct "Identifier")), (.group identTailNode .zeroOrMore), (.lit [41])]) .once) .zeroOrOne)]
theorem g_ident : grammar "Identifier" = some identBody := rfl

mutual
def valIdent : Ident → Val
  | .mk op ps => .node "Identifier" (("Operand", [.str op]) :: capsParams ps)
def capsParams : IdentList → Caps
  | .nil => []
  | .cons h t => ("Params", [valIdent h]) :: capsParams t
end

def operandAt (c : Ctx) (cur : Nat) : Prop := ∃ tk, c.toks[cur]? = some tk ∧ isOperandTok tk = true
def litAt (c : Ctx) (cur : Nat) (s : Bytes) : Prop := ∃ tk, c.toks[cur]? = some tk ∧ litMatch tk s = true
def notLitAt (c : Ctx) (cur : Nat) (s : Bytes) : Prop := ∀ tk, c.toks[cur]? = some tk → litMatch tk s = false

/-- engine result on struct `Identifier` at `cur` vs the direct parser on the remaining tokens -/
def SimIdent (c : Ctx) (cur : Nat) (r : Res) (d : PR Ident) : Prop :=
  match d with
  | some (i, rest) => ∃ cur', r = .ok [valIdent i] [] cur' ∧ rest = c.toks.drop cur' ∧ cur < cur' ∧ cur' ≤ c.toks.length ∧ operandAt c cur
  | none => (r = .noMatch ∧ ¬ operandAt c cur)
      ∨ (∃ k, r = .err k true ∧ cur + 3 ≤ k ∧ operandAt c cur)
      ∨ (∃ v, r = .ok [v] [] (cur+1) ∧ operandAt c cur ∧ litAt c (cur+1) LP)

def SimIdentAt (c : Ctx) (cur : Nat) : Prop :=
  ∀ fe fd, cur ≤ c.toks.length → 60 * (c.toks.length - cur) + 20 ≤ fe → 4 * (c.toks.length - cur) + 1 ≤ fd →
    SimIdent c cur (parse c fe (.strct "Identifier") cur) (dIdent fd (c.toks.drop cur))

/-- the `{"," @@}` loop vs `dIdentTail` -/
def SimIdentTail (c : Ctx) (cur : Nat) (caps : Caps) (r : Res) (d : PR IdentList) : Prop :=
  match d with
  | some (is, rest) => ∃ vals' cur', r = .ok vals' (caps ++ capsParams is) cur' ∧ rest = c.toks.drop cur' ∧ cur ≤ cur' ∧ cur' ≤ c.toks.length
  | none => (∃ k hv, r = .err k hv ∧ cur ≤ k) ∨ (∃ vals' caps' cur', r = .ok vals' caps' cur' ∧ cur ≤ cur' ∧ notLitAt c cur' RP)

theorem eqFold_trans' : ∀ (v a b : Bytes), eqFold v a = true → eqFold v b = true → eqFold a b = true
  | [], [], [], _, _ => by simp [eqFold]
  | [], [], _ :: _, _, h => by simp [eqFold] at h
  | [], _ :: _, _, h, _ => by simp [eqFold] at h
  | _ :: _, [], _, h, _ => by simp [eqFold] at h
  | _ :: _, _ :: _, [], _, h => by simp [eqFold] at h
  | x :: xs, y :: ys, z :: zs, h1, h2 => by
    simp only [eqFold, Bool.and_eq_true, beq_iff_eq] at h1 h2 ⊢
    exact ⟨h1.1.symm.trans h2.1, eqFold_trans' xs ys zs h1.2 h2.2⟩

theorem litMatch_excl (tk : Tok) (a b : Bytes) (hab : (a == b) = false) (hf : eqFold a b = false)
    (ha : litMatch tk a = true) : litMatch tk b = false := by
  unfold litMatch at *
  split at ha
  · rename_i hk
    simp only [hk]
    cases hb : eqFold tk.v b with
    | false => rfl
    | true => rw [eqFold_trans' _ _ _ ha hb] at hf; cases hf
  · rename_i hk
    simp only [hk, if_false]
    have : tk.v = a := by simpa using ha
    rw [this]; exact hab

theorem LP_not_COMMA (tk : Tok) (h : litMatch tk LP = true) : litMatch tk COMMA = false := litMatch_excl tk _ _ (by decide) (by decide) h
theorem LP_not_RP (tk : Tok) (h : litMatch tk LP = true) : litMatch tk RP = false := litMatch_excl tk _ _ (by decide) (by decide) h
theorem COMMA_not_RP (tk : Tok) (h : litMatch tk COMMA = true) : litMatch tk RP = false := litMatch_excl tk _ _ (by decide) (by decide) h

theorem tail_step_none (c : Ctx) (f cur : Nat) (hn : c.toks[cur]? = none) : parse c (f+3) identTailNode cur = .noMatch := by
  simp only [identTailNode, parse_seq, parseSeq_cons, parse_lit, peek, hn, if_true]
theorem tail_step_nolit (c : Ctx) (f cur : Nat) (t : Tok) (hn : c.toks[cur]? = some t) (hc : litMatch t [44] = false) :
    parse c (f+3) identTailNode cur = .noMatch := by
  simp only [identTailNode, parse_seq, parseSeq_cons, parse_lit, peek, hn, hc, if_true, Bool.false_eq_true, if_false]
theorem tail_step_lit (c : Ctx) (f cur : Nat) (t : Tok) (hn : c.toks[cur]? = some t) (hc : litMatch t [44] = true) :
    parse c (f+5) identTailNode cur =
      (match parse c (f+1) (.strct "Identifier") (cur+1) with
       | .ok v cp cur' => .ok [.str t.v, .str []] (cp ++ [("Params", v)]) cur'
       | .noMatch => .err (cur+1) true
       | .err k _ => .err k true) := by
  simp only [identTailNode, parse_seq, parseSeq_cons, parse_lit, parse_capture, peek, hn, hc, if_true]
  cases parse c (f+1) (.strct "Identifier") (cur+1) <;> simp [parseSeq_nil]

/-- the loop `{"," @@}` simulates `dIdentTail`, given the simulation of `Identifier` at all later positions -/
theorem simIdentTail (c : Ctx) (m : Nat) (hI : ∀ cur', c.toks.length - cur' ≤ m → SimIdentAt c cur') :
    ∀ (k cur : Nat), c.toks.length - cur ≤ k → k ≤ m → cur ≤ c.toks.length → ∀ (vals : List Val) (caps : Caps) (fe fd : Nat),
      60 * (c.toks.length - cur) + 30 ≤ fe → 4 * (c.toks.length - cur) + 1 ≤ fd →
      SimIdentTail c cur caps (parseRep c fe identTailNode cur vals caps) (dIdentTail fd (c.toks.drop cur)) := by
  intro k
  induction k with
  | zero =>
    intro cur hk _ hcl vals caps fe fd hfe hfd
    obtain ⟨g, rfl⟩ : ∃ g, fe = g + 10 := ⟨fe - 10, by omega⟩
    obtain ⟨fd', rfl⟩ : ∃ g, fd = g + 1 := ⟨fd - 1, by omega⟩
    have hn : c.toks[cur]? = none := by simp; omega
    rw [drop_of_none hn, parseRep_succ, tail_step_none c _ cur hn]
    simp only [dIdentTail, SimIdentTail]
    exact ⟨vals, cur, by simp [capsParams], (drop_of_none hn).symm, Nat.le_refl _, hcl⟩
  | succ k ih =>
    intro cur hk hkm hcl vals caps fe fd hfe hfd
    obtain ⟨g, rfl⟩ : ∃ g, fe = g + 10 := ⟨fe - 10, by omega⟩
    obtain ⟨fd', rfl⟩ : ∃ g, fd = g + 1 := ⟨fd - 1, by omega⟩
    cases hn : c.toks[cur]? with
    | none =>
      rw [drop_of_none hn, parseRep_succ, tail_step_none c _ cur hn]
      simp only [dIdentTail, SimIdentTail]
      exact ⟨vals, cur, by simp [capsParams], (drop_of_none hn).symm, Nat.le_refl _, hcl⟩
    | some t =>
      have hlt := lt_of_get hn
      rw [drop_of_get hn, parseRep_succ]
      cases hc : litMatch t [44] with
      | false =>
        rw [tail_step_nolit c _ cur t hn hc]
        have hc' : litMatch t COMMA = false := hc
        simp only [dIdentTail, hc', SimIdentTail, Bool.false_eq_true, if_false]
        exact ⟨vals, cur, by simp [capsParams], (drop_of_get hn).symm, Nat.le_refl _, hcl⟩
      | true =>
        have hc' : litMatch t COMMA = true := hc
        have hin := hI (cur+1) (by omega) (g+5) fd' (by omega) (by omega) (by omega)
        rw [tail_step_lit c _ cur t hn hc]
        simp only [dIdentTail, hc', if_true]
        generalize hr : parse c (g+4+1) (.strct "Identifier") (cur+1) = r at hin ⊢
        cases hd : dIdent fd' (c.toks.drop (cur+1)) with
        | none =>
          rw [hd] at hin
          simp only [SimIdentTail]
          rcases hin with ⟨rfl, _⟩ | ⟨k', rfl, hk', _⟩ | ⟨v, rfl, _, p, hp, hpl⟩
          · right
            refine ⟨vals ++ [.str []], caps, cur, ?_, Nat.le_refl _, ?_⟩
            · simp [lookahead]
            · intro tk htk; rw [hn] at htk; cases htk; exact COMMA_not_RP _ hc
          · left
            refine ⟨k', true, ?_, by omega⟩
            simp [lookahead]; omega
          · right
            have hp' : c.toks[cur+1+1]? = some p := hp
            have hpc : litMatch p [44] = false := LP_not_COMMA p hpl
            simp only [beq_iff_eq]
            rw [if_neg (by omega), parseRep_succ, tail_step_nolit c _ _ p hp' hpc]
            refine ⟨_, _, cur+1+1, rfl, by omega, ?_⟩
            intro tk htk; rw [hp'] at htk; cases htk; exact LP_not_RP _ hpl
        | some res =>
          obtain ⟨i, rest1⟩ := res
          rw [hd] at hin
          obtain ⟨cur2, rfl, hrest, hlt2, hle2, _⟩ := hin
          subst hrest
          have hloop := ih cur2 (by omega) (by omega) hle2 (vals ++ [.str t.v, .str []]) (caps ++ ([] ++ [("Params", [valIdent i])])) (g+9) fd' (by omega) (by omega)
          simp only [beq_iff_eq]
          rw [if_neg (by omega)]
          cases hd2 : dIdentTail fd' (c.toks.drop cur2) with
          | none =>
            rw [hd2] at hloop
            simp only [SimIdentTail] at hloop ⊢
            rcases hloop with ⟨k', hv, h1, h2⟩ | ⟨vals', caps', cur', h1, h2, h3⟩
            · left; exact ⟨k', hv, h1, by omega⟩
            · right; exact ⟨vals', caps', cur', h1, by omega, h3⟩
          | some res2 =>
            obtain ⟨is, rest2⟩ := res2
            rw [hd2] at hloop
            simp only [SimIdentTail] at hloop ⊢
            obtain ⟨vals', cur', h1, h2, h3, h4⟩ := hloop
            refine ⟨vals', cur', ?_, h2, by omega, h4⟩
            rw [h1]; simp [capsParams]

theorem op_step_none (c : Ctx) (f cur : Nat) (hn : c.toks[cur]? = none) : parse c (f+6) opNode cur = .noMatch := by
  simp only [opNode, parse_once, parse_disj, parseDisj_cons, parseDisj_nil, parse_capture, parse_ref, peek, hn]
theorem op_step (c : Ctx) (f cur : Nat) (tk : Tok) (hn : c.toks[cur]? = some tk) :
    parse c (f+6) opNode cur = if isOperandTok tk then .ok [.str []] [("Operand", [.str tk.v])] (cur+1) else .noMatch := by
  simp only [opNode, parse_once, parse_disj, parseDisj_cons, parseDisj_nil, parse_capture, parse_ref, peek, hn, isOperandTok]
  rcases tk with ⟨t, v⟩
  cases t <;> simp [lookahead]

theorem simIdent (c : Ctx) (hg : c.grammar = grammar) : ∀ (n cur : Nat), c.toks.length - cur ≤ n → SimIdentAt c cur := by
  intro n
  induction n with
  | zero =>
    intro cur hn fe fd hcl hfe hfd
    obtain ⟨g, rfl⟩ : ∃ g, fe = g + 20 := ⟨fe - 20, by omega⟩
    obtain ⟨fd', rfl⟩ : ∃ g, fd = g + 1 := ⟨fd - 1, by omega⟩
    have hnone : c.toks[cur]? = none := by simp; omega
    rw [drop_of_none hnone, parse_strct c _ "Identifier" identBody cur (by rw [hg]; rfl)]
    simp only [identBody, parse_seq, parseSeq_cons, op_step_none c _ cur hnone, dIdent, SimIdent, if_true]
    left; exact ⟨trivial, fun ⟨tk, h, _⟩ => by rw [hnone] at h; cases h⟩
  | succ n ih =>
    intro cur hn fe fd hcl hfe hfd
    obtain ⟨g, rfl⟩ : ∃ g, fe = g + 20 := ⟨fe - 20, by omega⟩
    obtain ⟨fd', rfl⟩ : ∃ g, fd = g + 1 := ⟨fd - 1, by omega⟩
    rw [parse_strct c _ "Identifier" identBody cur (by rw [hg]; rfl)]
    cases hnone : c.toks[cur]? with
    | none =>
      rw [drop_of_none hnone]
      simp only [identBody, parse_seq, parseSeq_cons, op_step_none c _ cur hnone, dIdent, SimIdent, if_true]
      left; exact ⟨trivial, fun ⟨tk, h, _⟩ => by rw [hnone] at h; cases h⟩
    | some tk =>
      have hlt := lt_of_get hnone
      rw [drop_of_get hnone]
      cases hop : isOperandTok tk with
      | false =>
        simp only [identBody, parse_seq, parseSeq_cons, op_step c _ cur tk hnone, hop, dIdent, SimIdent, if_true, Bool.false_eq_true, if_false]
        left; exact ⟨trivial, fun ⟨tk', h, h2⟩ => by rw [hnone] at h; cases h; rw [hop] at h2; cases h2⟩
      | true =>
        have hopAt : operandAt c cur := ⟨tk, hnone, hop⟩
        cases hnext : c.toks[cur+1]? with
        | none =>
          rw [drop_of_none hnext]
          simp only [identBody, parse_seq, parseSeq_cons, parseSeq_nil, op_step c _ cur tk hnone, hop, dIdent, SimIdent, if_true,
            parse_opt, parse_once, parse_lit, peek, hnext]
          exact ⟨cur+1, by simp [valIdent, capsParams], (drop_of_none hnext).symm, by omega, by omega, hopAt⟩
        | some p =>
          rw [drop_of_get hnext]
          cases hlp : litMatch p [40] with
          | false =>
            have hlp' : litMatch p LP = false := hlp
            simp only [identBody, parse_seq, parseSeq_cons, parseSeq_nil, op_step c _ cur tk hnone, hop, dIdent, SimIdent, if_true,
              parse_opt, parse_once, parse_lit, peek, hnext, hlp, hlp', Bool.false_eq_true, if_false]
            exact ⟨cur+1, by simp [valIdent, capsParams], (drop_of_get hnext).symm, by omega, by omega, hopAt⟩
          | true =>
            have hlp' : litMatch p LP = true := hlp
            have hlt2 := lt_of_get hnext
            have hin := ih (cur+1+1) (by omega) (g+10) fd' (by omega) (by omega) (by omega)
            simp only [identBody, parse_seq, parseSeq_cons, op_step c _ cur tk hnone, hop, dIdent, if_true,
              parse_opt, parse_once, parse_lit, parse_capture, parse_rep, peek, hnext, hlp, hlp']
            generalize hr : parse c (g+10) (.strct "Identifier") (cur+1+1) = r at hin ⊢
            cases hd : dIdent fd' (c.toks.drop (cur+1+1)) with
            | none =>
              rw [hd] at hin
              simp only [SimIdent]
              rcases hin with ⟨rfl, _⟩ | ⟨k', rfl, hk', _⟩ | ⟨v, rfl, _, q, hq, hql⟩
              · right; right
                simp [parseSeq_nil, lookahead]
                exact ⟨hopAt, ⟨p, hnext, hlp'⟩⟩
              · right; left
                have hgt : k' > cur + 1 + lookahead := by simp only [lookahead]; omega
                refine ⟨k', ?_, by omega, hopAt⟩
                simp [hgt]
              · right; left
                have hq' : c.toks[cur+1+1+1]? = some q := hq
                have hqc : litMatch q [44] = false := LP_not_COMMA q hql
                have hqr : litMatch q [41] = false := LP_not_RP q hql
                have hgt : cur + 1 + 1 + 1 > cur + 1 + lookahead := by simp only [lookahead]; omega
                refine ⟨cur+1+1+1, ?_, by omega, hopAt⟩
                simp only []
                rw [parseRep_succ, tail_step_nolit c _ _ q hq' hqc]
                simp [hq', hqr, hgt]
            | some res =>
              obtain ⟨i1, rest1⟩ := res
              rw [hd] at hin
              obtain ⟨cur1, rfl, hrest, h1, h2, _⟩ := hin
              subst hrest
              have hloop := simIdentTail c n ih n cur1 (by omega) (Nat.le_refl _) h2 [] [] (g+9) fd' (by omega) (by omega)
              simp only []
              generalize hrep : parseRep c (g+9) identTailNode cur1 [] [] = rr at hloop ⊢
              have hgt : ∀ k, cur1 ≤ k → cur + 1 + lookahead < k := by intro k hk; simp only [lookahead]; omega
              cases hd2 : dIdentTail fd' (c.toks.drop cur1) with
              | none =>
                rw [hd2] at hloop
                simp only [SimIdentTail] at hloop
                simp only [SimIdent]
                right; left
                rcases hloop with ⟨k', hv, rfl, hk'⟩ | ⟨vals', caps', cur2, rfl, hc2, hnr⟩
                · exact ⟨k', by simp [hgt k' hk'], by omega, hopAt⟩
                · refine ⟨cur2, ?_, by omega, hopAt⟩
                  cases hq : c.toks[cur2]? with
                  | none => simp [hq, hgt cur2 hc2]
                  | some q =>
                    have hqr : litMatch q [41] = false := hnr q hq
                    simp [hq, hqr, hgt cur2 hc2]
              | some res2 =>
                obtain ⟨is, rest2⟩ := res2
                rw [hd2] at hloop
                simp only [SimIdentTail] at hloop
                obtain ⟨vals', cur2, rfl, hrest2, hc2, hl2⟩ := hloop
                subst hrest2
                cases hq : c.toks[cur2]? with
                | none =>
                  rw [drop_of_none hq]
                  simp only [SimIdent]
                  right; left
                  exact ⟨cur2, by simp [hq, hgt cur2 hc2], by omega, hopAt⟩
                | some q =>
                  rw [drop_of_get hq]
                  cases hqr : litMatch q [41] with
                  | false =>
                    have hqr' : litMatch q RP = false := hqr
                    simp only [SimIdent, hqr', Bool.false_eq_true, if_false]
                    right; left
                    exact ⟨cur2, by simp [hq, hqr, hgt cur2 hc2], by omega, hopAt⟩
                  | true =>
                    have hqr' : litMatch q RP = true := hqr
                    have := lt_of_get hq
                    simp only [SimIdent, hqr', if_true]
                    exact ⟨cur2+1, by simp [hq, hqr, parseSeq_nil, valIdent, capsParams], rfl, by omega, by omega, hopAt⟩

end Logrange.Lql
