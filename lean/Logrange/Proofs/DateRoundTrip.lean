import Logrange.Proofs.Date
/-!
# Round trip `time.Parse ∘ time.Format` on civil fields, for layouts of literals and numeric fixed-width elements

Covered elements: `2006` (longYear), `01` (zeroMonth), `02` (zeroDay), `15` (hour), `04` (zeroMinute), `05` (zeroSecond),
with arbitrary literal text between them, provided the literal that follows a seconds element does not begin with `.` or
`,` (Go would read a fractional second there).
-/
namespace Logrange.Date

def numericStd (s : Std) : Bool :=
  s == .longYear || s == .zeroMonth || s == .zeroDay || s == .hour || s == .zeroMinute || s == .zeroSecond

def litOK (afterSec : Bool) (l : Bytes) : Bool :=
  !afterSec || !(match l with | c :: _ => commaOrPeriod c | [] => false)

def numericItems (afterSec : Bool) : List (Bytes × Std) → Bytes → Bool
  | [], tail => litOK afterSec tail
  | (pre, s) :: rest, tail => litOK afterSec pre && numericStd s && numericItems (s == .zeroSecond) rest tail

/-- the layout consists of literals and numeric fixed-width elements only (decidable) -/
def NumericLayout (L : Layout) : Bool := numericItems false L.items L.tail

/-- civil fields of a real instant (the calendar's day-of-month rule included); years up to 9999 -/
def ValidInst (i : Inst) : Prop :=
  i.year ≤ 9999 ∧ 1 ≤ i.month ∧ i.month ≤ 12 ∧ 1 ≤ i.day ∧ (i.day : Int) ≤ daysIn i.month i.year ∧
  i.hour < 24 ∧ i.min < 60 ∧ i.sec < 60

instance (i : Inst) : Decidable (ValidInst i) := by unfold ValidInst; infer_instance

/-- the field an element carries, written into Go's locals -/
def setStd (s : Std) (i : Inst) (f : F) : F :=
  match s with
  | .longYear => { f with year := i.year }
  | .zeroMonth => { f with month := i.month }
  | .zeroDay => { f with day := i.day }
  | .hour => { f with hour := i.hour }
  | .zeroMinute => { f with min := i.min }
  | .zeroSecond => { f with sec := i.sec }
  | _ => f

def projectF (items : List (Bytes × Std)) (i : Inst) (f : F) : F := items.foldl (fun f it => setStd it.2 i f) f

/-- defaults of `time.Parse` for what the layout does not carry: month 1, day 1, everything else 0, default zone -/
def civilOf (f : F) : Civil :=
  ⟨f.year, if f.month < 0 then 1 else f.month, if f.day < 0 then 1 else f.day, f.hour, f.min, f.sec, f.nsec, .dflt⟩

/-- **the fields of `i` the layout carries**, all others at `time.Parse`'s defaults -/
def project (L : Layout) (i : Inst) : Civil := civilOf (projectF L.items i {})

/-! ### literals -/

theorem cutspace_append {rest : Bytes} (hr : rest.head? ≠ some 32) : ∀ (l : Bytes), cutspace (l ++ rest) = cutspace l ++ rest
  | [] => by
    cases rest with
    | nil => rfl
    | cons x r =>
      have : (x == 32) = false := by
        apply beq_false_of_ne; intro e; subst e; simp at hr
      simp [cutspace, List.dropWhile, this]
  | x :: l => by
    by_cases hx : (x == 32) = true
    · have ih := cutspace_append hr l
      simp only [cutspace] at ih ⊢
      simp [List.dropWhile, hx, ih]
    · simp [cutspace, List.dropWhile, hx]

theorem length_dropWhile_le' (p : UInt8 → Bool) : ∀ (l : Bytes), (l.dropWhile p).length ≤ l.length
  | [] => by simp
  | x :: l => by
    have := length_dropWhile_le' p l
    simp only [List.dropWhile]; split <;> simp <;> omega

theorem cutspace_length_le (l : Bytes) : (cutspace l).length ≤ l.length := by
  simp only [cutspace]; exact length_dropWhile_le' _ _

theorem skip_lit {rest : Bytes} (hr : rest.head? ≠ some 32) :
    ∀ (fuel : Nat) (pre : Bytes), pre.length < fuel → skip fuel (pre ++ rest) pre = some rest
  | 0, _, h => by omega
  | fuel + 1, [], _ => by simp [skip]
  | fuel + 1, p :: prest, h => by
    by_cases hp : (p == 32) = true
    · have e : p = 32 := by simpa using hp
      subst e
      have hlen : (cutspace prest).length < fuel := by
        have := cutspace_length_le prest
        simp only [List.length_cons] at h; omega
      have ih := skip_lit hr fuel (cutspace prest) hlen
      have c1 : cutspace ((32 : UInt8) :: (prest ++ rest)) = cutspace prest ++ rest := by
        have := cutspace_append hr prest
        simp only [cutspace] at this ⊢
        simp [List.dropWhile, this]
      have c2 : cutspace ((32 : UInt8) :: prest) = cutspace prest := by simp [cutspace, List.dropWhile]
      simp only [List.cons_append, skip, beq_self_eq_true, if_true, bne_self_eq_false, Bool.false_eq_true, if_false, c1, c2, ih]
    · have hp' : (p == 32) = false := by simpa using hp
      simp only [List.length_cons] at h
      simp only [List.cons_append, skip, hp', Bool.false_eq_true, if_false, beq_self_eq_true, if_true]
      exact skip_lit hr fuel prest (by omega)

theorem skipLit_append {rest : Bytes} (hr : rest.head? ≠ some 32) (pre : Bytes) : skipLit (pre ++ rest) pre = some rest :=
  skip_lit hr _ pre (by omega)

/-! ### digits -/

theorem dval_dig (n : Nat) : dval (dig n) = ((n % 10 : Nat) : Int) := by
  simp only [dval, dig_toNat]; omega

theorem dig_ne_blank (n : Nat) : dig n ≠ 32 := by
  intro e
  have := dig_toNat n
  rw [e] at this
  have h32 : (32 : UInt8).toNat = 32 := rfl
  omega

theorem commaOrPeriod_dig (n : Nat) : commaOrPeriod (dig n) = false := by
  have h := dig_toNat n
  simp only [commaOrPeriod, Bool.or_eq_false_iff]
  constructor <;> (apply beq_false_of_ne; intro e; rw [e] at h)
  · have : (46 : UInt8).toNat = 46 := rfl
    omega
  · have : (44 : UInt8).toNat = 44 := rfl
    omega

theorem getnum_pad2 (n : Nat) (hn : n < 100) (fixed : Bool) (v : Bytes) :
    getnum (pad2 n ++ v) fixed = some ((n : Int), v) := by
  simp only [pad2, List.cons_append, List.nil_append, getnum, isDig_dig, if_true, dval_dig]
  congr 2
  omega

theorem atoi_pad4 (y : Nat) (hy : y ≤ 9999) : atoi (pad4 y) = some (y : Int) := by
  have d1 := isDig_dig (y / 1000)
  have h45 : (dig (y / 1000) == 45) = false := by
    apply beq_false_of_ne; intro e; rw [e] at d1; simp [isDig] at d1
  have h43 : (dig (y / 1000) == 43) = false := by
    apply beq_false_of_ne; intro e; rw [e] at d1; simp [isDig] at d1
  simp only [atoi, pad4, h45, h43, Bool.false_eq_true, if_false, List.isEmpty_cons, List.all_cons, List.all_nil, isDig_dig,
    Bool.and_self, Bool.not_true, Bool.or_self, List.foldl_cons, List.foldl_nil, dval_dig]
  congr 1
  omega

/-! ### one element -/

theorem headD_append_dig (n : Nat) (a b : Bytes) : (pad2 n ++ a ++ b).headD 0 = dig (n / 10) := by simp [pad2]

/-- what `time.Format` writes for a covered element is read back by `time.Parse`, leaving the rest untouched;
`hv`: the rest does not begin with a fractional-second separator (only needed after seconds) -/
theorem parseStd_format (s : Std) (hs : numericStd s = true) (i : Inst) (hi : ValidInst i) (next : Option Std) (v : Bytes) (f : F)
    (hv : s = .zeroSecond → commaOrPeriod (v.headD 0) = false) :
    ∃ txt, formatStd s i = some txt ∧ txt.head? ≠ some 32 ∧ commaOrPeriod (txt.headD 0) = false ∧
      parseStd s next (txt ++ v) f = some (setStd s i f, v) := by
  obtain ⟨hy, hm1, hm12, hd1, hdd, hh, hmi, hse⟩ := hi
  have hd31 : i.day ≤ 31 := by
    have : daysIn i.month i.year ≤ 31 := by
      simp only [daysIn]; split
      · split <;> omega
      · split <;> omega
    omega
  have headOK : ∀ n : Nat, (pad2 n).head? ≠ some 32 := by
    intro n; simp only [pad2, List.head?_cons, ne_eq, Option.some.injEq]; exact dig_ne_blank _
  have cpOK : ∀ n : Nat, commaOrPeriod ((pad2 n).headD 0) = false := by
    intro n; simp only [pad2, List.headD_cons]; exact commaOrPeriod_dig _
  cases s <;> simp [numericStd] at hs
  case longYear =>
    refine ⟨pad4 i.year, rfl, ?_, ?_, ?_⟩
    · simp only [pad4, List.head?_cons, ne_eq, Option.some.injEq]; exact dig_ne_blank _
    · simp only [pad4, List.headD_cons]; exact commaOrPeriod_dig _
    · have htake : (pad4 i.year ++ v).take 4 = pad4 i.year := by simp [pad4]
      have hdrop : (pad4 i.year ++ v).drop 4 = v := by simp [pad4]
      have hlen : ¬ ((pad4 i.year ++ v).length < 4) := by simp [pad4]
      have hdig : isDigitAt (pad4 i.year ++ v) 0 = true := by simp [pad4, isDigitAt, isDig_dig]
      simp only [parseStd, hlen, hdig, htake, hdrop, atoi_pad4 i.year hy, setStd]
      simp
  case zeroMonth =>
    refine ⟨pad2 i.month, rfl, headOK _, cpOK _, ?_⟩
    simp only [parseStd, getnum_pad2 i.month (by omega), Option.bind, setStd]
    have : ¬ ((i.month : Int) ≤ 0 ∨ (12 : Int) < i.month) := by omega
    simp [this] <;> omega
  case zeroDay =>
    refine ⟨pad2 i.day, rfl, headOK _, cpOK _, ?_⟩
    have hne : ((pad2 i.day ++ v).head? == some 32) = false := by
      simp only [pad2, List.cons_append, List.head?_cons]
      apply beq_false_of_ne; intro e; exact dig_ne_blank _ (Option.some.inj e)
    simp [parseStd, getnum_pad2 i.day (by omega), setStd]
  case hour =>
    refine ⟨pad2 i.hour, rfl, headOK _, cpOK _, ?_⟩
    simp only [parseStd, getnum_pad2 i.hour (by omega), Option.bind, setStd]
    have : ¬ ((i.hour : Int) < 0 ∨ (24 : Int) ≤ i.hour) := by omega
    simp [this] <;> omega
  case zeroMinute =>
    refine ⟨pad2 i.min, rfl, headOK _, cpOK _, ?_⟩
    simp only [parseStd, getnum_pad2 i.min (by omega), Option.bind, setStd]
    have : ¬ ((i.min : Int) < 0 ∨ (60 : Int) ≤ i.min) := by omega
    simp [this] <;> omega
  case zeroSecond =>
    refine ⟨pad2 i.sec, rfl, headOK _, cpOK _, ?_⟩
    have hcp := hv rfl
    simp only [parseStd, getnum_pad2 i.sec (by omega), setStd]
    have : ¬ ((i.sec : Int) < 0 ∨ (60 : Int) ≤ i.sec) := by omega
    simp [this]
    intro _ h
    have hcp' : commaOrPeriod ((List.head? v).getD 0) = false := by simpa using hcp
    rw [hcp'] at h; cases h

/-! ### the whole layout -/

theorem head?_append_of_ne {a b : Bytes} (ha : a ≠ []) : (a ++ b).head? = a.head? := by
  cases a with
  | nil => exact absurd rfl ha
  | cons x a => rfl

theorem parseItems_format (tail : Bytes) (i : Inst) (hi : ValidInst i) :
    ∀ (items : List (Bytes × Std)) (afterSec : Bool) (f : F), numericItems afterSec items tail = true →
      ∃ body, formatItems items i = some body ∧
        (afterSec = true → commaOrPeriod ((body ++ tail).headD 0) = false) ∧
        parseItems tail items (body ++ tail) f = some (projectF items i f)
  | [], afterSec, f, h => by
    refine ⟨[], rfl, ?_, ?_⟩
    · intro ha
      simp only [numericItems, litOK, ha, Bool.not_true, Bool.false_or, Bool.not_eq_true'] at h
      cases tail with
      | nil => simp [commaOrPeriod]
      | cons c t => simpa using h
    · have := skipLit_append (rest := []) (by simp) tail
      simp only [List.append_nil] at this
      simp [parseItems, this, projectF]
  | (pre, s) :: rest, afterSec, f, h => by
    simp only [numericItems, Bool.and_eq_true] at h
    obtain ⟨⟨hlit, hs⟩, hrest⟩ := h
    obtain ⟨body', hb', hcp', hparse'⟩ := parseItems_format tail i hi rest (s == .zeroSecond) (setStd s i f) hrest
    have hv : s = .zeroSecond → commaOrPeriod ((body' ++ tail).headD 0) = false := by
      intro e; exact hcp' (by simp [e])
    obtain ⟨txt, hfmt, hhead, hcpt, hstd⟩ := parseStd_format s hs i hi (rest.head?.map (·.2)) (body' ++ tail) f hv
    have htxt : txt ≠ [] := by
      intro e; subst e
      cases s <;> simp [numericStd] at hs <;> simp [formatStd, pad2, pad4] at hfmt
    refine ⟨pre ++ txt ++ body', ?_, ?_, ?_⟩
    · simp [formatItems, hfmt, hb']
    · intro ha
      simp only [litOK, ha, Bool.not_true, Bool.false_or, Bool.not_eq_true'] at hlit
      cases pre with
      | nil =>
        cases txt with
        | nil => exact absurd rfl htxt
        | cons x t => simpa using hcpt
      | cons c p => simpa using hlit
    · have hh : (txt ++ (body' ++ tail)).head? ≠ some 32 := by rw [head?_append_of_ne htxt]; exact hhead
      have e : pre ++ txt ++ body' ++ tail = pre ++ (txt ++ (body' ++ tail)) := by simp [List.append_assoc]
      rw [e]
      simp only [parseItems, skipLit_append hh pre, hstd, hparse']
      simp [projectF]

/-! ### the epilogue -/

structure FInv (i : Inst) (f : F) : Prop where
  year : f.year = 0 ∨ f.year = i.year
  month : f.month = -1 ∨ f.month = i.month
  day : f.day = -1 ∨ f.day = i.day
  am : f.am = false
  pm : f.pmS = false
  z : f.zUTC = false
  zo : f.zoneOffset = none
  zn : f.zoneName = none

theorem FInv.setStd {i : Inst} {f : F} (h : FInv i f) (s : Std) : FInv i (setStd s i f) := by
  obtain ⟨a, b, c, d, e, g, k, l⟩ := h
  cases s <;> simp only [Logrange.Date.setStd] <;> constructor <;> simp_all

theorem FInv.projectF {i : Inst} : ∀ (items : List (Bytes × Std)) {f : F}, FInv i f → FInv i (projectF items i f)
  | [], _, h => h
  | it :: rest, _, h => by
    simp only [Logrange.Date.projectF, List.foldl_cons]
    exact FInv.projectF rest (h.setStd it.2)

theorem daysIn_bounds (m y : Int) : 28 ≤ daysIn m y ∧ daysIn m y ≤ 31 ∧ daysIn m y ≤ daysIn m 0 := by
  simp only [daysIn, isLeap]
  by_cases h2 : (m == 2) = true
  · simp only [h2, if_true]
    have : ((0 : Int) % 4 == 0 && ((0 : Int) % 100 != 0 || (0 : Int) % 400 == 0)) = true := by decide
    simp only [this, if_true]
    by_cases hl : (y % 4 == 0 && (y % 100 != 0 || y % 400 == 0)) = true <;> simp [hl]
  · simp only [h2, Bool.false_eq_true, if_false]
    by_cases h4 : (m == 4 || m == 6 || m == 9 || m == 11) = true <;> simp [h4]

theorem daysIn_one (y : Int) : daysIn 1 y = 31 := by simp [daysIn]

theorem finish_of_inv {i : Inst} (hi : ValidInst i) {f : F} (h : FInv i f) : finish f = .ok (civilOf f) := by
  obtain ⟨_, hm1, hm12, hd1, hdd, _, _, _⟩ := hi
  obtain ⟨hy, hm, hd, ham, hpm, hz, hzo, hzn⟩ := h
  have b1 := daysIn_bounds i.month i.year
  have key : ¬ ((if f.day < 0 then 1 else f.day) < 1 ∨
      (if f.day < 0 then 1 else f.day) > daysIn (if f.month < 0 then 1 else f.month) f.year) := by
    rcases hd with hd | hd
    · have b := daysIn_bounds (if f.month < 0 then 1 else f.month) f.year
      simp only [hd]; simp; omega
    · rw [hd]
      have hdn : ¬ ((i.day : Int) < 0) := by omega
      simp only [hdn, if_false]
      rcases hm with hm | hm
      · simp only [hm]; simp [daysIn_one]; omega
      · rw [hm]
        have hmn : ¬ ((i.month : Int) < 0) := by omega
        simp only [hmn, if_false]
        rcases hy with hy | hy
        · rw [hy]; omega
        · rw [hy]; omega
  simp only [finish, hpm, ham, Bool.false_and, Bool.false_eq_true, if_false, hz, hzo, hzn, civilOf]
  rw [if_neg (by simpa using key)]

theorem inv_init (i : Inst) : FInv i {} := ⟨Or.inl rfl, Or.inl rfl, Or.inl rfl, rfl, rfl, rfl, rfl, rfl⟩

theorem numericItems_supported : ∀ (items : List (Bytes × Std)) (a : Bool) (tail : Bytes), numericItems a items tail = true →
    items.all (fun it => it.2 != .unsupported) = true
  | [], _, _, _ => rfl
  | (pre, s) :: rest, a, tail, h => by
    simp only [numericItems, Bool.and_eq_true] at h
    have := numericItems_supported rest _ tail h.2
    simp only [List.all_cons, this, Bool.and_true]
    have hs := h.1.2
    cases s <;> simp [numericStd] at hs <;> decide

/-- the generic round trip -/
theorem format_parse_numeric (L : Layout) (hL : NumericLayout L = true) (i : Inst) (hi : ValidInst i) :
    ∃ txt, formatLayout L i = some txt ∧ parseLayout L txt = .ok (project L i) := by
  obtain ⟨body, hb, _, hp⟩ := parseItems_format L.tail i hi L.items false {} hL
  refine ⟨body ++ L.tail, by simp [formatLayout, hb], ?_⟩
  have hsup : L.supported = true := numericItems_supported L.items false L.tail hL
  simp only [parseLayout, hsup, Bool.not_true, Bool.false_eq_true, if_false, hp]
  exact finish_of_inv hi (FInv.projectF L.items (inv_init i))

end Logrange.Date
