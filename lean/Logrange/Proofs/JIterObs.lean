import Logrange.Model.JIterObs
/-! # The tailing reader on the last chunk never skips when every end-of-data step sees one count (`Model/JIterObs.lean`, `Tail`) -/
namespace Logrange.JIterObs.Tail

/-- confirmed counts only grow -/
def Mono (obs : Nat → Nat) : Prop := ∀ a b, a ≤ b → obs a ≤ obs b

/-- what has been handed to the reader is exactly the first `pos` records, in order, and `pos` never exceeds a count
that has been observed -/
structure RInv (obs : Nat → Nat) (r : Run) : Prop where
  pos : r.s.pos = r.delivered.length
  pre : r.delivered = List.range r.delivered.length
  bound : r.s.pos = 0 ∨ ∃ k, k < r.s.reads ∧ r.s.pos ≤ obs k

theorem init_inv (obs : Nat → Nat) : RInv obs {} := ⟨rfl, rfl, Or.inl rfl⟩

theorem get_opened_lt (obs : Nat → Nat) (p rd : Nat) (h : p < obs rd) :
    get obs { pos := p, opened := true, reads := rd } = ({ pos := p, opened := true, reads := rd + 1 }, some p, none) := by
  simp [get, ensPos, ensReads, h]

theorem next_opened_lt (obs : Nat → Nat) (p rd : Nat) (h1 : p < obs rd) (h2 : p < obs (rd + 1)) :
    next obs { pos := p, opened := true, reads := rd } = { pos := p + 1, opened := true, reads := rd + 1 + 1 } := by
  simp [next, get_opened_lt obs p rd h1, h2]

theorem step_stable (obs : Nat → Nat) (r : Run) (h : (step obs r).stable = true) : r.stable = true := by
  unfold step at h
  generalize get obs r.s = g at h
  obtain ⟨s1, rec, eo⟩ := g
  cases rec <;> simp at h <;> exact h.1

theorem step_inv (obs : Nat → Nat) (hm : Mono obs) (r : Run) (hi : RInv obs r) (hs : (step obs r).stable = true) :
    RInv obs (step obs r) := by
  obtain ⟨hpos, hpre, hb⟩ := hi
  -- ensureChkIt leaves the position where it was: it never exceeds an observed count
  have hp : ensPos obs r.s = r.s.pos := by
    unfold ensPos
    split
    · rfl
    · split
      · rename_i h0; exact h0.symm
      · rename_i h0
        rcases hb with hb | ⟨k, hk, hle⟩
        · exact absurd hb h0
        · have := hm k r.s.reads (by omega)
          exact Nat.min_eq_left (by omega)
  have hr : r.s.reads ≤ ensReads r.s := by unfold ensReads; split <;> (try split) <;> omega
  have hb' : r.s.pos = 0 ∨ r.s.pos ≤ obs (ensReads r.s) := by
    rcases hb with hb | ⟨k, hk, hle⟩
    · exact Or.inl hb
    · have := hm k (ensReads r.s) (by omega); exact Or.inr (by omega)
  by_cases hlt : r.s.pos < obs (ensReads r.s)
  · -- a record: Get, then Next (its own Get and the chunk iterator's Next each read the count once more)
    have h1 := hm (ensReads r.s) (ensReads r.s + 1) (by omega)
    have h2 := hm (ensReads r.s) (ensReads r.s + 1 + 1) (by omega)
    have hl1 : r.s.pos < obs (ensReads r.s + 1) := by omega
    have hl2 : r.s.pos < obs (ensReads r.s + 1 + 1) := by omega
    have hg : get obs r.s = ({ pos := r.s.pos, opened := true, reads := ensReads r.s + 1 }, some r.s.pos, none) := by
      simp only [get, hp, hlt, ↓reduceIte]
    have hn := next_opened_lt obs r.s.pos (ensReads r.s + 1) hl1 hl2
    have e : step obs r = { s := { pos := r.s.pos + 1, opened := true, reads := ensReads r.s + 1 + 1 + 1 },
                            delivered := r.delivered ++ [r.s.pos], stable := r.stable } := by
      simp only [step, hg, hn, Bool.and_true]
    rw [e]
    refine ⟨by simp [hpos], ?_, Or.inr ⟨ensReads r.s, by simp; omega, by simp; omega⟩⟩
    simp only [List.length_append, List.length_cons, List.length_nil]
    rw [List.range_succ, ← hpre, hpos]
  · -- end of data: the position is rebuilt from the second observation, which equals the first
    have e : step obs r = { s := { pos := obs (ensReads r.s + 1), opened := false, reads := ensReads r.s + 2 },
                            delivered := r.delivered,
                            stable := r.stable && (obs (ensReads r.s) == obs (ensReads r.s + 1)) } := by
      simp only [step, get, hp, hlt, ↓reduceIte]
    rw [e] at hs ⊢
    have hc : obs (ensReads r.s) = obs (ensReads r.s + 1) := by
      simp at hs; exact hs.2
    refine ⟨?_, hpre, Or.inr ⟨ensReads r.s + 1, by simp, by simp⟩⟩
    show obs (ensReads r.s + 1) = r.delivered.length
    rcases hb' with h0 | hle <;> omega

theorem run_stable (obs : Nat → Nat) : ∀ (n : Nat) (r : Run), (run obs n r).stable = true → r.stable = true := by
  intro n
  induction n with
  | zero => intro r h; exact h
  | succ n ih => intro r h; exact step_stable obs r (ih (step obs r) h)

theorem run_inv (obs : Nat → Nat) (hm : Mono obs) : ∀ (n : Nat) (r : Run), RInv obs r → (run obs n r).stable = true →
    RInv obs (run obs n r) := by
  intro n
  induction n with
  | zero => intro r hi _; exact hi
  | succ n ih =>
    intro r hi hs
    exact ih (step obs r) (step_inv obs hm r hi (run_stable obs n (step obs r) hs)) hs

end Logrange.JIterObs.Tail
