import Logrange.Model.Registry
/-! Lemmas behind the C19 property theorems. -/
namespace Logrange.Registry
open Go

/-! ### sort.Search returns the least index with `f` true, when `f` is monotone on `[0,n)` -/

theorem sortSearchLoop_spec (f : Nat → Bool) (n : Nat)
    (hmono : ∀ a b, a ≤ b → b < n → f a = true → f b = true) :
    ∀ fuel i j, i ≤ j → j ≤ n → j - i < fuel →
      (∀ k, k < i → f k = false) → (∀ k, j ≤ k → k < n → f k = true) →
      (sortSearchLoop f fuel i j ≤ n ∧ (∀ k, k < sortSearchLoop f fuel i j → f k = false) ∧
        (∀ k, sortSearchLoop f fuel i j ≤ k → k < n → f k = true)) := by
  intro fuel
  induction fuel with
  | zero => intro i j _ _ h; omega
  | succ fuel ih =>
    intro i j hij hjn hfuel hlo hhi
    unfold sortSearchLoop
    by_cases hlt : i < j
    · simp only [hlt, if_true]
      have hh1 : i ≤ (i + j) / 2 := by omega
      have hh2 : (i + j) / 2 < j := by omega
      cases hf : f ((i + j) / 2) with
      | false =>
        simp only [Bool.not_false, if_true]
        apply ih ((i + j) / 2 + 1) j (by omega) hjn (by omega) _ hhi
        intro k hk
        cases hfk : f k with
        | false => rfl
        | true =>
          have := hmono k ((i + j) / 2) (by omega) (by omega) hfk
          rw [hf] at this; cases this
      | true =>
        simp only [Bool.not_true]
        apply ih i ((i + j) / 2) hh1 (by omega) (by omega) hlo
        intro k hk hkn
        exact hmono ((i + j) / 2) k hk hkn hf
    · simp only [hlt, if_false]
      have : i = j := by omega
      subst this
      exact ⟨hjn, hlo, hhi⟩

theorem sortSearch_spec (f : Nat → Bool) (n : Nat)
    (hmono : ∀ a b, a ≤ b → b < n → f a = true → f b = true) :
    sortSearch n f ≤ n ∧ (∀ k, k < sortSearch n f → f k = false) ∧
      (∀ k, sortSearch n f ≤ k → k < n → f k = true) := by
  unfold sortSearch
  apply sortSearchLoop_spec f n hmono (n+1) 0 n (by omega) (by omega) (by omega)
  · intro k hk; omega
  · intro k hk hkn; omega

/-! ### GetPipes -/

def Sorted (l : List Pipe) : Prop := l.Pairwise (fun a b => bytesLe a.name b.name = true)

/-- the loop invariant of `GetPipes` with the counter incremented -/
def GPInv (n : Nat) (s : GP) (done : List Pipe) : Prop :=
  ∃ filled, s.res = filled ++ List.replicate (n - s.cnt) default ∧ filled.length = s.cnt ∧ s.cnt ≤ n ∧
    Sorted filled ∧ filled.Perm done

theorem dropLast_append_replicate (l : List Pipe) (k : Nat) (d : Pipe) :
    (l ++ List.replicate (k+1) d).dropLast = l ++ List.replicate k d := by
  have : List.replicate (k+1) d = List.replicate k d ++ [d] := by
    rw [List.replicate_succ']
  rw [this, ← List.append_assoc, List.dropLast_concat]

theorem gpStep_inv (n : Nat) (s : GP) (done : List Pipe) (p : Pipe)
    (h : GPInv n s done) (hlt : s.cnt < n) : GPInv n (gpStep true s p) (done ++ [p]) := by
  obtain ⟨filled, hres, hlen, _, hsorted, hperm⟩ := h
  -- the search predicate only looks at the filled part
  let f : Nat → Bool := fun i => bytesLe p.name (s.res.getD i default).name
  have hget : ∀ i, (hi : i < s.cnt) → s.res.getD i default = filled[i]'(by omega) := by
    intro i hi
    rw [hres]
    simp [List.getD_eq_getElem?_getD, List.getElem?_append_left (by omega : i < filled.length),
      List.getElem?_eq_getElem (by omega : i < filled.length)]
  have hmono : ∀ a b, a ≤ b → b < s.cnt → f a = true → f b = true := by
    intro a b hab hb hfa
    simp only [f] at hfa ⊢
    rw [hget a (by omega)] at hfa
    rw [hget b hb]
    rcases Nat.lt_or_ge a b with hlt' | hge
    · have := List.pairwise_iff_getElem.mp hsorted a b (by omega) (by omega) hlt'
      exact bytesLe_trans _ _ _ hfa this
    · have : a = b := by omega
      subst this; exact hfa
  obtain ⟨hle, hlo, hhi⟩ := sortSearch_spec f s.cnt hmono
  -- name the index
  obtain ⟨idx, hidxe⟩ : ∃ idx, sortSearch s.cnt f = idx := ⟨_, rfl⟩
  rw [hidxe] at hle hlo hhi
  have hstep : gpStep true s p = ⟨s.res.take idx ++ p :: (s.res.drop idx).dropLast, s.cnt + 1⟩ := by
    rw [← hidxe]; rfl
  refine ⟨filled.take idx ++ p :: filled.drop idx, ?_, ?_, ?_, ?_, ?_⟩
  · -- shape of the array
    rw [hstep]; simp only []
    rw [hres]
    have hk : n - s.cnt = (n - (s.cnt + 1)) + 1 := by omega
    rw [List.take_append_of_le_length (by omega), List.drop_append_of_le_length (by omega), hk,
      dropLast_append_replicate]
    simp
  · rw [hstep]; simp only []
    simp [List.length_take, List.length_drop]; omega
  · rw [hstep]; simp only []; omega
  · -- sorted
    unfold Sorted
    rw [List.pairwise_append]
    refine ⟨hsorted.sublist (List.take_sublist _ _), ?_, ?_⟩
    · rw [List.pairwise_cons]
      refine ⟨?_, hsorted.sublist (List.drop_sublist _ _)⟩
      intro b hb
      obtain ⟨k, hk, rfl⟩ := List.getElem_of_mem hb
      rw [List.length_drop] at hk
      rw [List.getElem_drop]
      have := hhi (idx + k) (by omega) (by omega)
      simp only [f] at this
      rw [hget (idx + k) (by omega)] at this
      exact this
    · intro a ha b hb
      obtain ⟨k, hk, rfl⟩ := List.getElem_of_mem ha
      rw [List.length_take] at hk
      rw [List.getElem_take]
      have hk' : k < idx := by omega
      have hfk := hlo k hk'
      simp only [f] at hfk
      rw [hget k (by omega)] at hfk
      -- a.name < p.name
      have hap : bytesLe (filled[k]'(by omega)).name p.name = true := by
        rcases bytesLe_total (filled[k]'(by omega)).name p.name with h | h
        · exact h
        · rw [hfk] at h; cases h
      rcases List.mem_cons.mp hb with rfl | hb'
      · exact hap
      · obtain ⟨m, hm, rfl⟩ := List.getElem_of_mem hb'
        rw [List.length_drop] at hm
        rw [List.getElem_drop]
        have := hhi (idx + m) (by omega) (by omega)
        simp only [f] at this
        rw [hget (idx + m) (by omega)] at this
        exact bytesLe_trans _ _ _ hap this
  · -- permutation
    have h1 : (filled.take idx ++ p :: filled.drop idx).Perm (p :: (filled.take idx ++ filled.drop idx)) :=
      List.perm_middle
    rw [List.take_append_drop] at h1
    exact h1.trans ((List.Perm.cons p hperm).trans (List.perm_append_singleton p done).symm)

theorem getPipes_foldl_inv (n : Nat) :
    ∀ (todo : List Pipe) (s : GP) (done : List Pipe), GPInv n s done → s.cnt + todo.length ≤ n →
      GPInv n (todo.foldl (gpStep true) s) (done ++ todo) := by
  intro todo
  induction todo with
  | nil => intro s done h _; simpa using h
  | cons p ps ih =>
    intro s done h hlen
    simp only [List.foldl_cons, List.length_cons] at hlen ⊢
    have h' := gpStep_inv n s done p h (by omega)
    have hc : (gpStep true s p).cnt = s.cnt + 1 := by simp [gpStep]
    have := ih (gpStep true s p) (done ++ [p]) h' (by omega)
    simpa [List.append_assoc] using this

theorem getPipes_sorted_perm (order : List Pipe) :
    Sorted (getPipes true order) ∧ (getPipes true order).Perm order := by
  have h0 : GPInv order.length ⟨List.replicate order.length default, 0⟩ [] :=
    ⟨[], by simp, rfl, by simp, List.Pairwise.nil, List.Perm.refl _⟩
  have := getPipes_foldl_inv order.length order _ [] h0 (by simp)
  obtain ⟨filled, hres, hlen, hle, hs, hp⟩ := this
  have hc : filled.length = order.length := by
    have := hp.length_eq; simpa using this
  have : getPipes true order = filled := by
    unfold getPipes
    rw [hres]
    have : order.length - (List.foldl (gpStep true) ⟨List.replicate order.length default, 0⟩ order).cnt = 0 := by
      omega
    rw [this]; simp
  rw [this]
  exact ⟨hs, by simpa using hp⟩

/-! ### paging of SHOW PIPES -/

theorem wrap64_of_small (x : Int) (h0 : 0 ≤ x) (h1 : x ≤ maxInt64) : wrap64 x = x := by
  unfold wrap64 maxInt64 at *; omega

theorem wrap64_of_overflow (x : Int) (h0 : maxInt64 < x) (h1 : x ≤ 2 * maxInt64) : wrap64 x < 0 := by
  unfold wrap64 maxInt64 at *; omega

/-- for every limit and offset an `int` can hold (also when `lim+offs` wraps around) the page is
`(names.drop offs).take lim` -/
theorem showPipes_eq (names : List Bytes) (lim offs : Nat) (hl : 0 < lim)
    (hlm : (lim : Int) ≤ maxInt64) (hom : (offs : Int) ≤ maxInt64) :
    showPipes names (some lim) (some offs) = some ((names.drop offs).take lim) := by
  unfold showPipes
  have h0 : ¬ ((lim : Int) == 0) = true := by simp; omega
  simp only [Option.getD_some, h0, if_false, Bool.false_eq_true]
  have h1 : ¬ ((offs : Int) < 0) := by omega
  simp only [h1, if_false]
  by_cases hov : (lim : Int) + offs ≤ maxInt64
  · rw [wrap64_of_small _ (by omega) hov]
    by_cases h2 : (lim : Int) + offs > names.length
    · simp only [h2, if_true]
      by_cases h3 : (names.length : Int) - offs < 0
      · simp only [h3, if_true]
        have : names.length ≤ offs := by omega
        simp [List.drop_eq_nil_of_le this]
      · simp only [h3, if_false]
        congr 1
        have e : ((names.length : Int) - offs).toNat = names.length - offs := by omega
        rw [e]
        simp only [Int.toNat_natCast]
        rw [List.take_of_length_le (by simp), List.take_of_length_le (by simp; omega)]
    · simp only [h2, if_false]
      simp
  · have hneg := wrap64_of_overflow ((lim : Int) + offs) (by omega) (by unfold maxInt64 at *; omega)
    have h2 : ¬ (wrap64 ((lim : Int) + offs) > names.length) := by omega
    simp only [h2, if_false]
    simp

/-- walking the listing with pages of `k` names starting at `offs` visits exactly `names.drop offs` -/
theorem pages_concat (names : List Bytes) (k : Nat) :
    ∀ (fuel offs : Nat), names.length ≤ offs + fuel * k →
      ((List.range fuel).map (fun i => (names.drop (offs + i * k)).take k)).flatten = names.drop offs := by
  intro fuel
  induction fuel with
  | zero =>
    intro offs h
    simp at h ⊢
    exact h
  | succ fuel ih =>
    intro offs h
    rw [List.range_succ_eq_map]
    simp only [List.map_cons, List.flatten_cons, List.map_map, Nat.zero_mul, Nat.add_zero]
    have := ih (offs + k) (by rw [Nat.succ_mul] at h; omega)
    have e : ((fun i => List.take k (List.drop (offs + i * k) names)) ∘ Nat.succ) =
        (fun i => List.take k (List.drop (offs + k + i * k) names)) := by
      funext i; simp [Nat.succ_mul]; congr 2; omega
    rw [e, this]
    rw [← List.drop_drop]
    exact List.take_append_drop k (names.drop offs)

/-! ### registry algebra -/

def Reg.Nodup (r : Reg) : Prop := (r.map (·.name)).Nodup

theorem find_erase_self (r : Reg) (n : Bytes) : (r.erase n).find n = none := by
  unfold Reg.find Reg.erase
  rw [List.find?_eq_none]
  intro p hp
  simp at hp
  simp [hp.2]

theorem find_cons_self (r : Reg) (p : Pipe) : Reg.find (p :: r) p.name = some p := by
  simp [Reg.find]

theorem find_some_name (r : Reg) (n : Bytes) (q : Pipe) (h : r.find n = some q) : q.name = n := by
  unfold Reg.find at h
  have := List.find?_some h
  simpa using this

theorem find_none_not_mem (r : Reg) (n : Bytes) (h : r.find n = none) : n ∉ r.map (·.name) := by
  unfold Reg.find at h
  rw [List.find?_eq_none] at h
  intro hm
  obtain ⟨p, hp, rfl⟩ := List.mem_map.mp hm
  have := h p hp
  simp at this

theorem erase_nodup (r : Reg) (n : Bytes) (h : r.Nodup) : (r.erase n).Nodup := by
  unfold Reg.Nodup Reg.erase at *
  exact (List.Nodup.sublist (List.Sublist.map _ (List.filter_sublist)) h)

theorem step_nodup (r : Reg) (o : Op) (h : r.Nodup) : (step r o).1.Nodup := by
  cases o with
  | create p ok =>
    simp only [step, create]
    cases hf : r.find p.name with
    | some q => simpa using h
    | none =>
      cases ok with
      | false => simpa using h
      | true =>
        simp only [if_true]
        unfold Reg.Nodup; simp only [List.map_cons, List.nodup_cons]
        exact ⟨find_none_not_mem r _ hf, h⟩
  | ensure p ok =>
    simp only [step, ensure]
    cases hf : r.find p.name with
    | some q => simp only []; split <;> simpa using h
    | none =>
      cases ok with
      | false => simpa using h
      | true =>
        simp only [if_true]
        unfold Reg.Nodup; simp only [List.map_cons, List.nodup_cons]
        exact ⟨find_none_not_mem r _ hf, h⟩
  | delete n =>
    simp only [step]
    cases hf : r.find n with
    | some q => exact erase_nodup r n h
    | none => simpa using h
  | get n =>
    simp only [step]
    cases hf : r.find n <;> simpa using h

/-! ### concurrent EnsurePipe with one common definition -/

/-- `p` has the name and the two conditions of the reference definition `d` -/
def SameDef (d p : Pipe) : Prop := p.name = d.name ∧ p.fltCond = d.fltCond ∧ p.tagsCond = d.tagsCond

def RegGood (d : Pipe) (reg : Reg) : Prop := ∀ q, reg.find d.name = some q → SameDef d q

/-- what every caller's program counter satisfies along the run -/
def Good (d : Pipe) (reg : Reg) (x : Pipe × Epc) : Prop :=
  SameDef d x.1 ∧
  match x.2 with
  | .get n => n ≤ 1 ∧ (n = 1 → (reg.find d.name).isSome = true)
  | .createStart n => n = 0
  | .createChecked n => n = 0
  | .done r => ∃ q, r = .ok q ∧ SameDef d q

def EInv (d : Pipe) (s : EState) : Prop := RegGood d s.reg ∧ ∀ x ∈ s.pcs, Good d s.reg x

theorem find_cons_same (reg : Reg) (p : Pipe) (n : Bytes) (h : p.name = n) : Reg.find (p :: reg) n = some p := by
  simp [Reg.find, h]

theorem good_mono (d p : Pipe) (reg : Reg) (x : Pipe × Epc) (hp : p.name = d.name)
    (h : Good d reg x) : Good d (p :: reg) x := by
  obtain ⟨h1, h2⟩ := h
  refine ⟨h1, ?_⟩
  cases hx : x.2 with
  | get n =>
    rw [hx] at h2; simp only [] at h2 ⊢
    exact ⟨h2.1, fun _ => by rw [find_cons_same reg p d.name hp]; rfl⟩
  | createStart n => rw [hx] at h2; exact h2
  | createChecked n => rw [hx] at h2; exact h2
  | done r => rw [hx] at h2; exact h2

theorem estep_inv (d : Pipe) (s s' : EState) (a : Nat) (h : EInv d s) (hs : estep s a = some s') : EInv d s' := by
  obtain ⟨hreg, hall⟩ := h
  unfold estep at hs
  cases hpa : s.pcs[a]? with
  | none => simp [hpa] at hs
  | some pp =>
    obtain ⟨p, pc⟩ := pp
    have hmem : (p, pc) ∈ s.pcs := List.mem_of_getElem? hpa
    have hgood := hall (p, pc) hmem
    obtain ⟨hsame, hpc⟩ := hgood
    have hname : p.name = d.name := hsame.1
    -- every entry of the updated list is the new one or an old one
    have others : ∀ (v : Pipe × Epc) (reg' : Reg), (∀ x ∈ s.pcs, Good d reg' x) → Good d reg' v →
        ∀ x ∈ s.pcs.set a v, Good d reg' x := by
      intro v reg' hold hv x hx
      rcases List.mem_or_eq_of_mem_set hx with h | h
      · exact hold x h
      · rw [h]; exact hv
    cases pc with
    | get n =>
      simp only [hpa] at hs
      simp only [] at hpc
      cases hf : s.reg.find p.name with
      | some q =>
        have hq : SameDef d q := hreg q (by rw [← hname]; exact hf)
        have hne : (q.fltCond != p.fltCond || q.tagsCond != p.tagsCond) = false := by
          have e1 : p.fltCond = d.fltCond := hsame.2.1
          have e2 : p.tagsCond = d.tagsCond := hsame.2.2
          simp [hq.2.1, hq.2.2, e1, e2]
        simp only [hf, hne, Bool.false_eq_true, if_false, Option.some.injEq] at hs
        subst hs
        exact ⟨hreg, others _ _ hall ⟨hsame, q, rfl, hq⟩⟩
      | none =>
        simp only [hf, Option.some.injEq] at hs; subst hs
        refine ⟨hreg, others _ _ hall ⟨hsame, ?_⟩⟩
        -- attempt 1 would find the pipe: so this is attempt 0
        simp only []
        rcases Nat.lt_or_ge n 1 with h0 | h1
        · omega
        · have : n = 1 := by omega
          have := hpc.2 this
          rw [← hname, hf] at this; cases this
    | createStart n =>
      simp only [hpa] at hs
      simp only [] at hpc
      cases hf : s.reg.find p.name with
      | some q =>
        simp only [hf, Option.some.injEq] at hs; subst hs
        refine ⟨hreg, others _ _ hall ⟨hsame, ?_⟩⟩
        subst hpc
        simp only [nextAttempt]
        refine ⟨by omega, fun _ => ?_⟩
        rw [← hname, hf]; rfl
      | none =>
        simp only [hf, Option.some.injEq] at hs; subst hs
        exact ⟨hreg, others _ _ hall ⟨hsame, hpc⟩⟩
    | createChecked n =>
      simp only [hpa] at hs
      simp only [] at hpc
      cases hf : s.reg.find p.name with
      | some q =>
        simp only [hf, Option.some.injEq] at hs; subst hs
        refine ⟨hreg, others _ _ hall ⟨hsame, ?_⟩⟩
        subst hpc
        simp only [nextAttempt]
        refine ⟨by omega, fun _ => ?_⟩
        rw [← hname, hf]; rfl
      | none =>
        simp only [hf, Option.some.injEq] at hs; subst hs
        refine ⟨?_, ?_⟩
        · intro q hq
          rw [find_cons_same s.reg p d.name hname] at hq
          cases hq; exact hsame
        · apply others
          · intro x hx; exact good_mono d p s.reg x hname (hall x hx)
          · refine ⟨hsame, ?_⟩
            subst hpc
            simp only [nextAttempt]
            refine ⟨by omega, fun _ => ?_⟩
            rw [find_cons_same s.reg p d.name hname]; rfl
    | done r => simp [hpa] at hs

theorem erun_inv (d : Pipe) (s : EState) (sched : List Nat) (h : EInv d s) : EInv d (erun s sched) := by
  induction sched generalizing s with
  | nil => simpa [erun] using h
  | cons a as ih =>
    simp only [erun]
    cases hs : estep s a with
    | none => exact ih s h
    | some s' => exact ih s' (estep_inv d s s' a h hs)

end Logrange.Registry
