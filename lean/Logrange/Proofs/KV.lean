import Logrange.Model.Tags
/-!
# Lemmas about `kvstring.SplitString`'s automaton (`splitGo`) and its reduction `scan`

`split_inert`: a piece on which `scan` succeeds is swallowed by `splitGo` as a unit (it only grows `cur`).
`QuoteContract`: what the round trip needs from `strconv.Quote` / `strconv.Unquote` (a hypothesis).
-/
namespace Logrange.Proofs.KV
open Go Logrange.Quote Logrange.KV Logrange.Tags

theorem split_scan : ∀ (n : Nat) (p : Bytes), p.length ≤ n → ∀ (b : Bool) (rest : Bytes) (b' : Bool) (s : SS),
    scan p b = some b' →
    splitGo (p ++ rest) { s with inStr := b } = splitGo rest { s with inStr := b', cur := p.reverse ++ s.cur } := by
  intro n
  induction n with
  | zero =>
    intro p hp b rest b' s h
    have : p = [] := List.eq_nil_of_length_eq_zero (by omega)
    subst this; simp [scan] at h; subst h; simp
  | succ n ih =>
    intro p hp b rest b' s h
    match p, hp, h with
    | [], _, h => simp [scan] at h; subst h; simp
    | c :: p', hp, h =>
      simp only [List.length_cons] at hp
      unfold scan at h
      rw [List.cons_append, splitGo.eq_def]
      simp only []
      by_cases hq : c == DQ
      · simp only [hq, if_true] at h ⊢
        have := ih p' (by omega) (!b) rest b' { s with cur := c :: s.cur } h
        simpa [List.append_assoc] using this
      · simp only [hq] at h ⊢
        by_cases hb : (c == BS && b) = true
        · simp only [hb, if_true] at h ⊢
          match p', hp, h with
          | [], _, h => simp at h
          | d :: p'', hp, h =>
            simp only [List.length_cons] at hp
            simp only at h
            have hbt : b = true := by simp at hb; exact hb.2
            subst hbt
            have := ih p'' (by omega) true rest b' { s with cur := d :: c :: s.cur } h
            simp only [List.cons_append]
            simpa [List.append_assoc] using this
        · simp only [hb] at h ⊢
          by_cases hs : ((c == EQ || c == CM) && !b) = true
          · simp [hs] at h
          · simp only [hs] at h ⊢
            have := ih p' (by omega) b rest b' { s with cur := c :: s.cur } h
            simpa [List.append_assoc] using this

/-- `SplitString`'s automaton consumes a piece on which `scan` succeeds as a unit -/
theorem split_inert (p : Bytes) (b b' : Bool) (rest : Bytes) (s : SS) (h : scan p b = some b') :
    splitGo (p ++ rest) { s with inStr := b } = splitGo rest { s with inStr := b', cur := p.reverse ++ s.cur } :=
  split_scan p.length p (Nat.le_refl _) b rest b' s h

/-- what the round trip assumes about `strconv.Quote` / `strconv.Unquote` -/
structure QuoteContract : Prop where
  shape : ∀ v : Bytes, ∃ body, quote v = DQ :: body ++ [DQ] ∧ scan body true = some true
  unquote_quote : ∀ v : Bytes, unquote (quote v) = some v

theorem scan_append_aux : ∀ (n : Nat) (a : Bytes), a.length ≤ n → ∀ (b : Bytes) (s s' : Bool),
    scan a s = some s' → scan (a ++ b) s = scan b s' := by
  intro n
  induction n with
  | zero =>
    intro a ha b s s' h
    have : a = [] := List.eq_nil_of_length_eq_zero (by omega)
    subst this; simp [scan] at h; subst h; simp
  | succ n ih =>
    intro a ha b s s' h
    match a, ha, h with
    | [], _, h => simp [scan] at h; subst h; simp
    | c :: a', ha, h =>
      simp only [List.length_cons] at ha
      unfold scan at h
      rw [List.cons_append, scan.eq_def]
      simp only []
      by_cases hq : c == DQ
      · simp only [hq, if_true] at h ⊢
        exact ih a' (by omega) b (!s) s' h
      · simp only [hq] at h ⊢
        by_cases hb : (c == BS && s) = true
        · simp only [hb, if_true] at h ⊢
          match a', ha, h with
          | [], _, h => simp at h
          | d :: a'', ha, h =>
            simp only [List.length_cons] at ha
            simp only at h
            simp only [List.cons_append]
            exact ih a'' (by omega) b s s' h
        · simp only [hb] at h ⊢
          by_cases hs : ((c == EQ || c == CM) && !s) = true
          · simp [hs] at h
          · simp only [hs] at h ⊢
            exact ih a' (by omega) b s s' h

theorem scan_append (a b : Bytes) (s s' : Bool) (h : scan a s = some s') : scan (a ++ b) s = scan b s' :=
  scan_append_aux a.length a (Nat.le_refl _) b s s' h

theorem scan_DQ_cons (r : Bytes) (s : Bool) : scan (DQ :: r) s = scan r (!s) := by
  rw [scan.eq_def]; simp

theorem inert_quote (hq : QuoteContract) (v : Bytes) : inert (quote v) = true := by
  obtain ⟨body, hshape, hbody⟩ := hq.shape v
  unfold inert
  rw [hshape, List.cons_append, scan_DQ_cons, scan_append body [DQ] _ true (by simpa using hbody),
    scan_DQ_cons]
  simp [scan]

end Logrange.Proofs.KV
