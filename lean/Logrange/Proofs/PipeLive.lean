import Logrange.Proofs.PipeLts
/-!
# Lemmas for C11's pipe-worker clause: a worker that is finishing and a write notification, in either order

`workerDone` (sign off, then check for more data) and `onWriteEvent` (record the notified end, then `startWorker`) are two
critical sections of the pipe's lock; whichever runs first, the second one starts the worker for the late event.
-/
namespace Logrange.PipeLts
open Logrange.PipeLts

theorem run_append (cfg : Cfg) (st : State) (a b : List Label) : run cfg st (a ++ b) = run cfg (run cfg st a) b := by
  induction a generalizing st with
  | nil => rfl
  | cons l ls ih =>
    simp only [List.cons_append, run]
    cases step cfg st l <;> exact ih _

theorem upd_upd {α : Type} (f : Nat → α) (s : Nat) (a b : α) : upd (upd f s a) s b = upd f s b := by
  funext x
  simp only [upd]
  split <;> rfl

/-- one source replaced -/
def setSrc (st : State) (s : Nat) (σ : SrcSt) : State := { st with srcs := upd st.srcs s σ }
/-- the notificator took the head of the channel (and filled the cache) -/
def popChan (st : State) (rest : List WE) (c : Nat → Option Bool) : State := { st with chan := rest, cache := c }

/-- the descriptor after the late notification was recorded and a worker was charged for it -/
def rearmed (d : Desc) (we : WE) : Desc := { d with lastKnown := we.endPos, charged := true, stale := false }

/-- `pipesForSource` looks at the pipe, the cache and the source's tags only -/
theorem pipesForSource_congr (st st' : State) (s : Nat) (h1 : st'.pipe = st.pipe) (h2 : st'.others = st.others)
    (h3 : st'.cache = st.cache) (h4 : (st'.srcs s).listens = (st.srcs s).listens) :
    pipesForSource st' s = pipesForSource st s := by
  unfold pipesForSource
  rw [h1, h2, h3, h4]

/-- **notification first, then `workerDone`** -/
theorem notify_then_done (cfg : Cfg) (st : State) (s : Nat) (d : Desc) (we : WE) (rest : List WE)
    (hre : cfg.rearm = true) (hns : noStart cfg st = false) (hdn : st.down = false)
    (hch : st.chan = we :: rest) (hsrc : we.src = s) (hhit : (pipesForSource st s).1 = true)
    (hd : (st.srcs s).desc = some d) (hw : (st.srcs s).wk = .finishing) (hc : d.charged = true)
    (hlt : d.pos < we.endPos) :
    let st' := run cfg st [.notify, .wdone s]
    (st'.srcs s).wk = .starting ∧ (st'.srcs s).desc = some (rearmed d we) ∧ st'.chan = rest ∧ st'.dest = st.dest ∧
    (st'.srcs s).log = (st.srcs s).log ∧ st'.pipe = st.pipe ∧ st'.closed = st.closed ∧ st'.flt = st.flt ∧
    (st'.srcs s).prov = (st.srcs s).prov := by
  have hcl : st.closed = false := by
    simp only [noStart, Bool.or_eq_false_iff] at hns; exact hns.1
  subst hsrc
  have hpf : pipesForSource st we.src = (true, (pipesForSource st we.src).2) := Prod.ext hhit rfl
  -- the notification: charged, so no worker is started; the end position is recorded
  have h1 : step cfg st .notify = some (popChan (setSrc st we.src { st.srcs we.src with desc := some { d with lastKnown := we.endPos } }) rest (pipesForSource st we.src).2) := by
    simp only [step, hdn, hcl, hch, Bool.or_self, Bool.false_eq_true, if_false]
    rw [hpf]
    simp only [if_true, onWriteEvent, hd, startWorker, hc, hns]
    simp [popChan, setSrc, hcl, hdn]
  -- `workerDone`: signs off, re-checks, starts the worker
  simp only [run, h1]
  have hns' : noStart cfg (popChan (setSrc st we.src { st.srcs we.src with desc := some { d with lastKnown := we.endPos } }) rest (pipesForSource st we.src).2) = false := hns
  have h2 : step cfg (popChan (setSrc st we.src { st.srcs we.src with desc := some { d with lastKnown := we.endPos } }) rest (pipesForSource st we.src).2) (.wdone we.src)
      = some (popChan (setSrc st we.src { st.srcs we.src with desc := some (rearmed d we), wk := .starting }) rest (pipesForSource st we.src).2) := by
    simp only [step, hns']
    simp only [popChan, setSrc, upd_self, hw, hre, if_true, startWorker]
    simp [hlt, rearmed, upd_upd, hc]
  simp only [h2]
  simp [popChan, setSrc, upd_self]

/-- **`workerDone` first, then the notification** -/
theorem done_then_notify (cfg : Cfg) (st : State) (s : Nat) (d : Desc) (we : WE) (rest : List WE)
    (hre : cfg.rearm = true) (hns : noStart cfg st = false) (hdn : st.down = false)
    (hch : st.chan = we :: rest) (hsrc : we.src = s) (hhit : (pipesForSource st s).1 = true)
    (hd : (st.srcs s).desc = some d) (hw : (st.srcs s).wk = .finishing) (hc : d.charged = true)
    (hlt : d.pos < we.endPos) :
    let st' := run cfg st [.wdone s, .notify]
    (st'.srcs s).wk = .starting ∧ (st'.srcs s).desc = some (rearmed d we) ∧ st'.chan = rest ∧ st'.dest = st.dest ∧
    (st'.srcs s).log = (st.srcs s).log ∧ st'.pipe = st.pipe ∧ st'.closed = st.closed ∧ st'.flt = st.flt ∧
    (st'.srcs s).prov = (st.srcs s).prov := by
  have hcl : st.closed = false := by
    simp only [noStart, Bool.or_eq_false_iff] at hns; exact hns.1
  subst hsrc
  -- `workerDone`: signs off; a worker is started at once iff data was already known to be behind
  have hfin : ∀ σ' : SrcSt, σ'.listens = (st.srcs we.src).listens → σ'.desc = some (if d.pos < d.lastKnown then { d with charged := true, stale := false } else { d with charged := false }) →
      σ'.wk = (if d.pos < d.lastKnown then .starting else .none) → σ'.log = (st.srcs we.src).log → σ'.prov = (st.srcs we.src).prov →
      step cfg (setSrc st we.src σ') .notify
        = some (popChan (setSrc st we.src { σ' with desc := some (rearmed d we), wk := .starting }) rest (pipesForSource st we.src).2) := by
    intro σ' hl hd' hw' _ _
    have hpf : pipesForSource (setSrc st we.src σ') we.src = (true, (pipesForSource st we.src).2) := by
      have hcg := pipesForSource_congr st (setSrc st we.src σ') we.src rfl rfl rfl (by simp [setSrc, hl])
      rw [hcg]; exact Prod.ext hhit rfl
    have hns' : noStart cfg (setSrc st we.src σ') = false := hns
    have hdn' : (setSrc st we.src σ').down = false := hdn
    have hcl' : (setSrc st we.src σ').closed = false := hcl
    have hch' : (setSrc st we.src σ').chan = we :: rest := hch
    simp only [step, hdn', hcl', hch', Bool.or_self, Bool.false_eq_true, if_false]
    rw [hpf]
    simp only [if_true, onWriteEvent, hns']
    have hsrc : (setSrc st we.src σ').srcs we.src = σ' := by simp [setSrc]
    rw [hsrc, hd']
    by_cases hk : d.pos < d.lastKnown
    · simp only [hk, if_true, startWorker]
      simp [popChan, setSrc, rearmed, upd_upd, hw', hk, hcl, hdn]
    · simp only [hk, if_false, startWorker]
      simp [popChan, setSrc, rearmed, upd_upd, hlt, hcl, hdn]
  -- `workerDone`: signs off; a worker is started at once iff data was already known to be behind
  have h1 : step cfg st (.wdone we.src) = some (setSrc st we.src { st.srcs we.src with
      desc := some (if d.pos < d.lastKnown then { d with charged := true, stale := false } else { d with charged := false }),
      wk := (if d.pos < d.lastKnown then .starting else .none) }) := by
    simp only [step, hw, hd, hre, if_true, hns, startWorker]
    by_cases hk : d.pos < d.lastKnown <;> simp [hk, setSrc]
  have h2 := hfin { st.srcs we.src with
      desc := some (if d.pos < d.lastKnown then { d with charged := true, stale := false } else { d with charged := false }),
      wk := (if d.pos < d.lastKnown then .starting else .none) } rfl rfl rfl rfl rfl
  simp only [run, h1, h2]
  simp [popChan, setSrc, upd_self]

/-- the started worker's first round: open the cursor at `Pos`, copy what it sees (up to `k` records), save the position -/
theorem starting_worker_round (cfg : Cfg) (st : State) (s k : Nat) (d : Desc)
    (hw : (st.srcs s).wk = .starting) (hd : (st.srcs s).desc = some d) (hcl : st.closed = false) (hlive : st.pipe = .live) :
    let st' := run cfg st [.wopen s, .wcopy s k, .wsave s]
    let c' := min (d.pos + k) (st.srcs s).log.length
    (st'.srcs s).desc = some { d with pos := c' } ∧ (st'.srcs s).wk = .opened c' ∧
    st'.dest = st.dest ++ (sel cfg st.flt (slice (st.srcs s).log d.pos c')).map (fun e => (s, addProv (st.srcs s).prov e)) ∧
    (st'.srcs s).log = (st.srcs s).log ∧ st'.chan = st.chan := by
  have h1 : step cfg st (.wopen s) = some (setSrc st s { st.srcs s with wk := .opened d.pos }) := by
    simp only [step, hw, hd, setSrc]
  simp only [run, h1]
  simp only [step, setSrc, upd_self, hcl, hlive, hd]
  simp [upd]

end Logrange.PipeLts

namespace Logrange.PipeLts

/-! ### the write and its publication are independent of `workerDone` -/

theorem state_ext' (a b : State) (h1 : a.n = b.n) (h2 : a.srcs = b.srcs) (h3 : a.dest = b.dest) (h4 : a.chan = b.chan)
    (h5 : a.pend = b.pend) (h6 : a.pipe = b.pipe) (h7 : a.cache = b.cache) (h8 : a.others = b.others) (h9 : a.flt = b.flt)
    (h10 : a.closed = b.closed) (h11 : a.down = b.down) (h12 : a.reg = b.reg) : a = b := by
  cases a; cases b; simp_all

/-- the source after `workerDone` (sign off, re-check) -/
def doneSrc (σ : SrcSt) (d : Desc) : SrcSt :=
  { σ with desc := some (if d.pos < d.lastKnown then { d with charged := true, stale := false } else { d with charged := false }),
           wk := (if d.pos < d.lastKnown then .starting else .none) }

theorem step_wdone (cfg : Cfg) (st : State) (s : Nat) (d : Desc) (hre : cfg.rearm = true) (hns : noStart cfg st = false)
    (hd : (st.srcs s).desc = some d) (hw : (st.srcs s).wk = .finishing) :
    step cfg st (.wdone s) = some (setSrc st s (doneSrc (st.srcs s) d)) := by
  simp only [step, hw, hd, hre, if_true, hns, startWorker]
  by_cases hk : d.pos < d.lastKnown <;> simp [hk, setSrc, doneSrc]

theorem run_cons_some (cfg : Cfg) (st st' : State) (l : Label) (ls : List Label) (h : step cfg st l = some st') :
    run cfg st (l :: ls) = run cfg st' ls := by
  simp only [run, h]

/-- the late write as one record: the state after `write s batch; enqueue 0` from a state with nothing unpublished -/
def published (st : State) (s : Nat) (σ : SrcSt) (batch : List Ev) : State :=
  { setSrc st s { σ with log := σ.log ++ batch } with
    pend := [], chan := st.chan ++ [⟨s, σ.log.length, σ.log.length + batch.length⟩] }

def stored (st : State) (s : Nat) (σ : SrcSt) (batch : List Ev) : State :=
  { setSrc st s { σ with log := σ.log ++ batch } with pend := [⟨s, σ.log.length, σ.log.length + batch.length⟩] }

theorem step_write0 (cfg : Cfg) (st : State) (s : Nat) (batch : List Ev) (hdn : st.down = false) (hs : s < st.n)
    (hb : batch.isEmpty = false) (hpend : st.pend = []) :
    step cfg st (.write s batch) = some (stored st s (st.srcs s) batch) := by
  have hn : ¬ st.n ≤ s := by omega
  simp [step, hdn, hn, hb, setSrc, stored, hpend]

theorem step_enqueue0 (cfg : Cfg) (st : State) (s : Nat) (σ : SrcSt) (batch : List Ev) (hdn : st.down = false)
    (hcap : st.chan.length < cfg.chanCap) :
    step cfg (stored st s σ batch) (.enqueue 0) = some (published st s σ batch) := by
  have hcap' : ¬ cfg.chanCap ≤ st.chan.length := by omega
  simp [step, stored, published, setSrc, hdn, hcap']

/-- **`workerDone` commutes with the late write and with its publication**: the three prefixes in which `wdone` comes
before the notification end in the same state — the write stored and published, the worker signed off. -/
theorem done_commutes_with_write_and_publication (cfg : Cfg) (st : State) (s : Nat) (d : Desc) (batch : List Ev)
    (hre : cfg.rearm = true) (hns : noStart cfg st = false) (hdn : st.down = false) (hs : s < st.n)
    (hb : batch.isEmpty = false) (hpend : st.pend = []) (hcap : st.chan.length < cfg.chanCap)
    (hd : (st.srcs s).desc = some d) (hw : (st.srcs s).wk = .finishing) :
    run cfg st [.wdone s, .write s batch, .enqueue 0] = run cfg st [.write s batch, .enqueue 0, .wdone s] ∧
    run cfg st [.write s batch, .wdone s, .enqueue 0] = run cfg st [.write s batch, .enqueue 0, .wdone s] := by
  have hD := step_wdone cfg st s d hre hns hd hw
  have hW := step_write0 cfg st s batch hdn hs hb hpend
  have hE := step_enqueue0 cfg st s (st.srcs s) batch hdn hcap
  -- W E D
  have hD3 := step_wdone cfg (published st s (st.srcs s) batch) s d hre hns
    (by simp [published, setSrc, hd]) (by simp [published, setSrc, hw])
  have hWED : run cfg st [.write s batch, .enqueue 0, .wdone s]
      = setSrc (published st s (st.srcs s) batch) s (doneSrc ((published st s (st.srcs s) batch).srcs s) d) := by
    rw [run_cons_some _ _ _ _ _ hW, run_cons_some _ _ _ _ _ hE, run_cons_some _ _ _ _ _ hD3]; rfl
  -- D W E
  have hW1 := step_write0 cfg (setSrc st s (doneSrc (st.srcs s) d)) s batch hdn hs hb hpend
  have hE1 := step_enqueue0 cfg (setSrc st s (doneSrc (st.srcs s) d)) s ((setSrc st s (doneSrc (st.srcs s) d)).srcs s) batch hdn hcap
  have hDWE : run cfg st [.wdone s, .write s batch, .enqueue 0]
      = published (setSrc st s (doneSrc (st.srcs s) d)) s ((setSrc st s (doneSrc (st.srcs s) d)).srcs s) batch := by
    rw [run_cons_some _ _ _ _ _ hD, run_cons_some _ _ _ _ _ hW1, run_cons_some _ _ _ _ _ hE1]; rfl
  -- W D E
  have hD2 := step_wdone cfg (stored st s (st.srcs s) batch) s d hre hns
    (by simp [stored, setSrc, hd]) (by simp [stored, setSrc, hw])
  have hE2 : step cfg (setSrc (stored st s (st.srcs s) batch) s (doneSrc ((stored st s (st.srcs s) batch).srcs s) d)) (.enqueue 0)
      = some { setSrc (stored st s (st.srcs s) batch) s (doneSrc ((stored st s (st.srcs s) batch).srcs s) d) with
          pend := [], chan := st.chan ++ [⟨s, (st.srcs s).log.length, (st.srcs s).log.length + batch.length⟩] } := by
    have hcap' : ¬ cfg.chanCap ≤ st.chan.length := by omega
    simp [step, stored, setSrc, hdn, hcap']
  have hWDE : run cfg st [.write s batch, .wdone s, .enqueue 0]
      = { setSrc (stored st s (st.srcs s) batch) s (doneSrc ((stored st s (st.srcs s) batch).srcs s) d) with
          pend := [], chan := st.chan ++ [⟨s, (st.srcs s).log.length, (st.srcs s).log.length + batch.length⟩] } := by
    rw [run_cons_some _ _ _ _ _ hW, run_cons_some _ _ _ _ _ hD2, run_cons_some _ _ _ _ _ hE2]; rfl
  constructor
  · rw [hDWE, hWED]
    apply state_ext' <;> simp [published, setSrc, doneSrc, upd_upd]
  · rw [hWDE, hWED]
    apply state_ext' <;> simp [published, stored, setSrc, doneSrc, upd_upd]

end Logrange.PipeLts
