import Logrange.Proofs.KV
/-!
# Lemmas behind the C08 property theorems: `tagMap.line()` and `tag.Parse`
-/
namespace Logrange.Proofs.Tags
open Go Logrange.Quote Logrange.KV Logrange.Tags Logrange.Proofs.KV

/-! ## the sorted association list -/

theorem bytesLt_ne {a b : Bytes} (h : bytesLt a b = true) : a ≠ b := by
  intro e; subst e; rw [bytesLt_irrefl] at h; cases h

theorem bytesLt_of_not {a b : Bytes} (h1 : ¬ bytesLt a b = true) (h2 : a ≠ b) : bytesLt b a = true := by
  cases h : bytesLt b a with
  | true => rfl
  | false =>
    have : bytesLt a b = false := by simpa using h1
    exact absurd (bytesLt_connex a b this h) h2

theorem mem_insert (k v : Bytes) (m : Map) (q : Bytes × Bytes) (h : q ∈ Map.insert k v m) :
    q = (k, v) ∨ q ∈ m := by
  induction m with
  | nil => simp [Map.insert] at h; exact Or.inl h
  | cons p r ih =>
    obtain ⟨k', v'⟩ := p
    simp only [Map.insert] at h
    by_cases h1 : bytesLt k k' = true
    · simp only [h1, if_true] at h
      rcases List.mem_cons.mp h with h | h
      · exact Or.inl h
      · exact Or.inr h
    · simp only [h1, Bool.false_eq_true, if_false] at h
      by_cases h2 : k = k'
      · simp only [h2, if_true] at h
        rcases List.mem_cons.mp h with h | h
        · exact Or.inl (by rw [h, h2])
        · exact Or.inr (List.mem_cons_of_mem _ h)
      · simp only [h2, if_false] at h
        rcases List.mem_cons.mp h with h | h
        · exact Or.inr (by rw [h]; exact List.mem_cons_self)
        · rcases ih h with h | h
          · exact Or.inl h
          · exact Or.inr (List.mem_cons_of_mem _ h)

theorem Map.insert_WF (k v : Bytes) (m : Map) (h : Map.WF m) : Map.WF (Map.insert k v m) := by
  unfold Map.WF at *
  induction m with
  | nil => simp [Map.insert]
  | cons p r ih =>
    obtain ⟨k', v'⟩ := p
    rw [List.pairwise_cons] at h
    obtain ⟨hhd, htl⟩ := h
    simp only [Map.insert]
    by_cases h1 : bytesLt k k' = true
    · simp only [h1, if_true]
      rw [List.pairwise_cons]
      refine ⟨?_, List.pairwise_cons.mpr ⟨hhd, htl⟩⟩
      intro b hb
      rcases List.mem_cons.mp hb with hb | hb
      · rw [hb]; exact h1
      · exact bytesLt_trans _ _ _ h1 (hhd b hb)
    · simp only [h1, Bool.false_eq_true, if_false]
      by_cases h2 : k = k'
      · simp only [h2, if_true]
        rw [List.pairwise_cons]
        exact ⟨hhd, htl⟩
      · simp only [h2, if_false]
        rw [List.pairwise_cons]
        refine ⟨?_, ih htl⟩
        intro b hb
        rcases mem_insert k v r b hb with hb | hb
        · rw [hb]; exact bytesLt_of_not h1 h2
        · exact hhd b hb

theorem foldl_insert_WF (ps : List (Bytes × Bytes)) : ∀ (acc : Map), Map.WF acc →
    Map.WF (ps.foldl (fun m p => Map.insert p.1 p.2 m) acc) := by
  induction ps with
  | nil => intro acc h; exact h
  | cons p ps ih => intro acc h; exact ih _ (Map.insert_WF p.1 p.2 acc h)

theorem ofPairs_WF (ps : List (Bytes × Bytes)) : Map.WF (Map.ofPairs ps) :=
  foldl_insert_WF ps [] List.Pairwise.nil

theorem toMap_WF (t : Bytes) (m : Map) (h : toMap t = some m) : Map.WF m := by
  unfold toMap at h
  split at h
  · cases h
  · split at h
    · cases h; exact List.Pairwise.nil
    · split at h
      · cases h
      · split at h
        · cases h
        · cases h; exact ofPairs_WF _

theorem parse_WF (t : Bytes) (m : Map) (h : parse t = some m) : Map.WF m := by
  unfold parse at h
  split at h
  · cases h; exact List.Pairwise.nil
  · exact toMap_WF t m h

theorem insert_last (k v : Bytes) (acc : Map) (h : ∀ q ∈ acc, bytesLt q.1 k = true) :
    Map.insert k v acc = acc ++ [(k, v)] := by
  induction acc with
  | nil => rfl
  | cons p r ih =>
    obtain ⟨k', v'⟩ := p
    have hk : bytesLt k' k = true := h (k', v') List.mem_cons_self
    have h1 : bytesLt k k' = false := bytesLt_asymm _ _ hk
    have h2 : ¬ k = k' := fun e => bytesLt_ne hk e.symm
    simp only [Map.insert, h1, h2, if_false, Bool.false_eq_true, List.cons_append]
    rw [ih (fun q hq => h q (List.mem_cons_of_mem _ hq))]

theorem foldl_insert_of_WF (rest : List (Bytes × Bytes)) : ∀ (acc : Map), Map.WF (acc ++ rest) →
    rest.foldl (fun m p => Map.insert p.1 p.2 m) acc = acc ++ rest := by
  induction rest with
  | nil => intro acc _; simp
  | cons p rest ih =>
    intro acc h
    simp only [List.foldl_cons]
    have hp : ∀ q ∈ acc, bytesLt q.1 p.1 = true := by
      intro q hq
      unfold Map.WF at h
      rw [List.pairwise_append] at h
      exact h.2.2 q hq p List.mem_cons_self
    rw [insert_last p.1 p.2 acc hp]
    have e : acc ++ p :: rest = (acc ++ [(p.1, p.2)]) ++ rest := by simp
    rw [e] at h ⊢
    exact ih _ h

theorem ofPairs_of_WF (m : Map) (h : Map.WF m) : Map.ofPairs m = m := by
  have := foldl_insert_of_WF m [] (by simpa using h)
  simpa [Map.ofPairs] using this

/-! ## `sort.SearchStrings` insertion -/

theorem insertSorted_last (p : Bytes × Bytes) (acc : List (Bytes × Bytes))
    (h : ∀ q ∈ acc, bytesLt q.1 p.1 = true) : insertSorted p acc = acc ++ [p] := by
  induction acc with
  | nil => rfl
  | cons q r ih =>
    have hk : bytesLt q.1 p.1 = true := h q List.mem_cons_self
    simp only [insertSorted, hk, if_true, List.cons_append]
    rw [ih (fun q hq => h q (List.mem_cons_of_mem _ hq))]

theorem foldl_insertSorted_of_WF (rest : List (Bytes × Bytes)) : ∀ (acc : List (Bytes × Bytes)),
    Map.WF (acc ++ rest) → rest.foldl (fun acc p => insertSorted p acc) acc = acc ++ rest := by
  induction rest with
  | nil => intro acc _; simp
  | cons p rest ih =>
    intro acc h
    simp only [List.foldl_cons]
    have hp : ∀ q ∈ acc, bytesLt q.1 p.1 = true := by
      intro q hq
      unfold Map.WF at h
      rw [List.pairwise_append] at h
      exact h.2.2 q hq p List.mem_cons_self
    rw [insertSorted_last p acc hp]
    have e : acc ++ p :: rest = (acc ++ [p]) ++ rest := by simp
    rw [e] at h ⊢
    exact ih _ h

theorem sortEntries_of_WF (m : Map) (h : Map.WF m) : sortEntries m = m := by
  have := foldl_insertSorted_of_WF m [] (by simpa using h)
  simpa [sortEntries] using this

theorem line_of_WF (m : Map) (h : Map.WF m) : line m = joinItems (m.map (item encTag)) := by
  unfold line lineOf
  rw [sortEntries_of_WF m h]

theorem insertSorted_perm (p : Bytes × Bytes) (l : List (Bytes × Bytes)) : (insertSorted p l).Perm (p :: l) := by
  induction l with
  | nil => exact List.Perm.refl _
  | cons q r ih =>
    simp only [insertSorted]
    by_cases h : bytesLt q.1 p.1 = true
    · simp only [h, if_true]
      exact (List.Perm.cons q ih).trans (List.Perm.swap p q r)
    · simp only [h, Bool.false_eq_true, if_false]
      exact List.Perm.refl _

theorem insertSorted_sorted (p : Bytes × Bytes) (l : List (Bytes × Bytes)) (hs : Map.WF l)
    (hn : ∀ q ∈ l, q.1 ≠ p.1) : Map.WF (insertSorted p l) := by
  unfold Map.WF at *
  induction l with
  | nil => simp [insertSorted]
  | cons q r ih =>
    rw [List.pairwise_cons] at hs
    obtain ⟨hhd, htl⟩ := hs
    simp only [insertSorted]
    by_cases h : bytesLt q.1 p.1 = true
    · simp only [h, if_true]
      rw [List.pairwise_cons]
      refine ⟨?_, ih htl (fun x hx => hn x (List.mem_cons_of_mem _ hx))⟩
      intro b hb
      rcases List.mem_cons.mp ((insertSorted_perm p r).mem_iff.mp hb) with hb | hb
      · rw [hb]; exact h
      · exact hhd b hb
    · simp only [h, Bool.false_eq_true, if_false]
      have hpq : bytesLt p.1 q.1 = true := bytesLt_of_not h (hn q List.mem_cons_self)
      rw [List.pairwise_cons]
      refine ⟨?_, List.pairwise_cons.mpr ⟨hhd, htl⟩⟩
      intro b hb
      rcases List.mem_cons.mp hb with hb | hb
      · rw [hb]; exact hpq
      · exact bytesLt_trans _ _ _ hpq (hhd b hb)

theorem foldl_insertSorted_sorted_perm (rest : List (Bytes × Bytes)) : ∀ (acc : List (Bytes × Bytes)),
    Map.WF acc → ((acc ++ rest).map (·.1)).Nodup →
    Map.WF (rest.foldl (fun acc p => insertSorted p acc) acc) ∧
      (rest.foldl (fun acc p => insertSorted p acc) acc).Perm (acc ++ rest) := by
  induction rest with
  | nil => intro acc h _; simpa using h
  | cons p rest ih =>
    intro acc hs hn
    simp only [List.foldl_cons]
    have hperm : (insertSorted p acc ++ rest).Perm (acc ++ p :: rest) :=
      ((insertSorted_perm p acc).append_right rest).trans List.perm_middle.symm
    have hne : ∀ q ∈ acc, q.1 ≠ p.1 := by
      intro q hq e
      rw [List.map_append, List.map_cons] at hn
      have := (List.nodup_append.mp hn).2.2 q.1 (List.mem_map_of_mem hq) p.1 List.mem_cons_self
      exact this e
    have hn' : ((insertSorted p acc ++ rest).map (·.1)).Nodup := (hperm.map _).nodup_iff.mpr hn
    obtain ⟨h1, h2⟩ := ih (insertSorted p acc) (insertSorted_sorted p acc hs hne) hn'
    exact ⟨h1, h2.trans hperm⟩

theorem sortEntries_sorted_perm (order : List (Bytes × Bytes)) (hn : (order.map (·.1)).Nodup) :
    (sortEntries order).Pairwise (fun a b => bytesLt a.1 b.1 = true) ∧ (sortEntries order).Perm order := by
  have := foldl_insertSorted_sorted_perm order [] List.Pairwise.nil (by simpa using hn)
  simpa [sortEntries, Map.WF] using this

theorem line_deterministic (o1 o2 : List (Bytes × Bytes)) (hp : o1.Perm o2) (hn : (o1.map (·.1)).Nodup) :
    lineOf o1 = lineOf o2 := by
  have hn2 : (o2.map (·.1)).Nodup := (hp.map _).nodup_iff.mp hn
  obtain ⟨s1, p1⟩ := sortEntries_sorted_perm o1 hn
  obtain ⟨s2, p2⟩ := sortEntries_sorted_perm o2 hn2
  have hperm : (sortEntries o1).Perm (sortEntries o2) := (p1.trans hp).trans p2.symm
  have : sortEntries o1 = sortEntries o2 :=
    List.Perm.eq_of_pairwise (le := fun a b => bytesLt a.1 b.1 = true)
      (fun a b _ _ h1 h2 => by rw [bytesLt_asymm _ _ h1] at h2; cases h2) s1 s2 hperm
  unfold lineOf
  rw [this]

/-! ## the round trip `parse (line m) = some m` on safe sets -/

theorem EQ_ne_DQ : (EQ == DQ) = false := by decide
theorem EQ_ne_BS : (EQ == BS) = false := by decide
theorem CM_ne_DQ : (CM == DQ) = false := by decide
theorem CM_ne_BS : (CM == BS) = false := by decide
theorem CM_ne_EQ : (CM == EQ) = false := by decide

/-- an inert key followed by `=` is cut off as one piece -/
theorem split_key (p rest : Bytes) (o : List Bytes) (h : scan p false = some false) :
    splitGo (p ++ EQ :: rest) { inStr := false, expKV := true, cur := [], out := o } =
      splitGo rest { inStr := false, expKV := false, cur := [], out := p :: o } := by
  have := split_inert p false false (EQ :: rest) { inStr := false, expKV := true, cur := [], out := o } h
  simp only [List.append_nil] at this
  rw [this, splitGo.eq_def]
  simp [EQ_ne_DQ, EQ_ne_BS]

/-- an inert value followed by `,` is cut off as one piece -/
theorem split_val (p rest : Bytes) (o : List Bytes) (h : scan p false = some false) :
    splitGo (p ++ CM :: rest) { inStr := false, expKV := false, cur := [], out := o } =
      splitGo rest { inStr := false, expKV := true, cur := [], out := p :: o } := by
  have := split_inert p false false (CM :: rest) { inStr := false, expKV := false, cur := [], out := o } h
  simp only [List.append_nil] at this
  rw [this, splitGo.eq_def]
  simp [CM_ne_DQ, CM_ne_BS, CM_ne_EQ]

/-- an inert piece at the end of the input is the last piece -/
theorem split_end (p : Bytes) (e : Bool) (o : List Bytes) (h : scan p false = some false) :
    splitGo p { inStr := false, expKV := e, cur := [], out := o } = some ((p :: o).reverse) := by
  have := split_inert p false false [] { inStr := false, expKV := e, cur := [], out := o } h
  simp only [List.append_nil] at this
  rw [this, splitGo.eq_def]
  simp

theorem split_items (enc : Bytes → Bytes) : ∀ (m : List (Bytes × Bytes)) (o : List Bytes), m ≠ [] →
    (∀ p ∈ m, scan p.1 false = some false ∧ scan (enc p.2) false = some false) →
    splitGo (joinItems (m.map (item enc))) { inStr := false, expKV := true, cur := [], out := o } =
      some (o.reverse ++ m.flatMap (fun p => [p.1, enc p.2])) := by
  intro m
  induction m with
  | nil => intro o h; exact absurd rfl h
  | cons p r ih =>
    intro o _ hin
    obtain ⟨hk, hv⟩ := hin p List.mem_cons_self
    cases r with
    | nil =>
      simp only [List.map_cons, List.map_nil, joinItems, item]
      rw [split_key _ _ _ hk, split_end _ _ _ hv]
      simp
    | cons q r' =>
      have e : joinItems ((p :: q :: r').map (item enc)) =
          p.1 ++ EQ :: (enc p.2 ++ CM :: joinItems ((q :: r').map (item enc))) := by
        simp [joinItems, item]
      rw [e, split_key _ _ _ hk, split_val _ _ _ hv,
        ih _ (by simp) (fun x hx => hin x (List.mem_cons_of_mem _ hx))]
      simp

theorem toPairs_items (enc : Bytes → Bytes) : ∀ (m : List (Bytes × Bytes)),
    (∀ p ∈ m, p.1 ≠ [] ∧ trimSpaces p.1 = p.1 ∧ trimSpaces (enc p.2) = enc p.2 ∧
      decodeValue (enc p.2) = some p.2) →
    toPairs (m.flatMap (fun p => [p.1, enc p.2])) = some m := by
  intro m
  induction m with
  | nil => intro _; rfl
  | cons p r ih =>
    intro h
    obtain ⟨h1, h2, h3, h4⟩ := h p List.mem_cons_self
    have ih' := ih (fun x hx => h x (List.mem_cons_of_mem _ hx))
    simp only [List.flatMap_cons, List.cons_append, List.nil_append, toPairs, h2, h3, h4, ih']
    simp [h1]

theorem dropWhile_SP_of_head (l : Bytes) (h : l.head? ≠ some SP) : l.dropWhile (· == SP) = l := by
  cases l with
  | nil => rfl
  | cons c r =>
    have : c ≠ SP := by simpa using h
    simp [this]

theorem trimSpaces_of_trimmed (p : Bytes) (h : trimmed p = true) : trimSpaces p = p := by
  unfold trimmed at h
  simp only [Bool.and_eq_true, bne_iff_ne, ne_eq] at h
  unfold trimSpaces
  rw [dropWhile_SP_of_head p h.1,
    dropWhile_SP_of_head p.reverse (by rw [List.head?_reverse]; exact h.2), List.reverse_reverse]

/-- `RemoveCurlyBraces` leaves alone a text that starts with neither a blank nor `{` and ends with neither a
blank nor `}` (and has at least two bytes) -/
theorem removeCurlyBraces_id (c : UInt8) (tl : Bytes) (y : UInt8) (h1 : c ≠ SP) (h2 : c ≠ LB)
    (hl : tl.getLast? = some y) (h3 : y ≠ SP) (h4 : y ≠ RB) :
    removeCurlyBraces (c :: tl) = some (c :: tl) := by
  obtain ⟨d, rfl⟩ := List.getLast?_eq_some_iff.mp hl
  unfold removeCurlyBraces
  simp [leadScan, trailScan, h1, h2, h3, h4]

theorem joinItems_cons_shape (enc : Bytes → Bytes) (p : Bytes × Bytes) (r : List (Bytes × Bytes)) :
    ∃ Y, joinItems ((p :: r).map (item enc)) = p.1 ++ EQ :: Y := by
  cases r with
  | nil => exact ⟨enc p.2, by simp [joinItems, item]⟩
  | cons q r' => exact ⟨enc p.2 ++ CM :: joinItems ((q :: r').map (item enc)), by simp [joinItems, item]⟩

theorem joinItems_getLast (enc : Bytes → Bytes) (P : UInt8 → Prop) : ∀ (m : List (Bytes × Bytes)), m ≠ [] →
    (∀ p ∈ m, ∃ y, (enc p.2).getLast? = some y ∧ P y) →
    ∃ y, (joinItems (m.map (item enc))).getLast? = some y ∧ P y := by
  intro m
  induction m with
  | nil => intro h; exact absurd rfl h
  | cons p r ih =>
    intro _ hin
    cases r with
    | nil =>
      obtain ⟨y, hy, hP⟩ := hin p List.mem_cons_self
      refine ⟨y, ?_, hP⟩
      simp [joinItems, item, List.getLast?_cons, hy]
    | cons q r' =>
      obtain ⟨y, hy, hP⟩ := ih (by simp) (fun x hx => hin x (List.mem_cons_of_mem _ hx))
      refine ⟨y, ?_, hP⟩
      have e : joinItems ((p :: q :: r').map (item enc)) =
          item enc p ++ CM :: joinItems ((q :: r').map (item enc)) := by
        simp [joinItems]
      rw [e, List.getLast?_append, List.getLast?_cons, hy]
      simp

theorem encTag_good (hq : QuoteContract) (v : Bytes) (h : (needsQuote v || safeRaw v) = true) :
    trimmed (encTag v) = true ∧ scan (encTag v) false = some false ∧
      (∃ y, (encTag v).getLast? = some y ∧ (y ≠ SP ∧ y ≠ RB)) ∧ decodeValue (encTag v) = some v := by
  unfold encTag
  by_cases hn : needsQuote v = true
  · simp only [hn, if_true]
    obtain ⟨body, hshape, _⟩ := hq.shape v
    have hin := inert_quote hq v
    have hu := hq.unquote_quote v
    unfold inert at hin
    rw [hshape] at hin hu ⊢
    simp only [List.cons_append] at hin hu ⊢
    refine ⟨?_, by simpa using hin, ⟨DQ, ?_, by decide, by decide⟩, ?_⟩
    · simp [trimmed, List.getLast?_cons]
      decide
    · simp [List.getLast?_cons]
    · simp [decodeValue, hu]
  · have hs : safeRaw v = true := by simpa [hn] using h
    simp only [hn, Bool.false_eq_true, if_false]
    unfold safeRaw at hs
    simp only [Bool.and_eq_true, bne_iff_ne, ne_eq, Bool.not_eq_true'] at hs
    obtain ⟨⟨⟨⟨⟨h1, h2⟩, h3⟩, h4⟩, h5⟩, h6⟩ := hs
    refine ⟨h2, by simpa [inert] using h3, ?_, ?_⟩
    · cases hl : v.getLast? with
      | none => simp at hl; simp [hl] at h1
      | some y =>
        refine ⟨y, rfl, ?_, ?_⟩
        · intro e; subst e
          simp [trimmed, hl] at h2
        · intro e; subst e; exact h6 hl
    · cases v with
      | nil => rfl
      | cons c r =>
        have c1 : c ≠ DQ := by simpa using h4
        have c2 : c ≠ BQ := by simpa using h5
        simp [decodeValue, c1, c2]

/-- **Emit then re-read is the identity** on well-formed safe sets, given the `strconv` contract -/
theorem roundtrip_core (hq : QuoteContract) (m : Map) (hwf : Map.WF m) (hs : safe m = true) :
    parse (line m) = some m := by
  rw [line_of_WF m hwf]
  cases m with
  | nil => rfl
  | cons p r =>
    have hall : ∀ x ∈ p :: r, safeKey x.1 = true ∧ (needsQuote x.2 || safeRaw x.2) = true := by
      intro x hx
      have := List.all_eq_true.mp hs x hx
      simpa [safePair] using this
    have hkey : ∀ x ∈ p :: r, x.1 ≠ [] ∧ trimmed x.1 = true ∧ scan x.1 false = some false ∧
        x.1.head? ≠ some LB := by
      intro x hx
      have := (hall x hx).1
      unfold safeKey at this
      simp only [Bool.and_eq_true, bne_iff_ne, ne_eq, Bool.not_eq_true'] at this
      obtain ⟨⟨⟨h1, h2⟩, h3⟩, h4⟩ := this
      exact ⟨by intro e; simp [e] at h1, h2, by simpa [inert] using h3, h4⟩
    have hval := fun x hx => encTag_good hq x.2 (hall x hx).2
    have hsplit := split_items encTag (p :: r) [] (by simp)
      (fun x hx => ⟨(hkey x hx).2.2.1, (hval x hx).2.1⟩)
    have hpairs := toPairs_items encTag (p :: r)
      (fun x hx => ⟨(hkey x hx).1, trimSpaces_of_trimmed _ (hkey x hx).2.1,
        trimSpaces_of_trimmed _ (hval x hx).1, (hval x hx).2.2.2⟩)
    obtain ⟨y, hy, hy1, hy2⟩ := joinItems_getLast encTag (fun y => y ≠ SP ∧ y ≠ RB) (p :: r) (by simp)
      (fun x hx => (hval x hx).2.2.1)
    obtain ⟨Y, hY⟩ := joinItems_cons_shape encTag p r
    obtain ⟨hk1, hk2, _, hk4⟩ := hkey p List.mem_cons_self
    obtain ⟨c, k', hck⟩ : ∃ c k', p.1 = c :: k' := by
      cases h : p.1 with
      | nil => exact absurd h hk1
      | cons c k' => exact ⟨c, k', rfl⟩
    have hL : joinItems ((p :: r).map (item encTag)) = c :: (k' ++ EQ :: Y) := by rw [hY, hck]; rfl
    have hc1 : c ≠ SP := by
      unfold trimmed at hk2; rw [hck] at hk2
      simp only [Bool.and_eq_true, bne_iff_ne, ne_eq] at hk2
      simpa using hk2.1
    have hc2 : c ≠ LB := by rw [hck] at hk4; simpa using hk4
    generalize joinItems ((p :: r).map (item encTag)) = L at *
    subst hL
    have hlast : (k' ++ EQ :: Y).getLast? = some y := by
      have e : (c :: (k' ++ EQ :: Y)).getLast? = (k' ++ EQ :: Y).getLast? := by
        cases k' <;> simp
      rw [← e]; exact hy
    have hrcb := removeCurlyBraces_id c (k' ++ EQ :: Y) y hc1 hc2 hlast hy1 hy2
    simp only [parse, toMap, splitString, hrcb, hsplit, List.reverse_nil, List.nil_append, hpairs,
      ofPairs_of_WF _ hwf, List.isEmpty_cons, Bool.false_eq_true, if_false]

theorem line_injective (hq : QuoteContract) (m1 m2 : Map) (h1 : Map.WF m1) (h2 : Map.WF m2)
    (s1 : safe m1 = true) (s2 : safe m2 = true) (h : line m1 = line m2) : m1 = m2 := by
  have e1 := roundtrip_core hq m1 h1 s1
  have e2 := roundtrip_core hq m2 h2 s2
  rw [h, e2] at e1
  exact (Option.some.inj e1).symm

end Logrange.Proofs.Tags
