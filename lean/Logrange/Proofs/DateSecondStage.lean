import Logrange.Proofs.DateFirstMatch
/-!
# Second stage of first-match: earlier formats that CAN match a text

For a text of format `k` and an earlier format `j` of the list, one of three decidable certificates (`pairOK`):

* **clean** — `j`'s expression matches nowhere in any shape of `k`'s texts (first stage, `findSG`);
* **dotted** — `j` is `MM.DD.YYYY` / `MM.DD.YY` (its unescaped `.` matches any byte, e.g. a `:`): its layout accepts only a
  text that begins `dd.dd.` (`dotted_inversion`), and no shape of `k`'s texts contains that factor — `Format.Parse` of `j` fails;
* **twin** — `j` and `k` have the same literals and their elements differ only in digit width (`DD`/`D`, `MM`/`M`, `hh`/`h`,
  `_D`/`DD`): on each shape of `k`'s texts `j`'s expression either matches nowhere or its first match is the whole text
  (exact matcher `ownMatchD`), and then `j`'s layout reads either nothing or exactly the fields `k`'s layout carries
  (`parseItems_twin`) — `Format.Parse` of `j` fails or gives the same answer.

So the list's answer for the text of any valid instant is the fields format `k` carries, whoever claims it (`first_match_agree`).
-/
namespace Logrange.Date

def twinElem (eB eA : Std) : Bool :=
  eB == eA || (eB == .zeroDay && eA == .day) || (eB == .day && eA == .zeroDay) || (eB == .zeroMonth && eA == .numMonth) ||
  (eB == .zeroHour12 && eA == .hour12) || (eB == .underDay && eA == .zeroDay) || (eB == .zeroDay && eA == .underDay)

/-- the items of `j` against the items of `k`: same literals, twin elements, and nothing that may follow an element in `k`'s
text can be mistaken for part of it — by `j`'s element or by `k`'s -/
def twinItems : List (Bytes × Std) → List (Bytes × Std) → Bytes → Bool
  | [], [], _ => true
  | (pB, eB) :: rB, (pA, eA) :: rA, tail =>
    pB == pA && twinElem eB eA && inScope eB && inScope eA &&
    !meets (badSet eB (rB.head?.map (·.2))) (firstSet rA tail) &&
    !meets (badSet eA (rA.head?.map (·.2))) (firstSet rA tail) && twinItems rB rA tail
  | _, _, _ => false

def dottedLayout (L : Layout) : Bool :=
  match L.items with
  | ([], .zeroMonth) :: ([46], .zeroDay) :: (46 :: _, _) :: _ => true
  | _ => false

/-- `\d\d\.\d\d\.` -/
def rxDotted : Rx := .seq rxD (.seq rxD (.seq (.chr 46) (.seq rxD (.seq rxD (.chr 46)))))

def pairOK (cj ck : CFormat) : Bool :=
  match cj.rx with
  | none => false
  | some r =>
    (symLayout ck.layout).all (fun sh => !findSG cj.guard r false sh) ||
    (dottedLayout cj.layout && (symLayout ck.layout).all (fun sh => !findS rxDotted sh)) ||
    (cj.noDate == ck.noDate && cj.hasYear == ck.hasYear && cj.layout.tail == ck.layout.tail && cj.layout.supported &&
      twinItems cj.layout.items ck.layout.items ck.layout.tail &&
      (symLayout ck.layout).all (fun sh => !findSG cj.guard r false sh || ownMatchD r sh))

def idxOK (fmts : List CFormat) (k : Nat) : Bool :=
  match fmts[k]? with
  | none => false
  | some ck => (List.range k).all (fun j => match fmts[j]? with | none => true | some cj => pairOK cj ck)

/-! ## twins: one element of `j` on the text of the twin element of `k` -/

theorem getnum_one_fixed (n : Nat) (R : Bytes) (hR : R = [] ∨ ∃ c t, R = c :: t ∧ isDig c = false) :
    getnum (dig n :: R) true = none := by
  rcases hR with h | ⟨c, t, h, hc⟩
  · subst h; simp [getnum, isDig_dig]
  · subst h; simp [getnum, isDig_dig, hc]

theorem getnum_num12_fixed (n : Nat) (hn : n < 100) (R : Bytes) (hR : R = [] ∨ ∃ c t, R = c :: t ∧ isDig c = false) :
    getnum (num12 n ++ R) true = none ∨ getnum (num12 n ++ R) true = some ((n : Int), R) := by
  simp only [num12]; split
  · exact Or.inl (by simpa using getnum_one_fixed n R hR)
  · exact Or.inr (getnum_pad2 n hn true R)

/-- what `j`'s element reads from the text `k`'s twin element wrote: nothing, or the same field -/
def TwinOK (eB eA : Std) (i : XInst) (nextB : Option Std) (R : Bytes) (f : F) (txt : Bytes) : Prop :=
  ∀ val, (val = txt ++ R ∨ val = cutspace (txt ++ R)) →
    (parseStd eB nextB val f = none ∨ parseStd eB nextB val f = some (setStdX eA i f, R))

theorem elem_twin (eB eA : Std) (htw : twinElem eB eA = true) (hsB : inScope eB = true) (i : XInst) (hi : ValidX i)
    (nextB nextA : Option Std) (R : Bytes) (f : F) (hfB : FollowOK eB nextB R) (hfA : FollowOK eA nextA R)
    (txt : Bytes) (ht : renderStd eA i = some txt) : TwinOK eB eA i nextB R f txt := by
  have hd31 := day_le_31 hi
  have hm12 : i.month ≤ 12 := hi.2.2.2.1
  have hm1 : 1 ≤ i.month := hi.2.2.1
  have hh12 := hour12Of_le i.hour
  simp only [twinElem, Bool.or_eq_true, Bool.and_eq_true, beq_iff_eq] at htw
  rcases htw with (((((htw | htw) | htw) | htw) | htw) | htw) | htw
  · -- the same element
    subst htw
    obtain ⟨txt', hr, _, hp⟩ := parseStd_render eB hsB i hi nextB R f hfB
    rw [ht] at hr; cases hr
    exact fun val hv => Or.inr (hp val hv)
  · obtain ⟨rfl, rfl⟩ := htw          -- DD on the text of D
    have : txt = num12 i.day := by simpa [renderStd, formatStd] using ht.symm
    subst this
    intro val hv
    rw [plain_vals (num12_ne_nil _) (num12_head _) hv]
    rcases getnum_num12_fixed i.day (by omega) R (follow_digit rfl hfA) with h | h
    · exact Or.inl (by simp [parseStd, h])
    · exact Or.inr (by simp [parseStd, h, setStdX])
  · obtain ⟨rfl, rfl⟩ := htw          -- D on the text of DD
    have : txt = pad2 i.day := by simpa [renderStd, formatStd] using ht.symm
    subst this
    intro val hv
    rw [plain_vals (pad2_ne_nil _) (pad2_head _) hv]
    exact Or.inr (by simp [parseStd, beq_day, beq_dayu, getnum_pad2 i.day (by omega), setStdX])
  · obtain ⟨rfl, rfl⟩ := htw          -- MM on the text of M
    have : txt = num12 i.month := by simpa [renderStd, formatStd] using ht.symm
    subst this
    intro val hv
    rw [plain_vals (num12_ne_nil _) (num12_head _) hv]
    rcases getnum_num12_fixed i.month (by omega) R (follow_digit rfl hfA) with h | h
    · exact Or.inl (by simp [parseStd, h])
    · refine Or.inr ?_
      have hr : (decide ((i.month : Int) ≤ 0) || decide ((12 : Int) < i.month)) = false := by simp; omega
      simp only [parseStd, beq_self_eq_true, h, Option.bind, setStdX]
      simp [hr]
      omega
  · obtain ⟨rfl, rfl⟩ := htw          -- hh on the text of h
    have : txt = num12 (hour12Of i.hour) := by simpa [renderStd, formatStd] using ht.symm
    subst this
    intro val hv
    rw [plain_vals (num12_ne_nil _) (num12_head _) hv]
    rcases getnum_num12_fixed (hour12Of i.hour) (by omega) R (follow_digit rfl hfA) with h | h
    · exact Or.inl (by simp [parseStd, h])
    · refine Or.inr ?_
      have hr : (decide (((hour12Of i.hour : Nat) : Int) < 0) || decide ((12 : Int) < (hour12Of i.hour : Nat))) = false := by simp; omega
      simp only [parseStd, beq_self_eq_true, h, Option.bind, setStdX]
      simp [hr]
  · obtain ⟨rfl, rfl⟩ := htw          -- _D on the text of DD
    have : txt = pad2 i.day := by simpa [renderStd, formatStd] using ht.symm
    subst this
    intro val hv
    rw [plain_vals (pad2_ne_nil _) (pad2_head _) hv]
    have hne : ((pad2 i.day ++ R).head? == some 32) = false := by
      simp only [pad2, List.cons_append, List.head?_cons]
      apply beq_false_of_ne; intro e; exact dig_ne_blank _ (Option.some.inj e)
    exact Or.inr (by
      simp only [parseStd, beq_ud, hne, beq_self_eq_true, Bool.true_and, Bool.false_eq_true, if_false,
        getnum_pad2 i.day (by omega), Option.map_some, setStdX])
  · obtain ⟨rfl, rfl⟩ := htw          -- DD on the text of _D
    have hR := follow_digit (s := .underDay) (next := nextA) rfl hfA
    have : txt = (if i.day < 10 then [32, dig i.day] else pad2 i.day) := by simpa [renderStd, formatStd] using ht.symm
    subst this
    intro val hv
    by_cases h10 : i.day < 10
    · simp only [h10, if_true] at hv
      refine Or.inl ?_
      have hcs : cutspace ([32, dig i.day] ++ R) = dig i.day :: R := by
        have hne : (dig i.day == 32) = false := beq_false_of_ne (dig_ne_blank _)
        simp [cutspace, List.dropWhile, hne]
      rcases hv with hv | hv
      · subst hv; simp [parseStd, getnum, isDig]
      · rw [hcs] at hv; subst hv
        simp [parseStd, getnum_one_fixed i.day R hR]
    · simp only [h10, if_false] at hv
      rw [plain_vals (pad2_ne_nil _) (pad2_head _) hv]
      exact Or.inr (by simp [parseStd, getnum_pad2 i.day (by omega), setStdX])

/-! ## twins: the whole layout -/

theorem parseItems_twin (tail : Bytes) (i : XInst) (hi : ValidX i) :
    ∀ (itemsB itemsA : List (Bytes × Std)), twinItems itemsB itemsA tail = true →
      ∃ body, renderItems itemsA i = some body ∧
        ∀ f, parseItems tail itemsB (body ++ tail) f = none ∨ parseItems tail itemsB (body ++ tail) f = some (projectFX itemsA i f)
  | [], [], _ => by
    refine ⟨[], rfl, fun f => Or.inr ?_⟩
    have := skipLit_gen tail []
    simp only [List.append_nil] at this
    have hnil : (if tail.getLast? = some 32 then cutspace ([] : Bytes) else []) = [] := by split <;> rfl
    simp [parseItems, this, hnil, projectFX]
  | [], _ :: _, h => by simp [twinItems] at h
  | _ :: _, [], h => by simp [twinItems] at h
  | (pB, eB) :: rB, (pA, eA) :: rA, h => by
    simp only [twinItems, Bool.and_eq_true, beq_iff_eq, Bool.not_eq_true'] at h
    obtain ⟨⟨⟨⟨⟨⟨hp, htw⟩, hsB⟩, hsA⟩, hmB⟩, hmA⟩, hrest⟩ := h
    subst hp
    obtain ⟨body', hb', hparse'⟩ := parseItems_twin tail i hi rB rA hrest
    have hfB := follow_of_static (s := eB) (next := rB.head?.map (·.2)) hi hb' hmB
    have hfA := follow_of_static (s := eA) (next := rA.head?.map (·.2)) hi hb' hmA
    obtain ⟨txt, hr, _, _⟩ := parseStd_render eA hsA i hi (rA.head?.map (·.2)) (body' ++ tail) {} hfA
    refine ⟨pB ++ txt ++ body', by simp [renderItems, hr, hb'], fun f => ?_⟩
    have htwin := elem_twin eB eA htw hsB i hi (rB.head?.map (·.2)) (rA.head?.map (·.2)) (body' ++ tail) f hfB hfA txt hr
    have e : pB ++ txt ++ body' ++ tail = pB ++ (txt ++ (body' ++ tail)) := by simp [List.append_assoc]
    rw [e]
    have hval := htwin (if pB.getLast? = some 32 then cutspace (txt ++ (body' ++ tail)) else txt ++ (body' ++ tail))
      (by split <;> simp)
    simp only [parseItems, skipLit_gen]
    rcases hval with hv | hv
    · exact Or.inl (by simp [hv])
    · simp only [hv]
      rcases hparse' (setStdX eA i f) with h2 | h2
      · exact Or.inl h2
      · exact Or.inr (by rw [h2]; simp [projectFX])

/-! ## dotted layouts: what they can parse -/

theorem getnum_fixed_some {m : Bytes} {n : Int} {r : Bytes} (h : getnum m true = some (n, r)) :
    ∃ a b, m = a :: b :: r ∧ isDig a = true ∧ isDig b = true := by
  cases m with
  | nil => simp [getnum] at h
  | cons a t =>
    cases t with
    | nil => simp only [getnum] at h; split at h <;> simp at h
    | cons b r' =>
      simp only [getnum] at h
      by_cases ha : isDig a = true
      · by_cases hb : isDig b = true
        · simp only [ha, hb, if_true, Option.some.injEq, Prod.mk.injEq] at h
          exact ⟨a, b, by rw [h.2], ha, hb⟩
        · simp [ha, hb] at h
      · simp [ha] at h

theorem skipLit_dot {v rest : Bytes} {p : Bytes} (h : skipLit v (46 :: p) = some rest) : ∃ v', v = 46 :: v' := by
  cases v with
  | nil => simp [skipLit, skip] at h
  | cons x t =>
    by_cases hx : x = 46
    · exact ⟨t, by rw [hx]⟩
    · have : (x == 46) = false := beq_false_of_ne hx
      simp [skipLit, skip, this] at h

/-- a layout that starts `01.02.` accepts only a text that starts `dd.dd.` -/
theorem dotted_inversion {tail : Bytes} {p3 : Bytes} {s3 : Std} {rest : List (Bytes × Std)} {m : Bytes} {f f' : F}
    (h : parseItems tail (([], .zeroMonth) :: ([46], .zeroDay) :: (46 :: p3, s3) :: rest) m f = some f') :
    ∃ a b c d r, m = a :: b :: 46 :: c :: d :: 46 :: r ∧ isDig a = true ∧ isDig b = true ∧ isDig c = true ∧ isDig d = true := by
  have hs0 : skipLit m [] = some m := by simp [skipLit, skip]
  simp only [parseItems, hs0] at h
  cases h1 : parseStd .zeroMonth (some .zeroDay) m f with
  | none => simp [h1] at h
  | some p1 =>
    obtain ⟨f1, r1⟩ := p1
    simp only [List.head?_cons, Option.map_some, h1] at h
    -- the month: two digits
    have hg1 : ∃ n, getnum m true = some (n, r1) := by
      simp only [parseStd, beq_self_eq_true] at h1
      cases hg : getnum m true with
      | none => simp [hg] at h1
      | some q =>
        obtain ⟨n, r⟩ := q
        simp only [hg, Option.bind] at h1
        split at h1
        · cases h1
        · simp only [Option.some.injEq, Prod.mk.injEq] at h1; exact ⟨n, by rw [h1.2]⟩
    obtain ⟨n1, hg1⟩ := hg1
    obtain ⟨a, b, hm, ha, hb⟩ := getnum_fixed_some hg1
    cases hsk : skipLit r1 [46] with
    | none => simp [hsk] at h
    | some r2 =>
      obtain ⟨r1', hr1⟩ := skipLit_dot hsk
      have hr2 : r2 = r1' := by
        subst hr1; simp [skipLit, skip] at hsk; exact hsk.symm
      subst hr2
      simp only [hsk] at h
      cases h2 : parseStd .zeroDay (some s3) r2 f1 with
      | none => simp [h2] at h
      | some p2 =>
        obtain ⟨f2, r3⟩ := p2
        simp only [h2] at h
        have hg2 : ∃ n, getnum r2 true = some (n, r3) := by
          have hb2 : (Std.zeroDay == Std.underDay) = false := by decide
          simp only [parseStd, hb2, Bool.false_and, Bool.false_eq_true, if_false, beq_self_eq_true] at h2
          cases hg : getnum r2 true with
          | none => simp [hg] at h2
          | some q =>
            obtain ⟨n, r⟩ := q
            simp only [hg, Option.map_some, Option.some.injEq, Prod.mk.injEq] at h2
            exact ⟨n, by rw [h2.2]⟩
        obtain ⟨n2, hg2⟩ := hg2
        obtain ⟨c, d, hr2', hc, hd⟩ := getnum_fixed_some hg2
        cases hsk3 : skipLit r3 (46 :: p3) with
        | none => simp [hsk3] at h
        | some r4 =>
          obtain ⟨r3', hr3⟩ := skipLit_dot hsk3
          exact ⟨a, b, c, d, r3', by rw [hm, hr1, hr2', hr3], ha, hb, hc, hd⟩

theorem find_ne_none_of_suffix (r : Rx) : ∀ (p s : Bytes), matchAt r s ≠ none → find r (p ++ s) ≠ none
  | [], s, h => by
    cases s with
    | nil => simpa [find] using h
    | cons x t =>
      simp only [List.nil_append, find]
      cases hm : matchAt r (x :: t) with
      | none => exact absurd hm h
      | some m => simp
  | x :: p, s, h => by
    simp only [List.cons_append, find]
    cases hm : matchAt r (x :: (p ++ s)) with
    | none => exact find_ne_none_of_suffix r p s h
    | some m => simp

theorem matchAt_dotted {a b c d : UInt8} (ha : isDig a = true) (hb : isDig b = true) (hc : isDig c = true) (hd : isDig d = true)
    (r : Bytes) : matchAt rxDotted (a :: b :: 46 :: c :: d :: 46 :: r) ≠ none := by
  have e : ∀ x, inCls clsDigit x = isDig x := by intro x; simp [inCls, clsDigit, isDig]
  simp [matchAt, rxDotted, rxD, ms, e, ha, hb, hc, hd]

/-- a dotted format fails on every text none of whose shapes contains the factor `dd.dd.` -/
theorem formatParse_dotted_err {adj : Adjust} {cj : CFormat} {now : Now} {r : Rx} (hr : cj.rx = some r)
    (hdot : dottedLayout cj.layout = true) (hsup : cj.layout.supported = true) {txt : Bytes} {sh : List BSet}
    (hs : hasShape txt sh) (hno : findS rxDotted sh = false) : formatParse adj cj now txt = .err := by
  simp only [formatParse, hr]
  cases hf : findG cj.guard r txt with
  | none => rfl
  | some m =>
    simp only [parseLayout, hsup, Bool.not_true, Bool.false_eq_true, if_false]
    cases hp : parseItems cj.layout.tail cj.layout.items m {} with
    | none => rfl
    | some f' =>
      exfalso
      simp only [dottedLayout] at hdot
      split at hdot
      · rename_i p3 s3 rest hitems
        rw [hitems] at hp
        obtain ⟨a, b, c, d, r', hm, ha, hb, hc, hd⟩ := dotted_inversion hp
        obtain ⟨p, q, e⟩ := findFrom_sub _ r txt _ m hf
        have hfind := find_none_of_findS rxDotted txt sh hs hno
        have : find rxDotted (p ++ (m ++ q)) ≠ none := by
          apply find_ne_none_of_suffix
          rw [hm]; exact matchAt_dotted ha hb hc hd (r' ++ q)
        rw [e, List.append_assoc] at hfind
        exact this hfind
      · cases hdot

end Logrange.Date
