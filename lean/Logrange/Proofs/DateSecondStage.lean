import Logrange.Proofs.DateFirstMatch
/-!
# Second stage of first-match: earlier formats that CAN match a text

For a text of format `k` and an earlier format `j` of the list, one of three decidable certificates (`pairOK`):

* **clean** — `j`'s expression matches nowhere in any shape of `k`'s texts (first stage, `findSG`);
* **dotted** — `j` is `MM.DD.YYYY` / `MM.DD.YY` (its unescaped `.` matches any byte, e.g. a `:`): its layout accepts only a
  text that begins `dd.dd.` (`dotted_inversion`), and no shape of `k`'s texts contains that factor — `Format.Parse` of `j` fails;
* **twin** — `j` and `k` have the same literals and their elements differ only in digit width (`DD`/`D`, `MM`/`M`, `hh`/`h`,
  `_D`/`DD`): on each shape of `k`'s texts `j`'s expression either matches nowhere or its first match is the whole text
  (exact matcher `ownMatchD`), and then `j`'s layout reads either nothing or exactly the fields `k`'s layout carries
  (`parseItems_twin`) — `Format.Parse` of `j` fails or gives the same answer.

So the list's answer for the text of any valid instant is the fields format `k` carries, whoever claims it (`first_match_agree`).
-/
namespace Logrange.Date

def twinElem (eB eA : Std) : Bool :=
  eB == eA || (eB == .zeroDay && eA == .day) || (eB == .day && eA == .zeroDay) || (eB == .zeroMonth && eA == .numMonth) ||
  (eB == .zeroHour12 && eA == .hour12) || (eB == .underDay && eA == .zeroDay) || (eB == .zeroDay && eA == .underDay)

/-- the items of `j` against the items of `k`: same literals, twin elements, and nothing that may follow an element in `k`'s
text can be mistaken for part of it — by `j`'s element or by `k`'s -/
def twinItems : List (Bytes × Std) → List (Bytes × Std) → Bytes → Bool
  | [], [], _ => true
  | (pB, eB) :: rB, (pA, eA) :: rA, tail =>
    pB == pA && twinElem eB eA && inScope eB && inScope eA &&
    !meets (badSet eB (rB.head?.map (·.2))) (firstSet rA tail) &&
    !meets (badSet eA (rA.head?.map (·.2))) (firstSet rA tail) && twinItems rB rA tail
  | _, _, _ => false

def dottedLayout (L : Layout) : Bool :=
  match L.items with
  | ([], .zeroMonth) :: ([46], .zeroDay) :: (46 :: _, _) :: _ => true
  | _ => false

/-- `\d\d\.\d\d\.` -/
def rxDotted : Rx := .seq rxD (.seq rxD (.seq (.chr 46) (.seq rxD (.seq rxD (.chr 46)))))

def pairOK (cj ck : CFormat) : Bool :=
  match cj.rx with
  | none => false
  | some r =>
    (symLayout ck.layout).all (fun sh => !findSG cj.guard r false sh) ||
    (dottedLayout cj.layout && cj.layout.supported && (symLayout ck.layout).all (fun sh => !findS rxDotted sh)) ||
    (cj.noDate == ck.noDate && cj.hasYear == ck.hasYear && cj.layout.tail == ck.layout.tail && cj.layout.supported &&
      twinItems cj.layout.items ck.layout.items ck.layout.tail &&
      (symLayout ck.layout).all (fun sh => !findSG cj.guard r false sh || ownMatchD r sh))

def idxOK (fmts : List CFormat) (k : Nat) : Bool :=
  match fmts[k]? with
  | none => false
  | some ck => (List.range k).all (fun j => match fmts[j]? with | none => true | some cj => pairOK cj ck)

/-! ## twins: one element of `j` on the text of the twin element of `k` -/

theorem getnum_one_fixed (n : Nat) (R : Bytes) (hR : R = [] ∨ ∃ c t, R = c :: t ∧ isDig c = false) :
    getnum (dig n :: R) true = none := by
  rcases hR with h | ⟨c, t, h, hc⟩
  · subst h; simp [getnum, isDig_dig]
  · subst h; simp [getnum, isDig_dig, hc]

theorem getnum_num12_fixed (n : Nat) (hn : n < 100) (R : Bytes) (hR : R = [] ∨ ∃ c t, R = c :: t ∧ isDig c = false) :
    getnum (num12 n ++ R) true = none ∨ getnum (num12 n ++ R) true = some ((n : Int), R) := by
  simp only [num12]; split
  · exact Or.inl (by simpa using getnum_one_fixed n R hR)
  · exact Or.inr (getnum_pad2 n hn true R)

/-- what `j`'s element reads from the text `k`'s twin element wrote: nothing, or the same field -/
def TwinOK (eB eA : Std) (i : XInst) (nextB : Option Std) (R : Bytes) (f : F) (txt : Bytes) : Prop :=
  ∀ val, (val = txt ++ R ∨ val = cutspace (txt ++ R)) →
    (parseStd eB nextB val f = none ∨ parseStd eB nextB val f = some (setStdX eA i f, R))

theorem elem_twin (eB eA : Std) (htw : twinElem eB eA = true) (hsB : inScope eB = true) (i : XInst) (hi : ValidX i)
    (nextB nextA : Option Std) (R : Bytes) (f : F) (hfB : FollowOK eB nextB R) (hfA : FollowOK eA nextA R)
    (txt : Bytes) (ht : renderStd eA i = some txt) : TwinOK eB eA i nextB R f txt := by
  have hd31 := day_le_31 hi
  have hm12 : i.month ≤ 12 := hi.2.2.2.1
  have hm1 : 1 ≤ i.month := hi.2.2.1
  have hh12 := hour12Of_le i.hour
  simp only [twinElem, Bool.or_eq_true, Bool.and_eq_true, beq_iff_eq] at htw
  rcases htw with (((((htw | htw) | htw) | htw) | htw) | htw) | htw
  · -- the same element
    subst htw
    obtain ⟨txt', hr, _, hp⟩ := parseStd_render eB hsB i hi nextB R f hfB
    rw [ht] at hr; cases hr
    exact fun val hv => Or.inr (hp val hv)
  · obtain ⟨rfl, rfl⟩ := htw          -- DD on the text of D
    have : txt = num12 i.day := by simpa [renderStd, formatStd] using ht.symm
    subst this
    intro val hv
    rw [plain_vals (num12_ne_nil _) (num12_head _) hv]
    rcases getnum_num12_fixed i.day (by omega) R (follow_digit rfl hfA) with h | h
    · exact Or.inl (by simp [parseStd, h])
    · exact Or.inr (by simp [parseStd, h, setStdX])
  · obtain ⟨rfl, rfl⟩ := htw          -- D on the text of DD
    have : txt = pad2 i.day := by simpa [renderStd, formatStd] using ht.symm
    subst this
    intro val hv
    rw [plain_vals (pad2_ne_nil _) (pad2_head _) hv]
    exact Or.inr (by simp [parseStd, beq_day, beq_dayu, getnum_pad2 i.day (by omega), setStdX])
  · obtain ⟨rfl, rfl⟩ := htw          -- MM on the text of M
    have : txt = num12 i.month := by simpa [renderStd, formatStd] using ht.symm
    subst this
    intro val hv
    rw [plain_vals (num12_ne_nil _) (num12_head _) hv]
    rcases getnum_num12_fixed i.month (by omega) R (follow_digit rfl hfA) with h | h
    · exact Or.inl (by simp [parseStd, h])
    · refine Or.inr ?_
      have hr : (decide ((i.month : Int) ≤ 0) || decide ((12 : Int) < i.month)) = false := by simp; omega
      simp only [parseStd, beq_self_eq_true, h, Option.bind, setStdX]
      simp [hr]
      omega
  · obtain ⟨rfl, rfl⟩ := htw          -- hh on the text of h
    have : txt = num12 (hour12Of i.hour) := by simpa [renderStd, formatStd] using ht.symm
    subst this
    intro val hv
    rw [plain_vals (num12_ne_nil _) (num12_head _) hv]
    rcases getnum_num12_fixed (hour12Of i.hour) (by omega) R (follow_digit rfl hfA) with h | h
    · exact Or.inl (by simp [parseStd, h])
    · refine Or.inr ?_
      have hr : (decide (((hour12Of i.hour : Nat) : Int) < 0) || decide ((12 : Int) < (hour12Of i.hour : Nat))) = false := by simp; omega
      simp only [parseStd, beq_self_eq_true, h, Option.bind, setStdX]
      simp [hr]
  · obtain ⟨rfl, rfl⟩ := htw          -- _D on the text of DD
    have : txt = pad2 i.day := by simpa [renderStd, formatStd] using ht.symm
    subst this
    intro val hv
    rw [plain_vals (pad2_ne_nil _) (pad2_head _) hv]
    have hne : ((pad2 i.day ++ R).head? == some 32) = false := by
      simp only [pad2, List.cons_append, List.head?_cons]
      apply beq_false_of_ne; intro e; exact dig_ne_blank _ (Option.some.inj e)
    exact Or.inr (by
      simp only [parseStd, beq_ud, hne, beq_self_eq_true, Bool.true_and, Bool.false_eq_true, if_false,
        getnum_pad2 i.day (by omega), Option.map_some, setStdX])
  · obtain ⟨rfl, rfl⟩ := htw          -- DD on the text of _D
    have hR := follow_digit (s := .underDay) (next := nextA) rfl hfA
    have : txt = (if i.day < 10 then [32, dig i.day] else pad2 i.day) := by simpa [renderStd, formatStd] using ht.symm
    subst this
    intro val hv
    by_cases h10 : i.day < 10
    · simp only [h10, if_true] at hv
      refine Or.inl ?_
      have hcs : cutspace ([32, dig i.day] ++ R) = dig i.day :: R := by
        have hne : (dig i.day == 32) = false := beq_false_of_ne (dig_ne_blank _)
        simp [cutspace, List.dropWhile, hne]
      rcases hv with hv | hv
      · subst hv; simp [parseStd, getnum, isDig]
      · rw [hcs] at hv; subst hv
        simp [parseStd, getnum_one_fixed i.day R hR]
    · simp only [h10, if_false] at hv
      rw [plain_vals (pad2_ne_nil _) (pad2_head _) hv]
      exact Or.inr (by simp [parseStd, getnum_pad2 i.day (by omega), setStdX])

/-! ## twins: the whole layout -/

theorem parseItems_twin (tail : Bytes) (i : XInst) (hi : ValidX i) :
    ∀ (itemsB itemsA : List (Bytes × Std)), twinItems itemsB itemsA tail = true →
      ∃ body, renderItems itemsA i = some body ∧
        ∀ f, parseItems tail itemsB (body ++ tail) f = none ∨ parseItems tail itemsB (body ++ tail) f = some (projectFX itemsA i f)
  | [], [], _ => by
    refine ⟨[], rfl, fun f => Or.inr ?_⟩
    have := skipLit_gen tail []
    simp only [List.append_nil] at this
    have hnil : (if tail.getLast? = some 32 then cutspace ([] : Bytes) else []) = [] := by split <;> rfl
    simp [parseItems, this, hnil, projectFX]
  | [], _ :: _, h => by simp [twinItems] at h
  | _ :: _, [], h => by simp [twinItems] at h
  | (pB, eB) :: rB, (pA, eA) :: rA, h => by
    simp only [twinItems, Bool.and_eq_true, beq_iff_eq, Bool.not_eq_true'] at h
    obtain ⟨⟨⟨⟨⟨⟨hp, htw⟩, hsB⟩, hsA⟩, hmB⟩, hmA⟩, hrest⟩ := h
    subst hp
    obtain ⟨body', hb', hparse'⟩ := parseItems_twin tail i hi rB rA hrest
    have hfB := follow_of_static (s := eB) (next := rB.head?.map (·.2)) hi hb' hmB
    have hfA := follow_of_static (s := eA) (next := rA.head?.map (·.2)) hi hb' hmA
    obtain ⟨txt, hr, _, _⟩ := parseStd_render eA hsA i hi (rA.head?.map (·.2)) (body' ++ tail) {} hfA
    refine ⟨pB ++ txt ++ body', by simp [renderItems, hr, hb'], fun f => ?_⟩
    have htwin := elem_twin eB eA htw hsB i hi (rB.head?.map (·.2)) (rA.head?.map (·.2)) (body' ++ tail) f hfB hfA txt hr
    have e : pB ++ txt ++ body' ++ tail = pB ++ (txt ++ (body' ++ tail)) := by simp [List.append_assoc]
    rw [e]
    have hval := htwin (if pB.getLast? = some 32 then cutspace (txt ++ (body' ++ tail)) else txt ++ (body' ++ tail))
      (by split <;> simp)
    simp only [parseItems, skipLit_gen]
    rcases hval with hv | hv
    · exact Or.inl (by simp [hv])
    · simp only [hv]
      rcases hparse' (setStdX eA i f) with h2 | h2
      · exact Or.inl h2
      · exact Or.inr (by rw [h2]; simp [projectFX])

/-! ## dotted layouts: what they can parse -/

theorem getnum_fixed_some {m : Bytes} {n : Int} {r : Bytes} (h : getnum m true = some (n, r)) :
    ∃ a b, m = a :: b :: r ∧ isDig a = true ∧ isDig b = true := by
  cases m with
  | nil => simp [getnum] at h
  | cons a t =>
    cases t with
    | nil => simp only [getnum] at h; split at h <;> simp at h
    | cons b r' =>
      simp only [getnum] at h
      by_cases ha : isDig a = true
      · by_cases hb : isDig b = true
        · simp only [ha, hb, if_true, Option.some.injEq, Prod.mk.injEq] at h
          exact ⟨a, b, by rw [h.2], ha, hb⟩
        · simp [ha, hb] at h
      · simp [ha] at h

theorem skipLit_dot {v rest : Bytes} {p : Bytes} (h : skipLit v (46 :: p) = some rest) : ∃ v', v = 46 :: v' := by
  cases v with
  | nil => simp [skipLit, skip] at h
  | cons x t =>
    by_cases hx : x = 46
    · exact ⟨t, by rw [hx]⟩
    · have : (x == 46) = false := beq_false_of_ne hx
      simp [skipLit, skip, this] at h

/-- a layout that starts `01.02.` accepts only a text that starts `dd.dd.` -/
theorem dotted_inversion {tail : Bytes} {p3 : Bytes} {s3 : Std} {rest : List (Bytes × Std)} {m : Bytes} {f f' : F}
    (h : parseItems tail (([], .zeroMonth) :: ([46], .zeroDay) :: (46 :: p3, s3) :: rest) m f = some f') :
    ∃ a b c d r, m = a :: b :: 46 :: c :: d :: 46 :: r ∧ isDig a = true ∧ isDig b = true ∧ isDig c = true ∧ isDig d = true := by
  have hs0 : skipLit m [] = some m := by simp [skipLit, skip]
  simp only [parseItems, hs0] at h
  cases h1 : parseStd .zeroMonth (some .zeroDay) m f with
  | none => simp [h1] at h
  | some p1 =>
    obtain ⟨f1, r1⟩ := p1
    simp only [List.head?_cons, Option.map_some, h1] at h
    -- the month: two digits
    have hg1 : ∃ n, getnum m true = some (n, r1) := by
      simp only [parseStd, beq_self_eq_true] at h1
      cases hg : getnum m true with
      | none => simp [hg] at h1
      | some q =>
        obtain ⟨n, r⟩ := q
        simp only [hg, Option.bind] at h1
        split at h1
        · cases h1
        · simp only [Option.some.injEq, Prod.mk.injEq] at h1; exact ⟨n, by rw [h1.2]⟩
    obtain ⟨n1, hg1⟩ := hg1
    obtain ⟨a, b, hm, ha, hb⟩ := getnum_fixed_some hg1
    cases hsk : skipLit r1 [46] with
    | none => simp [hsk] at h
    | some r2 =>
      obtain ⟨r1', hr1⟩ := skipLit_dot hsk
      have hr2 : r2 = r1' := by
        subst hr1; simp [skipLit, skip] at hsk; exact hsk.symm
      subst hr2
      simp only [hsk] at h
      cases h2 : parseStd .zeroDay (some s3) r2 f1 with
      | none => simp [h2] at h
      | some p2 =>
        obtain ⟨f2, r3⟩ := p2
        simp only [h2] at h
        have hg2 : ∃ n, getnum r2 true = some (n, r3) := by
          have hb2 : (Std.zeroDay == Std.underDay) = false := by decide
          simp only [parseStd, hb2, Bool.false_and, Bool.false_eq_true, if_false, beq_self_eq_true] at h2
          cases hg : getnum r2 true with
          | none => simp [hg] at h2
          | some q =>
            obtain ⟨n, r⟩ := q
            simp only [hg, Option.map_some, Option.some.injEq, Prod.mk.injEq] at h2
            exact ⟨n, by rw [h2.2]⟩
        obtain ⟨n2, hg2⟩ := hg2
        obtain ⟨c, d, hr2', hc, hd⟩ := getnum_fixed_some hg2
        cases hsk3 : skipLit r3 (46 :: p3) with
        | none => simp [hsk3] at h
        | some r4 =>
          obtain ⟨r3', hr3⟩ := skipLit_dot hsk3
          exact ⟨a, b, c, d, r3', by rw [hm, hr1, hr2', hr3], ha, hb, hc, hd⟩

theorem find_ne_none_of_suffix (r : Rx) : ∀ (p s : Bytes), matchAt r s ≠ none → find r (p ++ s) ≠ none
  | [], s, h => by
    cases s with
    | nil => simpa [find] using h
    | cons x t =>
      simp only [List.nil_append, find]
      cases hm : matchAt r (x :: t) with
      | none => exact absurd hm h
      | some m => simp
  | x :: p, s, h => by
    simp only [List.cons_append, find]
    cases hm : matchAt r (x :: (p ++ s)) with
    | none => exact find_ne_none_of_suffix r p s h
    | some m => simp

theorem matchAt_dotted {a b c d : UInt8} (ha : isDig a = true) (hb : isDig b = true) (hc : isDig c = true) (hd : isDig d = true)
    (r : Bytes) : matchAt rxDotted (a :: b :: 46 :: c :: d :: 46 :: r) ≠ none := by
  have e : ∀ x, inCls clsDigit x = isDig x := by intro x; simp [inCls, clsDigit, isDig]
  simp [matchAt, rxDotted, rxD, ms, e, ha, hb, hc, hd]

/-- a dotted format fails on every text none of whose shapes contains the factor `dd.dd.` -/
theorem formatParse_dotted_err {adj : Adjust} {cj : CFormat} {now : Now} {r : Rx} (hr : cj.rx = some r)
    (hdot : dottedLayout cj.layout = true) (hsup : cj.layout.supported = true) {txt : Bytes} {sh : List BSet}
    (hs : hasShape txt sh) (hno : findS rxDotted sh = false) : formatParse adj cj now txt = .err := by
  simp only [formatParse, hr]
  cases hf : findG cj.guard r txt with
  | none => rfl
  | some m =>
    simp only [parseLayout, hsup, Bool.not_true, Bool.false_eq_true, if_false]
    cases hp : parseItems cj.layout.tail cj.layout.items m {} with
    | none => rfl
    | some f' =>
      exfalso
      simp only [dottedLayout] at hdot
      split at hdot
      · rename_i p3 s3 rest hitems
        rw [hitems] at hp
        obtain ⟨a, b, c, d, r', hm, ha, hb, hc, hd⟩ := dotted_inversion hp
        obtain ⟨p, q, e⟩ := findFrom_sub _ r txt _ m hf
        have hfind := find_none_of_findS rxDotted txt sh hs hno
        have : find rxDotted (p ++ (m ++ q)) ≠ none := by
          apply find_ne_none_of_suffix
          rw [hm]; exact matchAt_dotted ha hb hc hd (r' ++ q)
        rw [e, List.append_assoc] at hfind
        exact this hfind
      · cases hdot

/-! ## `Format.Parse`'s defaulting never refuses a projected instant -/

structure ZInv (i : XInst) (f : F) : Prop where
  zn : f.zoneName = none ∨ f.zoneName = some i.zname

theorem ZInv.fold {i : XInst} : ∀ (items : List (Bytes × Std)) {f : F}, ZInv i f → ZInv i (projectFX items i f)
  | [], _, h => h
  | it :: rest, f, h => by
    simp only [projectFX, List.foldl_cons]
    refine ZInv.fold rest ?_
    obtain ⟨hz⟩ := h
    cases hs : it.2 <;> simp only [setStdX] <;> first
      | exact ⟨hz⟩
      | (split <;> first | exact ⟨hz⟩ | exact ⟨Or.inr rfl⟩)

/-- a fabricated zone of a projected instant has display offset 0 (the abbreviation has three letters) -/
def zoneDispZero (c : Civil) : Prop := match c.zone with | .named _ d => d = 0 | _ => True

/-- the zone `finish` resolves -/
def finishZone (f : F) : Zone :=
  if f.zUTC then .utc
  else match f.zoneOffset with
    | some o => .offset o
    | none =>
      match f.zoneName with
      | some n =>
        if n.length > 3 && hasPrefix n bGMT then .named n (((atoi (n.drop 3)).getD 0) * 3600) else .named n 0
      | none => .dflt

theorem finish_zone {i : XInst} (hi : ValidX i) {f : F} (h : XInv i f) {c : Civil} (hc : finish f = .ok c) : c.zone = finishZone f := by
  obtain ⟨_, _, hm1, hm12, hd1, hdd, _⟩ := hi
  obtain ⟨hy, hm, hd⟩ := h
  have b1 := daysIn_bounds i.month i.year
  have b2 := daysIn_pivot i.month i.year
  have key : ¬ ((if f.day < 0 then 1 else f.day) < 1 ∨
      (if f.day < 0 then 1 else f.day) > daysIn (if f.month < 0 then 1 else f.month) f.year) := by
    rcases hd with hd | hd
    · have b := daysIn_bounds (if f.month < 0 then 1 else f.month) f.year
      simp only [hd]; simp; omega
    · rw [hd]
      have hdn : ¬ ((i.day : Int) < 0) := by omega
      simp only [hdn, if_false]
      rcases hm with hm | hm
      · simp only [hm]; simp [daysIn_one]; omega
      · rw [hm]
        have hmn : ¬ ((i.month : Int) < 0) := by omega
        simp only [hmn, if_false]
        rcases hy with hy | hy | hy
        · rw [hy]; omega
        · rw [hy]; omega
        · rw [hy]; omega
  simp only [finish] at hc
  rw [if_neg (by simpa using key)] at hc
  cases hc
  rfl

theorem projectX_zone {L : Layout} {i : XInst} (hi : ValidX i) {c : Civil} (h : projectX L i = .ok c) : zoneDispZero c := by
  obtain ⟨a, b, c', hz, _⟩ := hi.2.2.2.2.2.2.2.2.2.2.2.2.2.2.2
  have hinv := (ZInv.fold (i := i) L.items (f := {}) ⟨Or.inl rfl⟩).zn
  have hzone := finish_zone hi (XInv.fold L.items ⟨Or.inl rfl, Or.inl rfl, Or.inl rfl⟩) h
  simp only [zoneDispZero, hzone, finishZone]
  split
  · rename_i name d heq
    split at heq
    · cases heq
    · split at heq
      · cases heq
      · split at heq
        · rename_i n hn
          rw [hn] at hinv
          rcases hinv with hinv | hinv
          · cases hinv
          · have hlen : n.length = 3 := by
              have : n = i.zname := Option.some.inj hinv
              rw [this, hz]; rfl
            have : (decide (n.length > 3) && hasPrefix n bGMT) = false := by simp [hlen]
            simp only [this, Bool.false_eq_true, if_false, Zone.named.injEq] at heq
            exact heq.2.symm
        · cases heq
  · trivial

/-- the instant a claimed text denotes after `Format.Parse`'s defaulting: today for a time-only format, the current (or
previous) year for a year-less one -/
def adjAll (adj : Adjust) (cf : CFormat) (now : Now) (c : Civil) : Civil :=
  if cf.noDate then (if adj.date then adjustDate now c else c)
  else if !cf.hasYear then (if adj.year then adjustYear now c else c)
  else c

theorem adjustRes_all {adj : Adjust} {cf : CFormat} {now : Now} {c : Civil} (hz : zoneDispZero c) :
    adjustRes adj cf now c = .ok (adjAll adj cf now c) := by
  simp only [adjustRes, adjAll]
  split
  · split <;> rfl
  · split
    · split
      · simp only [zoneDispZero] at hz
        split
        · rename_i hzone
          rw [hzone] at hz
          simp only at hz
          subst hz
          simp
        · rfl
      · rfl
    · rfl

theorem adjustRes_congr {adj : Adjust} {cj ck : CFormat} {now : Now} {c : Civil} (h1 : cj.noDate = ck.noDate) (h2 : cj.hasYear = ck.hasYear) :
    adjustRes adj cj now c = adjustRes adj ck now c := by
  simp only [adjustRes, h1, h2]

/-! ## the list -/

theorem parseFrom_agree {adj : Adjust} {now : Now} {buf : Bytes} {c : Civil} :
    ∀ (fmts : List CFormat) (i0 k : Nat) (ck : CFormat), fmts[k]? = some ck →
      (∀ j, j < k → ∀ cj, fmts[j]? = some cj → formatParse adj cj now buf = .err ∨ formatParse adj cj now buf = .ok c) →
      formatParse adj ck now buf = .ok c →
      ∃ j', j' ≤ k ∧ parseFrom adj now buf i0 fmts = .ok (i0 + j') c
  | [], _, _, _, h, _, _ => by simp at h
  | cf :: rest, i0, 0, ck, h, _, hok => by
    simp at h; subst h
    exact ⟨0, Nat.le_refl 0, by simp [parseFrom, hok]⟩
  | cf :: rest, i0, k + 1, ck, h, hearlier, hok => by
    rcases hearlier 0 (by omega) cf (by simp) with h0 | h0
    · obtain ⟨j', hj', hp⟩ := parseFrom_agree rest (i0 + 1) k ck (by simpa using h)
        (fun j hj cj hcj => hearlier (j + 1) (by omega) cj (by simpa using hcj)) hok
      refine ⟨j' + 1, by omega, ?_⟩
      simp only [parseFrom, h0, hp]
      congr 1; omega
    · exact ⟨0, by omega, by simp [parseFrom, h0]⟩

/-- **first match, in general**: if every earlier format has one of the three certificates against format `k`, the list's
answer for the text of any valid instant in format `k` is exactly the fields format `k` carries — claimed by format `k` or
by an earlier twin that reads the same fields -/
theorem first_match_agree {adj : Adjust} {now : Now} {fmts : List CFormat} {k : Nat} {ck : CFormat} (hk : fmts[k]? = some ck)
    (hidx : idxOK fmts k = true) (hown : ownOK ck = true) (i : XInst) (hi : ValidX i) :
    ∃ txt c j', renderLayout ck.layout i = some txt ∧ projectX ck.layout i = .ok c ∧ j' ≤ k ∧
      parseFirst adj fmts now txt = .ok j' (adjAll adj ck now c) := by
  have hwf : ParseWF ck.layout = true := by
    simp only [ownOK, Bool.and_eq_true] at hown; exact hown.1
  obtain ⟨txt, ht, hp⟩ := render_parse_all ck.layout hwf i hi
  obtain ⟨c, hc⟩ := projectX_ok ck.layout i hi
  obtain ⟨r, hr, _, hf⟩ := own_regexp_whole hown hi ht
  obtain ⟨sh, hsh, hs⟩ := renderLayout_shape ck.layout i hi txt ht
  have hz := projectX_zone hi hc
  have hfp : formatParse adj ck now txt = .ok (adjAll adj ck now c) := by
    rw [formatParse_of_find hr hf (by rw [hp, hc]), adjustRes_all hz]
  refine ⟨txt, c, ?_⟩
  have hearlier : ∀ j, j < k → ∀ cj, fmts[j]? = some cj →
      formatParse adj cj now txt = .err ∨ formatParse adj cj now txt = .ok (adjAll adj ck now c) := by
    intro j hj cj hcj
    simp only [idxOK, hk, List.all_eq_true, List.mem_range] at hidx
    have hpair := hidx j hj
    rw [hcj] at hpair
    simp only [pairOK] at hpair
    cases hrj : cj.rx with
    | none => rw [hrj] at hpair; simp at hpair
    | some rj =>
      rw [hrj] at hpair
      simp only [Bool.or_eq_true] at hpair
      rcases hpair with (hclean | hdot) | htwin
      · -- nothing of `j` matches anywhere
        have hns : findSG cj.guard rj false sh = false := by
          have := List.all_eq_true.mp hclean sh hsh
          simpa using this
        exact Or.inl (formatParse_err_of_find hrj (findFrom_none_of_findSG cj.guard rj txt sh false false hs (fun h => h) hns))
      · -- `j` is a dotted format
        simp only [Bool.and_eq_true] at hdot
        have hno : findS rxDotted sh = false := by
          have := List.all_eq_true.mp hdot.2 sh hsh
          simpa using this
        exact Or.inl (formatParse_dotted_err hrj hdot.1.1 hdot.1.2 hs hno)
      · -- `j` is a twin
        simp only [Bool.and_eq_true, beq_iff_eq] at htwin
        obtain ⟨⟨⟨⟨⟨hnd, hhy⟩, htail⟩, hsup⟩, htw⟩, hsh2⟩ := htwin
        have hone := List.all_eq_true.mp hsh2 sh hsh
        simp only [Bool.or_eq_true, Bool.not_eq_true'] at hone
        rcases hone with hns | hwhole
        · exact Or.inl (formatParse_err_of_find hrj (findFrom_none_of_findSG cj.guard rj txt sh false false hs (fun h => h) hns))
        · have hm := matchAt_whole_of_ownMatchD hs hwhole
          have hfj : findG cj.guard rj txt = some txt := findG_of_matchAt hm
          obtain ⟨body, hb, hpt⟩ := parseItems_twin ck.layout.tail i hi cj.layout.items ck.layout.items htw
          have htxt : txt = body ++ ck.layout.tail := by
            simp only [renderLayout, hb, Option.map_some, Option.some.injEq] at ht
            exact ht.symm
          rcases hpt {} with hnone | hsome
          · refine Or.inl ?_
            have hpl : parseLayout cj.layout txt = .err := by
              simp only [parseLayout, hsup, Bool.not_true, Bool.false_eq_true, if_false, htail]
              rw [htxt, hnone]
            simp only [formatParse, hrj, hfj, hpl]
          · refine Or.inr ?_
            have hpl : parseLayout cj.layout txt = .ok c := by
              simp only [parseLayout, hsup, Bool.not_true, Bool.false_eq_true, if_false, htail]
              rw [htxt, hsome]
              exact hc
            rw [formatParse_of_find hrj hfj hpl, adjustRes_congr hnd hhy, adjustRes_all hz]
  obtain ⟨j', hj', hpf⟩ := parseFrom_agree (adj := adj) (now := now) (buf := txt) fmts 0 k ck hk hearlier hfp
  exact ⟨j', ht, hc, hj', by simpa [parseFirst] using hpf⟩

end Logrange.Date
