import Logrange.Proofs.Truncate
/-! The sorted insertion of `Service.Truncate` (after fix cac5c5d): `sortedInfos` is sorted by (latest timestamp
descending, source id ascending) and does not depend on the visiting order. -/
namespace Logrange.Truncate

/-! ### `sort.Search` returns the least index with `f` true when `f` is monotone on `[0,n)`
(same statement and proof as in the registry lemmas of C19; repeated here so that this file depends on the shared
model of the library loop only) -/

theorem searchLoop_spec (f : Nat → Bool) (n : Nat)
    (hmono : ∀ a b, a ≤ b → b < n → f a = true → f b = true) :
    ∀ fuel i j, i ≤ j → j ≤ n → j - i < fuel →
      (∀ k, k < i → f k = false) → (∀ k, j ≤ k → k < n → f k = true) →
      (Registry.sortSearchLoop f fuel i j ≤ n ∧ (∀ k, k < Registry.sortSearchLoop f fuel i j → f k = false) ∧
        (∀ k, Registry.sortSearchLoop f fuel i j ≤ k → k < n → f k = true)) := by
  intro fuel
  induction fuel with
  | zero => intro i j _ _ h; omega
  | succ fuel ih =>
    intro i j hij hjn hfuel hlo hhi
    unfold Registry.sortSearchLoop
    by_cases hlt : i < j
    · simp only [hlt, if_true]
      have hh1 : i ≤ (i + j) / 2 := by omega
      have hh2 : (i + j) / 2 < j := by omega
      cases hf : f ((i + j) / 2) with
      | false =>
        simp only [Bool.not_false, if_true]
        apply ih ((i + j) / 2 + 1) j (by omega) hjn (by omega) _ hhi
        intro k hk
        cases hfk : f k with
        | false => rfl
        | true =>
          have := hmono k ((i + j) / 2) (by omega) (by omega) hfk
          rw [hf] at this; cases this
      | true =>
        simp only [Bool.not_true]
        apply ih i ((i + j) / 2) hh1 (by omega) (by omega) hlo
        intro k hk hkn
        exact hmono ((i + j) / 2) k hk hkn hf
    · simp only [hlt, if_false]
      have : i = j := by omega
      subst this
      exact ⟨hjn, hlo, hhi⟩

theorem search_spec (f : Nat → Bool) (n : Nat)
    (hmono : ∀ a b, a ≤ b → b < n → f a = true → f b = true) :
    Registry.sortSearch n f ≤ n ∧ (∀ k, k < Registry.sortSearch n f → f k = false) ∧
      (∀ k, Registry.sortSearch n f ≤ k → k < n → f k = true) := by
  unfold Registry.sortSearch
  apply searchLoop_spec f n hmono (n+1) 0 n (by omega) (by omega) (by omega)
  · intro k hk; omega
  · intro k hk hkn; omega

/-- `a` comes strictly before `b` in `sortedInfos`: later latest timestamp, or the same and a smaller source id -/
def Before (a b : Info) : Prop := b.latestTs < a.latestTs ∨ (b.latestTs = a.latestTs ∧ a.src < b.src)

def SortedInfos (l : List Info) : Prop := l.Pairwise Before

theorem notBefore_iff (si ti : Info) : notBefore si ti = true ↔ ¬ Before si ti := by
  unfold notBefore Before
  simp only [Bool.or_eq_true, Bool.and_eq_true, decide_eq_true_eq, beq_iff_eq]
  omega

theorem notBefore_false_iff (si ti : Info) : notBefore si ti = false ↔ Before si ti := by
  rw [← Bool.not_eq_true, notBefore_iff]; exact Classical.not_not

theorem Before.trans {a b c : Info} (h1 : Before a b) (h2 : Before b c) : Before a c := by
  unfold Before at *; omega

theorem Before.asymm {a b : Info} (h1 : Before a b) (h2 : Before b a) : False := by
  unfold Before at *; omega

theorem Before.total {a b : Info} (h : a.src ≠ b.src) (hn : ¬ Before a b) : Before b a := by
  unfold Before at *; omega

/-- the index `sort.Search` finds splits a sorted list into the entries before `ti` and the entries after it -/
theorem insert_split (infos : List Info) (ti : Info) (hs : SortedInfos infos) :
    let idx := Registry.sortSearch infos.length (fun i => notBefore (infos.getD i default) ti)
    idx ≤ infos.length ∧ (∀ a ∈ infos.take idx, Before a ti) ∧ (∀ b ∈ infos.drop idx, ¬ Before b ti) := by
  intro idx
  have hmono : ∀ a b, a ≤ b → b < infos.length →
      notBefore (infos.getD a default) ti = true → notBefore (infos.getD b default) ti = true := by
    intro a b hab hb ha
    rw [notBefore_iff] at ha ⊢
    intro hbt
    rcases Nat.lt_or_ge a b with hlt | hge
    · have ha' : a < infos.length := by omega
      have hab' : Before infos[a] infos[b] := (List.pairwise_iff_getElem.mp hs) a b ha' hb hlt
      apply ha
      have e1 : infos.getD a default = infos[a] := by simp [List.getD_eq_getElem?_getD, List.getElem?_eq_getElem ha']
      have e2 : infos.getD b default = infos[b] := by simp [List.getD_eq_getElem?_getD, List.getElem?_eq_getElem hb]
      rw [e1]; rw [e2] at hbt
      exact hab'.trans hbt
    · have : a = b := by omega
      subst this; exact ha hbt
  obtain ⟨h1, h2, h3⟩ := search_spec (fun i => notBefore (infos.getD i default) ti) infos.length hmono
  refine ⟨h1, ?_, ?_⟩
  · intro a ha
    obtain ⟨j, hj, rfl⟩ := List.mem_take_iff_getElem.mp ha
    have hj' : j < infos.length := by omega
    have := h2 j (by omega)
    rw [notBefore_false_iff] at this
    simpa [List.getD_eq_getElem?_getD, List.getElem?_eq_getElem hj'] using this
  · intro b hb
    obtain ⟨j, hj, rfl⟩ := List.mem_drop_iff_getElem.mp hb
    have hj' : idx + j < infos.length := by omega
    have := h3 (idx + j) (by omega) hj'
    rw [notBefore_iff] at this
    simpa [List.getD_eq_getElem?_getD, List.getElem?_eq_getElem hj'] using this

/-- **The insertion keeps `sortedInfos` sorted** (new source id) and adds exactly the new entry. -/
theorem insert_sorted (infos : List Info) (ti : Info) (hs : SortedInfos infos)
    (hnew : ∀ a ∈ infos, a.src ≠ ti.src) :
    SortedInfos (insertInfo infos ti) ∧ (insertInfo infos ti).Perm (ti :: infos) := by
  obtain ⟨hle, hbefore, hafter⟩ := insert_split infos ti hs
  unfold insertInfo
  simp only []
  generalize Registry.sortSearch infos.length (fun i => notBefore (infos.getD i default) ti) = idx at *
  refine ⟨?_, ?_⟩
  · unfold SortedInfos
    rw [List.pairwise_append]
    refine ⟨List.Pairwise.sublist (List.take_sublist _ _) hs, ?_, ?_⟩
    · rw [List.pairwise_cons]
      refine ⟨?_, List.Pairwise.sublist (List.drop_sublist _ _) hs⟩
      intro b hb
      exact Before.total (hnew b (List.mem_of_mem_drop hb)) (hafter b hb)
    · intro a ha b hb
      rcases List.mem_cons.mp hb with rfl | hb
      · exact hbefore a ha
      · exact (hbefore a ha).trans (Before.total (hnew b (List.mem_of_mem_drop hb)) (hafter b hb))
  · have : (infos.take idx ++ ti :: infos.drop idx).Perm (ti :: (infos.take idx ++ infos.drop idx)) := List.perm_middle
    rw [List.take_append_drop] at this
    exact this

def sortInfos (l : List Info) : List Info := l.foldl insertInfo []

theorem foldl_insert_sorted : ∀ (l acc : List Info), SortedInfos acc → ((acc ++ l).map (·.src)).Nodup →
    SortedInfos (l.foldl insertInfo acc) ∧ (l.foldl insertInfo acc).Perm (acc ++ l) := by
  intro l
  induction l with
  | nil => intro acc hs _; simpa using hs
  | cons ti rest ih =>
    intro acc hs hnd
    have hnew : ∀ a ∈ acc, a.src ≠ ti.src := by
      intro a ha e
      rw [List.map_append, List.map_cons] at hnd
      have := (List.nodup_append.mp hnd).2.2 a.src (List.mem_map_of_mem ha) ti.src (by simp)
      exact this e
    obtain ⟨s1, p1⟩ := insert_sorted acc ti hs hnew
    have hnd' : ((insertInfo acc ti ++ rest).map (·.src)).Nodup := by
      have hp : ((insertInfo acc ti ++ rest).map (·.src)).Perm ((acc ++ ti :: rest).map (·.src)) := by
        apply List.Perm.map
        exact (List.Perm.append_right rest p1).trans (List.perm_middle.symm)
      exact hp.nodup_iff.mpr hnd
    obtain ⟨s2, p2⟩ := ih (insertInfo acc ti) s1 hnd'
    refine ⟨s2, ?_⟩
    simp only [List.foldl_cons]
    exact p2.trans ((List.Perm.append_right rest p1).trans (List.perm_middle.symm))

/-- **`insert_perm_invariant`: `sortedInfos` is the same list for every visiting order** — inserting the same
entries (distinct source ids) in any two orders gives the same sorted list. -/
theorem insert_perm_invariant (l1 l2 : List Info) (hp : l1.Perm l2) (hnd : (l1.map (·.src)).Nodup) :
    sortInfos l1 = sortInfos l2 ∧ SortedInfos (sortInfos l1) ∧ (sortInfos l1).Perm l1 := by
  have hnd2 : (l2.map (·.src)).Nodup := (hp.map _).nodup_iff.mp hnd
  obtain ⟨s1, p1⟩ := foldl_insert_sorted l1 [] List.Pairwise.nil (by simpa using hnd)
  obtain ⟨s2, p2⟩ := foldl_insert_sorted l2 [] List.Pairwise.nil (by simpa using hnd2)
  simp only [List.nil_append] at p1 p2
  refine ⟨?_, s1, p1⟩
  exact List.Perm.eq_of_pairwise (le := Before) (fun a b _ _ h1 h2 => (h1.asymm h2).elim) s1 s2
    (p1.trans (hp.trans p2.symm))

end Logrange.Truncate
