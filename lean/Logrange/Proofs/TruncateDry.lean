import Logrange.Proofs.TruncateSort
/-! DRYRUN announces what the run does — the whole command, any two visiting orders. -/
namespace Logrange.Truncate
variable {acct : Bool}

/-! ### phase I as three independent passes over the visiting order -/

theorem phase1_foldl (strict : Bool) (p : Params) : ∀ (order : List Part) (st : St),
    order.foldl (phase1Step strict p) st =
      { db := st.db ++ order.filterMap (fun q => (phase1Part strict p q).part)
        reports := st.reports ++ order.filterMap (fun q => (phase1Part strict p q).report)
        infos := (order.filterMap (fun q => (phase1Part strict p q).info)).foldl insertInfo st.infos } := by
  intro order
  induction order with
  | nil => intro st; simp
  | cons q rest ih =>
    intro st
    simp only [List.foldl_cons]
    rw [ih]
    unfold phase1Step
    cases h1 : (phase1Part strict p q).part <;> cases h2 : (phase1Part strict p q).report <;>
      cases h3 : (phase1Part strict p q).info <;> simp [List.filterMap_cons, h1, h2, h3]

theorem phase1_eq (strict : Bool) (p : Params) (order : List Part) :
    phase1 strict p order =
      { db := order.filterMap (fun q => (phase1Part strict p q).part)
        reports := order.filterMap (fun q => (phase1Part strict p q).report)
        infos := sortInfos (order.filterMap (fun q => (phase1Part strict p q).info)) } := by
  unfold phase1
  rw [phase1_foldl]
  simp [sortInfos]

/-! ### facts about the visitor body -/

theorem p1_info_src (strict : Bool) (p : Params) (q : Part) (ti : Info)
    (h : (phase1Part strict p q).info = some ti) : ti.src = q.src := by
  unfold phase1Part at h
  by_cases hsel : q.sel = false
  · simp [hsel] at h
  · by_cases hz : psize q.chunks = 0
    · by_cases hd : p.dryRun = true
      · simp [hsel, hz, hd] at h
      · by_cases hc : canDelete q.users q.chunks = true
        · simp [hsel, hz, hd, hc] at h
        · simp [hsel, hz, hd, hc] at h
    · simp only [if_neg hsel, if_neg hz, Option.some.injEq] at h
      rw [← h]

theorem p1_part_src (strict : Bool) (p : Params) (q q' : Part)
    (h : (phase1Part strict p q).part = some q') : q'.src = q.src := by
  unfold phase1Part at h
  by_cases hsel : q.sel = false
  · simp [hsel] at h; rw [← h]
  · by_cases hz : psize q.chunks = 0
    · by_cases hd : p.dryRun = true
      · simp [hsel, hz, hd] at h; rw [← h]
      · by_cases hc : canDelete q.users q.chunks = true
        · simp [hsel, hz, hd, hc] at h
        · simp [hsel, hz, hd, hc] at h; rw [← h]
    · simp only [if_neg hsel, if_neg hz] at h
      generalize (if (truncate strict p q.chunks).removed = psize q.chunks then
        (p.dryRun || canDelete q.users (truncate strict p q.chunks).chunks) else false) = Dd at h
      by_cases hD : Dd = true ∧ p.dryRun = false
      · simp [hD] at h
      · simp [hD] at h; rw [← h]

/-- a partition whose phase-I entry still shows data (`after > 0`) is kept by the real phase I with the chunks
`truncate` left: the chunk list minus the `chunksDeleted` oldest -/
theorem p1_linked (strict : Bool) (p : Params) (hd : p.dryRun = false) (q : Part) (ti : Info)
    (hs : Ascending q.chunks) (h : (phase1Part strict p q).info = some ti) (ha : 0 < ti.after) :
    (phase1Part strict p q).part = some { q with chunks := q.chunks.drop ti.chunksDeleted } ∧
    ti.chunksDeleted ≤ q.chunks.length ∧ psize q.chunks ≠ 0 := by
  unfold phase1Part at h ⊢
  by_cases hsel : q.sel = false
  · simp [hsel] at h
  · by_cases hz : psize q.chunks = 0
    · by_cases hc : canDelete q.users q.chunks = true
      · simp [hsel, hz, hd, hc] at h
      · simp [hsel, hz, hd, hc] at h
    · simp only [if_neg hsel, if_neg hz, Option.some.injEq] at h ⊢
      have hrem := truncate_removed strict p q.chunks
      have hn := truncate_n strict p q.chunks hs
      have hck := truncate_chunks strict p q.chunks hs
      have hle := choose_n_le strict p q.chunks
      have hsum := psize_take_add_drop q.chunks (choose strict p q.chunks).n
      subst h
      simp only [] at ha ⊢
      have hne : ¬ (truncate strict p q.chunks).removed = psize q.chunks := by
        intro e
        rw [e, sub64_of_le (Nat.le_refl _)] at ha
        omega
      simp only [hne, if_false, Bool.false_eq_true, false_and, hn, hck, hd]
      exact ⟨trivial, hle, hz⟩

/-! ### look-ups in the partition list -/

theorem dbFind_filterMap (f : Part → Option Part) (hf : ∀ x y, f x = some y → y.src = x.src) :
    ∀ (l : List Part), (l.map (·.src)).Nodup → ∀ q ∈ l, ∀ q', f q = some q' →
      dbFind (l.filterMap f) q.src = some q' := by
  intro l
  induction l with
  | nil => intro _ q hq; cases hq
  | cons x xs ih =>
    intro hnd q hq q' hfq
    rw [List.map_cons, List.nodup_cons] at hnd
    rcases List.mem_cons.mp hq with rfl | hq
    · have e := hf q q' hfq
      simp [List.filterMap_cons, hfq, dbFind, e]
    · have hne : x.src ≠ q.src := by
        intro e; apply hnd.1; rw [e]; exact List.mem_map_of_mem hq
      cases hfx : f x with
      | none => simp only [List.filterMap_cons, hfx]; exact ih hnd.2 q hq q' hfq
      | some y =>
        have ey := hf x y hfx
        simp only [List.filterMap_cons, hfx, dbFind]
        rw [List.find?_cons_of_neg (by simp [ey, hne])]
        exact ih hnd.2 q hq q' hfq

theorem dbFind_of_mem (l : List Part) (hnd : (l.map (·.src)).Nodup) (q : Part) (hq : q ∈ l) :
    dbFind l q.src = some q := by
  have := dbFind_filterMap some (by intro x y h; cases h; rfl) l hnd q hq q rfl
  simpa using this

theorem dbFind_dbRemove_ne (db : List Part) (s t : Nat) (h : s ≠ t) : dbFind (dbRemove db s) t = dbFind db t := by
  unfold dbFind dbRemove
  induction db with
  | nil => rfl
  | cons x xs ih =>
    by_cases hx : x.src = s
    · have : ¬ x.src = t := by omega
      simp [List.filter_cons, hx, List.find?_cons, this, h]
      simpa [hx] using ih
    · simp only [List.filter_cons, hx, beq_iff_eq, Bool.not_false, if_true, List.find?_cons, Bool.not_eq_true']
      simp only [show (x.src == s) = false from by simp [hx], Bool.not_false, if_true, List.find?_cons]
      split
      · rfl
      · exact ih

/-! ### the MAXDBSIZE loop: the dry run on the untouched partitions simulates the run on the reduced ones -/

/-- how the dry database `D` and the real database `R` are related at a candidate of the pass -/
def Linked (D R : List Part) (ti : Info) : Prop :=
  0 < ti.after → ∃ q, dbFind D ti.src = some q ∧
    dbFind R ti.src = some { q with chunks := q.chunks.drop ti.chunksDeleted } ∧
    q.users = 0 ∧ Ascending q.chunks ∧ (∀ c ∈ q.chunks, 2 ≤ c.size) ∧ ti.chunksDeleted ≤ q.chunks.length

theorem Ascending_drop (cks : List Chunk) (n : Nat) (h : Ascending cks) : Ascending (cks.drop n) :=
  List.Pairwise.sublist (List.drop_sublist _ _) h

theorem globalLoop_sim (strict : Bool) (p : Params) : ∀ (rest : List Info) (ts : Nat) (D R : List Part),
    (rest.map (·.src)).Nodup → (∀ ti ∈ rest, Linked D R ti) →
    (globalLoop acct strict 0 1 { p with dryRun := true } rest ts D).1 =
      (globalLoop acct strict 0 1 { p with dryRun := false } rest ts R).1 := by
  intro rest
  induction rest with
  | nil => intro ts D R _ _; simp [globalLoop]
  | cons ti rest ih =>
    intro ts D R hnd hl
    rw [List.map_cons, List.nodup_cons] at hnd
    have hl' : ∀ tj ∈ rest, Linked D R tj := fun tj h => hl tj (List.mem_cons_of_mem _ h)
    unfold globalLoop
    by_cases h1 : p.maxDB < ts
    · simp only [h1, if_true]
      by_cases h2 : 0 < ti.after
      · simp only [h2, if_true]
        obtain ⟨q, hD, hR, hu, hasc, hsz, hcd⟩ := hl ti (by simp) h2
        have hemp := global_truncate_empties strict (q.chunks.drop ti.chunksDeleted) (Ascending_drop _ _ hasc)
          (fun c hc => hsz c (List.mem_of_mem_drop hc))
        simp only [hD, hR, Bool.true_or, if_true, Bool.false_or, hemp, hu]
        have hcan : canDelete 0 [] = true := by decide
        simp only [hcan, if_true, Bool.false_eq_true, if_false]
        rw [takenInfo_dry_eq_run ti q.chunks hcd]
        congr 1
        apply ih
        · exact hnd.2
        · intro tj htj ha
          obtain ⟨q2, hD2, hR2, rest2⟩ := hl' tj htj ha
          refine ⟨q2, hD2, ?_, rest2⟩
          rw [dbFind_dbRemove_ne _ _ _ (by
            intro e; apply hnd.1; rw [e]; exact List.mem_map_of_mem htj)]
          exact hR2
      · simp only [h2, if_false]
        congr 1
        exact ih ts D R hnd.2 hl'
    · simp [h1]

end Logrange.Truncate

namespace Logrange.Truncate
variable {acct : Bool}

/-! ### DRYRUN = run, phase I, one partition (generic in the comparison operator) -/

theorem phase1Part_dry_eq_run (strict : Bool) (p : Params) (part : Part) (hu : part.users = 0) (hs : Ascending part.chunks) :
    (phase1Part strict { p with dryRun := true } part).report = (phase1Part strict { p with dryRun := false } part).report ∧
    (phase1Part strict { p with dryRun := true } part).info = (phase1Part strict { p with dryRun := false } part).info := by
  have hch : ∀ b, choose strict { p with dryRun := b } part.chunks = choose strict p part.chunks := by
    intro b; rfl
  have hn : ∀ b, (truncate strict { p with dryRun := b } part.chunks).n = (choose strict p part.chunks).n := by
    intro b; rw [truncate_n _ _ _ hs, hch]
  have hr : ∀ b, (truncate strict { p with dryRun := b } part.chunks).removed =
      psize (part.chunks.take (choose strict p part.chunks).n) := by
    intro b; rw [truncate_removed, hch]
  unfold phase1Part
  by_cases hsel : part.sel = false
  · simp [hsel]
  · simp only [hsel, if_false]
    by_cases hz : psize part.chunks = 0
    · simp [hz, canDelete, hu]
    · simp only [hz, if_false, hn, hr]
      refine ⟨rfl, ?_⟩
      by_cases hall : psize (part.chunks.take (choose strict p part.chunks).n) = psize part.chunks
      · simp only [hall, if_true, Bool.true_or, Bool.false_or]
        have hck : (truncate strict { p with dryRun := false } part.chunks).chunks =
            part.chunks.drop (choose strict p part.chunks).n := by
          rw [truncate_chunks _ _ _ hs, hch]; simp
        have hd0 : psize (part.chunks.drop (choose strict p part.chunks).n) = 0 := by
          have := psize_take_add_drop part.chunks (choose strict p part.chunks).n; omega
        simp [hck, canDelete, hu, hd0]
      · simp [hall]

/-- a partition holds no data at all, or no chunk of it is smaller than two bytes (a stored record takes at least
14; a chunk without a confirmed byte exists only in a partition created by a write request without events) -/
def WellSized (q : Part) : Prop := psize q.chunks = 0 ∨ ∀ c ∈ q.chunks, 2 ≤ c.size

theorem filterMap_congr_mem {α β : Type} (f g : α → Option β) : ∀ (l : List α), (∀ x ∈ l, f x = g x) →
    l.filterMap f = l.filterMap g := by
  intro l
  induction l with
  | nil => intro _; rfl
  | cons x xs ih =>
    intro h
    simp only [List.filterMap_cons, h x (by simp)]
    rw [ih (fun y hy => h y (List.mem_cons_of_mem _ hy))]

theorem nodup_filterMap_map {α β : Type} (f : α → Option β) (g : β → Nat) (h : α → Nat)
    (hf : ∀ x y, f x = some y → g y = h x) : ∀ (l : List α), (l.map h).Nodup → ((l.filterMap f).map g).Nodup := by
  intro l
  induction l with
  | nil => intro _; simp
  | cons x xs ih =>
    intro hnd
    rw [List.map_cons, List.nodup_cons] at hnd
    cases hfx : f x with
    | none => simp only [List.filterMap_cons, hfx]; exact ih hnd.2
    | some y =>
      simp only [List.filterMap_cons, hfx, List.map_cons, List.nodup_cons]
      refine ⟨?_, ih hnd.2⟩
      intro hmem
      obtain ⟨z, hz, ez⟩ := List.mem_map.mp hmem
      obtain ⟨w, hw, ew⟩ := List.mem_filterMap.mp hz
      apply hnd.1
      rw [← hf x y hfx, ← ez, hf w z ew]
      exact List.mem_map_of_mem hw

/-- **DRYRUN announces exactly what the run does — the whole command.** For every layout, every parameter
combination and every visiting order of the two calls (`o1` for the dry run, `o2` for the run: two independent
walks over Go's map), with nobody else using the partitions: the dry run's reports (partitions, bytes, chunk counts,
deleted flags) are the run's reports. -/
theorem dryrun_equals_run (strict : Bool) (p : Params) (o1 o2 : List Part) (hp : o1.Perm o2)
    (hnd : (o1.map (·.src)).Nodup)
    (hq : ∀ q ∈ o1, q.users = 0 ∧ Ascending q.chunks ∧ WellSized q) :
    ∀ r, r ∈ (run acct strict 0 1 { p with dryRun := true } o1).reports ↔
         r ∈ (run acct strict 0 1 { p with dryRun := false } o2).reports := by
  have hnd2 : (o2.map (·.src)).Nodup := (hp.map _).nodup_iff.mp hnd
  have hq2 : ∀ q ∈ o2, q.users = 0 ∧ Ascending q.chunks ∧ WellSized q := fun q h => hq q (hp.mem_iff.mpr h)
  -- per partition, the two phase-I calls agree on what they report and on the entry for the sorted list
  have hrep : o2.filterMap (fun q => (phase1Part strict { p with dryRun := false } q).report) =
      o2.filterMap (fun q => (phase1Part strict { p with dryRun := true } q).report) := by
    apply filterMap_congr_mem
    intro q hq'
    exact ((phase1Part_dry_eq_run strict p q (hq2 q hq').1 (hq2 q hq').2.1).1).symm
  have hinf : o2.filterMap (fun q => (phase1Part strict { p with dryRun := false } q).info) =
      o2.filterMap (fun q => (phase1Part strict { p with dryRun := true } q).info) := by
    apply filterMap_congr_mem
    intro q hq'
    exact ((phase1Part_dry_eq_run strict p q (hq2 q hq').1 (hq2 q hq').2.1).2).symm
  -- the sorted list is the same for both visiting orders
  have hndI : ((o1.filterMap (fun q => (phase1Part strict { p with dryRun := true } q).info)).map (·.src)).Nodup :=
    nodup_filterMap_map _ _ (·.src) (fun x y h => p1_info_src strict _ x y h) o1 hnd
  obtain ⟨hI, _, hIperm⟩ := insert_perm_invariant _ _
    (hp.filterMap (fun q => (phase1Part strict { p with dryRun := true } q).info)) hndI
  unfold run phase2
  simp only []
  rw [phase1_eq, phase1_eq]
  simp only [hrep, hinf, ← hI]
  generalize hIdef : sortInfos (o1.filterMap (fun q => (phase1Part strict { p with dryRun := true } q).info)) = I at *
  -- the pass: dry run on the untouched partitions vs run on the reduced ones
  have hndI' : (I.map (·.src)).Nodup := (hIperm.map _).nodup_iff.mpr hndI
  have hsim := globalLoop_sim (acct := acct) strict p I (totalAfter I)
    (o1.filterMap (fun q => (phase1Part strict { p with dryRun := true } q).part))
    (o2.filterMap (fun q => (phase1Part strict { p with dryRun := false } q).part)) hndI' (by
      intro ti hti ha
      have hti' := hIperm.mem_iff.mp hti
      obtain ⟨q, hqm, hqi⟩ := List.mem_filterMap.mp hti'
      have hqf := hq q hqm
      have hqi' : (phase1Part strict { p with dryRun := false } q).info = some ti := by
        rw [← (phase1Part_dry_eq_run strict p q hqf.1 hqf.2.1).2]; exact hqi
      obtain ⟨hpart, hcd, hnz⟩ := p1_linked strict { p with dryRun := false } rfl q ti hqf.2.1 hqi' ha
      have hsrc := p1_info_src strict _ q ti hqi
      refine ⟨q, ?_, ?_, hqf.1, hqf.2.1, ?_, hcd⟩
      · rw [hsrc]
        exact dbFind_filterMap _ (fun x y h => p1_part_src strict _ x y h) o1 hnd q hqm q
          (phase1Part_dry strict _ rfl q)
      · rw [hsrc]
        exact dbFind_filterMap _ (fun x y h => p1_part_src strict _ x y h) o2 hnd2 q (hp.mem_iff.mp hqm) _ hpart
      · rcases hqf.2.2 with h0 | hall
        · exact absurd h0 hnz
        · exact hall)
  intro r
  simp only [List.mem_append, hsim]
  have hmemrep : r ∈ o1.filterMap (fun q => (phase1Part strict { p with dryRun := true } q).report) ↔
      r ∈ o2.filterMap (fun q => (phase1Part strict { p with dryRun := true } q).report) :=
    (hp.filterMap _).mem_iff
  rw [hmemrep]

end Logrange.Truncate

namespace Logrange.Truncate
variable {acct : Bool}

/-! ### the MAXDBSIZE pass takes the front of the sorted list and stops as soon as the total fits -/

/-- how many entries of `sortedInfos` the loop of `truncateGlobally` visits: it goes on while the running total
exceeds MAXDBSIZE; every visited entry leaves with `after = 0`, so the total shrinks by its `after` -/
def passLen (maxDB : Nat) : List Info → Nat → Nat
  | [], _ => 0
  | ti :: rest, ts => if maxDB < ts then passLen maxDB rest (sub64 ts ti.after) + 1 else 0

theorem globalLoop_dry_front (strict : Bool) (gMin gMax : Nat) (p : Params) (hd : p.dryRun = true) (db : List Part) :
    ∀ (I : List Info) (ts : Nat), (∀ ti ∈ I, 0 < ti.after → (dbFind db ti.src).isSome = true) →
      (∀ x ∈ (globalLoop acct strict gMin gMax p I ts db).1.take (passLen p.maxDB I ts), x.after = 0) ∧
      (globalLoop acct strict gMin gMax p I ts db).1.drop (passLen p.maxDB I ts) = I.drop (passLen p.maxDB I ts) := by
  intro I
  induction I with
  | nil => intro ts _; simp [globalLoop, passLen]
  | cons ti rest ih =>
    intro ts hfound
    have hfound' : ∀ tj ∈ rest, 0 < tj.after → (dbFind db tj.src).isSome = true :=
      fun tj h => hfound tj (List.mem_cons_of_mem _ h)
    unfold globalLoop passLen
    by_cases h1 : p.maxDB < ts
    · simp only [h1, if_true]
      by_cases h2 : 0 < ti.after
      · have hf := hfound ti (by simp) h2
        cases hfind : dbFind db ti.src with
        | none => simp [hfind] at hf
        | some part =>
          simp only [h2, if_true, hd, Bool.true_or]
          obtain ⟨a, b⟩ := ih (sub64 ts ti.after) hfound'
          refine ⟨?_, ?_⟩
          · intro x hx
            simp only [List.take_succ_cons, List.mem_cons] at hx
            rcases hx with rfl | hx
            · simp [takenInfo]
            · exact a x hx
          · simpa using b
      · have h0 : ti.after = 0 := by omega
        simp only [h2, if_false]
        have e : sub64 ts ti.after = ts := by rw [h0, sub64_of_le (Nat.zero_le _)]; rfl
        rw [e]
        obtain ⟨a, b⟩ := ih ts hfound'
        refine ⟨?_, ?_⟩
        · intro x hx
          simp only [List.take_succ_cons, List.mem_cons] at hx
          rcases hx with rfl | hx
          · exact h0
          · exact a x hx
        · simpa using b
    · simp [h1]

end Logrange.Truncate
