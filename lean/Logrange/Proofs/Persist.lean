import Logrange.Model.RestartModel
/-! Lemmas for C07 (`Logrange/Props/C07.lean`). -/
namespace Logrange.Persist
open Logrange.Generated.C07

@[simp] theorem Files.set_same (f : Files) (p : Path) (v : Option Bytes) : (f.set p v) p = v := by
  simp [Files.set]

theorem Files.set_other (f : Files) (p q : Path) (v : Option Bytes) (h : q ≠ p) : (f.set p v) q = f q := by
  simp [Files.set, h]

theorem runSteps_nil (f : Files) : runSteps f [] = f := rfl
theorem runSteps_cons (f : Files) (s : Step) (r : List Step) : runSteps f (s :: r) = runSteps (applyStep f s) r := rfl
theorem runSteps_append (f : Files) (a b : List Step) : runSteps f (a ++ b) = runSteps (runSteps f a) b := by
  simp [runSteps, List.foldl_append]

/-- `ioutil.WriteFile` replaces the content -/
theorem runSteps_writeFile (f : Files) (p : Path) (d : Bytes) : runSteps f (writeFile p d) = f.set p (some d) := by
  funext q
  simp only [writeFile, runSteps, List.foldl, applyStep]
  by_cases h : q = p
  · subst h; simp [Files.set]
  · simp [Files.set, h]

theorem writeFile_at (f : Files) (p q : Path) (d : Bytes) :
    runSteps f (writeFile p d) q = if q = p then some d else f q := by
  rw [runSteps_writeFile]; simp [Files.set]

/-- a step only changes the paths it names -/
def Step.touches : Step → Path → Prop
  | .rename a b, q => q = a ∨ q = b
  | .truncate p, q => q = p
  | .append p _, q => q = p
  | .remove p, q => q = p
  | .link _ b, q => q = b

theorem applyStep_frame (f : Files) (s : Step) (q : Path) (h : ¬ s.touches q) : applyStep f s q = f q := by
  cases s with
  | rename a b =>
    simp only [Step.touches, not_or] at h
    simp only [applyStep]
    cases f a with
    | none => rfl
    | some v => simp [Files.set, h.1, h.2]
  | truncate p => simp only [Step.touches] at h; simp [applyStep, Files.set, h]
  | append p bs => simp only [Step.touches] at h; simp [applyStep, Files.set, h]
  | remove p => simp only [Step.touches] at h; simp [applyStep, Files.set, h]
  | link a b =>
    simp only [Step.touches] at h
    simp only [applyStep]
    cases f a <;> cases f b <;> simp [Files.set, h]

theorem runSteps_frame (steps : List Step) (f : Files) (q : Path) (h : ∀ s ∈ steps, ¬ s.touches q) :
    runSteps f steps q = f q := by
  induction steps generalizing f with
  | nil => rfl
  | cons s r ih =>
    rw [runSteps_cons, ih _ (fun s' hs' => h s' (List.mem_cons_of_mem _ hs'))]
    exact applyStep_frame f s q (h s (List.mem_cons_self ..))

/-- the tag-index save touches only the three files of the tindex directory, whatever the generated call list is -/
def tindexPath : Path → Prop
  | .tindexDat => True
  | .tindexBak => True
  | .tindexTmp => True
  | _ => False

theorem tindexCallSteps_touch (ex : Bool) (data : Bytes) (c : FsCall) (q : Path) (hq : ¬ tindexPath q) :
    ∀ s ∈ tindexCallSteps ex data c, ¬ s.touches q := by
  intro s hs
  have h1 : q ≠ .tindexDat := by intro h; subst h; simp [tindexPath] at hq
  have h2 : q ≠ .tindexBak := by intro h; subst h; simp [tindexPath] at hq
  have h3 : q ≠ .tindexTmp := by intro h; subst h; simp [tindexPath] at hq
  cases c <;> cases ex <;> simp only [tindexCallSteps, writeFile, if_true, if_false, Bool.false_eq_true,
      List.mem_cons, List.mem_nil_iff, List.not_mem_nil, or_false] at hs <;>
    first
      | exact hs.elim
      | (rcases hs with hs | hs <;> subst hs <;> simp [Step.touches, h1, h2, h3])
      | (subst hs; simp [Step.touches, h1, h2, h3])

theorem tindexSave_frame (calls : List FsCall) (ex : Bool) (data : Bytes) (f : Files) (q : Path) (hq : ¬ tindexPath q) :
    runSteps f (tindexSaveStepsOf calls ex data) q = f q := by
  apply runSteps_frame
  intro s hs
  simp only [tindexSaveStepsOf, List.mem_flatMap] at hs
  obtain ⟨c, _, hc⟩ := hs
  exact tindexCallSteps_touch ex data c q hq s hc

theorem map_cfg_poss (l : List PPipe) (g : Bytes → PosMap) (h : ∀ p ∈ l, g p.cfg.name = p.poss) :
    (l.map (·.cfg)).map (fun p => (⟨p, g p.name⟩ : PPipe)) = l := by
  induction l with
  | nil => rfl
  | cons a r ih =>
    simp only [List.map_cons, List.cons.injEq]
    refine ⟨?_, ih (fun p hp => h p (List.mem_cons_of_mem _ hp))⟩
    have := h a (List.mem_cons_self ..)
    cases a; simp_all

/-! ## the registry file -/

theorem pipesDat_ne_tmp : pipesDat ≠ pipesTmp := by decide

theorem savePipesSteps_eq (c : Codec (List Pipe)) (ps : List Pipe) :
    savePipesSteps c ps = [.truncate pipesTmp, .append pipesTmp (c.enc ps), .rename pipesTmp pipesDat] := by
  have : savePipesViaTmpRename = true := by decide
  simp [savePipesSteps, this, writeFile]

/-- the registry file after a completed `savePipes` -/
theorem savePipes_at (c : Codec (List Pipe)) (ps : List Pipe) (f : Files) (q : Path) :
    runSteps f (savePipesSteps c ps) q = if q = pipesDat then some (c.enc ps) else if q = pipesTmp then none else f q := by
  rw [savePipesSteps_eq]
  have hne := pipesDat_ne_tmp
  by_cases h1 : q = pipesDat
  · subst h1; simp [runSteps, applyStep, Files.set, hne]
  · by_cases h2 : q = pipesTmp
    · subst h2; simp [runSteps, applyStep, Files.set, h1]
    · simp [runSteps, applyStep, Files.set, h1, h2]

/-! ## lightFill hulls of monotone chunks -/

theorem head_le_of_pairwise : ∀ (l : List Int) (a : Int), l.Pairwise (· ≤ ·) → l.head? = some a → ∀ t ∈ l, a ≤ t
  | [], _, _, h, _, _ => by simp at h
  | x :: r, a, hp, h, t, ht => by
    simp at h; subst h
    rcases List.mem_cons.mp ht with e | e
    · subst e; exact Int.le_refl _
    · exact (List.pairwise_cons.mp hp).1 t e

theorem le_last_of_pairwise : ∀ (l : List Int) (b : Int), l.Pairwise (· ≤ ·) → l.getLast? = some b → ∀ t ∈ l, t ≤ b
  | [], _, _, h, _, _ => by simp at h
  | [x], b, _, h, t, ht => by simp at h ht; subst h; subst ht; exact Int.le_refl _
  | x :: y :: r, b, hp, h, t, ht => by
    have h' : (y :: r).getLast? = some b := by simpa [List.getLast?_cons_cons] using h
    have hp' := (List.pairwise_cons.mp hp)
    rcases List.mem_cons.mp ht with e | e
    · subst e
      have hy : y ≤ b := le_last_of_pairwise (y :: r) b hp'.2 h' y (List.mem_cons_self ..)
      exact Int.le_trans (hp'.1 y (List.mem_cons_self ..)) hy
    · exact le_last_of_pairwise (y :: r) b hp'.2 h' t e

end Logrange.Persist
