/-!
# Fixed-width integer facts used by the equivalence theorems of translated functions (`Props/TR*.lean`)
-/
namespace Logrange.Proofs.TrSized

/-- Go's `c - 1` on `uint32`, in the form the hand models write it -/
theorem u32_sub_one (c : UInt32) : (c - 1).toNat = (c.toNat + 4294967296 - 1) % 4294967296 := by
  have h := UInt32.toNat_sub c 1
  have h1 : (1 : UInt32).toNat = 1 := rfl
  rw [h1] at h
  have hc := c.toNat_lt
  have e : (2:Nat) ^ 32 = 4294967296 := by decide
  rw [e] at h hc
  rw [h]
  congr 1
  omega

end Logrange.Proofs.TrSized
