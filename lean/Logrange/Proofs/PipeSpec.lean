import Logrange.Proofs.PipeLts
/-!
# The pipe specification with the "start" hypothesis discharged by a ghost monitor (C10)

`Mon` runs alongside the pipe LTS (the model is not changed). Per source it records whether the schedule so far
was *clean* for the source — every notification since the pipe's creation processed in write order, none in flight at
the creation, none lost to a stale cache, every stop quiescent for the source — and where the next in-order
notification must start. `spec_of_clean`: at a quiescent state of a running service the pipe partition of a clean
source is exactly the specification (`specProj`), with no hypothesis about the final descriptor.
-/
namespace Logrange.PipeLts

/-! ### total length of the queued notifications of a source -/

def wlen (s : Nat) (we : WE) : Nat := if we.src = s then we.endPos - we.startPos else 0

def wsum (s : Nat) : List WE → Nat
  | [] => 0
  | we :: l => wlen s we + wsum s l

/-- no notification of source `s` in the list -/
def noneOf (s : Nat) (l : List WE) : Bool := l.all (fun we => we.src != s)

theorem wsum_append (s : Nat) (a b : List WE) : wsum s (a ++ b) = wsum s a + wsum s b := by
  induction a with
  | nil => simp [wsum]
  | cons x xs ih => simp only [List.cons_append, wsum, ih]; omega

theorem wsum_eraseIdx (s : Nat) (l : List WE) (i : Nat) (we : WE) (h : l[i]? = some we) :
    wsum s (l.eraseIdx i) + wlen s we = wsum s l := by
  induction l generalizing i with
  | nil => simp at h
  | cons x xs ih =>
    cases i with
    | zero =>
      simp only [List.getElem?_cons_zero, Option.some.injEq] at h; subst h
      simp only [List.eraseIdx_zero, List.tail_cons, wsum]; omega
    | succ j =>
      simp only [List.getElem?_cons_succ] at h
      have := ih j h
      simp only [List.eraseIdx_cons_succ, wsum]; omega

theorem wsum_noneOf (s : Nat) (l : List WE) (h : noneOf s l = true) : wsum s l = 0 := by
  induction l with
  | nil => rfl
  | cons x xs ih =>
    simp only [noneOf, List.all_cons, Bool.and_eq_true, bne_iff_ne, ne_eq] at h
    have h2 : noneOf s xs = true := h.2
    simp [wsum, wlen, h.1, ih h2]

/-! ### the monitor -/

structure Mon where
  /-- so far every notification of the source since the creation was processed in write order, none was in flight
  at the creation, none was lost, every stop was quiescent for it -/
  clean : Nat → Bool
  /-- end of the last in-order processed notification (`createdAt` before the first) -/
  nextExp : Nat → Nat

def mon0 : Mon := { clean := fun _ => false, nextExp := fun _ => 0 }

/-- a stop is quiescent for the descriptor: nothing behind `LastKnwnPos` -/
def haltOk (σ : SrcSt) : Bool := match σ.desc with
  | some d => !(decide (d.pos < d.lastKnown))
  | none => true

/-- the notificator takes `we` off the channel -/
def monNotify (st : State) (m : Mon) (we : WE) : Mon :=
  if st.pipe == .live && (st.srcs we.src).listens then
    if (pipesForSource st we.src).1 && we.startPos == m.nextExp we.src then
      { m with nextExp := upd m.nextExp we.src we.endPos }
    else { m with clean := upd m.clean we.src false }
  else m

/-- the monitor's move for a step `l` enabled in `st` -/
def monStep (st : State) (l : Label) (m : Mon) : Mon :=
  match l with
  | .create =>
    { clean := fun s => noneOf s (st.chan ++ st.pend), nextExp := fun s => (st.srcs s).log.length }
  | .notify =>
    match st.chan with
    | [] => m
    | we :: _ => monNotify st m we
  | .halt =>
    { m with clean := fun s => m.clean s && noneOf s (st.chan ++ st.pend) && haltOk (st.srcs s) }
  | _ => m

/-- the LTS and the monitor side by side (disabled labels are skipped, as in `run`) -/
def runM (cfg : Cfg) : State × Mon → List Label → State × Mon
  | x, [] => x
  | x, l :: ls => match step cfg x.1 l with
    | some st' => runM cfg (st', monStep x.1 l x.2) ls
    | none => runM cfg x ls

theorem runM_fst (cfg : Cfg) (x : State × Mon) (ls : List Label) : (runM cfg x ls).1 = run cfg x.1 ls := by
  induction ls generalizing x with
  | nil => rfl
  | cons l ls ih =>
    simp only [runM, run]
    cases step cfg x.1 l with
    | none => exact ih x
    | some st' => exact ih _

/-! ### the registry follows the pipe; an absent pipe has no descriptor -/

def PInv (st : State) : Prop :=
  st.reg = (st.pipe == .live) ∧
  (st.pipe = .absent → (∀ s, st.cache s ≠ some true) ∧ ∀ s, (st.srcs s).desc = none)

theorem pinv_init (n : Nat) (l : Nat → Bool) (p : Nat → Bytes) (f : Ev → Bool) (o : Bool) : PInv (init n l p f o) := by
  refine ⟨rfl, fun _ => ⟨?_, ?_⟩⟩
  · intro s; simp [init]
  · intro s; simp [init]

theorem pfs_absent (st : State) (s : Nat) (hp : st.pipe = .absent) (hc : ∀ s, st.cache s ≠ some true) :
    (pipesForSource st s).1 = false ∧ ∀ s', (pipesForSource st s).2 s' ≠ some true := by
  unfold pipesForSource
  split
  · exact ⟨rfl, hc⟩
  · split
    · rename_i b hb
      refine ⟨?_, hc⟩
      cases b with
      | true => exact absurd hb (hc s)
      | false => rfl
    · refine ⟨by simp [hp], ?_⟩
      intro s'
      by_cases e : s' = s
      · subst e; simp [hp]
      · simp only [upd_ne _ _ _ _ e]; exact hc s'

theorem desc_upd_none (f : Nat → SrcSt) (s : Nat) (σ' : SrcSt) (s' : Nat) (h : (f s').desc = none)
    (hd : σ'.desc = (f s).desc) : (upd f s σ' s').desc = none := by
  by_cases e : s' = s
  · subst e; simp [hd, h]
  · rw [upd_ne _ _ _ _ e]; exact h

theorem pinv_frame (st st' : State) (h : PInv st) (e1 : st'.reg = st.reg) (e2 : st'.pipe = st.pipe)
    (e3 : st.pipe = .absent → ∀ s, st'.cache s ≠ some true)
    (e4 : st.pipe = .absent → ∀ s, (st'.srcs s).desc = none) : PInv st' := by
  refine ⟨by rw [e1, e2]; exact h.1, ?_⟩
  intro hp; rw [e2] at hp
  exact ⟨e3 hp, e4 hp⟩

theorem restart_pipe (cfg : Cfg) (st st' : State) (h : PInv st) (hs : step cfg st .restart = some st') :
    st'.pipe = st.pipe := by
  simp only [step] at hs
  split at hs
  · simp only [Option.some.injEq] at hs; subst hs
    dsimp only; rw [h.1]
    cases hp : st.pipe <;> simp
  · cases hs

theorem step_pinv (cfg : Cfg) (hC : cfg.saveOnCreate = true) (hD : cfg.saveOnDelete = true)
    (st st' : State) (l : Label) (hg : GInv cfg st) (h : PInv st)
    (hs : step cfg st l = some st') : PInv st' := by
  have hcache := fun hp => (h.2 hp).1
  have hdesc := fun hp => (h.2 hp).2
  cases l with
  | write s b =>
    simp only [step] at hs
    split at hs
    · cases hs
    · simp only [Option.some.injEq] at hs; subst hs
      refine pinv_frame st _ h rfl rfl hcache ?_
      intro hp s'; exact desc_upd_none _ _ _ _ (hdesc hp s') rfl
  | enqueue i =>
    simp only [step] at hs
    split at hs
    · cases hs
    · split at hs
      · cases hs
      · simp only [Option.some.injEq] at hs; subst hs
        exact pinv_frame st _ h rfl rfl hcache hdesc
  | notify =>
    simp only [step] at hs
    split at hs
    · cases hs
    · split at hs
      · cases hs
      · rename_i we rest hch
        split at hs
        · rename_i hhit
          simp only [Option.some.injEq] at hs; subst hs
          refine pinv_frame st _ h rfl rfl ?_ ?_
          · intro hp; exact (pfs_absent st we.src hp (hcache hp)).2
          · intro hp; have := (pfs_absent st we.src hp (hcache hp)).1
            rw [this] at hhit; cases hhit
        · simp only [Option.some.injEq] at hs; subst hs
          refine pinv_frame st _ h rfl rfl ?_ hdesc
          intro hp; exact (pfs_absent st we.src hp (hcache hp)).2
  | wopen s =>
    simp only [step] at hs
    split at hs
    · simp only [Option.some.injEq] at hs; subst hs
      refine pinv_frame st _ h rfl rfl hcache ?_
      intro hp s'; exact desc_upd_none _ _ _ _ (hdesc hp s') rfl
    · cases hs
  | wcopy s k =>
    simp only [step] at hs
    split at hs
    · split at hs
      · cases hs
      · simp only [Option.some.injEq] at hs; subst hs
        refine pinv_frame st _ h rfl rfl hcache ?_
        intro hp s'; exact desc_upd_none _ _ _ _ (hdesc hp s') rfl
    · cases hs
  | wsave s =>
    simp only [step] at hs
    split at hs
    · rename_i c d hwk hd
      simp only [Option.some.injEq] at hs; subst hs
      refine pinv_frame st _ h rfl rfl hcache ?_
      intro hp; have := hdesc hp s; rw [hd] at this; cases this
    · cases hs
  | wtimeout s =>
    simp only [step] at hs
    split at hs
    · simp only [Option.some.injEq] at hs; subst hs
      refine pinv_frame st _ h rfl rfl hcache ?_
      intro hp s'; exact desc_upd_none _ _ _ _ (hdesc hp s') rfl
    · simp only [Option.some.injEq] at hs; subst hs
      refine pinv_frame st _ h rfl rfl hcache ?_
      intro hp s'; exact desc_upd_none _ _ _ _ (hdesc hp s') rfl
    · cases hs
  | wdone s =>
    simp only [step] at hs
    split at hs
    · rename_i d hwk hd
      simp only [Option.some.injEq] at hs; subst hs
      refine pinv_frame st _ h rfl rfl hcache ?_
      intro hp; have := hdesc hp s; rw [hd] at this; cases this
    · cases hs
  | create =>
    simp only [step] at hs
    split at hs
    · cases hs
    · simp only [Option.some.injEq] at hs; subst hs
      refine ⟨by simp, ?_⟩
      intro hp; cases hp
  | delete =>
    simp only [step] at hs
    split at hs
    · cases hs
    · simp only [Option.some.injEq] at hs; subst hs
      refine ⟨by simp, ?_⟩
      intro hp; cases hp
  | shutdown =>
    simp only [step] at hs
    split at hs
    · cases hs
    · simp only [Option.some.injEq] at hs; subst hs
      exact pinv_frame st _ h rfl rfl hcache hdesc
  | halt =>
    simp only [step] at hs
    split at hs
    · simp only [Option.some.injEq] at hs; subst hs
      refine pinv_frame st _ h ?_ rfl hcache hdesc
      dsimp only; split
      · exact h.1.symm ▸ rfl
      · rfl
    · cases hs
  | restart =>
    have hpipe := restart_pipe cfg st st' h hs
    simp only [step] at hs
    split at hs
    · simp only [Option.some.injEq] at hs; subst hs
      refine pinv_frame st _ h rfl hpipe ?_ ?_
      · intro _ s; simp
      · intro hp s
        have := ((hg.1 s).1 (hdesc hp s)).2.2
        simp [this]
    · cases hs

/-! ### what a clean schedule guarantees about a source -/

/-- the descriptor of a clean source (`ca` = the source's `createdAt`, `ne` = the monitor's `nextExp`) -/
structure DV (ca ne : Nat) (down : Bool) (d : Desc) : Prop where
  start : d.start = ca
  lk : d.lastKnown ≤ ne
  dis : d.lastKnown = ne ∨ ne ≤ d.pos
  stale : d.stale = false
  dn : down = true → ne ≤ d.pos

/-- a clean source: `w` is the total length of its notifications in flight -/
structure VInv (σ : SrcSt) (ne w : Nat) (down : Bool) : Prop where
  v0 : σ.createdAt ≤ ne
  v1 : ne + w = σ.log.length
  v2 : σ.desc = none → ne = σ.createdAt
  v3 : ∀ d, σ.desc = some d → DV σ.createdAt ne down d
  v4 : ∀ sv, σ.saved = some sv → sv.lastKnown ≤ ne

def MInv (st : State) (m : Mon) : Prop :=
  ∀ s, m.clean s = true → st.pipe = .live → (st.srcs s).listens = true →
    VInv (st.srcs s) (m.nextExp s) (wsum s (st.chan ++ st.pend)) st.down

theorem minv_init (n : Nat) (l : Nat → Bool) (p : Nat → Bytes) (f : Ev → Bool) (o : Bool) : MInv (init n l p f o) mon0 := by
  intro s hc; simp [mon0] at hc

theorem vinv_congr (σ σ' : SrcSt) (ne w : Nat) (dn : Bool) (h1 : σ'.createdAt = σ.createdAt) (h2 : σ'.log = σ.log)
    (h3 : σ'.desc = σ.desc) (h4 : σ'.saved = σ.saved) (h : VInv σ ne w dn) : VInv σ' ne w dn := by
  obtain ⟨a0, a1, a2, a3, a4⟩ := h
  refine ⟨?_, ?_, ?_, ?_, ?_⟩
  · rw [h1]; exact a0
  · rw [h2]; exact a1
  · rw [h1, h3]; exact a2
  · rw [h1, h3]; exact a3
  · rw [h4]; exact a4

theorem vinv_startWorker (closed : Bool) (σ : SrcSt) (d : Desc) (ne w : Nat) (dn : Bool)
    (h0 : σ.createdAt ≤ ne) (h1 : ne + w = σ.log.length) (h3 : DV σ.createdAt ne dn d)
    (h4 : ∀ sv, σ.saved = some sv → sv.lastKnown ≤ ne) : VInv (startWorker closed σ d) ne w dn := by
  unfold startWorker
  split
  · refine ⟨h0, h1, ?_, ?_, h4⟩
    · intro hd; simp at hd
    · intro d' hd'
      simp only [Option.some.injEq] at hd'; subst hd'
      exact ⟨h3.start, h3.lk, h3.dis, rfl, h3.dn⟩
  · refine ⟨h0, h1, ?_, ?_, h4⟩
    · intro hd; simp at hd
    · intro d' hd'
      simp only [Option.some.injEq] at hd'; subst hd'
      exact h3

theorem startWorker_listens (closed : Bool) (σ : SrcSt) (d : Desc) : (startWorker closed σ d).listens = σ.listens := by
  unfold startWorker; split <;> rfl

theorem onWriteEvent_listens (closed : Bool) (σ : SrcSt) (we : WE) : (onWriteEvent closed σ we).listens = σ.listens := by
  unfold onWriteEvent; split <;> exact startWorker_listens _ _ _

/-- the in-order notification: it starts where the previous one ended -/
theorem vinv_onWriteEvent (closed : Bool) (σ : SrcSt) (we : WE) (w' : Nat)
    (h : VInv σ we.startPos ((we.endPos - we.startPos) + w') false) (hle : we.startPos ≤ we.endPos) :
    VInv (onWriteEvent closed σ we) we.endPos w' false := by
  obtain ⟨a0, a1, a2, a3, a4⟩ := h
  unfold onWriteEvent
  cases hd : σ.desc with
  | none =>
    refine vinv_startWorker _ _ _ _ _ _ (by omega) (by omega) ?_ ?_
    · exact ⟨a2 hd, Nat.le_refl _, Or.inl rfl, rfl, by intro x; cases x⟩
    · intro sv hsv; have := a4 sv hsv; omega
  | some d =>
    have hD := a3 d hd
    refine vinv_startWorker _ _ _ _ _ _ (by omega) (by omega) ?_ ?_
    · exact ⟨hD.start, Nat.le_refl _, Or.inl rfl, hD.stale, by intro x; cases x⟩
    · intro sv hsv; have := a4 sv hsv; omega

/-- a step that changes one source and nothing else the monitor looks at -/
theorem minv_upd (st st' : State) (m : Mon) (s : Nat) (σ' : SrcSt) (h : MInv st m)
    (e1 : st'.srcs = upd st.srcs s σ') (e2 : st'.chan = st.chan) (e3 : st'.pend = st.pend) (e4 : st'.pipe = st.pipe)
    (e5 : st'.down = st.down) (hli : σ'.listens = (st.srcs s).listens)
    (hv : ∀ w, VInv (st.srcs s) (m.nextExp s) w st.down → VInv σ' (m.nextExp s) w st.down) : MInv st' m := by
  intro s' hc hl hls
  rw [e1, e2, e3, e5]
  rw [e4] at hl
  rw [e1] at hls
  by_cases e : s' = s
  · subst e
    simp only [upd_self] at hls ⊢
    rw [hli] at hls
    exact hv _ (h s' hc hl hls)
  · rw [upd_ne _ _ _ _ e] at hls ⊢
    exact h s' hc hl hls

theorem minv_write (cfg : Cfg) (st st' : State) (s : Nat) (batch : List Ev) (m : Mon) (h : MInv st m)
    (hs : step cfg st (.write s batch) = some st') : MInv st' m := by
  simp only [step] at hs
  split at hs
  · cases hs
  · simp only [Option.some.injEq] at hs; subst hs
    intro s' hc hl hls
    dsimp only at hl hls ⊢
    have hw : wsum s' (st.chan ++ (if batch.isEmpty then st.pend else
        st.pend ++ [⟨s, (st.srcs s).log.length, (st.srcs s).log.length + batch.length⟩])) =
        wsum s' (st.chan ++ st.pend) + (if s = s' then batch.length else 0) := by
      cases batch with
      | nil => simp
      | cons b bs =>
        simp only [List.isEmpty_cons, Bool.false_eq_true, if_false, wsum_append, wsum, wlen]
        split <;> omega
    rw [hw]
    by_cases e : s' = s
    · subst e
      simp only [upd_self, if_true] at hls ⊢
      obtain ⟨a0, a1, a2, a3, a4⟩ := h s' hc hl hls
      exact ⟨a0, by simp only [List.length_append]; omega, a2, a3, a4⟩
    · rw [upd_ne _ _ _ _ e] at hls ⊢
      simp only [Ne.symm e, if_false, Nat.add_zero]
      exact h s' hc hl hls

theorem minv_enqueue (cfg : Cfg) (st st' : State) (i : Nat) (m : Mon) (h : MInv st m)
    (hs : step cfg st (.enqueue i) = some st') : MInv st' m := by
  simp only [step] at hs
  split at hs
  · cases hs
  · rename_i we hwe
    split at hs
    · cases hs
    · simp only [Option.some.injEq] at hs; subst hs
      intro s hc hl hls
      dsimp only at hl hls ⊢
      have hw : wsum s (st.chan ++ [we] ++ st.pend.eraseIdx i) = wsum s (st.chan ++ st.pend) := by
        have := wsum_eraseIdx s st.pend i we hwe
        simp only [wsum_append, wsum]; omega
      rw [hw]
      exact h s hc hl hls

theorem minv_notify (cfg : Cfg) (st st' : State) (m : Mon) (hg : GInv cfg st) (h : MInv st m)
    (hs : step cfg st .notify = some st') : MInv st' (monStep st .notify m) := by
  simp only [step] at hs
  split at hs
  · cases hs
  · rename_i hgd
    simp only [Bool.or_eq_true, not_or, Bool.not_eq_true] at hgd
    split at hs
    · cases hs
    · rename_i we rest hch
      have hm : monStep st .notify m = monNotify st m we := by simp only [monStep, hch]
      rw [hm]
      have hweI : WEInv st we := hg.2.1 we (by simp [hch])
      have hsum : ∀ s, wsum s (st.chan ++ st.pend) = wlen s we + wsum s (rest ++ st.pend) := by
        intro s; simp only [hch, List.cons_append, wsum]
      have hother : ∀ s, s ≠ we.src →
          (monNotify st m we).clean s = m.clean s ∧ (monNotify st m we).nextExp s = m.nextExp s := by
        intro s e; unfold monNotify; split
        · split
          · exact ⟨rfl, upd_ne _ _ _ _ e⟩
          · exact ⟨upd_ne _ _ _ _ e, rfl⟩
        · exact ⟨rfl, rfl⟩
      have hrest : ∀ s, s ≠ we.src → m.clean s = true → st.pipe = .live → (st.srcs s).listens = true →
          VInv (st.srcs s) (m.nextExp s) (wsum s (rest ++ st.pend)) st.down := by
        intro s e hc hl hls
        have hv := h s hc hl hls
        rw [hsum] at hv
        simpa [wlen, Ne.symm e] using hv
      split at hs
      · rename_i hhit
        simp only [Option.some.injEq] at hs; subst hs
        intro s hc hl hls
        dsimp only at hl hls ⊢
        by_cases e : s = we.src
        · subst e
          simp only [upd_self] at hls ⊢
          rw [onWriteEvent_listens] at hls
          by_cases hio : we.startPos = m.nextExp we.src
          · have hmm : monNotify st m we = { m with nextExp := upd m.nextExp we.src we.endPos } := by
              simp [monNotify, hl, hls, hhit, hio]
            rw [hmm] at hc ⊢
            dsimp only at hc ⊢
            simp only [upd_self]
            have hv := h we.src hc hl hls
            rw [hsum, hgd.1] at hv
            simp only [wlen, if_true] at hv
            rw [← hio] at hv
            rw [hgd.1]
            exact vinv_onWriteEvent _ _ _ _ hv hweI.2.1
          · have hmm : (monNotify st m we).clean we.src = false := by
              simp [monNotify, hl, hls, hhit, hio]
            rw [hmm] at hc; cases hc
        · obtain ⟨o1, o2⟩ := hother s e
          rw [o1] at hc; rw [o2]
          rw [upd_ne _ _ _ _ e] at hls ⊢
          exact hrest s e hc hl hls
      · rename_i hhit
        simp only [Option.some.injEq] at hs; subst hs
        intro s hc hl hls
        dsimp only at hl hls ⊢
        by_cases e : s = we.src
        · subst e
          have hmm : (monNotify st m we).clean we.src = false := by
            simp [monNotify, hl, hls, hhit]
          rw [hmm] at hc; cases hc
        · obtain ⟨o1, o2⟩ := hother s e
          rw [o1] at hc; rw [o2]
          exact hrest s e hc hl hls

end Logrange.PipeLts
