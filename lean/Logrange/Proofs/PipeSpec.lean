import Logrange.Proofs.PipeLts
/-!
# The pipe specification with the "start" hypothesis discharged by a ghost monitor (C10)

`Mon` runs alongside the pipe LTS (the model is not changed). Per source it records whether the schedule so far
was *clean* for the source — every notification since the pipe's creation processed in write order, none in flight at
the creation, none lost to a stale cache, every stop quiescent for the source — and where the next in-order
notification must start. `spec_of_clean`: at a quiescent state of a running service the pipe partition of a clean
source is exactly the specification (`specProj`), with no hypothesis about the final descriptor.
-/
namespace Logrange.PipeLts

/-! ### total length of the queued notifications of a source -/

def wlen (s : Nat) (we : WE) : Nat := if we.src = s then we.endPos - we.startPos else 0

def wsum (s : Nat) : List WE → Nat
  | [] => 0
  | we :: l => wlen s we + wsum s l

/-- no notification of source `s` in the list -/
def noneOf (s : Nat) (l : List WE) : Bool := l.all (fun we => we.src != s)

theorem wsum_append (s : Nat) (a b : List WE) : wsum s (a ++ b) = wsum s a + wsum s b := by
  induction a with
  | nil => simp [wsum]
  | cons x xs ih => simp only [List.cons_append, wsum, ih]; omega

theorem wsum_eraseIdx (s : Nat) (l : List WE) (i : Nat) (we : WE) (h : l[i]? = some we) :
    wsum s (l.eraseIdx i) + wlen s we = wsum s l := by
  induction l generalizing i with
  | nil => simp at h
  | cons x xs ih =>
    cases i with
    | zero =>
      simp only [List.getElem?_cons_zero, Option.some.injEq] at h; subst h
      simp only [List.eraseIdx_zero, List.tail_cons, wsum]; omega
    | succ j =>
      simp only [List.getElem?_cons_succ] at h
      have := ih j h
      simp only [List.eraseIdx_cons_succ, wsum]; omega

theorem wsum_noneOf (s : Nat) (l : List WE) (h : noneOf s l = true) : wsum s l = 0 := by
  induction l with
  | nil => rfl
  | cons x xs ih =>
    simp only [noneOf, List.all_cons, Bool.and_eq_true, bne_iff_ne, ne_eq] at h
    have h2 : noneOf s xs = true := h.2
    simp [wsum, wlen, h.1, ih h2]

/-! ### the monitor -/

structure Mon where
  /-- so far every notification of the source since the creation was processed in write order, none was in flight
  at the creation, none was lost, every stop was quiescent for it -/
  clean : Nat → Bool
  /-- end of the last in-order processed notification (`createdAt` before the first) -/
  nextExp : Nat → Nat

def mon0 : Mon := { clean := fun _ => false, nextExp := fun _ => 0 }

/-- a stop is quiescent for the descriptor: nothing behind `LastKnwnPos` -/
def haltOk (σ : SrcSt) : Bool := match σ.desc with
  | some d => !(decide (d.pos < d.lastKnown))
  | none => true

/-- the notificator takes `we` off the channel -/
def monNotify (st : State) (m : Mon) (we : WE) : Mon :=
  if st.pipe == .live && (st.srcs we.src).listens then
    if (pipesForSource st we.src).1 && we.startPos == m.nextExp we.src then
      { m with nextExp := upd m.nextExp we.src we.endPos }
    else { m with clean := upd m.clean we.src false }
  else m

/-- the monitor's move for a step `l` enabled in `st` -/
def monStep (st : State) (l : Label) (m : Mon) : Mon :=
  match l with
  | .create =>
    { clean := fun s => noneOf s (st.chan ++ st.pend), nextExp := fun s => (st.srcs s).log.length }
  | .notify =>
    match st.chan with
    | [] => m
    | we :: _ => monNotify st m we
  | .halt =>
    { m with clean := fun s => m.clean s && noneOf s (st.chan ++ st.pend) && haltOk (st.srcs s) }
  | _ => m

/-- the LTS and the monitor side by side (disabled labels are skipped, as in `run`) -/
def runM (cfg : Cfg) : State × Mon → List Label → State × Mon
  | x, [] => x
  | x, l :: ls => match step cfg x.1 l with
    | some st' => runM cfg (st', monStep x.1 l x.2) ls
    | none => runM cfg x ls

theorem runM_fst (cfg : Cfg) (x : State × Mon) (ls : List Label) : (runM cfg x ls).1 = run cfg x.1 ls := by
  induction ls generalizing x with
  | nil => rfl
  | cons l ls ih =>
    simp only [runM, run]
    cases step cfg x.1 l with
    | none => exact ih x
    | some st' => exact ih _

/-! ### the registry follows the pipe; an absent pipe has no descriptor -/

def PInv (st : State) : Prop :=
  st.reg = (st.pipe == .live) ∧
  (st.pipe = .absent → (∀ s, st.cache s ≠ some true) ∧ ∀ s, (st.srcs s).desc = none)

theorem pinv_init (n : Nat) (l : Nat → Bool) (p : Nat → Bytes) (f : Ev → Bool) (o : Bool) : PInv (init n l p f o) := by
  refine ⟨rfl, fun _ => ⟨?_, ?_⟩⟩
  · intro s; simp [init]
  · intro s; simp [init]

theorem pfs_absent (st : State) (s : Nat) (hp : st.pipe = .absent) (hc : ∀ s, st.cache s ≠ some true) :
    (pipesForSource st s).1 = false ∧ ∀ s', (pipesForSource st s).2 s' ≠ some true := by
  unfold pipesForSource
  split
  · exact ⟨rfl, hc⟩
  · split
    · rename_i b hb
      refine ⟨?_, hc⟩
      cases b with
      | true => exact absurd hb (hc s)
      | false => rfl
    · refine ⟨by simp [hp], ?_⟩
      intro s'
      by_cases e : s' = s
      · subst e; simp [hp]
      · simp only [upd_ne _ _ _ _ e]; exact hc s'

theorem desc_upd_none (f : Nat → SrcSt) (s : Nat) (σ' : SrcSt) (s' : Nat) (h : (f s').desc = none)
    (hd : σ'.desc = (f s).desc) : (upd f s σ' s').desc = none := by
  by_cases e : s' = s
  · subst e; simp [hd, h]
  · rw [upd_ne _ _ _ _ e]; exact h

theorem pinv_frame (st st' : State) (h : PInv st) (e1 : st'.reg = st.reg) (e2 : st'.pipe = st.pipe)
    (e3 : st.pipe = .absent → ∀ s, st'.cache s ≠ some true)
    (e4 : st.pipe = .absent → ∀ s, (st'.srcs s).desc = none) : PInv st' := by
  refine ⟨by rw [e1, e2]; exact h.1, ?_⟩
  intro hp; rw [e2] at hp
  exact ⟨e3 hp, e4 hp⟩

theorem restart_pipe (cfg : Cfg) (st st' : State) (h : PInv st) (hs : step cfg st .restart = some st') :
    st'.pipe = st.pipe := by
  simp only [step] at hs
  split at hs
  · simp only [Option.some.injEq] at hs; subst hs
    dsimp only; rw [h.1]
    cases hp : st.pipe <;> simp
  · cases hs

theorem step_pinv (cfg : Cfg) (hC : cfg.saveOnCreate = true) (hD : cfg.saveOnDelete = true)
    (st st' : State) (l : Label) (hg : GInv cfg st) (h : PInv st)
    (hs : step cfg st l = some st') : PInv st' := by
  have hcache := fun hp => (h.2 hp).1
  have hdesc := fun hp => (h.2 hp).2
  cases l with
  | write s b =>
    simp only [step] at hs
    split at hs
    · cases hs
    · simp only [Option.some.injEq] at hs; subst hs
      refine pinv_frame st _ h rfl rfl hcache ?_
      intro hp s'; exact desc_upd_none _ _ _ _ (hdesc hp s') rfl
  | enqueue i =>
    simp only [step] at hs
    split at hs
    · cases hs
    · split at hs
      · cases hs
      · simp only [Option.some.injEq] at hs; subst hs
        exact pinv_frame st _ h rfl rfl hcache hdesc
  | notify =>
    simp only [step] at hs
    split at hs
    · cases hs
    · split at hs
      · cases hs
      · rename_i we rest hch
        split at hs
        · rename_i hhit
          simp only [Option.some.injEq] at hs; subst hs
          refine pinv_frame st _ h rfl rfl ?_ ?_
          · intro hp; exact (pfs_absent st we.src hp (hcache hp)).2
          · intro hp; have := (pfs_absent st we.src hp (hcache hp)).1
            rw [this] at hhit; cases hhit
        · simp only [Option.some.injEq] at hs; subst hs
          refine pinv_frame st _ h rfl rfl ?_ hdesc
          intro hp; exact (pfs_absent st we.src hp (hcache hp)).2
  | wopen s =>
    simp only [step] at hs
    split at hs
    · simp only [Option.some.injEq] at hs; subst hs
      refine pinv_frame st _ h rfl rfl hcache ?_
      intro hp s'; exact desc_upd_none _ _ _ _ (hdesc hp s') rfl
    · cases hs
  | wcopy s k =>
    simp only [step] at hs
    split at hs
    · split at hs
      · cases hs
      · simp only [Option.some.injEq] at hs; subst hs
        refine pinv_frame st _ h rfl rfl hcache ?_
        intro hp s'; exact desc_upd_none _ _ _ _ (hdesc hp s') rfl
    · cases hs
  | wsave s =>
    simp only [step] at hs
    split at hs
    · rename_i c d hwk hd
      simp only [Option.some.injEq] at hs; subst hs
      refine pinv_frame st _ h rfl rfl hcache ?_
      intro hp; have := hdesc hp s; rw [hd] at this; cases this
    · cases hs
  | wtimeout s =>
    simp only [step] at hs
    split at hs
    · simp only [Option.some.injEq] at hs; subst hs
      refine pinv_frame st _ h rfl rfl hcache ?_
      intro hp s'; exact desc_upd_none _ _ _ _ (hdesc hp s') rfl
    · simp only [Option.some.injEq] at hs; subst hs
      refine pinv_frame st _ h rfl rfl hcache ?_
      intro hp s'; exact desc_upd_none _ _ _ _ (hdesc hp s') rfl
    · cases hs
  | wdone s =>
    simp only [step] at hs
    split at hs
    · rename_i d hwk hd
      simp only [Option.some.injEq] at hs; subst hs
      refine pinv_frame st _ h rfl rfl hcache ?_
      intro hp; have := hdesc hp s; rw [hd] at this; cases this
    · cases hs
  | create =>
    simp only [step] at hs
    split at hs
    · cases hs
    · simp only [Option.some.injEq] at hs; subst hs
      refine ⟨by simp, ?_⟩
      intro hp; cases hp
  | delete =>
    simp only [step] at hs
    split at hs
    · cases hs
    · simp only [Option.some.injEq] at hs; subst hs
      refine ⟨by simp, ?_⟩
      intro hp; cases hp
  | shutdown =>
    simp only [step] at hs
    split at hs
    · cases hs
    · simp only [Option.some.injEq] at hs; subst hs
      exact pinv_frame st _ h rfl rfl hcache hdesc
  | halt =>
    simp only [step] at hs
    split at hs
    · simp only [Option.some.injEq] at hs; subst hs
      refine pinv_frame st _ h ?_ rfl hcache hdesc
      dsimp only; split
      · exact h.1.symm ▸ rfl
      · rfl
    · cases hs
  | restart =>
    have hpipe := restart_pipe cfg st st' h hs
    simp only [step] at hs
    split at hs
    · simp only [Option.some.injEq] at hs; subst hs
      refine pinv_frame st _ h rfl hpipe ?_ ?_
      · intro _ s; simp
      · intro hp s
        have := ((hg.1 s).1 (hdesc hp s)).2.2
        simp [this]
    · cases hs

/-! ### what a clean schedule guarantees about a source -/

/-- the descriptor of a clean source (`ca` = the source's `createdAt`, `ne` = the monitor's `nextExp`) -/
structure DV (ca ne : Nat) (down : Bool) (d : Desc) : Prop where
  start : d.start = ca
  lk : d.lastKnown ≤ ne
  dis : d.lastKnown = ne ∨ ne ≤ d.pos
  stale : d.stale = false
  dn : down = true → ne ≤ d.pos

/-- a clean source: `w` is the total length of its notifications in flight -/
structure VInv (σ : SrcSt) (ne w : Nat) (down : Bool) : Prop where
  v0 : σ.createdAt ≤ ne
  v1 : ne + w = σ.log.length
  v2 : σ.desc = none → ne = σ.createdAt
  v3 : ∀ d, σ.desc = some d → DV σ.createdAt ne down d
  v4 : ∀ sv, σ.saved = some sv → sv.lastKnown ≤ ne

def MInv (st : State) (m : Mon) : Prop :=
  ∀ s, m.clean s = true → st.pipe = .live → (st.srcs s).listens = true →
    VInv (st.srcs s) (m.nextExp s) (wsum s (st.chan ++ st.pend)) st.down

theorem minv_init (n : Nat) (l : Nat → Bool) (p : Nat → Bytes) (f : Ev → Bool) (o : Bool) : MInv (init n l p f o) mon0 := by
  intro s hc; simp [mon0] at hc

theorem vinv_congr (σ σ' : SrcSt) (ne w : Nat) (dn : Bool) (h1 : σ'.createdAt = σ.createdAt) (h2 : σ'.log = σ.log)
    (h3 : σ'.desc = σ.desc) (h4 : σ'.saved = σ.saved) (h : VInv σ ne w dn) : VInv σ' ne w dn := by
  obtain ⟨a0, a1, a2, a3, a4⟩ := h
  refine ⟨?_, ?_, ?_, ?_, ?_⟩
  · rw [h1]; exact a0
  · rw [h2]; exact a1
  · rw [h1, h3]; exact a2
  · rw [h1, h3]; exact a3
  · rw [h4]; exact a4

theorem vinv_startWorker (closed : Bool) (σ : SrcSt) (d : Desc) (ne w : Nat) (dn : Bool)
    (h0 : σ.createdAt ≤ ne) (h1 : ne + w = σ.log.length) (h3 : DV σ.createdAt ne dn d)
    (h4 : ∀ sv, σ.saved = some sv → sv.lastKnown ≤ ne) : VInv (startWorker closed σ d) ne w dn := by
  unfold startWorker
  split
  · refine ⟨h0, h1, ?_, ?_, h4⟩
    · intro hd; simp at hd
    · intro d' hd'
      simp only [Option.some.injEq] at hd'; subst hd'
      exact ⟨h3.start, h3.lk, h3.dis, rfl, h3.dn⟩
  · refine ⟨h0, h1, ?_, ?_, h4⟩
    · intro hd; simp at hd
    · intro d' hd'
      simp only [Option.some.injEq] at hd'; subst hd'
      exact h3

theorem startWorker_listens (closed : Bool) (σ : SrcSt) (d : Desc) : (startWorker closed σ d).listens = σ.listens := by
  unfold startWorker; split <;> rfl

theorem onWriteEvent_listens (closed : Bool) (σ : SrcSt) (we : WE) : (onWriteEvent closed σ we).listens = σ.listens := by
  unfold onWriteEvent; split <;> exact startWorker_listens _ _ _

/-- the in-order notification: it starts where the previous one ended -/
theorem vinv_onWriteEvent (closed : Bool) (σ : SrcSt) (we : WE) (w' : Nat)
    (h : VInv σ we.startPos ((we.endPos - we.startPos) + w') false) (hle : we.startPos ≤ we.endPos) :
    VInv (onWriteEvent closed σ we) we.endPos w' false := by
  obtain ⟨a0, a1, a2, a3, a4⟩ := h
  unfold onWriteEvent
  cases hd : σ.desc with
  | none =>
    refine vinv_startWorker _ _ _ _ _ _ (by omega) (by omega) ?_ ?_
    · exact ⟨a2 hd, Nat.le_refl _, Or.inl rfl, rfl, by intro x; cases x⟩
    · intro sv hsv; have := a4 sv hsv; omega
  | some d =>
    have hD := a3 d hd
    refine vinv_startWorker _ _ _ _ _ _ (by omega) (by omega) ?_ ?_
    · exact ⟨hD.start, Nat.le_refl _, Or.inl rfl, hD.stale, by intro x; cases x⟩
    · intro sv hsv; have := a4 sv hsv; omega

/-- a step that changes one source and nothing else the monitor looks at -/
theorem minv_upd (st st' : State) (m : Mon) (s : Nat) (σ' : SrcSt) (h : MInv st m)
    (e1 : st'.srcs = upd st.srcs s σ') (e2 : st'.chan = st.chan) (e3 : st'.pend = st.pend) (e4 : st'.pipe = st.pipe)
    (e5 : st'.down = st.down) (hli : σ'.listens = (st.srcs s).listens)
    (hv : ∀ w, VInv (st.srcs s) (m.nextExp s) w st.down → VInv σ' (m.nextExp s) w st.down) : MInv st' m := by
  intro s' hc hl hls
  rw [e1, e2, e3, e5]
  rw [e4] at hl
  rw [e1] at hls
  by_cases e : s' = s
  · subst e
    simp only [upd_self] at hls ⊢
    rw [hli] at hls
    exact hv _ (h s' hc hl hls)
  · rw [upd_ne _ _ _ _ e] at hls ⊢
    exact h s' hc hl hls

theorem minv_write (cfg : Cfg) (st st' : State) (s : Nat) (batch : List Ev) (m : Mon) (h : MInv st m)
    (hs : step cfg st (.write s batch) = some st') : MInv st' m := by
  simp only [step] at hs
  split at hs
  · cases hs
  · simp only [Option.some.injEq] at hs; subst hs
    intro s' hc hl hls
    dsimp only at hl hls ⊢
    have hw : wsum s' (st.chan ++ (if batch.isEmpty then st.pend else
        st.pend ++ [⟨s, (st.srcs s).log.length, (st.srcs s).log.length + batch.length⟩])) =
        wsum s' (st.chan ++ st.pend) + (if s = s' then batch.length else 0) := by
      cases batch with
      | nil => simp
      | cons b bs =>
        simp only [List.isEmpty_cons, Bool.false_eq_true, if_false, wsum_append, wsum, wlen]
        split <;> omega
    rw [hw]
    by_cases e : s' = s
    · subst e
      simp only [upd_self, if_true] at hls ⊢
      obtain ⟨a0, a1, a2, a3, a4⟩ := h s' hc hl hls
      exact ⟨a0, by simp only [List.length_append]; omega, a2, a3, a4⟩
    · rw [upd_ne _ _ _ _ e] at hls ⊢
      simp only [Ne.symm e, if_false, Nat.add_zero]
      exact h s' hc hl hls

theorem minv_enqueue (cfg : Cfg) (st st' : State) (i : Nat) (m : Mon) (h : MInv st m)
    (hs : step cfg st (.enqueue i) = some st') : MInv st' m := by
  simp only [step] at hs
  split at hs
  · cases hs
  · rename_i we hwe
    split at hs
    · cases hs
    · simp only [Option.some.injEq] at hs; subst hs
      intro s hc hl hls
      dsimp only at hl hls ⊢
      have hw : wsum s (st.chan ++ [we] ++ st.pend.eraseIdx i) = wsum s (st.chan ++ st.pend) := by
        have := wsum_eraseIdx s st.pend i we hwe
        simp only [wsum_append, wsum]; omega
      rw [hw]
      exact h s hc hl hls

theorem minv_notify (cfg : Cfg) (st st' : State) (m : Mon) (hg : GInv cfg st) (h : MInv st m)
    (hs : step cfg st .notify = some st') : MInv st' (monStep st .notify m) := by
  simp only [step] at hs
  split at hs
  · cases hs
  · rename_i hgd
    simp only [Bool.or_eq_true, not_or, Bool.not_eq_true] at hgd
    split at hs
    · cases hs
    · rename_i we rest hch
      have hm : monStep st .notify m = monNotify st m we := by simp only [monStep, hch]
      rw [hm]
      have hweI : WEInv st we := hg.2.1 we (by simp [hch])
      have hsum : ∀ s, wsum s (st.chan ++ st.pend) = wlen s we + wsum s (rest ++ st.pend) := by
        intro s; simp only [hch, List.cons_append, wsum]
      have hother : ∀ s, s ≠ we.src →
          (monNotify st m we).clean s = m.clean s ∧ (monNotify st m we).nextExp s = m.nextExp s := by
        intro s e; unfold monNotify; split
        · split
          · exact ⟨rfl, upd_ne _ _ _ _ e⟩
          · exact ⟨upd_ne _ _ _ _ e, rfl⟩
        · exact ⟨rfl, rfl⟩
      have hrest : ∀ s, s ≠ we.src → m.clean s = true → st.pipe = .live → (st.srcs s).listens = true →
          VInv (st.srcs s) (m.nextExp s) (wsum s (rest ++ st.pend)) st.down := by
        intro s e hc hl hls
        have hv := h s hc hl hls
        rw [hsum] at hv
        simpa [wlen, Ne.symm e] using hv
      split at hs
      · rename_i hhit
        simp only [Option.some.injEq] at hs; subst hs
        intro s hc hl hls
        dsimp only at hl hls ⊢
        by_cases e : s = we.src
        · subst e
          simp only [upd_self] at hls ⊢
          rw [onWriteEvent_listens] at hls
          by_cases hio : we.startPos = m.nextExp we.src
          · have hmm : monNotify st m we = { m with nextExp := upd m.nextExp we.src we.endPos } := by
              simp [monNotify, hl, hls, hhit, hio]
            rw [hmm] at hc ⊢
            dsimp only at hc ⊢
            simp only [upd_self]
            have hv := h we.src hc hl hls
            rw [hsum, hgd.1] at hv
            simp only [wlen, if_true] at hv
            rw [← hio] at hv
            rw [hgd.1]
            exact vinv_onWriteEvent _ _ _ _ hv hweI.2.1
          · have hmm : (monNotify st m we).clean we.src = false := by
              simp [monNotify, hl, hls, hhit, hio]
            rw [hmm] at hc; cases hc
        · obtain ⟨o1, o2⟩ := hother s e
          rw [o1] at hc; rw [o2]
          rw [upd_ne _ _ _ _ e] at hls ⊢
          exact hrest s e hc hl hls
      · rename_i hhit
        simp only [Option.some.injEq] at hs; subst hs
        intro s hc hl hls
        dsimp only at hl hls ⊢
        by_cases e : s = we.src
        · subst e
          have hmm : (monNotify st m we).clean we.src = false := by
            simp [monNotify, hl, hls, hhit]
          rw [hmm] at hc; cases hc
        · obtain ⟨o1, o2⟩ := hother s e
          rw [o1] at hc; rw [o2]
          exact hrest s e hc hl hls

theorem minv_wopen (cfg : Cfg) (st st' : State) (s : Nat) (m : Mon) (h : MInv st m)
    (hs : step cfg st (.wopen s) = some st') : MInv st' m := by
  simp only [step] at hs
  split at hs
  · simp only [Option.some.injEq] at hs; subst hs
    exact minv_upd st _ m s _ h rfl rfl rfl rfl rfl rfl (fun w hv => vinv_congr (st.srcs s) _ _ _ _ rfl rfl rfl rfl hv)
  · cases hs

theorem minv_wcopy (cfg : Cfg) (st st' : State) (s k : Nat) (m : Mon) (h : MInv st m)
    (hs : step cfg st (.wcopy s k) = some st') : MInv st' m := by
  simp only [step] at hs
  split at hs
  · split at hs
    · cases hs
    · simp only [Option.some.injEq] at hs; subst hs
      exact minv_upd st _ m s _ h rfl rfl rfl rfl rfl rfl (fun w hv => vinv_congr (st.srcs s) _ _ _ _ rfl rfl rfl rfl hv)
  · cases hs

theorem minv_wtimeout (cfg : Cfg) (st st' : State) (s : Nat) (m : Mon) (h : MInv st m)
    (hs : step cfg st (.wtimeout s) = some st') : MInv st' m := by
  simp only [step] at hs
  split at hs
  · simp only [Option.some.injEq] at hs; subst hs
    exact minv_upd st _ m s _ h rfl rfl rfl rfl rfl rfl (fun w hv => vinv_congr (st.srcs s) _ _ _ _ rfl rfl rfl rfl hv)
  · simp only [Option.some.injEq] at hs; subst hs
    exact minv_upd st _ m s _ h rfl rfl rfl rfl rfl rfl (fun w hv => vinv_congr (st.srcs s) _ _ _ _ rfl rfl rfl rfl hv)
  · cases hs

theorem minv_wdone (cfg : Cfg) (st st' : State) (s : Nat) (m : Mon) (h : MInv st m)
    (hs : step cfg st (.wdone s) = some st') : MInv st' m := by
  simp only [step] at hs
  split at hs
  · rename_i d hwk hd
    simp only [Option.some.injEq] at hs; subst hs
    have hD : ∀ w, VInv (st.srcs s) (m.nextExp s) w st.down →
        DV (st.srcs s).createdAt (m.nextExp s) st.down { d with charged := false } := by
      intro w hv
      have := hv.v3 d hd
      exact ⟨this.start, this.lk, this.dis, this.stale, this.dn⟩
    refine minv_upd st _ m s _ h rfl rfl rfl rfl rfl ?_ ?_
    · split
      · exact startWorker_listens _ _ _
      · rfl
    · intro w hv
      split
      · exact vinv_startWorker _ _ _ _ _ _ hv.v0 hv.v1 (hD w hv) hv.v4
      · refine ⟨hv.v0, hv.v1, ?_, ?_, hv.v4⟩
        · intro hn; simp at hn
        · intro d' hd'
          simp only [Option.some.injEq] at hd'; subst hd'
          exact hD w hv
  · cases hs

theorem minv_wsave (cfg : Cfg) (st st' : State) (s : Nat) (m : Mon) (hg : GInv cfg st) (h : MInv st m)
    (hs : step cfg st (.wsave s) = some st') : MInv st' m := by
  simp only [step] at hs
  split at hs
  · rename_i c d hwk hd
    simp only [Option.some.injEq] at hs; subst hs
    have hpc : d.pos ≤ c := by
      have := ((hg.1 s).2 d hd).2.1
      simpa [curOf, hwk] using this
    intro s' hc hl hls
    dsimp only at hl hls ⊢
    by_cases e : s' = s
    · subst e
      simp only [upd_self] at hls ⊢
      obtain ⟨a0, a1, a2, a3, a4⟩ := h s' hc hl hls
      have hD := a3 d hd
      have hD' : DV (st.srcs s').createdAt (m.nextExp s') st.down { d with pos := c } := by
        refine ⟨hD.start, hD.lk, ?_, hD.stale, ?_⟩
        · rcases hD.dis with h1 | h1
          · exact Or.inl h1
          · exact Or.inr (Nat.le_trans h1 hpc)
        · intro hdn; exact Nat.le_trans (hD.dn hdn) hpc
      refine ⟨a0, a1, ?_, ?_, ?_⟩
      · intro hn; simp at hn
      · intro d' hd'
        simp only [Option.some.injEq] at hd'; subst hd'
        exact hD'
      · intro sv hsv
        simp only [Option.some.injEq] at hsv; subst hsv
        exact hD'.lk
    · rw [upd_ne _ _ _ _ e] at hls ⊢
      obtain ⟨a0, a1, a2, a3, a4⟩ := h s' hc hl hls
      refine ⟨a0, a1, a2, a3, ?_⟩
      intro sv hsv
      exact (a3 sv hsv).lk
  · cases hs

theorem minv_create (cfg : Cfg) (st st' : State) (m : Mon) (hg : GInv cfg st) (hp : PInv st)
    (hs : step cfg st .create = some st') : MInv st' (monStep st .create m) := by
  simp only [step] at hs
  split at hs
  · cases hs
  · rename_i hgd
    simp only [Bool.or_eq_true, bne_iff_ne, ne_eq, not_or, Bool.not_eq_true, Decidable.not_not] at hgd
    simp only [Option.some.injEq] at hs; subst hs
    intro s hc hl hls
    simp only [monStep] at hc ⊢
    have hd : (st.srcs s).desc = none := (hp.2 hgd.2).2 s
    have hsv : (st.srcs s).saved = none := ((hg.1 s).1 hd).2.2
    refine ⟨Nat.le_refl _, ?_, fun _ => rfl, ?_, ?_⟩
    · rw [wsum_noneOf s _ hc]; rfl
    · intro d hd'; rw [hd] at hd'; cases hd'
    · intro sv hsv'; rw [hsv] at hsv'; cases hsv'

theorem minv_halt (cfg : Cfg) (st st' : State) (m : Mon) (h : MInv st m)
    (hs : step cfg st .halt = some st') : MInv st' (monStep st .halt m) := by
  simp only [step] at hs
  split at hs
  · simp only [Option.some.injEq] at hs; subst hs
    intro s hc hl hls
    simp only [monStep] at hc ⊢
    simp only [Bool.and_eq_true] at hc
    obtain ⟨⟨hc1, hc2⟩, hc3⟩ := hc
    obtain ⟨a0, a1, a2, a3, a4⟩ := h s hc1 hl hls
    rw [wsum_noneOf s _ hc2] at a1
    refine ⟨a0, a1, a2, ?_, a4⟩
    intro d hd
    have hD := a3 d hd
    have hge : ¬ d.pos < d.lastKnown := by
      simp only [haltOk] at hc3; rw [hd] at hc3
      simpa using hc3
    refine ⟨hD.start, hD.lk, hD.dis, hD.stale, ?_⟩
    intro _
    rcases hD.dis with h1 | h1
    · omega
    · exact h1
  · cases hs

theorem minv_restart (cfg : Cfg) (st st' : State) (m : Mon) (hg : GInv cfg st) (hp : PInv st) (h : MInv st m)
    (hs : step cfg st .restart = some st') : MInv st' m := by
  have hpipe := restart_pipe cfg st st' hp hs
  simp only [step] at hs
  split at hs
  · rename_i hdn
    simp only [Option.some.injEq] at hs; subst hs
    intro s hc hl hls
    rw [hpipe] at hl
    obtain ⟨a0, a1, a2, a3, a4⟩ := h s hc hl hls
    rw [hdn] at a3
    have hwk := hg.2.2.2 hdn s
    refine ⟨a0, a1, ?_, ?_, a4⟩
    · intro hn
      cases hd : (st.srcs s).desc with
      | none => exact a2 hd
      | some d =>
        have hD := a3 d hd
        cases hsv : (st.srcs s).saved with
        | none =>
          have hps := ((hg.1 s).2 d hd).2.2.2.2.2.2.2 hsv
          have h1 := hD.dn rfl
          have h2 := hD.start
          change (st.srcs s).createdAt ≤ m.nextExp s at a0
          change m.nextExp s = (st.srcs s).createdAt
          omega
        | some sv => simp [hsv] at hn
    · intro d' hd'
      cases hsv : (st.srcs s).saved with
      | none => simp [hsv] at hd'
      | some sv =>
        simp only [hsv, Option.map_some, Option.some.injEq] at hd'; subst hd'
        cases hd : (st.srcs s).desc with
        | none => have := ((hg.1 s).1 hd).2.2; rw [hsv] at this; cases this
        | some d =>
          have hD := a3 d hd
          obtain ⟨c1, c2⟩ := ((hg.1 s).2 d hd).2.2.2.2.2.2.1 sv hsv
          have h1 := hD.dn rfl
          have h4 := a4 sv hsv
          refine ⟨by simp only [c2]; exact hD.start, h4, Or.inr (by simp only [c1]; exact h1), ?_, by intro x; cases x⟩
          simp only [decide_eq_false_iff_not]; omega
  · cases hs

theorem step_minv (cfg : Cfg) (st st' : State) (l : Label) (m : Mon) (hg : GInv cfg st) (hp : PInv st) (h : MInv st m)
    (hs : step cfg st l = some st') : MInv st' (monStep st l m) := by
  cases l with
  | write s b => exact minv_write cfg st st' s b m h hs
  | enqueue i => exact minv_enqueue cfg st st' i m h hs
  | notify => exact minv_notify cfg st st' m hg h hs
  | wopen s => exact minv_wopen cfg st st' s m h hs
  | wcopy s k => exact minv_wcopy cfg st st' s k m h hs
  | wsave s => exact minv_wsave cfg st st' s m hg h hs
  | wtimeout s => exact minv_wtimeout cfg st st' s m h hs
  | wdone s => exact minv_wdone cfg st st' s m h hs
  | create => exact minv_create cfg st st' m hg hp hs
  | delete =>
    simp only [step] at hs
    split at hs
    · cases hs
    · simp only [Option.some.injEq] at hs; subst hs
      intro s _ hl; cases hl
  | shutdown =>
    simp only [step] at hs
    split at hs
    · cases hs
    · simp only [Option.some.injEq] at hs; subst hs
      exact h
  | halt => exact minv_halt cfg st st' m h hs
  | restart => exact minv_restart cfg st st' m hg hp h hs

/-- everything that is carried along a run -/
structure AllInv (cfg : Cfg) (st : State) (m : Mon) : Prop where
  g : GInv cfg st
  ns : NS cfg st
  p : PInv st
  v : MInv st m

theorem runM_inv (cfg : Cfg) (hC : cfg.saveOnCreate = true) (hD : cfg.saveOnDelete = true) (hre : cfg.rearm = true)
    (x : State × Mon) (ls : List Label) (h : AllInv cfg x.1 x.2) :
    AllInv cfg (runM cfg x ls).1 (runM cfg x ls).2 := by
  induction ls generalizing x with
  | nil => exact h
  | cons l ls ih =>
    simp only [runM]
    cases hs : step cfg x.1 l with
    | none => exact ih x h
    | some st' =>
      exact ih (st', monStep x.1 l x.2)
        ⟨step_ginv cfg _ _ l h.g hs, step_ns cfg hre _ _ l h.g h.ns hs, step_pinv cfg hC hD _ _ l h.g h.p hs,
          step_minv cfg _ _ l _ h.g h.p h.v hs⟩

theorem allinv_init (cfg : Cfg) (n : Nat) (l : Nat → Bool) (p : Nat → Bytes) (f : Ev → Bool) (o : Bool) :
    AllInv cfg (init n l p f o) mon0 :=
  ⟨ginv_init cfg n l p f o, by intro s d h; simp [init] at h, pinv_init n l p f o, minv_init n l p f o⟩

/-- **the specification from a clean schedule**: in a quiescent state of a running service with the pipe alive, a
listening source whose schedule was clean has exactly the events written after the creation that pass the filter, once, in
stored order, provenance appended — in the pipe partition. No hypothesis about the descriptor. -/
theorem spec_of_clean (cfg : Cfg) (hC : cfg.saveOnCreate = true) (hD : cfg.saveOnDelete = true) (hre : cfg.rearm = true)
    (hf : cfg.applyFilter = true)
    (n : Nat) (l : Nat → Bool) (p : Nat → Bytes) (f : Ev → Bool) (o : Bool) (ls : List Label) (s : Nat) :
    let r := runM cfg (init n l p f o, mon0) ls
    quiescent r.1 = true → r.1.closed = false → r.1.down = false → r.1.pipe = .live → s < r.1.n →
    (r.1.srcs s).listens = true → r.2.clean s = true →
    proj s r.1.dest = specProj r.1 s := by
  intro r hq hcl hdn hl hsn hls hc
  obtain ⟨hg, hns, _, hv⟩ := runM_inv cfg hC hD hre (init n l p f o, mon0) ls (allinv_init cfg n l p f o)
  change GInv cfg r.1 at hg
  change NS cfg r.1 at hns
  change MInv r.1 r.2 at hv
  generalize r.1 = st at *
  generalize r.2 = m at *
  simp only [quiescent, Bool.and_eq_true, List.isEmpty_iff] at hq
  obtain ⟨⟨hpe, hch⟩, hidle⟩ := hq
  obtain ⟨a0, a1, a2, a3, a4⟩ := hv s hc hl hls
  rw [hch, hpe] at a1
  have a1' : m.nextExp s = (st.srcs s).log.length := by simpa [wsum] using a1
  have hwk : (st.srcs s).wk = .none := allIdle_spec st hidle s hsn
  unfold specProj
  simp only [hls, if_true]
  cases hd : (st.srcs s).desc with
  | none =>
    have hca := a2 hd
    have hP := ((hg.1 s).1 hd).1
    rw [hP]
    have : (st.srcs s).log.drop (st.srcs s).createdAt = [] := by
      apply List.drop_eq_nil_of_le; omega
    rw [this]; rfl
  | some d =>
    have hD' := a3 d hd
    obtain ⟨b1, b2, b3, b4, _, b6, _, _⟩ := (hg.1 s).2 d hd
    simp only [curOf, hwk] at b2 b3 b6
    have hchg : d.charged = false := b4.mpr hwk
    have hnostart : noStart cfg st = false := by simp [noStart, hcl, hl]
    have hpos : d.pos = (st.srcs s).log.length := by
      rcases hns s d hd with h1 | h1 | h1 | h1
      · rw [hnostart] at h1; cases h1
      · rw [hchg] at h1; cases h1
      · rcases hD'.dis with h2 | h2 <;> omega
      · rw [hD'.stale] at h1; cases h1
    rw [b6, hD'.start, hpos]
    simp only [sel, hf, if_true]
    have hsl : slice (st.srcs s).log (st.srcs s).createdAt (st.srcs s).log.length =
        (st.srcs s).log.drop (st.srcs s).createdAt := by
      unfold slice
      apply List.take_of_length_le; simp
    rw [hsl]

end Logrange.PipeLts
